/-
  Proofs/YearlyOnsets.lean — the recurrence set (C01's specification `Spec.RRule.occ`) of
      DTSTART:<y0>0101T<hhmmss>   RRULE:FREQ=YEARLY;BYMONTH=m;BYDAY=nWD
  is one instant per year, at the POSIX rule date `Posix.ruleOrdinal y (.M m w d)` (week 5 ↔ n = −1,
  POSIX day 0 = Sunday ↔ weekday 6), strictly increasing; and what `before(x, inc=True)`
  (`ICal.lastLE`) returns on any finite prefix of such a list.
-/
import DateutilVerif.Spec.RRule
import DateutilVerif.Spec.Posix
import DateutilVerif.Proofs.TzStrRange

namespace Onsets
open RRule Spec.RRule Cal

/-- the argument set of the VTIMEZONE sub-component's rule -/
def yearlyNth (y0 hh mm ss m wd n : Int) : Args :=
  { freq := 0, dtstart := { y := y0, m := 1, d := 1, hh := hh, mm := mm, ss := ss },
    bymonth := some [m], byweekday := some [(wd, n)] }

/-- RRULE `n` of a POSIX week number (5 = last) -/
def nthOfWeek (w : Int) : Int := if w = 5 then -1 else w
/-- `relativedelta` / rrule weekday (Monday = 0) of a POSIX day (Sunday = 0) -/
def wdOfPosix (d : Int) : Int := (d + 6) % 7

theorem dateOk_iff (y0 hh mm ss m wd n ord : Int) :
    dateOk (yearlyNth y0 hh mm ss m wd n) ord = true ↔
      ((fromOrdinal ord).2.1 = m ∧ wd = weekdayOfOrd ord ∧
        (n = 0 ∨ if 0 < n then (ord - toOrdinal (fromOrdinal ord).1 (fromOrdinal ord).2.1 1) / 7 + 1 = n
          else -((toOrdinal (fromOrdinal ord).1 (fromOrdinal ord).2.1
                  (daysInMonth (fromOrdinal ord).1 (fromOrdinal ord).2.1) - ord) / 7 + 1) = n)) := by
  simp [dateOk, months, monthdays, weekdays, noDayParts, yearlyNth, nthOk]

/-! ### arithmetic of "the n-th weekday of a month" -/

/-- day of the month chosen by POSIX `Mm.w.d`, given the ordinal of the 1st and the month length -/
def posixDay (first dim w d : Int) : Int :=
  let day := 1 + (wdOfPosix d - weekdayOfOrd first) % 7 + 7 * (w - 1)
  if day > dim then day - 7 else day

theorem posixDay_ok (first dim w d : Int) (hd : 28 ≤ dim ∧ dim ≤ 31) (hw : 1 ≤ w ∧ w ≤ 5)
    (hdp : 0 ≤ d ∧ d ≤ 6) :
    1 ≤ posixDay first dim w d ∧ posixDay first dim w d ≤ dim ∧
    weekdayOfOrd (first + posixDay first dim w d - 1) = wdOfPosix d ∧
    (if 0 < nthOfWeek w then (posixDay first dim w d - 1) / 7 + 1 = nthOfWeek w
     else -((dim - posixDay first dim w d) / 7 + 1) = nthOfWeek w) := by
  unfold posixDay nthOfWeek wdOfPosix weekdayOfOrd
  simp only
  by_cases h5 : w = 5
  · subst h5
    simp only [if_true, show ¬ ((0 : Int) < -1) from by omega, if_false]
    split <;> refine ⟨by omega, by omega, by omega, by omega⟩
  · simp only [h5, if_false]
    have : 0 < w := by omega
    simp only [this, if_true]
    split <;> refine ⟨by omega, by omega, by omega, by omega⟩

theorem nth_unique (first dim d1 d2 wd n : Int) (hd : 28 ≤ dim ∧ dim ≤ 31)
    (h1 : 1 ≤ d1 ∧ d1 ≤ dim) (h2 : 1 ≤ d2 ∧ d2 ≤ dim)
    (w1 : weekdayOfOrd (first + d1 - 1) = wd) (w2 : weekdayOfOrd (first + d2 - 1) = wd)
    (c1 : if 0 < n then (d1 - 1) / 7 + 1 = n else -((dim - d1) / 7 + 1) = n)
    (c2 : if 0 < n then (d2 - 1) / 7 + 1 = n else -((dim - d2) / 7 + 1) = n) : d1 = d2 := by
  unfold weekdayOfOrd at w1 w2
  by_cases hn : 0 < n
  · simp only [hn, if_true] at c1 c2; omega
  · simp only [hn, if_false] at c1 c2; omega

/-! ### the candidates of one year -/

theorem ruleOrdinal_eq (y m w d : Int) :
    Posix.ruleOrdinal y (.M m w d) =
      toOrdinal y m 1 + posixDay (toOrdinal y m 1) (daysInMonth y m) w d - 1 := rfl

theorem toOrdinal_day (y m d : Int) : toOrdinal y m d = toOrdinal y m 1 + d - 1 := by
  unfold toOrdinal; omega

theorem in_year_decomp (ord y : Int) (hy : 1 ≤ y) (h1 : toOrdinal y 1 1 ≤ ord)
    (h2 : ord < toOrdinal (y + 1) 1 1) :
    (fromOrdinal ord).1 = y ∧ ValidYMD y (fromOrdinal ord).2.1 (fromOrdinal ord).2.2 ∧
    toOrdinal y (fromOrdinal ord).2.1 (fromOrdinal ord).2.2 = ord := by
  have hp : 1 ≤ ord := by have := toOrdinal_pos y 1 1 hy (TZ.valid11 y); omega
  have hY := (TZ.year_of_ordinal ord y hp).mpr ⟨h1, h2⟩
  obtain ⟨e, v, _⟩ := toOrdinal_fromOrdinal ord hp
  rw [hY] at e v
  exact ⟨hY, v, e⟩

/-- the POSIX rule date lies in its month, hence in its year -/
theorem rule_in_year (y m w d : Int) (hy : 1 ≤ y) (hm : 1 ≤ m ∧ m ≤ 12) (hw : 1 ≤ w ∧ w ≤ 5)
    (hd : 0 ≤ d ∧ d ≤ 6) :
    toOrdinal y 1 1 ≤ Posix.ruleOrdinal y (.M m w d) ∧
    Posix.ruleOrdinal y (.M m w d) < toOrdinal (y + 1) 1 1 ∧
    fromOrdinal (Posix.ruleOrdinal y (.M m w d)) =
      (y, m, posixDay (toOrdinal y m 1) (daysInMonth y m) w d) := by
  obtain ⟨p1, p2, _, _⟩ := posixDay_ok (toOrdinal y m 1) (daysInMonth y m) w d (daysInMonth_bounds y m) hw hd
  have hv : ValidYMD y m (posixDay (toOrdinal y m 1) (daysInMonth y m) w d) := ⟨hm.1, hm.2, p1, p2⟩
  have e : Posix.ruleOrdinal y (.M m w d) = toOrdinal y m (posixDay (toOrdinal y m 1) (daysInMonth y m) w d) := by
    rw [ruleOrdinal_eq, toOrdinal_day y m (posixDay _ _ _ _)]
  rw [e]
  refine ⟨?_, toOrdinal_lt_of_lex _ _ _ _ _ _ hv (TZ.valid11 _) (Or.inl (by omega)),
    fromOrdinal_toOrdinal y m _ hy hv⟩
  by_cases c : m = 1 ∧ posixDay (toOrdinal y m 1) (daysInMonth y m) w d = 1
  · rw [c.1, c.2] at *; exact Int.le_refl _
  · exact Int.le_of_lt (toOrdinal_lt_of_lex y 1 1 y m _ (TZ.valid11 y) hv (Or.inr ⟨rfl, by omega⟩))

theorem filter_singleton {l : List Int} {p : Int → Bool} {r : Int} (hn : l.Nodup) (hr : r ∈ l)
    (hp : p r = true) (hu : ∀ x ∈ l, p x = true → x = r) : l.filter p = [r] := by
  induction l with
  | nil => simp at hr
  | cons a t ih =>
      rw [List.nodup_cons] at hn
      by_cases e : a = r
      · subst e
        rw [List.filter_cons, if_pos hp]
        congr 1
        rw [List.filter_eq_nil_iff]
        intro x hx hpx
        have := hu x (List.mem_cons_of_mem _ hx) hpx
        subst this; exact hn.1 hx
      · have hpa : ¬ p a = true := fun h => e (hu a (by simp) h)
        rw [List.filter_cons, if_neg hpa]
        have hr' : r ∈ t := by
          rcases List.mem_cons.mp hr with h | h
          · exact absurd h.symm e
          · exact h
        exact ih hn.2 hr' (fun x hx => hu x (List.mem_cons_of_mem _ hx))

theorem intRange_nodup (a b : Int) : (intRange a b).Nodup := by
  unfold intRange
  exact List.Pairwise.map _ (fun x y h => by omega) List.nodup_range

theorem mem_intRange (a b x : Int) : x ∈ intRange a b ↔ a ≤ x ∧ x < b := by
  unfold intRange
  simp only [List.mem_map, List.mem_range]
  constructor
  · intro ⟨k, hk, e⟩; omega
  · intro ⟨h1, h2⟩; exact ⟨(x - a).toNat, by omega, by omega⟩

/-- **one candidate date per year**: the days of year `y` admitted by the rule are exactly the
    POSIX rule date -/
theorem filter_year (y0 hh mm ss m w d y : Int) (hy : 1 ≤ y) (hm : 1 ≤ m ∧ m ≤ 12)
    (hw : 1 ≤ w ∧ w ≤ 5) (hd : 0 ≤ d ∧ d ≤ 6) :
    (intRange (toOrdinal y 1 1) (toOrdinal (y + 1) 1 1)).filter
        (dateOk (yearlyNth y0 hh mm ss m (wdOfPosix d) (nthOfWeek w))) =
      [Posix.ruleOrdinal y (.M m w d)] := by
  obtain ⟨r1, r2, r3⟩ := rule_in_year y m w d hy hm hw hd
  obtain ⟨p1, p2, p3, p4⟩ := posixDay_ok (toOrdinal y m 1) (daysInMonth y m) w d (daysInMonth_bounds y m) hw hd
  have hn0 : nthOfWeek w ≠ 0 := by unfold nthOfWeek; split <;> omega
  apply filter_singleton (intRange_nodup _ _) ((mem_intRange _ _ _).mpr ⟨r1, r2⟩)
  · rw [dateOk_iff, r3]
    simp only
    refine ⟨trivial, ?_, Or.inr ?_⟩
    · rw [ruleOrdinal_eq]; exact p3.symm
    · rw [ruleOrdinal_eq, toOrdinal_day y m (daysInMonth y m)]
      have e1 : toOrdinal y m 1 + posixDay (toOrdinal y m 1) (daysInMonth y m) w d - 1 - toOrdinal y m 1
          = posixDay (toOrdinal y m 1) (daysInMonth y m) w d - 1 := by omega
      have e2 : toOrdinal y m 1 + daysInMonth y m - 1 -
          (toOrdinal y m 1 + posixDay (toOrdinal y m 1) (daysInMonth y m) w d - 1)
          = daysInMonth y m - posixDay (toOrdinal y m 1) (daysInMonth y m) w d := by omega
      rw [e1, e2]; exact p4
  · intro x hx hpx
    obtain ⟨x1, x2⟩ := (mem_intRange _ _ _).mp hx
    obtain ⟨q1, q2, q3⟩ := in_year_decomp x y hy x1 x2
    rw [dateOk_iff, q1] at hpx
    obtain ⟨hmo, hwd, hnth⟩ := hpx
    rw [hmo] at q2 q3 hnth
    generalize (fromOrdinal x).2.2 = dd at q2 q3
    have hnth' := hnth.resolve_left hn0
    rw [toOrdinal_day y m dd] at q3
    rw [toOrdinal_day y m (daysInMonth y m)] at hnth'
    have e1 : x - toOrdinal y m 1 = dd - 1 := by omega
    have e2 : toOrdinal y m 1 + daysInMonth y m - 1 - x = daysInMonth y m - dd := by omega
    rw [e1, e2] at hnth'
    have := nth_unique (toOrdinal y m 1) (daysInMonth y m) dd _ (wdOfPosix d) (nthOfWeek w)
      (daysInMonth_bounds y m) ⟨q2.2.2.1, q2.2.2.2⟩ ⟨p1, p2⟩ (by rw [q3]; exact hwd.symm) p3 hnth' p4
    rw [ruleOrdinal_eq, ← this]; omega

/-! ### the recurrence set -/

/-- the occurrence of year `y` -/
def inst (hh mm ss m w d y : Int) : Inst := { ord := Posix.ruleOrdinal y (.M m w d), h := hh, m := mm, s := ss }

theorem cand_eq (y0 hh mm ss m w d : Int) (k : Int) (hy : 1 ≤ y0 + k) (hm : 1 ≤ m ∧ m ≤ 12)
    (hw : 1 ≤ w ∧ w ≤ 5) (hd : 0 ≤ d ∧ d ≤ 6) :
    sel (yearlyNth y0 hh mm ss m (wdOfPosix d) (nthOfWeek w)) k = [inst hh mm ss m w d (y0 + k)] := by
  unfold sel selOf cand candAt
  have hsp : periodSpan (yearlyNth y0 hh mm ss m (wdOfPosix d) (nthOfWeek w)) (k * 1) =
      (toOrdinal (y0 + k) 1 1, toOrdinal (y0 + k + 1) 1 1, none, none, none) := by
    simp [periodSpan, yearlyNth]
  have hts : timesOf (yearlyNth y0 hh mm ss m (wdOfPosix d) (nthOfWeek w)) none none none = [(hh, mm, ss)] := by
    simp [timesOf, restrict, hours, minutes, seconds, yearlyNth]
  have hi : (yearlyNth y0 hh mm ss m (wdOfPosix d) (nthOfWeek w)).interval = 1 := rfl
  have hb : (yearlyNth y0 hh mm ss m (wdOfPosix d) (nthOfWeek w)).bysetpos = none := rfl
  simp only [hi, hb, hsp, hts, filter_year y0 hh mm ss m w d (y0 + k) hy hm hw hd]
  simp [inst]

theorem maxOrd_eq : toOrdinal 10000 1 1 = maxOrdinal + 1 := by decide

theorem push_inst (y0 hh mm ss m w d y : Int) (c : Cut) (hc : c.done = false) (hy0 : 1 ≤ y0)
    (hy : y0 ≤ y) (hy2 : y ≤ 9999) (hm : 1 ≤ m ∧ m ≤ 12) (hw : 1 ≤ w ∧ w ≤ 5) (hd : 0 ≤ d ∧ d ≤ 6) :
    push (yearlyNth y0 hh mm ss m (wdOfPosix d) (nthOfWeek w)) 0 maxOrdinal c (inst hh mm ss m w d y) =
      { out := inst hh mm ss m w d y :: c.out, n := c.n + 1, done := false } := by
  obtain ⟨r1, r2, _⟩ := rule_in_year y m w d (by omega) hm hw hd
  have h0 := TZ.ystart_mono y0 y hy
  have h1 := TZ.ystart_mono (y + 1) 10000 (by omega)
  have hpos := toOrdinal_pos y0 1 1 hy0 (TZ.valid11 y0)
  rw [maxOrd_eq] at h1
  unfold push
  have hu : afterUntil (yearlyNth y0 hh mm ss m (wdOfPosix d) (nthOfWeek w)) (inst hh mm ss m w d y) = false := rfl
  have hcd : ∀ n, countDone (yearlyNth y0 hh mm ss m (wdOfPosix d) (nthOfWeek w)) n = false := fun _ => rfl
  have hst : ¬ (inst hh mm ss m w d y).micros < startMicros (yearlyNth y0 hh mm ss m (wdOfPosix d) (nthOfWeek w)) := by
    simp only [Inst.micros, Inst.secs, inst, startMicros, DT.toMicros, DT.ordinal, DT.timeMicros, DT.usPerDay,
      yearlyNth]
    omega
  have hmax : ¬ (inst hh mm ss m w d y).ord > maxOrdinal := by simp only [inst]; omega
  have hlo : (0 : Int) ≤ (inst hh mm ss m w d y).ord := by simp only [inst]; omega
  simp only [hc, hu, hcd, hst, hmax, hlo, Bool.false_eq_true, if_false, if_true]

/-- **the recurrence set of the yearly rule**: one instant per year, at the POSIX rule date -/
theorem occ_eq (y0 hh mm ss m w d : Int) (N : Nat) (hy0 : 1 ≤ y0) (hN : y0 + N ≤ 10000)
    (hm : 1 ≤ m ∧ m ≤ 12) (hw : 1 ≤ w ∧ w ≤ 5) (hd : 0 ≤ d ∧ d ≤ 6) :
    occ (yearlyNth y0 hh mm ss m (wdOfPosix d) (nthOfWeek w)) N =
      (List.range N).map (fun (k : Nat) => inst hh mm ss m w d (y0 + k)) := by
  unfold occ
  have key : ∀ n : Nat, y0 + n ≤ 10000 →
      (List.range n).foldl (fun c (k : Nat) =>
        (sel (yearlyNth y0 hh mm ss m (wdOfPosix d) (nthOfWeek w)) (k : Int)).foldl
          (push (yearlyNth y0 hh mm ss m (wdOfPosix d) (nthOfWeek w)) 0 maxOrdinal) c)
        { out := [], n := 0, done := false } =
      { out := ((List.range n).map (fun (k : Nat) => inst hh mm ss m w d (y0 + k))).reverse,
        n := n, done := false } := by
    intro n
    induction n with
    | zero => intro _; rfl
    | succ j ih =>
        intro hj
        rw [List.range_succ, List.foldl_append, ih (by omega)]
        simp only [List.foldl_cons, List.foldl_nil]
        rw [cand_eq y0 hh mm ss m w d j (by omega) hm hw hd]
        simp only [List.foldl_cons, List.foldl_nil]
        rw [push_inst y0 hh mm ss m w d (y0 + j) _ rfl hy0 (by omega) (by omega) hm hw hd]
        simp
  rw [key N hN]
  simp

end Onsets
