/- Proofs/Encode.lean — byte-level round-trip lemmas for `Spec.encode` / `TZ.decode`. -/
import DateutilVerif.Spec.Zones

namespace TZ
open Spec

theorem toNat_ofNat (k : Nat) : (UInt8.ofNat k).toNat = k % 256 := by
  simp [UInt8.toNat_ofNat']

theorem recomb (u : Nat) (h : u < 4294967296) :
    (((u / 16777216 % 256 % 256) * 256 + (u / 65536 % 256 % 256)) * 256 + (u / 256 % 256 % 256)) * 256
      + (u % 256 % 256) = u := by omega

/-- the unsigned 32-bit value written by `be32` -/
def u32 (x : Int) : Nat := (if x < 0 then x + 4294967296 else x).toNat

theorem be32_eq (x : Int) : be32 x =
    [UInt8.ofNat (u32 x / 16777216 % 256), UInt8.ofNat (u32 x / 65536 % 256),
     UInt8.ofNat (u32 x / 256 % 256), UInt8.ofNat (u32 x % 256)] := rfl

theorem be32s_bytes (x : Int) (h1 : -2147483648 ≤ x) (h2 : x < 2147483648) :
    be32s (UInt8.ofNat (u32 x / 16777216 % 256)) (UInt8.ofNat (u32 x / 65536 % 256))
      (UInt8.ofNat (u32 x / 256 % 256)) (UInt8.ofNat (u32 x % 256)) = x := by
  have hu : u32 x < 4294967296 := by unfold u32; split <;> omega
  have hr := recomb (u32 x) hu
  unfold be32s be32u
  simp only [toNat_ofNat]
  have hr' : (((((u32 x / 16777216 % 256 % 256 : Nat) : Int) * 256 + ((u32 x / 65536 % 256 % 256 : Nat) : Int)) * 256
      + ((u32 x / 256 % 256 % 256 : Nat) : Int)) * 256 + ((u32 x % 256 % 256 : Nat) : Int)) = (u32 x : Int) := by
    omega
  rw [hr']
  have hx : (u32 x : Int) = if x < 0 then x + 4294967296 else x := by
    unfold u32; split <;> omega
  rw [hx]
  by_cases hneg : x < 0
  · simp only [hneg, if_true]; split <;> omega
  · simp only [hneg, if_false]; split <;> omega

theorem be32List_cons4 (a b c d : UInt8) (rest : List UInt8) :
    be32List (a :: b :: c :: d :: rest) = (be32List rest).map (be32s a b c d :: ·) := by
  rw [be32List]

/-- 32-bit big-endian round trip -/
theorem be32s_be32 (x : Int) (h1 : -2147483648 ≤ x) (h2 : x < 2147483648) (rest : List UInt8) :
    be32List (be32 x ++ rest) = (be32List rest).map (x :: ·) := by
  rw [be32_eq]
  simp only [List.cons_append, List.nil_append]
  rw [be32List_cons4, be32s_bytes x h1 h2]

theorem s8_u8 (x : Int) (h1 : -128 ≤ x) (h2 : x < 128) : s8 (u8 x) = x := by
  simp only [s8, u8, toNat_ofNat]
  split <;> split <;> omega

theorem take_app {α} (a b : List α) : (a ++ b).take a.length = a := by
  induction a with
  | nil => simp
  | cons x l ih => simp [ih]

theorem drop_app {α} (a b : List α) : (a ++ b).drop a.length = b := by
  induction a with
  | nil => simp
  | cons x l ih => simp [ih]

theorem readN_app (a b : List UInt8) (n : Int) (h : n = a.length) : readN (a ++ b) n = (a, b) := by
  subst h
  unfold readN
  rw [if_neg (by omega)]
  simp [take_app, drop_app]


def In32 (x : Int) : Prop := -2147483648 ≤ x ∧ x < 2147483648

theorem be32_length (x : Int) : (be32 x).length = 4 := rfl

theorem be32List_flatMap {α} (g : α → Int) : ∀ (l : List α), (∀ p ∈ l, In32 (g p)) →
    be32List (l.flatMap (fun p => be32 (g p))) = some (l.map g) ∧
    (l.flatMap (fun p => be32 (g p))).length = 4 * l.length := by
  intro l
  induction l with
  | nil => intro _; exact ⟨rfl, rfl⟩
  | cons a l ih =>
      intro h
      obtain ⟨h1, h2⟩ := ih (fun p hp => h p (by simp [hp]))
      have ha := h a (by simp)
      refine ⟨?_, ?_⟩
      · rw [List.flatMap_cons, be32s_be32 _ ha.1 ha.2, h1]; rfl
      · rw [List.flatMap_cons, List.length_append, h2, be32_length, List.length_cons]; omega

theorem readLongs_app {α} (g : α → Int) (l : List α) (rest : List UInt8) (h : ∀ p ∈ l, In32 (g p)) :
    readLongs (l.flatMap (fun p => be32 (g p)) ++ rest) l.length = .ok (l.map g, rest) := by
  obtain ⟨h1, h2⟩ := be32List_flatMap g l h
  unfold readLongs
  by_cases h0 : l.length = 0
  · have : l = [] := List.eq_nil_of_length_eq_zero h0
    subst this; simp
  · have e : ((l.length : Int) == 0) = false := by apply beq_eq_false_iff_ne.mpr; omega
    rw [e]
    simp only [Bool.false_eq_true, if_false]
    rw [if_neg (by omega), readN_app _ _ _ (by rw [h2]; omega)]
    simp only [h2, h1]
    rw [if_neg (by simp; omega)]

theorem readBytes_app (a rest : List UInt8) : readBytes (a ++ rest) a.length = .ok (a, rest) := by
  unfold readBytes
  by_cases h0 : a.length = 0
  · have : a = [] := List.eq_nil_of_length_eq_zero h0
    subst this; simp
  · have e : ((a.length : Int) == 0) = false := by apply beq_eq_false_iff_ne.mpr; omega
    rw [e]
    simp only [Bool.false_eq_true, if_false]
    rw [if_neg (by omega), readN_app _ _ _ rfl]
    simp


/-! ### ttinfo records, abbreviation table, flags -/

def TypeOK (t : TType) : Prop :=
  In32 t.off ∧ -128 ≤ t.isdst ∧ t.isdst < 128 ∧ t.dstoff = 0 ∧ ∀ c ∈ t.abbr, c ≠ 0 ∧ c < 128

/-- the record `encode` writes for a type and its abbreviation index -/
def recBytes (p : TType × Nat) : List UInt8 := be32 p.1.off ++ [u8 p.1.isdst, UInt8.ofNat p.2]
/-- … and what `struct.unpack(">lbB")` reads back -/
def recOf (p : TType × Nat) : Int × Int × Int := (p.1.off, s8 (u8 p.1.isdst), ((UInt8.ofNat p.2).toNat : Int))

theorem readTtinfo_app : ∀ (l : List (TType × Nat)) (rest : List UInt8), (∀ p ∈ l, In32 p.1.off) →
    readTtinfo l.length (l.flatMap recBytes ++ rest) = .ok (l.map recOf, rest) := by
  intro l
  induction l with
  | nil => intro rest _; rfl
  | cons a l ih =>
      intro rest h
      have ha := h a (by simp)
      have := ih rest (fun p hp => h p (by simp [hp]))
      rw [List.flatMap_cons, List.length_cons]
      have hb : recBytes a = [UInt8.ofNat (u32 a.1.off / 16777216 % 256), UInt8.ofNat (u32 a.1.off / 65536 % 256),
          UInt8.ofNat (u32 a.1.off / 256 % 256), UInt8.ofNat (u32 a.1.off % 256), u8 a.1.isdst, UInt8.ofNat a.2] := by
        simp [recBytes, be32_eq]
      rw [hb]
      simp only [List.cons_append, List.nil_append, List.append_assoc]
      rw [readTtinfo, this]
      simp only [bind, Except.bind, List.map_cons, recOf, be32s_bytes _ ha.1 ha.2]

theorem abbrBlock_append (a b : List TType) : abbrBlock (a ++ b) = abbrBlock a ++ abbrBlock b := by
  simp [abbrBlock]

theorem takeWhile_nonzero (a rest : List UInt8) (h : ∀ c ∈ a, c ≠ 0) :
    (a ++ 0 :: rest).takeWhile (· != 0) = a := by
  induction a with
  | nil => simp
  | cons x l ih =>
      have hx := h x (by simp)
      simp only [List.cons_append, List.takeWhile_cons]
      rw [if_pos (by simpa using hx), ih (fun c hc => h c (by simp [hc]))]

/-- slicing the table at a type's start index gives back its abbreviation -/
theorem abbrAt_block (pre rest : List UInt8) (a : List UInt8) (h : ∀ c ∈ a, c ≠ 0) :
    abbrAt (pre ++ (a ++ [0]) ++ rest) (pre.length : Int) = a := by
  have hd : (pre ++ (a ++ [0]) ++ rest).drop pre.length = a ++ 0 :: rest := by
    rw [List.append_assoc, drop_app]; simp
  have hl : pre.length ≤ (pre ++ (a ++ [0]) ++ rest).length := by simp
  generalize pre ++ (a ++ [0]) ++ rest = T at hd hl
  unfold abbrAt
  simp only
  have e : ((pre.length : Int)).toNat = pre.length := by omega
  rw [if_neg (show ¬ ((pre.length : Int) < 0) from by omega),
    if_neg (show ¬ ((pre.length : Int) > (T.length : Int)) from by omega), e, hd]
  have : (a ++ 0 :: rest).any (· == 0) = true := by simp
  rw [if_pos this, takeWhile_nonzero a rest h]

theorem flagAt_map (done : List TType) (t : TType) (ts : List TType) (g : TType → Bool) :
    flagAt ((done ++ t :: ts).map (fun t => if g t then (1 : UInt8) else 0)) done.length = g t := by
  unfold flagAt
  rw [List.map_append, List.getElem?_append_right (by simp)]
  simp
  cases g t <;> simp

/-- lines 613-625 applied to what `encode` wrote give the types back -/
theorem mkTypesFrom_spec : ∀ (ts done : List TType), (∀ t ∈ done ++ ts, TypeOK t) →
    (abbrBlock (done ++ ts)).length ≤ 256 →
    mkTypesFrom (abbrBlock (done ++ ts))
      ((done ++ ts).map (fun t => if t.isstd then (1 : UInt8) else 0))
      ((done ++ ts).map (fun t => if t.isgmt then (1 : UInt8) else 0))
      done.length ((ts.zip (abbrIdx (abbrBlock done).length ts)).map recOf) = ts := by
  intro ts
  induction ts with
  | nil => intro done _ _; rfl
  | cons t ts ih =>
      intro done hok hlen
      have ht := hok t (by simp)
      obtain ⟨_, hd1, hd2, hd0, habbr⟩ := ht
      have hk : (abbrBlock done).length < 256 := by
        rw [abbrBlock_append] at hlen
        simp only [abbrBlock, List.flatMap_cons, List.length_append, List.length_cons] at hlen ⊢
        omega
      simp only [abbrIdx, List.zip_cons_cons, List.map_cons, mkTypesFrom, recOf]
      have e1 : (((UInt8.ofNat (abbrBlock done).length).toNat : Nat) : Int) = ((abbrBlock done).length : Int) := by
        simp only [toNat_ofNat]; omega
      have e2 : abbrBlock (done ++ t :: ts) = abbrBlock done ++ (t.abbr ++ [0]) ++ abbrBlock ts := by
        simp [abbrBlock]
      have ih' := ih (done ++ [t]) (by simpa using hok) (by simpa using hlen)
      have e3 : (abbrBlock (done ++ [t])).length = (abbrBlock done).length + t.abbr.length + 1 := by
        simp [abbrBlock]; omega
      rw [e3] at ih'
      simp only [List.append_assoc, List.cons_append, List.nil_append, List.length_append,
        List.length_cons, List.length_nil] at ih'
      congr 1
      rw [e1, e2, abbrAt_block _ _ _ (fun c hc => (habbr c hc).1), s8_u8 _ hd1 hd2,
        flagAt_map done t ts (fun t => t.isstd), flagAt_map done t ts (fun t => t.isgmt)]
      cases t; simp_all

end TZ
