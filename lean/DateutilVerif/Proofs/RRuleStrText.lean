/-
  Proofs/RRuleStrText.lean — ASCII text lemmas for C13: decimal printing/reading round trips,
  `split`/`join`, `upper`, `strip` on the character classes `rrule.__str__` emits.
-/
import DateutilVerif.Model.RRuleStr

namespace RRuleStr
open ICal (isSpace upper splitOnChar pyInt rstrip strip isDigit splitLines digitsUnderscore)

/-! ### characters as numbers -/

theorem char_le_iff (a b : Char) : a ≤ b ↔ a.toNat ≤ b.toNat := by
  rw [Char.le_def, UInt32.le_iff_toNat_le]; rfl

theorem char_eq_iff (a b : Char) : a = b ↔ a.toNat = b.toNat := Char.toNat_inj.symm

theorem toNat_ofNat (n : Nat) (h : n < 55296) : (Char.ofNat n).toNat = n := by
  unfold Char.ofNat
  have : n.isValidChar := Or.inl h
  simp [this, Char.toNat, Char.ofNatAux]

theorem digitChar_toNat (d : Nat) (h : d < 10) : (digitChar d).toNat = 48 + d :=
  toNat_ofNat _ (by omega)

theorem isDigit_iff (c : Char) : isDigit c = true ↔ 48 ≤ c.toNat ∧ c.toNat ≤ 57 := by
  simp [isDigit, char_le_iff]

theorem isDigit_digitChar (d : Nat) (h : d < 10) : isDigit (digitChar d) = true := by
  rw [isDigit_iff, digitChar_toNat d h]; omega

/-- upper-case letters, digits, sign characters: what the atoms of `str(rule)` are made of -/
def isAtom (c : Char) : Bool := isDigit c || ('A' ≤ c && c ≤ 'Z') || c == '+' || c == '-'

theorem isAtom_iff (c : Char) : isAtom c = true ↔
    (48 ≤ c.toNat ∧ c.toNat ≤ 57) ∨ (65 ≤ c.toNat ∧ c.toNat ≤ 90) ∨ c.toNat = 43 ∨ c.toNat = 45 := by
  simp [isAtom, isDigit, char_le_iff, char_eq_iff]; omega

def isLower (c : Char) : Bool := 'a' ≤ c && c ≤ 'z'

theorem isLower_iff (c : Char) : isLower c = true ↔ 97 ≤ c.toNat ∧ c.toNat ≤ 122 := by
  simp [isLower, char_le_iff]

theorem isSpace_iff (c : Char) : isSpace c = true ↔
    c.toNat = 32 ∨ c.toNat = 9 ∨ c.toNat = 10 ∨ c.toNat = 13 ∨ c.toNat = 11 ∨ c.toNat = 12 ∨ (28 ≤ c.toNat ∧ c.toNat ≤ 31) := by
  simp [isSpace, char_eq_iff]; omega

/-! ### `upper` -/

def upperChar (c : Char) : Char := if 'a' ≤ c ∧ c ≤ 'z' then Char.ofNat (c.toNat - 32) else c

theorem upper_eq_map (s : List Char) : upper s = s.map upperChar := rfl

theorem upperChar_toNat (c : Char) :
    (upperChar c).toNat = if 97 ≤ c.toNat ∧ c.toNat ≤ 122 then c.toNat - 32 else c.toNat := by
  unfold upperChar
  by_cases h : 97 ≤ c.toNat ∧ c.toNat ≤ 122
  · have h' : 'a' ≤ c ∧ c ≤ 'z' := by simpa [char_le_iff] using h
    rw [if_pos h', if_pos h, toNat_ofNat _ (by omega)]
  · have h' : ¬ ('a' ≤ c ∧ c ≤ 'z') := by simpa [char_le_iff] using h
    rw [if_neg h', if_neg h]

theorem upperChar_not_lower (c : Char) : isLower (upperChar c) = false := by
  rw [Bool.eq_false_iff]; intro h
  rw [isLower_iff, upperChar_toNat] at h
  split at h <;> omega

theorem upperChar_of_not_lower (c : Char) (h : isLower c = false) : upperChar c = c := by
  rw [Bool.eq_false_iff, Ne, isLower_iff] at h
  have h' : ¬ ('a' ≤ c ∧ c ≤ 'z') := by simpa [char_le_iff] using h
  simp [upperChar, h']

theorem upperChar_idem (c : Char) : upperChar (upperChar c) = upperChar c :=
  upperChar_of_not_lower _ (upperChar_not_lower c)

/-- `s.upper().upper() == s.upper()` -/
theorem upper_idem (s : List Char) : upper (upper s) = upper s := by
  simp [upper_eq_map, upperChar_idem]

/-- `upper` is the identity on text without lower-case letters -/
theorem upper_of_noLower (s : List Char) (h : ∀ c ∈ s, isLower c = false) : upper s = s := by
  rw [upper_eq_map]
  induction s with
  | nil => rfl
  | cons c cs ih =>
    simp only [List.map_cons]
    rw [upperChar_of_not_lower c (h c (by simp)), ih (fun d hd => h d (by simp [hd]))]

theorem upper_append (s t : List Char) : upper (s ++ t) = upper s ++ upper t := by
  simp [upper_eq_map]

theorem isAtom_not_lower (c : Char) (h : isAtom c = true) : isLower c = false := by
  rw [Bool.eq_false_iff, Ne, isLower_iff]; rw [isAtom_iff] at h; omega

theorem isAtom_not_space (c : Char) (h : isAtom c = true) : isSpace c = false := by
  rw [Bool.eq_false_iff, Ne, isSpace_iff]; rw [isAtom_iff] at h; omega

/-! ### `strip` -/

theorem dropWhile_of_head {p : Char → Bool} : ∀ (s : List Char), (∀ c, s.head? = some c → p c = false) → s.dropWhile p = s
  | [], _ => rfl
  | c :: cs, h => by simp [h c rfl]

/-- `strip` is the identity on a text whose first and last characters are not whitespace -/
theorem strip_id (s : List Char) (hh : ∀ c, s.head? = some c → isSpace c = false)
    (hl : ∀ c, s.getLast? = some c → isSpace c = false) : strip s = s := by
  unfold strip rstrip
  rw [dropWhile_of_head s hh, dropWhile_of_head s.reverse (by simpa using hl), List.reverse_reverse]

theorem strip_of_noSpace (s : List Char) (h : ∀ c ∈ s, isSpace c = false) : strip s = s := by
  apply strip_id
  · intro c hc; exact h c (List.mem_of_head? hc)
  · intro c hc; exact h c (List.mem_of_getLast? hc)

/-! ### decimal printing and reading -/

/-- the value of a digit string -/
def digitsVal (s : List Char) : Nat := s.foldl (fun a c => a * 10 + (c.toNat - 48)) 0

theorem showNat_lt (n : Nat) (h : n < 10) : showNat n = [digitChar n] := by
  rw [showNat]; simp [h]

theorem showNat_ge (n : Nat) (h : ¬ n < 10) : showNat n = showNat (n / 10) ++ [digitChar (n % 10)] := by
  rw [showNat]; simp [h]

/-- `str(n)` consists of digits only -/
theorem showNat_digits (n : Nat) : ∀ c ∈ showNat n, isDigit c = true := by
  induction n using Nat.strongRecOn with
  | _ n ih =>
    by_cases h : n < 10
    · rw [showNat_lt n h]; intro c hc; simp at hc; subst hc; exact isDigit_digitChar n h
    · rw [showNat_ge n h]; intro c hc
      rcases List.mem_append.mp hc with hc | hc
      · exact ih (n / 10) (by omega) c hc
      · simp at hc; subst hc; exact isDigit_digitChar _ (by omega)

theorem showNat_ne_nil (n : Nat) : showNat n ≠ [] := by
  by_cases h : n < 10
  · rw [showNat_lt n h]; simp
  · rw [showNat_ge n h]; simp

theorem digitsVal_append_single (s : List Char) (c : Char) : digitsVal (s ++ [c]) = digitsVal s * 10 + (c.toNat - 48) := by
  simp [digitsVal, List.foldl_append]

theorem digitsVal_showNat (n : Nat) : digitsVal (showNat n) = n := by
  induction n using Nat.strongRecOn with
  | _ n ih =>
    by_cases h : n < 10
    · rw [showNat_lt n h]; simp [digitsVal, digitChar_toNat n h]
    · rw [showNat_ge n h, digitsVal_append_single, ih (n / 10) (by omega), digitChar_toNat _ (by omega)]
      omega

/-- `showNat_roundtrip`: reading the decimal print of `n` gives `n` back -/
theorem nat?_showNat (n : Nat) : nat? (showNat n) = some n := by
  unfold nat?
  have h1 : (showNat n).isEmpty = false := by
    cases h : showNat n with
    | nil => exact absurd h (showNat_ne_nil n)
    | cons => rfl
  have h2 : (showNat n).all isDigit = true := by
    rw [List.all_eq_true]; exact showNat_digits n
  simp only [h1, h2, Bool.not_false, Bool.and_self, if_true]
  exact congrArg some (digitsVal_showNat n)

theorem digitsUnderscore_go_digits : ∀ (ds : List Char) (acc : Nat), (∀ d ∈ ds, isDigit d = true) →
    digitsUnderscore.go ds acc false = some (ds.foldl (fun a c => a * 10 + (c.toNat - 48)) acc)
  | [], acc, _ => by simp [digitsUnderscore.go]
  | d :: ds, acc, h => by
    have hd : isDigit d = true := h d (by simp)
    rw [digitsUnderscore.go]
    simp only [hd, if_true, List.foldl_cons]
    exact digitsUnderscore_go_digits ds _ (fun e he => h e (by simp [he]))

theorem digitsUnderscore_digits (s : List Char) (hne : s ≠ []) (h : ∀ d ∈ s, isDigit d = true) :
    digitsUnderscore s = some (digitsVal s) := by
  cases s with
  | nil => exact absurd rfl hne
  | cons c cs =>
    have hc : isDigit c = true := h c (by simp)
    rw [digitsUnderscore]
    simp only [hc, Bool.not_true, Bool.false_eq_true, if_false]
    rw [digitsUnderscore_go_digits cs _ (fun e he => h e (by simp [he]))]
    simp [digitsVal]

theorem isDigit_not_space (c : Char) (h : isDigit c = true) : isSpace c = false := by
  rw [Bool.eq_false_iff, Ne, isSpace_iff]; rw [isDigit_iff] at h; omega

/-- `int()` of a non-empty digit string -/
theorem pyInt_digits (s : List Char) (hne : s ≠ []) (h : ∀ d ∈ s, isDigit d = true) :
    pyInt s = some (digitsVal s : Int) := by
  unfold pyInt
  rw [strip_of_noSpace s (fun c hc => isDigit_not_space c (h c hc))]
  cases s with
  | nil => exact absurd rfl hne
  | cons c cs =>
    have hc := (isDigit_iff c).mp (h c (by simp))
    split
    · next r heq => injection heq with h1 _; rw [h1] at hc; exact absurd hc (by decide)
    · next r heq => injection heq with h1 _; rw [h1] at hc; exact absurd hc (by decide)
    · rw [digitsUnderscore_digits _ hne h]; rfl

theorem pyInt_plus_digits (s : List Char) (hne : s ≠ []) (h : ∀ d ∈ s, isDigit d = true) :
    pyInt ('+' :: s) = some (digitsVal s : Int) := by
  unfold pyInt
  rw [strip_of_noSpace ('+' :: s) (by
    intro c hc; rcases List.mem_cons.mp hc with rfl | hc
    · decide
    · exact isDigit_not_space c (h c hc))]
  simp only []
  rw [digitsUnderscore_digits _ hne h]; rfl

theorem pyInt_minus_digits (s : List Char) (hne : s ≠ []) (h : ∀ d ∈ s, isDigit d = true) :
    pyInt ('-' :: s) = some (-(digitsVal s : Int)) := by
  unfold pyInt
  rw [strip_of_noSpace ('-' :: s) (by
    intro c hc; rcases List.mem_cons.mp hc with rfl | hc
    · decide
    · exact isDigit_not_space c (h c hc))]
  simp only []
  rw [digitsUnderscore_digits _ hne h]; rfl

/-- `int(str(i)) == i` -/
theorem pyInt_showInt (i : Int) : pyInt (showInt i) = some i := by
  unfold showInt
  split
  · rw [pyInt_minus_digits _ (showNat_ne_nil _) (showNat_digits _), digitsVal_showNat]; congr 1; omega
  · rw [pyInt_digits _ (showNat_ne_nil _) (showNat_digits _), digitsVal_showNat]; congr 1; omega

/-- `int('%+d' % i) == i` -/
theorem pyInt_showIntSigned (i : Int) : pyInt (showIntSigned i) = some i := by
  unfold showIntSigned
  split
  · rw [pyInt_minus_digits _ (showNat_ne_nil _) (showNat_digits _), digitsVal_showNat]; congr 1; omega
  · rw [pyInt_plus_digits _ (showNat_ne_nil _) (showNat_digits _), digitsVal_showNat]; congr 1; omega

/-! ### `split` / `join` -/

theorem splitOnChar_go_nil (sep : Char) (cur : List Char) (acc : List (List Char)) :
    splitOnChar.go sep [] cur acc = acc.reverse ++ [cur.reverse] := by
  simp [splitOnChar.go]

theorem splitOnChar_go_sep (sep : Char) (rest cur : List Char) (acc : List (List Char)) :
    splitOnChar.go sep (sep :: rest) cur acc = splitOnChar.go sep rest [] (cur.reverse :: acc) := by
  simp [splitOnChar.go]

theorem splitOnChar_go_free (sep : Char) : ∀ (p rest cur : List Char) (acc : List (List Char)), sep ∉ p →
    splitOnChar.go sep (p ++ rest) cur acc = splitOnChar.go sep rest (p.reverse ++ cur) acc
  | [], _, _, _, _ => rfl
  | c :: p, rest, cur, acc, h => by
    have hc : (c == sep) = false := by
      rw [beq_eq_false_iff_ne]; intro e; exact h (by simp [e])
    rw [List.cons_append, splitOnChar.go]
    simp only [hc, Bool.false_eq_true, if_false]
    rw [splitOnChar_go_free sep p rest (c :: cur) acc (fun hm => h (by simp [hm]))]
    simp

theorem intercalate_cons_cons (sep p q : List Char) (qs : List (List Char)) :
    intercalate sep (p :: q :: qs) = p ++ sep ++ intercalate sep (q :: qs) := rfl

theorem splitOnChar_go_intercalate (sep : Char) : ∀ (p : List Char) (ps : List (List Char)) (acc : List (List Char)),
    (∀ q ∈ p :: ps, sep ∉ q) →
    splitOnChar.go sep (intercalate [sep] (p :: ps)) [] acc = acc.reverse ++ (p :: ps)
  | p, [], acc, h => by
    have := splitOnChar_go_free sep p [] [] acc (h p (by simp))
    simp only [List.append_nil] at this
    rw [intercalate, this, splitOnChar_go_nil]; simp
  | p, q :: qs, acc, h => by
    rw [intercalate_cons_cons, List.append_assoc, splitOnChar_go_free sep p _ [] acc (h p (by simp))]
    simp only [List.singleton_append, List.append_nil]
    rw [splitOnChar_go_sep, splitOnChar_go_intercalate sep q qs _ (fun r hr => h r (by simp [List.mem_cons] at hr ⊢; right; exact hr))]
    simp

/-- `sep.join(parts).split(sep) == parts` when no part contains `sep` and there is at least one part -/
theorem splitOnChar_intercalate (sep : Char) (parts : List (List Char)) (hne : parts ≠ [])
    (h : ∀ q ∈ parts, sep ∉ q) : splitOnChar sep (intercalate [sep] parts) = parts := by
  cases parts with
  | nil => exact absurd rfl hne
  | cons p ps =>
    unfold splitOnChar
    rw [splitOnChar_go_intercalate sep p ps [] h]; rfl

theorem splitOnChar_free (sep : Char) (s : List Char) (h : sep ∉ s) : splitOnChar sep s = [s] := by
  have := splitOnChar_intercalate sep [s] (by simp) (by simpa using h)
  simpa [intercalate] using this

theorem splitOnChar_two (sep : Char) (a b : List Char) (ha : sep ∉ a) (hb : sep ∉ b) :
    splitOnChar sep (a ++ sep :: b) = [a, b] := by
  have := splitOnChar_intercalate sep [a, b] (by simp) (by
    intro q hq; simp at hq; rcases hq with rfl | rfl <;> assumption)
  simpa [intercalate] using this

theorem mem_intercalate (sep : List Char) : ∀ (parts : List (List Char)) (c : Char),
    c ∈ intercalate sep parts → c ∈ sep ∨ ∃ p ∈ parts, c ∈ p
  | [], c, h => by simp [intercalate] at h
  | [p], c, h => by right; exact ⟨p, by simp, by simpa [intercalate] using h⟩
  | p :: q :: qs, c, h => by
    rw [intercalate_cons_cons] at h
    rcases List.mem_append.mp h with h | h
    · rcases List.mem_append.mp h with h | h
      · right; exact ⟨p, by simp, h⟩
      · left; exact h
    · rcases mem_intercalate sep (q :: qs) c h with h | ⟨r, hr, hc⟩
      · left; exact h
      · right; exact ⟨r, by simp at hr ⊢; right; exact hr, hc⟩

theorem contains_iff (s : List Char) (c : Char) : s.contains c = true ↔ c ∈ s := by
  simp

/-! ### integer lists -/

theorem showInt_atom (i : Int) : ∀ c ∈ showInt i, isDigit c = true ∨ c = '-' := by
  unfold showInt
  split
  · intro c hc; rcases List.mem_cons.mp hc with rfl | hc
    · right; rfl
    · left; exact showNat_digits _ c hc
  · intro c hc; left; exact showNat_digits _ c hc

theorem showIntSigned_atom (i : Int) : ∀ c ∈ showIntSigned i, isDigit c = true ∨ c = '-' ∨ c = '+' := by
  unfold showIntSigned
  split
  · intro c hc; rcases List.mem_cons.mp hc with rfl | hc
    · right; left; rfl
    · left; exact showNat_digits _ c hc
  · intro c hc; rcases List.mem_cons.mp hc with rfl | hc
    · right; right; rfl
    · left; exact showNat_digits _ c hc

theorem showInt_ne_nil (i : Int) : showInt i ≠ [] := by
  unfold showInt; split
  · simp
  · exact showNat_ne_nil _

theorem isDigit_isAtom (c : Char) (h : isDigit c = true) : isAtom c = true := by
  simp [isAtom, h]

theorem showInt_isAtom (i : Int) : ∀ c ∈ showInt i, isAtom c = true := by
  intro c hc; rcases showInt_atom i c hc with h | rfl
  · exact isDigit_isAtom c h
  · decide

theorem showIntSigned_isAtom (i : Int) : ∀ c ∈ showIntSigned i, isAtom c = true := by
  intro c hc; rcases showIntSigned_atom i c hc with h | rfl | rfl
  · exact isDigit_isAtom c h
  · decide
  · decide

theorem mapM_int!_showInt : ∀ (l : List Int), (l.map showInt).mapM int! = .ok l
  | [] => rfl
  | i :: l => by
    rw [List.map_cons, List.mapM_cons, mapM_int!_showInt l]
    simp [int!, pyInt_showInt, bind, Except.bind, pure, Except.pure]

/-- `[int(x) for x in ','.join(str(v) for v in l).split(',')] == l` for a non-empty `l` -/
theorem intList_showInts (l : List Int) (hne : l ≠ []) : intList (intercalate [','] (l.map showInt)) = .ok l := by
  unfold intList
  rw [splitOnChar_intercalate ',' _ (by simpa using hne) (by
    intro q hq hc
    rcases List.mem_map.mp hq with ⟨i, _, rfl⟩
    have := showInt_isAtom i ',' hc
    revert this; decide)]
  exact mapM_int!_showInt l

end RRuleStr
