/-
  Proofs/RenderClockFinal.lean — lexer + token scan = `parse` on the 12-hour and the h/m/s-letter renderings.
-/
import DateutilVerif.Proofs.RenderClock
import DateutilVerif.Proofs.RenderIsoFinal

namespace PM
open Py PT

section
variable (cls : Char → CClass) [AsciiOK cls]

theorem parse_ampm (yf : Bool) (year century : Int) (o : Opts) (tznames : List Token) (tzi : TzInfos)
    (ho : PlainOpts o tzi) (dflt : DT) (hdv : dflt.Valid) (t : DT) (ht : t.Valid) :
    parse cls (Info.default false yf year century) o tznames tzi dflt (renderAmpm t) =
      .ok { dt := { t with ss := dflt.ss, us := dflt.us }, tz := .naive, tokens := none } := by
  obtain ⟨⟨hy1, hy2, hm1, hm2, hd1, hd2⟩, hh1, hh2, hmi1, hmi2, hs1, hs2, hu1, hu2⟩ := ht
  obtain ⟨_, dh1, dh2, dm1, dm2, hds1, hds2, hdu1, hdu2⟩ := hdv
  have hdim := (Cal.daysInMonth_bounds t.y t.m).2
  have ey : ((t.y.toNat : Nat) : Int) = t.y := Int.toNat_of_nonneg (by omega)
  have em : ((t.m.toNat : Nat) : Int) = t.m := Int.toNat_of_nonneg (by omega)
  have ed : ((t.d.toNat : Nat) : Int) = t.d := Int.toNat_of_nonneg (by omega)
  have eh : ((t.hh.toNat : Nat) : Int) = t.hh := Int.toNat_of_nonneg (by omega)
  have emi : ((t.mm.toNat : Nat) : Int) = t.mm := Int.toNat_of_nonneg (by omega)
  have eds : ((dflt.ss.toNat : Nat) : Int) = dflt.ss := Int.toNat_of_nonneg (by omega)
  have edu : ((dflt.us.toNat : Nat) : Int) = dflt.us := Int.toNat_of_nonneg (by omega)
  have hh24 : t.hh.toNat < 24 := by omega
  have h12a : 1 ≤ h12 t.hh.toNat := by unfold h12; split <;> omega
  have h12b : h12 t.hh.toNat ≤ 12 := by unfold h12; split <;> omega
  -- the AM/PM word
  have hAPlex : scan cls .init (apWord t.hh.toNat) = [apWord t.hh.toNat] := by
    unfold apWord
    split
    · have := lex_aword cls 'A' ['M'] [] (by decide) trivial
      simpa [scan_init_nil] using this
    · have := lex_aword cls 'P' ['M'] [] (by decide) trivial
      simpa [scan_init_nil] using this
  have hAP : floatOk cls (apWord t.hh.toNat) = false ∧ (Info.default false yf year century).weekdayOf (apWord t.hh.toNat) = none ∧
      (Info.default false yf year century).monthOf (apWord t.hh.toNat) = none ∧
      (Info.default false yf year century).ampmOf (apWord t.hh.toNat) = some (if t.hh.toNat < 12 then 0 else 1) := by
    unfold apWord
    split
    · obtain ⟨a, b, c⟩ := am_facts false yf year century
      exact ⟨by rw [floatOk_ascii cls _ (by decide)]; decide, a, b, c⟩
    · obtain ⟨a, b, c⟩ := pm_facts false yf year century
      exact ⟨by rw [floatOk_ascii cls _ (by decide)]; decide, a, b, c⟩
  have hlex : scan cls .init (renderAmpm t) =
      ampmTokens t.y.toNat t.m.toNat t.d.toNat (h12 t.hh.toNat) t.mm.toNat (apWord t.hh.toNat) := by
    have hd12 : ∃ k ks, dec12 (h12 t.hh.toNat) = dtok (k :: ks) ∧ dayTok (h12 t.hh.toNat) = dtok (k :: ks) := by
      unfold dec12 dayTok
      split
      · exact ⟨_, _, rfl, rfl⟩
      · exact ⟨_, _, rfl, rfl⟩
    obtain ⟨k, ks, e1, e2⟩ := hd12
    have e : renderAmpm t = pad4 t.y.toNat ++ ['-'] ++ pad2 t.m.toNat ++ ['-'] ++ pad2 t.d.toNat ++ [' '] ++
        (dtok (k :: ks) ++ (':' :: (pad2 t.mm.toNat ++ (' ' :: apWord t.hh.toNat)))) := by
      simp [renderAmpm, isoDate, e1]
    rw [e, lex_isoDate cls _ _ _ ' ' (Or.inr rfl), lex_dtok cls _ _ _ (numEnds_ascii cls _ _ (by decide)),
        lex_punct cls ':' _ (by decide), lex_pad2 cls _ _ (numEnds_ascii cls _ _ (by decide)), lex_sp, hAPlex]
    simp [ampmTokens, e2]
  unfold parse lex
  rw [hlex]
  have hv : (DT.mk (t.y.toNat : Nat) (t.m.toNat : Nat) (t.d.toNat : Nat) (t.hh.toNat : Nat) (t.mm.toNat : Nat)
      (dflt.ss.toNat : Nat) (dflt.us.toNat : Nat)).Valid := by
    rw [ey, em, ed, eh, emi, eds, edu]
    exact ⟨⟨hy1, hy2, hm1, hm2, hd1, hd2⟩, hh1, hh2, hmi1, hmi2, hds1, hds2, hdu1, hdu2⟩
  have := tok_ampm cls yf year century o tznames tzi ho dflt _ _ _ _ _ _ _ (h12 t.hh.toNat) _ (apWord t.hh.toNat) hAP h12a h12b
    (adjustAmpm_h12 t.hh.toNat hh24) hv ⟨eds.symm, edu.symm⟩
  rw [ey, em, ed, eh, emi, eds, edu] at this
  exact this

theorem parse_hmsLetters (yf : Bool) (year century : Int) (o : Opts) (tznames : List Token) (tzi : TzInfos)
    (ho : PlainOpts o tzi) (dflt : DT) (t : DT) (ht : t.Valid) :
    parse cls (Info.default false yf year century) o tznames tzi dflt (renderHmsLetters t) =
      .ok { dt := { t with us := 0 }, tz := .naive, tokens := none } := by
  obtain ⟨⟨hy1, hy2, hm1, hm2, hd1, hd2⟩, hh1, hh2, hmi1, hmi2, hs1, hs2, hu1, hu2⟩ := ht
  have hdim := (Cal.daysInMonth_bounds t.y t.m).2
  have ey : ((t.y.toNat : Nat) : Int) = t.y := Int.toNat_of_nonneg (by omega)
  have em : ((t.m.toNat : Nat) : Int) = t.m := Int.toNat_of_nonneg (by omega)
  have ed : ((t.d.toNat : Nat) : Int) = t.d := Int.toNat_of_nonneg (by omega)
  have eh : ((t.hh.toNat : Nat) : Int) = t.hh := Int.toNat_of_nonneg (by omega)
  have emi : ((t.mm.toNat : Nat) : Int) = t.mm := Int.toNat_of_nonneg (by omega)
  have es : ((t.ss.toNat : Nat) : Int) = t.ss := Int.toNat_of_nonneg (by omega)
  have hletter : ∀ (c : Char) (n : Nat) (r : List Char),
      (['c'].all (fun _ => true) = true) →
      ([c].all (fun c => decide (c.toNat < 128) && (asciiCls c).isWord && decide (c ≠ '\x00')) = true) →
      scan cls .init (c :: (pad2 n ++ r)) = [c] :: scan cls .init (pad2 n ++ r) := by
    intro c n r _ hc
    have := lex_aword cls c [] (pad2 n ++ r) hc (wordEnds_pad2 cls n r)
    simpa using this
  have hlex : scan cls .init (renderHmsLetters t) =
      hmsLetterTokens t.y.toNat t.m.toNat t.d.toNat t.hh.toNat t.mm.toNat t.ss.toNat := by
    have e : renderHmsLetters t = pad4 t.y.toNat ++ ['-'] ++ pad2 t.m.toNat ++ ['-'] ++ pad2 t.d.toNat ++ [' '] ++
        (dtok [t.hh.toNat / 10, t.hh.toNat] ++ ('h' :: (pad2 t.mm.toNat ++ ('m' :: (pad2 t.ss.toNat ++ ['s']))))) := by
      simp [renderHmsLetters, isoDate, pad2_dtok]
    have hs : scan cls .init ['s'] = [['s']] := by
      have := lex_aword cls 's' [] [] (by decide) trivial
      simpa [scan_init_nil] using this
    rw [e, lex_isoDate cls _ _ _ ' ' (Or.inr rfl), lex_dtok cls _ _ _ (numEnds_ascii cls _ _ (by decide)),
        hletter 'h' _ _ rfl (by decide), lex_pad2 cls _ _ (numEnds_ascii cls _ _ (by decide)),
        hletter 'm' _ _ rfl (by decide), lex_pad2 cls _ _ (numEnds_ascii cls _ _ (by decide)), hs]
    simp [hmsLetterTokens]
  unfold parse lex
  rw [hlex]
  have hv : (DT.mk (t.y.toNat : Nat) (t.m.toNat : Nat) (t.d.toNat : Nat) (t.hh.toNat : Nat) (t.mm.toNat : Nat)
      (t.ss.toNat : Nat) ((0 : Nat) : Int)).Valid := by
    rw [ey, em, ed, eh, emi, es]
    exact ⟨⟨hy1, hy2, hm1, hm2, hd1, hd2⟩, hh1, hh2, hmi1, hmi2, hs1, hs2, by simp, by simp⟩
  have := tok_hmsLetters cls yf year century o tznames tzi ho dflt _ _ _ _ _ _ 0 hv rfl
  rw [ey, em, ed, eh, emi, es] at this
  simpa using this

end
end PM
