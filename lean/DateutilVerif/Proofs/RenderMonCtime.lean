/-
  Proofs/RenderMonCtime.lean — token scan of `Www Mmm dd HH:MM:SS YYYY` (year ≥ 100).
-/
import DateutilVerif.Proofs.RenderMon

namespace PM
open Py PT

set_option maxHeartbeats 4000000 in
theorem tok_mon_ctime (cls : Char → CClass) [AsciiOK cls] (yf : Bool) (year century : Int) (o : Opts) (tznames : List Token)
    (tzi : TzInfos) (ho : PlainOpts o tzi) (dflt : DT) (W Mo : Token) (w y m d h mi s us : Nat)
    (hW : WdWord cls (Info.default false yf year century) W w)
    (hMo : MonWord cls (Info.default false yf year century) Mo m)
    (hv : (DT.mk y m d h mi s us).Valid) (hy : 100 ≤ y) (hus : us = 0) :
    parseResult cls (Info.default false yf year century) o tznames tzi dflt (monTokens (.ctime w) W Mo y d h mi s) =
      .ok { dt := DT.mk y m d h mi s us, tz := .naive, tokens := none } := by
  obtain ⟨⟨hy1, hy2, hm1, hm2, hd1, hd2⟩, hh1, hh2, hmi1, hmi2, hs1, hs2, hu1, hu2⟩ := hv
  dsimp only at *
  have hdim := (Cal.daysInMonth_bounds (y : Int) (m : Int)).2
  obtain ⟨hfz, hfwt, hdf, htz1, htz2⟩ := ho
  have hvalid : (DT.mk (y : Int) m d h mi s us).valid = true := by
    unfold DT.valid
    exact decide_eq_true ⟨⟨hy1, hy2, hm1, hm2, hd1, hd2⟩, hh1, hh2, hmi1, hmi2, hs1, hs2, hu1, hu2⟩
  mon_prep
  obtain ⟨mf, mw, mm, mh, ma, mj, mdg⟩ := hMo
  obtain ⟨wf, ww⟩ := hW
  subst hus
  have hvalid0 : (DT.mk (y : Int) m d h mi s 0).valid = true := by simpa using hvalid
  by_cases hd10 : d < 10 <;> by_cases hy100 : y = 100
  all_goals (try subst hy100)
  all_goals (try (have hgt : 100 < y := by omega))
  all_goals (try (have hvalid100 : (DT.mk 100 (m : Int) d h mi s 0).valid = true := by simpa using hvalid))
  all_goals psimpa [monTokens, y4]

end PM
