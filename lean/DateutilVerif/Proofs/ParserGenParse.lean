/-
  Proofs/ParserGenParse.lean — the whole of `parser._parse` re-translated from /repo's parser/_parser.py
  (Generated/ParserOps.lean: `Gen.P.parse`: flag defaults, lexing, the token loop, `resolve_ymd`, the result fields, the
  `except (IndexError, ValueError, InvalidOperation)` boundary, `validate`, the fuzzy token recombination) =
  `PM.parseTokens` on the lexed text.  Named primitive on both sides: the lexer `PM.lex` (`_timelex.split`), which is not translated yet.
-/
import DateutilVerif.Proofs.ParserGenLoop
import DateutilVerif.Proofs.ParserGenStrids
import DateutilVerif.Proofs.ParserGenRecombine

namespace PGen
open PM Py
set_option linter.unusedSimpArgs false

theorem resolveYmd_eq (self : Ymd) (yf df : Bool) : Gen.P.ymd_resolveYmd self yf df = self.resolve yf df :=
  resolveYmd_eq_of self yf df (resolveFromStridxs_eq self)

set_option hygiene false in
macro "parse_core" fzv:term : tactic =>
  `(tactic| (
    have hL := parseLoop_eq cls info $fzv hc fuel { l := l } 0 (by simpa using hf)
    simp only [Nat.sub_zero] at hL
    rw [← hL]
    cases hG : Gen.P.parseLoop fuel cls info l 0 l.length {} {} [] $fzv with
    | error e =>
      simp only [bind_err, Except.map, bind_eq]
      try (cases e <;> simp [caughtInParse])
    | ok w =>
      simp only [bind_ok, Except.map, bind_eq, resolveYmd_eq, loopOut]
      cases hR : w.2.2.2.1.resolve _ _ with
      | error e =>
        simp only [bind_err]
        try (cases e <;> simp [caughtInParse])
      | ok r =>
        obtain ⟨y, m, d⟩ := r
        simp [bind_ok, pure_eq, validate_eq info _ hc, bind_eq, recombineSkipped_eq]))

/-- `parser._parse` as written now = `PM.parseTokens` on the lexed text, given at least as much fuel as there are tokens;
    same `_century ≥ 100` hypothesis as `validate` and the loop body -/
theorem parse_eq (cls : Char → CClass) (info : Info) (fuel : Nat) (timestr : List Char) (df yf : Option Bool) (fz fwt : Bool)
    (hc : 100 ≤ info.century) (hf : (PM.lex cls timestr).length ≤ fuel) :
    Gen.P.parse fuel cls info timestr df yf fz fwt =
      PM.parseTokens cls info { dayfirst := df, yearfirst := yf, fuzzy := fz, fuzzyWithTokens := fwt } (PM.lex cls timestr) := by
  unfold Gen.P.parse PM.parseTokens PM.parseTry
  generalize PM.lex cls timestr = l at hf ⊢
  cases fwt
  · cases fz
    · cases df <;> cases yf <;>
        simp only [bind_ok, PPy.optBool, if_true, if_false, Option.getD_some, Option.getD_none, Bool.or_true, Bool.or_false,
        Bool.true_or, Bool.false_or, reduceCtorEq, Bool.false_eq_true] <;>
        parse_core false
    · cases df <;> cases yf <;>
        simp only [bind_ok, PPy.optBool, if_true, if_false, Option.getD_some, Option.getD_none, Bool.or_true, Bool.or_false,
        Bool.true_or, Bool.false_or, reduceCtorEq, Bool.false_eq_true] <;>
        parse_core true
  · cases fz
    · cases df <;> cases yf <;>
        simp only [bind_ok, PPy.optBool, if_true, if_false, Option.getD_some, Option.getD_none, Bool.or_true, Bool.or_false,
        Bool.true_or, Bool.false_or, reduceCtorEq, Bool.false_eq_true] <;>
        parse_core true
    · cases df <;> cases yf <;>
        simp only [bind_ok, PPy.optBool, if_true, if_false, Option.getD_some, Option.getD_none, Bool.or_true, Bool.or_false,
        Bool.true_or, Bool.false_or, reduceCtorEq, Bool.false_eq_true] <;>
        parse_core true

end PGen
