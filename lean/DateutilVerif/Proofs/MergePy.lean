/-
  Proofs/MergePy.lean — `rruleset._iter` as translated from rrule.py (Generated/RSetMerge.lean, meaning Model/MergePy.lean)
  runs like the merge loop of Model/RRuleSet.lean: the inner `while exlist and exlist[0] < ritem` is `advanceEx`, the guarded block
  is the emission test, the two statements after it are `advanceTop`; induction over the fuel of the main loop (C10
  `gen_rset_iter_eq_model`).
-/
import DateutilVerif.Generated.RSetMerge
import DateutilVerif.Proofs.RRuleSet

namespace MergePy
open RSet

theorem cursorsOf_eq (streams : List (List Int)) : cursorsOf Gen.genitemInit streams = some (streams.filterMap mkCursor) := by
  induction streams with
  | nil => rfl
  | cons st rest ih =>
    simp only [cursorsOf, List.foldr_cons] at ih ⊢
    rw [ih]
    cases st <;> simp [runInit, Gen.genitemInit, mkCursor, List.filterMap_cons]

theorem sel_none_iff {sel : Sel} (adm : Admissible sel) (l : List Cursor) : sel l = none ↔ l = [] := by
  constructor
  · intro h; by_cases e : l = []
    · exact e
    · exact absurd h (adm.ne l e)
  · intro e; subst e
    cases h : sel [] with
    | none => rfl
    | some p => have := (adm.perm [] p.1 p.2 (by rw [h])).length_eq; simp at this

def exBody : List Simple := [.bindTop .exitem .exlist, .advance .exitem, .ifTopIsReplace .exlist .exitem]

/-- the inner loop is `advanceEx` -/
theorem whileBelow_eq {sel : Sel} (adm : Admissible sel) (r : Cursor) (ro : List Cursor) : ∀ (fuel : Nat) (s : St),
    s.ritem = some (r, ro) → s.exdirty = false →
    ∃ s', runWhileBelow sel Gen.genitemNext Gen.genitemCmp exBody fuel s = some s' ∧ s'.ex = advanceEx sel r.dt fuel s.ex ∧
      s'.exdirty = false ∧ s'.rl = s.rl ∧ s'.rdirty = s.rdirty ∧ s'.ritem = some (r, ro) ∧ s'.last = s.last ∧ s'.total = s.total ∧ s'.out = s.out := by
  intro fuel
  induction fuel with
  | zero => intro s hr hd; exact ⟨s, rfl, rfl, hd, rfl, rfl, hr, rfl, rfl, rfl⟩
  | succ fuel ih =>
    intro s hr hd
    unfold runWhileBelow advanceEx
    rw [hr]
    simp only []
    by_cases he : s.ex = []
    · refine ⟨s, by simp [he], by simp [he, (sel_none_iff adm []).mpr rfl], hd, rfl, rfl, hr, rfl, rfl, rfl⟩
    · have hne : s.ex.isEmpty = false := by cases hx : s.ex with | nil => exact absurd hx he | cons _ _ => rfl
      obtain ⟨p, hp⟩ := Option.ne_none_iff_exists'.mp (adm.ne s.ex he)
      obtain ⟨e, others⟩ := p
      simp only [hne, Bool.false_eq_true, ↓reduceIte, top, St.dirty, hd, St.heap, hp]
      by_cases hlt : e.dt < r.dt
      · simp only [evalCmp, Gen.genitemCmp, hlt, decide_true, ↓reduceIte]
        -- one pass through the body
        cases hrest : e.rest with
        | nil =>
          have : runSimples sel Gen.genitemNext exBody s = some { s with ex := others, exdirty := false, exitem := none } := by
            simp [exBody, runSimples, runSimple, heapOf, top, St.dirty, hd, St.heap, hp, St.setItem, St.item, runNext, Gen.genitemNext, hrest, St.setHeap]
          rw [this]
          obtain ⟨s', h1, h2, h3⟩ := ih { s with ex := others, exdirty := false, exitem := none } hr rfl
          refine ⟨s', h1, ?_, by simpa using h3⟩
          rw [h2]; simp [advanceTop, hrest]
        | cons x xs =>
          have : runSimples sel Gen.genitemNext exBody s = some { s with ex := ⟨x, xs⟩ :: others, exdirty := false, exitem := some (⟨x, xs⟩, others) } := by
            simp [exBody, runSimples, runSimple, heapOf, top, St.dirty, hd, St.heap, hp, St.setItem, St.item, runNext, Gen.genitemNext, hrest, St.setHeap]
          rw [this]
          obtain ⟨s', h1, h2, h3⟩ := ih { s with ex := ⟨x, xs⟩ :: others, exdirty := false, exitem := some (⟨x, xs⟩, others) } hr rfl
          refine ⟨s', h1, ?_, by simpa using h3⟩
          rw [h2]; simp [advanceTop, hrest]
      · simp only [evalCmp, Gen.genitemCmp, hlt, decide_false, Bool.false_eq_true, ↓reduceIte]
        exact ⟨s, rfl, rfl, hd, rfl, rfl, hr, rfl, rfl, rfl⟩

/-- the statements after the `if` of the main loop: advance the top inclusion item and re-sift -/
theorem tail_eq (sel : Sel) (s : St) (r : Cursor) (others : List Cursor) (hr : s.ritem = some (r, others)) :
    ∃ s', runMains sel Gen.genitemNext Gen.genitemCmp [.simple (.advance .ritem), .simple (.ifTopIsReplace .rlist .ritem)] s = some s' ∧
      s'.rl = advanceTop r others ∧ s'.rdirty = false ∧ s'.ex = s.ex ∧ s'.exdirty = s.exdirty ∧ s'.last = s.last ∧
      s'.total = s.total ∧ s'.out = s.out := by
  cases hrest : r.rest with
  | nil =>
    refine ⟨{ s with rl := others, rdirty := false, ritem := none }, ?_, by simp [advanceTop, hrest], rfl, rfl, rfl, rfl, rfl, rfl⟩
    simp [runMains, runMain, runSimple, St.item, hr, runNext, Gen.genitemNext, hrest, heapOf, St.setHeap, St.setItem, St.heap]
  | cons x xs =>
    refine ⟨{ s with rl := ⟨x, xs⟩ :: others, rdirty := false, ritem := some (⟨x, xs⟩, others) }, ?_, by simp [advanceTop, hrest], rfl, rfl, rfl, rfl, rfl, rfl⟩
    simp [runMains, runMain, runSimple, St.item, hr, runNext, Gen.genitemNext, hrest, heapOf, St.setHeap, St.setItem, St.heap]

theorem fresh_eq {sel : Sel} (adm : Admissible sel) (s : St) (r : Cursor) (others : List Cursor) (hr : s.ritem = some (r, others))
    (hd : s.exdirty = false) :
    let ex' := advanceEx sel r.dt ((s.ex.map (fun c => c.elems.length)).sum + 1) s.ex
    ∃ s', runFreshs sel Gen.genitemNext Gen.genitemCmp [.whileBelow exBody, .ifEmit [.incTotal, .yieldDt], .simple .setLast] s = some s' ∧
      s'.ex = ex' ∧ s'.exdirty = false ∧ s'.rl = s.rl ∧ s'.rdirty = s.rdirty ∧ s'.ritem = some (r, others) ∧ s'.last = some r.dt ∧
      s'.out = s.out ++ (if emitTest sel ex' r.dt then [r.dt] else []) ∧
      s'.total = s.total + (if emitTest sel ex' r.dt then 1 else 0) := by
  intro ex'
  obtain ⟨s2, h1, h2, h3, h4, h5, h6, h7, h8, h9⟩ := whileBelow_eq adm r others ((s.ex.map (fun c => c.elems.length)).sum + 1) s hr hd
  have hw : runFresh sel Gen.genitemNext Gen.genitemCmp s (.whileBelow exBody) = some s2 := h1
  simp only [runFreshs, hw]
  -- the emission test
  by_cases he : s2.ex = []
  · have hem : emitTest sel ex' r.dt = true := by
      show emitTest sel (advanceEx sel r.dt _ s.ex) r.dt = true
      rw [← h2, he]; simp [emitTest, (sel_none_iff adm []).mpr rfl]
    refine ⟨{ s2 with total := s2.total + 1, out := s2.out ++ [r.dt], last := some r.dt }, ?_, h2, h3, h4, h5, h6, rfl, ?_, ?_⟩
    · simp [runFresh, h6, he, runSimples, runSimple]
    · simp [hem, h9]
    · simp [hem, h8]
  · have hne : s2.ex.isEmpty = false := by cases hx : s2.ex with | nil => exact absurd hx he | cons _ _ => rfl
    obtain ⟨p, hp⟩ := Option.ne_none_iff_exists'.mp (adm.ne s2.ex he)
    obtain ⟨e, eo⟩ := p
    have hem : emitTest sel ex' r.dt = decide (r.dt ≠ e.dt) := by
      show emitTest sel (advanceEx sel r.dt _ s.ex) r.dt = _
      rw [← h2]; simp [emitTest, hp]
    by_cases hneq : r.dt = e.dt
    · refine ⟨{ s2 with last := some r.dt }, ?_, h2, h3, h4, h5, h6, rfl, ?_, ?_⟩
      · simp [runFresh, h6, hne, top, St.dirty, h3, St.heap, hp, evalCmp, Gen.genitemCmp, hneq, runSimple]
      · rw [hem]; simp [hneq, h9]
      · rw [hem]; simp [hneq, h8]
    · refine ⟨{ s2 with total := s2.total + 1, out := s2.out ++ [r.dt], last := some r.dt }, ?_, h2, h3, h4, h5, h6, rfl, ?_, ?_⟩
      · simp [runFresh, h6, hne, top, St.dirty, h3, St.heap, hp, evalCmp, Gen.genitemCmp, hneq, runSimples, runSimple]
      · rw [hem]; simp [hneq, h9]
      · rw [hem]; simp [hneq, h8]

theorem body_shape : Gen.rsetIterProgram.body =
    [.simple (.bindTop .ritem .rlist), .ifFresh [.whileBelow exBody, .ifEmit [.incTotal, .yieldDt], .simple .setLast],
     .simple (.advance .ritem), .simple (.ifTopIsReplace .rlist .ritem)] := rfl

theorem runMains_cons_some {sel : Sel} {np cp} {x : Main} {xs : List Main} {s s1 : St}
    (h : runMain sel np cp s x = some s1) : runMains sel np cp (x :: xs) s = runMains sel np cp xs s1 := by
  simp only [runMains, h]

theorem loop_eq {sel : Sel} (adm : Admissible sel) : ∀ (fuel : Nat) (s : St), s.rdirty = false → s.exdirty = false →
    ∃ s', runLoop sel Gen.genitemNext Gen.genitemCmp Gen.rsetIterProgram.body fuel s = some s' ∧
      s'.out = s.out ++ loop sel fuel s.rl s.ex s.last ∧ s'.total = s.total + (loop sel fuel s.rl s.ex s.last).length := by
  intro fuel
  rw [body_shape]
  induction fuel with
  | zero => intro s _ _; exact ⟨s, rfl, by simp [loop], by simp [loop]⟩
  | succ fuel ih =>
    intro s hrd hed
    unfold runLoop loop
    by_cases he : s.rl = []
    · refine ⟨s, by simp [he], ?_, ?_⟩ <;> simp [he, (sel_none_iff adm []).mpr rfl]
    · have hne : s.rl.isEmpty = false := by cases hx : s.rl with | nil => exact absurd hx he | cons _ _ => rfl
      obtain ⟨p, hp⟩ := Option.ne_none_iff_exists'.mp (adm.ne s.rl he)
      obtain ⟨r, others⟩ := p
      simp only [hne, Bool.false_eq_true, ↓reduceIte, hp]
      have hb : runMain sel Gen.genitemNext Gen.genitemCmp s (.simple (.bindTop .ritem .rlist)) = some { s with ritem := some (r, others) } := by
        simp [runMain, runSimple, heapOf, top, St.dirty, hrd, St.heap, hp, St.setItem]
      rw [runMains_cons_some hb]
      by_cases hl : s.last ≠ some r.dt
      · obtain ⟨s3, f1, f2, f3, f4, f5, f6, f7, f8, f9⟩ := fresh_eq adm { s with ritem := some (r, others) } r others rfl hed
        have hf : runMain sel Gen.genitemNext Gen.genitemCmp { s with ritem := some (r, others) }
            (.ifFresh [.whileBelow exBody, .ifEmit [.incTotal, .yieldDt], .simple .setLast]) = some s3 := by
          simp only [runMain]; rw [if_pos hl]; exact f1
        rw [runMains_cons_some hf]
        obtain ⟨s4, t1, t2, t3, t4, t5, t6, t7, t8⟩ := tail_eq sel s3 r others f6
        rw [t1]
        simp only []
        obtain ⟨s5, i1, i2, i3⟩ := ih s4 t3 (t5.trans f3)
        refine ⟨s5, i1, ?_, ?_⟩
        · rw [i2, t8, f8, t2, t4, f2, t6, f7, if_pos hl]; simp [List.append_assoc]
        · rw [i3, t7, f9, t2, t4, f2, t6, f7, if_pos hl]
          simp only [List.length_append]
          split <;> simp <;> omega
      · have hf : runMain sel Gen.genitemNext Gen.genitemCmp { s with ritem := some (r, others) }
            (.ifFresh [.whileBelow exBody, .ifEmit [.incTotal, .yieldDt], .simple .setLast]) = some { s with ritem := some (r, others) } := by
          simp only [runMain]; rw [if_neg hl]
        rw [runMains_cons_some hf]
        obtain ⟨s4, t1, t2, t3, t4, t5, t6, t7, t8⟩ := tail_eq sel { s with ritem := some (r, others) } r others rfl
        rw [t1]
        simp only []
        obtain ⟨s5, i1, i2, i3⟩ := ih s4 t3 (t5.trans hed)
        refine ⟨s5, i1, ?_, ?_⟩
        · rw [i2, t8, t2, t4, t6, if_neg hl]
        · rw [i3, t7, t2, t4, t6, if_neg hl]


end MergePy
