/- Proofs/TzifGenEq.lean — the TRANSLATED `tzfile._read_tzfile` (Generated/TzifKernels.lean) against the hand model
   Model/TZif.lean: the pieces of the decoding phase (header, tables, `_ttinfo` construction, index replacement). -/
import DateutilVerif.Generated.TzifKernels

set_option linter.unusedSimpArgs false
set_option linter.unusedVariables false

namespace TzifGen
open Py TZ TzifPy

def ofT (t : TType) : TT :=
  { offset := t.off, delta := t.off, isdst := t.isdst, abbr := t.abbr, isstd := t.isstd, isgmt := t.isgmt,
    dstoffset := t.dstoff }

@[simp] theorem toModel_ofT (t : TType) : (ofT t).toModel = t := by cases t; rfl

/-- a stream positioned at `rest` -/
def at_ (f : File) (rest : List UInt8) : File := { f with rest := rest }

@[simp] theorem at_rest (f : File) (r) : (at_ f r).rest = r := rfl
@[simp] theorem at_data (f : File) (r) : (at_ f r).data = f.data := rfl
@[simp] theorem at_at (f : File) (r s) : at_ (at_ f r) s = at_ f s := rfl

theorem read_eq (f : File) (n : Int) : f.read n = ((readN f.rest n).1, at_ f (readN f.rest n).2) := rfl

/-! ### the `if` statements of the table section -/

theorem if1_eq (f : File) (n : Int) :
    Gen.readTzfile_if1 f n = (readLongs f.rest n).map (fun p => (p.1, at_ f p.2)) := by
  unfold Gen.readTzfile_if1 readLongs unpackL
  simp only [read_eq]
  by_cases h0 : n = 0
  · subst h0; simp [Except.map, at_]; rfl
  · by_cases hneg : n < 0
    · simp [h0, hneg, Except.map, bind, Except.bind]
    · simp only [bne_iff_ne, ne_eq, h0, not_false_eq_true, ↓reduceIte, hneg, beq_iff_eq]
      by_cases hl : (readN f.rest (n * 4)).1.length = (n * 4).toNat
      · simp only [hl, not_true_eq_false, ↓reduceIte]
        cases be32List (readN f.rest (n * 4)).1 <;> simp [Except.map, bind, Except.bind, pure, Except.pure]
      · simp [hl, Except.map, bind, Except.bind]

theorem if2_eq (f : File) (n : Int) :
    Gen.readTzfile_if2 f n = (readBytes f.rest n).map (fun p => (p.1.map (fun b => (b.toNat : Int)), at_ f p.2)) := by
  unfold Gen.readTzfile_if2 readBytes unpackB
  simp only [read_eq]
  by_cases h0 : n = 0
  · subst h0; simp [Except.map, at_]; rfl
  · by_cases hneg : n < 0
    · simp [h0, hneg, Except.map, bind, Except.bind]
    · simp only [bne_iff_ne, ne_eq, h0, not_false_eq_true, ↓reduceIte, hneg, beq_iff_eq]
      by_cases hl : (readN f.rest n).1.length = n.toNat
      · simp [hl, Except.map, bind, Except.bind, pure, Except.pure]
      · simp [hl, Except.map, bind, Except.bind]

theorem ifSB_eq (f : File) (n : Int) :
    (if (n != 0) = true then do
        let (t, f') := f.read n
        let l ← unpackSB n t
        pure (l, f')
      else pure ([], f) : R (List Int × File)) =
    (readBytes f.rest n).map (fun p => (p.1.map s8, at_ f p.2)) := by
  unfold readBytes unpackSB
  simp only [read_eq]
  by_cases h0 : n = 0
  · subst h0; simp [Except.map, at_, pure, Except.pure]
  · by_cases hneg : n < 0
    · simp [h0, hneg, Except.map, bind, Except.bind]
    · simp only [bne_iff_ne, ne_eq, h0, not_false_eq_true, ↓reduceIte, hneg, beq_iff_eq]
      by_cases hl : (readN f.rest n).1.length = n.toNat
      · simp [hl, Except.map, bind, Except.bind, pure, Except.pure]
      · simp [hl, Except.map, bind, Except.bind]

theorem if4_eq (f : File) (n : Int) :
    Gen.readTzfile_if4 f n [] = (readBytes f.rest n).map (fun p => (p.1.map s8, at_ f p.2)) := by
  rw [← ifSB_eq]; rfl

theorem if5_eq (f : File) (n : Int) :
    Gen.readTzfile_if5 f n [] = (readBytes f.rest n).map (fun p => (p.1.map s8, at_ f p.2)) := by
  rw [← ifSB_eq]; rfl

/-! ### `for` statement 1: the `>lbB` records -/

theorem loop1_body_eq (tc x : Int) (acc : List (Int × Int × Int)) (f : File) :
    Gen.readTzfile_loop1_body tc x (acc, f) =
      match f.rest with
      | a :: b :: c :: d :: e :: g :: rest => .ok (acc ++ [(be32s a b c d, s8 e, (g.toNat : Int))], at_ f rest)
      | _ => .error .StructError := by
  unfold Gen.readTzfile_loop1_body
  simp only [read_eq, readN]
  rcases hs : f.rest with _ | ⟨a, _ | ⟨b, _ | ⟨c, _ | ⟨d, _ | ⟨e, _ | ⟨g, rest⟩⟩⟩⟩⟩⟩ <;>
    simp [unpackLbB, bind, Except.bind, pure, Except.pure]

theorem loop1_list (tc : Int) : ∀ (l : List Int) (acc : List (Int × Int × Int)) (f : File),
    forEach (Gen.readTzfile_loop1_body tc) l (acc, f) =
      (readTtinfo l.length f.rest).map (fun p => (acc ++ p.1, at_ f p.2))
  | [], acc, f => by simp [forEach, readTtinfo, Except.map, at_]
  | x :: xs, acc, f => by
      simp only [forEach, loop1_body_eq, List.length_cons]
      rcases hs : f.rest with _ | ⟨a, _ | ⟨b, _ | ⟨c, _ | ⟨d, _ | ⟨e, _ | ⟨g, rest⟩⟩⟩⟩⟩⟩ <;>
        simp only [readTtinfo, Except.bind, Except.map]
      rw [loop1_list tc xs]
      simp only [at_rest, at_at]
      cases readTtinfo xs.length rest <;> simp [Except.map, bind, Except.bind]

theorem rangeUp_length (n : Int) : (rangeUp n).length = n.toNat := by simp [rangeUp]

theorem loop1_eq (tc : Int) (f : File) :
    Gen.readTzfile_loop1 tc [] f = (readTtinfo tc.toNat f.rest).map (fun p => (p.1, at_ f p.2)) := by
  unfold Gen.readTzfile_loop1
  rw [loop1_list, rangeUp_length]
  cases readTtinfo tc.toNat f.rest <;> simp [Except.map, bind, Except.bind, pure, Except.pure]

/-! ### `for` statement 2: the `_ttinfo` objects -/

theorem lget_nat {α} (l : List α) (i : Nat) :
    lget l (i : Int) = match l[i]? with | some x => .ok x | none => .error .IndexError := by
  unfold lget Py.getIdx
  by_cases h : i < l.length
  · have : ¬ ((i : Int) < 0) := by omega
    simp [this, h]
  · have : ¬ ((i : Int) < 0) := by omega
    have h2 : l[i]? = none := List.getElem?_eq_none (by omega)
    simp [this, h2]

theorem hmod_last (g : TT → TT) (h : Heap) (t : TT) : hmod g (h ++ [t]) h.length = h ++ [g t] := by
  induction h with
  | nil => rfl
  | cons a l ih => simp [hmod, ih]

/-- the flag expression `cnt > i and flags[i] != 0` agrees with the model's `flagAt` -/
def FlagOK (cnt : Int) (flags : List Int) (bytes : List UInt8) : Prop :=
  ∀ j : Nat, (if (decide (cnt > (j : Int))) then do let t ← lget flags (j : Int); pure (t != 0) else pure false : R Bool)
    = .ok (flagAt bytes j)

theorem loop2_body_eq (cg cs tc : Int) (recs : List (Int × Int × Int)) (abbr : List UInt8) (isstd isgmt : List Int)
    (sb gb : List UInt8) (hs : FlagOK cs isstd sb) (hg : FlagOK cg isgmt gb)
    (i : Nat) (o d a : Int) (hi : recs[i]? = some (o, d, a)) (heap : Heap) (L : List Ref) :
    Gen.readTzfile_loop2_body cg cs tc recs abbr isstd isgmt (i : Int) (heap, L) =
      .ok (heap ++ [ofT { off := o, isdst := d, abbr := abbrAt abbr a, isstd := flagAt sb i, isgmt := flagAt gb i, dstoff := 0 }],
           L ++ [heap.length]) := by
  unfold Gen.readTzfile_loop2_body
  have h1 := hs i
  have h2 := hg i
  simp only [bind, Except.bind] at h1 h2
  simp only [lget_nat recs i, hi, hnew, bind, Except.bind]
  rw [h1, h2]
  simp only [hmod_last, pure, Except.pure, sliceToFindNul, ofT]

theorem loop2_from (cg cs tc : Int) (recs : List (Int × Int × Int)) (abbr : List UInt8) (isstd isgmt : List Int)
    (sb gb : List UInt8) (hs : FlagOK cs isstd sb) (hg : FlagOK cg isgmt gb) :
    ∀ (k i : Nat) (heap : Heap) (L : List Ref), i + k = recs.length →
      forEach (Gen.readTzfile_loop2_body cg cs tc recs abbr isstd isgmt) ((List.range' i k).map fun (j : Nat) => (j : Int)) (heap, L) =
        .ok (heap ++ (mkTypesFrom abbr sb gb i (recs.drop i)).map ofT, L ++ List.range' heap.length k)
  | 0, i, heap, L, h => by
      have : recs.drop i = [] := List.drop_eq_nil_of_le (by omega)
      simp [forEach, this, mkTypesFrom]
  | k + 1, i, heap, L, h => by
      have hi : i < recs.length := by omega
      have hd : recs.drop i = recs[i] :: recs.drop (i + 1) := List.drop_eq_getElem_cons hi
      rcases hrec : recs[i] with ⟨o, d, a⟩
      have hget : recs[i]? = some (o, d, a) := by rw [List.getElem?_eq_getElem hi, hrec]
      simp only [List.range'_succ, List.map_cons, forEach]
      rw [loop2_body_eq cg cs tc recs abbr isstd isgmt sb gb hs hg i o d a hget]
      simp only [Except.bind]
      rw [loop2_from cg cs tc recs abbr isstd isgmt sb gb hs hg k (i + 1) _ _ (by omega)]
      rw [hd, hrec]
      simp [mkTypesFrom, List.range'_succ]

theorem rangeUp_eq (n : Int) : rangeUp n = (List.range' 0 n.toNat).map fun (j : Nat) => (j : Int) := by
  simp [rangeUp, List.range_eq_range']

theorem loop2_eq (cg cs tc : Int) (recs : List (Int × Int × Int)) (abbr : List UInt8) (isstd isgmt : List Int)
    (sb gb : List UInt8) (hs : FlagOK cs isstd sb) (hg : FlagOK cg isgmt gb) (hn : tc.toNat = recs.length) :
    Gen.readTzfile_loop2 cg cs tc recs abbr isstd isgmt [] [] =
      .ok ((mkTypes recs abbr sb gb).map ofT, List.range' 0 recs.length) := by
  unfold Gen.readTzfile_loop2
  rw [rangeUp_eq, hn, loop2_from cg cs tc recs abbr isstd isgmt sb gb hs hg recs.length 0 [] [] (by omega)]
  simp [mkTypes, bind, Except.bind, pure, Except.pure]

/-! ### lengths guaranteed by successful reads -/

theorem be32List_length : ∀ (d : List UInt8) (l : List Int), be32List d = some l → d.length = 4 * l.length
  | [], l, h => by simp [be32List] at h; subst h; rfl
  | [_], l, h => by simp [be32List] at h
  | [_, _], l, h => by simp [be32List] at h
  | [_, _, _], l, h => by simp [be32List] at h
  | a :: b :: c :: d :: rest, l, h => by
      simp only [be32List, Option.map_eq_some_iff] at h
      obtain ⟨l', h1, h2⟩ := h
      subst h2
      have := be32List_length rest l' h1
      simp only [List.length_cons]; omega

theorem readLongs_len {s : List UInt8} {n : Int} {l rest} (h : readLongs s n = .ok (l, rest)) :
    l.length = n.toNat ∧ 0 ≤ n := by
  unfold readLongs at h
  by_cases h0 : n = 0
  · subst h0; simp at h; simp [h.1.symm]
  · by_cases hneg : n < 0
    · simp [h0, hneg] at h
    · simp only [beq_iff_eq, h0, ↓reduceIte, hneg] at h
      by_cases hl : (readN s (n * 4)).1.length = (n * 4).toNat
      · cases hb : be32List (readN s (n * 4)).1 with
        | none => simp [hl, hb] at h
        | some l' =>
            simp [hl, hb] at h
            have := be32List_length _ _ hb
            rw [← h.1]; omega
      · simp [hl] at h

theorem readBytes_len {s : List UInt8} {n : Int} {l rest} (h : readBytes s n = .ok (l, rest)) :
    l.length = n.toNat ∧ 0 ≤ n := by
  unfold readBytes at h
  by_cases h0 : n = 0
  · subst h0; simp at h; simp [h.1.symm]
  · by_cases hneg : n < 0
    · simp [h0, hneg] at h
    · simp only [beq_iff_eq, h0, ↓reduceIte, hneg] at h
      by_cases hl : (readN s n).1.length = n.toNat
      · simp [hl] at h
        rw [← h.1]; omega
      · simp [hl] at h

theorem readTtinfo_len : ∀ (k : Nat) (s : List UInt8) (l rest), readTtinfo k s = .ok (l, rest) → l.length = k
  | 0, s, l, rest, h => by simp [readTtinfo] at h; simp [h.1.symm]
  | k + 1, s, l, rest, h => by
      rcases s with _ | ⟨a, _ | ⟨b, _ | ⟨c, _ | ⟨d, _ | ⟨e, _ | ⟨g, r⟩⟩⟩⟩⟩⟩ <;> simp only [readTtinfo] at h
      any_goals (first | (cases h; done) | skip)
      cases hr : readTtinfo k r with
      | error e => simp [hr, bind, Except.bind] at h
      | ok p =>
          obtain ⟨l', r'⟩ := p
          simp only [hr, bind, Except.bind, Except.ok.injEq, Prod.mk.injEq] at h
          have := readTtinfo_len k r l' r' hr
          rw [← h.1]; simp [this]

theorem s8_ne_zero (a : UInt8) : (s8 a != 0) = (a != 0) := by
  have h := a.toNat_lt
  have h2 : (a = 0) ↔ a.toNat = 0 := by
    constructor
    · intro h; subst h; rfl
    · intro h; exact UInt8.toNat_inj.mp (by simpa using h)
  have h3 : (s8 a = 0) ↔ (a = 0) := by
    rw [h2]; unfold s8; split <;> omega
  rw [Bool.eq_iff_iff]; simp [h3]

theorem flagOK_of_len (cnt : Int) (bytes : List UInt8) (hl : bytes.length = cnt.toNat) (h0 : 0 ≤ cnt) :
    FlagOK cnt (bytes.map s8) bytes := by
  intro j
  by_cases hj : cnt > (j : Int)
  · have hjl : j < bytes.length := by omega
    simp only [hj, decide_true, ↓reduceIte, lget_nat, List.getElem?_map, List.getElem?_eq_getElem hjl, Option.map_some,
      flagAt, bind, Except.bind, pure, Except.pure, s8_ne_zero]
  · have hjl : bytes.length ≤ j := by omega
    simp [hj, flagAt, List.getElem?_eq_none hjl, pure, Except.pure]

/-! ### the replacement of type indices by objects -/

theorem mapM_refs (n : Nat) : ∀ (bs : List UInt8),
    List.mapM (fun idx => do let t ← lget (List.range' 0 n) idx; pure t : Int → R Ref) (bs.map fun b => (b.toNat : Int)) =
      if bs.any (fun i => decide (i.toNat ≥ n)) then .error .IndexError else .ok (bs.map (·.toNat))
  | [] => by simp [pure, Except.pure]
  | b :: bs => by
      simp only [List.map_cons, List.mapM_cons, mapM_refs n bs, lget_nat, List.any_cons]
      by_cases hb : b.toNat < n
      · have : (List.range' 0 n)[b.toNat]? = some b.toNat := by simp [List.getElem?_range', hb]
        have hd : decide (b.toNat ≥ n) = false := by simp; omega
        simp only [this, hd, Bool.false_or, bind, Except.bind, pure, Except.pure]
        by_cases hany : (bs.any fun i => decide (i.toNat ≥ n)) = true
        · simp [hany]
        · simp [hany]
      · have : (List.range' 0 n)[b.toNat]? = none := by simp [List.getElem?_range', hb]
        have hd : decide (b.toNat ≥ n) = true := by simp; omega
        simp [this, hd, bind, Except.bind]

/-! ### the decoding part -/

theorem if3_eq (f : File) (n : Int) :
    Gen.readTzfile_if3 f n = .ok (at_ f (if n ≥ 0 then f.rest.drop (n * 8).toNat
      else f.data.drop (((f.data.length : Int) - f.rest.length + n * 8).toNat))) := by
  unfold Gen.readTzfile_if3 File.seekCur
  by_cases h0 : n = 0
  · subst h0; simp [pure, Except.pure, at_]
  · by_cases hn : n ≥ 0
    · have : n * 8 ≥ 0 := by omega
      simp [h0, hn, this, pure, Except.pure, at_]
    · have : ¬ (n * 8 ≥ 0) := by omega
      simp [h0, hn, this, pure, Except.pure, at_]

theorem hdr_eq (h : List UInt8) :
    (unpackL 6 h).bind six =
      match (if h.length = 24 then be32List h else none) with
      | some [a, b, c, d, e, f] => .ok (a, b, c, d, e, f)
      | _ => .error .StructError := by
  unfold unpackL
  by_cases hl : h.length = 24
  · simp only [hl, ↓reduceIte]
    cases hb : be32List h with
    | none => simp [Except.bind]
    | some l =>
        have := be32List_length _ _ hb
        have h6 : l.length = 6 := by omega
        rcases l with _ | ⟨a, _ | ⟨b, _ | ⟨c, _ | ⟨d, _ | ⟨e, _ | ⟨f, _ | ⟨g, r⟩⟩⟩⟩⟩⟩⟩ <;> simp at h6
        simp [Except.bind, six]
  · simp [hl, Except.bind]

theorem magic_eq (data : List UInt8) {α} (k : R α) :
    (do let t2 ← decodeStr (data.take 4)
        if (t2 != [84, 90, 105, 102]) = true then throw Py.PyErr.ValueError
        k : R α) = (if data.take 4 ≠ magic then throw .ValueError else k) := by
  by_cases hm : data.take 4 = magic
  · rw [hm]; simp [decodeStr, magic, bind, Except.bind, pure, Except.pure]
  · unfold decodeStr
    by_cases ha : (data.take 4).any (· ≥ 128) = true
    · simp [ha, hm, bind, Except.bind, throw, throwThe, MonadExceptOf.throw]
    · have hm' : ¬ (data.take 4 = [84, 90, 105, 102]) := hm
      simp [ha, hm, hm', bind, Except.bind, throw, throwThe, MonadExceptOf.throw, pure, Except.pure]

def decodeView (r : Raw) : Option Ref × Option Ref × Option Ref × Option Ref × Heap × Int × List Int × List Ref × List Ref :=
  (none, none, none, none, r.types.map ofT, (r.trans.length : Int), r.trans.map (·.1), r.trans.map (·.2),
   List.range' 0 r.types.length)

theorem mkTypesFrom_length (abbr sb gb : List UInt8) : ∀ (recs : List (Int × Int × Int)) (i : Nat),
    (mkTypesFrom abbr sb gb i recs).length = recs.length
  | [], _ => rfl
  | _ :: rest, i => by simp [mkTypesFrom, mkTypesFrom_length abbr sb gb rest (i + 1)]

theorem mkTypes_length (recs : List (Int × Int × Int)) (abbr sb gb : List UInt8) :
    (mkTypes recs abbr sb gb).length = recs.length := mkTypesFrom_length abbr sb gb recs 0

theorem readN4 (s : List UInt8) : readN s 4 = (s.take 4, s.drop 4) := by simp [readN]
theorem readN16 (s : List UInt8) : readN s 16 = (s.take 16, s.drop 16) := by simp [readN]

theorem decode_eq (data : List UInt8) : Gen.readTzfile_decode data = (decode data).map decodeView := by
  unfold Gen.readTzfile_decode decode
  simp only [File.ofBytes, read_eq, if1_eq, if2_eq, loop1_eq, if3_eq, if4_eq, if5_eq, at_rest, at_data, at_at,
    readN4, readN16]
  by_cases hm : data.take 4 = magic
  case neg =>
    -- magic not found: ValueError on both sides
    unfold decodeStr
    have hm' : ¬ (data.take 4 = [84, 90, 105, 102]) := hm
    by_cases ha : (data.take 4).any (· ≥ 128) = true
    · simp [ha, hm, bind, Except.bind, Except.map, throw, throwThe, MonadExceptOf.throw]
    · simp [ha, hm, hm', bind, Except.bind, Except.map, throw, throwThe, MonadExceptOf.throw, pure, Except.pure]
  have hdec : decodeStr magic = .ok [84, 90, 105, 102] := by simp [decodeStr, magic]
  simp only [hdec, hm, ne_eq, not_true_eq_false, ↓reduceIte, bind, Except.bind, bne_self_eq_false, Bool.false_eq_true]
  generalize hhdr : (readN (List.drop 16 (List.drop 4 data)) 24) = hdr
  obtain ⟨hd, s1⟩ := hdr
  simp only
  unfold unpackL
  by_cases hl : hd.length = 24
  case neg => simp [hl, Except.map, throw, throwThe, MonadExceptOf.throw, Except.bind, bind]
  cases hb : be32List hd with
  | none => simp [hl, hb, Except.map, throw, throwThe, MonadExceptOf.throw, Except.bind, bind]
  | some l =>
    have hlen := be32List_length _ _ hb
    have h6 : l.length = 6 := by omega
    rcases l with _ | ⟨cg, _ | ⟨cs, _ | ⟨cl, _ | ⟨ct, _ | ⟨cy, _ | ⟨cc, _ | ⟨g, r⟩⟩⟩⟩⟩⟩⟩ <;> simp at h6
    simp only [hl, hb, six, pure, Except.pure, Except.bind, bind, ↓reduceIte, Int.reduceLT, Int.reduceMul, Int.reduceToNat,
      not_true_eq_false, ne_eq]
    cases h1 : readLongs s1 ct with
    | error e => simp [Except.map]
    | ok p1 =>
    obtain ⟨times, s2⟩ := p1
    simp only [Except.map, at_rest, at_data, at_at]
    cases h2 : readBytes s2 ct with
    | error e => simp
    | ok p2 =>
    obtain ⟨idxs, s3⟩ := p2
    simp only [at_rest, at_data, at_at]
    cases h3 : readTtinfo cy.toNat s3 with
    | error e => simp
    | ok p3 =>
    obtain ⟨recs, s4⟩ := p3
    simp only [at_rest, at_data, at_at]
    unfold decodeStr
    by_cases ha : ((readN s4 cc).fst.any fun x => decide (x ≥ 128)) = true
    case pos => simp [ha, throw, throwThe, MonadExceptOf.throw]
    simp only [ha, Bool.false_eq_true, ↓reduceIte]
    generalize (if cl ≥ 0 then List.drop (cl * 8).toNat (readN s4 cc).snd
      else List.drop (↑data.length - ↑(readN s4 cc).snd.length + cl * 8).toNat data) = s5
    cases h4 : readBytes s5 cs with
    | error e => simp
    | ok p4 =>
    obtain ⟨sb, s6⟩ := p4
    simp only [at_rest, at_data, at_at]
    cases h5 : readBytes s6 cg with
    | error e => simp
    | ok p5 =>
    obtain ⟨gb, s7⟩ := p5
    simp only []
    obtain ⟨hsl, hs0⟩ := readBytes_len h4
    obtain ⟨hgl, hg0⟩ := readBytes_len h5
    obtain ⟨hil, hi0⟩ := readBytes_len h2
    obtain ⟨htl, ht0⟩ := readLongs_len h1
    have hrl := readTtinfo_len _ _ _ _ h3
    rw [loop2_eq cg cs cy recs _ _ _ sb gb (flagOK_of_len cs sb hsl hs0) (flagOK_of_len cg gb hgl hg0) hrl.symm]
    simp only [mapM_refs, mkTypes_length]
    by_cases hany : (idxs.any fun i => decide (i.toNat ≥ recs.length)) = true
    case pos => simp [hany, throw, throwThe, MonadExceptOf.throw]
    simp only [hany, Bool.false_eq_true, ↓reduceIte, decodeView, List.length_map, mkTypes_length]
    have hlen2 : times.length = (idxs.map fun x => x.toNat).length := by simp; omega
    simp [List.map_fst_zip, List.map_snd_zip, hlen2, List.length_zip]
    omega

/-- what `decode` guarantees: every type index of a decoded table is in range -/
theorem decode_ok (data : List UInt8) (r : Raw) (h : decode data = .ok r) : Raw.ok r = true := by
  unfold decode at h
  by_cases hm : data.take 4 = magic
  case neg => simp [hm, bind, Except.bind, throw, throwThe, MonadExceptOf.throw] at h
  simp only [hm, ne_eq, not_true_eq_false, ↓reduceIte, bind, Except.bind] at h
  generalize hhdr : (readN (List.drop 16 (List.drop 4 data)) 24) = hdr at h
  obtain ⟨hd, s1⟩ := hdr
  simp only at h
  by_cases hl : hd.length = 24
  case neg => simp [hl, throw, throwThe, MonadExceptOf.throw, Except.bind, bind] at h
  cases hb : be32List hd with
  | none => simp [hl, hb, throw, throwThe, MonadExceptOf.throw, Except.bind, bind] at h
  | some l =>
    have hlen := be32List_length _ _ hb
    have h6 : l.length = 6 := by omega
    rcases l with _ | ⟨cg, _ | ⟨cs, _ | ⟨cl, _ | ⟨ct, _ | ⟨cy, _ | ⟨cc, _ | ⟨g, r'⟩⟩⟩⟩⟩⟩⟩ <;> simp at h6
    simp only [hl, hb, pure, Except.pure, Except.bind, bind, ↓reduceIte] at h
    cases h1 : readLongs s1 ct with
    | error e => simp [h1] at h
    | ok p1 =>
    obtain ⟨times, s2⟩ := p1
    simp only [h1] at h
    cases h2 : readBytes s2 ct with
    | error e => simp [h2] at h
    | ok p2 =>
    obtain ⟨idxs, s3⟩ := p2
    simp only [h2] at h
    cases h3 : readTtinfo cy.toNat s3 with
    | error e => simp [h3] at h
    | ok p3 =>
    obtain ⟨recs, s4⟩ := p3
    simp only [h3] at h
    by_cases ha : ((readN s4 cc).fst.any fun x => decide (x ≥ 128)) = true
    case pos => simp [ha, throw, throwThe, MonadExceptOf.throw] at h
    simp only [ha, Bool.false_eq_true, ↓reduceIte] at h
    generalize (if cl ≥ 0 then List.drop (cl * 8).toNat (readN s4 cc).snd
      else List.drop (↑data.length - ↑(readN s4 cc).snd.length + cl * 8).toNat data) = s5 at h
    cases h4 : readBytes s5 cs with
    | error e => simp [h4] at h
    | ok p4 =>
    obtain ⟨sb, s6⟩ := p4
    simp only [h4] at h
    cases h5 : readBytes s6 cg with
    | error e => simp [h5] at h
    | ok p5 =>
    obtain ⟨gb, s7⟩ := p5
    simp only [h5] at h
    by_cases hany : (idxs.any fun i => decide (i.toNat ≥ (mkTypes recs (readN s4 cc).fst sb gb).length)) = true
    case pos => simp [hany, throw, throwThe, MonadExceptOf.throw] at h
    simp only [hany, Bool.false_eq_true, ↓reduceIte, Except.ok.injEq] at h
    subst h
    simp only [Raw.ok, List.all_eq_true, decide_eq_true_eq]
    intro p hp
    have hmem : p.2 ∈ idxs.map (fun x => x.toNat) := (List.of_mem_zip hp).2
    simp only [List.mem_map] at hmem
    obtain ⟨b, hb1, hb2⟩ := hmem
    simp only [List.any_eq_true, decide_eq_true_eq, not_exists, not_and, Nat.not_le] at hany
    rw [← hb2]; exact hany b hb1

end TzifGen
