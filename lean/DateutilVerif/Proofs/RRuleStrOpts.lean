/-
  Proofs/RRuleStrOpts.lean — `ignoretz` / `tzinfos` / `cache` reach every `parser.parse` call and every
  constructor on all three paths of `_parse_rfc` (single-line fast path, several lines with one rule, set) (C13).
-/
import DateutilVerif.Proofs.RRuleStrErrors

namespace RRuleStr
open ICal (isSpace upper splitOnChar pyInt rstrip strip isDigit splitLines)

variable {po : ParseOpts}

/-- the UNTIL value of an assignment, when it is one, was parsed with `po` -/
def Update.optsOK (po : ParseOpts) : Update → Prop
  | .untilV _ p => p = po
  | _ => True

/-- the UNTIL value among the arguments, when present, was parsed with `po` -/
def RArgs.optsOK (po : ParseOpts) (a : RArgs) : Prop := ∀ u, a.untilV = some u → u.2 = po

macro "fin_opts " h:ident : tactic => `(tactic|
  first
    | (cases $h:ident; first | trivial | rfl)
    | (try simp only [bind, Except.bind] at $h:ident
       split at $h:ident <;> first | (cases $h:ident; done) | (cases $h:ident; first | trivial | rfl)))

theorem handleU_optsOK {name value : List Char} {u : Update} (h : handleU po name value = .ok u) : u.optsOK po := by
  unfold handleU at h
  by_cases c0 : (name == lit "INTERVAL") = true
  · rw [if_pos c0] at h; fin_opts h
  rw [if_neg c0] at h
  by_cases c1 : (name == lit "COUNT") = true
  · rw [if_pos c1] at h; fin_opts h
  rw [if_neg c1] at h
  by_cases c2 : (name == lit "BYSETPOS") = true
  · rw [if_pos c2] at h; fin_opts h
  rw [if_neg c2] at h
  by_cases c3 : (name == lit "BYMONTH") = true
  · rw [if_pos c3] at h; fin_opts h
  rw [if_neg c3] at h
  by_cases c4 : (name == lit "BYMONTHDAY") = true
  · rw [if_pos c4] at h; fin_opts h
  rw [if_neg c4] at h
  by_cases c5 : (name == lit "BYYEARDAY") = true
  · rw [if_pos c5] at h; fin_opts h
  rw [if_neg c5] at h
  by_cases c6 : (name == lit "BYEASTER") = true
  · rw [if_pos c6] at h; fin_opts h
  rw [if_neg c6] at h
  by_cases c7 : (name == lit "BYWEEKNO") = true
  · rw [if_pos c7] at h; fin_opts h
  rw [if_neg c7] at h
  by_cases c8 : (name == lit "BYHOUR") = true
  · rw [if_pos c8] at h; fin_opts h
  rw [if_neg c8] at h
  by_cases c9 : (name == lit "BYMINUTE") = true
  · rw [if_pos c9] at h; fin_opts h
  rw [if_neg c9] at h
  by_cases c10 : (name == lit "BYSECOND") = true
  · rw [if_pos c10] at h; fin_opts h
  rw [if_neg c10] at h
  by_cases c11 : (name == lit "FREQ") = true
  · rw [if_pos c11] at h; fin_opts h
  rw [if_neg c11] at h
  by_cases c12 : (name == lit "UNTIL") = true
  · rw [if_pos c12] at h; fin_opts h
  rw [if_neg c12] at h
  by_cases c13 : (name == lit "WKST") = true
  · rw [if_pos c13] at h; fin_opts h
  rw [if_neg c13] at h
  by_cases c : (name == lit "BYWEEKDAY" || name == lit "BYDAY") = true
  · rw [if_pos c] at h; fin_opts h
  rw [if_neg c] at h
  cases h

theorem apply_optsOK {u : Update} {a : RArgs} (hu : u.optsOK po) (ha : a.optsOK po) : (u.apply a).optsOK po := by
  cases u <;> first
    | exact ha
    | (intro w hw; simp only [Update.apply] at hw; cases hw; exact hu)

theorem stepPair_optsOK {a a' : RArgs} {pair : List Char} (ha : a.optsOK po) (h : stepPair po a pair = .ok a') :
    a'.optsOK po := by
  unfold stepPair handle at h
  split at h
  · next name value _ =>
    cases hh : handleU po (upper name) (upper value) with
    | error e => rw [hh] at h; cases h
    | ok u => rw [hh] at h; cases h; exact apply_optsOK (handleU_optsOK hh) ha
  · cases h

theorem foldlM_stepPair_optsOK : ∀ (ps : List (List Char)) {a a' : RArgs}, a.optsOK po →
    ps.foldlM (stepPair po) a = .ok a' → a'.optsOK po
  | [], a, a', ha, h => by cases h; exact ha
  | p :: ps, a, a', ha, h => by
    rw [List.foldlM_cons] at h
    cases hp : stepPair po a p with
    | error e => rw [hp] at h; cases h
    | ok a1 => rw [hp] at h; exact foldlM_stepPair_optsOK ps (stepPair_optsOK ha hp) h

theorem empty_optsOK : ({} : RArgs).optsOK po := by intro u hu; cases hu

/-- `_parse_rfc_rrule(line, ignoretz=…, tzinfos=…)`: the UNTIL value is parsed with exactly these options -/
theorem ruleOf_optsOK {v : List Char} {a : RArgs} (h : ruleOf po v = .ok a) : a.optsOK po := by
  unfold ruleOf parseRRuleLine at h
  cases hv : lineValue v with
  | error e => rw [hv] at h; cases h
  | ok value =>
    rw [hv] at h
    cases hf : (splitOnChar ';' value).foldlM (stepPair po) {} with
    | error e => simp only [hf, bind, Except.bind] at h; cases h
    | ok a1 =>
      simp only [hf, bind, Except.bind] at h
      unfold needFreq at h
      split at h
      · cases h
      · cases h; exact foldlM_stepPair_optsOK _ empty_optsOK hf

theorem mapM_ruleOf_optsOK : ∀ (vs : List (List Char)) {as : List RArgs}, vs.mapM (ruleOf po) = .ok as →
    ∀ a ∈ as, a.optsOK po
  | [], as, h => by cases h; intro a ha; simp at ha
  | v :: vs, as, h => by
    rw [List.mapM_cons] at h
    cases hv : ruleOf po v with
    | error e => simp only [hv, bind, Except.bind] at h; cases h
    | ok a1 =>
      cases hvs : vs.mapM (ruleOf po) with
      | error e => simp only [hv, hvs, bind, Except.bind] at h; cases h
      | ok as1 =>
        simp only [hv, hvs, bind, Except.bind, pure, Except.pure] at h
        cases h
        intro a ha
        rcases List.mem_cons.mp ha with rfl | ha
        · exact ruleOf_optsOK hv
        · exact mapM_ruleOf_optsOK vs hvs a ha

/-- every date value collected from EXDATE / DTSTART lines was parsed with `po` -/
def Acc.optsOK (po : ParseOpts) (acc : Acc) : Prop :=
  (∀ d ∈ acc.exdatevals, d.2.2 = po) ∧ (∀ d, acc.dtstart = some d → d.2.2 = po)

theorem stepLine_optsOK {acc acc' : Acc} {line : List Char} (ha : acc.optsOK po) (h : stepLine po acc line = .ok acc') :
    acc'.optsOK po := by
  unfold stepLine at h
  split at h
  · cases h; exact ha
  · simp only [] at h
    repeat' split at h
    all_goals first
      | (cases h; done)
      | (cases h; exact ha)
      | skip
    all_goals (
      generalize dateParmsOk _ = r at h
      cases r with
      | error e => cases h
      | ok u =>
        first
        | (cases h; done)
        | (cases h
           first
           | exact ⟨ha.1, fun d hd => by cases hd; rfl⟩
           | exact ⟨fun d hd => by
               rcases List.mem_append.mp hd with hd | hd
               · exact ha.1 d hd
               · obtain ⟨x, _, rfl⟩ := List.mem_map.mp hd; rfl, ha.2⟩))

theorem foldlM_stepLine_optsOK : ∀ (ls : List (List Char)) {acc acc' : Acc}, acc.optsOK po →
    ls.foldlM (stepLine po) acc = .ok acc' → acc'.optsOK po
  | [], acc, acc', ha, h => by cases h; exact ha
  | l :: ls, acc, acc', ha, h => by
    rw [List.foldlM_cons] at h
    cases hl : stepLine po acc l with
    | error e => rw [hl] at h; cases h
    | ok a1 => rw [hl] at h; exact foldlM_stepLine_optsOK ls (stepLine_optsOK ha hl) h

theorem emptyAcc_optsOK : ({} : Acc).optsOK po :=
  ⟨fun d hd => by simp at hd, fun d hd => by cases hd⟩

/-- what "the options reached everything" means for a result: every UNTIL of every rule, every RDATE and EXDATE value and
    the DTSTART value carry `po` (the `ignoretz` / `tzinfos` the caller passed), and the rule / the set is built with
    `cache` -/
def Parsed.optsOK (po : ParseOpts) (cache : Bool) : Parsed → Prop
  | .rule a dt c => a.optsOK po ∧ (∀ d, dt = some d → d.2.2 = po) ∧ c = cache
  | .set rr ex rd exd dt _ c =>
      (∀ a ∈ rr, a.optsOK po) ∧ (∀ a ∈ ex, a.optsOK po) ∧ (∀ d ∈ rd, d.2 = po) ∧ (∀ d ∈ exd, d.2.2 = po) ∧
      (∀ d, dt = some d → d.2.2 = po) ∧ c = cache

/-- the two single-rule paths (`_parse_rfc_rrule(…, cache=cache, ignoretz=ignoretz, tzinfos=tzinfos)`) -/
theorem buildRule_optsOK {v : List Char} {dt : Option DateV} {cache : Bool} {r : Parsed}
    (hdt : ∀ d, dt = some d → d.2.2 = po) (h : buildRule po v dt cache = .ok r) : r.optsOK po cache := by
  unfold buildRule at h
  cases hv : ruleOf po v with
  | error e => simp only [hv, bind, Except.bind] at h; cases h
  | ok a =>
    simp only [hv, bind, Except.bind] at h
    cases h
    exact ⟨ruleOf_optsOK hv, hdt, rfl⟩

/-- the set path -/
theorem buildSet_optsOK {acc : Acc} {c kw cache : Bool} {r : Parsed} (ha : acc.optsOK po)
    (h : buildSet po acc c kw cache = .ok r) : r.optsOK po cache := by
  unfold buildSet at h
  cases h1 : acc.rrulevals.mapM (ruleOf po) with
  | error e => rw [h1] at h; cases h
  | ok rr =>
    cases h2 : acc.exrulevals.mapM (ruleOf po) with
    | error e => rw [h1, h2] at h; cases h
    | ok ex =>
      rw [h1, h2] at h; cases h
      refine ⟨mapM_ruleOf_optsOK _ h1, mapM_ruleOf_optsOK _ h2, ?_, ha.1, ha.2, rfl⟩
      intro d hd
      obtain ⟨x, _, rfl⟩ := List.mem_map.mp hd
      rfl

/-- all three paths of `_parse_rfc` -/
theorem parseLines_optsOK {cache : Bool} {s : List Char} {lines : List (List Char)} {f c kw : Bool} {r : Parsed}
    (h : parseLines po cache s lines f c kw = .ok r) : r.optsOK po cache := by
  unfold parseLines at h
  split at h
  · -- the single-line fast path
    exact buildRule_optsOK (fun d hd => by cases hd) h
  · cases hf : lines.foldlM (stepLine po) {} with
    | error e => rw [hf] at h; cases h
    | ok acc =>
      rw [hf] at h
      have hacc := foldlM_stepLine_optsOK lines emptyAcc_optsOK hf
      simp only [bind, Except.bind] at h
      split at h
      · -- the set path
        exact buildSet_optsOK hacc h
      · split at h
        · -- several lines, one rule
          exact buildRule_optsOK hacc.2 h
        · cases h

/-- `options_reach_every_path`: whatever the text and the other options, in every successful result of `rrulestr` every
    date value (UNTIL of every rule and exrule, RDATE, EXDATE, DTSTART) was parsed with exactly the `ignoretz` / `tzinfos`
    that were passed, and the rule or set was built with exactly the `cache` that was passed -/
theorem parseRfc_optsOK {s : List Char} {o : Opts} {kw : Bool} {r : Parsed} (h : parseRfc s o kw = .ok r) :
    r.optsOK o.po o.cache := by
  unfold parseRfc at h
  simp only [] at h
  split at h
  · cases h
  · exact parseLines_optsOK h

end RRuleStr
