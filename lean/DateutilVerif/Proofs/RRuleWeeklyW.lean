/-
  Proofs/RRuleWeeklyW.lean — WEEKLY with BYWEEKNO on the complement of D-C01c.  As in `RRuleWeekly.lean` the model's
  period 0 starts at the start's own day and later periods at the week start; a period beginning in late December
  runs into the 7-day tail of the masks, where the week-number mask is right up to the next week start
  (`buildWnomask_tail`, `WInvT`).  With BYWEEKNO given there is no default weekday, so the date-level parts are those
  of the DAILY reading (`asDaily0`) plus the BYWEEKNO clause.
-/
import DateutilVerif.Proofs.RRuleWeeklyWTail
import DateutilVerif.Proofs.RRuleWeekly
import DateutilVerif.Proofs.RRuleDailyW

namespace RRule
open Cal

/-- WEEKLY argument sets with BYWEEKNO on the complement of D-C01c -/
structure WeeklyWArgs (a : Args) : Prop where
  freq : a.freq = 2
  interval : 1 ≤ a.interval
  valid : a.dtstart.Valid
  byeaster : a.byeaster = none
  monthday_nz : ∀ x ∈ a.bymonthday.getD [], x ≠ 0
  weekno : ∃ wl, a.byweekno = some wl ∧ wl ≠ [] ∧ WnoOk wl
  setpos : a.bysetpos = none ∨ weekdayOfOrd (Spec.RRule.startOrd a) = a.wkst.getD 0
  wkst : 0 ≤ a.wkst.getD 0 ∧ a.wkst.getD 0 ≤ 6
  until_ge : ∀ u, a.untilDT = some u → Spec.RRule.startMicros a ≤ u.toMicros

variable {a : Args} {r : Rule}

theorem ww_dw (wa : WeeklyWArgs a) : DWArgs (asDaily0 a) :=
  ⟨Or.inr rfl, wa.interval, wa.valid, rfl, wa.byeaster, wa.monthday_nz⟩

theorem ww_warg (wa : WeeklyWArgs a) : WArg a := by
  obtain ⟨wl, h1, h2, h3⟩ := wa.weekno
  exact Or.inr ⟨wl, h1, h2, h3, wa.wkst⟩

theorem ww_nodayparts (wa : WeeklyWArgs a) : noDayParts a = false := by
  obtain ⟨wl, h1, _⟩ := wa.weekno
  unfold noDayParts; rw [h1]; rfl

theorem ww_rule (wa : WeeklyWArgs a) (h : construct a = .ok r) : ∃ bh bm bs, r = dailyWRuleOf a bh bm bs := by
  have hts := construct_timeset a r h (by rw [wa.freq]; omega)
  obtain ⟨sp, bh, bm, bs, ts, h1, h2, h3, h4, h5, rfl⟩ := construct_ok a r h
  dsimp only at hts
  subst hts
  have hsp := (normBysetpos_ok a sp h1).1
  subst hsp
  have hne0 : (a.freq == 0) = false := by simp [wa.freq]
  exact ⟨bh, bm, bs, by simp [dailyWRuleOf, hne0, wa.byeaster, bymonthOf]⟩

theorem ww_cuts (wa : WeeklyWArgs a) (h : construct a = .ok r) : CutsAgree a r := by
  obtain ⟨bh, bm, bs, hr⟩ := ww_rule wa h
  rw [hr]; exact ⟨rfl, rfl, rfl⟩

theorem ww_wrule (wa : WeeklyWArgs a) (h : construct a = .ok r) : WRule r := by
  have hd := construct_nth_demoted a r h (by rw [wa.freq]; omega)
  obtain ⟨bh, bm, bs, hr⟩ := ww_rule wa h
  rw [hr] at hd ⊢
  refine wrule_of a _ (ww_warg wa) rfl rfl ?_ rfl
  dsimp only at hd ⊢
  rcases hd with hd | hd <;> rw [hd] <;> rfl

/-! ### the argument side at FREQ = WEEKLY with some day part given -/

theorem dateOk_split_w (a : Args) (hf : a.freq = 2) (hnd : noDayParts a = false) (ord : Int) :
    Spec.RRule.dateOk a ord = (Spec.RRule.dateOk (asDaily0 a) ord && specW a ord) := by
  have hnd' : Spec.RRule.noDayParts a = false := hnd
  have f0 : (a.freq == 0) = false := by rw [hf]; decide
  have f1 : (a.freq == 1) = false := by rw [hf]; decide
  have fg : decide (a.freq > 1) = true := by rw [hf]; decide
  unfold Spec.RRule.dateOk Spec.RRule.months Spec.RRule.monthdays Spec.RRule.weekdays specW asDaily0
  have g0 : ((3 : Int) == 0) = false := by decide
  have g1 : ((3 : Int) == 1) = false := by decide
  have g2 : ((3 : Int) == 2) = false := by decide
  have gg : decide ((3 : Int) > 1) = true := by decide
  simp only [f0, f1, hnd', fg, g0, g1, g2, gg, Bool.and_false, Bool.false_and, Bool.or_self, Bool.false_eq_true,
    ↓reduceIte, Bool.or_true, Bool.true_or]
  rcases a.byweekno with _ | (_ | ⟨x, xs⟩) <;> dsimp only <;> (try simp only [Bool.and_true]) <;> (try ac_rfl)

theorem date_fields_asDaily0_w (a : Args) (hf : a.freq = 2) (hnd : noDayParts a = false) :
    bymonthdayOf (asDaily0 a) = bymonthdayOf a ∧ bynmonthdayOf (asDaily0 a) = bynmonthdayOf a ∧
    byweekdayOf (asDaily0 a) = byweekdayOf a := by
  have f0 : (a.freq == 0) = false := by rw [hf]; decide
  have f1 : (a.freq == 1) = false := by rw [hf]; decide
  have fg : decide (a.freq > 1) = true := by rw [hf]; decide
  have hm : monthdayArg (asDaily0 a) = monthdayArg a := by
    unfold monthdayArg asDaily0; simp [f0, f1]
  have hw : weekdayArg (asDaily0 a) = weekdayArg a := by
    unfold weekdayArg; rw [hnd]; unfold asDaily0; simp
  have hp : ∀ l, plainWeekdays (asDaily0 a) l = plainWeekdays a l := by
    intro l; unfold plainWeekdays asDaily0; simp [fg]
  refine ⟨by unfold bymonthdayOf; rw [hm], by unfold bynmonthdayOf; rw [hm], ?_⟩
  unfold byweekdayOf; rw [hw]
  cases weekdayArg a with
  | none => rfl
  | some l => dsimp only; rw [hp]

/-- **bridge**: the model's filter predicate is the specification's `dateOk` -/
theorem ww_bridge (wa : WeeklyWArgs a) (h : construct a = .ok r) (ord : Int) (ho : 1 ≤ ord) :
    (simpleOk r ord && wclause r ord) = Spec.RRule.dateOk a ord := by
  obtain ⟨bh, bm, bs, hr⟩ := ww_rule wa h
  have hnd := ww_nodayparts wa
  obtain ⟨e1, e2, e3⟩ := date_fields_asDaily0_w a wa.freq hnd
  have hs : simpleOk r ord = simpleOk (dailyRuleOf (asDaily0 a) none none none) ord := by
    rw [hr]
    unfold simpleOk
    dsimp only
    rw [e1, e2, e3]
    rfl
  rw [hs, simpleOk_rule_eq_dateOk (ww_dw wa) none none none ord ho,
    wclause_eq_specW a r (by rw [hr]) (by rw [hr]), dateOk_split_w a wa.freq hnd]

/-! ### the refinement -/

theorem ww_W0_facts (wa : WeeklyWArgs a) :
    W0 a ≤ Spec.RRule.startOrd a ∧ Spec.RRule.startOrd a < W0 a + 7 ∧
    (∀ m : Int, weekdayOfOrd (W0 a + 7 * m) = a.wkst.getD 0) := by
  have hr := weekdayOfOrd_range (Spec.RRule.startOrd a)
  have hw := wa.wkst
  unfold W0 Spec.RRule.weekStart
  refine ⟨by omega, by omega, ?_⟩
  intro m
  have e : Spec.RRule.startOrd a - (weekdayOfOrd (Spec.RRule.startOrd a) - a.wkst.getD 0) % 7 + 7 * m =
      Spec.RRule.startOrd a + (-((weekdayOfOrd (Spec.RRule.startOrd a) - a.wkst.getD 0) % 7) + 7 * m) := by omega
  rw [e, weekdayOfOrd_add]
  omega

theorem ww_wk (wa : WeeklyWArgs a) (k : Nat) (st : State) (hg : WeeklyGood a r k st) :
    curOrd st.cur - (weekdayOfOrd (curOrd st.cur) - a.wkst.getD 0) % 7 = W0 a + 7 * (k * a.interval) := by
  have hf := ww_W0_facts wa
  rw [hg.ord]
  by_cases hk : k = 0
  · subst hk; simp only [if_true]; unfold W0 Spec.RRule.weekStart; simp
  · rw [if_neg hk, hf.2.2]; omega

theorem ww_span (wa : WeeklyWArgs a) (k : Nat) :
    Spec.RRule.periodSpan a (k * a.interval) =
      (W0 a + 7 * (k * a.interval), W0 a + 7 * (k * a.interval) + 7, none, none, none) := by
  unfold Spec.RRule.periodSpan W0 Spec.RRule.wkst
  simp [wa.freq]

/-- the WEEKLY day set of period `k`: from the cursor to the day before the next week start, inside the readable
    part of the masks -/
theorem ww_dayset_end (wa : WeeklyWArgs a) (h : construct a = .ok r) (k : Nat) (st : State)
    (hg : WeeklyGood a r k st) :
    ∃ e, dayset r st.info st.cur = .ok (intRange (curOrd st.cur - st.info.yearordinal) e) ∧
      st.info.yearordinal + e = W0 a + 7 * (k * a.interval) + 7 ∧
      W0 a + 7 * (k * a.interval) ≤ curOrd st.cur ∧ curOrd st.cur < W0 a + 7 * (k * a.interval) + 7 ∧
      1 ≤ curOrd st.cur ∧ 0 ≤ curOrd st.cur - st.info.yearordinal ∧
      curOrd st.cur - st.info.yearordinal < st.info.yearlen ∧ e ≤ readEnd r st.info := by
  obtain ⟨bh, bm, bs, hr⟩ := ww_rule wa h
  have hfreq : r.freq = 2 := by rw [hr]; exact wa.freq
  have hwk : r.wkst = a.wkst.getD 0 := by rw [hr]
  have hf := ww_W0_facts wa
  have hw := wa.wkst
  have hpos : 1 ≤ Spec.RRule.startOrd a := by
    have hv := wa.valid
    unfold DT.Valid ValidDate at hv
    exact toOrdinal_pos _ _ _ hv.1.1 hv.1.2.2
  have hwkst := ww_wk wa k st hg
  have hyo := hg.facts.yearordinal
  have hyl := hg.facts.yearlen
  have hidx := index_range _ _ _ hg.valid
  have hrange := weekdayOfOrd_range (curOrd st.cur)
  obtain ⟨e, hd, h1, h2, h3, h4⟩ := dayset_weekly hfreq hg.facts hg.valid
  rw [hwk] at h3 h4
  have he : st.info.yearordinal + e = W0 a + 7 * (k * a.interval) + 7 := by
    have hδ : 0 ≤ (weekdayOfOrd (curOrd st.cur) - a.wkst.getD 0) % 7 ∧
        (weekdayOfOrd (curOrd st.cur) - a.wkst.getD 0) % 7 < 7 := by omega
    by_cases c1 : e ≤ curOrd st.cur - st.info.yearordinal + 7 - (weekdayOfOrd (curOrd st.cur) - a.wkst.getD 0) % 7
    · by_cases c2 : e = curOrd st.cur - st.info.yearordinal + 7 - (weekdayOfOrd (curOrd st.cur) - a.wkst.getD 0) % 7
      · omega
      · exfalso
        rcases h4 with h4 | h4
        · omega
        · have e4 : st.info.yearordinal + e = curOrd st.cur + (e - (curOrd st.cur - st.info.yearordinal)) := by omega
          rw [e4, weekdayOfOrd_add] at h4
          omega
    · exfalso
      have := h3 (curOrd st.cur - st.info.yearordinal + 7 - (weekdayOfOrd (curOrd st.cur) - a.wkst.getD 0) % 7)
        (by omega) (by omega)
      apply this
      have e4 : st.info.yearordinal + (curOrd st.cur - st.info.yearordinal + 7 -
          (weekdayOfOrd (curOrd st.cur) - a.wkst.getD 0) % 7) =
          curOrd st.cur + (7 - (weekdayOfOrd (curOrd st.cur) - a.wkst.getD 0) % 7) := by omega
      rw [e4, weekdayOfOrd_add]
      omega
  have hk0 : (0 : Int) ≤ k * a.interval := Int.mul_nonneg (by omega) (by have := wa.interval; omega)
  have hcur1 : 1 ≤ curOrd st.cur := by
    rw [hg.ord]; split
    · exact hpos
    · rename_i hk
      have : (1 : Int) ≤ k * a.interval := by
        have h1 : (1 : Int) ≤ k := by omega
        have := Int.mul_le_mul h1 wa.interval (by omega) (by omega); omega
      omega
  have hi1 : curOrd st.cur - st.info.yearordinal < st.info.yearlen := by
    unfold curOrd; rw [hyo, hyl]; exact hidx.2
  refine ⟨e, hd, he, by omega, by omega, hcur1, ?_, hi1, ?_⟩
  · unfold curOrd; rw [hyo]; exact hidx.1
  · -- the first week start on or after next Jan 1 is not before the period's end
    have hwd' := weekdayOfOrd_range (st.info.yearordinal + st.info.yearlen)
    have hre : weekdayOfOrd (st.info.yearordinal + readEnd r st.info) = a.wkst.getD 0 := by
      unfold readEnd
      rw [hwk]
      have e5 : st.info.yearordinal + (st.info.yearlen +
          (a.wkst.getD 0 - weekdayOfOrd (st.info.yearordinal + st.info.yearlen)) % 7) =
          st.info.yearordinal + st.info.yearlen +
            (a.wkst.getD 0 - weekdayOfOrd (st.info.yearordinal + st.info.yearlen)) % 7 := by omega
      rw [e5, weekdayOfOrd_add]
      omega
    by_cases c : e ≤ readEnd r st.info
    · exact c
    · exfalso
      have hge : st.info.yearlen ≤ readEnd r st.info := by unfold readEnd; omega
      exact h3 (readEnd r st.info) (by omega) (by omega) hre

/-- the model's results of period `k` against the specification's candidates -/
theorem ww_results (wa : WeeklyWArgs a) (h : construct a = .ok r) (k : Nat) (st : State)
    (hg : WeeklyGood a r k st) (inv : WInvT r st.info) (hle : W0 a + 7 * (k * a.interval) + 7 ≤ maxOrdinal + 1) :
    ∃ fl pre cands, periodResults r st = .ok (cands, none, fl) ∧ Spec.RRule.sel a (k : Int) = pre ++ cands ∧
      (∀ x ∈ pre, x.micros < Spec.RRule.startMicros a ∧ Spec.RRule.afterUntil a x = false) ∧
      (∀ x ∈ cands, 0 ≤ x.ord ∧ x.ord ≤ maxOrdinal) := by
  have hw := ww_wrule wa h
  obtain ⟨bh, bm, bs, hr⟩ := ww_rule wa h
  have hsp := construct_bysetpos a r h
  have htsok : TsOk st.timeset := by
    have := construct_timeset_ok a r h (by rw [wa.freq]; omega)
    rw [hr] at this; rw [hg.timeset]; exact this
  have hf := ww_W0_facts wa
  obtain ⟨e, hd, he, hcur_ge, hcur_lt, hcur1, hi0, hi_lt, here⟩ := ww_dayset_end wa h k st hg
  obtain ⟨fl, hres⟩ := periodResults_range_P st (fun o => simpleOk r o && wclause r o)
    (by intro i hi0' hi1'; exact dayFiltered_wT hw hg.facts inv i (by omega) (by omega))
    (by rw [hsp.1]; exact hsp.2) htsok hd (by omega) (by omega)
  have e1 : st.info.yearordinal + (curOrd st.cur - st.info.yearordinal) = curOrd st.cur := by omega
  rw [e1, he] at hres
  have hbridge : ∀ (lo hi : Int), 1 ≤ lo →
      (intRange lo hi).filter (fun o => simpleOk r o && wclause r o) = (intRange lo hi).filter (Spec.RRule.dateOk a) := by
    intro lo hi hlo
    apply List.filter_congr
    intro o ho
    exact ww_bridge wa h o (by have := (mem_intRange _ _ _).mp ho; omega)
  rw [hbridge _ _ hcur1, hg.timeset, hsp.1] at hres
  rcases wa.setpos with hnone | hal
  · -- no BYSETPOS: the days of week 0 the model leaves out lie before the start
    have hsel := sel_span a hnone k _ _ (ww_span wa k)
    rw [intRange_append _ (curOrd st.cur) _ hcur_ge (by omega), List.filter_append, List.flatMap_append] at hsel
    rw [hnone] at hres
    refine ⟨fl, _, _, hres, hsel, ?_, ?_⟩
    · intro x hx
      simp only [List.mem_flatMap, List.mem_filter, List.mem_map] at hx
      obtain ⟨o, ⟨ho, _⟩, t, ht, rfl⟩ := hx
      have hor := (mem_intRange _ _ _).mp ho
      have hk : k = 0 := by
        by_cases c : k = 0
        · exact c
        · have := hg.ord; rw [if_neg c] at this; omega
      have hcs : curOrd st.cur = Spec.RRule.startOrd a := by rw [hg.ord, if_pos hk]
      have hvt := timesOf_valid a wa.valid (by rw [wa.freq]; omega) t ht
      have hlt : (mkInst o t).micros < Spec.RRule.startMicros a := by
        have hv := wa.valid
        unfold DT.Valid at hv
        unfold ValidHMS at hvt
        unfold Spec.RRule.startMicros DT.toMicros DT.timeMicros DT.ordinal DT.usPerDay Inst.micros Inst.secs mkInst
        unfold Spec.RRule.startOrd DT.ordinal at hcs
        dsimp only
        omega
      refine ⟨hlt, ?_⟩
      unfold Spec.RRule.afterUntil
      cases hu : a.untilDT with
      | none => rfl
      | some u => have := wa.until_ge u hu; simp; omega
    · intro x hx
      have := sel_bounds _ _ _ _ x hx
      omega
  · -- a start on the week start: the model's period is the whole week, also under BYSETPOS
    have hw' := wa.wkst
    have hcw : weekdayOfOrd (curOrd st.cur) = a.wkst.getD 0 := by
      rw [hg.ord]; split
      · exact hal
      · exact hf.2.2 _
    have hcur : curOrd st.cur = W0 a + 7 * (k * a.interval) := by
      have := ww_wk wa k st hg
      rw [hcw] at this; omega
    rw [hcur] at hres
    have hsel := sel_span_sp a k _ _ (ww_span wa k)
    refine ⟨fl, [], Spec.RRule.sel a (k : Int), ?_, rfl, by simp, ?_⟩
    · rw [hres, hsel]
    · intro x hx
      rw [hsel] at hx
      have := sel_bounds _ _ _ _ x (applySetpos_subset _ _ x hx)
      omega

/-- `advance` reaches period `k+1` -/
theorem ww_next (wa : WeeklyWArgs a) (h : construct a = .ok r) (k : Nat) (st : State) (fl : Bool)
    (c : Option Int) (hg : WeeklyGood a r k st) (inv : WInvT r st.info)
    (hle : W0 a + 7 * ((k + 1 : Nat) * a.interval) ≤ maxOrdinal) :
    ∃ st', advance r { st with count := c } fl = .ok st' ∧ WeeklyGood a r (k + 1) st' ∧ WInvT r st'.info := by
  have hw' := ww_wrule wa h
  obtain ⟨bh, bm, bs, hr⟩ := ww_rule wa h
  have hfreq : r.freq = 2 := by rw [hr]; exact wa.freq
  have hint : r.interval = a.interval := by rw [hr]
  have hwk : r.wkst = a.wkst.getD 0 := by rw [hr]
  have hi := wa.interval
  have hw := wa.wkst
  have hf := ww_W0_facts wa
  have hwkst := ww_wk wa k st hg
  have hrange := weekdayOfOrd_range (curOrd st.cur)
  obtain ⟨hm1, hm12, hd1, hd2⟩ := hg.valid
  have ek : ((k + 1 : Nat) : Int) * a.interval = k * a.interval + a.interval := by
    push_cast; rw [Int.add_mul]; omega
  have hnew : ∀ d', d' = (if r.wkst > st.cur.weekday then st.cur.day + (-(st.cur.weekday + 1 + (6 - r.wkst)) + r.interval * 7)
        else st.cur.day + (-(st.cur.weekday - r.wkst) + r.interval * 7)) →
      curOrd { st.cur with day := d' } = W0 a + 7 * ((k + 1 : Nat) * a.interval) ∧ 1 ≤ d' := by
    intro d' hd'
    rw [curOrd_day, hd', hg.wd, hwk, hint, ek]
    split <;> (constructor <;> omega)
  have hex : ∃ st', advance r { st with count := c } fl = .ok st' ∧ WInvT r st'.info := by
    unfold advance
    dsimp only
    rw [if_neg (by simp [hfreq]), if_neg (by simp [hfreq]), if_pos (by simp [hfreq])]
    obtain ⟨e1, e2⟩ := hnew _ rfl
    exact fixDay_ok_wT hw'
      { cur := { st.cur with day := _, weekday := r.wkst }, info := st.info, timeset := st.timeset, count := c } true
      hm1 hm12 e2 hg.facts.year_lo hg.facts.year_hi
      (by have : curOrd { st.cur with day := (if r.wkst > st.cur.weekday then
                st.cur.day + (-(st.cur.weekday + 1 + (6 - r.wkst)) + r.interval * 7)
                else st.cur.day + (-(st.cur.weekday - r.wkst) + r.interval * 7)), weekday := r.wkst } =
              curOrd { st.cur with day := (if r.wkst > st.cur.weekday then
                st.cur.day + (-(st.cur.weekday + 1 + (6 - r.wkst)) + r.interval * 7)
                else st.cur.day + (-(st.cur.weekday - r.wkst) + r.interval * 7)) } := rfl
          rw [this, e1]; exact hle)
      inv
  obtain ⟨st', hadv, hinv'⟩ := hex
  refine ⟨st', hadv, ?_, hinv'⟩
  have sp := advance_weekly r { st with count := c } st' fl hfreq (by omega) hg.valid (by rw [hwk]; exact hw)
    (by show 0 ≤ st.cur.weekday ∧ st.cur.weekday ≤ 6; rw [hg.wd]; omega) hg.facts hadv
  obtain ⟨eo, v, wd', f', ts⟩ := sp
  have eo : curOrd st'.cur = curOrd st.cur - (st.cur.weekday - r.wkst) % 7 + 7 * r.interval := eo
  have eo' : curOrd st'.cur = W0 a + 7 * ((k + 1 : Nat) * a.interval) := by
    rw [eo, hg.wd, hwk, hint, ek]; omega
  refine ⟨f', hinv'.1, v, by rw [ts]; exact hg.timeset, ?_, ?_⟩
  · rw [wd', hwk, eo', hf.2.2]
  · rw [if_neg (by omega)]; exact eo'

/-- the initial state is the state of period 0 -/
theorem ww_init (wa : WeeklyWArgs a) (h : construct a = .ok r) :
    ∃ st0, init r = .ok st0 ∧ (WeeklyGood a r 0 st0 ∧ WInvT r st0.info) ∧ st0.count = r.count := by
  have hw := ww_wrule wa h
  have hv := wa.valid
  unfold DT.Valid ValidDate at hv
  obtain ⟨info, hre, hinv⟩ := rebuild_wT hw a.dtstart.y a.dtstart.m hv.1.1 hv.1.2.1
  obtain ⟨bh, bm, bs, hr⟩ := ww_rule wa h
  have hd : r.dtstart = { a.dtstart with us := 0 } := by rw [hr]
  have hf : r.freq < 4 := by rw [hr]; show a.freq < 4; rw [wa.freq]; omega
  have hts : r.timeset = some (Spec.RRule.timesOf a none none none) := by rw [hr]
  refine ⟨{ cur := { year := a.dtstart.y, month := a.dtstart.m, day := a.dtstart.d, hour := a.dtstart.hh,
                     minute := a.dtstart.mm, second := a.dtstart.ss, weekday := r.dtstart.weekday },
            info := info, timeset := Spec.RRule.timesOf a none none none, count := r.count }, ?_, ⟨?_, hinv⟩, rfl⟩
  · unfold init
    simp only [hd, bind, Except.bind, hre, hts, pure, Except.pure]
    rw [if_pos hf]
    rfl
  · refine ⟨rebuild_facts r _ _ info hre, hinv.1, hv.1.2.2, rfl, ?_, ?_⟩
    · rw [hd]; rfl
    · simp only [if_true]; rfl

/-- **`iter_eq_spec`, WEEKLY with BYWEEKNO** on the complement of D-C01c (the same side condition as inside the year:
    the 7-day tail of the week-number mask needs no further one) -/
theorem iter_eq_spec_weekly_weekno (wa : WeeklyWArgs a) (h : construct a = .ok r) (n : Nat)
    (hn : W0 a + 7 * (n * a.interval) + 7 ≤ maxOrdinal + 1) :
    (iter r n).1 = Spec.RRule.occ a n := by
  have hi := wa.interval
  have hmono : ∀ k : Nat, k ≤ n → W0 a + 7 * (k * a.interval) + 7 ≤ maxOrdinal + 1 := by
    intro k hk
    have : (k : Int) * a.interval ≤ n * a.interval :=
      Int.mul_le_mul_of_nonneg_right (by omega) (by omega)
    omega
  have sim : Simulation a r n (fun k st => WeeklyGood a r k st ∧ WInvT r st.info) := {
    agree := ww_cuts wa h
    results := fun k st hk hg => ww_results wa h k st hg.1 hg.2 (hmono k (by omega))
    next := fun k st fl c hk hg =>
      ww_next wa h k st fl c hg.1 hg.2 (by have := hmono (k + 1) (by omega); omega) }
  obtain ⟨st0, hinit, hg0, hc0⟩ := ww_init wa h
  exact iter_refines sim st0 hinit hg0 hc0 n (by omega)

-- a WeeklyWArgs instance whose first period (Mon 2024-12-30 .. Sun 2025-01-05, week 1 of 2025) reads the mask's tail
-- through the `if 1 in byweekno` block; 52 is listed together with −1 (complement of D-C01c)
example : WeeklyWArgs { freq := 2, dtstart := ⟨2024, 12, 30, 9, 0, 0, 0⟩, byweekno := some [1, 52, -1] } :=
  ⟨rfl, by decide, by decide, rfl, by intro x hx; simp at hx, ⟨[1, 52, -1], rfl, by decide, ⟨by decide, by decide⟩⟩,
   Or.inl rfl, by decide, by intro u hu; cases hu⟩
-- … and one with a Sunday week start, BYSETPOS (start on the week start), BYDAY and a last week running over the year end
example : WeeklyWArgs { freq := 2, dtstart := ⟨2025, 12, 28, 9, 0, 0, 0⟩, wkst := some 6, interval := 2,
                        byweekno := some [-1, 1, 53], byweekday := some [(0, 0), (4, 0)], bysetpos := some [-1] } :=
  ⟨rfl, by decide, by decide, rfl, by intro x hx; simp at hx, ⟨[-1, 1, 53], rfl, by decide, ⟨by decide, by decide⟩⟩,
   Or.inr (by decide), by decide, by intro u hu; cases hu⟩

end RRule
