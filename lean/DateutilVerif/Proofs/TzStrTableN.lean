/- Proofs/TzStrTableN.lean — a whole finite table of TZ-string spellings, by kernel evaluation. -/
import DateutilVerif.Proofs.TzStrDefs

namespace C08
open TzStr Posix

theorem tableN : ∀ n : Fin 366,
    parsesTo ("AAA5BBB," ++ toString n.val ++ ",M10.5.0") (attrOf (.N n.val) none) = true := by decide +kernel

end C08
