/-
  Proofs/ZonesRaw.lean — lifting the index-level facts to `Raw` tables and `Spec.pre`:
  the spec's offset at an instant is the offset of its segment; `Spec.pre` is duplicate-free;
  coverage of wall times.
-/
import DateutilVerif.Proofs.ZonesBuild
import DateutilVerif.Proofs.ZonesWall
import DateutilVerif.Proofs.SpecPre

namespace TZ
open Spec

/-- for every instant, the spec's offset in force is the offset of the instant's segment -/
theorem offsetAt_eq (r : Raw) (hwf : Spec.wf r = true) {b s f : TType}
    (hf : firstType r = some f) (hfb : Rel f b) (hc : Coherent (build r) b s) (hw : WFz (build r) b)
    (t : Int) : offsetAt r t = some (Bo (build r) b (bisectRight (build r).utc t)) := by
  by_cases hlt : bisectRight (build r).utc t < (build r).utc.length
  · obtain ⟨ty, hty, hrel⟩ := typeAt_rel r hwf hf hfb hc hw t hlt
    simp only [offsetAt, hty, Option.map_some]
    rw [hrel.1, hc.ttOf_off' _ (by omega) (Or.inl hlt)]
  · have hle := bisectRight_le (build r).utc t
    have heq : bisectRight (build r).utc t = (build r).utc.length := by omega
    have hpos := hc.npos
    have hb := bisectRight_spec t (hc.utc_sorted hw)
    have hutc : (build r).utc = r.trans.map (fun p => p.1) := rfl
    have hn : (build r).utc.length = r.trans.length := by simp [hutc]
    have hty : typeAt r t = r.types[(r.trans.getD (r.trans.length - 1) default).2]? := by
      unfold typeAt
      rw [filter_le_eq_take r.trans t _ (by rw [← hutc]; exact hb), heq, hn,
        getLast?_take _ _ (by omega) (Nat.le_refl _),
        getElem?_eq_some_getD (by omega) default]
    have hok : (r.trans.getD (r.trans.length - 1) default).2 < r.types.length := by
      simp only [Spec.wf, Bool.and_eq_true] at hwf
      have hall := hwf.1.1
      simp only [Raw.ok, List.all_eq_true, decide_eq_true_eq] at hall
      apply hall
      rw [List.getD_eq_getElem?_getD, List.getElem?_eq_getElem (by omega)]
      simp
    rw [getElem?_eq_some_getD hok default] at hty
    simp only [offsetAt, hty, Option.map_some]
    have htt : (build r).tts.getD ((build r).utc.length - 1) default
        = (finalTypes r).getD (r.trans.getD (r.trans.length - 1) default).2 default := by
      show (r.trans.map _).getD _ _ = _
      rw [hn, getD_map_lt _ _ _ (by omega) default default]
    rw [heq]
    unfold Bo A
    rw [if_neg (by omega), htt]
    exact congrArg some ((relL_final r).getD _).1

/-- pre-images, by index -/
theorem fromutcSpec_iff (r : Raw) (hwf : Spec.wf r = true) {b s f : TType}
    (hf : firstType r = some f) (hfb : Rel f b) (hc : Coherent (build r) b s) (hw : WFz (build r) b)
    (t w : Int) : fromutcSpec r t = some w ↔ w = t + Bo (build r) b (bisectRight (build r).utc t) := by
  unfold fromutcSpec
  rw [offsetAt_eq r hwf hf hfb hc hw t]
  simp only [Option.map_some, Option.some.injEq]
  constructor <;> intro h <;> omega

/-! ### lists without duplicates -/

theorem nodup_eraseDups_aux : ∀ (n : Nat) (l : List Int), l.length ≤ n → l.eraseDups.Nodup := by
  intro n
  induction n with
  | zero => intro l h; have : l = [] := List.eq_nil_of_length_eq_zero (by omega)
            subst this; simp
  | succ k ih =>
      intro l h
      cases l with
      | nil => simp
      | cons a as =>
          rw [List.eraseDups_cons, List.nodup_cons]
          refine ⟨?_, ih _ ?_⟩
          · rw [List.mem_eraseDups, List.mem_filter]
            intro ⟨_, h2⟩; simp at h2
          · have := List.length_filter_le (fun b => !b == a) as
            simp only [List.length_cons] at h; omega

theorem pre_nodup (r : Raw) (w : Int) : (pre r w).Nodup := by
  unfold pre
  exact List.Nodup.sublist List.filter_sublist (nodup_eraseDups_aux _ _ (Nat.le_refl _))

/-- a duplicate-free list in which any two of three members coincide has at most two elements -/
theorem length_le_two_of {l : List Int} (hn : l.Nodup)
    (h : ∀ a ∈ l, ∀ b ∈ l, ∀ c ∈ l, a = b ∨ a = c ∨ b = c) : l.length ≤ 2 := by
  match l, hn, h with
  | [], _, _ => simp
  | [_], _, _ => simp
  | [_, _], _, _ => simp
  | a :: b :: c :: rest, hn, h =>
      exfalso
      simp only [List.nodup_cons, List.mem_cons, not_or] at hn
      have := h a (by simp) b (by simp) c (by simp)
      omega

theorem length_eq_two_iff {l : List Int} (hn : l.Nodup) (h2 : l.length ≤ 2) :
    l.length = 2 ↔ ∃ a b, a ≠ b ∧ a ∈ l ∧ b ∈ l := by
  match l, hn, h2 with
  | [], _, _ => simp
  | [x], _, _ =>
      simp only [List.length_cons, List.length_nil, List.mem_singleton]
      constructor
      · intro h; omega
      · intro ⟨a, b, hab, ha, hb⟩; exact absurd (ha.trans hb.symm) hab
  | [x, y], hn, _ =>
      simp only [List.nodup_cons, List.mem_singleton] at hn
      constructor
      · intro _; exact ⟨x, y, hn.1, by simp, by simp⟩
      · intro _; rfl
  | _ :: _ :: _ :: _, _, h2 => simp at h2


/-! ### transitions by index -/

theorem U_mem {z : TzFile} (i : Nat) (hi : i < z.utc.length) : U z i ∈ z.utc := by
  unfold U
  rw [List.getD_eq_getElem?_getD, List.getElem?_eq_getElem hi]
  exact List.getElem_mem hi

theorem mem_U {z : TzFile} {u : Int} (h : u ∈ z.utc) : ∃ i, i < z.utc.length ∧ U z i = u := by
  obtain ⟨i, hi, e⟩ := List.mem_iff_getElem.mp h
  refine ⟨i, hi, ?_⟩
  unfold U
  rw [List.getD_eq_getElem?_getD, List.getElem?_eq_getElem hi]
  exact e

section
variable {z : TzFile} {b s : TType} (hc : Coherent z b s) (hwf : WFz z b)
include hc hwf

theorem Coherent.utc_lt (i j : Nat) (hij : i < j) (hj : j < z.utc.length) : U z i < U z j := by
  have h1 := hc.utc_strict hwf i (by omega)
  by_cases e : j = i + 1
  · subst e; exact h1
  · have := hc.utc_sorted hwf (i + 1) j (by omega) hj
    simp only [U] at *; omega

theorem Coherent.count_at (i : Nat) (hi : i < z.utc.length) : bisectRight z.utc (U z i) = i + 1 := by
  rw [hc.count_utc hwf _ _ (by omega)]
  exact ⟨fun _ => by simp, fun hn => hc.utc_lt hwf i (i + 1) (by omega) hn⟩

theorem Coherent.count_before (i : Nat) (hi : i < z.utc.length) : bisectRight z.utc (U z i - 1) = i := by
  rw [hc.count_utc hwf _ _ (by omega)]
  exact ⟨fun h0 => by have := hc.utc_lt hwf (i - 1) i (by omega) hi; omega, fun _ => by omega⟩

end

/-! ### coverage of wall times -/

/-- wall times the tzfile theorems cover: all of them when `ttinfo_std` is the last transition's
    type, otherwise those below the wall reading at which the last transition takes effect -/
def CovWall (r : Raw) (w : Int) : Prop :=
  LastStd (build r) ∨ ∃ u ob oa, lastTime r = some u ∧ offsetAt r (u - 1) = some ob ∧
    offsetAt r u = some oa ∧ w < u + min ob oa

theorem last_is_U (r : Raw) {b s : TType} (hc : Coherent (build r) b s) (u : Int)
    (hlast : lastTime r = some u) : U (build r) ((build r).utc.length - 1) = u := by
  have hutc : (build r).utc = r.trans.map (fun p => p.1) := rfl
  unfold lastTime at hlast
  unfold U
  rw [hutc, List.getD_eq_getElem?_getD, ← List.getLast?_eq_getElem?, List.getLast?_map]
  cases hl : r.trans.getLast? with
  | none => rw [hl] at hlast; simp at hlast
  | some p => rw [hl] at hlast; simp at hlast; simp [hlast]

theorem covWall_covered (r : Raw) (hwf : Spec.wf r = true) {b s f : TType}
    (hf : firstType r = some f) (hfb : Rel f b) (hc : Coherent (build r) b s) (hw : WFz (build r) b)
    (w : Int) (hcov : CovWall r w) (x : Int) (hx : x ≤ w) (fold : Bool) :
    Covered (build r) s (bisectRight (wallOf (build r) fold) x) := by
  rcases hcov with h | ⟨u, ob, oa, h1, h2, h3, h4⟩
  · right; unfold LastStd at h; rw [hc.hs] at h; exact Option.some.inj h
  · left
    have hpos := hc.npos
    have hu := last_is_U r hc u h1
    have e1 := offsetAt_eq r hwf hf hfb hc hw u
    have e2 := offsetAt_eq r hwf hf hfb hc hw (u - 1)
    rw [← hu, hc.count_at hw _ (by omega)] at e1
    rw [← hu, hc.count_before hw _ (by omega)] at e2
    rw [← hu] at h2 h3
    rw [h3] at e1; rw [h2] at e2
    have eo := Option.some.inj e1
    have eb := Option.some.inj e2
    have en : (build r).utc.length - 1 + 1 = (build r).utc.length := by omega
    rw [en] at eo
    have hk : bisectRight (wallOf (build r) fold) x ≤ (build r).utc.length := by
      rw [← hc.wallOf_len fold]; exact bisectRight_le _ _
    by_cases e : bisectRight (wallOf (build r) fold) x = (build r).utc.length
    · exfalso
      cases fold with
      | false =>
          have := ((hc.count_w0 hw x _ (Nat.le_refl _)).mp e).1 hpos
          simp only [Hi] at this; omega
      | true =>
          have := ((hc.count_w1 hw x _ (Nat.le_refl _)).mp e).1 hpos
          simp only [Hi, Lo, en] at this; omega
    · omega

end TZ
