/-
  Proofs/RRuleWeeknoEYearly.lean — YEARLY with BYWEEKNO (complement of D-C01c) TOGETHER with BYEASTER (offsets −80..250,
  years 1583..4099), plain BYDAY allowed: the week-number mask and the Easter mask are both present and the filter is
  `simpleOk ∧ week clause ∧ Easter clause`.  The argument side is reduced to `WeeknoYArgs` by dropping BYEASTER
  (`stripEas`): with BYWEEKNO given nothing else of the constructor or of `dateOk` looks at BYEASTER.
-/
import DateutilVerif.Proofs.RRuleNthEMonthly
import DateutilVerif.Proofs.RRuleWeeknoYearly

namespace RRule
open Cal

structure WeeknoEYArgs (a : Args) : Prop where
  freq : a.freq = 0
  interval : 1 ≤ a.interval
  valid : a.dtstart.Valid
  wkst : 0 ≤ a.wkst.getD 0 ∧ a.wkst.getD 0 ≤ 6
  monthday_nz : ∀ x ∈ a.bymonthday.getD [], x ≠ 0
  plain : ∀ w ∈ a.byweekday.getD [], w.2 = 0
  weekno : ∃ wl, a.byweekno = some wl ∧ wl ≠ [] ∧ WnoOk wl
  easter : ∃ el, a.byeaster = some el ∧ el ≠ [] ∧ ∀ o ∈ el, -80 ≤ o ∧ o ≤ 250

variable {a : Args} {r : Rule}

theorem wey_strip (wa : WeeknoEYArgs a) : WeeknoYArgs (stripEas a) :=
  ⟨wa.freq, wa.interval, wa.valid, wa.wkst, wa.monthday_nz, rfl, wa.plain, wa.weekno⟩

theorem wey_noDay (wa : WeeknoEYArgs a) : noDayParts a = false := by
  obtain ⟨wl, hwl, _, _⟩ := wa.weekno
  unfold noDayParts; simp [hwl]

/-- week-number mask and Easter mask, no nth BYDAY -/
structure WeeknoERule (r : Rule) : Prop where
  byweekno : truthy r.byweekno = true
  bynweekday : truthy r.bynweekday = false
  byeaster : truthy r.byeaster = true

variable {y : Int} {info : Info}

open RRule.Tables in
/-- the BY-filter with a week-number mask and an Easter mask, inside the year -/
theorem dayFiltered_weekno_e (hr : WeeknoERule r) (f : YearFacts r y info) (wmask emask : List Int)
    (hnw : info.nwdaymask = none) (hm : info.wnomask = some wmask) (hem : info.eastermask = some emask)
    (i : Int) (h0 : 0 ≤ i) (h1 : i < info.yearlen)
    (hlen : info.yearlen ≤ (wmask.length : Int)) (helen : info.yearlen ≤ (emask.length : Int)) :
    dayFiltered r info i =
      .ok (!(simpleOk r (info.yearordinal + i) && (wmask[i.toNat]'(by omega) != 0) &&
        (emask[i.toNat]'(by omega) != 0))) := by
  have hlen' : info.yearlen ≤ 366 := by rw [f.yearlen]; unfold daysInYear; split <;> omega
  have hdate := date_of_index y i f.year_lo h0 (by rw [← f.yearlen]; omega)
  rw [← f.yearordinal] at hdate
  have hmask : Py.getIdx wmask i = .ok (wmask[i.toNat]'(by omega)) := getIdx_int wmask i h0 (by omega)
  have hemask : Py.getIdx emask i = .ok (emask[i.toNat]'(by omega)) := getIdx_int emask i h0 (by omega)
  unfold dayFiltered
  rw [mmask_date f i h0 (by omega), wdaymask_date f i h0 (by omega), mdaymask_date f i h0 (by omega),
      nmdaymask_date f i h0 (by omega), hnw, hm, hem]
  simp only [maskMiss, hr.byweekno, hr.byeaster, ↓reduceIte, hmask, hemask]
  have c' : i < daysInYear y := by rw [← f.yearlen]; exact h1
  have hyd : (decide (i < info.yearlen) && !memO (i + 1) r.byyearday && !memO (-info.yearlen + i) r.byyearday ||
      decide (i ≥ info.yearlen) && !memO (i + 1 - info.yearlen) r.byyearday &&
        !memO (-info.nextyearlen + i - info.yearlen) r.byyearday) =
      !(memO (info.yearordinal + i - toOrdinal (fromOrdinal (info.yearordinal + i)).1 1 1 + 1) r.byyearday ||
        memO (info.yearordinal + i - toOrdinal (fromOrdinal (info.yearordinal + i)).1 1 1 + 1 -
              daysInYear (fromOrdinal (info.yearordinal + i)).1 - 1) r.byyearday) := by
    rw [hdate, if_pos c']
    have e1 : info.yearordinal + i - toOrdinal y 1 1 + 1 = i + 1 := by rw [f.yearordinal]; omega
    have e2 : i + 1 - daysInYear y - 1 = -info.yearlen + i := by rw [f.yearlen]; omega
    dsimp only
    rw [e1, e2]
    have c2 : ¬ (i ≥ info.yearlen) := by omega
    simp [h1, c2]
  unfold simpleOk
  rw [hyd]
  generalize memO (info.yearordinal + i - toOrdinal (fromOrdinal (info.yearordinal + i)).1 1 1 + 1) r.byyearday = ya
  generalize memO (info.yearordinal + i - toOrdinal (fromOrdinal (info.yearordinal + i)).1 1 1 + 1 -
              daysInYear (fromOrdinal (info.yearordinal + i)).1 - 1) r.byyearday = yb
  generalize (fromOrdinal (info.yearordinal + i)).2.1 = mo
  generalize (fromOrdinal (info.yearordinal + i)).2.2 = dd
  generalize (fromOrdinal (info.yearordinal + i)).1 = yy
  generalize weekdayOfOrd (info.yearordinal + i) = wd
  generalize (wmask[i.toNat]'(by omega)) = mv
  generalize (emask[i.toNat]'(by omega)) = ev
  have hbne : (mv != 0) = !(mv == 0) := rfl
  have hbne2 : (ev != 0) = !(ev == 0) := rfl
  rw [hbne, hbne2]
  generalize (mv == 0) = mz
  generalize (ev == 0) = ez
  cases truthy r.bymonth <;> cases memO mo r.bymonth <;> cases truthy r.byweekday <;>
    cases memO wd r.byweekday <;> cases r.bymonthday.isEmpty <;> cases r.bynmonthday.isEmpty <;>
    cases r.bymonthday.contains dd <;> cases r.bynmonthday.contains (dd - daysInMonth yy mo - 1) <;>
    cases truthy r.byyearday <;> cases ya <;> cases yb <;> cases mz <;> cases ez <;> rfl

/-- `rebuild` with a week-number mask and an Easter mask -/
theorem rebuild_weekno_e (hr : WeeknoERule r) (wl : List Int) (hwl : r.byweekno = some wl) (hc : WnoOk wl)
    (hwk : 0 ≤ r.wkst ∧ r.wkst ≤ 6) (el : List Int) (hel : r.byeaster = some el)
    (hoff : ∀ o ∈ el, -80 ≤ o ∧ o ≤ 250) (y m : Int) (hy1 : 1583 ≤ y) (hy2 : y ≤ 4099) :
    ∃ info wmask emask, rebuild r y m = .ok info ∧ info.nwdaymask = none ∧
      info.wnomask = some wmask ∧ (wmask.length : Int) = info.yearlen + 7 ∧
      (∀ j : Int, 0 ≤ j → j < info.yearlen →
        Py.getIdx wmask j = .ok (if weekClause r.wkst wl (info.yearordinal + j) = true then 1 else 0)) ∧
      info.eastermask = some emask ∧ info.yearlen ≤ (emask.length : Int) ∧
      (∀ j : Int, 0 ≤ j → j < info.yearlen →
        Py.getIdx emask j = .ok (if (info.yearordinal + j - Spec.RRule.easterOrd y) ∈ el then 1 else 0)) := by
  have hnwd : ∀ (yl : Int) (mr wd : List Int), buildNwdaymask r yl mr wd m = .ok none := by
    intro yl mr wd
    unfold buildNwdaymask
    have := hr.bynweekday
    split
    · rename_i h; rw [h] at this; simp [truthy] at this
    · rfl
  have hf0 := baseInfo_facts r y (by omega) (by omega)
  obtain ⟨wmask, w1, w2, w3⟩ := buildWnomask_spec hf0 r.wkst hwk wl hc
  have hne : ∃ w ws, wl = w :: ws := by
    have := hr.byweekno; rw [hwl] at this
    cases wl with
    | nil => simp [truthy] at this
    | cons w ws => exact ⟨w, ws, rfl⟩
  obtain ⟨w, ws, hwws⟩ := hne
  have hw : wnomaskOf r y (baseInfo y) = .ok (some wmask) := by
    unfold wnomaskOf
    rw [hwl, hwws]
    dsimp only
    rw [← hwws, w1]
  obtain ⟨emask, e1, e2, e3⟩ := eastermaskOf_spec hr.byeaster el hel hoff y hy1 hy2
  unfold rebuild
  rw [if_neg (by omega), hw]
  dsimp only
  rw [hnwd]
  dsimp only
  rw [e1]
  exact ⟨_, wmask, emask, rfl, rfl, rfl, w2, w3, rfl, e2, e3⟩

theorem wey_rule (wa : WeeknoEYArgs a) (h : construct a = .ok r) :
    ∃ bh bm bs, r = { weeknoRuleOf (stripEas a) bh bm bs with byeaster := some (eastersOf a) } := by
  have h0 := construct_stripEas a r h (wey_noDay wa) (wy_noDay (wey_strip wa))
  obtain ⟨bh, bm, bs, hr0⟩ := wy_rule (wey_strip wa) h0
  obtain ⟨el, hel, _, _⟩ := wa.easter
  obtain ⟨sp, bh', bm', bs', ts, _, _, _, _, _, hr⟩ := construct_ok a r h
  have hbe : r.byeaster = some (eastersOf a) := by rw [hr]; unfold eastersOf; rw [hel]; rfl
  refine ⟨bh, bm, bs, ?_⟩
  have : r = { ({ r with byeaster := none } : Rule) with byeaster := r.byeaster } := rfl
  rw [this, hr0, hbe]

theorem wey_cuts (wa : WeeknoEYArgs a) (h : construct a = .ok r) : CutsAgree a r := by
  obtain ⟨bh, bm, bs, hr⟩ := wey_rule wa h
  rw [hr]; exact ⟨rfl, rfl, rfl⟩

theorem wey_rule_facts (wa : WeeknoEYArgs a) (h : construct a = .ok r) :
    WeeknoERule r ∧ r.byweekno = some (weeknosOf a) ∧ r.byeaster = some (eastersOf a) ∧
    r.wkst = a.wkst.getD 0 ∧ r.freq = 0 ∧ r.interval = a.interval := by
  obtain ⟨bh, bm, bs, hr⟩ := wey_rule wa h
  obtain ⟨el, hel, hne, hoff⟩ := wa.easter
  have h1 := (wy_weeknos (wey_strip wa)).2.2
  have h2 := wy_nwd (wey_strip wa)
  rw [hr]
  exact ⟨⟨h1, h2, (easters_facts a el hel hne hoff).2⟩, rfl, rfl, rfl, wa.freq, rfl⟩

/-- **bridge**: inside the year `y`, calendar predicate ∧ week clause ∧ Easter clause is `dateOk` -/
theorem wey_bridge (wa : WeeknoEYArgs a) (h : construct a = .ok r) (info : Info) (y j : Int)
    (hy : 1 ≤ y) (hj0 : 0 ≤ j) (hj1 : j < daysInYear y) (hyo : info.yearordinal = toOrdinal y 1 1) :
    (simpleOk r (info.yearordinal + j) && weekClause r.wkst (weeknosOf a) (info.yearordinal + j) &&
      decide ((info.yearordinal + j - Spec.RRule.easterOrd y) ∈ eastersOf a)) =
      Spec.RRule.dateOk a (info.yearordinal + j) := by
  have h0 := construct_stripEas a r h (wey_noDay wa) (wy_noDay (wey_strip wa))
  have hb := wy_bridge (wey_strip wa) h0 info y j hy hj0 hj1 hyo
  have hs : simpleOk ({ r with byeaster := none } : Rule) (info.yearordinal + j) =
      simpleOk r (info.yearordinal + j) := rfl
  have hk : ({ r with byeaster := none } : Rule).wkst = r.wkst := rfl
  have hwn : weeknosOf (stripEas a) = weeknosOf a := rfl
  rw [hs, hk, hwn] at hb
  obtain ⟨el, hel, hne, _⟩ := wa.easter
  have hfo := date_of_yday y j hy hj0 hj1
  rw [← hyo] at hfo
  have hse := specE_year a el hel hne (info.yearordinal + j) y (by rw [hfo])
  rw [dateOk_stripEas a (wey_noDay wa) (wy_noDay (wey_strip wa)), hb, hse]

structure WeeknoEGood (a : Args) (r : Rule) (k : Nat) (st : State) : Prop where
  facts : YearFacts r st.cur.year st.info
  timeset : st.timeset = Spec.RRule.timesOf a none none none
  year : st.cur.year = a.dtstart.y + k * a.interval
  nwd : st.info.nwdaymask = none
  masks : ∃ wmask emask, st.info.wnomask = some wmask ∧ (wmask.length : Int) = st.info.yearlen + 7 ∧
    (∀ j : Int, 0 ≤ j → j < st.info.yearlen →
      Py.getIdx wmask j = .ok (if weekClause r.wkst (weeknosOf a) (st.info.yearordinal + j) = true then 1 else 0)) ∧
    st.info.eastermask = some emask ∧ st.info.yearlen ≤ (emask.length : Int) ∧
    (∀ j : Int, 0 ≤ j → j < st.info.yearlen →
      Py.getIdx emask j =
        .ok (if (st.info.yearordinal + j - Spec.RRule.easterOrd st.cur.year) ∈ eastersOf a then 1 else 0))

theorem wey_rebuild (wa : WeeknoEYArgs a) (h : construct a = .ok r) (y m : Int) (hy1 : 1583 ≤ y) (hy2 : y ≤ 4099) :
    ∃ info wmask emask, rebuild r y m = .ok info ∧ info.nwdaymask = none ∧
      info.wnomask = some wmask ∧ (wmask.length : Int) = info.yearlen + 7 ∧
      (∀ j : Int, 0 ≤ j → j < info.yearlen →
        Py.getIdx wmask j = .ok (if weekClause r.wkst (weeknosOf a) (info.yearordinal + j) = true then 1 else 0)) ∧
      info.eastermask = some emask ∧ info.yearlen ≤ (emask.length : Int) ∧
      (∀ j : Int, 0 ≤ j → j < info.yearlen →
        Py.getIdx emask j = .ok (if (info.yearordinal + j - Spec.RRule.easterOrd y) ∈ eastersOf a then 1 else 0)) := by
  obtain ⟨hr, hwl, hel', hwk, _, _⟩ := wey_rule_facts wa h
  obtain ⟨el, hel, hne', hoff⟩ := wa.easter
  exact rebuild_weekno_e hr _ hwl (wy_weeknos (wey_strip wa)).2.1 (by rw [hwk]; exact wa.wkst) _ hel'
    (easters_facts a el hel hne' hoff).1 y m hy1 hy2

theorem wey_results (wa : WeeknoEYArgs a) (h : construct a = .ok r) (k : Nat) (st : State) (hg : WeeknoEGood a r k st) :
    ∃ fl pre cands, periodResults r st = .ok (cands, none, fl) ∧ Spec.RRule.sel a (k : Int) = pre ++ cands ∧
      (∀ x ∈ pre, x.micros < Spec.RRule.startMicros a ∧ Spec.RRule.afterUntil a x = false) ∧
      (∀ x ∈ cands, 0 ≤ x.ord ∧ x.ord ≤ maxOrdinal) := by
  obtain ⟨hwr, _, _, _, hfreq, _⟩ := wey_rule_facts wa h
  obtain ⟨bh, bm, bs, hr⟩ := wey_rule wa h
  have hsp := construct_bysetpos a r h
  have htsok : TsOk st.timeset := by
    have := construct_timeset_ok a r h (by rw [wa.freq]; omega)
    rw [hr] at this; rw [hg.timeset]; exact this
  have hyo := hg.facts.yearordinal
  have hyl := hg.facts.yearlen
  have hy1 := hg.facts.year_lo
  have hy2 := hg.facts.year_hi
  have hylen : 365 ≤ st.info.yearlen := by rw [hyl]; unfold daysInYear; split <;> omega
  have hpos : 1 ≤ toOrdinal st.cur.year 1 1 :=
    toOrdinal_pos _ _ _ hy1 ⟨by omega, by omega, by omega, by have := daysInMonth_bounds st.cur.year 1; omega⟩
  have hend := year_end_le st.cur.year hy2
  have hd : dayset r st.info st.cur = .ok (intRange 0 st.info.yearlen) := dayset_yearly st.cur hfreq
  obtain ⟨wmask, emask, hmask, hmlen, hmspec, hemask, helen, hespec⟩ := hg.masks
  have hfil : ∀ i, 0 ≤ i → i < st.info.yearlen →
      dayFiltered r st.info i = .ok (!(Spec.RRule.dateOk a (st.info.yearordinal + i))) := by
    intro i hi0 hi1
    rw [dayFiltered_weekno_e hwr hg.facts wmask emask hg.nwd hmask hemask i hi0 hi1 (by omega) helen]
    have hgi := hmspec i hi0 hi1
    rw [getIdx_int wmask i hi0 (by omega)] at hgi
    injection hgi with hgi
    have hei := hespec i hi0 hi1
    rw [getIdx_int emask i hi0 (by omega)] at hei
    injection hei with hei
    have hbr := wey_bridge wa h st.info st.cur.year i hy1 hi0 (by rw [← hyl]; exact hi1) hyo
    rw [← hbr, hgi, hei]
    congr 2
    by_cases c2 : (st.info.yearordinal + i - Spec.RRule.easterOrd st.cur.year) ∈ eastersOf a
    · rw [if_pos c2, decide_eq_true c2]
      cases hq : weekClause r.wkst (weeknosOf a) (st.info.yearordinal + i) <;> rfl
    · rw [if_neg c2, decide_eq_false c2]
      cases hq : weekClause r.wkst (weeknosOf a) (st.info.yearordinal + i) <;> rfl
  obtain ⟨fl, hres⟩ := periodResults_range_P st (Spec.RRule.dateOk a) hfil (by rw [hsp.1]; exact hsp.2) htsok hd
    (by rw [hyo]; omega) (by rw [hyo, hyl]; exact hend)
  have hspan : Spec.RRule.periodSpan a (k * a.interval) =
      (st.info.yearordinal + 0, st.info.yearordinal + st.info.yearlen, none, none, none) := by
    unfold Spec.RRule.periodSpan
    rw [if_pos (by simp [wa.freq])]
    dsimp only
    rw [← hg.year, hyo, hyl, toOrdinal_next_year]; simp
  refine ⟨fl, [], Spec.RRule.sel a (k : Int), ?_, rfl, by simp, ?_⟩
  · rw [hres, hg.timeset, sel_span_sp a k _ _ hspan, hsp.1]
  · intro x hx
    rw [sel_span_sp a k _ _ hspan] at hx
    have := sel_bounds _ _ _ _ x (applySetpos_subset _ _ x hx)
    rw [hyo, hyl] at this; omega

theorem wey_next (wa : WeeknoEYArgs a) (h : construct a = .ok r) (k : Nat) (st : State) (fl : Bool)
    (c : Option Int) (hg : WeeknoEGood a r k st) (hlo : 1583 ≤ a.dtstart.y)
    (hy : a.dtstart.y + (k + 1 : Nat) * a.interval ≤ 4099) :
    ∃ st', advance r { st with count := c } fl = .ok st' ∧ WeeknoEGood a r (k + 1) st' := by
  obtain ⟨_, _, _, _, hfreq, hint⟩ := wey_rule_facts wa h
  have hi := wa.interval
  have hyr := hg.year
  have ek : ((k + 1 : Nat) : Int) * a.interval = k * a.interval + a.interval := by
    push_cast; rw [Int.add_mul]; omega
  have hk0 : (0 : Int) ≤ k * a.interval := Int.mul_nonneg (by omega) (by omega)
  have hle : st.cur.year + r.interval ≤ 4099 := by rw [hint]; omega
  obtain ⟨info, wmask, emask, hre, hnw, rest⟩ := wey_rebuild wa h (st.cur.year + r.interval) st.cur.month
    (by rw [hint]; omega) hle
  have hadv : advance r { st with count := c } fl =
      .ok { cur := { st.cur with year := st.cur.year + r.interval }, info := info,
            timeset := st.timeset, count := c } := by
    unfold advance
    dsimp only
    rw [if_pos (by simp [hfreq]), if_neg (by omega), hre]
  exact ⟨_, hadv, ⟨rebuild_facts r _ _ info hre, hg.timeset, by dsimp only; rw [hyr, hint]; omega, hnw,
    wmask, emask, rest⟩⟩

theorem wey_init (wa : WeeknoEYArgs a) (h : construct a = .ok r) (hlo : 1583 ≤ a.dtstart.y) (hhi : a.dtstart.y ≤ 4099) :
    ∃ st0, init r = .ok st0 ∧ WeeknoEGood a r 0 st0 ∧ st0.count = r.count := by
  obtain ⟨bh, bm, bs, hr⟩ := wey_rule wa h
  have hfreq : r.freq = 0 := (wey_rule_facts wa h).2.2.2.2.1
  obtain ⟨info, wmask, emask, hre, hnw, rest⟩ := wey_rebuild wa h a.dtstart.y a.dtstart.m hlo hhi
  have hd : r.dtstart = { a.dtstart with us := 0 } := by rw [hr]; rfl
  have hf : r.freq < 4 := by omega
  have hts : r.timeset = some (Spec.RRule.timesOf a none none none) := by rw [hr]; rfl
  refine ⟨{ cur := { year := a.dtstart.y, month := a.dtstart.m, day := a.dtstart.d, hour := a.dtstart.hh,
                     minute := a.dtstart.mm, second := a.dtstart.ss, weekday := r.dtstart.weekday },
            info := info, timeset := Spec.RRule.timesOf a none none none, count := r.count }, ?_, ?_, rfl⟩
  · unfold init
    simp only [hd, bind, Except.bind, hre, hts, pure, Except.pure]
    rw [if_pos hf]
    rfl
  · exact ⟨rebuild_facts r _ _ info hre, rfl, by dsimp only; omega, hnw, wmask, emask, rest⟩

/-- **`iter_eq_spec`, YEARLY with BYWEEKNO and BYEASTER together** (BYWEEKNO on the complement of D-C01c, a week start
    0..6; offsets −80..250, years 1583..4099; plain BYDAY / BYMONTH / BYMONTHDAY / BYYEARDAY / BYSETPOS allowed) -/
theorem iter_eq_spec_yearly_weekno_easter (wa : WeeknoEYArgs a) (h : construct a = .ok r) (n : Nat)
    (hlo : 1583 ≤ a.dtstart.y) (hy : a.dtstart.y + n * a.interval ≤ 4099) :
    (iter r n).1 = Spec.RRule.occ a n := by
  have hi := wa.interval
  have hmono : ∀ k : Nat, k ≤ n → (k : Int) * a.interval ≤ n * a.interval := by
    intro k hk; exact Int.mul_le_mul_of_nonneg_right (by omega) (by omega)
  have hn0 : (0 : Int) ≤ n * a.interval := Int.mul_nonneg (by omega) (by omega)
  have sim : Simulation a r n (WeeknoEGood a r) := {
    agree := wey_cuts wa h
    results := fun k st _ hg => wey_results wa h k st hg
    next := fun k st fl c hk hg => wey_next wa h k st fl c hg hlo (by have := hmono (k + 1) (by omega); omega) }
  obtain ⟨st0, hinit, hg0, hc0⟩ := wey_init wa h hlo (by omega)
  exact iter_refines sim st0 hinit hg0 hc0 n (by omega)

-- a WeeknoEYArgs instance: Good Friday when it falls in week 13, 14 or 15, and Easter Monday in week 14..17
example : WeeknoEYArgs { freq := 0, dtstart := ⟨2024, 1, 1, 9, 0, 0, 0⟩, byweekno := some [13, 14, 15, 16, 17],
                         byeaster := some [-2, 1], byweekday := some [(4, 0), (0, 0)] } :=
  ⟨rfl, by decide, by decide, by decide, by intro x hx; simp at hx, by decide,
   ⟨[13, 14, 15, 16, 17], rfl, by decide, ⟨by decide, by decide⟩⟩, ⟨[-2, 1], rfl, by decide, by decide⟩⟩

end RRule
