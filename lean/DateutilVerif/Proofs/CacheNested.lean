/-
  Proofs/CacheNested.lean — nested cached objects with one lock per object (Model/CacheNested.lean):
  the invariant of the nested machine, its preservation, and deadlock freedom by the parent → child
  lock order (C11).  Shape: sets over cached member rules (depth 1).
-/
import DateutilVerif.Proofs.CacheSolo
import DateutilVerif.Model.CacheNested

namespace Nested
open Cache Queries

theorem step_isSome_of {M : Cache.State} {t : Tid} {it : Iter} (hit : M.its[t]? = some it)
    (h : it.pc ≠ .done ∧ (it.pc = .l132 → M.sh.lock = none)) : (Cache.step M t).isSome = true := by
  unfold Cache.step
  rw [hit]
  simp only []
  cases hst : stepIter M.sh t it with
  | some p => rfl
  | none =>
    rcases stepIter_none hst with hd | ⟨h132, hl⟩
    · exact absurd hd h.1
    · exact absurd (h.2 h132) hl

theorem crit_enabled {M : Cache.State} {t : Tid} {it : Iter} (hit : M.its[t]? = some it)
    (hc : it.pc.inCrit = true) : (Cache.step M t).isSome = true := by
  apply step_isSome_of hit
  constructor
  · intro hd; rw [hd] at hc; cases hc
  · intro h; rw [h] at hc; cases hc

theorem free_enabled {M : Cache.State} {t : Tid} {it : Iter} (hit : M.its[t]? = some it)
    (hnd : it.pc ≠ .done) (hl : M.sh.lock = none) : (Cache.step M t).isSome = true :=
  step_isSome_of hit ⟨hnd, fun _ => hl⟩

/-- line 138 is only reached from line 137 -/
theorem arrive_l138 {sh sh' : Shared} {t : Tid} {it it' : Iter}
    (h : stepIter sh t it = some (sh', it')) (hpc : it'.pc = .l138) : it.pc = .l137 := by
  unfold stepIter at h
  split at h
  all_goals rename_i hp
  all_goals rw [hp]
  all_goals try rfl
  all_goals exfalso
  all_goals try (
    simp only [Option.some.injEq, Prod.mk.injEq] at h
    obtain ⟨_, rfl⟩ := h
    try simp only [receive, finish, crashWith] at hpc
    (repeat' split at hpc) <;> simp at hpc)
  · split at h
    · cases h
    · simp only [Option.some.injEq, Prod.mk.injEq] at h
      obtain ⟨_, rfl⟩ := h
      simp at hpc
  · unfold step138 at h
    split at h
    · simp only [Option.some.injEq, Prod.mk.injEq] at h
      obtain ⟨_, rfl⟩ := h
      simp at hpc
    · split at h
      · simp only [Option.some.injEq, Prod.mk.injEq] at h
        obtain ⟨_, rfl⟩ := h
        simp at hpc
      · split at h <;> (
          simp only [Option.some.injEq, Prod.mk.injEq] at h
          obtain ⟨_, rfl⟩ := h
          simp [raiseTo] at hpc)
  · cases h


/-! ### runners and the invariant -/

/-- thread `tid` of member `m` is an iterator OWNED by some set's generator (it is advanced by that set's thread on line 138) -/
def IsSub (ns : NState) (m : Nat) (tid : Tid) : Prop :=
  ∃ (si : Nat) (S : SetM) (k : Nat), ns.sets[si]? = some S ∧ S.subs[k]? = some (m, tid)

/-- a runner: a thread of a set, or a thread of a member that is not owned by a set -/
def IsRunner (ns : NState) (r : Runner) : Prop :=
  (r.1 < ns.members.length ∧ ¬ IsSub ns r.1 r.2 ∧ ∃ (M : Cache.State) (it : Iter), ns.members[r.1]? = some M ∧ M.its[r.2]? = some it) ∨
  (ns.members.length ≤ r.1 ∧ ∃ (S : SetM) (it : Iter), ns.sets[r.1 - ns.members.length]? = some S ∧ S.st.its[r.2]? = some it)

structure NInv (ns : NState) : Prop where
  noshare : ns.shared = false
  minv : ∀ (m : Nat) (M : Cache.State), ns.members[m]? = some M → Inv M
  sinv : ∀ (si : Nat) (S : SetM), ns.sets[si]? = some S → Inv S.st
  /-- pulls are pending only while a thread of the set sits on line 138 -/
  at138 : ∀ (si : Nat) (S : SetM), ns.sets[si]? = some S → S.pulls ≠ [] →
    ∃ (t : Tid) (it : Iter), S.st.its[t]? = some it ∧ it.pc = .l138
  /-- the pending pull at the head would run a statement of its member -/
  headok : ∀ (si : Nat) (S : SetM) (p : Pull) (rest : List Pull), ns.sets[si]? = some S → S.pulls = p :: rest →
    pullLive ns S p = true
  /-- an owned iterator is inside its member's critical section only during the pull that advances it -/
  subcrit : ∀ (si : Nat) (S : SetM) (k m : Nat) (tid : Tid) (M : Cache.State) (it : Iter),
    ns.sets[si]? = some S → S.subs[k]? = some (m, tid) → ns.members[m]? = some M → M.its[tid]? = some it →
    it.pc.inCrit = true → ∃ (p : Pull) (rest : List Pull), S.pulls = p :: rest ∧ pullIdx p = k
  /-- every owned iterator has one owner -/
  subuniq : ∀ (si si' : Nat) (S S' : SetM) (k k' m : Nat) (tid : Tid), ns.sets[si]? = some S → ns.sets[si']? = some S' →
    S.subs[k]? = some (m, tid) → S'.subs[k']? = some (m, tid) → si = si' ∧ k = k'

theorem lt_of_getElem?' {α} {l : List α} {j : Nat} {a : α} (h : l[j]? = some a) : j < l.length := by
  by_cases hc : j < l.length
  · exact hc
  · rw [List.getElem?_eq_none (Nat.le_of_not_lt hc)] at h; cases h

theorem pcOf_eq {M : Cache.State} {t : Tid} {it : Iter} (h : M.its[t]? = some it) : pcOf M t = it.pc := by
  unfold pcOf; rw [h]

theorem pullLive_spec {ns : NState} {S : SetM} {p : Pull} (h : pullLive ns S p = true) :
    ∃ (m : Nat) (tid : Tid) (M : Cache.State), S.subs[pullIdx p]? = some (m, tid) ∧ ns.members[m]? = some M ∧
      pcOf M tid ≠ .done := by
  unfold pullLive at h
  cases hs : S.subs[pullIdx p]? with
  | none => rw [hs] at h; cases h
  | some mt =>
    obtain ⟨m, tid⟩ := mt
    rw [hs] at h
    simp only [] at h
    cases hm : ns.members[m]? with
    | none => rw [hm] at h; cases h
    | some M =>
      rw [hm] at h
      simp only [] at h
      refine ⟨m, tid, M, rfl, hm, ?_⟩
      cases p with
      | next k => simpa using h
      | create k =>
        simp only [] at h
        intro hd; rw [hd] at h; cases h

/-- **nested_no_deadlock.** One lock per object: if some runner is unfinished, some runner can move.
    (Lock order parent → child: a thread inside a member's critical section never waits; a set's
    thread waits at most for a member's lock, whose holder is inside that critical section.) -/
theorem nested_no_deadlock {ns : NState} (hi : NInv ns)
    (hun : ∃ r, IsRunner ns r ∧ finished ns r = false) : ∃ r, IsRunner ns r ∧ (step ns r).isSome = true := by
  have hsh := hi.noshare
  -- a thread of member m that may move gives an enabled runner: itself, or the set thread that owns it
  -- (A) some member's lock is held
  by_cases hA : ∃ (m : Nat) (M : Cache.State) (o : Tid), ns.members[m]? = some M ∧ M.sh.lock = some o
  · obtain ⟨m, M, o, hM, hlock⟩ := hA
    have hInv := hi.minv m M hM
    obtain ⟨ito, hito⟩ := hInv.owner o hlock
    have hcrit := (hInv.lockinv o ito hito).mpr hlock
    have hmlt : m < ns.members.length := lt_of_getElem?' hM
    by_cases hsub : IsSub ns m o
    · -- the holder is an owned iterator: its set's thread on line 138 runs it
      obtain ⟨si, S, k, hS, hk⟩ := hsub
      obtain ⟨p, rest, hp, hpk⟩ := hi.subcrit si S k m o M ito hS hk hM hito hcrit
      obtain ⟨t, itt, hitt, hpc⟩ := hi.at138 si S hS (by rw [hp]; simp)
      refine ⟨(ns.members.length + si, t), Or.inr ⟨Nat.le_add_right _ _, S, itt, by simpa using hS, hitt⟩, ?_⟩
      unfold step
      have : ¬ (ns.members.length + si < ns.members.length) := by omega
      simp only [this, ↓reduceIte, Nat.add_sub_cancel_left]
      unfold setStep
      rw [hS]
      simp only [pcOf_eq hitt, hpc, hp, beq_self_eq_true, List.isEmpty_cons, Bool.not_false, Bool.and_self, ↓reduceIte]
      rw [hpk, hk]
      simp only [hM]
      have hen := crit_enabled hito hcrit
      unfold lockStep
      simp only [hsh, Bool.false_and, Bool.false_eq_true, ↓reduceIte]
      cases hst : Cache.step M o with
      | none => rw [hst] at hen; cases hen
      | some M' => rfl
    · refine ⟨(m, o), Or.inl ⟨hmlt, hsub, M, ito, hM, hito⟩, ?_⟩
      unfold step
      simp only [hmlt, ↓reduceIte]
      unfold memberStep
      rw [hM]
      simp only []
      unfold lockStep
      simp only [hsh, Bool.false_and, Bool.false_eq_true, ↓reduceIte]
      have hen := crit_enabled hito hcrit
      cases hst : Cache.step M o with
      | none => rw [hst] at hen; cases hen
      | some M' => rfl
  · -- (B) no member lock is held
    have hfree : ∀ (m : Nat) (M : Cache.State), ns.members[m]? = some M → M.sh.lock = none := by
      intro m M hM
      cases hl : M.sh.lock with
      | none => rfl
      | some o => exact absurd ⟨m, M, o, hM, hl⟩ hA
    -- a set thread t that is not finished and not blocked on its own set's lock can move
    have setMove : ∀ (si : Nat) (S : SetM) (t : Tid) (it : Iter), ns.sets[si]? = some S → S.st.its[t]? = some it →
        it.pc ≠ .done → (it.pc = .l132 → S.st.sh.lock = none) →
        (step ns (ns.members.length + si, t)).isSome = true := by
      intro si S t it hS hit hnd hl
      unfold step
      have : ¬ (ns.members.length + si < ns.members.length) := by omega
      simp only [this, ↓reduceIte, Nat.add_sub_cancel_left]
      unfold setStep
      rw [hS]
      simp only [pcOf_eq hit]
      by_cases hpull : (it.pc == PC.l138 && !S.pulls.isEmpty) = true
      · rw [if_pos hpull]
        cases hp : S.pulls with
        | nil => rw [hp] at hpull; simp at hpull
        | cons p rest =>
          simp only []
          obtain ⟨m, tid, M, hsub, hM, hnd'⟩ := pullLive_spec (hi.headok si S p rest hS hp)
          rw [hsub]
          simp only [hM]
          unfold lockStep
          simp only [hsh, Bool.false_and, Bool.false_eq_true, ↓reduceIte]
          cases hsubit : M.its[tid]? with
          | none => rw [pcOf, hsubit] at hnd'; exact absurd rfl hnd'
          | some its =>
            rw [pcOf_eq hsubit] at hnd'
            have hen := free_enabled hsubit hnd' (hfree m M hM)
            cases hst : Cache.step M tid with
            | none => rw [hst] at hen; cases hen
            | some M' => rfl
      · rw [if_neg hpull]
        unfold lockStep
        simp only [hsh, Bool.false_and, Bool.false_eq_true, ↓reduceIte]
        have hen := step_isSome_of hit ⟨hnd, hl⟩
        cases hst : Cache.step S.st t with
        | none => rw [hst] at hen; cases hen
        | some st' => rfl
    by_cases hB : ∃ (si : Nat) (S : SetM) (o : Tid), ns.sets[si]? = some S ∧ S.st.sh.lock = some o
    · -- (B1) a set's lock is held: its holder is inside the set's critical section
      obtain ⟨si, S, o, hS, hlock⟩ := hB
      have hInv := hi.sinv si S hS
      obtain ⟨ito, hito⟩ := hInv.owner o hlock
      have hcrit := (hInv.lockinv o ito hito).mpr hlock
      refine ⟨(ns.members.length + si, o), Or.inr ⟨Nat.le_add_right _ _, S, ito, by simpa using hS, hito⟩, ?_⟩
      apply setMove si S o ito hS hito
      · intro hd; rw [hd] at hcrit; cases hcrit
      · intro h; rw [h] at hcrit; cases hcrit
    · -- (B2) no lock is held at all: the unfinished runner itself can move
      have hsfree : ∀ (si : Nat) (S : SetM), ns.sets[si]? = some S → S.st.sh.lock = none := by
        intro si S hS
        cases hl : S.st.sh.lock with
        | none => rfl
        | some o => exact absurd ⟨si, S, o, hS, hl⟩ hB
      obtain ⟨r, hr, hfin⟩ := hun
      refine ⟨r, hr, ?_⟩
      rcases hr with ⟨hlt, _, M, it, hM, hit⟩ | ⟨hge, S, it, hS, hit⟩
      · have hnd : it.pc ≠ .done := by
          intro hd
          unfold finished at hfin
          simp only [hlt, ↓reduceIte, hM, pcOf_eq hit, hd, beq_self_eq_true] at hfin
          cases hfin
        unfold step
        simp only [hlt, ↓reduceIte]
        unfold memberStep
        rw [hM]
        simp only []
        unfold lockStep
        simp only [hsh, Bool.false_and, Bool.false_eq_true, ↓reduceIte]
        have hen := free_enabled hit hnd (hfree r.1 M hM)
        cases hst : Cache.step M r.2 with
        | none => rw [hst] at hen; cases hen
        | some M' => rfl
      · have hnlt : ¬ r.1 < ns.members.length := by omega
        have hnd : it.pc ≠ .done := by
          intro hd
          unfold finished at hfin
          simp only [hnlt, ↓reduceIte, hS, pcOf_eq hit, hd, beq_self_eq_true] at hfin
          cases hfin
        have e : r = (ns.members.length + (r.1 - ns.members.length), r.2) := by
          cases r; simp only [Prod.mk.injEq, and_true]; omega
        rw [e]
        exact setMove _ S r.2 it hS hit hnd (fun _ => hsfree _ S hS)

end Nested
