/-
  Proofs/ParserFuzzySyn.lean — the run hypothesis of `fuzzy_extends_strict_partial` follows from a condition a
  user can check on the text: at most one token of the lexed text is an AM/PM word.
-/
import DateutilVerif.Proofs.ParserFuzzy
import DateutilVerif.Proofs.ParserTotal

namespace PM
open Py

/-- which tokens are AM/PM words -/
def ampFlags (info : Info) (l : List Token) : List Bool := l.map (fun t => (info.ampmOf t).isSome)

/-- number of AM/PM words among the tokens -/
def ampmCount (info : Info) (l : List Token) : Nat := (ampFlags info l).count true

theorem ampFlags_set (info : Info) (l : List Token) (k : Nat) (t : Token)
    (hold : ∀ x, l[k]? = some x → (info.ampmOf x).isSome = (info.ampmOf t).isSome) :
    ampFlags info (l.set k t) = ampFlags info l := by
  unfold ampFlags
  rw [List.map_set]
  apply List.ext_getElem?
  intro j
  by_cases hj : j = k
  · subst hj
    cases hl : l[j]? with
    | none =>
      have : l.length ≤ j := by simpa [List.getElem?_eq_none_iff] using hl
      simp [List.getElem?_set, hl, this]
    | some x =>
      obtain ⟨hlt, hx⟩ := List.getElem?_eq_some_iff.mp hl
      have := hold x hl
      simp [List.getElem?_set, hl, hlt]
      rw [hx]; exact this.symm
  · simp [List.getElem?_set, Ne.symm hj]

/-- two flagged positions force a count of at least two -/
theorem count_two (fl : List Bool) (j i : Nat) (hji : j < i) (hj : fl[j]? = some true) (hi : fl[i]? = some true) :
    2 ≤ fl.count true := by
  have hi' : i < fl.length := (List.getElem?_eq_some_iff.mp hi).1
  have hsplit : fl = fl.take i ++ fl.drop i := (List.take_append_drop i fl).symm
  have h1 : 1 ≤ (fl.take i).count true := by
    have : true ∈ fl.take i := by
      rw [List.mem_iff_getElem?]
      exact ⟨j, by rw [List.getElem?_take]; simp [hji, hj]⟩
    exact List.count_pos_iff.mpr this
  have h2 : 1 ≤ (fl.drop i).count true := by
    have : true ∈ fl.drop i := by
      rw [List.mem_iff_getElem?]
      exact ⟨0, by rw [List.getElem?_drop]; simpa using hi⟩
    exact List.count_pos_iff.mpr this
  rw [hsplit, List.count_append]
  omega

/-- what one strict iteration can do to the token list and to the AM/PM flag -/
theorem parseStep_track (cls : Char → CClass) (info : Info) (hplus : info.ampmOf ['+'] = none) (hminus : info.ampmOf ['-'] = none)
    (lenL i : Nat) (st : PState) (r : Nat × PState) (hst : st.ymd.WF) (h : parseStep cls info false lenL i st = .ok r) :
    ampFlags info r.2.l = ampFlags info st.l ∧
    (r.2.res.ampm.isSome = true → st.res.ampm.isSome = true ∨ ((st.l[i]?).bind info.ampmOf).isSome = true) := by
  unfold parseStep at h
  cases ht : tokAt st.l i with
  | error e => simp [ht, bind, Except.bind] at h
  | ok li =>
    have hli : st.l[i]? = some li := by
      unfold tokAt at ht
      split at ht
      · rename_i t hh; injection ht with ht; subst ht; exact hh
      · cases ht
    simp only [ht, bind, Except.bind] at h
    split at h
    · -- numeric token
      have hg := parseNumericToken_good cls info false st.l i st.ymd hst st.res
      cases hn : parseNumericToken cls info false st.l i st.ymd st.res with
      | error e => simp [hn] at h
      | ok x =>
        rw [hn] at hg h
        have hx : NumPost st.res x := hg
        simp only [pure, Except.pure] at h
        injection h with h
        subst h
        exact ⟨rfl, fun hs => Or.inl (by rw [← hx.2.2]; exact hs)⟩
    · split at h
      · simp only [pure, Except.pure] at h
        injection h with h; subst h
        exact ⟨rfl, fun hs => Or.inl hs⟩
      · split at h
        · -- month word: only `ymd` changes
          rename_i mv hm
          unfold stepMonth at h
          simp only [bind, Except.bind, pure, Except.pure] at h
          repeat' split at h
          all_goals (first | (cases h; done) | (injection h with h; subst h; exact ⟨rfl, fun hs => Or.inl hs⟩))
        · split at h
          · -- AM/PM word
            rename_i ap hap
            unfold stepAmpm at h
            simp only [bind, Except.bind, pure, Except.pure] at h
            repeat' split at h
            all_goals first
              | (cases h; done)
              | (injection h with h; subst h
                 exact ⟨rfl, fun _ => Or.inr (by simp [hli, hap])⟩)
          · split at h
            · -- zone name, possibly flipping the following sign token
              simp only [pure, Except.pure] at h
              injection h with h; subst h
              unfold stepTzname
              dsimp only
              split
              · rename_i l1 hl1
                split
                · rename_i hsign
                  refine ⟨?_, fun hs => Or.inl hs⟩
                  apply ampFlags_set
                  intro x hx
                  have hx1 : st.l[i + 1]? = some l1 := by
                    split at hl1
                    · exact hl1
                    · cases hl1
                  rw [hx1] at hx
                  injection hx with hx
                  subst hx
                  rcases hsign with rfl | rfl <;> simp [hplus, hminus]
                · exact ⟨rfl, fun hs => Or.inl hs⟩
              · exact ⟨rfl, fun hs => Or.inl hs⟩
            · split at h
              · unfold stepTzoffset at h
                simp only [bind, Except.bind, pure, Except.pure] at h
                repeat' split at h
                all_goals (first | (cases h; done) | (injection h with h; subst h; exact ⟨rfl, fun hs => Or.inl hs⟩))
              · split at h
                · simp [throw, throwThe, MonadExceptOf.throw] at h
                · simp only [pure, Except.pure] at h
                  injection h with h; subst h
                  exact ⟨rfl, fun hs => Or.inl hs⟩

theorem flag_at (info : Info) (l : List Token) (i : Nat) :
    (((l[i]?).bind info.ampmOf).isSome = true) ↔ (ampFlags info l)[i]? = some true := by
  unfold ampFlags
  rw [List.getElem?_map]
  cases l[i]? <;> simp

/-- along the strict scan of a text with at most one AM/PM word, no second marker is ever met -/
theorem smr_of_count (cls : Char → CClass) (info : Info) (hinfo : info.WF) (hplus : info.ampmOf ['+'] = none)
    (hminus : info.ampmOf ['-'] = none) (lenL : Nat) (L0 : List Token) (hc : ampmCount info L0 ≤ 1) :
    ∀ (fuel i skip : Nat) (st : PState), i + fuel = lenL → StWF lenL st → ampFlags info st.l = ampFlags info L0 →
      (st.res.ampm.isSome = true → ∃ j, j < i ∧ (ampFlags info L0)[j]? = some true) →
      singleMarkerRun cls info lenL fuel i skip st = true := by
  intro fuel
  induction fuel with
  | zero => intro i skip st _ _ _ _; rfl
  | succ n ih =>
    intro i skip st hi hwf hfl hseen
    cases skip with
    | succ k =>
      unfold singleMarkerRun
      exact ih (i + 1) k st (by omega) hwf hfl (fun hs => let ⟨j, hj, hf⟩ := hseen hs; ⟨j, by omega, hf⟩)
    | zero =>
      unfold singleMarkerRun
      have hno : NoSecondMarker info st i := by
        unfold NoSecondMarker
        cases ha : st.res.ampm with
        | none => exact Or.inl rfl
        | some a =>
          right
          obtain ⟨j, hj, hf⟩ := hseen (by simp [ha])
          cases hb : (st.l[i]?).bind info.ampmOf with
          | none => rfl
          | some b =>
            exfalso
            have h1 : (ampFlags info L0)[i]? = some true := by
              rw [← hfl]; exact (flag_at info st.l i).mp (by simp [hb])
            have := count_two _ j i hj hf h1
            unfold ampmCount at hc
            omega
      simp only [hno, decide_true, Bool.true_and]
      have hgood := parseStep_good cls info hinfo false lenL i (by omega) st hwf
      cases hs : parseStep cls info false lenL i st with
      | error e => rfl
      | ok r =>
        rw [hs] at hgood
        have hwf' : StWF lenL r.2 := hgood
        obtain ⟨t1, t2⟩ := parseStep_track cls info hplus hminus lenL i st r hwf.ymd hs
        obtain ⟨adv, st'⟩ := r
        refine ih (i + 1) adv st' (by omega) hwf' (t1.trans hfl) ?_
        intro hsome
        rcases t2 hsome with h | h
        · obtain ⟨j, hj, hf⟩ := hseen h
          exact ⟨j, by omega, hf⟩
        · exact ⟨i, by omega, by rw [← hfl]; exact (flag_at info st.l i).mp h⟩

/-- **a condition on the text**: at most one token of the lexed text is an AM/PM word (and `+`, `-` are not AM/PM
    words of this parserinfo) ⇒ the strict scan never meets a second AM/PM marker -/
theorem singleMarkerRun_of_count (cls : Char → CClass) (info : Info) (hinfo : info.WF) (hplus : info.ampmOf ['+'] = none)
    (hminus : info.ampmOf ['-'] = none) (l : List Token) (hc : ampmCount info l ≤ 1) :
    SingleMarkerRun cls info l.length l.length 0 0 { l := l } := by
  unfold SingleMarkerRun
  exact smr_of_count cls info hinfo hplus hminus l.length l hc l.length 0 0 { l := l } (by omega)
    ⟨Ymd.WF_empty, rfl, (by intro i hi; simp at hi), (by intro w hw; simp at hw)⟩ rfl (by intro h; simp at h)

end PM
