/-
  Proofs/RRuleGenCached.lean — the re-translated `_iterinfo.rebuild` on an `_iterinfo` that has been rebuilt before
  (the `lastyear` / `lastmonth` caching): from any state reached by successful `rebuild` calls for the same rule, the
  next call yields the model's `rebuild` of the new (year, month), and the state reached is again of that kind.
-/
import DateutilVerif.Proofs.RRuleGenRebuild

namespace RRuleGen
open RRule RrPy

/-! ### the sections without assumptions on the incoming slots -/

theorem rebuild_if3_eq (r : Rule) (ly : Option Int) (md mm mr : List Int) (nyl : Int) (nmd wd : List Int)
    (wno : Option (List Int)) (yl yo yw year : Int) :
    Gen.rebuild_if3 r ly md mm mr nyl nmd wd wno yl yo yw year =
      if some year ≠ ly then
        (if year < 1 ∨ year > 9999 then .error .ValueError else
          (wnomaskOf r year (baseInfo year)).bind fun w =>
            .ok ((baseInfo year).yearlen, (baseInfo year).nextyearlen, (baseInfo year).yearordinal,
                 (baseInfo year).yearweekday, (baseInfo year).mmask, (baseInfo year).mdaymask, (baseInfo year).nmdaymask,
                 (baseInfo year).wdaymask, (baseInfo year).mrange, w))
      else .ok (yl, nyl, yo, yw, mm, md, nmd, wd, mr, wno) := by
  unfold Gen.rebuild_if3
  by_cases hne : some year ≠ ly
  · simp only [hne, if_true, RrPy.mkDate, validDate_jan1, bind, pure, Except.pure, not_false_eq_true]
    by_cases hy : year < 1 ∨ year > 9999
    · simp [hy]
    · have h0 := (weekdayOfOrd_range (Cal.toOrdinal year 1 1)).1
      have h1 := (weekdayOfOrd_range (Cal.toOrdinal year 1 1)).2
      have e1 := rebuild_if1_eq (Cal.isLeap year) (Cal.weekdayOfOrd (Cal.toOrdinal year 1 1)) h0 h1
      have e2 : Gen.rebuild_if2 r (Gen.WDAYMASK.drop (Cal.weekdayOfOrd (Cal.toOrdinal year 1 1)).toNat)
          (365 + RrPy.b2i (Cal.isLeap year)) (Cal.weekdayOfOrd (Cal.toOrdinal year 1 1)) year =
          wnomaskOf r year (baseInfo year) := by
        rw [← rebuild_if2_eq r (baseInfo year) year]
        cases hl : Cal.isLeap year <;> simp [baseInfo, hl, RrPy.b2i]
      simp only [hy, decide_true, decide_false, not_false_eq_true, if_true, if_false, ok_bind, RrPy.toordinal, RrPy.weekday, e1, e2]
      cases wnomaskOf r year (baseInfo year) with
      | error e => rfl
      | ok w =>
        simp only [ok_bind, baseInfo]
        cases Cal.isLeap year <;> cases Cal.isLeap (year + 1) <;> simp [RrPy.b2i]
  · simp [hne, pure, Except.pure]

theorem rebuild_if5_gen (r : Rule) (nwl : List (Int × Int)) (hn : r.bynweekday = some nwl) (ranges : List (List Int))
    (nw0 : Option (List Int)) (wdaymask : List Int) (yearlen : Int) :
    Gen.rebuild_if5 r ranges nw0 wdaymask yearlen =
      if ranges.isEmpty then .ok nw0
      else okSome (ranges.foldlM (rangeStep wdaymask nwl) (List.replicate yearlen.toNat 0)) := by
  unfold Gen.rebuild_if5
  by_cases he : ranges.isEmpty = true
  · simp [he, pure, Except.pure]
  · simp only [he, Bool.not_eq_true, Bool.false_eq_true, if_false]
    have he' : ranges.isEmpty = false := by simpa using he
    simp only [he', if_true, RrPy.repeatL, bind, pure, Except.pure, rebuild_loop6_eq r nwl hn, bind_ok_id]

/-- the ranges are not empty for YEARLY and MONTHLY -/
theorem nwRanges_nonempty (r : Rule) (yl : Int) (mr : List Int) (month : Int) (hf : r.freq = 0 ∨ r.freq = 1)
    (rs : List (List Int)) (h : nwRanges r yl mr month = .ok rs) : rs.isEmpty = false := by
  unfold nwRanges at h
  rcases hf with hf | hf
  · simp only [hf, beq_self_eq_true, if_true] at h
    match hm : r.bymonth with
    | none => simp [hm, truthy, pure, Except.pure] at h; subst h; rfl
    | some [] => simp [hm, truthy, pure, Except.pure] at h; subst h; rfl
    | some (x :: xs) =>
      simp only [hm, truthy, if_true, Option.getD_some, List.mapM_cons, bind] at h
      cases h1 : Py.slice mr (some (x - 1)) (some (x + 1)) none with
      | error e => rw [h1] at h; cases h
      | ok a =>
        rw [h1] at h
        simp only [ok_bind] at h
        cases h2 : List.mapM (fun m => Py.slice mr (some (m - 1)) (some (m + 1)) none) xs with
        | error e => rw [h2] at h; cases h
        | ok b => rw [h2] at h; simp only [ok_bind, pure, Except.pure] at h; cases h; rfl
  · have n10 : ¬ ((1 : Int) = 0) := by decide
    simp only [hf, beq_iff_eq, n10, if_false, if_true] at h
    cases h1 : Py.slice mr (some (month - 1)) (some (month + 1)) none with
    | error e => rw [h1] at h; cases h
    | ok a => rw [h1] at h; simp only [ok_bind, pure, Except.pure] at h; cases h; rfl

theorem nwRanges_other (r : Rule) (yl : Int) (mr : List Int) (month : Int) (h0 : r.freq ≠ 0) (h1 : r.freq ≠ 1) :
    nwRanges r yl mr month = .ok [] := by
  simp [nwRanges, h0, h1, pure, Except.pure]

/-- sections 4-6 from any incoming `lastmonth`, `lastyear`, nth-weekday slot -/
theorem rebuild_if6_gen (r : Rule) (month year : Int) (lm ly : Option Int) (mrange wdaymask : List Int)
    (nw0 : Option (List Int)) (yearlen : Int) (hnw : nw0 = none ∨ r.freq = 0 ∨ r.freq = 1) :
    Gen.rebuild_if6 r month lm ly mrange nw0 wdaymask yearlen year =
      if truthy r.bynweekday = true ∧ (some month ≠ lm ∨ some year ≠ ly) then
        (buildNwdaymask r yearlen mrange wdaymask month).bind fun nw => .ok (nwMonth r month, nw)
      else .ok (month, nw0) := by
  unfold Gen.rebuild_if6
  by_cases hc : truthy r.bynweekday = true ∧ (some month ≠ lm ∨ some year ≠ ly)
  · simp only [hc, if_true]
    match hn : r.bynweekday with
    | none => simp [hn, truthy] at hc
    | some [] => simp [hn, truthy] at hc
    | some (nw0' :: nws) =>
      rw [buildNwdaymask_some r yearlen mrange wdaymask month nw0' nws hn]
      have hc' := hc
      rw [hn] at hc'
      simp only [bind, pure, Except.pure, rebuild_if4_eq, rebuild_if5_gen r (nw0' :: nws) hn]
      cases hr : nwRanges r yearlen mrange month with
      | error e => rfl
      | ok rs =>
        simp only [ok_bind]
        by_cases he : rs.isEmpty = true
        · have : nw0 = none := by
            rcases hnw with h | h | h
            · exact h
            · have := nwRanges_nonempty r yearlen mrange month (Or.inl h) rs hr; simp [he] at this
            · have := nwRanges_nonempty r yearlen mrange month (Or.inr h) rs hr; simp [he] at this
          simp [he, this]
        · simp only [he, Bool.false_eq_true, if_false]
  · simp only [hc, if_false, pure, Except.pure]

/-! ### what a successful model `rebuild` says about its result -/

theorem rebuild_inv (r : Rule) (y m : Int) (info : Info) (h : RRule.rebuild r y m = .ok info) :
    ¬ (y < 1 ∨ y > 9999) ∧ wnomaskOf r y (baseInfo y) = .ok info.wnomask ∧
    buildNwdaymask r (baseInfo y).yearlen (baseInfo y).mrange (baseInfo y).wdaymask m = .ok info.nwdaymask ∧
    eastermaskOf r y (baseInfo y) = .ok info.eastermask ∧
    info = { baseInfo y with wnomask := info.wnomask, nwdaymask := info.nwdaymask, eastermask := info.eastermask } := by
  rw [rebuild_bind] at h
  by_cases hy : y < 1 ∨ y > 9999
  · simp [hy] at h
  · simp only [hy, if_false] at h
    cases h1 : wnomaskOf r y (baseInfo y) with
    | error e => rw [h1] at h; cases h
    | ok w =>
      rw [h1] at h; simp only [ok_bind] at h
      cases h2 : buildNwdaymask r (baseInfo y).yearlen (baseInfo y).mrange (baseInfo y).wdaymask m with
      | error e => rw [h2] at h; cases h
      | ok nw =>
        rw [h2] at h; simp only [ok_bind] at h
        cases h3 : eastermaskOf r y (baseInfo y) with
        | error e => rw [h3] at h; cases h
        | ok em =>
          rw [h3] at h; simp only [ok_bind] at h
          cases h
          exact ⟨hy, rfl, rfl, rfl, rfl⟩

theorem buildNwdaymask_indep (r : Rule) (yl : Int) (mr wd : List Int) (m m' : Int) (h1 : r.freq ≠ 1) :
    buildNwdaymask r yl mr wd m = buildNwdaymask r yl mr wd m' := by
  match hn : r.bynweekday with
  | none => simp [buildNwdaymask, hn]
  | some [] => simp [buildNwdaymask, hn]
  | some (a :: b) =>
    rw [buildNwdaymask_some r yl mr wd m a b hn, buildNwdaymask_some r yl mr wd m' a b hn]
    simp [nwRanges, h1]

theorem buildNwdaymask_other (r : Rule) (yl : Int) (mr wd : List Int) (m : Int) (h0 : r.freq ≠ 0) (h1 : r.freq ≠ 1) :
    buildNwdaymask r yl mr wd m = .ok none := by
  match hn : r.bynweekday with
  | none => simp [buildNwdaymask, hn, pure, Except.pure]
  | some [] => simp [buildNwdaymask, hn, pure, Except.pure]
  | some (a :: b) =>
    rw [buildNwdaymask_some r yl mr wd m a b hn, nwRanges_other r yl mr m h0 h1]
    rfl

theorem buildNwdaymask_untruthy (r : Rule) (yl : Int) (mr wd : List Int) (m : Int) (h : ¬ truthy r.bynweekday = true) :
    buildNwdaymask r yl mr wd m = .ok none := by
  match hn : r.bynweekday with
  | none => simp [buildNwdaymask, hn, pure, Except.pure]
  | some [] => simp [buildNwdaymask, hn, pure, Except.pure]
  | some (a :: b) => simp [hn, truthy] at h

theorem eastermaskOf_untruthy (r : Rule) (y : Int) (b : Info) (h : ¬ truthy r.byeaster = true) :
    eastermaskOf r y b = .ok none := by
  unfold eastermaskOf
  match hn : r.byeaster with
  | none => rfl
  | some [] => rfl
  | some (a :: b) => simp [hn, truthy] at h

/-! ### the states reached by successful `rebuild` calls -/

/-- the slots are the model's `rebuild` of the recorded year (and, where the nth-weekday mask depends on it — MONTHLY —
    of the recorded month) -/
def Coherent (r : Rule) (st : RrPy.II) : Prop :=
  ∃ y0 m0, st.lastyear = some y0 ∧ RRule.rebuild r y0 m0 = .ok st.toInfo ∧
    (r.freq = 1 → truthy r.bynweekday = true → st.lastmonth = some m0)

/-- the month `rebuild` records -/
def newMonth (r : Rule) (st : RrPy.II) (year month : Int) : Int :=
  if truthy r.bynweekday = true ∧ (some month ≠ st.lastmonth ∨ some year ≠ st.lastyear) then nwMonth r month else month

theorem nwMonth_monthly (r : Rule) (m : Int) (h : r.freq = 1) : nwMonth r m = m := by
  simp [nwMonth, h]

theorem gen_rebuild_cached (r : Rule) (st : RrPy.II) (hst : Coherent r st) (year month : Int) :
    Gen.rebuild r st year month =
      (RRule.rebuild r year month).bind fun info =>
        .ok (RrPy.II.ofInfo info (some year) (some (newMonth r st year month))) := by
  obtain ⟨y0, m0, hly, hreb, hlm⟩ := hst
  obtain ⟨hy0, hw0, hn0, he0, hinfo⟩ := rebuild_inv r y0 m0 st.toInfo hreb
  have hnw : st.nwdaymask = none ∨ r.freq = 0 ∨ r.freq = 1 := by
    by_cases h0 : r.freq = 0
    · exact Or.inr (Or.inl h0)
    · by_cases h1 : r.freq = 1
      · exact Or.inr (Or.inr h1)
      · left
        have := buildNwdaymask_other r (baseInfo y0).yearlen (baseInfo y0).mrange (baseInfo y0).wdaymask m0 h0 h1
        rw [this] at hn0
        have := Except.ok.inj hn0
        simpa [RrPy.II.toInfo] using this.symm
  rw [rebuild_bind]
  unfold Gen.rebuild
  simp only [bind, pure, Except.pure, rebuild_if3_eq, hly]
  -- facts about the incoming slots
  have hnw_unt : ¬ truthy r.bynweekday = true → st.nwdaymask = none := by
    intro h
    have := buildNwdaymask_untruthy r (baseInfo y0).yearlen (baseInfo y0).mrange (baseInfo y0).wdaymask m0 h
    rw [this] at hn0
    have := Except.ok.inj hn0
    simpa [RrPy.II.toInfo] using this.symm
  have hem_unt : ¬ truthy r.byeaster = true → st.eastermask = none := by
    intro h
    have := eastermaskOf_untruthy r y0 (baseInfo y0) h
    rw [this] at he0
    have := Except.ok.inj he0
    simpa [RrPy.II.toInfo] using this.symm
  by_cases hyy : year = y0
  · -- the cached year: the year-level slots are kept
    subst hyy
    have hne : ¬ (some year ≠ some year) := by simp
    simp only [hne, if_false, ok_bind, hy0, hw0]
    have f1 : st.yearlen = (baseInfo year).yearlen := by have := congrArg Info.yearlen hinfo; simpa [RrPy.II.toInfo] using this
    have f2 : st.mrange = (baseInfo year).mrange := by have := congrArg Info.mrange hinfo; simpa [RrPy.II.toInfo] using this
    have f3 : st.wdaymask = (baseInfo year).wdaymask := by have := congrArg Info.wdaymask hinfo; simpa [RrPy.II.toInfo] using this
    have f4 : st.yearordinal = (baseInfo year).yearordinal := by have := congrArg Info.yearordinal hinfo; simpa [RrPy.II.toInfo] using this
    have f5 : st.nextyearlen = (baseInfo year).nextyearlen := by have := congrArg Info.nextyearlen hinfo; simpa [RrPy.II.toInfo] using this
    have f6 : st.yearweekday = (baseInfo year).yearweekday := by have := congrArg Info.yearweekday hinfo; simpa [RrPy.II.toInfo] using this
    have f7 : st.mmask = (baseInfo year).mmask := by have := congrArg Info.mmask hinfo; simpa [RrPy.II.toInfo] using this
    have f8 : st.mdaymask = (baseInfo year).mdaymask := by have := congrArg Info.mdaymask hinfo; simpa [RrPy.II.toInfo] using this
    have f9 : st.nmdaymask = (baseInfo year).nmdaymask := by have := congrArg Info.nmdaymask hinfo; simpa [RrPy.II.toInfo] using this
    have hw0' : st.toInfo.wnomask = st.wnomask := rfl
    rw [rebuild_if6_gen r month year st.lastmonth (some year) st.mrange st.wdaymask st.nwdaymask st.yearlen hnw,
      f1, f2, f3, f4]
    rw [rebuild_if7_eq r st.eastermask (baseInfo year) year]
    -- the nth-weekday mask of the model for (year, month)
    have hnwm : buildNwdaymask r (baseInfo year).yearlen (baseInfo year).mrange (baseInfo year).wdaymask month =
        if truthy r.bynweekday = true ∧ (some month ≠ st.lastmonth ∨ some year ≠ some year) then
          buildNwdaymask r (baseInfo year).yearlen (baseInfo year).mrange (baseInfo year).wdaymask month
        else .ok st.nwdaymask := by
      by_cases hc : truthy r.bynweekday = true ∧ (some month ≠ st.lastmonth ∨ some year ≠ some year)
      · rw [if_pos hc]
      · rw [if_neg hc]
        by_cases ht : truthy r.bynweekday = true
        · have hm : some month = st.lastmonth :=
            Classical.byContradiction fun hm => hc ⟨ht, Or.inl hm⟩
          by_cases h1 : r.freq = 1
          · have := hlm h1 ht
            rw [this] at hm
            cases hm
            exact hn0
          · rw [buildNwdaymask_indep r _ _ _ month m0 h1]; exact hn0
        · rw [buildNwdaymask_untruthy r _ _ _ month ht, hnw_unt ht]
    have hem : eastermaskOf r year (baseInfo year) =
        if truthy r.byeaster = true then eastermaskOf r year (baseInfo year) else .ok st.eastermask := by
      by_cases ht : truthy r.byeaster = true
      · simp [ht]
      · rw [if_neg ht, eastermaskOf_untruthy r year _ ht, hem_unt ht]
    rw [hnwm]
    by_cases hc : truthy r.bynweekday = true ∧ (some month ≠ st.lastmonth ∨ some year ≠ some year)
    · rw [if_pos hc, if_pos hc]
      cases buildNwdaymask r (baseInfo year).yearlen (baseInfo year).mrange (baseInfo year).wdaymask month with
      | error e => rfl
      | ok nw =>
        simp only [ok_bind]
        rw [← hem]
        cases eastermaskOf r year (baseInfo year) with
        | error e => rfl
        | ok em =>
          simp [RrPy.II.ofInfo, newMonth, hly, hc, RrPy.II.toInfo, f1, f4, f5, f6, f7, f8, f9, f2, f3]
          intro h
          rcases hc.2 with h2 | h2
          · exact absurd h h2
          · exact absurd rfl h2
    · rw [if_neg hc, if_neg hc]
      simp only [ok_bind]
      rw [← hem]
      cases eastermaskOf r year (baseInfo year) with
      | error e => rfl
      | ok em =>
        simp [RrPy.II.ofInfo, newMonth, hly, hc, RrPy.II.toInfo, f1, f4, f5, f6, f7, f8, f9, f2, f3]
        intro ht hm
        exact absurd ⟨ht, Or.inl hm⟩ hc
  · -- another year: every slot is recomputed
    have hne : some year ≠ some y0 := by intro h; exact hyy (Option.some.inj h)
    rw [if_pos hne]
    by_cases hy : year < 1 ∨ year > 9999
    · rw [if_pos hy, if_pos hy]; rfl
    · rw [if_neg hy, if_neg hy]
      have hem : eastermaskOf r year (baseInfo year) =
          if truthy r.byeaster = true then eastermaskOf r year (baseInfo year) else .ok st.eastermask := by
        by_cases ht : truthy r.byeaster = true
        · simp [ht]
        · rw [if_neg ht, eastermaskOf_untruthy r year _ ht, hem_unt ht]
      cases hw : wnomaskOf r year (baseInfo year) with
      | error e => rfl
      | ok w =>
        simp only [ok_bind]
        rw [rebuild_if6_gen r month year st.lastmonth (some y0) (baseInfo year).mrange (baseInfo year).wdaymask
          st.nwdaymask (baseInfo year).yearlen hnw, rebuild_if7_eq r st.eastermask (baseInfo year) year, ← hem]
        by_cases ht : truthy r.bynweekday = true
        · have hc : truthy r.bynweekday = true ∧ (some month ≠ st.lastmonth ∨ some year ≠ some y0) := ⟨ht, Or.inr hne⟩
          rw [if_pos hc]
          cases buildNwdaymask r (baseInfo year).yearlen (baseInfo year).mrange (baseInfo year).wdaymask month with
          | error e => rfl
          | ok nw =>
            simp only [ok_bind]
            cases eastermaskOf r year (baseInfo year) with
            | error e => rfl
            | ok em => simp [RrPy.II.ofInfo, newMonth, hly, ht, hne]
        · have hc : ¬ (truthy r.bynweekday = true ∧ (some month ≠ st.lastmonth ∨ some year ≠ some y0)) := fun h => ht h.1
          rw [if_neg hc, buildNwdaymask_untruthy r _ _ _ month ht, hnw_unt ht]
          simp only [ok_bind]
          cases eastermaskOf r year (baseInfo year) with
          | error e => rfl
          | ok em => simp [RrPy.II.ofInfo, newMonth, hly, ht]

/-- the state after a successful call is again one reached by successful calls -/
theorem coherent_step (r : Rule) (st st' : RrPy.II) (hst : Coherent r st) (year month : Int)
    (h : Gen.rebuild r st year month = .ok st') : Coherent r st' := by
  rw [gen_rebuild_cached r st hst year month] at h
  cases hr : RRule.rebuild r year month with
  | error e => rw [hr] at h; cases h
  | ok info =>
    rw [hr] at h
    simp only [ok_bind] at h
    cases h
    refine ⟨year, month, rfl, ?_, ?_⟩
    · rw [hr]; rfl
    · intro h1 _
      simp [RrPy.II.ofInfo, newMonth, nwMonth_monthly r month h1]

theorem coherent_fresh (r : Rule) (st' : RrPy.II) (year month : Int) (h : Gen.rebuild r {} year month = .ok st') :
    Coherent r st' := by
  rw [gen_rebuild_fresh r year month] at h
  cases hr : RRule.rebuild r year month with
  | error e => rw [hr] at h; cases h
  | ok info =>
    rw [hr] at h
    simp only [ok_bind] at h
    cases h
    refine ⟨year, month, rfl, ?_, ?_⟩
    · rw [hr]; rfl
    · intro h1 _
      simp [RrPy.II.ofInfo, nwMonth_monthly r month h1]

/-- a call history: `rebuild(y, m)` for each pair in order, on one `_iterinfo`, all successful -/
def history (r : Rule) (calls : List (Int × Int)) : Py.R RrPy.II :=
  calls.foldlM (fun st c => Gen.rebuild r st c.1 c.2) {}

theorem history_inv (r : Rule) (calls : List (Int × Int)) (st0 : RrPy.II) (h0 : st0 = {} ∨ Coherent r st0)
    (st : RrPy.II) (h : calls.foldlM (fun st c => Gen.rebuild r st c.1 c.2) st0 = .ok st) : st = {} ∨ Coherent r st := by
  induction calls generalizing st0 with
  | nil => simp only [List.foldlM_nil, pure, Except.pure] at h; cases h; exact h0
  | cons c cs ih =>
    simp only [List.foldlM_cons, bind] at h
    cases h1 : Gen.rebuild r st0 c.1 c.2 with
    | error e => rw [h1] at h; cases h
    | ok st1 =>
      rw [h1] at h
      simp only [ok_bind] at h
      refine ih st1 (Or.inr ?_) h
      rcases h0 with h0 | h0
      · subst h0; exact coherent_fresh r st1 c.1 c.2 h1
      · exact coherent_step r st0 st1 h0 c.1 c.2 h1

theorem rebuild_after_history (r : Rule) (calls : List (Int × Int)) (st : RrPy.II) (h : history r calls = .ok st)
    (year month : Int) : (Gen.rebuild r st year month).map RrPy.II.toInfo = RRule.rebuild r year month := by
  rcases history_inv r calls {} (Or.inl rfl) st h with h0 | h0
  · subst h0
    rw [gen_rebuild_fresh]
    cases RRule.rebuild r year month <;> rfl
  · rw [gen_rebuild_cached r st h0]
    cases RRule.rebuild r year month <;> rfl

end RRuleGen
