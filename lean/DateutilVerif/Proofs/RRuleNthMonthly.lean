/-
  Proofs/RRuleNthMonthly.lean — the MONTHLY instance of the refinement for nth weekdays
  ("the last Friday of every month", "the 2nd Tuesday every 3 months", with BYSETPOS, BYMONTH,
  BYYEARDAY and time parts).
-/
import DateutilVerif.Proofs.RRuleNthBridge
import DateutilVerif.Proofs.RRuleYM

namespace RRule
open Cal

variable {a : Args} {r : Rule}

/-- "the model state at the start of period `k`" -/
structure NthGood (a : Args) (r : Rule) (k : Nat) (st : State) : Prop where
  facts : YearFacts r st.cur.year st.info
  month : 1 ≤ st.cur.month ∧ st.cur.month ≤ 12
  timeset : st.timeset = Spec.RRule.timesOf a none none none
  idx : st.cur.year * 12 + (st.cur.month - 1) = a.dtstart.y * 12 + (a.dtstart.m - 1) + k * a.interval
  mask : ∃ mask, st.info.nwdaymask = some mask ∧ (mask.length : Int) = st.info.yearlen ∧
    ∀ j : Int, 0 ≤ j → j < st.info.yearlen →
      Py.getIdx mask j = .ok (if ∃ wn ∈ nwlOf a, marks st.info (daysBeforeMonth st.cur.year st.cur.month)
          (daysBeforeMonth st.cur.year st.cur.month + daysInMonth st.cur.year st.cur.month - 1) j wn then 1 else 0)

theorem nth_results (na : NthMArgs a) (h : construct a = .ok r) (k : Nat) (st : State) (hg : NthGood a r k st) :
    ∃ fl pre cands, periodResults r st = .ok (cands, none, fl) ∧ Spec.RRule.sel a (k : Int) = pre ++ cands ∧
      (∀ x ∈ pre, x.micros < Spec.RRule.startMicros a ∧ Spec.RRule.afterUntil a x = false) ∧
      (∀ x ∈ cands, 0 ≤ x.ord ∧ x.ord ≤ maxOrdinal) := by
  have hn := nth_nthRule na h
  obtain ⟨bh, bm, bs, hr⟩ := nth_rule na h
  have hfreq : r.freq = 1 := by rw [hr]; exact na.freq
  have hsp := construct_bysetpos a r h
  have htsok : TsOk st.timeset := by
    have := construct_timeset_ok a r h (by rw [na.freq]; omega)
    rw [hr] at this; rw [hg.timeset]; exact this
  have hyo := hg.facts.yearordinal
  have hyl := hg.facts.yearlen
  have hy1 := hg.facts.year_lo
  have hy2 := hg.facts.year_hi
  have hm := hg.month
  have hb := daysInMonth_bounds st.cur.year st.cur.month
  have hpos : 1 ≤ toOrdinal st.cur.year 1 1 :=
    toOrdinal_pos _ _ _ hy1 ⟨by omega, by omega, by omega, by have := daysInMonth_bounds st.cur.year 1; omega⟩
  have hend := year_end_le st.cur.year hy2
  have hd := dayset_monthly st.cur hfreq hg.facts hm.1 hm.2
  have hdbm0 := daysBeforeMonth_mono st.cur.year 1 st.cur.month (by omega) hm.1 (by omega)
  rw [daysBeforeMonth_1] at hdbm0
  have hdbm1 := daysBeforeMonth_mono st.cur.year (st.cur.month + 1) 13 (by omega) (by omega) (by omega)
  rw [daysBeforeMonth_13, daysBeforeMonth_succ _ _ hm.1 hm.2] at hdbm1
  obtain ⟨mask, hmask, hmlen, hmspec⟩ := hg.mask
  -- the filter inside the month is the specification's dateOk
  have hfil : ∀ i, daysBeforeMonth st.cur.year st.cur.month ≤ i →
      i < daysBeforeMonth st.cur.year st.cur.month + daysInMonth st.cur.year st.cur.month →
      dayFiltered r st.info i = .ok (!(Spec.RRule.dateOk a (st.info.yearordinal + i))) := by
    intro i hi0 hi1
    have hiy : i < st.info.yearlen := by rw [hyl]; omega
    rw [dayFiltered_nth hn hg.facts mask hmask i (by omega) hiy hmlen]
    have hgi := hmspec i (by omega) hiy
    rw [getIdx_int mask i (by omega) (by omega)] at hgi
    injection hgi with hgi
    have hd' : ValidYMD st.cur.year st.cur.month (i - daysBeforeMonth st.cur.year st.cur.month + 1) :=
      ⟨hm.1, hm.2, by omega, by omega⟩
    have hord : st.info.yearordinal + i =
        toOrdinal st.cur.year st.cur.month (i - daysBeforeMonth st.cur.year st.cur.month + 1) := by
      rw [hyo]; unfold toOrdinal; rw [daysBeforeMonth_1]; omega
    have hbr := nth_bridge na h st.info st.cur.year st.cur.month _ hy1 hd' hyo
    rw [← hord] at hbr
    have e : st.info.yearordinal + i - st.info.yearordinal = i := by omega
    rw [e] at hbr
    rw [← hbr, hgi]
    congr 2
    by_cases c : ∃ wn ∈ nwlOf a, marks st.info (daysBeforeMonth st.cur.year st.cur.month)
        (daysBeforeMonth st.cur.year st.cur.month + daysInMonth st.cur.year st.cur.month - 1) i wn
    · rw [if_pos c]; simp [c]
    · rw [if_neg c]; simp [c]
  obtain ⟨fl, hres⟩ := periodResults_range_P st (Spec.RRule.dateOk a) hfil (by rw [hsp.1]; exact hsp.2) htsok hd
    (by rw [hyo]; omega) (by rw [hyo]; omega)
  have hspan : Spec.RRule.periodSpan a (k * a.interval) =
      (st.info.yearordinal + daysBeforeMonth st.cur.year st.cur.month,
       st.info.yearordinal + (daysBeforeMonth st.cur.year st.cur.month + daysInMonth st.cur.year st.cur.month),
       none, none, none) := by
    unfold Spec.RRule.periodSpan
    rw [if_neg (by simp [na.freq]), if_pos (by simp [na.freq])]
    dsimp only
    have hidx := hg.idx
    have e1 : (a.dtstart.y * 12 + (a.dtstart.m - 1) + k * a.interval) / 12 = st.cur.year := by omega
    have e2 : (a.dtstart.y * 12 + (a.dtstart.m - 1) + k * a.interval) % 12 + 1 = st.cur.month := by omega
    rw [e1, e2, hyo, month_start]
    simp only [Prod.mk.injEq, and_true, true_and]
    omega
  refine ⟨fl, [], Spec.RRule.sel a (k : Int), ?_, rfl, by simp, ?_⟩
  · rw [hres, hg.timeset, sel_span_sp a k _ _ hspan, hsp.1]
  · intro x hx
    rw [sel_span_sp a k _ _ hspan] at hx
    have := sel_bounds _ _ _ _ x (applySetpos_subset _ _ x hx)
    rw [hyo] at this; omega

theorem nth_next (na : NthMArgs a) (h : construct a = .ok r) (k : Nat) (st : State) (fl : Bool)
    (c : Option Int) (hg : NthGood a r k st)
    (hm : (a.dtstart.y * 12 + (a.dtstart.m - 1) + (k + 1 : Nat) * a.interval) / 12 ≤ 9999) :
    ∃ st', advance r { st with count := c } fl = .ok st' ∧ NthGood a r (k + 1) st' := by
  have hn := nth_nthRule na h
  obtain ⟨bh, bm, bs, hr⟩ := nth_rule na h
  have hfreq : r.freq = 1 := by rw [hr]; exact na.freq
  have hint : r.interval = a.interval := by rw [hr]
  have hnw : r.bynweekday = some (nwlOf a) := by rw [hr]
  obtain ⟨hne, _, hok, _, _⟩ := nth_nwl na
  have hi := na.interval
  have hy1 := hg.facts.year_lo
  have hmth := hg.month
  have hidx := hg.idx
  have ek : ((k + 1 : Nat) : Int) * a.interval = k * a.interval + a.interval := by
    push_cast; rw [Int.add_mul]; omega
  -- the (year, month) the code moves to
  have hex : ∃ st', advance r { st with count := c } fl = .ok st' ∧
      ∃ mask, st'.info.nwdaymask = some mask ∧ (mask.length : Int) = st'.info.yearlen ∧
        ∀ j : Int, 0 ≤ j → j < st'.info.yearlen →
          Py.getIdx mask j = .ok (if ∃ wn ∈ nwlOf a, marks st'.info (daysBeforeMonth st'.cur.year st'.cur.month)
            (daysBeforeMonth st'.cur.year st'.cur.month + daysInMonth st'.cur.year st'.cur.month - 1) j wn then 1 else 0) := by
    unfold advance
    dsimp only
    rw [if_neg (by simp [hfreq]), if_pos (by simp [hfreq])]
    split
    · rename_i hgt
      simp only [Py.divmod, Py.fdiv_pos _ (by omega : (0:Int) < 12), Py.fmod_pos _ (by omega : (0:Int) < 12)]
      by_cases c0 : (st.cur.month + r.interval) % 12 = 0
      · have c' : ((st.cur.month + r.interval) % 12 == 0) = true := by simp [c0]
        simp only [c', ↓reduceIte]
        have hle : st.cur.year + (st.cur.month + r.interval) / 12 - 1 ≤ 9999 := by rw [hint]; omega
        rw [if_neg (by omega)]
        obtain ⟨info, mask, hre, h2, h3, h4⟩ := rebuild_nth hn hfreq _ hne hnw hok
          (st.cur.year + (st.cur.month + r.interval) / 12 - 1) 12 (by rw [hint]; omega) hle (by omega) (by omega)
        rw [hre]; exact ⟨_, rfl, mask, h2, h3, h4⟩
      · have c' : ((st.cur.month + r.interval) % 12 == 0) = false := by simp [c0]
        simp only [c', Bool.false_eq_true, ↓reduceIte]
        have hle : st.cur.year + (st.cur.month + r.interval) / 12 ≤ 9999 := by rw [hint]; omega
        rw [if_neg (by omega)]
        obtain ⟨info, mask, hre, h2, h3, h4⟩ := rebuild_nth hn hfreq _ hne hnw hok
          (st.cur.year + (st.cur.month + r.interval) / 12) ((st.cur.month + r.interval) % 12)
          (by rw [hint]; omega) hle (by omega) (by omega)
        rw [hre]; exact ⟨_, rfl, mask, h2, h3, h4⟩
    · rename_i hle12
      obtain ⟨info, mask, hre, h2, h3, h4⟩ := rebuild_nth hn hfreq _ hne hnw hok
        st.cur.year (st.cur.month + r.interval) hy1 hg.facts.year_hi (by rw [hint]; omega) (by omega)
      rw [hre]; exact ⟨_, rfl, mask, h2, h3, h4⟩
  obtain ⟨st', hadv, hmk⟩ := hex
  have sp := advance_monthly r { st with count := c } st' fl hfreq (by omega) hmth.1 hmth.2 hadv
  obtain ⟨e, m1, m12, _, f', ts⟩ := sp
  have e : st'.cur.year * 12 + (st'.cur.month - 1) = st.cur.year * 12 + (st.cur.month - 1) + r.interval := e
  exact ⟨st', hadv, ⟨f', ⟨m1, m12⟩, by rw [ts]; exact hg.timeset, by rw [e, hidx, hint]; omega, hmk⟩⟩

theorem nth_init (na : NthMArgs a) (h : construct a = .ok r) :
    ∃ st0, init r = .ok st0 ∧ NthGood a r 0 st0 ∧ st0.count = r.count := by
  have hn := nth_nthRule na h
  obtain ⟨bh, bm, bs, hr⟩ := nth_rule na h
  have hfreq : r.freq = 1 := by rw [hr]; exact na.freq
  have hnw : r.bynweekday = some (nwlOf a) := by rw [hr]
  obtain ⟨hne, _, hok, _, _⟩ := nth_nwl na
  have hv := na.valid
  unfold DT.Valid ValidDate at hv
  obtain ⟨info, mask, hre, h2, h3, h4⟩ := rebuild_nth hn hfreq _ hne hnw hok a.dtstart.y a.dtstart.m
    hv.1.1 hv.1.2.1 hv.1.2.2.1 hv.1.2.2.2.1
  have hd : r.dtstart = { a.dtstart with us := 0 } := by rw [hr]
  have hf : r.freq < 4 := by omega
  have hts : r.timeset = some (Spec.RRule.timesOf a none none none) := by rw [hr]
  refine ⟨{ cur := { year := a.dtstart.y, month := a.dtstart.m, day := a.dtstart.d, hour := a.dtstart.hh,
                     minute := a.dtstart.mm, second := a.dtstart.ss, weekday := r.dtstart.weekday },
            info := info, timeset := Spec.RRule.timesOf a none none none, count := r.count }, ?_, ?_, rfl⟩
  · unfold init
    simp only [hd, bind, Except.bind, hre, hts, pure, Except.pure]
    rw [if_pos hf]
    rfl
  · exact ⟨rebuild_facts r _ _ info hre, ⟨hv.1.2.2.1, hv.1.2.2.2.1⟩, rfl, by dsimp only; omega, mask, h2, h3, h4⟩

/-- **`iter_eq_spec`, MONTHLY with nth weekdays.**  FREQ=MONTHLY, INTERVAL ≥ 1, a valid start, BYDAY
    consisting of nth weekdays only (`MO(+2)`, `FR(-1)`, any magnitude), any BYMONTH / BYYEARDAY /
    BYHOUR / BYMINUTE / BYSECOND / BYSETPOS, any COUNT / UNTIL, no BYMONTHDAY / BYWEEKNO / BYEASTER: the
    values yielded during the first `n` periods are exactly the specification's recurrence set — the
    nth weekday counted inside the month from its start or its end. -/
theorem iter_eq_spec_monthly_nth (na : NthMArgs a) (h : construct a = .ok r) (n : Nat)
    (hm : (a.dtstart.y * 12 + (a.dtstart.m - 1) + n * a.interval) / 12 ≤ 9999) :
    (iter r n).1 = Spec.RRule.occ a n := by
  have hi := na.interval
  have hmono : ∀ k : Nat, k ≤ n → (k : Int) * a.interval ≤ n * a.interval := by
    intro k hk; exact Int.mul_le_mul_of_nonneg_right (by omega) (by omega)
  have sim : Simulation a r n (NthGood a r) := {
    agree := nth_cuts na h
    results := fun k st _ hg => nth_results na h k st hg
    next := fun k st fl c hk hg => nth_next na h k st fl c hg (by
      have := hmono (k + 1) (by omega)
      have : (a.dtstart.y * 12 + (a.dtstart.m - 1) + ((k + 1 : Nat) : Int) * a.interval) / 12 ≤
          (a.dtstart.y * 12 + (a.dtstart.m - 1) + n * a.interval) / 12 :=
        Int.ediv_le_ediv (by omega) (by omega)
      omega) }
  obtain ⟨st0, hinit, hg0, hc0⟩ := nth_init na h
  exact iter_refines sim st0 hinit hg0 hc0 n (by omega)

end RRule
