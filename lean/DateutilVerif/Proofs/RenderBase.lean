/-
  Proofs/RenderBase.lean — shared facts for the `parse_render` theorems of C02:
  * `AsciiOK cls`: the classification agrees with Python's on the ASCII characters;
  * `dtok ks`: the token made of the decimal digits `ks` (each taken mod 10), with everything the
    parser asks about it (float/Decimal/int acceptance and value, slices, table lookups);
  * ASCII words: `cls` can be replaced by `asciiCls`, after which facts are computed by `decide`.
-/
import DateutilVerif.Proofs.LexSeg
import DateutilVerif.Proofs.ParserIsoTok

namespace PM
open Py PT

/-- the classification agrees with Python's on ASCII (checked against Python on every run) -/
class AsciiOK (cls : Char → CClass) : Prop where
  agree : ∀ c : Char, c.toNat < 128 → cls c = asciiCls c

instance : AsciiOK asciiCls := ⟨fun _ _ => rfl⟩

/-- the token spelled with the decimal digits `ks` (each `k % 10`) -/
def dtok (ks : List Nat) : Token := ks.map digitChar

/-- its value -/
def dvalAcc (ks : List Nat) (acc : Nat) : Nat := ks.foldl (fun a k => a * 10 + k % 10) acc
def dval (ks : List Nat) : Nat := dvalAcc ks 0

theorem digitChar_small (k : Nat) : (digitChar k).toNat < 128 := by
  have : ∀ j : Fin 10, (Char.ofNat (48 + j.val)).toNat < 128 := by decide
  exact this (dj k)

theorem asciiCls_digitChar (k : Nat) : asciiCls (digitChar k) = .decDigit (k % 10) := by
  have : ∀ j : Fin 10, asciiCls (Char.ofNat (48 + j.val)) = .decDigit j.val := by decide
  exact this (dj k)

section
variable (cls : Char → CClass) [hc : AsciiOK cls]

theorem cls_digitChar (k : Nat) : cls (digitChar k) = .decDigit (k % 10) := by
  rw [hc.agree _ (digitChar_small k), asciiCls_digitChar]

theorem asciiLike_of_ok : AsciiLike cls :=
  ⟨fun j => by
      have := cls_digitChar cls j.val
      rw [digitChar_eq] at this
      have e : (dj j.val) = j := by apply Fin.ext; simp [dj, Nat.mod_eq_of_lt j.isLt]
      rw [e] at this
      rw [this, Nat.mod_eq_of_lt j.isLt],
   by rw [hc.agree _ (by decide)]; decide, by rw [hc.agree _ (by decide)]; decide,
   by rw [hc.agree _ (by decide)]; decide, by rw [hc.agree _ (by decide)]; decide⟩

theorem digitsVal_dtok (ks : List Nat) : ∀ acc, digitsVal cls (dtok ks) acc = some (dvalAcc ks acc) := by
  induction ks with
  | nil => intro acc; rfl
  | cons k ks ih =>
    intro acc
    simp only [dtok, List.map_cons, digitsVal, digitVal, cls_digitChar cls k]
    exact ih _

theorem dtok_mem (ks : List Nat) (c : Char) (h : c ∈ dtok ks) : ∃ k, c = digitChar k := by
  simp only [dtok, List.mem_map] at h
  obtain ⟨k, _, hk⟩ := h
  exact ⟨k, hk.symm⟩

theorem dot_notin_dtok (ks : List Nat) : '.' ∉ dtok ks := by
  intro h
  obtain ⟨k, hk⟩ := dtok_mem ks _ h
  exact digitChar_ne_dot k hk.symm

theorem splitDot_dtok (ks : List Nat) : splitDot (dtok ks) = (dtok ks, none) := by
  induction ks with
  | nil => rfl
  | cons k ks ih =>
    simp only [dtok, List.map_cons, splitDot, digitChar_ne_dot k, if_false] at ih ⊢
    rw [ih]

theorem numForm_dtok (k : Nat) (ks : List Nat) : numForm cls (dtok (k :: ks)) = some ⟨dval (k :: ks), 0⟩ := by
  unfold numForm
  rw [splitDot_dtok]
  have he : (dtok (k :: ks)).isEmpty = false := rfl
  simp only [he, Bool.false_eq_true, if_false, digitsVal_dtok, Option.map_some, dval]

@[simp] theorem floatOk_dtok (k : Nat) (ks : List Nat) : floatOk cls (dtok (k :: ks)) = true := by
  simp [floatOk, numForm_dtok]

@[simp] theorem toDecimal_dtok (k : Nat) (ks : List Nat) : toDecimal cls (dtok (k :: ks)) = .ok ⟨dval (k :: ks), 0⟩ := by
  simp [toDecimal, numForm_dtok]

@[simp] theorem length_dtok (ks : List Nat) : (dtok ks).length = ks.length := by simp [dtok]

theorem pyInt_dtok (k : Nat) (ks : List Nat) (h : ks.length < 100) : pyInt cls (dtok (k :: ks)) = .ok (dval (k :: ks)) := by
  unfold pyInt
  have h2 : ¬ (dtok (k :: ks)).length > intMaxStrDigits := by simp [intMaxStrDigits]; omega
  have he : (dtok (k :: ks)).isEmpty = false := rfl
  simp only [he, Bool.false_eq_true, if_false, h2, digitsVal_dtok, dval]

@[simp] theorem isDigitTok_dtok (k : Nat) (ks : List Nat) : isDigitTok cls (dtok (k :: ks)) = true := by
  unfold isDigitTok
  simp only [dtok, List.map_cons, List.isEmpty_cons, Bool.not_false, Bool.true_and, List.all_eq_true]
  intro c hc'
  obtain ⟨j, hj⟩ := dtok_mem (k :: ks) c (by simpa [dtok] using hc')
  rw [hj, cls_digitChar cls]; rfl

theorem drun_dtok (ks : List Nat) : DRun cls (dtok ks) := by
  intro c h
  obtain ⟨k, hk⟩ := dtok_mem ks c h
  rw [hk]
  refine ⟨by rw [cls_digitChar cls]; rfl, digitChar_ne_nul k, digitChar_ne_dot k, ?_⟩
  have : ∀ j : Fin 10, Char.ofNat (48 + j.val) ≠ ',' := by decide
  exact this (dj k)

@[simp] theorem parsems_dtok (k : Nat) (ks : List Nat) (h : ks.length < 100) :
    parsems cls (dtok (k :: ks)) = .ok (dval (k :: ks), 0) := by
  unfold parsems
  have : '.' ∉ dtok (k :: ks) := dot_notin_dtok (k :: ks)
  simp [this, pyInt_dtok cls k ks h, bind, Except.bind, pure, Except.pure]

/-- `_parsems` on `SS.f…` (1 to 6 fraction digits given explicitly, then zero-padded to six) -/
theorem parsems_frac (a : Nat) (as : List Nat) (b : Nat) (bs : List Nat) (ha : as.length < 100) (hb : bs.length < 6) :
    parsems cls (dtok (a :: as) ++ '.' :: dtok (b :: bs)) =
      .ok (dval (a :: as), dval ((b :: bs) ++ List.replicate (5 - bs.length) 0)) := by
  unfold parsems
  have hcont : (dtok (a :: as) ++ '.' :: dtok (b :: bs)).contains '.' = true := by simp
  have hsplit : ∀ (xs : List Nat) (r : List Char), splitDot (dtok xs ++ '.' :: r) = (dtok xs, some r) := by
    intro xs r
    induction xs with
    | nil => simp [dtok, splitDot]
    | cons x xs ih =>
      simp only [dtok, List.map_cons, List.cons_append, splitDot, digitChar_ne_dot x, if_false] at ih ⊢
      rw [ih]
  have hnd : (dtok (b :: bs)).contains '.' = false := by simpa using dot_notin_dtok (b :: bs)
  have hpad : ((dtok (b :: bs) ++ List.replicate (6 - (dtok (b :: bs)).length) '0').take 6) =
      dtok ((b :: bs) ++ List.replicate (5 - bs.length) 0) := by
    have h0 : ('0' : Char) = digitChar 0 := by decide
    have : 6 - (bs.length + 1) = 5 - bs.length := by omega
    simp only [length_dtok, List.length_cons, this]
    simp only [dtok, List.map_append, List.map_replicate, ← h0]
    rw [List.take_of_length_le]
    simp; omega
  simp only [hcont, Bool.not_true, Bool.false_eq_true, if_false, hsplit, hnd, hpad]
  have hb' : (bs ++ List.replicate (5 - bs.length) 0).length < 100 := by simp; omega
  simp [pyInt_dtok cls a as ha, bind, Except.bind, pure, Except.pure]
  rw [pyInt_dtok cls b (bs ++ List.replicate (5 - bs.length) 0) hb']

end

/-! ### slices and concatenations of digit tokens -/

@[simp] theorem sl_dtok (ks : List Nat) (a b : Nat) : sl (dtok ks) a b = dtok ((ks.drop a).take (b - a)) := by
  simp [sl, dtok, List.map_drop, List.map_take]
@[simp] theorem drop_dtok (ks : List Nat) (a : Nat) : (dtok ks).drop a = dtok (ks.drop a) := by
  simp [dtok, List.map_drop]
@[simp] theorem dtok_append (a b : List Nat) : dtok a ++ dtok b = dtok (a ++ b) := by simp [dtok]
theorem pad2_dtok (n : Nat) : pad2 n = dtok [n / 10, n] := rfl
theorem pad4_dtok (n : Nat) : pad4 n = dtok [n / 1000, n / 100, n / 10, n] := rfl
@[simp] theorem contains_dot_dtok (ks : List Nat) : (dtok ks).contains '.' = false := by
  simpa using dot_notin_dtok ks
@[simp] theorem idxOf_dot_dtok (ks : List Nat) : (dtok ks).idxOf '.' = ks.length := by
  rw [List.idxOf_eq_length (dot_notin_dtok ks)]; simp
@[simp] theorem isEmpty_dtok (k : Nat) (ks : List Nat) : (dtok (k :: ks)).isEmpty = false := rfl

/-! ### the stock tables know no word that starts with a digit -/

theorem lower_dtok (ks : List Nat) : lower (dtok ks) = dtok ks := by
  induction ks with
  | nil => rfl
  | cons k ks ih =>
    simp only [lower, dtok, List.map_cons, lower_digitChar] at ih ⊢
    rw [ih]

theorem first_dtok (k : Nat) (ks : List Nat) : firstIsDigit (dtok (k :: ks)) = true := by
  simp [firstIsDigit, dtok, isAsciiDigit_digitChar]

theorem weekdays_nodigit : ∀ p ∈ convertGroups Gen.PI_WEEKDAYS, firstIsDigit p.1 = false := by decide
theorem hms_nodigit : ∀ p ∈ convertGroups Gen.PI_HMS, firstIsDigit p.1 = false := by decide
theorem ampm_nodigit : ∀ p ∈ convertGroups Gen.PI_AMPM, firstIsDigit p.1 = false := by decide
theorem pertain_nodigit : ∀ k ∈ convertFlat Gen.PI_PERTAIN, firstIsDigit k = false := by decide
theorem utczone_nodigit : ∀ k ∈ convertFlat Gen.PI_UTCZONE, firstIsDigit k = false := by decide

section
variable (df yf : Bool) (year century : Int) (k : Nat) (ks : List Nat)

@[simp] theorem isJump_dtok : (Info.default df yf year century).isJump (dtok (k :: ks)) = false := by
  show (convertFlat Gen.PI_JUMP).contains (lower (dtok (k :: ks))) = false
  rw [lower_dtok]; exact contains_false_of_first _ _ jump_nodigit (first_dtok k ks)
@[simp] theorem isPertain_dtok : (Info.default df yf year century).isPertain (dtok (k :: ks)) = false := by
  show (convertFlat Gen.PI_PERTAIN).contains (lower (dtok (k :: ks))) = false
  rw [lower_dtok]; exact contains_false_of_first _ _ pertain_nodigit (first_dtok k ks)
@[simp] theorem monthOf_dtok : (Info.default df yf year century).monthOf (dtok (k :: ks)) = none := by
  show (lookupLast (convertGroups Gen.PI_MONTHS) (lower (dtok (k :: ks)))).map (· + 1) = none
  rw [lower_dtok, lookupLast_none_of_first _ _ months_nodigit (first_dtok k ks)]; rfl
@[simp] theorem weekdayOf_dtok : (Info.default df yf year century).weekdayOf (dtok (k :: ks)) = none := by
  show lookupLast (convertGroups Gen.PI_WEEKDAYS) (lower (dtok (k :: ks))) = none
  rw [lower_dtok, lookupLast_none_of_first _ _ weekdays_nodigit (first_dtok k ks)]
@[simp] theorem hmsOf_dtok : (Info.default df yf year century).hmsOf (dtok (k :: ks)) = none := by
  show lookupLast (convertGroups Gen.PI_HMS) (lower (dtok (k :: ks))) = none
  rw [lower_dtok, lookupLast_none_of_first _ _ hms_nodigit (first_dtok k ks)]
@[simp] theorem ampmOf_dtok : (Info.default df yf year century).ampmOf (dtok (k :: ks)) = none := by
  show lookupLast (convertGroups Gen.PI_AMPM) (lower (dtok (k :: ks))) = none
  rw [lower_dtok, lookupLast_none_of_first _ _ ampm_nodigit (first_dtok k ks)]
end

/-- a digit token is never equal to a token that does not start with a digit -/
theorem dtok_ne (k : Nat) (ks : List Nat) (t : Token) (h : firstIsDigit t = false) : dtok (k :: ks) ≠ t := by
  intro he
  rw [← he, first_dtok] at h
  cases h

@[simp] theorem dtok_eq_single (k : Nat) (ks : List Nat) (c : Char) (h : isAsciiDigit c = false) :
    (dtok (k :: ks) = [c]) = False := by
  simp only [eq_iff_iff, iff_false]
  exact dtok_ne k ks [c] (by simp [firstIsDigit, h])

@[simp] theorem single_eq_dtok (k : Nat) (ks : List Nat) (c : Char) (h : isAsciiDigit c = false) :
    ([c] = dtok (k :: ks)) = False := by
  simp only [eq_iff_iff, iff_false]
  exact fun he => dtok_ne k ks [c] (by simp [firstIsDigit, h]) he.symm

/-! ### ASCII words: the classification can be replaced by `asciiCls` -/

theorem digitsVal_congr (cls cls' : Char → CClass) (t : List Char) (h : ∀ c ∈ t, cls c = cls' c) :
    ∀ acc, digitsVal cls t acc = digitsVal cls' t acc := by
  induction t with
  | nil => intro acc; rfl
  | cons a r ih =>
    intro acc
    simp only [digitsVal, digitVal, h a List.mem_cons_self]
    split
    · exact ih (fun c hc => h c (List.mem_cons_of_mem _ hc)) _
    · rfl

theorem splitDot_mem (t : List Char) : ∀ c, (c ∈ (splitDot t).1 → c ∈ t) ∧ (∀ f, (splitDot t).2 = some f → c ∈ f → c ∈ t) := by
  induction t with
  | nil => intro c; simp [splitDot]
  | cons a r ih =>
    intro c
    unfold splitDot
    split
    · refine ⟨by simp, ?_⟩
      intro f hf hc
      simp only [Option.some.injEq] at hf
      subst hf
      exact List.mem_cons_of_mem _ hc
    · constructor
      · intro hc
        simp only [List.mem_cons] at hc ⊢
        rcases hc with hc | hc
        · exact Or.inl hc
        · exact Or.inr ((ih c).1 hc)
      · intro f hf hc
        exact List.mem_cons_of_mem _ ((ih c).2 f hf hc)

theorem floatOk_congr (cls cls' : Char → CClass) (t : Token) (h : ∀ c ∈ t, cls c = cls' c) :
    floatOk cls t = floatOk cls' t := by
  unfold floatOk numForm
  have hm := splitDot_mem t
  cases hs : splitDot t with
  | mk ip fo =>
    rw [hs] at hm
    cases fo with
    | none =>
      simp only
      rw [digitsVal_congr cls cls' ip (fun c hc => h c ((hm c).1 hc))]
    | some fp =>
      simp only
      rw [digitsVal_congr cls cls' (ip ++ fp) (fun c hc => by
        rcases List.mem_append.mp hc with hc | hc
        · exact h c ((hm c).1 hc)
        · exact h c ((hm c).2 fp rfl hc))]

/-- for an ASCII token, `float()` acceptance is the one computed with Python's ASCII classes -/
theorem floatOk_ascii (cls : Char → CClass) [hc : AsciiOK cls] (t : Token) (h : t.all (fun c => decide (c.toNat < 128)) = true) :
    floatOk cls t = floatOk asciiCls t :=
  floatOk_congr cls asciiCls t (fun c hm => hc.agree c (by
    have := List.all_eq_true.mp h c hm
    simpa using this))

theorem arun_ascii (cls : Char → CClass) [hc : AsciiOK cls] (t : List Char)
    (h : t.all (fun c => decide (c.toNat < 128) && (asciiCls c).isWord && decide (c ≠ '\x00')) = true) : ARun cls t := by
  intro c hm
  have := List.all_eq_true.mp h c hm
  simp only [Bool.and_eq_true, decide_eq_true_eq] at this
  rw [hc.agree c this.1.1]
  exact ⟨this.1.2, this.2⟩

/-- ends-conditions for a following ASCII character, computed with Python's ASCII classes -/
theorem numEnds_ascii (cls : Char → CClass) [hc : AsciiOK cls] (c : Char) (r : List Char)
    (h : (decide (c.toNat < 128) && decide (c ≠ '\x00') && !(asciiCls c).isNum && decide (c ≠ '.') && decide (c ≠ ',')) = true) :
    NumEnds cls (c :: r) := by
  simp only [Bool.and_eq_true, decide_eq_true_eq, Bool.not_eq_true'] at h
  show _ ∧ _
  rw [hc.agree c h.1.1.1.1]
  exact ⟨h.1.1.1.2, h.1.1.2, h.1.2, h.2⟩

theorem fracEnds_ascii (cls : Char → CClass) [hc : AsciiOK cls] (c : Char) (r : List Char)
    (h : (decide (c.toNat < 128) && decide (c ≠ '\x00') && !(asciiCls c).isNum && decide (c ≠ '.')) = true) :
    FracEnds cls (c :: r) := by
  simp only [Bool.and_eq_true, decide_eq_true_eq, Bool.not_eq_true'] at h
  show _ ∧ _
  rw [hc.agree c h.1.1.1]
  exact ⟨h.1.1.2, h.1.2, h.2⟩

theorem wordEnds_ascii (cls : Char → CClass) [hc : AsciiOK cls] (c : Char) (r : List Char)
    (h : (decide (c.toNat < 128) && decide (c ≠ '\x00') && !(asciiCls c).isWord && decide (c ≠ '.')) = true) :
    WordEnds cls (c :: r) := by
  simp only [Bool.and_eq_true, decide_eq_true_eq, Bool.not_eq_true'] at h
  show _ ∧ _
  rw [hc.agree c h.1.1.1]
  exact ⟨h.1.1.2, h.1.2, h.2⟩

theorem wordEnds_digit (cls : Char → CClass) [AsciiOK cls] (k : Nat) (r : List Char) : WordEnds cls (digitChar k :: r) := by
  show _ ∧ _
  rw [cls_digitChar cls]
  exact ⟨digitChar_ne_nul k, rfl, digitChar_ne_dot k⟩

theorem cls_other (cls : Char → CClass) [hc : AsciiOK cls] (c : Char)
    (h : (decide (c.toNat < 128) && decide (asciiCls c = .other)) = true) : cls c = .other := by
  simp only [Bool.and_eq_true, decide_eq_true_eq] at h
  rw [hc.agree c h.1]; exact h.2

theorem cls_space (cls : Char → CClass) [hc : AsciiOK cls] (c : Char)
    (h : (decide (c.toNat < 128) && decide (asciiCls c = .space)) = true) : cls c = .space := by
  simp only [Bool.and_eq_true, decide_eq_true_eq] at h
  rw [hc.agree c h.1]; exact h.2

/-! ### small Decimal facts -/

theorem rem1_int (n : Nat) (hn : n < 100) : Dec.rem1 ⟨n, 0⟩ = .ok ⟨0, 0⟩ := by
  have := ndigits_small ⟨n, hn⟩
  have h1 : ¬ ndigits n > decPrec := by simp at this; omega
  simp [Dec.rem1, Dec.toNat, h1, round28, Nat.mod_one]

@[simp] theorem toNat_int (n : Nat) : Dec.toNat ⟨n, 0⟩ = n := by simp [Dec.toNat]

end PM
