/-
  Proofs/ParserGenTail.lean — `parser.parse` from the `_parse` call to the return, re-translated from /repo's
  parser/_parser.py (Generated/ParserOps.lean: `Gen.P.parseTail`: the two ParserError raises, `_build_naive` and
  `_build_tzaware` each wrapped `except ValueError → ParserError`, the `ignoretz` branch `ret.replace(tzinfo=None)`, the
  `fuzzy_with_tokens` return) = `PM.parseA` (the model of `parse` for any default, Model/Parser.lean).
  `_build_tzaware` itself is a named stand-in (`PPy.buildTzawareStandIn` = the hand model's cascade).
-/
import DateutilVerif.Proofs.ParserGenParse
import DateutilVerif.Proofs.ParserGenNaive

namespace PGen
open PM Py
set_option linter.unusedSimpArgs false

theorem parseTail_eq (cls : Char → CClass) (info : Info) (fuel : Nat) (tznames : List Token) (timestr : List Char) (dflt : DT)
    (ignoretz : Bool) (tzi : TzInfos) (df yf : Option Bool) (fz fwt : Bool)
    (hc : 100 ≤ info.century) (hf : (PM.lex cls timestr).length ≤ fuel) :
    Gen.P.parseTail fuel cls tznames info timestr dflt ignoretz tzi df yf fz fwt =
      PM.parseA cls info { dayfirst := df, yearfirst := yf, fuzzy := fz, fuzzyWithTokens := fwt, ignoretz := ignoretz }
        tznames tzi dflt timestr := by
  unfold Gen.P.parseTail PM.parseA PM.parseResultA PM.finalTz
  rw [parse_eq cls info fuel timestr df yf fz fwt hc hf]
  have hopt : PM.parseTokens cls info { dayfirst := df, yearfirst := yf, fuzzy := fz, fuzzyWithTokens := fwt, ignoretz := ignoretz }
      (PM.lex cls timestr) =
      PM.parseTokens cls info { dayfirst := df, yearfirst := yf, fuzzy := fz, fuzzyWithTokens := fwt } (PM.lex cls timestr) := rfl
  rw [hopt]
  cases PM.parseTokens cls info { dayfirst := df, yearfirst := yf, fuzzy := fz, fuzzyWithTokens := fwt } (PM.lex cls timestr) with
  | error e => rfl
  | ok r =>
    cases r with
    | none => simp [bind_ok, bind_eq, throw_eq]; rfl
    | some p =>
      obtain ⟨res, sk⟩ := p
      simp only [bind_ok, bind_eq, Option.map_some, Option.bind_some, PPy.optRes, buildNaive_eq]
      by_cases h0 : res.len = 0
      · simp [h0, bind_ok, bind_err, throw_eq]
      · cases hn : PM.buildNaive res dflt with
        | error e => cases e <;> simp [h0, hn, bind_ok, bind_err, throw_eq, pure_eq]
        | ok naive =>
          cases ignoretz
          · cases hz : PM.buildTzaware tznames tzi res with
            | error e => cases e <;> cases fwt <;> simp [h0, hn, hz, bind_ok, bind_err, throw_eq, pure_eq, PPy.buildTzawareStandIn]
            | ok z => cases z <;> cases fwt <;> simp [h0, hn, hz, bind_ok, bind_err, throw_eq, pure_eq, PPy.buildTzawareStandIn]
          · cases fwt <;> simp [h0, hn, bind_ok, bind_err, throw_eq, pure_eq]

end PGen
