/- Proofs/IsoWeek.lean — ISO week arithmetic: the Monday of week 1, `_calculate_weekdate`,
   and `isocalendar` as the inverse of (ISO year, week, weekday) ↦ ordinal. -/
import DateutilVerif.Model.IsoParser
import DateutilVerif.Spec.IsoForms
import DateutilVerif.Proofs.Calendar
set_option linter.unusedSimpArgs false
namespace Iso
open Cal

theorem toOrdinal_jan (y d : Int) : toOrdinal y 1 d = daysBeforeYear y + d := by
  simp [toOrdinal, daysBeforeMonth, dbmTable]

/-- the Monday of ISO week 1 is a Monday within three days of January 1st -/
theorem w1_facts (y : Int) :
    (isoWeek1Monday y + 6) % 7 = 0 ∧ daysBeforeYear y - 2 ≤ isoWeek1Monday y ∧
    isoWeek1Monday y ≤ daysBeforeYear y + 4 := by
  unfold isoWeek1Monday
  simp only [toOrdinal_jan]
  generalize daysBeforeYear y = F
  split <;> omega

theorem jan4_week1 (y : Int) :
    toOrdinal y 1 4 - ((isoCalendar y 1 4).2.2 - 1) = isoWeek1Monday y := by
  have ⟨h1, h2, h3⟩ := w1_facts y
  have ⟨g1, g2, g3⟩ := w1_facts (y + 1)
  have hs := daysBeforeYear_succ y
  have hdy : daysInYear y = 365 ∨ daysInYear y = 366 := by unfold daysInYear; split <;> simp
  unfold isoCalendar
  simp only [toOrdinal_jan, Py.fdiv_pos _ (by decide : (0 : Int) < 7), Py.fmod_pos _ (by decide : (0 : Int) < 7)]
  generalize isoWeek1Monday y = w at *
  generalize isoWeek1Monday (y + 1) = w' at *
  generalize isoWeek1Monday (y - 1) = w'' at *
  generalize daysBeforeYear y = F at *
  generalize daysBeforeYear (y + 1) = F' at *
  split
  · omega
  · split
    · omega
    · dsimp only; omega

theorem daysBeforeYear_ge (y : Int) (hy : 2 ≤ y) : 365 ≤ daysBeforeYear y := by
  unfold daysBeforeYear; omega

theorem w1_pos (y : Int) (hy : 1 ≤ y) : 1 ≤ isoWeek1Monday y := by
  by_cases h : y = 1
  · subst h; decide
  · have := w1_facts y; have := daysBeforeYear_ge y (by omega); omega

theorem dby_mono (a b : Int) (h : a ≤ b) : daysBeforeYear a + 365 * (b - a) ≤ daysBeforeYear b := by
  unfold daysBeforeYear; omega

/-- a valid date lies within its year -/
theorem ordinal_in_year (y m d : Int) (h : ValidYMD y m d) :
    daysBeforeYear y + 1 ≤ toOrdinal y m d ∧ toOrdinal y m d ≤ daysBeforeYear (y + 1) := by
  obtain ⟨m1, m12, d1, dd⟩ := h
  have h0 := daysBeforeMonth_mono y 1 m (by omega) m1 (by omega)
  have h1 := daysBeforeMonth_succ y m m1 m12
  have h2 := daysBeforeMonth_mono y (m + 1) 13 (by omega) (by omega) (by omega)
  rw [daysBeforeMonth_13] at h2
  rw [daysBeforeMonth_1] at h0
  rw [daysBeforeYear_succ]
  unfold toOrdinal; omega

theorem isoCalendar_of_week (iy y m d : Int) (hv : ValidYMD y m d)
    (h1 : isoWeek1Monday iy ≤ toOrdinal y m d) (h2 : toOrdinal y m d < isoWeek1Monday (iy + 1)) :
    isoCalendar y m d = (iy, (toOrdinal y m d - isoWeek1Monday iy) / 7 + 1,
                             (toOrdinal y m d - isoWeek1Monday iy) % 7 + 1) := by
  have ⟨o1, o2⟩ := ordinal_in_year y m d hv
  have fa := w1_facts iy
  have fb := w1_facts (iy + 1)
  have hiy : iy = y - 1 ∨ iy = y ∨ iy = y + 1 := by
    by_cases c1 : iy ≤ y - 2
    · have := dby_mono (iy + 1) (y - 1) (by omega)
      have := dby_mono (y - 1) y (by omega)
      omega
    · by_cases c2 : y + 2 ≤ iy
      · have := dby_mono (y + 1) iy (by omega); omega
      · omega
  have g0 := w1_facts (y - 1)
  have g1 := w1_facts y
  have g2 := w1_facts (y + 1)
  have g3 := w1_facts (y + 2)
  have s0 := daysBeforeYear_succ (y - 1)
  have s1 := daysBeforeYear_succ y
  have s2 := daysBeforeYear_succ (y + 1)
  have e0 : daysInYear (y - 1) = 365 ∨ daysInYear (y - 1) = 366 := by unfold daysInYear; split <;> simp
  have e1 : daysInYear y = 365 ∨ daysInYear y = 366 := by unfold daysInYear; split <;> simp
  have e2 : daysInYear (y + 1) = 365 ∨ daysInYear (y + 1) = 366 := by unfold daysInYear; split <;> simp
  rw [show y - 1 + 1 = y by omega] at s0
  rw [show y + 1 + 1 = y + 2 by omega] at s2
  unfold isoCalendar
  simp only [Py.fdiv_pos _ (by decide : (0 : Int) < 7), Py.fmod_pos _ (by decide : (0 : Int) < 7)]
  generalize toOrdinal y m d = o at *
  rcases hiy with rfl | rfl | rfl
  · rw [show y - 1 + 1 = y by omega] at fb h2
    generalize isoWeek1Monday y = w at *
    generalize isoWeek1Monday (y - 1) = wp at *
    rw [if_pos (by omega)]
  · generalize isoWeek1Monday iy = w at *
    generalize isoWeek1Monday (iy + 1) = wn at *
    rw [if_neg (by omega), if_neg (by omega)]
  · rw [show y + 1 + 1 = y + 2 by omega] at fb h2
    generalize isoWeek1Monday y = w at *
    generalize isoWeek1Monday (y + 1) = wn at *
    generalize isoWeek1Monday (y + 2) = wnn at *
    rw [if_neg (by omega), if_pos (by omega)]
    congr 2 <;> omega

/-- every valid date lies in exactly one ISO year: the (ISO year, week, weekday) ↦ ordinal map
    inverts `isocalendar` -/
theorem weekdate_roundtrip (y m d : Int) (hv : ValidYMD y m d) :
    isoWeek1Monday (isoCalendar y m d).1 + ((isoCalendar y m d).2.1 - 1) * 7 +
      ((isoCalendar y m d).2.2 - 1) = toOrdinal y m d ∧
    1 ≤ (isoCalendar y m d).2.1 ∧ (isoCalendar y m d).2.1 ≤ 53 ∧
    1 ≤ (isoCalendar y m d).2.2 ∧ (isoCalendar y m d).2.2 ≤ 7 ∧
    (isoCalendar y m d).2.1 ≤ IsoSpec.isoWeeksInYear (isoCalendar y m d).1 := by
  have ⟨o1, o2⟩ := ordinal_in_year y m d hv
  have g0 := w1_facts (y - 1)
  have g1 := w1_facts y
  have g2 := w1_facts (y + 1)
  have g3 := w1_facts (y + 2)
  have s0 := daysBeforeYear_succ (y - 1)
  have s1 := daysBeforeYear_succ y
  have s2 := daysBeforeYear_succ (y + 1)
  have e0 : daysInYear (y - 1) = 365 ∨ daysInYear (y - 1) = 366 := by unfold daysInYear; split <;> simp
  have e1 : daysInYear y = 365 ∨ daysInYear y = 366 := by unfold daysInYear; split <;> simp
  have e2 : daysInYear (y + 1) = 365 ∨ daysInYear (y + 1) = 366 := by unfold daysInYear; split <;> simp
  rw [show y - 1 + 1 = y by omega] at s0
  rw [show y + 1 + 1 = y + 2 by omega] at s2
  have key : ∃ iy, isoWeek1Monday iy ≤ toOrdinal y m d ∧ toOrdinal y m d < isoWeek1Monday (iy + 1) := by
    by_cases c1 : toOrdinal y m d < isoWeek1Monday y
    · exact ⟨y - 1, by omega, by rw [show y - 1 + 1 = y by omega]; exact c1⟩
    · by_cases c2 : toOrdinal y m d < isoWeek1Monday (y + 1)
      · exact ⟨y, by omega, c2⟩
      · exact ⟨y + 1, by omega, by rw [show y + 1 + 1 = y + 2 by omega]; omega⟩
  obtain ⟨iy, h1, h2⟩ := key
  rw [isoCalendar_of_week iy y m d hv h1 h2]
  have fa := w1_facts iy
  have fb := w1_facts (iy + 1)
  unfold IsoSpec.isoWeeksInYear
  dsimp only
  generalize toOrdinal y m d = o at *
  generalize isoWeek1Monday iy = w at *
  generalize isoWeek1Monday (iy + 1) = wn at *
  have : wn - w ≤ 371 := by
    have := dby_mono iy (iy + 1) (by omega)
    have s := daysBeforeYear_succ iy
    have e : daysInYear iy = 365 ∨ daysInYear iy = 366 := by unfold daysInYear; split <;> simp
    omega
  omega

end Iso
