/-
  Proofs/ParserIsoRun.lean — symbolic run of `_parse` on the token list
  `[Y, "-", M, "-", D, S, H, ":", Mi, ":", Se]` (for C02 `parse_render_iso`).
-/
import DateutilVerif.Proofs.ParserIso
import DateutilVerif.Proofs.Calendar

namespace PM
open Py

/-- what the run needs to know about a purely numeric token `t` with value `n` -/
structure NumTok (cls : Char → CClass) (info : Info) (t : Token) (n : Nat) : Prop where
  float : floatOk cls t = true
  dec : toDecimal cls t = .ok ⟨n, 0⟩
  int : pyInt cls t = .ok n
  isdig : isDigitTok cls t = true
  nodot : t.contains '.' = false
  jump : info.isJump t = false
  month : info.monthOf t = none

/-- what the run needs to know about the separator token between date and time -/
structure SepTok (cls : Char → CClass) (info : Info) (t : Token) : Prop where
  float : floatOk cls t = false
  wd : info.weekdayOf t = none
  month : info.monthOf t = none
  ampm : info.ampmOf t = none
  jump : info.isJump t = true
  hms : info.hmsOf t = none

/-- what the run needs to know about `-` and `:` under `info` -/
structure PunctOk (info : Info) : Prop where
  hms_dash : info.hmsOf ['-'] = none
  hms_colon : info.hmsOf [':'] = none

def isoTokens (Y M D S H Mi Se : Token) : List Token := [Y, ['-'], M, ['-'], D, S, H, [':'], Mi, [':'], Se]

def isoYmd (y m d : Nat) : Ymd := { vals := [y, m, d], century := true, yIdx := some 0 }

theorem stepA (cls : Char → CClass) (info : Info) (hp : PunctOk info) (Y M D S H Mi Se : Token) (y m d : Nat)
    (hY : NumTok cls info Y y) (hM : NumTok cls info M m) (hD : NumTok cls info D d)
    (hYl : Y.length = 4) (hMl : M.length = 2) (hDl : D.length = 2) :
    parseStep cls info false 11 0 { l := isoTokens Y M D S H Mi Se } =
      .ok (4, { l := isoTokens Y M D S H Mi Se, ymd := isoYmd y m d }) := by
  have hfind : findHmsIdx info 0 (isoTokens Y M D S H Mi Se) true = none := by
    simp [findHmsIdx, isoTokens, hp.hms_dash]
  have hA1 : Ymd.appendTok cls {} Y = .ok { vals := [y], century := true, yIdx := some 0 } := by
    simp [Ymd.appendTok, Ymd.appendCore, hY.isdig, hYl, hY.int]
  have hA2 : Ymd.appendTok cls { vals := [y], century := true, yIdx := some 0 } M =
      .ok { vals := [y, m], century := true, yIdx := some 0 } := by
    simp [Ymd.appendTok, Ymd.appendCore, hM.isdig, hMl, hM.int]
  have hA3 : Ymd.appendTok cls { vals := [y, m], century := true, yIdx := some 0 } D = .ok (isoYmd y m d) := by
    simp [Ymd.appendTok, Ymd.appendCore, hD.isdig, hDl, hD.int, isoYmd]
  have hsep : numSep cls info (isoTokens Y M D S H Mi Se) 0 Y {} {} = .ok (4, isoYmd y m d, {}) := by
    simp [numSep, isoTokens, tokAt, bind, Except.bind, pure, Except.pure, hA1, hM.jump, sepSecond, hM.isdig, hA2,
          tokIs, sepThird, hD.month, hA3]
  have hnum : parseNumericToken cls info false (isoTokens Y M D S H Mi Se) 0 {} {} = .ok (4, isoYmd y m d, {}) := by
    unfold parseNumericToken
    simp only [hfind]
    simp [isoTokens, tokAt, bind, Except.bind, hY.dec, hYl, tokIs]
    simpa [isoTokens] using hsep
  unfold parseStep
  simp [isoTokens, tokAt, bind, Except.bind, pure, Except.pure, hY.float]
  simp [isoTokens] at hnum
  simp [hnum]

theorem stepB (cls : Char → CClass) (info : Info) (Y M D S H Mi Se : Token) (y m d : Nat) (hS : SepTok cls info S) :
    parseStep cls info false 11 5 { l := isoTokens Y M D S H Mi Se, ymd := isoYmd y m d } =
      .ok (0, { l := isoTokens Y M D S H Mi Se, ymd := isoYmd y m d, skipped := [5] }) := by
  unfold parseStep
  simp [isoTokens, tokAt, bind, Except.bind, pure, Except.pure, hS.float, hS.wd, hS.month, hS.ampm, hS.jump,
        couldBeTzname]

def isoRes (h mi se : Nat) : Res := { hour := some h, minute := some mi, second := some se, microsecond := some 0 }

theorem ndigits_small : ∀ n : Fin 100, ndigits n.val ≤ decPrec := by decide

theorem parseMinSec_int (n : Nat) (hn : n < 100) : parseMinSec ⟨n, 0⟩ = .ok (n, none) := by
  have := ndigits_small ⟨n, hn⟩
  have h1 : ¬ ndigits n > decPrec := by simp at this; omega
  simp [parseMinSec, Dec.rem1, Dec.toNat, h1, bind, Except.bind, pure, Except.pure, round28, Dec.isZero, Nat.mod_one]

theorem stepC (cls : Char → CClass) (info : Info) (hp : PunctOk info) (Y M D S H Mi Se : Token) (y m d h mi se : Nat)
    (hS : SepTok cls info S) (hH : NumTok cls info H h) (hMi : NumTok cls info Mi mi) (hSe : NumTok cls info Se se)
    (hHl : H.length = 2) (hmi : mi < 100) :
    parseStep cls info false 11 6 { l := isoTokens Y M D S H Mi Se, ymd := isoYmd y m d, skipped := [5] } =
      .ok (4, { l := isoTokens Y M D S H Mi Se, ymd := isoYmd y m d, skipped := [5], res := isoRes h mi se }) := by
  have hfind : findHmsIdx info 6 (isoTokens Y M D S H Mi Se) true = none := by
    simp [findHmsIdx, isoTokens, hp.hms_colon, hS.hms]
  have hnd : '.' ∉ Se := by simpa using hSe.nodot
  have hcol : numColon cls (isoTokens Y M D S H Mi Se) 6 ⟨h, 0⟩ (isoYmd y m d) {} = .ok (4, isoYmd y m d, isoRes h mi se) := by
    simp [numColon, hnd, isoTokens, tokAt, bind, Except.bind, pure, Except.pure, hMi.dec, parseMinSec_int mi hmi, tokIs,
          parsems, hSe.nodot, hSe.int, Dec.toNat, isoRes]
  have hnum : parseNumericToken cls info false (isoTokens Y M D S H Mi Se) 6 (isoYmd y m d) {} =
      .ok (4, isoYmd y m d, isoRes h mi se) := by
    unfold parseNumericToken
    simp only [hfind]
    simp [isoTokens, tokAt, bind, Except.bind, hH.dec, hHl, tokIs, isoYmd]
    simpa [isoTokens, isoYmd] using hcol
  unfold parseStep
  simp [isoTokens, tokAt, bind, Except.bind, pure, Except.pure, hH.float]
  simp [isoTokens] at hnum
  simp [hnum]

/-- the whole `while` loop on the eleven tokens -/
theorem loop_iso (cls : Char → CClass) (info : Info) (hp : PunctOk info) (Y M D S H Mi Se : Token)
    (y m d h mi se : Nat)
    (hY : NumTok cls info Y y) (hM : NumTok cls info M m) (hD : NumTok cls info D d) (hS : SepTok cls info S)
    (hH : NumTok cls info H h) (hMi : NumTok cls info Mi mi) (hSe : NumTok cls info Se se)
    (hYl : Y.length = 4) (hMl : M.length = 2) (hDl : D.length = 2) (hHl : H.length = 2) (hmi : mi < 100) :
    parseLoop cls info false 11 11 0 0 { l := isoTokens Y M D S H Mi Se } =
      .ok { l := isoTokens Y M D S H Mi Se, ymd := isoYmd y m d, skipped := [5], res := isoRes h mi se } := by
  simp only [parseLoop, stepA cls info hp Y M D S H Mi Se y m d hY hM hD hYl hMl hDl,
             stepB cls info Y M D S H Mi Se y m d hS,
             stepC cls info hp Y M D S H Mi Se y m d h mi se hS hH hMi hSe hHl hmi]

theorem resolve_iso (y m d : Nat) (yf : Bool) : (isoYmd y m d).resolve yf false = .ok (some y, some m, some d) := by
  simp [Ymd.resolve, isoYmd, Ymd.nlab, Ymd.resolveRest, Ymd.at, getIdx, bind, Except.bind, pure, Except.pure]

theorem convertyear_cs (pi : Gen.PInfoYear) (y : Nat) : Gen.convertyear pi (y : Int) true = .ok (y : Int) := by
  unfold Gen.convertyear
  have hge : ¬ ¬ ((y : Int) ≥ 0) := by omega
  simp [hge]

def isoFinalRes (y m d h mi se : Nat) : Res :=
  { year := some y, month := some m, day := some d, hour := some h, minute := some mi, second := some se,
    microsecond := some 0, centurySpecified := true }

theorem parseTokens_iso (cls : Char → CClass) (info : Info) (hp : PunctOk info) (o : Opts) (Y M D S H Mi Se : Token)
    (y m d h mi se : Nat)
    (hY : NumTok cls info Y y) (hM : NumTok cls info M m) (hD : NumTok cls info D d) (hS : SepTok cls info S)
    (hH : NumTok cls info H h) (hMi : NumTok cls info Mi mi) (hSe : NumTok cls info Se se)
    (hYl : Y.length = 4) (hMl : M.length = 2) (hDl : D.length = 2) (hHl : H.length = 2) (hmi : mi < 100)
    (hfz : o.fuzzy = false) (hfwt : o.fuzzyWithTokens = false) (hdf : o.dayfirst.getD info.dayfirst = false) :
    parseTokens cls info o (isoTokens Y M D S H Mi Se) = .ok (some (isoFinalRes y m d h mi se, none)) := by
  have hloop := loop_iso cls info hp Y M D S H Mi Se y m d h mi se hY hM hD hS hH hMi hSe hYl hMl hDl hHl hmi
  have hlen : (isoTokens Y M D S H Mi Se).length = 11 := rfl
  have htry : parseTry cls info o (isoTokens Y M D S H Mi Se) =
      .ok { l := isoTokens Y M D S H Mi Se, ymd := isoYmd y m d, skipped := [5], res := isoFinalRes y m d h mi se } := by
    unfold parseTry
    simp only [hfz, hfwt, Bool.or_false, hlen, hloop, bind, Except.bind, hdf, resolve_iso]
    simp [isoFinalRes, isoRes, isoYmd, pure, Except.pure]
  unfold parseTokens
  simp only [htry]
  simp [validate, isoFinalRes, convertyear_cs, bind, Except.bind, pure, Except.pure, hfwt, tk]

theorem fieldBig_small (n : Nat) (h : n < 1000000) : fieldBig (some n) = false := by
  simp [fieldBig, intMax]; omega

/-- **the all-numeric ISO-like family at token level**: `_parse` + `_build_naive` + `_build_tzaware` on
    `[YYYY, -, MM, -, DD, sep, HH, :, MM, :, SS]` return exactly that date and time, naive -/
theorem parseResult_iso (cls : Char → CClass) (info : Info) (hp : PunctOk info) (o : Opts) (tznames : List Token)
    (tzi : TzInfos) (dflt : DT) (Y M D S H Mi Se : Token) (y m d h mi se : Nat)
    (hY : NumTok cls info Y y) (hM : NumTok cls info M m) (hD : NumTok cls info D d) (hS : SepTok cls info S)
    (hH : NumTok cls info H h) (hMi : NumTok cls info Mi mi) (hSe : NumTok cls info Se se)
    (hYl : Y.length = 4) (hMl : M.length = 2) (hDl : D.length = 2) (hHl : H.length = 2)
    (hfz : o.fuzzy = false) (hfwt : o.fuzzyWithTokens = false) (hdf : o.dayfirst.getD info.dayfirst = false)
    (htzi : tzi.applies none = false)
    (hv : (DT.mk y m d h mi se 0).Valid) :
    parseResult cls info o tznames tzi dflt (isoTokens Y M D S H Mi Se) =
      .ok { dt := DT.mk y m d h mi se 0, tz := .naive, tokens := none } := by
  obtain ⟨⟨hy1, hy2, hm1, hm2, hd1, hd2⟩, hh1, hh2, hmi1, hmi2, hs1, hs2, _, _⟩ := hv
  dsimp only at *
  have hdim := (Cal.daysInMonth_bounds (y : Int) (m : Int)).2
  have hmi : mi < 100 := by omega
  unfold parseResult
  simp only [parseTokens_iso cls info hp o Y M D S H Mi Se y m d h mi se hY hM hD hS hH hMi hSe hYl hMl hDl hHl hmi
              hfz hfwt hdf, bind, Except.bind]
  have hlen : (isoFinalRes y m d h mi se).len ≠ 0 := by simp [isoFinalRes, Res.len]
  simp only [hlen, if_false]
  have hvalid : (DT.mk (y : Int) m d h mi se 0).valid = true := by
    unfold DT.valid
    exact decide_eq_true ⟨⟨hy1, hy2, hm1, hm2, hd1, hd2⟩, hh1, hh2, hmi1, hmi2, hs1, hs2, by omega, by omega⟩
  have hnaive : buildNaive (isoFinalRes y m d h mi se) dflt = .ok (DT.mk y m d h mi se 0) := by
    simp only [buildNaive, clipDay, isoFinalRes, bind, Except.bind, dtReplace, shiftBareWeekday]
    simp only [fieldBig_small y (by omega), fieldBig_small m (by omega), fieldBig_small d (by omega),
        fieldBig_small h (by omega), fieldBig_small mi (by omega), fieldBig_small se (by omega),
        fieldBig_small 0 (by omega), fieldOr, Bool.or_self, Bool.false_eq_true, if_false]
    simp only [Int.natCast_zero] at *
    simp [hvalid]
  simp only [hnaive, pure, Except.pure, hfwt]
  by_cases hig : o.ignoretz = true
  · simp [hig]
  · have htz : buildTzaware tznames tzi (isoFinalRes y m d h mi se) = .ok .naive := by
      simp [buildTzaware, isoFinalRes, htzi, nameTruthy]
    simp [hig, htz]

end PM
