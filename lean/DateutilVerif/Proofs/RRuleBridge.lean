/-
  Proofs/RRuleBridge.lean — from the constructor's normalised state back to the argument set:
  for an argument set without BYWEEKNO / BYEASTER / BYSETPOS / BYHOUR / BYMINUTE / BYSECOND at a
  frequency ≥ DAILY, the model's date predicate `simpleOk` is the specification's `dateOk`, and the
  time set is the start's wall time.
-/
import DateutilVerif.Proofs.RRuleFilter
import DateutilVerif.Proofs.RRuleConstruct
import DateutilVerif.Proofs.RRuleRefine
import DateutilVerif.Proofs.RRuleTimes

namespace RRule
open Cal

/-- WEEKLY / DAILY argument sets covered by the proved portion of `iter_eq_spec` -/
structure DWArgs (a : Args) : Prop where
  freq23 : a.freq = 2 ∨ a.freq = 3
  interval : 1 ≤ a.interval
  valid : a.dtstart.Valid
  byweekno : a.byweekno = none
  byeaster : a.byeaster = none
  monthday_nz : ∀ x ∈ a.bymonthday.getD [], x ≠ 0

/-- DAILY argument sets -/
structure DailyArgs (a : Args) : Prop extends DWArgs a where
  freq : a.freq = 3

variable {a : Args} {r : Rule}

theorem DWArgs.gt1 (da : DWArgs a) : a.freq > 1 := by rcases da.freq23 with h | h <;> omega
theorem DWArgs.ne0 (da : DWArgs a) : (a.freq == 0) = false := by rcases da.freq23 with h | h <;> simp [h]
theorem DWArgs.ne1 (da : DWArgs a) : (a.freq == 1) = false := by rcases da.freq23 with h | h <;> simp [h]

/-- the normalised rule of a DAILY argument set, up to the three unit lists -/
abbrev dailyRuleOf (a : Args) (bh bm bs : Option (List Int)) : Rule :=
  { freq := a.freq, interval := a.interval, wkst := a.wkst.getD 0,
    dtstart := { a.dtstart with us := 0 }, tz := a.tz, count := a.count, untilDT := a.untilDT,
    bysetpos := a.bysetpos, bymonth := a.bymonth.map sortedSet, bymonthday := bymonthdayOf a,
    bynmonthday := bynmonthdayOf a, byyearday := a.byyearday.map sortedSet,
    byeaster := none, byweekno := none,
    byweekday := byweekdayOf a, bynweekday := bynweekdayOf a,
    byhour := bh, byminute := bm, bysecond := bs,
    timeset := some (Spec.RRule.timesOf a none none none) }

theorem daily_rule (da : DWArgs a) (h : construct a = .ok r) : ∃ bh bm bs, r = dailyRuleOf a bh bm bs := by
  have hts := construct_timeset a r h (by rcases da.freq23 with h | h <;> omega)
  obtain ⟨sp, bh, bm, bs, ts, h1, h2, h3, h4, h5, rfl⟩ := construct_ok a r h
  dsimp only at hts
  subst hts
  have hsp := (normBysetpos_ok a sp h1).1
  subst hsp
  exact ⟨bh, bm, bs, by simp [dailyRuleOf, da.ne0, da.byweekno, da.byeaster, bymonthOf]⟩

theorem daily_cuts (da : DWArgs a) (h : construct a = .ok r) : CutsAgree a r := by
  obtain ⟨bh, bm, bs, hr⟩ := daily_rule da h
  rw [hr]; exact ⟨rfl, rfl, rfl⟩

theorem daily_simple (da : DWArgs a) (h : construct a = .ok r) : SimpleRule r := by
  have hd := construct_nth_demoted a r h da.gt1
  obtain ⟨bh, bm, bs, hr⟩ := daily_rule da h
  rw [hr] at hd ⊢
  refine ⟨rfl, ?_, rfl⟩
  dsimp only at hd ⊢
  rcases hd with hd | hd <;> rw [hd] <;> rfl

/-! ### the four date-level clauses -/

theorem month_clause (l : Option (List Int)) (m : Int) :
    (!truthy (l.map sortedSet) || memO m (l.map sortedSet)) =
    ((l.getD []).isEmpty || (l.getD []).contains m) := by
  cases l with
  | none => rfl
  | some l =>
    simp only [Option.map_some, Option.getD_some, truthy_eq_not_isEmpty, memO, Bool.not_not,
      isEmpty_sortedSet, contains_sortedSet]

theorem yearday_clause (l : Option (List Int)) (u v : Int) :
    (!truthy (l.map sortedSet) || memO u (l.map sortedSet) || memO v (l.map sortedSet)) =
    (match l with
     | some (x :: xs) => (x :: xs).contains u || (x :: xs).contains v
     | _ => true) := by
  cases l with
  | none => rfl
  | some l =>
    cases l with
    | nil => rfl
    | cons x xs =>
      have ht : truthy (some (sortedSet (x :: xs))) = true := by
        rw [truthy_eq_not_isEmpty, isEmpty_sortedSet]; rfl
      simp only [Option.map_some, ht, memO, contains_sortedSet, Bool.not_true, Bool.false_or]

theorem weekday_clause (da : DWArgs a) (wd : Int) (f : Int × Int → Bool) :
    (!truthy (byweekdayOf a) || memO wd (byweekdayOf a)) =
    (((weekdayArg a).getD []).isEmpty ||
      ((weekdayArg a).getD []).any (fun wn => wn.1 == wd && (wn.2 == 0 || decide (a.freq > 1) || f wn))) := by
  unfold byweekdayOf
  cases hl : weekdayArg a with
  | none => rfl
  | some l =>
    dsimp only
    have hplain : ∀ x, x ∈ plainWeekdays a l ↔ x ∈ l.map (·.1) := by
      intro x; unfold plainWeekdays; rw [mem_dedup]
      have : l.filter (fun w => w.2 == 0 || decide (a.freq > 1)) = l := by
        apply List.filter_eq_self.mpr; intro w _; simp [da.gt1]
      rw [this]
    have hf : (fun wn : Int × Int => wn.1 == wd && (wn.2 == 0 || decide (a.freq > 1) || f wn)) =
        (fun wn => wn.1 == wd) := by
      funext wn
      have : decide (a.freq > 1) = true := by simp [da.gt1]
      simp [this]
    have hany : ∀ (l : List (Int × Int)), l.any (fun wn => wn.1 == wd) = (l.map (·.1)).contains wd := by
      intro l
      induction l with
      | nil => rfl
      | cons w ws ih =>
        rw [List.any_cons, List.map_cons, List.contains_cons, ih]
        congr 1
        rw [Bool.eq_iff_iff]; simp only [beq_iff_eq]; exact eq_comm
    rw [hf]
    rw [Option.getD_some, hany]
    by_cases he : (plainWeekdays a l).isEmpty = true
    · rw [if_pos he]
      have : l.isEmpty = true := by
        cases l with
        | nil => rfl
        | cons w ws =>
          have := (hplain w.1).mpr (by simp)
          cases hp : plainWeekdays a (w :: ws) with
          | nil => rw [hp] at this; simp at this
          | cons _ _ => rw [hp] at he; simp at he
      simp [truthy, this]
    · rw [if_neg he]
      have hne : l.isEmpty = false := by
        cases l with
        | nil => exact absurd (by rfl) he
        | cons w ws => rfl
      have ht : truthy (some (sortBy ltInt (plainWeekdays a l))) = true := by
        rw [truthy_eq_not_isEmpty]
        rw [isEmpty_of_mem_iff _ (plainWeekdays a l) (fun x => mem_sortBy ltInt x _)]
        simpa using he
      simp only [ht, hne, memO, Bool.not_true, Bool.false_or]
      rw [Bool.eq_iff_iff]
      simp only [List.contains_iff_mem, mem_sortBy, hplain]

theorem monthday_clause (da : DWArgs a) (d e : Int) (hd : 0 < d) (he : e < 0) :
    (!(!(bymonthdayOf a).isEmpty || !(bynmonthdayOf a).isEmpty) ||
      (bymonthdayOf a).contains d || (bynmonthdayOf a).contains e) =
    ((a.bymonthday.getD []).isEmpty || (a.bymonthday.getD []).contains d || (a.bymonthday.getD []).contains e) := by
  have hm : monthdayArg a = a.bymonthday := by unfold monthdayArg; simp [da.ne0, da.ne1]
  have hnz := da.monthday_nz
  unfold bymonthdayOf bynmonthdayOf; rw [hm]
  cases hl : a.bymonthday with
  | none => rfl
  | some l =>
    rw [hl] at hnz
    simp only [Option.getD_some] at hnz ⊢
    have hpos : ∀ x, x ∈ sortBy ltInt ((dedup [] l).filter (· > 0)) ↔ x ∈ l ∧ 0 < x := by
      intro x; rw [mem_sortBy, List.mem_filter, mem_dedup]; simp
    have hneg : ∀ x, x ∈ sortBy ltInt ((dedup [] l).filter (· < 0)) ↔ x ∈ l ∧ x < 0 := by
      intro x; rw [mem_sortBy, List.mem_filter, mem_dedup]; simp
    have hc1 : (sortBy ltInt ((dedup [] l).filter (· > 0))).contains d = l.contains d := by
      rw [Bool.eq_iff_iff]; simp only [List.contains_iff_mem, hpos]; constructor
      · exact fun h => h.1
      · exact fun h => ⟨h, hd⟩
    have hc2 : (sortBy ltInt ((dedup [] l).filter (· < 0))).contains e = l.contains e := by
      rw [Bool.eq_iff_iff]; simp only [List.contains_iff_mem, hneg]; constructor
      · exact fun h => h.1
      · exact fun h => ⟨h, he⟩
    rw [hc1, hc2]
    cases l with
    | nil => rfl
    | cons x xs =>
      have hx : x ≠ 0 := hnz x (by simp)
      have : (sortBy ltInt ((dedup [] (x :: xs)).filter (· > 0))).isEmpty = false ∨
             (sortBy ltInt ((dedup [] (x :: xs)).filter (· < 0))).isEmpty = false := by
        by_cases hp : 0 < x
        · left
          have := (hpos x).mpr ⟨by simp, hp⟩
          cases hq : sortBy ltInt ((dedup [] (x :: xs)).filter (· > 0)) with
          | nil => rw [hq] at this; simp at this
          | cons _ _ => rfl
        · right
          have := (hneg x).mpr ⟨by simp, by omega⟩
          cases hq : sortBy ltInt ((dedup [] (x :: xs)).filter (· < 0)) with
          | nil => rw [hq] at this; simp at this
          | cons _ _ => rfl
      rcases this with h | h <;> simp [h]

/-- **bridge**: on every date, the model's date predicate of the constructed rule is the
    specification's `dateOk` of the argument set -/
theorem simpleOk_rule_eq_dateOk (da : DWArgs a) (bh bm bs : Option (List Int)) (ord : Int) (ho : 1 ≤ ord) :
    simpleOk (dailyRuleOf a bh bm bs) ord = Spec.RRule.dateOk a ord := by
  obtain ⟨_, hv, _⟩ := toOrdinal_fromOrdinal ord ho
  obtain ⟨_, _, hd1, hd2⟩ := hv
  unfold simpleOk Spec.RRule.dateOk
  dsimp only
  have hmonths : Spec.RRule.months a = a.bymonth.getD [] := by
    unfold Spec.RRule.months; cases a.bymonth <;> simp [da.ne0]
  have hmd : Spec.RRule.monthdays a = a.bymonthday.getD [] := by
    unfold Spec.RRule.monthdays; simp [da.ne0, da.ne1]
  have hwds : Spec.RRule.weekdays a = (weekdayArg a).getD [] := by
    unfold Spec.RRule.weekdays weekdayArg
    have : Spec.RRule.noDayParts a = noDayParts a := rfl
    rw [this]; split <;> rfl
  rw [hmonths, hmd, hwds, da.byweekno, da.byeaster]
  rw [month_clause,
      monthday_clause da _ _ (by omega) (by omega),
      weekday_clause da _ (fun wn => Spec.RRule.nthOk a ord (fromOrdinal ord).1 (fromOrdinal ord).2.1 wn.2)]
  simp only [Bool.and_true]
  generalize ((a.bymonth.getD []).isEmpty || (a.bymonth.getD []).contains (fromOrdinal ord).2.1) = b1
  generalize (((weekdayArg a).getD []).isEmpty || _) = b2
  generalize ((a.bymonthday.getD []).isEmpty || _ || _) = b3
  rcases a.byyearday with _ | (_ | ⟨x, xs⟩)
  · cases b1 <;> cases b2 <;> cases b3 <;> rfl
  · cases b1 <;> cases b2 <;> cases b3 <;> rfl
  · rw [yearday_clause (some (x :: xs))]
    dsimp only
    cases b1 <;> cases b2 <;> cases b3 <;> simp

theorem simpleOk_eq_dateOk (da : DWArgs a) (h : construct a = .ok r) (ord : Int) (ho : 1 ≤ ord) :
    simpleOk r ord = Spec.RRule.dateOk a ord := by
  obtain ⟨bh, bm, bs, hr⟩ := daily_rule da h
  rw [hr]
  exact simpleOk_rule_eq_dateOk da bh bm bs ord ho

end RRule
