/-
  Proofs/RRuleYM.lean — the YEARLY and MONTHLY instances of the refinement: period `k` of the model
  is the year `start.year + k·interval` / the month with index `start + k·interval`, its candidates
  are the specification's `sel a k`, and `advance` reaches period `k+1`.
-/
import DateutilVerif.Proofs.RRuleBridgeCal
import DateutilVerif.Proofs.RRuleRange
import DateutilVerif.Proofs.RRuleSetpos

namespace RRule
open Cal

variable {a : Args}

/-- "the model state at the start of period `k`" for a YEARLY / MONTHLY rule -/
structure YMGood (a : Args) (r : Rule) (k : Nat) (st : State) : Prop where
  facts : YearFacts r st.cur.year st.info
  nwd : st.info.nwdaymask = none
  month : 1 ≤ st.cur.month ∧ st.cur.month ≤ 12
  timeset : st.timeset = Spec.RRule.timesOf a none none none
  yearly : a.freq = 0 → st.cur.year = a.dtstart.y + k * a.interval
  monthly : a.freq = 1 →
    st.cur.year * 12 + (st.cur.month - 1) = a.dtstart.y * 12 + (a.dtstart.m - 1) + k * a.interval

/-- the model's results of period `k` (YEARLY / MONTHLY) -/
theorem ym_results (ya : YMArgs a) (h : construct a = .ok r) (k : Nat) (st : State) (hg : YMGood a r k st) :
    (∃ fl, periodResults r st = .ok (Spec.RRule.sel a (k : Int), none, fl)) ∧
    ∀ x ∈ Spec.RRule.sel a (k : Int), 0 ≤ x.ord ∧ x.ord ≤ maxOrdinal := by
  have hs := ym_simple ya h
  obtain ⟨bh, bm, bs, hr⟩ := ym_rule ya h
  have hfreq : r.freq = a.freq := by rw [hr]
  have hsp := construct_bysetpos a r h
  have htsok : TsOk st.timeset := by
    have := construct_timeset_ok a r h (by rcases ya.freq with h | h <;> omega)
    rw [hr] at this; rw [hg.timeset]; exact this
  have hyo := hg.facts.yearordinal
  have hyl := hg.facts.yearlen
  have hy1 := hg.facts.year_lo
  have hy2 := hg.facts.year_hi
  have hpos : 1 ≤ toOrdinal st.cur.year 1 1 :=
    toOrdinal_pos _ _ _ hy1 ⟨by omega, by omega, by omega, by have := daysInMonth_bounds st.cur.year 1; omega⟩
  have hend := year_end_le st.cur.year hy2
  have hbridge : ∀ (lo hi : Int), 1 ≤ lo →
      (intRange lo hi).filter (simpleOk r) = (intRange lo hi).filter (Spec.RRule.dateOk a) := by
    intro lo hi hlo
    apply List.filter_congr
    intro o ho
    exact simpleOk_eq_dateOk_ym ya h o (by have := (mem_intRange _ _ _).mp ho; omega)
  rcases ya.freq with f0 | f1
  · -- YEARLY
    have hd : dayset r st.info st.cur = .ok (intRange 0 st.info.yearlen) := dayset_yearly st.cur (by rw [hfreq, f0])
    obtain ⟨fl, hres⟩ := periodResults_range_sp hs st hg.facts hg.nwd (by rw [hsp.1]; exact hsp.2) htsok
      0 st.info.yearlen hd (by omega) (by omega)
      (by rw [hyo]; omega) (by rw [hyo, hyl]; exact hend)
    have hspan : Spec.RRule.periodSpan a (k * a.interval) =
        (st.info.yearordinal + 0, st.info.yearordinal + st.info.yearlen, none, none, none) := by
      unfold Spec.RRule.periodSpan
      rw [if_pos (by simp [f0])]
      dsimp only
      rw [← hg.yearly f0, hyo, hyl, toOrdinal_next_year]; simp
    refine ⟨⟨fl, ?_⟩, ?_⟩
    · rw [hres, hg.timeset, sel_span_sp a k _ _ hspan, hbridge _ _ (by rw [hyo]; omega), hsp.1]
    · intro x hx
      rw [sel_span_sp a k _ _ hspan] at hx
      have := sel_bounds _ _ _ _ x (applySetpos_subset _ _ x hx)
      rw [hyo, hyl] at this; omega
  · -- MONTHLY
    have hm := hg.month
    have hb := daysInMonth_bounds st.cur.year st.cur.month
    have hd := dayset_monthly st.cur (by rw [hfreq, f1]) hg.facts hm.1 hm.2
    have hdbm0 := daysBeforeMonth_mono st.cur.year 1 st.cur.month (by omega) hm.1 (by omega)
    rw [daysBeforeMonth_1] at hdbm0
    have hdbm1 := daysBeforeMonth_mono st.cur.year (st.cur.month + 1) 13 (by omega) (by omega) (by omega)
    rw [daysBeforeMonth_13, daysBeforeMonth_succ _ _ hm.1 hm.2] at hdbm1
    obtain ⟨fl, hres⟩ := periodResults_range_sp hs st hg.facts hg.nwd (by rw [hsp.1]; exact hsp.2) htsok
      _ _ hd hdbm0 (by rw [hyl]; omega)
      (by rw [hyo]; omega) (by rw [hyo]; omega)
    have hspan : Spec.RRule.periodSpan a (k * a.interval) =
        (st.info.yearordinal + daysBeforeMonth st.cur.year st.cur.month,
         st.info.yearordinal + (daysBeforeMonth st.cur.year st.cur.month + daysInMonth st.cur.year st.cur.month),
         none, none, none) := by
      unfold Spec.RRule.periodSpan
      rw [if_neg (by simp [f1]), if_pos (by simp [f1])]
      dsimp only
      have hidx := hg.monthly f1
      have e1 : (a.dtstart.y * 12 + (a.dtstart.m - 1) + k * a.interval) / 12 = st.cur.year := by omega
      have e2 : (a.dtstart.y * 12 + (a.dtstart.m - 1) + k * a.interval) % 12 + 1 = st.cur.month := by omega
      rw [e1, e2, hyo, month_start]
      simp only [Prod.mk.injEq, and_true, true_and]
      omega
    refine ⟨⟨fl, ?_⟩, ?_⟩
    · rw [hres, hg.timeset, sel_span_sp a k _ _ hspan, hbridge _ _ (by rw [hyo]; omega), hsp.1]
    · intro x hx
      rw [sel_span_sp a k _ _ hspan] at hx
      have := sel_bounds _ _ _ _ x (applySetpos_subset _ _ x hx)
      rw [hyo] at this; omega

/-- `advance` reaches period `k+1` (YEARLY / MONTHLY) while the year stays ≤ 9999 -/
theorem ym_next (ya : YMArgs a) (h : construct a = .ok r) (k : Nat) (st : State) (fl : Bool)
    (c : Option Int) (hg : YMGood a r k st)
    (hy : a.freq = 0 → a.dtstart.y + (k + 1 : Nat) * a.interval ≤ 9999)
    (hm : a.freq = 1 → (a.dtstart.y * 12 + (a.dtstart.m - 1) + (k + 1 : Nat) * a.interval) / 12 ≤ 9999) :
    ∃ st', advance r { st with count := c } fl = .ok st' ∧ YMGood a r (k + 1) st' := by
  have hs := ym_simple ya h
  obtain ⟨bh, bm, bs, hr⟩ := ym_rule ya h
  have hfreq : r.freq = a.freq := by rw [hr]
  have hint : r.interval = a.interval := by rw [hr]
  have hi := ya.interval
  have hy1 := hg.facts.year_lo
  have hmth := hg.month
  have ek : ((k + 1 : Nat) : Int) * a.interval = k * a.interval + a.interval := by
    push_cast; rw [Int.add_mul]; omega
  rcases ya.freq with f0 | f1
  · -- YEARLY
    have hyr := hg.yearly f0
    have hle : st.cur.year + r.interval ≤ 9999 := by have := hy f0; rw [hint]; omega
    obtain ⟨info, hre, hnone, _, _⟩ := rebuild_simple r hs (st.cur.year + r.interval) st.cur.month
      (by omega) hle
    have hadv : advance r { st with count := c } fl =
        .ok { cur := { st.cur with year := st.cur.year + r.interval }, info := info,
              timeset := st.timeset, count := c } := by
      unfold advance
      dsimp only
      rw [if_pos (by simp [hfreq, f0]), if_neg (by omega), hre]
    refine ⟨_, hadv, ⟨rebuild_facts r _ _ info hre, hnone, hmth, hg.timeset, ?_, ?_⟩⟩
    · intro _; dsimp only; rw [hyr, hint]; omega
    · intro f1; omega
  · -- MONTHLY
    have hidx := hg.monthly f1
    have hbound := hm f1
    -- existence by the same case split as the code
    have hex : ∃ st', advance r { st with count := c } fl = .ok st' ∧ st'.info.nwdaymask = none := by
      unfold advance
      dsimp only
      rw [if_neg (by simp [hfreq, f1]), if_pos (by simp [hfreq, f1])]
      split
      · rename_i hgt
        simp only [Py.divmod, Py.fdiv_pos _ (by omega : (0:Int) < 12), Py.fmod_pos _ (by omega : (0:Int) < 12)]
        by_cases c0 : (st.cur.month + r.interval) % 12 = 0
        · have c' : ((st.cur.month + r.interval) % 12 == 0) = true := by simp [c0]
          simp only [c', ↓reduceIte]
          have hle : st.cur.year + (st.cur.month + r.interval) / 12 - 1 ≤ 9999 := by rw [hint]; omega
          rw [if_neg (by omega)]
          obtain ⟨info, hre, hnone, _, _⟩ := rebuild_simple r hs
            (st.cur.year + (st.cur.month + r.interval) / 12 - 1) 12 (by rw [hint]; omega) hle
          rw [hre]; exact ⟨_, rfl, hnone⟩
        · have c' : ((st.cur.month + r.interval) % 12 == 0) = false := by simp [c0]
          simp only [c', Bool.false_eq_true, ↓reduceIte]
          have hle : st.cur.year + (st.cur.month + r.interval) / 12 ≤ 9999 := by rw [hint]; omega
          rw [if_neg (by omega)]
          obtain ⟨info, hre, hnone, _, _⟩ := rebuild_simple r hs
            (st.cur.year + (st.cur.month + r.interval) / 12) ((st.cur.month + r.interval) % 12)
            (by rw [hint]; omega) hle
          rw [hre]; exact ⟨_, rfl, hnone⟩
      · obtain ⟨info, hre, hnone, _, _⟩ := rebuild_simple r hs st.cur.year (st.cur.month + r.interval)
          hy1 hg.facts.year_hi
        rw [hre]; exact ⟨_, rfl, hnone⟩
    obtain ⟨st', hadv, hnw⟩ := hex
    have sp := advance_monthly r { st with count := c } st' fl (by rw [hfreq, f1]) (by omega) hmth.1 hmth.2 hadv
    obtain ⟨e, m1, m12, _, f', ts⟩ := sp
    have e : st'.cur.year * 12 + (st'.cur.month - 1) = st.cur.year * 12 + (st.cur.month - 1) + r.interval := e
    refine ⟨st', hadv, ⟨f', hnw, ⟨m1, m12⟩, by rw [ts]; exact hg.timeset, by intro f0; omega, ?_⟩⟩
    intro _; rw [e, hidx, hint]; omega

/-- the initial state is the state of period 0 -/
theorem ym_init (ya : YMArgs a) (h : construct a = .ok r) :
    ∃ st0, init r = .ok st0 ∧ YMGood a r 0 st0 ∧ st0.count = r.count := by
  have hs := ym_simple ya h
  have hv := ya.valid
  unfold DT.Valid ValidDate at hv
  obtain ⟨info, hre, hnw, _, _⟩ := rebuild_simple r hs a.dtstart.y a.dtstart.m hv.1.1 hv.1.2.1
  obtain ⟨bh, bm, bs, hr⟩ := ym_rule ya h
  have hd : r.dtstart = { a.dtstart with us := 0 } := by rw [hr]
  have hf : r.freq < 4 := by rw [hr]; dsimp only; rcases ya.freq with h | h <;> omega
  have hts : r.timeset = some (Spec.RRule.timesOf a none none none) := by rw [hr]
  refine ⟨{ cur := { year := a.dtstart.y, month := a.dtstart.m, day := a.dtstart.d, hour := a.dtstart.hh,
                     minute := a.dtstart.mm, second := a.dtstart.ss, weekday := r.dtstart.weekday },
            info := info, timeset := Spec.RRule.timesOf a none none none, count := r.count }, ?_, ?_, rfl⟩
  · unfold init
    simp only [hd, bind, Except.bind, hre, hts, pure, Except.pure]
    rw [if_pos hf]
    rfl
  · exact ⟨rebuild_facts r _ _ info hre, hnw, ⟨hv.1.2.2.1, hv.1.2.2.2.1⟩, rfl,
           by intro _; dsimp only; omega, by intro _; dsimp only; omega⟩

/-- **`iter_eq_spec`, YEARLY / MONTHLY portion.**  For every argument set with FREQ=YEARLY or MONTHLY,
    INTERVAL ≥ 1, a valid start, any BYMONTH / BYMONTHDAY (non-zero members) / BYYEARDAY / plain BYDAY
    — or none of them, in which case the month / month day are taken from the start —, any COUNT /
    UNTIL, and no BYWEEKNO / nth BYDAY / BYEASTER / BYSETPOS / BYHOUR / BYMINUTE / BYSECOND: the values
    yielded during the first `n` periods are exactly the specification's recurrence set of those
    periods, for every `n` whose periods end by year 9999. -/
theorem iter_eq_spec_ym (ya : YMArgs a) (h : construct a = .ok r) (n : Nat)
    (hy : a.freq = 0 → a.dtstart.y + n * a.interval ≤ 9999)
    (hm : a.freq = 1 → (a.dtstart.y * 12 + (a.dtstart.m - 1) + n * a.interval) / 12 ≤ 9999) :
    (iter r n).1 = Spec.RRule.occ a n := by
  have hi := ya.interval
  have hmono : ∀ k : Nat, k ≤ n → (k : Int) * a.interval ≤ n * a.interval := by
    intro k hk; exact Int.mul_le_mul_of_nonneg_right (by omega) (by omega)
  have sim : Simulation a r n (YMGood a r) := {
    agree := ym_cuts ya h
    results := fun k st _ hg => by
      obtain ⟨⟨fl, hres⟩, hb⟩ := ym_results ya h k st hg
      exact ⟨fl, [], _, hres, rfl, by simp, hb⟩
    next := fun k st fl c hk hg => ym_next ya h k st fl c hg
      (fun f0 => by have := hy f0; have := hmono (k + 1) (by omega); omega)
      (fun f1 => by
        have := hm f1; have := hmono (k + 1) (by omega)
        have : (a.dtstart.y * 12 + (a.dtstart.m - 1) + ((k + 1 : Nat) : Int) * a.interval) / 12 ≤
            (a.dtstart.y * 12 + (a.dtstart.m - 1) + n * a.interval) / 12 :=
          Int.ediv_le_ediv (by omega) (by omega)
        omega)
    }
  obtain ⟨st0, hinit, hg0, hc0⟩ := ym_init ya h
  exact iter_refines sim st0 hinit hg0 hc0 n (by omega)

end RRule
