/-
  Proofs/RRuleStrRound.lean — `str(rule)` parses back to the arguments it was printed from (C13):
  part by part, then the `RRULE:` line.
-/
import DateutilVerif.Proofs.RRuleStrByDay

namespace RRuleStr
open ICal (isSpace upper splitOnChar pyInt rstrip strip isDigit splitLines)

variable {po : ParseOpts}

/-! ### character classes of values and parts -/

def isValC (c : Char) : Bool := isAtom c || c == ','
def isPartC (c : Char) : Bool := isValC c || c == '='

theorem isPartC_iff (c : Char) : isPartC c = true ↔
    (48 ≤ c.toNat ∧ c.toNat ≤ 57) ∨ (65 ≤ c.toNat ∧ c.toNat ≤ 90) ∨ c.toNat = 43 ∨ c.toNat = 45 ∨ c.toNat = 44 ∨ c.toNat = 61 := by
  simp [isPartC, isValC, isAtom, isDigit, char_le_iff, char_eq_iff]; omega

theorem isValC_isPartC (c : Char) (h : isValC c = true) : isPartC c = true := by simp [isPartC, h]
theorem isAtom_isValC (c : Char) (h : isAtom c = true) : isValC c = true := by simp [isValC, h]

theorem isValC_ne_eq (c : Char) (h : isValC c = true) : c ≠ '=' := by
  rintro rfl; revert h; decide
theorem isAtom_ne_eq (c : Char) (h : isAtom c = true) : c ≠ '=' := isValC_ne_eq c (isAtom_isValC c h)
theorem isAtom_ne_comma (c : Char) (h : isAtom c = true) : c ≠ ',' := by
  rintro rfl; revert h; decide

theorem isPartC_not_lower (c : Char) (h : isPartC c = true) : isLower c = false := by
  rw [Bool.eq_false_iff, Ne, isLower_iff]; rw [isPartC_iff] at h; omega
theorem isPartC_not_space (c : Char) (h : isPartC c = true) : isSpace c = false := by
  rw [Bool.eq_false_iff, Ne, isSpace_iff]; rw [isPartC_iff] at h; omega
theorem isPartC_ne_semi (c : Char) (h : isPartC c = true) : c ≠ ';' := by
  rintro rfl; revert h; decide
theorem isPartC_ne_colon (c : Char) (h : isPartC c = true) : c ≠ ':' := by
  rintro rfl; revert h; decide

/-- every character of the part is a part character -/
def GoodPart (p : List Char) : Prop := ∀ c ∈ p, isPartC c = true

theorem goodPart_mk {name value : List Char} (hname : ∀ c ∈ name, isAtom c = true) (hval : ∀ c ∈ value, isValC c = true) :
    GoodPart (name ++ '=' :: value) := by
  intro c hc
  rcases List.mem_append.mp hc with h | h
  · exact isValC_isPartC c (isAtom_isValC c (hname c h))
  · rcases List.mem_cons.mp h with rfl | h
    · decide
    · exact isValC_isPartC c (hval c h)

/-- one well-formed part: `NAME=VALUE` splits at its only `=`, upper-casing changes nothing, the handler runs -/
theorem stepPair_part (a : RArgs) {name value : List Char} {u : Update}
    (hname : ∀ c ∈ name, isAtom c = true) (hval : ∀ c ∈ value, isValC c = true)
    (h : handleU po name value = .ok u) : stepPair po a (name ++ '=' :: value) = .ok (u.apply a) := by
  have hs : splitOnChar '=' (name ++ '=' :: value) = [name, value] :=
    splitOnChar_two '=' name value (fun hc => isAtom_ne_eq _ (hname _ hc) rfl) (fun hc => isValC_ne_eq _ (hval _ hc) rfl)
  have hun : upper name = name := upper_of_noLower name (fun c hc => isAtom_not_lower c (hname c hc))
  have huv : upper value = value :=
    upper_of_noLower value (fun c hc => isPartC_not_lower c (isValC_isPartC c (hval c hc)))
  unfold stepPair
  rw [hs]
  simp only [hun, huv, handle, h]

/-! ### pieces of the parts list -/

/-- a stretch of the parts list: running the loop over it applies `f`, and all its parts are well-formed -/
def PieceOK (po : ParseOpts) (piece : List (List Char)) (f : RArgs → RArgs) : Prop :=
  (∀ a, piece.foldlM (stepPair po) a = .ok (f a)) ∧ (∀ p ∈ piece, GoodPart p)

theorem PieceOK.nil : PieceOK po [] id := ⟨fun _ => rfl, fun _ h => by simp at h⟩

theorem PieceOK.append {p q : List (List Char)} {f g : RArgs → RArgs} (hp : PieceOK po p f) (hq : PieceOK po q g) :
    PieceOK po (p ++ q) (fun a => g (f a)) := by
  refine ⟨fun a => ?_, fun r hr => ?_⟩
  · rw [List.foldlM_append, hp.1 a]; exact hq.1 (f a)
  · rcases List.mem_append.mp hr with h | h
    · exact hp.2 r h
    · exact hq.2 r h

theorem PieceOK.single {name value : List Char} {u : Update}
    (hname : ∀ c ∈ name, isAtom c = true) (hval : ∀ c ∈ value, isValC c = true)
    (h : handleU po name value = .ok u) : PieceOK po [name ++ '=' :: value] u.apply := by
  refine ⟨fun a => ?_, fun r hr => ?_⟩
  · rw [List.foldlM_cons, stepPair_part a hname hval h]; rfl
  · simp at hr; subst hr; exact goodPart_mk hname hval

theorem PieceOK.congr {p : List (List Char)} {f g : RArgs → RArgs} (hp : PieceOK po p f) (h : ∀ a, f a = g a) : PieceOK po p g := by
  have : f = g := funext h
  rw [← this]; exact hp

/-! ### the values `__str__` prints -/

theorem pad_digits (w n : Nat) : ∀ c ∈ pad w n, isDigit c = true := by
  intro c hc
  simp only [pad, List.mem_append, List.mem_replicate] at hc
  rcases hc with ⟨_, rfl⟩ | hc
  · decide
  · exact showNat_digits n c hc

theorem showDT_atoms (t : Nat × Nat × Nat × Nat × Nat × Nat) : ∀ c ∈ showDT t, isAtom c = true := by
  obtain ⟨y, m, d, hh, mm, ss⟩ := t
  intro c hc
  simp only [showDT, List.mem_append, List.mem_singleton] at hc
  rcases hc with ((((((h | h) | h) | rfl) | h) | h) | h)
  all_goals first
    | exact isDigit_isAtom c (pad_digits _ _ c h)
    | decide

theorem wdName_atoms (k : Int) (h0 : 0 ≤ k) (h6 : k ≤ 6) : ∀ c ∈ wdName k, isAtom c = true :=
  (isWD_facts (isWD_wdName k h0 h6)).2.2.2.1

theorem intercalate_valC (items : List (List Char)) (h : ∀ i ∈ items, ∀ c ∈ i, isAtom c = true) :
    ∀ c ∈ intercalate [','] items, isValC c = true := by
  intro c hc
  rcases mem_intercalate [','] items c hc with h' | ⟨i, hi, hci⟩
  · simp at h'; subst h'; decide
  · exact isAtom_isValC c (h i hi c hci)

theorem showInts_valC (l : List Int) : ∀ c ∈ intercalate [','] (l.map showInt), isValC c = true :=
  intercalate_valC _ (by
    intro i hi c hc
    rcases List.mem_map.mp hi with ⟨j, _, rfl⟩
    exact showInt_isAtom j c hc)

/-! ### each piece -/

theorem handleU_freq (f : Nat) (hf : f < 7) : handleU po (lit "FREQ") (FREQNAMES.getD f []) = .ok (.freq f) := by
  have : f = 0 ∨ f = 1 ∨ f = 2 ∨ f = 3 ∨ f = 4 ∨ f = 5 ∨ f = 6 := by omega
  rcases this with rfl | rfl | rfl | rfl | rfl | rfl | rfl <;> rfl

theorem freqName_atoms (f : Nat) : ∀ c ∈ FREQNAMES.getD f [], isAtom c = true := by
  have : f = 0 ∨ f = 1 ∨ f = 2 ∨ f = 3 ∨ f = 4 ∨ f = 5 ∨ f = 6 ∨ 7 ≤ f := by omega
  rcases this with rfl | rfl | rfl | rfl | rfl | rfl | rfl | h
  all_goals try decide
  have : FREQNAMES.getD f [] = [] := by
    rw [List.getD_eq_getElem?_getD, List.getElem?_eq_none (by simpa [FREQNAMES] using h)]; rfl
  rw [this]; intro c hc; simp at hc

theorem pieceOK_freq (f : Nat) (hf : f < 7) :
    PieceOK po [lit "FREQ=" ++ FREQNAMES.getD f []] (fun a => { a with freq := some (f : Int) }) :=
  (PieceOK.single (name := lit "FREQ") (by decide) (fun c hc => isAtom_isValC c (freqName_atoms f c hc)) (handleU_freq f hf)).congr
    (fun _ => rfl)

theorem handleU_interval (i : Int) : handleU po (lit "INTERVAL") (showInt i) = .ok (.interval i) := by
  simp [handleU, lit, int!, pyInt_showInt, bind, Except.bind]

theorem handleU_count (i : Int) : handleU po (lit "COUNT") (showInt i) = .ok (.count i) := by
  simp [handleU, lit, int!, pyInt_showInt, bind, Except.bind]

theorem pieceOK_interval (i : Int) :
    PieceOK po (if i != 1 then [lit "INTERVAL=" ++ showInt i] else [])
      (fun a => { a with interval := if i != 1 then some i else a.interval }) := by
  split
  · exact (PieceOK.single (name := lit "INTERVAL") (by decide) (fun c hc => isAtom_isValC c (showInt_isAtom i c hc))
      (handleU_interval i)).congr (fun _ => rfl)
  · exact PieceOK.nil.congr (fun _ => rfl)

theorem handleU_wkst (k : Int) (h0 : 0 ≤ k) (h6 : k ≤ 6) : handleU po (lit "WKST") (wdName k) = .ok (.wkst k) := by
  have : k = 0 ∨ k = 1 ∨ k = 2 ∨ k = 3 ∨ k = 4 ∨ k = 5 ∨ k = 6 := by omega
  rcases this with rfl | rfl | rfl | rfl | rfl | rfl | rfl <;> rfl

theorem pieceOK_wkst (k : Int) (h0 : 0 ≤ k) (h6 : k ≤ 6) (b : Bool) :
    PieceOK po (if b then [lit "WKST=" ++ wdName k] else [])
      (fun a => { a with wkst := if b then some k else a.wkst }) := by
  split
  · exact (PieceOK.single (name := lit "WKST") (by decide) (fun c hc => isAtom_isValC c (wdName_atoms k h0 h6 c hc))
      (handleU_wkst k h0 h6)).congr (fun _ => rfl)
  · exact PieceOK.nil.congr (fun _ => rfl)

theorem pieceOK_count (v : Option Int) :
    PieceOK po (match v with | some c => [lit "COUNT=" ++ showInt c] | none => [])
      (fun a => { a with count := v.or a.count }) := by
  cases v with
  | none => exact PieceOK.nil.congr (fun _ => rfl)
  | some c =>
    exact (PieceOK.single (name := lit "COUNT") (by decide) (fun d hd => isAtom_isValC d (showInt_isAtom c d hd))
      (handleU_count c)).congr (fun _ => rfl)

theorem pieceOK_until (v : Option (Nat × Nat × Nat × Nat × Nat × Nat)) :
    PieceOK po (match v with | some t => [lit "UNTIL=" ++ showDT t] | none => [])
      (fun a => { a with untilV := (v.map (fun t => (showDT t, po))).or a.untilV }) := by
  cases v with
  | none => exact PieceOK.nil.congr (fun _ => rfl)
  | some t =>
    exact (PieceOK.single (name := lit "UNTIL") (u := .untilV (showDT t) po) (by decide)
      (fun d hd => isAtom_isValC d (showDT_atoms t d hd)) (by simp [handleU, lit])).congr (fun _ => rfl)

/-- an empty recorded list is printed as nothing, so it comes back as "absent": what the round trip does to a BY-list -/
def normL {α : Type} (v : Option (List α)) : Option (List α) :=
  match v with
  | some [] => none
  | v => v

/-- an integer-list part: printed only when non-empty, parsed back to the same list; an EMPTY recorded list (`()` passed to
    `rrule()`) is not printed and therefore comes back as absent -/
theorem pieceOK_partOf (name : String) (mk : List Int → Update) (hname : ∀ c ∈ lit name, isAtom c = true)
    (hh : ∀ value l, intList value = .ok l → handleU po (lit name) value = .ok (mk l))
    (v : Option (List Int)) :
    PieceOK po (partOf name v) (fun a => match normL v with | some l => (mk l).apply a | none => a) := by
  cases v with
  | none => exact PieceOK.nil.congr (fun _ => rfl)
  | some l =>
    cases l with
    | nil => exact PieceOK.nil.congr (fun _ => rfl)
    | cons i l =>
      have hne : i :: l ≠ [] := by simp
      simp only [partOf, List.isEmpty_cons, Bool.false_eq_true, if_false, List.append_assoc, List.singleton_append]
      exact PieceOK.single hname (showInts_valC (i :: l)) (hh _ (i :: l) (intList_showInts (i :: l) hne))

theorem pieceOK_bysetpos (v : Option (List Int)) :
    PieceOK po (partOf "BYSETPOS" v) (fun a => { a with bysetpos := (normL v).or a.bysetpos }) :=
  (pieceOK_partOf "BYSETPOS" .bysetpos (by decide) (by intro value l h; simp [handleU, lit, h, bind, Except.bind]) v).congr
    (by intro a; rcases v with _ | _ | _ <;> rfl)

theorem pieceOK_bymonth (v : Option (List Int)) :
    PieceOK po (partOf "BYMONTH" v) (fun a => { a with bymonth := (normL v).or a.bymonth }) :=
  (pieceOK_partOf "BYMONTH" .bymonth (by decide) (by intro value l h; simp [handleU, lit, h, bind, Except.bind]) v).congr
    (by intro a; rcases v with _ | _ | _ <;> rfl)

theorem pieceOK_bymonthday (v : Option (List Int)) :
    PieceOK po (partOf "BYMONTHDAY" v) (fun a => { a with bymonthday := (normL v).or a.bymonthday }) :=
  (pieceOK_partOf "BYMONTHDAY" .bymonthday (by decide) (by intro value l h; simp [handleU, lit, h, bind, Except.bind]) v).congr
    (by intro a; rcases v with _ | _ | _ <;> rfl)

theorem pieceOK_byyearday (v : Option (List Int)) :
    PieceOK po (partOf "BYYEARDAY" v) (fun a => { a with byyearday := (normL v).or a.byyearday }) :=
  (pieceOK_partOf "BYYEARDAY" .byyearday (by decide) (by intro value l h; simp [handleU, lit, h, bind, Except.bind]) v).congr
    (by intro a; rcases v with _ | _ | _ <;> rfl)

theorem pieceOK_byweekno (v : Option (List Int)) :
    PieceOK po (partOf "BYWEEKNO" v) (fun a => { a with byweekno := (normL v).or a.byweekno }) :=
  (pieceOK_partOf "BYWEEKNO" .byweekno (by decide) (by intro value l h; simp [handleU, lit, h, bind, Except.bind]) v).congr
    (by intro a; rcases v with _ | _ | _ <;> rfl)

theorem pieceOK_byhour (v : Option (List Int)) :
    PieceOK po (partOf "BYHOUR" v) (fun a => { a with byhour := (normL v).or a.byhour }) :=
  (pieceOK_partOf "BYHOUR" .byhour (by decide) (by intro value l h; simp [handleU, lit, h, bind, Except.bind]) v).congr
    (by intro a; rcases v with _ | _ | _ <;> rfl)

theorem pieceOK_byminute (v : Option (List Int)) :
    PieceOK po (partOf "BYMINUTE" v) (fun a => { a with byminute := (normL v).or a.byminute }) :=
  (pieceOK_partOf "BYMINUTE" .byminute (by decide) (by intro value l h; simp [handleU, lit, h, bind, Except.bind]) v).congr
    (by intro a; rcases v with _ | _ | _ <;> rfl)

theorem pieceOK_bysecond (v : Option (List Int)) :
    PieceOK po (partOf "BYSECOND" v) (fun a => { a with bysecond := (normL v).or a.bysecond }) :=
  (pieceOK_partOf "BYSECOND" .bysecond (by decide) (by intro value l h; simp [handleU, lit, h, bind, Except.bind]) v).congr
    (by intro a; rcases v with _ | _ | _ <;> rfl)

theorem pieceOK_byeaster (v : Option (List Int)) :
    PieceOK po (partOf "BYEASTER" v) (fun a => { a with byeaster := (normL v).or a.byeaster }) :=
  (pieceOK_partOf "BYEASTER" .byeaster (by decide) (by intro value l h; simp [handleU, lit, h, bind, Except.bind]) v).congr
    (by intro a; rcases v with _ | _ | _ <;> rfl)

/-! BYDAY -/

/-- a weekday as `__init__` records it: number 0..6, `n` absent or non-zero -/
def NormalWDay (w : WDay) : Prop := 0 ≤ w.1 ∧ w.1 ≤ 6 ∧ w.2 ≠ some 0

instance : DecidablePred NormalWDay := fun w => by unfold NormalWDay; infer_instance

theorem parseWDay_showWDayStr (w : WDay) (hw : NormalWDay w) : parseWDay (showWDayStr w) = .ok w := by
  obtain ⟨k, n⟩ := w
  obtain ⟨h0, h6, hn⟩ := hw
  cases n with
  | none => exact parseWDay_bare (isWD_wdName k h0 h6)
  | some n =>
    have hn0 : n ≠ 0 := fun h => hn (by rw [h])
    have : showWDayStr (k, some n) = showIntSigned n ++ wdName k := by simp [showWDayStr, hn0]
    rw [this]
    exact parseWDay_prefix (isWD_wdName k h0 h6) (showIntSigned_ne_nil n) (showIntSigned_signDigit n)
      (pyInt_showIntSigned n) hn0

theorem showWDayStr_atoms (w : WDay) (hw : NormalWDay w) : ∀ c ∈ showWDayStr w, isAtom c = true := by
  obtain ⟨k, n⟩ := w
  obtain ⟨h0, h6, _⟩ := hw
  intro c hc
  unfold showWDayStr at hc
  split at hc
  · split at hc
    · rcases List.mem_append.mp hc with h | h
      · exact showIntSigned_isAtom _ c h
      · exact wdName_atoms k h0 h6 c h
    · exact wdName_atoms k h0 h6 c hc
  · exact wdName_atoms k h0 h6 c hc

theorem mapM_parseWDay_show : ∀ (l : List WDay), (∀ w ∈ l, NormalWDay w) → (l.map showWDayStr).mapM parseWDay = .ok l
  | [], _ => rfl
  | w :: l, h => by
    rw [List.map_cons, List.mapM_cons, parseWDay_showWDayStr w (h w (by simp)),
      mapM_parseWDay_show l (fun v hv => h v (by simp [hv]))]
    rfl

theorem handleU_byday (l : List WDay) (hne : l ≠ []) (h : ∀ w ∈ l, NormalWDay w) :
    handleU po (lit "BYDAY") (intercalate [','] (l.map showWDayStr)) = .ok (.byweekday l) := by
  have hs : splitOnChar ',' (intercalate [','] (l.map showWDayStr)) = l.map showWDayStr :=
    splitOnChar_intercalate ',' _ (by simpa using hne) (by
      intro q hq hc
      rcases List.mem_map.mp hq with ⟨w, hw, rfl⟩
      exact isAtom_ne_comma _ (showWDayStr_atoms w (h w hw) _ hc) rfl)
  simp [handleU, lit, hs, mapM_parseWDay_show l h, bind, Except.bind]

theorem pieceOK_byday (v : Option (List WDay)) (hv : ∀ l, v = some l → ∀ w ∈ l, NormalWDay w) :
    PieceOK po (byDayPart v) (fun a => { a with byweekday := (normL v).or a.byweekday }) := by
  rcases v with _ | _ | ⟨w0, l0⟩
  · exact PieceOK.nil.congr (fun _ => rfl)
  · exact PieceOK.nil.congr (fun _ => rfl)
  · generalize hl : w0 :: l0 = l at hv ⊢
    have hne : l ≠ [] := by rw [← hl]; simp
    have hn := hv l rfl
    have hemp : l.isEmpty = false := by cases l with | nil => exact absurd rfl hne | cons => rfl
    have hnorm : normL (some l) = some l := by rw [← hl]; rfl
    simp only [byDayPart, hemp, Bool.false_eq_true, if_false]
    exact (PieceOK.single (name := lit "BYDAY") (by decide)
      (intercalate_valC _ (by
        intro i hi c hc
        rcases List.mem_map.mp hi with ⟨w, hw, rfl⟩
        exact showWDayStr_atoms w (hn w hw) c hc))
      (handleU_byday l hne hn)).congr (fun _ => by rw [hnorm]; rfl)

/-! ### the whole parts list -/

/-- printable form: `_freq` is one of the seven frequencies, `_wkst` a weekday number, and the recorded weekdays have
    numbers 0..6 with `n` absent or non-zero (`rrule.weekday` rejects `n = 0`).  The BY-lists of `_original_rule` are
    arbitrary — in particular they may be EMPTY: `rrule(…, bymonthday=())` records `()`, which `__str__` prints as nothing
    (see `normL` and the known finding D-C13-empty-by-list: the reparsed rule then re-derives the defaults from the start) -/
structure Printable (x : StrIn) : Prop where
  freq : x.freq < 7
  wkst0 : 0 ≤ x.wkst
  wkst6 : x.wkst ≤ 6
  byweekday : ∀ l, x.orig.byweekday = some l → ∀ w ∈ l, NormalWDay w

/-- the keyword arguments `str(rule)` spells out: FREQ always, INTERVAL unless 1, WKST unless it is MO and the ambient first weekday is Monday too, COUNT, UNTIL (its
    compact text, with the options it will be parsed with), and exactly the NON-EMPTY recorded BY-parts (`normL`: an empty
    recorded list is not printed, hence absent here — this is where `argsOf x` differs from the arguments the rule was
    built from) -/
def argsOf (po : ParseOpts) (x : StrIn) : RArgs :=
  { freq := some (x.freq : Int),
    interval := if x.interval != 1 then some x.interval else none,
    wkst := if x.wkst != 0 || x.fwd != 0 then some x.wkst else none,
    count := x.count,
    untilV := x.untilV.map (fun t => (showDT t, po)),
    bysetpos := normL x.orig.bysetpos, bymonth := normL x.orig.bymonth, bymonthday := normL x.orig.bymonthday,
    byyearday := normL x.orig.byyearday, byeaster := normL x.orig.byeaster, byweekno := normL x.orig.byweekno,
    byweekday := normL x.orig.byweekday, byhour := normL x.orig.byhour, byminute := normL x.orig.byminute,
    bysecond := normL x.orig.bysecond }

theorem partsOf_ok (x : StrIn) (hx : Printable x) :
    (partsOf x).foldlM (stepPair po) {} = .ok (argsOf po x) ∧ (∀ p ∈ partsOf x, GoodPart p) := by
  have h := ((((((((((((((pieceOK_freq (po := po) x.freq hx.freq).append (pieceOK_interval x.interval)).append
    (pieceOK_wkst x.wkst hx.wkst0 hx.wkst6 (x.wkst != 0 || x.fwd != 0))).append (pieceOK_count x.count)).append (pieceOK_until x.untilV)).append
    (pieceOK_bysetpos x.orig.bysetpos)).append (pieceOK_bymonth x.orig.bymonth)).append
    (pieceOK_bymonthday x.orig.bymonthday)).append (pieceOK_byyearday x.orig.byyearday)).append
    (pieceOK_byweekno x.orig.byweekno)).append (pieceOK_byday _ hx.byweekday)).append
    (pieceOK_byhour x.orig.byhour)).append (pieceOK_byminute x.orig.byminute)).append
    (pieceOK_bysecond x.orig.bysecond)).append (pieceOK_byeaster x.orig.byeaster)
  refine ⟨?_, h.2⟩
  have h1 : (partsOf x).foldlM (stepPair po) {} = _ := h.1 {}
  rw [h1]
  simp [argsOf]

theorem partsOf_ne_nil (x : StrIn) : partsOf x ≠ [] := by
  unfold partsOf; simp

/-- the text after `RRULE:` -/
def rruleBody (x : StrIn) : List Char := intercalate [';'] (partsOf x)

theorem rruleLineOf_eq (x : StrIn) : rruleLineOf x = lit "RRULE" ++ ':' :: rruleBody x := rfl

theorem rruleBody_chars (x : StrIn) (hx : Printable x) : ∀ c ∈ rruleBody x, isPartC c = true ∨ c = ';' := by
  intro c hc
  rcases mem_intercalate [';'] _ c hc with h | ⟨p, hp, hcp⟩
  · right; simpa using h
  · left; exact (partsOf_ok (po := {}) x hx).2 p hp c hcp

theorem rruleBody_no_colon (x : StrIn) (hx : Printable x) : ':' ∉ rruleBody x := by
  intro h
  rcases rruleBody_chars x hx _ h with h | h
  · exact isPartC_ne_colon _ h rfl
  · revert h; decide

theorem split_rruleBody (x : StrIn) (hx : Printable x) : splitOnChar ';' (rruleBody x) = partsOf x :=
  splitOnChar_intercalate ';' _ (partsOf_ne_nil x) (fun p hp hc => isPartC_ne_semi _ ((partsOf_ok (po := {}) x hx).2 p hp _ hc) rfl)

theorem parseRRuleLine_of_lineValue {line value : List Char} (h : lineValue line = .ok value) :
    parseRRuleLine po line = (splitOnChar ';' value).foldlM (stepPair po) {} := by
  unfold parseRRuleLine; rw [h]; rfl

theorem lineValue_noColon {line : List Char} (h : ':' ∉ line) : lineValue line = .ok line := by
  have hc : line.contains ':' = false := by rw [Bool.eq_false_iff, Ne, contains_iff]; exact h
  unfold lineValue; simp only [hc, Bool.false_eq_true, if_false]

theorem lineValue_rrule {body : List Char} (h : ':' ∉ body) : lineValue (lit "RRULE" ++ ':' :: body) = .ok body := by
  have hc : (lit "RRULE" ++ ':' :: body).contains ':' = true := by rw [contains_iff]; simp
  have hs : splitOnChar ':' (lit "RRULE" ++ ':' :: body) = [lit "RRULE", body] :=
    splitOnChar_two ':' _ _ (by decide) h
  unfold lineValue; simp only [hc, if_true, hs]; simp

/-- the value without the `RRULE:` prefix (as `_parse_rfc` hands it over for multi-line inputs) -/
theorem parseRRuleLine_body (x : StrIn) (hx : Printable x) : parseRRuleLine po (rruleBody x) = .ok (argsOf po x) := by
  rw [parseRRuleLine_of_lineValue (lineValue_noColon (rruleBody_no_colon x hx)), split_rruleBody x hx]
  exact (partsOf_ok x hx).1

/-- the `RRULE:` line of `str(rule)` parses back to the printed arguments -/
theorem parseRRuleLine_rruleLineOf (x : StrIn) (hx : Printable x) : parseRRuleLine po (rruleLineOf x) = .ok (argsOf po x) := by
  rw [rruleLineOf_eq, parseRRuleLine_of_lineValue (lineValue_rrule (rruleBody_no_colon x hx)), split_rruleBody x hx]
  exact (partsOf_ok x hx).1

end RRuleStr
