/- Proofs/IsoGenEq.lean — the functions TRANSLATED from isoparser.py (Generated/IsoKernels.lean, regenerated from
   /repo on every run) are extensionally equal to the hand model (Model/IsoParser.lean), for all inputs. -/
import DateutilVerif.Generated.IsoKernels
import DateutilVerif.Proofs.IsoSound
set_option linter.unusedSimpArgs false
namespace IsoGen
open Iso Py

theorem norm_nat (p n : Nat) : BytesPy.norm (p : Int) n = min p n := by
  unfold BytesPy.norm; rw [if_neg (by omega)]; simp

theorem slice_nat {α} (s : List α) (p k : Nat) :
    BytesPy.slice s (p : Int) ((p : Int) + (k : Int)) = (s.drop p).take k := by
  unfold BytesPy.slice
  rw [show ((p : Int) + (k : Int)) = ((p + k : Nat) : Int) by omega, norm_nat, norm_nat]
  by_cases h : p ≤ s.length
  · rw [Nat.min_eq_left h]
    apply List.take_eq_take_iff.mpr
    simp only [List.length_drop]; omega
  · have h1 : s.drop p = [] := List.drop_eq_nil_of_le (by omega)
    have h2 : s.drop (min p s.length) = [] := List.drop_eq_nil_of_le (by omega)
    rw [h1, h2]; simp

theorem sliceFrom_nat {α} (s : List α) (p : Nat) : BytesPy.sliceFrom s (p : Int) = s.drop p := by
  unfold BytesPy.sliceFrom; rw [norm_nat]
  by_cases h : p ≤ s.length
  · rw [Nat.min_eq_left h]
  · rw [List.drop_eq_nil_of_le (by omega), List.drop_eq_nil_of_le (by omega)]

theorem isdigit_eq (f : Bytes) : BytesPy.isdigit f = bytesIsDigit f := by
  unfold BytesPy.isdigit bytesIsDigit isDigit; rfl

theorem isDig_eq (b : Nat) : BytesPy.isDig b = isDigit b := rfl

theorem isSpace_digit (b : Nat) (h : isDigit b = true) : BytesPy.isSpace b = false := by
  rw [isDigit_iff] at h; simp [BytesPy.isSpace]; omega

theorem digitsUnderscoreOK_digits (f : Bytes) (hne : f ≠ []) (h : f.all isDigit = true) :
    BytesPy.digitsUnderscoreOK f = true := by
  induction f with
  | nil => exact absurd rfl hne
  | cons a t ih =>
    simp only [List.all_cons, Bool.and_eq_true] at h
    cases t with
    | nil => simp [BytesPy.digitsUnderscoreOK, isDig_eq, h.1]
    | cons b r =>
      simp only [BytesPy.digitsUnderscoreOK, isDig_eq, h.1, if_true]
      exact ih (by simp) h.2

theorem filter_digits (f : Bytes) (h : f.all isDigit = true) : f.filter BytesPy.isDig = f := by
  apply List.filter_eq_self.mpr
  intro a ha; exact (List.all_eq_true.mp h) a ha

theorem dropWhileEnd_digits (f : Bytes) (h : f.all isDigit = true) :
    BytesPy.dropWhileEnd BytesPy.isSpace f = f := by
  unfold BytesPy.dropWhileEnd
  cases hr : f.reverse with
  | nil => have : f = [] := by simpa using hr
           subst this; rfl
  | cons a t =>
    have ha : isDigit a = true := by
      apply (List.all_eq_true.mp h) a
      have : a ∈ f.reverse := by rw [hr]; simp
      simpa using this
    rw [List.dropWhile_cons_of_neg (by simp [isSpace_digit a ha]), ← hr, List.reverse_reverse]

theorem pyInt_digits (f : Bytes) (hne : f ≠ []) (h : f.all isDigit = true) :
    BytesPy.pyInt f = .ok ((digitsVal f : Nat) : Int) := by
  cases f with
  | nil => exact absurd rfl hne
  | cons a t =>
    have ha : isDigit a = true := by simp only [List.all_cons, Bool.and_eq_true] at h; exact h.1
    have hsp := isSpace_digit a ha
    have hd : BytesPy.dropWhileEnd BytesPy.isSpace ((a :: t).dropWhile BytesPy.isSpace) = a :: t := by
      rw [List.dropWhile_cons_of_neg (by simp [hsp])]; exact dropWhileEnd_digits _ h
    have h45 : a ≠ 45 := by rw [isDigit_iff] at ha; omega
    have h43 : a ≠ 43 := by rw [isDigit_iff] at ha; omega
    unfold BytesPy.pyInt
    simp only [hd]
    have hm : BytesPy.stripSign (a :: t) = (false, a :: t) := by
      unfold BytesPy.stripSign
      split
      · rename_i heq; injection heq with h1 _; exact absurd h1 h45
      · rename_i heq; injection heq with h1 _; exact absurd h1 h43
      · rfl
    rw [hm]
    simp only [List.head?_cons, Option.map_some, isDig_eq, ha, digitsUnderscoreOK_digits _ hne h, and_self,
      if_true, filter_digits _ h, Bool.false_eq_true, if_false]
    rfl

theorem parseDigits_eq (f : Bytes) (w : Nat) : Gen.parseDigits f (w : Int) = Iso.parseDigits f w := by
  unfold Gen.parseDigits Iso.parseDigits
  simp only [BytesPy.len, isdigit_eq]
  by_cases hl : f.length = w
  · cases hd : bytesIsDigit f
    · simp [hl]
    · have hne : f ≠ [] := by intro e; subst e; simp [bytesIsDigit] at hd
      have hall : f.all isDigit = true := by simp [bytesIsDigit] at hd; simpa using hd.2
      simp [hl, pyInt_digits f hne hall]
  · have : ¬ ((f.length : Int) = (w : Int)) := by omega
    simp [hl, this]


theorem slice_lit {α} (s : List α) (a b : Nat) (h : a ≤ b) :
    BytesPy.slice s (a : Int) (b : Int) = (s.drop a).take (b - a) := by
  have := slice_nat s a (b - a)
  rw [show ((a : Int) + ((b - a : Nat) : Int)) = (b : Int) by omega] at this
  exact this

@[simp] theorem slice_0_1 {α} (s : List α) : BytesPy.slice s 0 1 = s.take 1 := by
  simpa using slice_lit s 0 1 (by omega)
@[simp] theorem slice_0_4 {α} (s : List α) : BytesPy.slice s 0 4 = s.take 4 := by
  simpa using slice_lit s 0 4 (by omega)
@[simp] theorem slice_1_3 {α} (s : List α) : BytesPy.slice s 1 3 = (s.drop 1).take 2 := by
  simpa using slice_lit s 1 3 (by omega)
@[simp] theorem slice_3_4 {α} (s : List α) : BytesPy.slice s 3 4 = (s.drop 3).take 1 := by
  simpa using slice_lit s 3 4 (by omega)
@[simp] theorem slice_4_5 {α} (s : List α) : BytesPy.slice s 4 5 = (s.drop 4).take 1 := by
  simpa using slice_lit s 4 5 (by omega)
@[simp] theorem sliceFrom_3 {α} (s : List α) : BytesPy.sliceFrom s 3 = s.drop 3 := by
  simpa using sliceFrom_nat s 3
@[simp] theorem sliceFrom_4 {α} (s : List α) : BytesPy.sliceFrom s 4 = s.drop 4 := by
  simpa using sliceFrom_nat s 4

theorem parseDigits_eq2 (f : Bytes) : Gen.parseDigits f 2 = Iso.parseDigits f 2 := by
  simpa using parseDigits_eq f 2

theorem bind_ok_eta {α} (r : Py.R α) : Except.bind r (fun x => Except.ok x) = r := by
  cases r <;> rfl

theorem sliceFrom_ite {α} (s : List α) (c : Prop) [Decidable c] :
    BytesPy.sliceFrom s (if c then 4 else 3) = s.drop (if c then 4 else 3) := by
  split <;> simp

theorem parseTzstr_eq (s : Bytes) (z : Bool) : Gen.parseTzstr s z = Iso.parseTzstr s z := by
  have e3 : ((s.length : Int) = 3) = (s.length = 3) := by apply propext; omega
  have e5 : ((s.length : Int) = 5) = (s.length = 5) := by apply propext; omega
  have e6 : ((s.length : Int) = 6) = (s.length = 6) := by apply propext; omega
  unfold Gen.parseTzstr Iso.parseTzstr
  simp only [bind_ok_eta]
  simp only [sliceFrom_ite, slice_0_1, slice_1_3, slice_3_4, parseDigits_eq2, BytesPy.len, cZ, cz, cDash,
    cPlus, cColon, bind, Except.bind, e3, e5, e6]
  rfl


theorem tryExcept_overflow (o : Int) :
    BytesPy.tryExcept (BytesPy.dateAdd o 0 |>.bind fun _ => BytesPy.dateAdd o 0) .OverflowError (.error .ValueError)
      = BytesPy.tryExcept (BytesPy.dateAdd o 0) .OverflowError (.error .ValueError) := by
  unfold BytesPy.dateAdd; split <;> rfl

theorem dateAdd_eq (o n : Int) : BytesPy.dateAdd o n = ordChecked (o + n) := rfl

theorem tryExcept_ordChecked (o : Int) :
    BytesPy.tryExcept (ordChecked o) .OverflowError (.error .ValueError) = overflowToValue (ordChecked o) := by
  unfold ordChecked; split <;> rfl

theorem calculateWeekdate_eq (y w d : Int) :
    (Gen.calculateWeekdate y w d).map Cal.fromOrdinal = Iso.calculateWeekdate y w d := by
  unfold Gen.calculateWeekdate Iso.calculateWeekdate
  by_cases hw : 0 < w ∧ w < 54
  · simp only [hw, and_self, not_true_eq_false, if_false]
    by_cases hd : 0 < d ∧ d < 8
    · simp only [hd, and_self, not_true_eq_false, if_false]
      unfold BytesPy.date mkDateOrd
      by_cases hv : Cal.validDate y 1 4 = true
      · have hv' : Cal.ValidDate y 1 4 := by simpa [Cal.validDate] using hv
        have hfo := Cal.fromOrdinal_toOrdinal y 1 4 hv'.1 hv'.2.2
        simp only [hv, if_true, Except.bind, bind, BytesPy.isocal, hfo, dateAdd_eq, tryExcept_ordChecked,
          show ¬ ((2:Int) = 0) by decide, show ¬ ((2:Int) = 1) by decide, show ¬ ((1:Int) = 0) by decide, if_false]
        rw [show Cal.toOrdinal y 1 4 + -((Cal.isoCalendar y 1 4).2.2 - 1) =
              Cal.toOrdinal y 1 4 - ((Cal.isoCalendar y 1 4).2.2 - 1) by omega]
        cases h1 : ordChecked (Cal.toOrdinal y 1 4 - ((Cal.isoCalendar y 1 4).2.2 - 1)) with
        | error e => rfl
        | ok w1 =>
          simp only []
          cases h2 : overflowToValue (ordChecked (w1 + ((w - 1) * 7 + (d - 1)))) with
          | error e => rfl
          | ok o =>
            simp only []
            split <;> rfl
      · simp [hv, Except.bind, bind, Except.map]
    · simp only [hd, if_true, not_false_eq_true]; rfl
  · simp only [hw, if_true, not_false_eq_true]; rfl


@[simp] theorem slice_5_7 {α} (s : List α) : BytesPy.slice s 5 7 = (s.drop 5).take 2 := by
  simpa using slice_lit s 5 7 (by omega)
@[simp] theorem slice_4_6 {α} (s : List α) : BytesPy.slice s 4 6 = (s.drop 4).take 2 := by
  simpa using slice_lit s 4 6 (by omega)
@[simp] theorem slice_7_8 {α} (s : List α) : BytesPy.slice s 7 8 = (s.drop 7).take 1 := by
  simpa using slice_lit s 7 8 (by omega)
@[simp] theorem slice_8_10 {α} (s : List α) : BytesPy.slice s 8 10 = (s.drop 8).take 2 := by
  simpa using slice_lit s 8 10 (by omega)
@[simp] theorem slice_6_8 {α} (s : List α) : BytesPy.slice s 6 8 = (s.drop 6).take 2 := by
  simpa using slice_lit s 6 8 (by omega)

theorem map_bind {α β γ} (f : β → γ) (r : Py.R α) (g : α → Py.R β) :
    Except.map f (r >>= g) = r >>= fun v => Except.map f (g v) := by
  cases r <;> rfl

theorem map_ite {α β} (f : α → β) (c : Prop) [Decidable c] (a b : Py.R α) :
    Except.map f (if c then a else b) = if c then Except.map f a else Except.map f b := by
  split <;> rfl

theorem parseDigits_eq4 (f : Bytes) : Gen.parseDigits f 4 = Iso.parseDigits f 4 := by
  simpa using parseDigits_eq f 4

/-- how the translated date scanners report what the model reports: the components as a list and the cursor as a
    position -/
def dateOut (s : Bytes) (p : (Int × Int × Int) × Bytes) : List BytesPy.Comp × Int :=
  ([.int p.1.1, .int p.1.2.1, .int p.1.2.2], (s.length : Int) - (p.2.length : Int))

theorem parseIsodateCommon_eq (s : Bytes) :
    Gen.parseIsodateCommon s = (Iso.parseIsodateCommon s).map (dateOut s) := by
  unfold Gen.parseIsodateCommon Iso.parseIsodateCommon
  simp only [map_ite, map_bind]
  by_cases hsep : (s.drop 4).take 1 = [45]
  · by_cases hd2 : (s.drop 7).take 1 = [45]
    · simp [hsep, hd2, BytesPy.len, BytesPy.lset, parseDigits_eq4, parseDigits_eq2, cDash, bind, Except.bind,
        Except.map, dateOut]
      repeat' split
      all_goals first | rfl | omega | (simp_all; done) | (simp_all; omega)
    · simp [hsep, hd2, BytesPy.len, BytesPy.lset, parseDigits_eq4, parseDigits_eq2, cDash, bind, Except.bind,
        Except.map, dateOut]
      repeat' split
      all_goals first | rfl | omega | (simp_all; done) | (simp_all; omega)
  · simp [hsep, BytesPy.len, BytesPy.lset, parseDigits_eq4, parseDigits_eq2, cDash, bind, Except.bind,
      Except.map, dateOut]
    repeat' split
    all_goals first | rfl | omega | (simp_all; done) | (simp_all; omega)
@[simp] theorem slice_5_6 {α} (s : List α) : BytesPy.slice s 5 6 = (s.drop 5).take 1 := by
  simpa using slice_lit s 5 6 (by omega)
@[simp] theorem slice_8_9 {α} (s : List α) : BytesPy.slice s 8 9 = (s.drop 8).take 1 := by
  simpa using slice_lit s 8 9 (by omega)
@[simp] theorem slice_9_10 {α} (s : List α) : BytesPy.slice s 9 10 = (s.drop 9).take 1 := by
  simpa using slice_lit s 9 10 (by omega)
@[simp] theorem slice_5_8 {α} (s : List α) : BytesPy.slice s 5 8 = (s.drop 5).take 3 := by
  simpa using slice_lit s 5 8 (by omega)
@[simp] theorem slice_4_7 {α} (s : List α) : BytesPy.slice s 4 7 = (s.drop 4).take 3 := by
  simpa using slice_lit s 4 7 (by omega)

theorem parseDigits_eq1 (f : Bytes) : Gen.parseDigits f 1 = Iso.parseDigits f 1 := by
  simpa using parseDigits_eq f 1
theorem parseDigits_eq3 (f : Bytes) : Gen.parseDigits f 3 = Iso.parseDigits f 3 := by
  simpa using parseDigits_eq f 3

theorem cw_eq (y w d : Int) : Iso.calculateWeekdate y w d = (Gen.calculateWeekdate y w d).map Cal.fromOrdinal :=
  (calculateWeekdate_eq y w d).symm

theorem parseIsodateUncommon_eq (s : Bytes) :
    Gen.parseIsodateUncommon s = (Iso.parseIsodateUncommon s).map (dateOut s) := by
  unfold Gen.parseIsodateUncommon Iso.parseIsodateUncommon
  simp only [map_ite, map_bind, cw_eq]
  by_cases hsep : (s.drop 4).take 1 = [45]
  · by_cases hW : (s.drop 5).take 1 = [87]
    · by_cases hlen : s.length ≤ 8
      ·
        have hmore : s.drop 8 = [] := List.drop_eq_nil_of_le hlen
        have hi : ¬ ((8 : Int) < (s.length : Int)) := by omega
        simp [hsep, hW, hmore, hi, BytesPy.len, BytesPy.b2i, parseDigits_eq4, parseDigits_eq2, parseDigits_eq1, parseDigits_eq3, cDash, cW,
          bind, Except.bind, Except.map, dateOut, BytesPy.year, BytesPy.month, BytesPy.day, BytesPy.date, mkDateOrd,
          BytesPy.isleap, dateAdd_eq]
        by_cases hl4 : s.length < 4
        · have : (s.length : Int) < 4 := by omega
          simp [hl4, this]
        have hl4i : ¬ (s.length : Int) < 4 := by omega
        simp only [hl4, hl4i, if_false]
        cases h1 : parseDigits (List.take 4 s) 4 with
        | error e => rfl
        | ok v =>
        simp only []
        cases h2 : parseDigits (List.take 2 (List.drop 6 s)) 2 with
        | error e => rfl
        | ok v1 =>
        have hlen8 : 8 ≤ s.length := by
          have := ((parseDigits_ok_iff _ _ _ (by decide)).mp h2).1
          simp at this; omega
        simp only []
        cases h3 : Gen.calculateWeekdate v v1 1 with
        | error e => rfl
        | ok o => simp only []; congr 2; omega

      ·
        have hmore : s.drop 8 ≠ [] := by
          intro h; have := List.drop_eq_nil_iff.mp h; omega
        have hi : ((8 : Int) < (s.length : Int)) := by omega
        by_cases hdash : (s.drop 8).take 1 = [45]
        · simp [hsep, hW, hmore, hi, hdash, BytesPy.len, BytesPy.b2i, parseDigits_eq4, parseDigits_eq2, parseDigits_eq1, parseDigits_eq3, cDash, cW,
          bind, Except.bind, Except.map, dateOut, BytesPy.year, BytesPy.month, BytesPy.day, BytesPy.date, mkDateOrd,
          BytesPy.isleap, dateAdd_eq]
          first
          | done
          | (
            by_cases hl4 : s.length < 4
            · have : (s.length : Int) < 4 := by omega
              simp [hl4, this]
            have hl4i : ¬ (s.length : Int) < 4 := by omega
            simp only [hl4, hl4i, if_false]
            cases h1 : parseDigits (List.take 4 s) 4 with
            | error e => rfl
            | ok v =>
            simp only []
            cases h2 : parseDigits (List.take 2 (List.drop 6 s)) 2 with
            | error e => rfl
            | ok v1 =>
            simp only []
            all_goals first
            | rfl
            | (
              cases h4 : parseDigits (List.take 1 (List.drop 9 s)) 1 with
              | error e => rfl
              | ok v2 =>
              have hlenE : 10 ≤ s.length := by
                have := ((parseDigits_ok_iff _ _ _ (by decide)).mp h4).1
                simp at this; omega
              simp only []
              cases h3 : Gen.calculateWeekdate v v1 v2 with
              | error e => rfl
              | ok o => simp only []; congr 2; omega))
        · simp [hsep, hW, hmore, hi, hdash, BytesPy.len, BytesPy.b2i, parseDigits_eq4, parseDigits_eq2, parseDigits_eq1, parseDigits_eq3, cDash, cW,
          bind, Except.bind, Except.map, dateOut, BytesPy.year, BytesPy.month, BytesPy.day, BytesPy.date, mkDateOrd,
          BytesPy.isleap, dateAdd_eq]
          first
          | done
          | (
            by_cases hl4 : s.length < 4
            · have : (s.length : Int) < 4 := by omega
              simp [hl4, this]
            have hl4i : ¬ (s.length : Int) < 4 := by omega
            simp only [hl4, hl4i, if_false]
            cases h1 : parseDigits (List.take 4 s) 4 with
            | error e => rfl
            | ok v =>
            simp only []
            cases h2 : parseDigits (List.take 2 (List.drop 6 s)) 2 with
            | error e => rfl
            | ok v1 =>
            simp only []
            all_goals first
            | rfl
            | (
              cases h4 : parseDigits (List.take 1 (List.drop 9 s)) 1 with
              | error e => rfl
              | ok v2 =>
              have hlenE : 10 ≤ s.length := by
                have := ((parseDigits_ok_iff _ _ _ (by decide)).mp h4).1
                simp at this; omega
              simp only []
              cases h3 : Gen.calculateWeekdate v v1 v2 with
              | error e => rfl
              | ok o => simp only []; congr 2; omega))

    ·
      simp [hsep, hW, BytesPy.len, BytesPy.b2i, parseDigits_eq4, parseDigits_eq2, parseDigits_eq1, parseDigits_eq3, cDash, cW,
          bind, Except.bind, Except.map, dateOut, BytesPy.year, BytesPy.month, BytesPy.day, BytesPy.date, mkDateOrd,
          BytesPy.isleap, dateAdd_eq]
      by_cases hl4 : s.length < 4
      · have : (s.length : Int) < 4 := by omega
        simp [hl4, this]
      have hl4i : ¬ (s.length : Int) < 4 := by omega
      simp only [hl4, hl4i, if_false]
      cases h1 : parseDigits (List.take 4 s) 4 with
      | error e => rfl
      | ok v =>
      simp only []
      by_cases hl3 : s.length - 5 < 3
      · have : (s.length : Int) - 5 < 3 := by omega
        simp [hl3, this]
      have hl3i : ¬ ((s.length : Int) - 5 < 3) := by omega
      have hge : 8 ≤ s.length := by omega
      simp only [hl3, hl3i, if_false]
      cases h2 : parseDigits (List.take 3 (List.drop 5 s)) 3 with
      | error e => rfl
      | ok v1 =>
      simp only []
      by_cases hleap : Cal.isLeap v = true <;> by_cases hv : Cal.validDate v 1 1 = true <;>
        by_cases h1 : v1 < 1 <;> by_cases h2 : (366 : Int) < v1 <;> by_cases h3 : (365 : Int) < v1 <;>
        by_cases ho1 : Cal.toOrdinal v 1 1 + (v1 - 1) < 1 <;>
        by_cases ho2 : Cal.maxOrdinal < Cal.toOrdinal v 1 1 + (v1 - 1) <;>
        simp [hleap, hv, ordChecked, h1, h2, h3, ho1, ho2] <;> omega

  · by_cases hW : (s.drop 4).take 1 = [87]
    · by_cases hlen : s.length ≤ 7
      ·
        have hmore : s.drop 7 = [] := List.drop_eq_nil_of_le hlen
        have hi : ¬ ((7 : Int) < (s.length : Int)) := by omega
        simp [hsep, hW, hmore, hi, BytesPy.len, BytesPy.b2i, parseDigits_eq4, parseDigits_eq2, parseDigits_eq1, parseDigits_eq3, cDash, cW,
          bind, Except.bind, Except.map, dateOut, BytesPy.year, BytesPy.month, BytesPy.day, BytesPy.date, mkDateOrd,
          BytesPy.isleap, dateAdd_eq]
        by_cases hl4 : s.length < 4
        · have : (s.length : Int) < 4 := by omega
          simp [hl4, this]
        have hl4i : ¬ (s.length : Int) < 4 := by omega
        simp only [hl4, hl4i, if_false]
        cases h1 : parseDigits (List.take 4 s) 4 with
        | error e => rfl
        | ok v =>
        simp only []
        cases h2 : parseDigits (List.take 2 (List.drop 5 s)) 2 with
        | error e => rfl
        | ok v1 =>
        have hlen8 : 7 ≤ s.length := by
          have := ((parseDigits_ok_iff _ _ _ (by decide)).mp h2).1
          simp at this; omega
        simp only []
        cases h3 : Gen.calculateWeekdate v v1 1 with
        | error e => rfl
        | ok o => simp only []; congr 2; omega

      ·
        have hmore : s.drop 7 ≠ [] := by
          intro h; have := List.drop_eq_nil_iff.mp h; omega
        have hi : ((7 : Int) < (s.length : Int)) := by omega
        by_cases hdash : (s.drop 7).take 1 = [45]
        · simp [hsep, hW, hmore, hi, hdash, BytesPy.len, BytesPy.b2i, parseDigits_eq4, parseDigits_eq2, parseDigits_eq1, parseDigits_eq3, cDash, cW,
          bind, Except.bind, Except.map, dateOut, BytesPy.year, BytesPy.month, BytesPy.day, BytesPy.date, mkDateOrd,
          BytesPy.isleap, dateAdd_eq]
          first
          | done
          | (
            by_cases hl4 : s.length < 4
            · have : (s.length : Int) < 4 := by omega
              simp [hl4, this]
            have hl4i : ¬ (s.length : Int) < 4 := by omega
            simp only [hl4, hl4i, if_false]
            cases h1 : parseDigits (List.take 4 s) 4 with
            | error e => rfl
            | ok v =>
            simp only []
            cases h2 : parseDigits (List.take 2 (List.drop 5 s)) 2 with
            | error e => rfl
            | ok v1 =>
            simp only []
            all_goals first
            | rfl
            | (
              cases h4 : parseDigits (List.take 1 (List.drop 7 s)) 1 with
              | error e => rfl
              | ok v2 =>
              have hlenE : 8 ≤ s.length := by
                have := ((parseDigits_ok_iff _ _ _ (by decide)).mp h4).1
                simp at this; omega
              simp only []
              cases h3 : Gen.calculateWeekdate v v1 v2 with
              | error e => rfl
              | ok o => simp only []; congr 2; omega))
        · simp [hsep, hW, hmore, hi, hdash, BytesPy.len, BytesPy.b2i, parseDigits_eq4, parseDigits_eq2, parseDigits_eq1, parseDigits_eq3, cDash, cW,
          bind, Except.bind, Except.map, dateOut, BytesPy.year, BytesPy.month, BytesPy.day, BytesPy.date, mkDateOrd,
          BytesPy.isleap, dateAdd_eq]
          first
          | done
          | (
            by_cases hl4 : s.length < 4
            · have : (s.length : Int) < 4 := by omega
              simp [hl4, this]
            have hl4i : ¬ (s.length : Int) < 4 := by omega
            simp only [hl4, hl4i, if_false]
            cases h1 : parseDigits (List.take 4 s) 4 with
            | error e => rfl
            | ok v =>
            simp only []
            cases h2 : parseDigits (List.take 2 (List.drop 5 s)) 2 with
            | error e => rfl
            | ok v1 =>
            simp only []
            all_goals first
            | rfl
            | (
              cases h4 : parseDigits (List.take 1 (List.drop 7 s)) 1 with
              | error e => rfl
              | ok v2 =>
              have hlenE : 8 ≤ s.length := by
                have := ((parseDigits_ok_iff _ _ _ (by decide)).mp h4).1
                simp at this; omega
              simp only []
              cases h3 : Gen.calculateWeekdate v v1 v2 with
              | error e => rfl
              | ok o => simp only []; congr 2; omega))

    ·
      simp [hsep, hW, BytesPy.len, BytesPy.b2i, parseDigits_eq4, parseDigits_eq2, parseDigits_eq1, parseDigits_eq3, cDash, cW,
          bind, Except.bind, Except.map, dateOut, BytesPy.year, BytesPy.month, BytesPy.day, BytesPy.date, mkDateOrd,
          BytesPy.isleap, dateAdd_eq]
      by_cases hl4 : s.length < 4
      · have : (s.length : Int) < 4 := by omega
        simp [hl4, this]
      have hl4i : ¬ (s.length : Int) < 4 := by omega
      simp only [hl4, hl4i, if_false]
      cases h1 : parseDigits (List.take 4 s) 4 with
      | error e => rfl
      | ok v =>
      simp only []
      by_cases hl3 : s.length - 4 < 3
      · have : (s.length : Int) - 4 < 3 := by omega
        simp [hl3, this]
      have hl3i : ¬ ((s.length : Int) - 4 < 3) := by omega
      have hge : 7 ≤ s.length := by omega
      simp only [hl3, hl3i, if_false]
      cases h2 : parseDigits (List.take 3 (List.drop 4 s)) 3 with
      | error e => rfl
      | ok v1 =>
      simp only []
      by_cases hleap : Cal.isLeap v = true <;> by_cases hv : Cal.validDate v 1 1 = true <;>
        by_cases h1 : v1 < 1 <;> by_cases h2 : (366 : Int) < v1 <;> by_cases h3 : (365 : Int) < v1 <;>
        by_cases ho1 : Cal.toOrdinal v 1 1 + (v1 - 1) < 1 <;>
        by_cases ho2 : Cal.maxOrdinal < Cal.toOrdinal v 1 1 + (v1 - 1) <;>
        simp [hleap, hv, ordChecked, h1, h2, h3, ho1, ho2] <;> omega


theorem parseIsodate_eq (s : Bytes) : Gen.parseIsodate s = (Iso.parseIsodate s).map (dateOut s) := by
  unfold Gen.parseIsodate Iso.parseIsodate
  rw [parseIsodateCommon_eq, parseIsodateUncommon_eq]
  cases Iso.parseIsodateCommon s with
  | ok v => rfl
  | error e => cases e <;> simp [BytesPy.tryExcept, Except.map]

end IsoGen
