/-
  Proofs/RRuleInterleave.lean — non-interference of interleaved iterators over ONE rule object, on the model's state
  machine.  The rule object is the normalised rule plus `_len`, the only attribute an iteration writes
  (`self._len = total` on every normal return of `_iter`); the live iterators are slots holding their own generator
  state.  `init` and `step` take the `Rule`, not the `Obj`: `_len` is never read by an iteration, and an iteration
  writes nothing else — so (i) the rule never changes, (ii) what slot `j` holds after any interleaving of events is
  what it holds after its own events alone, and (iii) a slot created and then turned `n` times has yielded exactly
  `(iter r n).1`, the sequence a fresh iterator over a fresh object yields.  (Queries such as `between`, `after`,
  `count`, indexing are create + turn sequences on a scratch slot.)
-/
import DateutilVerif.Model.RRule

namespace RRule

/-- the rule object: the normalised rule and the cached length `_len` -/
structure Obj where
  rule : Rule
  len : Option Nat

/-- one live iterator: generator state (`none` = finished), everything yielded so far, terminal status -/
structure IterSlot where
  st : Option State
  out : List Inst
  status : Option Status

inductive Ev where
  | create (j : Nat)     -- `iter(obj)` bound to slot `j`
  | turn (j : Nat)       -- one turn of slot `j`'s `while True` loop

def Ev.slot : Ev → Nat
  | .create j => j
  | .turn j => j

abbrev Slots := Nat → Option IterSlot

def setSlot (m : Slots) (j : Nat) (s : Option IterSlot) : Slots := fun i => if i = j then s else m i

/-- a normal return of `_iter` (COUNT reached, UNTIL passed, MAXYEAR): the ones that write `_len` -/
def normalEnd : Status → Bool
  | .error _ => false
  | _ => true

/-- a fresh generator over the rule; a failing initialisation finishes it with that exception -/
def createSlot (r : Rule) : IterSlot :=
  match init r with
  | .ok st => { st := some st, out := [], status := none }
  | .error e => { st := none, out := [], status := some (.error e) }

/-- one turn of a slot: the new slot and the value written to `_len`, if any -/
def turnSlot (r : Rule) (s : IterSlot) : IterSlot × Option Nat :=
  match s.st with
  | none => (s, none)
  | some st =>
    match step r st with
    | (batch, .ok st') => ({ st := some st', out := s.out ++ batch, status := none }, none)
    | (batch, .error e) =>
      ({ st := none, out := s.out ++ batch, status := some e },
       if normalEnd e then some (s.out ++ batch).length else none)

def execEv (o : Obj) (m : Slots) : Ev → Obj × Slots
  | .create j => (o, setSlot m j (some (createSlot o.rule)))
  | .turn j =>
    match m j with
    | none => (o, m)
    | some s =>
      ({ o with len := match (turnSlot o.rule s).2 with
                        | some n => some n
                        | none => o.len },
       setSlot m j (some (turnSlot o.rule s).1))

def exec (o : Obj) (m : Slots) : List Ev → Obj × Slots
  | [] => (o, m)
  | e :: es => exec (execEv o m e).1 (execEv o m e).2 es

/-- what the events do to slot `j`, as a function of the rule alone -/
def slotRun (r : Rule) (j : Nat) : Option IterSlot → List Ev → Option IterSlot
  | s, [] => s
  | s, .create j' :: es => if j' = j then slotRun r j (some (createSlot r)) es else slotRun r j s es
  | s, .turn j' :: es => if j' = j then slotRun r j (s.map (fun x => (turnSlot r x).1)) es else slotRun r j s es

theorem slotRun_nil (r : Rule) (j : Nat) (s : Option IterSlot) : slotRun r j s [] = s := rfl

theorem slotRun_create (r : Rule) (j j' : Nat) (s : Option IterSlot) (es : List Ev) :
    slotRun r j s (.create j' :: es) =
      if j' = j then slotRun r j (some (createSlot r)) es else slotRun r j s es := rfl

theorem slotRun_turn (r : Rule) (j j' : Nat) (s : Option IterSlot) (es : List Ev) :
    slotRun r j s (.turn j' :: es) =
      if j' = j then slotRun r j (s.map (fun x => (turnSlot r x).1)) es else slotRun r j s es := rfl

theorem execEv_rule (o : Obj) (m : Slots) (e : Ev) : (execEv o m e).1.rule = o.rule := by
  cases e with
  | create j => rfl
  | turn j =>
    unfold execEv
    dsimp only
    split <;> rfl

/-- **(i)** no event changes the rule -/
theorem interleave_rule_const (o : Obj) (m : Slots) (es : List Ev) : (exec o m es).1.rule = o.rule := by
  induction es generalizing o m with
  | nil => rfl
  | cons e es ih =>
    unfold exec
    rw [ih, execEv_rule]

theorem execEv_slot (o : Obj) (m : Slots) (e : Ev) (j : Nat) :
    (execEv o m e).2 j = slotRun o.rule j (m j) [e] := by
  cases e with
  | create j' =>
    rw [slotRun_create, slotRun_nil, slotRun_nil]
    unfold execEv setSlot
    dsimp only
    by_cases c : j' = j
    · subst c; rw [if_pos rfl]
    · rw [if_neg (fun h => c h.symm), if_neg c]
  | turn j' =>
    rw [slotRun_turn, slotRun_nil, slotRun_nil]
    unfold execEv
    dsimp only
    by_cases c : j' = j
    · subst c
      rw [if_pos rfl]
      cases hm : m j' with
      | none => dsimp only; rw [hm]; rfl
      | some s => dsimp only; unfold setSlot; rw [if_pos rfl]; rfl
    · rw [if_neg c]
      cases hm : m j' with
      | none => rfl
      | some s =>
        dsimp only
        unfold setSlot
        rw [if_neg (fun h => c h.symm)]

theorem slotRun_cons (r : Rule) (j : Nat) (s : Option IterSlot) (e : Ev) (es : List Ev) :
    slotRun r j s (e :: es) = slotRun r j (slotRun r j s [e]) es := by
  cases e with
  | create j' =>
    rw [slotRun_create, slotRun_create, slotRun_nil, slotRun_nil]
    by_cases c : j' = j
    · rw [if_pos c, if_pos c]
    · rw [if_neg c, if_neg c]
  | turn j' =>
    rw [slotRun_turn, slotRun_turn, slotRun_nil, slotRun_nil]
    by_cases c : j' = j
    · rw [if_pos c, if_pos c]
    · rw [if_neg c, if_neg c]

theorem slotRun_append (r : Rule) (j : Nat) (s : Option IterSlot) (l1 l2 : List Ev) :
    slotRun r j s (l1 ++ l2) = slotRun r j (slotRun r j s l1) l2 := by
  induction l1 generalizing s with
  | nil => rfl
  | cons e es ih =>
    rw [List.cons_append, slotRun_cons, ih, ← slotRun_cons]

/-- the slot after `exec` is `slotRun` of the (constant) rule -/
theorem exec_slot (o : Obj) (m : Slots) (es : List Ev) (j : Nat) :
    (exec o m es).2 j = slotRun o.rule j (m j) es := by
  induction es generalizing o m with
  | nil => rfl
  | cons e es ih =>
    unfold exec
    rw [ih, execEv_rule, execEv_slot, ← slotRun_cons]

/-- the events of other slots do nothing to slot `j` -/
theorem slotRun_filter (r : Rule) (j : Nat) (s : Option IterSlot) (es : List Ev) :
    slotRun r j s (es.filter (fun e => e.slot == j)) = slotRun r j s es := by
  induction es generalizing s with
  | nil => rfl
  | cons e es ih =>
    cases e with
    | create j' =>
      by_cases c : j' = j
      · have hb : ((Ev.create j').slot == j) = true := by
          show (j' == j) = true
          rw [beq_iff_eq]; exact c
        have hf : List.filter (fun e => e.slot == j) (Ev.create j' :: es) =
            Ev.create j' :: List.filter (fun e => e.slot == j) es := by
          rw [List.filter_cons]; simp only [hb, ↓reduceIte]
        rw [hf, slotRun_create, slotRun_create, if_pos c, if_pos c, ih]
      · have hb : ((Ev.create j').slot == j) = false := by
          show (j' == j) = false
          rw [beq_eq_false_iff_ne]; exact c
        have hf : List.filter (fun e => e.slot == j) (Ev.create j' :: es) =
            List.filter (fun e => e.slot == j) es := by
          rw [List.filter_cons]; simp only [hb, Bool.false_eq_true, ↓reduceIte]
        rw [hf, ih, slotRun_create, if_neg c]
    | turn j' =>
      by_cases c : j' = j
      · have hb : ((Ev.turn j').slot == j) = true := by
          show (j' == j) = true
          rw [beq_iff_eq]; exact c
        have hf : List.filter (fun e => e.slot == j) (Ev.turn j' :: es) =
            Ev.turn j' :: List.filter (fun e => e.slot == j) es := by
          rw [List.filter_cons]; simp only [hb, ↓reduceIte]
        rw [hf, slotRun_turn, slotRun_turn, if_pos c, if_pos c, ih]
      · have hb : ((Ev.turn j').slot == j) = false := by
          show (j' == j) = false
          rw [beq_eq_false_iff_ne]; exact c
        have hf : List.filter (fun e => e.slot == j) (Ev.turn j' :: es) =
            List.filter (fun e => e.slot == j) es := by
          rw [List.filter_cons]; simp only [hb, Bool.false_eq_true, ↓reduceIte]
        rw [hf, ih, slotRun_turn, if_neg c]

/-- **(ii) non-interference**: after ANY interleaving, slot `j` holds what its own events alone produce — whatever the
    other slots did in between, and whatever they wrote to `_len` -/
theorem interleave_noninterference (o : Obj) (m : Slots) (es : List Ev) (j : Nat) :
    (exec o m es).2 j = (exec o m (es.filter (fun e => e.slot == j))).2 j := by
  rw [exec_slot, exec_slot, slotRun_filter]

/-- a finished slot ignores further turns -/
theorem slotRun_finished (r : Rule) (j : Nat) (out : List Inst) (status : Option Status) (n : Nat) :
    slotRun r j (some { st := none, out := out, status := status }) (List.replicate n (Ev.turn j)) =
      some { st := none, out := out, status := status } := by
  induction n with
  | zero => rfl
  | succ n ih =>
    rw [List.replicate_succ, slotRun_turn, if_pos rfl]
    have : (some ({ st := none, out := out, status := status } : IterSlot)).map (fun x => (turnSlot r x).1) =
        some { st := none, out := out, status := status } := rfl
    rw [this, ih]

/-- `n` turns of a live slot yield what `run` yields in `n` periods -/
theorem slotRun_turns (r : Rule) (j : Nat) : ∀ (n : Nat) (st : State) (acc : List Inst),
    ∃ s, slotRun r j (some { st := some st, out := acc, status := none }) (List.replicate n (Ev.turn j)) = some s ∧
      s.out = acc ++ (run r n st).1 := by
  intro n
  induction n with
  | zero => intro st acc; exact ⟨_, rfl, by simp [run]⟩
  | succ n ih =>
    intro st acc
    rw [List.replicate_succ, slotRun_turn, if_pos rfl]
    unfold run
    cases hs : step r st with
    | mk batch res =>
      cases res with
      | error e =>
        have : (some ({ st := some st, out := acc, status := none } : IterSlot)).map (fun x => (turnSlot r x).1) =
            some { st := none, out := acc ++ batch, status := some e } := by
          simp [turnSlot, hs]
        rw [this, slotRun_finished]
        exact ⟨_, rfl, rfl⟩
      | ok st' =>
        have : (some ({ st := some st, out := acc, status := none } : IterSlot)).map (fun x => (turnSlot r x).1) =
            some { st := some st', out := acc ++ batch, status := none } := by
          simp [turnSlot, hs]
        rw [this]
        obtain ⟨s, h1, h2⟩ := ih st' (acc ++ batch)
        exact ⟨s, h1, by rw [h2]; simp⟩

/-- **(iii)** a slot whose own events end with `create` followed by `n` turns has yielded exactly what a fresh
    iterator over a fresh object yields in `n` turns, whatever else happened on the object -/
theorem interleave_eq_run (o : Obj) (m : Slots) (es : List Ev) (j n : Nat) (pre : List Ev) (st0 : State)
    (hinit : init o.rule = .ok st0)
    (hes : es.filter (fun e => e.slot == j) = pre ++ Ev.create j :: List.replicate n (Ev.turn j)) :
    ∃ s, (exec o m es).2 j = some s ∧ s.out = (run o.rule n st0).1 ∧ s.out = (iter o.rule n).1 := by
  rw [interleave_noninterference, exec_slot, hes, slotRun_append, slotRun_create, if_pos rfl]
  have hc : createSlot o.rule = { st := some st0, out := [], status := none } := by
    unfold createSlot; rw [hinit]
  rw [hc]
  obtain ⟨s, h1, h2⟩ := slotRun_turns o.rule j n st0 []
  refine ⟨s, h1, by rw [h2]; rfl, ?_⟩
  rw [h2]
  unfold iter
  rw [hinit]
  rfl

/-- what a slot has yielded, as dates -/
def slotDates (p : Obj × Slots) (j : Nat) : List (Int × Int × Int) :=
  match p.2 j with
  | some s => s.out.map (fun i => Cal.fromOrdinal i.ord)
  | none => []

-- two iterators over one DAILY rule (COUNT=3), interleaved: each sees the full sequence from the start; the second
-- `create 0` restarts slot 0; the turn that meets COUNT writes `_len`
example : (match construct { freq := 3, dtstart := ⟨2024, 2, 28, 9, 0, 0, 0⟩, count := some 3 } with
    | .ok r =>
      let p := exec { rule := r, len := none } (fun _ => none)
        [.create 0, .turn 0, .create 1, .turn 0, .turn 1, .turn 1, .turn 0, .turn 1, .turn 1, .create 0, .turn 0]
      (slotDates p 0, slotDates p 1, p.1.len)
    | .error _ => ([], [], none)) =
    ([(2024, 2, 28)], [(2024, 2, 28), (2024, 2, 29), (2024, 3, 1)], some 3) := by decide +kernel

end RRule
