/-
  Proofs/RRuleTimes.lean — the constructor's time set (BYHOUR × BYMINUTE × BYSECOND with the
  defaults from the start, sorted) is the specification's list of admitted wall times.
-/
import DateutilVerif.Proofs.RRuleSorted
import DateutilVerif.Proofs.RRuleConstruct
import DateutilVerif.Proofs.RRuleDayset
import DateutilVerif.Spec.RRule

namespace RRule

/-- two strictly sorted lists with the same members are equal -/
theorem sorted_ext {α} {lt : α → α → Bool} {P : α → Prop} (so : StrictOn lt P) :
    ∀ (l1 l2 : List α), l1.Pairwise (fun a b => lt a b = true) → l2.Pairwise (fun a b => lt a b = true) →
    (∀ x, x ∈ l1 ↔ x ∈ l2) → l1 = l2 := by
  intro l1
  induction l1 with
  | nil =>
    intro l2 _ _ hm
    cases l2 with
    | nil => rfl
    | cons b bs => exact absurd ((hm b).mpr (List.mem_cons_self ..)) (by simp)
  | cons a as ih =>
    intro l2 h1 h2 hm
    cases l2 with
    | nil => exact absurd ((hm a).mp (List.mem_cons_self ..)) (by simp)
    | cons b bs =>
      rw [List.pairwise_cons] at h1 h2
      have hab : a = b := by
        by_cases c : a = b
        · exact c
        · exfalso
          have h3 : lt b a = true := by
            rcases List.mem_cons.mp ((hm a).mp (List.mem_cons_self ..)) with h | h
            · exact absurd h c
            · exact h2.1 a h
          have h4 : lt a b = true := by
            rcases List.mem_cons.mp ((hm b).mpr (List.mem_cons_self ..)) with h | h
            · exact absurd h.symm c
            · exact h1.1 b h
          have := so.trans a b a h4 h3
          rw [so.irrefl] at this; cases this
      subst hab
      congr 1
      apply ih bs h1.2 h2.2
      intro x
      constructor
      · intro hx
        rcases List.mem_cons.mp ((hm x).mp (List.mem_cons_of_mem _ hx)) with h | h
        · subst h; have := h1.1 x hx; rw [so.irrefl] at this; cases this
        · exact h
      · intro hx
        rcases List.mem_cons.mp ((hm x).mpr (List.mem_cons_of_mem _ hx)) with h | h
        · subst h; have := h2.1 x hx; rw [so.irrefl] at this; cases this
        · exact h

/-- the product of increasing lists is increasing for the lexicographic order on wall times -/
theorem productHMS_sorted (hs ms ss : List Int) (h1 : hs.Pairwise (· < ·)) (h2 : ms.Pairwise (· < ·))
    (h3 : ss.Pairwise (· < ·)) : (productHMS hs ms ss).Pairwise (fun a b => ltHMS a b = true) := by
  unfold productHMS
  rw [List.pairwise_flatMap]
  refine ⟨?_, ?_⟩
  · intro h _
    rw [List.pairwise_flatMap]
    refine ⟨?_, ?_⟩
    · intro m _
      rw [List.pairwise_map]
      exact h3.imp (by intro a b hab; simp [ltHMS, hab])
    · exact h2.imp (by
        intro a b hab x hx y hy
        simp only [List.mem_map] at hx hy
        obtain ⟨_, _, rfl⟩ := hx
        obtain ⟨_, _, rfl⟩ := hy
        simp [ltHMS, hab])
  · exact h1.imp (by
      intro a b hab x hx y hy
      simp only [List.mem_flatMap, List.mem_map] at hx hy
      obtain ⟨_, _, _, _, rfl⟩ := hx
      obtain ⟨_, _, _, _, rfl⟩ := hy
      simp [ltHMS, hab])

theorem mem_productHMS (hs ms ss : List Int) (t : HMS) :
    t ∈ productHMS hs ms ss ↔ t.1 ∈ hs ∧ t.2.1 ∈ ms ∧ t.2.2 ∈ ss := by
  obtain ⟨t1, t2, t3⟩ := t
  unfold productHMS
  simp only [List.mem_flatMap, List.mem_map, Prod.mk.injEq]
  constructor
  · rintro ⟨h, hh, m, hm, s, hs', rfl, rfl, rfl⟩; exact ⟨hh, hm, hs'⟩
  · rintro ⟨a, b, c⟩; exact ⟨t1, a, t2, b, t3, c, rfl, rfl, rfl⟩

/-- the specification's admitted values of one unit: `[start]` by default, else the members of the
    BY list inside the unit's range, increasing -/
def specUnit (arg : Option (List Int)) (start bound : Int) : List Int :=
  match arg with
  | some l => (intRange 0 bound).filter (fun h => l.contains h)
  | none => [start]

theorem specUnit_sorted (arg : Option (List Int)) (start bound : Int) :
    (specUnit arg start bound).Pairwise (· < ·) := by
  unfold specUnit
  split
  · exact (intRange_pairwise 0 bound).filter _
  · simp

/-- below its own frequency a unit's normalised list has the members of the argument (or the start) -/
theorem normUnit_mem (freq lvl interval start : Int) (arg : Option (List Int)) (base : Int)
    (res : Option (List Int)) (hf : freq < lvl) (h : normUnit freq lvl interval start arg base = .ok res) :
    ∀ x, x ∈ res.getD [] ↔ x ∈ (match arg with | some l => l | none => [start]) := by
  unfold normUnit at h
  split at h
  · injection h with h; subst h; rw [if_pos hf]; intro x; rfl
  · rename_i l
    rw [if_neg (by simp; omega)] at h
    injection h with h; subst h
    intro x; exact mem_sortedSet x l

/-- **the time set**: for the calendar frequencies the constructor's `_timeset` is the specification's
    list of admitted wall times (defaults from the start included) -/
theorem construct_timeset (a : Args) (r : Rule) (h : construct a = .ok r) (hf : a.freq < 4) :
    r.timeset = some (Spec.RRule.timesOf a none none none) := by
  obtain ⟨sp, bh, bm, bs, ts, h1, h2, h3, h4, h5, rfl⟩ := construct_ok a r h
  dsimp only
  have n2 := normUnit_nodup _ _ _ _ _ _ _ h2
  have n3 := normUnit_nodup _ _ _ _ _ _ _ h3
  have n4 := normUnit_nodup _ _ _ _ _ _ _ h4
  have m2 := normUnit_mem _ _ _ _ _ _ _ hf h2
  have m3 := normUnit_mem _ _ _ _ _ _ _ (by omega) h3
  have m4 := normUnit_mem _ _ _ _ _ _ _ (by omega) h4
  unfold timesetOf at h5
  rw [if_neg (by omega)] at h5
  unfold buildTimeset at h5
  split at h5
  · rename_i l hl
    split at hl
    · rename_i l' hl'
      injection hl with hl; subst hl
      injection h5 with h5; subst h5
      obtain ⟨e, hv⟩ := checkTimes_ok _ l' hl'
      subst e
      congr 1
      have hspec : Spec.RRule.timesOf a none none none =
          productHMS (specUnit a.byhour a.dtstart.hh 24) (specUnit a.byminute a.dtstart.mm 60)
            (specUnit a.bysecond a.dtstart.ss 60) := by
        unfold Spec.RRule.timesOf Spec.RRule.restrict Spec.RRule.hours Spec.RRule.minutes Spec.RRule.seconds
          productHMS specUnit
        rw [if_pos hf, if_pos (by omega : a.freq < 5), if_pos (by omega : a.freq < 6)]
        cases a.byhour <;> cases a.byminute <;> cases a.bysecond <;> rfl
      rw [hspec]
      apply sorted_ext strictHMS
      · exact sortBy_pairwise strictHMS _ (fun _ _ => trivial) (productHMS_nodup _ _ _ n2 n3 n4)
      · exact productHMS_sorted _ _ _ (specUnit_sorted _ _ _) (specUnit_sorted _ _ _) (specUnit_sorted _ _ _)
      · intro t
        rw [mem_sortBy, mem_productHMS, mem_productHMS]
        have hsu : ∀ (arg : Option (List Int)) (start bound x : Int), 0 ≤ x → x < bound →
            (x ∈ specUnit arg start bound ↔ x ∈ (match arg with | some l => l | none => [start])) := by
          intro arg start bound x h0 h1
          unfold specUnit
          cases arg with
          | none => rfl
          | some l =>
            simp only [List.mem_filter, mem_intRange, List.contains_iff_mem]
            constructor
            · exact fun h => h.2
            · exact fun h => ⟨⟨h0, h1⟩, h⟩
        have hsu' : ∀ (arg : Option (List Int)) (start bound x : Int), x ∈ specUnit arg start bound →
            x ∈ (match arg with | some l => l | none => [start]) := by
          intro arg start bound x hx
          unfold specUnit at hx
          cases arg with
          | none => exact hx
          | some l =>
            simp only [List.mem_filter, List.contains_iff_mem] at hx
            exact hx.2
        constructor
        · rintro ⟨a1, a2, a3⟩
          have hvt := hv t ((mem_productHMS _ _ _ t).mpr ⟨a1, a2, a3⟩)
          unfold ValidHMS at hvt
          exact ⟨(hsu _ _ 24 _ hvt.1 (by omega)).mpr ((m2 _).mp a1),
                 (hsu _ _ 60 _ hvt.2.2.1 (by omega)).mpr ((m3 _).mp a2),
                 (hsu _ _ 60 _ hvt.2.2.2.2.1 (by omega)).mpr ((m4 _).mp a3)⟩
        · rintro ⟨a1, a2, a3⟩
          exact ⟨(m2 _).mpr (hsu' _ _ _ _ a1), (m3 _).mpr (hsu' _ _ _ _ a2), (m4 _).mpr (hsu' _ _ _ _ a3)⟩
    · cases hl
  · cases h5

end RRule
