/-
  Proofs/RRuleNthEMonthly.lean — MONTHLY with nth BYDAY TOGETHER with BYEASTER (nth members only = outside D-C01a;
  offsets −80..250, years 1583..4099 = complement of D-C01d): both computed masks are present and the filter is
  `simpleOk ∧ nth clause ∧ Easter clause`.  The argument side is reduced to the nth family by dropping BYEASTER
  (`stripEas`): with BYDAY given nothing else of the constructor or of `dateOk` looks at BYEASTER.
-/
import DateutilVerif.Proofs.RRuleNthMonthly
import DateutilVerif.Proofs.RRuleEFilter

namespace RRule
open Cal

/-- MONTHLY, BYDAY of nth weekdays only, BYEASTER offsets −80..250 -/
structure NthEMArgs (a : Args) : Prop where
  freq : a.freq = 1
  interval : 1 ≤ a.interval
  valid : a.dtstart.Valid
  byweekno : a.byweekno = none
  monthday_nz : ∀ x ∈ a.bymonthday.getD [], x ≠ 0
  weekdays : ∃ l, a.byweekday = some l ∧ l ≠ [] ∧ ∀ w ∈ l, (0 ≤ w.1 ∧ w.1 ≤ 6) ∧ w.2 ≠ 0
  easter : ∃ el, a.byeaster = some el ∧ el ≠ [] ∧ ∀ o ∈ el, -80 ≤ o ∧ o ≤ 250

/-- the same argument set without BYEASTER -/
def stripEas (a : Args) : Args := { a with byeaster := none }

variable {a : Args} {r : Rule}

theorem ne_strip (na : NthEMArgs a) : NthMArgs (stripEas a) :=
  ⟨na.freq, na.interval, na.valid, na.byweekno, rfl, na.monthday_nz, na.weekdays⟩

theorem ne_noDay (na : NthEMArgs a) : noDayParts a = false := by
  obtain ⟨l, hl, _, _⟩ := na.weekdays
  unfold noDayParts; simp [hl]

/-! ### dropping BYEASTER when BYDAY is given -/

theorem construct_stripEas (a : Args) (r : Rule) (h : construct a = .ok r) (hnd : noDayParts a = false)
    (hnd0 : noDayParts (stripEas a) = false) :
    construct (stripEas a) = .ok { r with byeaster := none } := by
  have hi := construct_interval_pos a r h
  obtain ⟨sp, bh, bm, bs, ts, h1, h2, h3, h4, h5, hr⟩ := construct_ok a r h
  have e6 : bymonthOf (stripEas a) = bymonthOf a := by unfold bymonthOf; rw [hnd0, hnd]; rfl
  have e7 : monthdayArg (stripEas a) = monthdayArg a := by unfold monthdayArg; rw [hnd0, hnd]; rfl
  have e8 : weekdayArg (stripEas a) = weekdayArg a := by unfold weekdayArg; rw [hnd0, hnd]; rfl
  have e9 : bymonthdayOf (stripEas a) = bymonthdayOf a := by unfold bymonthdayOf; rw [e7]
  have e10 : bynmonthdayOf (stripEas a) = bynmonthdayOf a := by unfold bynmonthdayOf; rw [e7]
  have e11 : byweekdayOf (stripEas a) = byweekdayOf a := by unfold byweekdayOf; rw [e8]; rfl
  have e12 : bynweekdayOf (stripEas a) = bynweekdayOf a := by unfold bynweekdayOf; rw [e8]; rfl
  have e1 : normBysetpos (stripEas a) = .ok sp := h1
  have e2 : normUnit (stripEas a).freq 4 (stripEas a).interval (stripEas a).dtstart.hh (stripEas a).byhour 24 = .ok bh := h2
  have e3 : normUnit (stripEas a).freq 5 (stripEas a).interval (stripEas a).dtstart.mm (stripEas a).byminute 60 = .ok bm := h3
  have e4 : normUnit (stripEas a).freq 6 (stripEas a).interval (stripEas a).dtstart.ss (stripEas a).bysecond 60 = .ok bs := h4
  have e5 : timesetOf (stripEas a) bh bm bs = .ok ts := h5
  unfold construct constructBody
  rw [if_neg (show ¬ (stripEas a).interval < 1 from by show ¬ a.interval < 1; omega)]
  rw [e1, e2, e3, e4]
  simp only [bind, Except.bind, e5, pure, Except.pure, e6, e9, e10, e11, e12]
  rw [hr]
  rfl

/-- `dateOk` with BYDAY given: the BYEASTER clause splits off -/
theorem dateOk_stripEas (a : Args) (hnd : noDayParts a = false) (hnd0 : noDayParts (stripEas a) = false) (ord : Int) :
    Spec.RRule.dateOk a ord = (Spec.RRule.dateOk (stripEas a) ord && specE a ord) := by
  have hnd' : Spec.RRule.noDayParts a = false := hnd
  have hnd0' : Spec.RRule.noDayParts (stripEas a) = false := hnd0
  have hm : Spec.RRule.months (stripEas a) = Spec.RRule.months a := by
    unfold Spec.RRule.months; rw [hnd0', hnd']; rfl
  have hmd : Spec.RRule.monthdays (stripEas a) = Spec.RRule.monthdays a := by
    unfold Spec.RRule.monthdays; rw [hnd0', hnd']; rfl
  have hwd : Spec.RRule.weekdays (stripEas a) = Spec.RRule.weekdays a := by
    unfold Spec.RRule.weekdays; rw [hnd0', hnd']; rfl
  have hnth : ∀ o y m n, Spec.RRule.nthOk (stripEas a) o y m n = Spec.RRule.nthOk a o y m n := by
    intro o y m n; unfold Spec.RRule.nthOk; rw [hm]; rfl
  unfold Spec.RRule.dateOk specE
  simp only [hm, hmd, hwd, hnth]
  have e1 : (stripEas a).byyearday = a.byyearday := rfl
  have e2 : (stripEas a).byweekno = a.byweekno := rfl
  have e3 : (stripEas a).byeaster = none := rfl
  have e4 : (stripEas a).freq = a.freq := rfl
  have e5 : Spec.RRule.wkst (stripEas a) = Spec.RRule.wkst a := rfl
  rw [e1, e2, e3, e4, e5]
  rcases a.byeaster with _ | (_ | ⟨x, xs⟩) <;> dsimp only <;> (try simp only [Bool.and_true])

/-- the Easter clause of the specification, for a date of year `y` -/
theorem specE_year (a : Args) (el : List Int) (hel : a.byeaster = some el) (hne : el ≠ []) (ord y : Int)
    (hy : (fromOrdinal ord).1 = y) :
    specE a ord = decide ((ord - Spec.RRule.easterOrd y) ∈ eastersOf a) := by
  unfold specE eastersOf
  rw [hel, hy]
  cases el with
  | nil => exact absurd rfl hne
  | cons x xs =>
    dsimp only [Option.getD_some]
    rw [Bool.eq_iff_iff, decide_eq_true_eq, List.contains_iff_mem, mem_sortBy]

/-! ### the rule and the filter -/

/-- both computed masks: nth BYDAY members only, BYEASTER, no BYWEEKNO -/
structure NthERule (r : Rule) : Prop where
  byweekno : truthy r.byweekno = false
  byeaster : truthy r.byeaster = true
  byweekday : r.byweekday = none

variable {y : Int} {info : Info}

open RRule.Tables in
/-- the BY-filter with an nth-weekday mask and an Easter mask, inside the year -/
theorem dayFiltered_nth_e (hn : NthERule r) (f : YearFacts r y info) (nmask emask : List Int)
    (hm : info.nwdaymask = some nmask) (hem : info.eastermask = some emask) (i : Int) (h0 : 0 ≤ i)
    (h1 : i < info.yearlen) (hlen : (nmask.length : Int) = info.yearlen)
    (helen : info.yearlen ≤ (emask.length : Int)) :
    dayFiltered r info i =
      .ok (!(simpleOk r (info.yearordinal + i) && (nmask[i.toNat]'(by omega) != 0) &&
        (emask[i.toNat]'(by omega) != 0))) := by
  have hlen' : info.yearlen ≤ 366 := by rw [f.yearlen]; unfold daysInYear; split <;> omega
  have hdate := date_of_index y i f.year_lo h0 (by rw [← f.yearlen]; omega)
  rw [← f.yearordinal] at hdate
  have hmask : Py.getIdx nmask i = .ok (nmask[i.toNat]'(by omega)) := getIdx_int nmask i h0 (by omega)
  have hemask : Py.getIdx emask i = .ok (emask[i.toNat]'(by omega)) := getIdx_int emask i h0 (by omega)
  have hne : ∃ x xs, nmask = x :: xs := by
    cases nmask with
    | nil => simp at hlen; omega
    | cons x xs => exact ⟨x, xs, rfl⟩
  obtain ⟨x, xs, hxs⟩ := hne
  subst hxs
  unfold dayFiltered
  rw [mmask_date f i h0 (by omega), mdaymask_date f i h0 (by omega), nmdaymask_date f i h0 (by omega), hm, hem]
  dsimp only
  rw [hmask]
  have htn : truthy (none : Option (List Int)) = false := rfl
  simp only [maskMiss, hn.byweekno, hn.byeaster, hn.byweekday, htn, Bool.false_eq_true, ↓reduceIte, hemask]
  have c' : i < daysInYear y := by rw [← f.yearlen]; exact h1
  have hyd : (decide (i < info.yearlen) && !memO (i + 1) r.byyearday && !memO (-info.yearlen + i) r.byyearday ||
      decide (i ≥ info.yearlen) && !memO (i + 1 - info.yearlen) r.byyearday &&
        !memO (-info.nextyearlen + i - info.yearlen) r.byyearday) =
      !(memO (info.yearordinal + i - toOrdinal (fromOrdinal (info.yearordinal + i)).1 1 1 + 1) r.byyearday ||
        memO (info.yearordinal + i - toOrdinal (fromOrdinal (info.yearordinal + i)).1 1 1 + 1 -
              daysInYear (fromOrdinal (info.yearordinal + i)).1 - 1) r.byyearday) := by
    rw [hdate, if_pos c']
    have e1 : info.yearordinal + i - toOrdinal y 1 1 + 1 = i + 1 := by rw [f.yearordinal]; omega
    have e2 : i + 1 - daysInYear y - 1 = -info.yearlen + i := by rw [f.yearlen]; omega
    dsimp only
    rw [e1, e2]
    have c2 : ¬ (i ≥ info.yearlen) := by omega
    simp [h1, c2]
  unfold simpleOk
  rw [hyd, hn.byweekday]
  have hmn : ∀ w, memO w (none : Option (List Int)) = false := fun _ => rfl
  simp only [htn, hmn]
  generalize memO (info.yearordinal + i - toOrdinal (fromOrdinal (info.yearordinal + i)).1 1 1 + 1) r.byyearday = ya
  generalize memO (info.yearordinal + i - toOrdinal (fromOrdinal (info.yearordinal + i)).1 1 1 + 1 -
              daysInYear (fromOrdinal (info.yearordinal + i)).1 - 1) r.byyearday = yb
  generalize (fromOrdinal (info.yearordinal + i)).2.1 = mo
  generalize (fromOrdinal (info.yearordinal + i)).2.2 = dd
  generalize (fromOrdinal (info.yearordinal + i)).1 = yy
  generalize ((x :: xs)[i.toNat]'(by have := hlen; omega)) = mv
  generalize (emask[i.toNat]'(by omega)) = wv
  have hbne : (mv != 0) = !(mv == 0) := rfl
  have hbne2 : (wv != 0) = !(wv == 0) := rfl
  rw [hbne, hbne2]
  generalize (mv == 0) = mz
  generalize (wv == 0) = wz
  cases truthy r.bymonth <;> cases memO mo r.bymonth <;>
    cases r.bymonthday.isEmpty <;> cases r.bynmonthday.isEmpty <;>
    cases r.bymonthday.contains dd <;> cases r.bynmonthday.contains (dd - daysInMonth yy mo - 1) <;>
    cases truthy r.byyearday <;> cases ya <;> cases yb <;> cases mz <;> cases wz <;> rfl

/-- the Easter mask inside `rebuild`, for a rule with a non-empty BYEASTER tuple of supported offsets -/
theorem eastermaskOf_spec (htr : truthy r.byeaster = true) (el : List Int) (hel : r.byeaster = some el)
    (hoff : ∀ o ∈ el, -80 ≤ o ∧ o ≤ 250) (y : Int) (hy1 : 1583 ≤ y) (hy2 : y ≤ 4099) :
    ∃ emask, eastermaskOf r y (baseInfo y) = .ok (some emask) ∧ (baseInfo y).yearlen ≤ (emask.length : Int) ∧
      ∀ j : Int, 0 ≤ j → j < (baseInfo y).yearlen →
        Py.getIdx emask j = .ok (if ((baseInfo y).yearordinal + j - Spec.RRule.easterOrd y) ∈ el then 1 else 0) := by
  obtain ⟨mask, h1, h2⟩ := eastermask_spec el y hy1 hy2 hoff
  have hne : ∃ e es, el = e :: es := by
    have := htr; rw [hel] at this
    cases el with
    | nil => simp [truthy] at this
    | cons e es => exact ⟨e, es, rfl⟩
  obtain ⟨e, es, hees⟩ := hne
  have hbi : (baseInfo y).yearlen = daysInYear y := by simp only [baseInfo, daysInYear]
  have hbo : (baseInfo y).yearordinal = toOrdinal y 1 1 := rfl
  have hem : eastermaskOf r y (baseInfo y) = .ok (some mask) := by
    unfold eastermaskOf
    rw [hel, hees]
    dsimp only
    rw [hbi, hbo, ← hees, h1]
  have hyl : 365 ≤ daysInYear y := by unfold daysInYear; split <;> omega
  refine ⟨mask, hem, ?_, ?_⟩
  · have := getIdx_ok_len mask (daysInYear y + 6) _ (by omega) (h2 (daysInYear y + 6) (by omega) (by omega))
    rw [hbi]; omega
  · intro j hj0 hj1
    rw [hbo]
    exact h2 j hj0 (by rw [hbi] at hj1; omega)

/-- `rebuild` of a MONTHLY rule with nth weekdays and BYEASTER: both masks -/
theorem rebuild_nth_e (hn : NthERule r) (hf : r.freq = 1) (nwl : List (Int × Int)) (hne : nwl ≠ [])
    (hnw : r.bynweekday = some nwl) (hok : ∀ wn ∈ nwl, (0 ≤ wn.1 ∧ wn.1 ≤ 6) ∧ wn.2 ≠ 0)
    (el : List Int) (hel : r.byeaster = some el) (hoff : ∀ o ∈ el, -80 ≤ o ∧ o ≤ 250)
    (y m : Int) (hy1 : 1583 ≤ y) (hy2 : y ≤ 4099) (hm1 : 1 ≤ m) (hm12 : m ≤ 12) :
    ∃ info nmask emask, rebuild r y m = .ok info ∧
      info.nwdaymask = some nmask ∧ (nmask.length : Int) = info.yearlen ∧
      (∀ j : Int, 0 ≤ j → j < info.yearlen →
        Py.getIdx nmask j = .ok (if ∃ wn ∈ nwl, marks info (daysBeforeMonth y m)
            (daysBeforeMonth y m + daysInMonth y m - 1) j wn then 1 else 0)) ∧
      info.eastermask = some emask ∧ info.yearlen ≤ (emask.length : Int) ∧
      (∀ j : Int, 0 ≤ j → j < info.yearlen →
        Py.getIdx emask j = .ok (if (info.yearordinal + j - Spec.RRule.easterOrd y) ∈ el then 1 else 0)) := by
  have hw : wnomaskOf r y (baseInfo y) = .ok none := by
    unfold wnomaskOf; have := hn.byweekno
    split
    · rename_i h; rw [h] at this; simp [truthy] at this
    · rfl
  obtain ⟨emask, e1, e2, e3⟩ := eastermaskOf_spec hn.byeaster el hel hoff y hy1 hy2
  obtain ⟨nmask, n1, n2, n3⟩ := nwdaymask_monthly (baseInfo_facts r y (by omega) (by omega)) hf nwl hne hnw hok m hm1 hm12
  unfold rebuild
  rw [if_neg (by omega), hw]
  dsimp only
  rw [n1]
  dsimp only
  rw [e1]
  exact ⟨_, nmask, emask, rfl, rfl, n2, n3, rfl, e2, e3⟩

/-! ### the constructed rule -/

theorem ne_rule (na : NthEMArgs a) (h : construct a = .ok r) :
    ∃ bh bm bs, r = { nthRuleOf (stripEas a) bh bm bs with byeaster := some (eastersOf a) } := by
  have h0 := construct_stripEas a r h (ne_noDay na) (nth_noDay (ne_strip na))
  obtain ⟨bh, bm, bs, hr0⟩ := nth_rule (ne_strip na) h0
  obtain ⟨el, hel, _, _⟩ := na.easter
  obtain ⟨sp, bh', bm', bs', ts, _, _, _, _, _, hr⟩ := construct_ok a r h
  have hbe : r.byeaster = some (eastersOf a) := by rw [hr]; unfold eastersOf; rw [hel]; rfl
  refine ⟨bh, bm, bs, ?_⟩
  have : r = { ({ r with byeaster := none } : Rule) with byeaster := r.byeaster } := rfl
  rw [this, hr0, hbe]

theorem ne_cuts (na : NthEMArgs a) (h : construct a = .ok r) : CutsAgree a r := by
  obtain ⟨bh, bm, bs, hr⟩ := ne_rule na h
  rw [hr]; exact ⟨rfl, rfl, rfl⟩

theorem easters_facts (a : Args) (el : List Int) (hel : a.byeaster = some el) (hne : el ≠ [])
    (hoff : ∀ o ∈ el, -80 ≤ o ∧ o ≤ 250) :
    (∀ o ∈ eastersOf a, -80 ≤ o ∧ o ≤ 250) ∧ truthy (some (eastersOf a)) = true := by
  have hmem : ∀ o, o ∈ eastersOf a ↔ o ∈ el := by
    intro o; unfold eastersOf; rw [hel, Option.getD_some, mem_sortBy]
  refine ⟨fun o ho => hoff o ((hmem o).mp ho), ?_⟩
  rw [truthy_eq_not_isEmpty]
  cases hq : eastersOf a with
  | nil =>
    exfalso
    cases el with
    | nil => exact hne rfl
    | cons x xs => have := (hmem x).mpr (List.mem_cons_self ..); rw [hq] at this; simp at this
  | cons _ _ => rfl

theorem ne_nthERule (na : NthEMArgs a) (h : construct a = .ok r) : NthERule r := by
  obtain ⟨bh, bm, bs, hr⟩ := ne_rule na h
  obtain ⟨el, hel, hne, hoff⟩ := na.easter
  rw [hr]; exact ⟨rfl, (easters_facts a el hel hne hoff).2, rfl⟩

/-- **bridge**: inside the month `(y, m)`, calendar predicate ∧ nth mark ∧ Easter clause is `dateOk` -/
theorem ne_bridge (na : NthEMArgs a) (h : construct a = .ok r) (info : Info) (y m d : Int)
    (hy : 1 ≤ y) (hv : ValidYMD y m d) (hyo : info.yearordinal = toOrdinal y 1 1) :
    (simpleOk r (toOrdinal y m d) &&
      decide (∃ wn ∈ nwlOf (stripEas a), marks info (daysBeforeMonth y m) (daysBeforeMonth y m + daysInMonth y m - 1)
        (toOrdinal y m d - info.yearordinal) wn) &&
      decide ((toOrdinal y m d - Spec.RRule.easterOrd y) ∈ eastersOf a)) = Spec.RRule.dateOk a (toOrdinal y m d) := by
  have h0 := construct_stripEas a r h (ne_noDay na) (nth_noDay (ne_strip na))
  have hb := nth_bridge (ne_strip na) h0 info y m d hy hv hyo
  have hs : simpleOk ({ r with byeaster := none } : Rule) (toOrdinal y m d) = simpleOk r (toOrdinal y m d) := rfl
  rw [hs] at hb
  obtain ⟨el, hel, hne, _⟩ := na.easter
  have hfo := fromOrdinal_toOrdinal y m d hy hv
  have hse := specE_year a el hel hne (toOrdinal y m d) y (by rw [hfo])
  rw [dateOk_stripEas a (ne_noDay na) (nth_noDay (ne_strip na)), hb, hse]

/-- "the model state at the start of period `k`" -/
structure NthEGood (a : Args) (r : Rule) (k : Nat) (st : State) : Prop where
  facts : YearFacts r st.cur.year st.info
  month : 1 ≤ st.cur.month ∧ st.cur.month ≤ 12
  timeset : st.timeset = Spec.RRule.timesOf a none none none
  idx : st.cur.year * 12 + (st.cur.month - 1) = a.dtstart.y * 12 + (a.dtstart.m - 1) + k * a.interval
  masks : ∃ nmask emask, st.info.nwdaymask = some nmask ∧ (nmask.length : Int) = st.info.yearlen ∧
    (∀ j : Int, 0 ≤ j → j < st.info.yearlen →
      Py.getIdx nmask j = .ok (if ∃ wn ∈ nwlOf (stripEas a), marks st.info (daysBeforeMonth st.cur.year st.cur.month)
          (daysBeforeMonth st.cur.year st.cur.month + daysInMonth st.cur.year st.cur.month - 1) j wn then 1 else 0)) ∧
    st.info.eastermask = some emask ∧ st.info.yearlen ≤ (emask.length : Int) ∧
    (∀ j : Int, 0 ≤ j → j < st.info.yearlen →
      Py.getIdx emask j =
        .ok (if (st.info.yearordinal + j - Spec.RRule.easterOrd st.cur.year) ∈ eastersOf a then 1 else 0))

theorem ne_rebuild (na : NthEMArgs a) (h : construct a = .ok r) (y m : Int) (hy1 : 1583 ≤ y) (hy2 : y ≤ 4099)
    (hm1 : 1 ≤ m) (hm12 : m ≤ 12) :
    ∃ info nmask emask, rebuild r y m = .ok info ∧
      info.nwdaymask = some nmask ∧ (nmask.length : Int) = info.yearlen ∧
      (∀ j : Int, 0 ≤ j → j < info.yearlen →
        Py.getIdx nmask j = .ok (if ∃ wn ∈ nwlOf (stripEas a), marks info (daysBeforeMonth y m)
            (daysBeforeMonth y m + daysInMonth y m - 1) j wn then 1 else 0)) ∧
      info.eastermask = some emask ∧ info.yearlen ≤ (emask.length : Int) ∧
      (∀ j : Int, 0 ≤ j → j < info.yearlen →
        Py.getIdx emask j = .ok (if (info.yearordinal + j - Spec.RRule.easterOrd y) ∈ eastersOf a then 1 else 0)) := by
  have hn := ne_nthERule na h
  obtain ⟨bh, bm, bs, hr⟩ := ne_rule na h
  have hfreq : r.freq = 1 := by rw [hr]; exact na.freq
  have hnw : r.bynweekday = some (nwlOf (stripEas a)) := by rw [hr]
  have hel' : r.byeaster = some (eastersOf a) := by rw [hr]
  obtain ⟨el, hel, hne', hoff⟩ := na.easter
  obtain ⟨hne, _, hok, _, _⟩ := nth_nwl (ne_strip na)
  exact rebuild_nth_e hn hfreq _ hne hnw hok _ hel' (easters_facts a el hel hne' hoff).1 y m hy1 hy2 hm1 hm12

theorem ne_results (na : NthEMArgs a) (h : construct a = .ok r) (k : Nat) (st : State) (hg : NthEGood a r k st) :
    ∃ fl pre cands, periodResults r st = .ok (cands, none, fl) ∧ Spec.RRule.sel a (k : Int) = pre ++ cands ∧
      (∀ x ∈ pre, x.micros < Spec.RRule.startMicros a ∧ Spec.RRule.afterUntil a x = false) ∧
      (∀ x ∈ cands, 0 ≤ x.ord ∧ x.ord ≤ maxOrdinal) := by
  have hn := ne_nthERule na h
  obtain ⟨bh, bm, bs, hr⟩ := ne_rule na h
  have hfreq : r.freq = 1 := by rw [hr]; exact na.freq
  have hsp := construct_bysetpos a r h
  have htsok : TsOk st.timeset := by
    have := construct_timeset_ok a r h (by rw [na.freq]; omega)
    rw [hr] at this; rw [hg.timeset]; exact this
  have hyo := hg.facts.yearordinal
  have hyl := hg.facts.yearlen
  have hy1 := hg.facts.year_lo
  have hy2 := hg.facts.year_hi
  have hm := hg.month
  have hb := daysInMonth_bounds st.cur.year st.cur.month
  have hpos : 1 ≤ toOrdinal st.cur.year 1 1 :=
    toOrdinal_pos _ _ _ hy1 ⟨by omega, by omega, by omega, by have := daysInMonth_bounds st.cur.year 1; omega⟩
  have hend := year_end_le st.cur.year hy2
  have hd := dayset_monthly st.cur hfreq hg.facts hm.1 hm.2
  have hdbm0 := daysBeforeMonth_mono st.cur.year 1 st.cur.month (by omega) hm.1 (by omega)
  rw [daysBeforeMonth_1] at hdbm0
  have hdbm1 := daysBeforeMonth_mono st.cur.year (st.cur.month + 1) 13 (by omega) (by omega) (by omega)
  rw [daysBeforeMonth_13, daysBeforeMonth_succ _ _ hm.1 hm.2] at hdbm1
  obtain ⟨nmask, emask, hmask, hmlen, hmspec, hemask, helen, hespec⟩ := hg.masks
  have hfil : ∀ i, daysBeforeMonth st.cur.year st.cur.month ≤ i →
      i < daysBeforeMonth st.cur.year st.cur.month + daysInMonth st.cur.year st.cur.month →
      dayFiltered r st.info i = .ok (!(Spec.RRule.dateOk a (st.info.yearordinal + i))) := by
    intro i hi0 hi1
    have hiy : i < st.info.yearlen := by rw [hyl]; omega
    rw [dayFiltered_nth_e hn hg.facts nmask emask hmask hemask i (by omega) hiy hmlen helen]
    have hgi := hmspec i (by omega) hiy
    rw [getIdx_int nmask i (by omega) (by omega)] at hgi
    injection hgi with hgi
    have hei := hespec i (by omega) hiy
    rw [getIdx_int emask i (by omega) (by omega)] at hei
    injection hei with hei
    have hd' : ValidYMD st.cur.year st.cur.month (i - daysBeforeMonth st.cur.year st.cur.month + 1) :=
      ⟨hm.1, hm.2, by omega, by omega⟩
    have hord : st.info.yearordinal + i =
        toOrdinal st.cur.year st.cur.month (i - daysBeforeMonth st.cur.year st.cur.month + 1) := by
      rw [hyo]; unfold toOrdinal; rw [daysBeforeMonth_1]; omega
    have hbr := ne_bridge na h st.info st.cur.year st.cur.month _ hy1 hd' hyo
    rw [← hord] at hbr
    have e : st.info.yearordinal + i - st.info.yearordinal = i := by omega
    rw [e] at hbr
    rw [← hbr, hgi, hei]
    congr 2
    by_cases c : ∃ wn ∈ nwlOf (stripEas a), marks st.info (daysBeforeMonth st.cur.year st.cur.month)
        (daysBeforeMonth st.cur.year st.cur.month + daysInMonth st.cur.year st.cur.month - 1) i wn
    · rw [if_pos c]
      by_cases c2 : (st.info.yearordinal + i - Spec.RRule.easterOrd st.cur.year) ∈ eastersOf a
      · rw [if_pos c2]; simp [c, c2]
      · rw [if_neg c2]; simp [c, c2]
    · rw [if_neg c]
      by_cases c2 : (st.info.yearordinal + i - Spec.RRule.easterOrd st.cur.year) ∈ eastersOf a
      · rw [if_pos c2]; simp [c, c2]
      · rw [if_neg c2]; simp [c, c2]
  obtain ⟨fl, hres⟩ := periodResults_range_P st (Spec.RRule.dateOk a) hfil (by rw [hsp.1]; exact hsp.2) htsok hd
    (by rw [hyo]; omega) (by rw [hyo]; omega)
  have hspan : Spec.RRule.periodSpan a (k * a.interval) =
      (st.info.yearordinal + daysBeforeMonth st.cur.year st.cur.month,
       st.info.yearordinal + (daysBeforeMonth st.cur.year st.cur.month + daysInMonth st.cur.year st.cur.month),
       none, none, none) := by
    unfold Spec.RRule.periodSpan
    rw [if_neg (by simp [na.freq]), if_pos (by simp [na.freq])]
    dsimp only
    have hidx := hg.idx
    have e1 : (a.dtstart.y * 12 + (a.dtstart.m - 1) + k * a.interval) / 12 = st.cur.year := by omega
    have e2 : (a.dtstart.y * 12 + (a.dtstart.m - 1) + k * a.interval) % 12 + 1 = st.cur.month := by omega
    rw [e1, e2, hyo, month_start]
    simp only [Prod.mk.injEq, and_true, true_and]
    omega
  refine ⟨fl, [], Spec.RRule.sel a (k : Int), ?_, rfl, by simp, ?_⟩
  · rw [hres, hg.timeset, sel_span_sp a k _ _ hspan, hsp.1]
  · intro x hx
    rw [sel_span_sp a k _ _ hspan] at hx
    have := sel_bounds _ _ _ _ x (applySetpos_subset _ _ x hx)
    rw [hyo] at this; omega

theorem ne_next (na : NthEMArgs a) (h : construct a = .ok r) (k : Nat) (st : State) (fl : Bool)
    (c : Option Int) (hg : NthEGood a r k st) (hlo : 1583 ≤ a.dtstart.y)
    (hm : (a.dtstart.y * 12 + (a.dtstart.m - 1) + (k + 1 : Nat) * a.interval) / 12 ≤ 4099) :
    ∃ st', advance r { st with count := c } fl = .ok st' ∧ NthEGood a r (k + 1) st' := by
  obtain ⟨bh, bm, bs, hr⟩ := ne_rule na h
  have hfreq : r.freq = 1 := by rw [hr]; exact na.freq
  have hint : r.interval = a.interval := by rw [hr]; rfl
  have hi := na.interval
  have hmth := hg.month
  have hidx := hg.idx
  have hv := na.valid
  unfold DT.Valid ValidDate at hv
  have hm0 : 1 ≤ a.dtstart.m ∧ a.dtstart.m ≤ 12 := ⟨hv.1.2.2.1, hv.1.2.2.2.1⟩
  have ek : ((k + 1 : Nat) : Int) * a.interval = k * a.interval + a.interval := by
    push_cast; rw [Int.add_mul]; omega
  have hk0 : (0 : Int) ≤ k * a.interval := Int.mul_nonneg (by omega) (by omega)
  have hylo : 1583 ≤ st.cur.year := by omega
  have hex : ∃ st', advance r { st with count := c } fl = .ok st' ∧
      ∃ nmask emask, st'.info.nwdaymask = some nmask ∧ (nmask.length : Int) = st'.info.yearlen ∧
        (∀ j : Int, 0 ≤ j → j < st'.info.yearlen →
          Py.getIdx nmask j = .ok (if ∃ wn ∈ nwlOf (stripEas a), marks st'.info (daysBeforeMonth st'.cur.year st'.cur.month)
            (daysBeforeMonth st'.cur.year st'.cur.month + daysInMonth st'.cur.year st'.cur.month - 1) j wn then 1 else 0)) ∧
        st'.info.eastermask = some emask ∧ st'.info.yearlen ≤ (emask.length : Int) ∧
        (∀ j : Int, 0 ≤ j → j < st'.info.yearlen →
          Py.getIdx emask j =
            .ok (if (st'.info.yearordinal + j - Spec.RRule.easterOrd st'.cur.year) ∈ eastersOf a then 1 else 0)) := by
    unfold advance
    dsimp only
    rw [if_neg (by simp [hfreq]), if_pos (by simp [hfreq])]
    split
    · rename_i hgt
      simp only [Py.divmod, Py.fdiv_pos _ (by omega : (0:Int) < 12), Py.fmod_pos _ (by omega : (0:Int) < 12)]
      by_cases c0 : (st.cur.month + r.interval) % 12 = 0
      · have c' : ((st.cur.month + r.interval) % 12 == 0) = true := by simp [c0]
        simp only [c', ↓reduceIte]
        have hle : st.cur.year + (st.cur.month + r.interval) / 12 - 1 ≤ 4099 := by rw [hint]; omega
        rw [if_neg (by omega)]
        obtain ⟨info, nmask, emask, hre, rest⟩ := ne_rebuild na h
          (st.cur.year + (st.cur.month + r.interval) / 12 - 1) 12 (by rw [hint]; omega) hle (by omega) (by omega)
        rw [hre]; exact ⟨_, rfl, nmask, emask, rest⟩
      · have c' : ((st.cur.month + r.interval) % 12 == 0) = false := by simp [c0]
        simp only [c', Bool.false_eq_true, ↓reduceIte]
        have hle : st.cur.year + (st.cur.month + r.interval) / 12 ≤ 4099 := by rw [hint]; omega
        rw [if_neg (by omega)]
        obtain ⟨info, nmask, emask, hre, rest⟩ := ne_rebuild na h
          (st.cur.year + (st.cur.month + r.interval) / 12) ((st.cur.month + r.interval) % 12)
          (by rw [hint]; omega) hle (by omega) (by omega)
        rw [hre]; exact ⟨_, rfl, nmask, emask, rest⟩
    · rename_i hle12
      have hle : st.cur.year ≤ 4099 := by rw [hint] at hle12; omega
      obtain ⟨info, nmask, emask, hre, rest⟩ := ne_rebuild na h
        st.cur.year (st.cur.month + r.interval) hylo hle (by rw [hint]; omega) (by omega)
      rw [hre]; exact ⟨_, rfl, nmask, emask, rest⟩
  obtain ⟨st', hadv, hmk⟩ := hex
  have sp := advance_monthly r { st with count := c } st' fl hfreq (by omega) hmth.1 hmth.2 hadv
  obtain ⟨e, m1, m12, _, f', ts⟩ := sp
  have e : st'.cur.year * 12 + (st'.cur.month - 1) = st.cur.year * 12 + (st.cur.month - 1) + r.interval := e
  exact ⟨st', hadv, ⟨f', ⟨m1, m12⟩, by rw [ts]; exact hg.timeset, by rw [e, hidx, hint]; omega, hmk⟩⟩

theorem ne_init (na : NthEMArgs a) (h : construct a = .ok r) (hlo : 1583 ≤ a.dtstart.y) (hhi : a.dtstart.y ≤ 4099) :
    ∃ st0, init r = .ok st0 ∧ NthEGood a r 0 st0 ∧ st0.count = r.count := by
  obtain ⟨bh, bm, bs, hr⟩ := ne_rule na h
  have hfreq : r.freq = 1 := by rw [hr]; exact na.freq
  have hv := na.valid
  unfold DT.Valid ValidDate at hv
  obtain ⟨info, nmask, emask, hre, rest⟩ := ne_rebuild na h a.dtstart.y a.dtstart.m hlo hhi hv.1.2.2.1 hv.1.2.2.2.1
  have hd : r.dtstart = { a.dtstart with us := 0 } := by rw [hr]; rfl
  have hf : r.freq < 4 := by omega
  have hts : r.timeset = some (Spec.RRule.timesOf a none none none) := by rw [hr]; rfl
  refine ⟨{ cur := { year := a.dtstart.y, month := a.dtstart.m, day := a.dtstart.d, hour := a.dtstart.hh,
                     minute := a.dtstart.mm, second := a.dtstart.ss, weekday := r.dtstart.weekday },
            info := info, timeset := Spec.RRule.timesOf a none none none, count := r.count }, ?_, ?_, rfl⟩
  · unfold init
    simp only [hd, bind, Except.bind, hre, hts, pure, Except.pure]
    rw [if_pos hf]
    rfl
  · exact ⟨rebuild_facts r _ _ info hre, ⟨hv.1.2.2.1, hv.1.2.2.2.1⟩, rfl, by dsimp only; omega, nmask, emask, rest⟩

/-- **`iter_eq_spec`, MONTHLY with nth weekdays and BYEASTER** (nth members only; offsets −80..250, years 1583..4099) -/
theorem iter_eq_spec_monthly_nth_easter (na : NthEMArgs a) (h : construct a = .ok r) (n : Nat)
    (hlo : 1583 ≤ a.dtstart.y) (hm : (a.dtstart.y * 12 + (a.dtstart.m - 1) + n * a.interval) / 12 ≤ 4099) :
    (iter r n).1 = Spec.RRule.occ a n := by
  have hi := na.interval
  have hv := na.valid
  unfold DT.Valid ValidDate at hv
  have hm0 : 1 ≤ a.dtstart.m := hv.1.2.2.1
  have hmono : ∀ k : Nat, k ≤ n → (k : Int) * a.interval ≤ n * a.interval := by
    intro k hk; exact Int.mul_le_mul_of_nonneg_right (by omega) (by omega)
  have hn0 : (0 : Int) ≤ n * a.interval := Int.mul_nonneg (by omega) (by omega)
  have sim : Simulation a r n (NthEGood a r) := {
    agree := ne_cuts na h
    results := fun k st _ hg => ne_results na h k st hg
    next := fun k st fl c hk hg => ne_next na h k st fl c hg hlo (by
      have := hmono (k + 1) (by omega)
      have : (a.dtstart.y * 12 + (a.dtstart.m - 1) + ((k + 1 : Nat) : Int) * a.interval) / 12 ≤
          (a.dtstart.y * 12 + (a.dtstart.m - 1) + n * a.interval) / 12 :=
        Int.ediv_le_ediv (by omega) (by omega)
      omega) }
  obtain ⟨st0, hinit, hg0, hc0⟩ := ne_init na h hlo (by omega)
  exact iter_refines sim st0 hinit hg0 hc0 n (by omega)

-- an NthEMArgs instance: the Friday before Easter as "a 2nd or 3rd or 4th Friday of its month"
example : NthEMArgs { freq := 1, dtstart := ⟨2024, 1, 1, 9, 0, 0, 0⟩, byweekday := some [(4, 2), (4, 3), (4, 4)],
                      byeaster := some [-2] } :=
  ⟨rfl, by decide, by decide, rfl, by intro x hx; simp at hx, ⟨[(4, 2), (4, 3), (4, 4)], rfl, by decide, by decide⟩,
   ⟨[-2], rfl, by decide, by decide⟩⟩

end RRule
