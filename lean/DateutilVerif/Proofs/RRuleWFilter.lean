/-
  Proofs/RRuleWFilter.lean — the BY-filter abstraction for the DAILY and sub-daily families: rules without nth BYDAY
  and BYEASTER whose BYWEEKNO is absent or lies on the complement of D-C01c.  `rebuild` keeps the invariant `WInv`
  (no nth mask; the week-number mask marks the listed weeks), under which the filter of a day of the year is
  `simpleOk ∧ wclause`; on the argument side that is the specification's `dateOk` (`dateOk_split`).
-/
import DateutilVerif.Proofs.RRuleWeeknoYearly
import DateutilVerif.Proofs.RRuleDaily

namespace RRule
open Cal

/-- BYWEEKNO absent, or on the complement of D-C01c with a week start 0..6 -/
def WArg (a : Args) : Prop :=
  a.byweekno = none ∨ ∃ wl, a.byweekno = some wl ∧ wl ≠ [] ∧ WnoOk wl ∧ 0 ≤ a.wkst.getD 0 ∧ a.wkst.getD 0 ≤ 6

structure WRule (r : Rule) : Prop where
  bynweekday : truthy r.bynweekday = false
  byeaster : truthy r.byeaster = false
  weekno : truthy r.byweekno = false ∨
    (truthy r.byweekno = true ∧ ∃ wl, r.byweekno = some wl ∧ WnoOk wl ∧ 0 ≤ r.wkst ∧ r.wkst ≤ 6)

/-- the BYWEEKNO clause of a rule (true when there is none) -/
def wclause (r : Rule) (ord : Int) : Bool :=
  if truthy r.byweekno then weekClause r.wkst (r.byweekno.getD []) ord else true

/-- what `rebuild` establishes for a `WRule` -/
def WInv (r : Rule) (info : Info) : Prop :=
  info.nwdaymask = none ∧
  (truthy r.byweekno = false → info.wnomask = none) ∧
  (truthy r.byweekno = true → ∃ mask, info.wnomask = some mask ∧ (mask.length : Int) = info.yearlen + 7 ∧
    ∀ j : Int, 0 ≤ j → j < info.yearlen →
      Py.getIdx mask j = .ok (if weekClause r.wkst (r.byweekno.getD []) (info.yearordinal + j) = true then 1 else 0))

variable {r : Rule} {y : Int} {info : Info}

/-! ### the `filtered` flag -/

theorem filterDays_flag {info : Info} : ∀ (ds l : List Int) (fl : Bool), filterDays r info ds = .ok (l, fl) → fl = true →
    ∃ i ∈ ds, dayFiltered r info i = .ok true := by
  intro ds
  induction ds with
  | nil => intro l fl h hf; simp [filterDays] at h; rw [h.2] at hf; cases hf
  | cons i is ih =>
    intro l fl h hf
    unfold filterDays at h
    split at h
    · cases h
    · rename_i f hf'
      split at h
      · cases h
      · rename_i l' fl' hrest
        cases f with
        | true => exact ⟨i, List.mem_cons_self .., hf'⟩
        | false =>
          simp only [Bool.false_eq_true, ↓reduceIte] at h
          injection h with h
          injection h with h1 h2
          subst h2
          obtain ⟨j, hj, hjf⟩ := ih l' fl' hrest hf
          exact ⟨j, List.mem_cons_of_mem _ hj, hjf⟩

theorem periodResults_flag (st : State) (ds : List Int) (hds : dayset r st.info st.cur = .ok ds)
    (x : List Inst) (p : Option Py.PyErr) (fl : Bool) (h : periodResults r st = .ok (x, p, fl)) (hf : fl = true) :
    ∃ i ∈ ds, dayFiltered r st.info i = .ok true := by
  unfold periodResults at h
  rw [hds] at h
  dsimp only at h
  split at h
  · cases h
  · rename_i days filtered hfd
    have : filtered = fl := by
      split at h
      · split at h
        · cases h
        · injection h with h; injection h with _ h; injection h with _ h
      · injection h with h; injection h with _ h; injection h with _ h
    subst this
    exact filterDays_flag ds days filtered hfd hf


theorem WRule.simple (hw : WRule r) (h : truthy r.byweekno = false) : SimpleRule r := ⟨h, hw.bynweekday, hw.byeaster⟩

theorem WRule.weeknoRule (hw : WRule r) (h : truthy r.byweekno = true) : WeeknoRule r := ⟨h, hw.bynweekday, hw.byeaster⟩

theorem rebuild_w (hw : WRule r) (y m : Int) (hy1 : 1 ≤ y) (hy2 : y ≤ 9999) :
    ∃ info, rebuild r y m = .ok info ∧ WInv r info := by
  rcases hw.weekno with h | ⟨h, wl, hwl, hok, hk⟩
  · obtain ⟨info, hre, h1, h2, _⟩ := rebuild_simple r (hw.simple h) y m hy1 hy2
    refine ⟨info, hre, ?_⟩
    unfold WInv
    exact ⟨h1, fun _ => h2, fun h' => by rw [h] at h'; cases h'⟩
  · obtain ⟨info, mask, hre, h1, h2, h3, h4⟩ := rebuild_weekno (hw.weeknoRule h) wl hwl hok hk y m hy1 hy2
    refine ⟨info, hre, ?_⟩
    unfold WInv
    refine ⟨h1, fun h' => (by rw [h] at h'; cases h'), fun _ => ⟨mask, h2, h3, ?_⟩⟩
    rw [hwl]; exact h4

theorem dayFiltered_w (hw : WRule r) (f : YearFacts r y info) (inv : WInv r info) (i : Int) (h0 : 0 ≤ i)
    (h1 : i < info.yearlen) :
    dayFiltered r info i = .ok (!(simpleOk r (info.yearordinal + i) && wclause r (info.yearordinal + i))) := by
  unfold wclause
  by_cases h : truthy r.byweekno = true
  · obtain ⟨mask, hm, hlen, hspec⟩ := inv.2.2 h
    rw [dayFiltered_weekno (hw.weeknoRule h) f mask inv.1 hm i h0 h1 (by omega), if_pos h]
    have hgi := hspec i h0 h1
    rw [getIdx_int mask i h0 (by omega)] at hgi
    injection hgi with hgi
    rw [hgi]
    congr 2
    by_cases c : weekClause r.wkst (r.byweekno.getD []) (info.yearordinal + i) = true
    · rw [if_pos c, c]; rfl
    · rw [if_neg c]
      have : weekClause r.wkst (r.byweekno.getD []) (info.yearordinal + i) = false := by
        cases hq : weekClause r.wkst (r.byweekno.getD []) (info.yearordinal + i) with
        | false => rfl
        | true => exact absurd hq c
      rw [this]; rfl
  · have h' : truthy r.byweekno = false := by
      cases hq : truthy r.byweekno with
      | false => rfl
      | true => exact absurd hq h
    rw [dayFiltered_simple (hw.simple h') f inv.1 i h0 (by omega), if_neg h, Bool.and_true]

/-- `fixDay` for a `WRule`: succeeds while the cursor's day number stays in range, and keeps the invariant -/
theorem fixDay_ok_w (hw : WRule r) (st : State) (b : Bool)
    (hm1 : 1 ≤ st.cur.month) (hm12 : st.cur.month ≤ 12) (hd1 : 1 ≤ st.cur.day)
    (hy1 : 1 ≤ st.cur.year) (hy : st.cur.year ≤ 9999) (hle : curOrd st.cur ≤ maxOrdinal)
    (inv : WInv r st.info) :
    ∃ st', fixDay r st b = .ok st' ∧ WInv r st'.info := by
  unfold fixDay
  dsimp only
  split
  · split
    · obtain ⟨⟨y, m, d⟩, hroll⟩ := rollDays_total st.cur.day.toNat st.cur.year st.cur.month st.cur.day
        hm1 hm12 hd1 (by omega) hy hle
      have sp := rollDays_spec st.cur.day.toNat _ _ _ y m d hm1 hm12 hd1 (by omega) hroll
      obtain ⟨info, hre, hinv⟩ := rebuild_w hw y m (by omega) (by omega)
      rw [hroll]; dsimp only
      rw [hre]
      exact ⟨_, rfl, hinv⟩
    · exact ⟨_, rfl, inv⟩
  · exact ⟨_, rfl, inv⟩

/-- the results of a single-day period under the invariant -/
theorem periodResults_day_w (hw : WRule r) (st : State) (f : YearFacts r st.cur.year st.info) (inv : WInv r st.info)
    (hv : ValidYMD st.cur.year st.cur.month st.cur.day) (hf : 3 ≤ r.freq)
    (hnz : ∀ q ∈ r.bysetpos.getD [], q ≠ 0) (hts : TsOk st.timeset) (hle : curOrd st.cur ≤ maxOrdinal) :
    ∃ fl, periodResults r st = .ok
      (applySetpos r.bysetpos
        (((intRange (curOrd st.cur) (curOrd st.cur + 1)).filter (fun o => simpleOk r o && wclause r o)).flatMap
          (fun o => st.timeset.map (mkInst o))), none, fl) ∧
      (fl = true → (simpleOk r (curOrd st.cur) && wclause r (curOrd st.cur)) = false) := by
  have hidx := index_range _ _ _ hv
  have hyo := f.yearordinal
  have hyl := f.yearlen
  have hpos : 1 ≤ curOrd st.cur := toOrdinal_pos _ _ _ f.year_lo hv
  have hd0 := dayset_daily st.cur hf f hv
  have hd : dayset r st.info st.cur =
      .ok (intRange (curOrd st.cur - st.info.yearordinal) (curOrd st.cur - st.info.yearordinal + 1)) := by
    rw [hd0, intRange_one]
  have hi0 : 0 ≤ curOrd st.cur - st.info.yearordinal := by unfold curOrd; rw [hyo]; exact hidx.1
  have hi1 : curOrd st.cur - st.info.yearordinal < st.info.yearlen := by
    unfold curOrd; rw [hyo, hyl]; exact hidx.2
  obtain ⟨fl, hres⟩ := periodResults_range_P st (fun o => simpleOk r o && wclause r o)
    (by intro i hi0' hi1'; exact dayFiltered_w hw f inv i (by omega) (by omega)) hnz hts hd (by omega) (by omega)
  have e1 : st.info.yearordinal + (curOrd st.cur - st.info.yearordinal) = curOrd st.cur := by omega
  have e2 : st.info.yearordinal + (curOrd st.cur - st.info.yearordinal + 1) = curOrd st.cur + 1 := by omega
  rw [e1, e2] at hres
  refine ⟨fl, hres, ?_⟩
  intro hfl
  obtain ⟨i, hi, hfi⟩ := periodResults_flag st _ hd0 _ _ _ hres hfl
  simp only [List.mem_singleton] at hi
  subst hi
  rw [dayFiltered_w hw f inv _ hi0 hi1, e1] at hfi
  injection hfi with hfi
  cases hq : (simpleOk r (curOrd st.cur) && wclause r (curOrd st.cur)) with
  | false => rfl
  | true => rw [hq] at hfi; cases hfi

/-! ### the argument side -/

/-- the same argument set at DAILY and without BYWEEKNO: at FREQ ≥ DAILY the other date-level parts are
    normalised and read identically -/
def asDaily0 (a : Args) : Args := { a with freq := 3, byweekno := none }

/-- the BYWEEKNO conjunct of `dateOk` -/
def specW (a : Args) (ord : Int) : Bool :=
  match a.byweekno with
  | some (x :: xs) => (x :: xs).contains (Spec.RRule.weekOf (Spec.RRule.wkst a) ord).1 ||
      (x :: xs).contains ((Spec.RRule.weekOf (Spec.RRule.wkst a) ord).1 - (Spec.RRule.weekOf (Spec.RRule.wkst a) ord).2 - 1)
  | _ => true

theorem dateOk_split (a : Args) (hf : 3 ≤ a.freq) (ord : Int) :
    Spec.RRule.dateOk a ord = (Spec.RRule.dateOk (asDaily0 a) ord && specW a ord) := by
  have f0 : (a.freq == 0) = false := by rw [beq_eq_false_iff_ne]; omega
  have f1 : (a.freq == 1) = false := by rw [beq_eq_false_iff_ne]; omega
  have f2 : (a.freq == 2) = false := by rw [beq_eq_false_iff_ne]; omega
  have fg : decide (a.freq > 1) = true := by rw [decide_eq_true_eq]; omega
  unfold Spec.RRule.dateOk Spec.RRule.months Spec.RRule.monthdays Spec.RRule.weekdays specW asDaily0
  have g0 : ((3 : Int) == 0) = false := by decide
  have g1 : ((3 : Int) == 1) = false := by decide
  have g2 : ((3 : Int) == 2) = false := by decide
  have gg : decide ((3 : Int) > 1) = true := by decide
  simp only [f0, f1, f2, fg, g0, g1, g2, gg, Bool.and_false, Bool.or_self, Bool.false_eq_true, ↓reduceIte, Bool.or_true,
    Bool.true_or]
  rcases a.byweekno with _ | (_ | ⟨x, xs⟩) <;> dsimp only <;> (try simp only [Bool.and_true]) <;> (try ac_rfl)

theorem wclause_eq_specW (a : Args) (r : Rule) (hbw : r.byweekno = a.byweekno.map sortedSet)
    (hwk : r.wkst = a.wkst.getD 0) (ord : Int) : wclause r ord = specW a ord := by
  unfold wclause specW
  rw [hbw, hwk]
  rcases hq : a.byweekno with _ | (_ | ⟨x, xs⟩)
  · rfl
  · rfl
  · have ht : truthy (Option.map sortedSet (some (x :: xs))) = true := by
      rw [Option.map_some, truthy_eq_not_isEmpty, isEmpty_sortedSet]; rfl
    rw [if_pos ht]
    unfold weekClause
    simp only [Option.map_some, Option.getD_some, contains_sortedSet]
    rfl

theorem date_fields_asDaily0 (a : Args) (hf : 3 ≤ a.freq) :
    bymonthdayOf (asDaily0 a) = bymonthdayOf a ∧ bynmonthdayOf (asDaily0 a) = bynmonthdayOf a ∧
    byweekdayOf (asDaily0 a) = byweekdayOf a := by
  have f0 : (a.freq == 0) = false := by rw [beq_eq_false_iff_ne]; omega
  have f1 : (a.freq == 1) = false := by rw [beq_eq_false_iff_ne]; omega
  have f2 : (a.freq == 2) = false := by rw [beq_eq_false_iff_ne]; omega
  have fg : decide (a.freq > 1) = true := by rw [decide_eq_true_eq]; omega
  have hm : monthdayArg (asDaily0 a) = monthdayArg a := by
    unfold monthdayArg asDaily0; simp [f0, f1]
  have hw : weekdayArg (asDaily0 a) = weekdayArg a := by
    unfold weekdayArg asDaily0; simp [f2]
  have hp : ∀ l, plainWeekdays (asDaily0 a) l = plainWeekdays a l := by
    intro l; unfold plainWeekdays asDaily0; simp [fg]
  refine ⟨by unfold bymonthdayOf; rw [hm], by unfold bynmonthdayOf; rw [hm], ?_⟩
  unfold byweekdayOf; rw [hw]
  cases weekdayArg a with
  | none => rfl
  | some l => dsimp only; rw [hp]

/-- **bridge** for a family at FREQ ≥ DAILY: filter predicate of the rule = `dateOk` of the arguments -/
theorem wOk_eq_dateOk (a : Args) (r : Rule) (hf : 3 ≤ a.freq) (hdw : DWArgs (asDaily0 a))
    (h1 : r.bymonth = a.bymonth.map sortedSet) (h2 : r.bymonthday = bymonthdayOf a)
    (h3 : r.bynmonthday = bynmonthdayOf a) (h4 : r.byyearday = a.byyearday.map sortedSet)
    (h5 : r.byweekday = byweekdayOf a) (hbw : r.byweekno = a.byweekno.map sortedSet)
    (hwk : r.wkst = a.wkst.getD 0) (ord : Int) (ho : 1 ≤ ord) :
    (simpleOk r ord && wclause r ord) = Spec.RRule.dateOk a ord := by
  obtain ⟨e1, e2, e3⟩ := date_fields_asDaily0 a hf
  have hs : simpleOk r ord = simpleOk (dailyRuleOf (asDaily0 a) none none none) ord := by
    unfold simpleOk
    rw [h1, h2, h3, h4, h5]
    dsimp only
    rw [e1, e2, e3]
    rfl
  rw [hs, simpleOk_rule_eq_dateOk hdw none none none ord ho, wclause_eq_specW a r hbw hwk, dateOk_split a hf]

/-- the rule of an argument set with `WArg` is a `WRule` -/
theorem wrule_of (a : Args) (r : Rule) (hwa : WArg a) (hbw : r.byweekno = a.byweekno.map sortedSet)
    (hwk : r.wkst = a.wkst.getD 0) (hn : truthy r.bynweekday = false) (he : truthy r.byeaster = false) : WRule r := by
  refine ⟨hn, he, ?_⟩
  rcases hwa with h | ⟨wl, hwl, hne, hok, hk⟩
  · left; rw [hbw, h]; rfl
  · right
    refine ⟨?_, sortedSet wl, by rw [hbw, hwl]; rfl, ?_, by rw [hwk]; exact hk⟩
    · rw [hbw, hwl, Option.map_some, truthy_eq_not_isEmpty, isEmpty_sortedSet]
      cases wl with
      | nil => exact absurd rfl hne
      | cons _ _ => rfl
    · exact ⟨fun h => by simp only [mem_sortedSet] at h ⊢; exact hok.last h,
             fun h => by simp only [mem_sortedSet] at h ⊢; exact hok.first h⟩

end RRule
