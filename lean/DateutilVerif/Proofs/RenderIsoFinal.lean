/-
  Proofs/RenderIsoFinal.lean — lexer + token scan = `parse` on `YYYY-MM-DD<sep><time><offset>`.
-/
import DateutilVerif.Proofs.LexRender
import DateutilVerif.Proofs.RenderIsoHms
import DateutilVerif.Proofs.RenderIsoFrac
import DateutilVerif.Proofs.RenderIsoHm

namespace PM
open Py PT

section
variable (cls : Char → CClass) [AsciiOK cls]

/-- the date part and the separator -/
theorem lex_isoDate (y m d : Nat) (sep : Char) (hsep : sep = 'T' ∨ sep = ' ') (k : Nat) (ks : List Nat) (rest : List Char) :
    scan cls .init (pad4 y ++ ['-'] ++ pad2 m ++ ['-'] ++ pad2 d ++ [sep] ++ (dtok (k :: ks) ++ rest)) =
      isoDateTokens y m d [sep] ++ scan cls .init (dtok (k :: ks) ++ rest) := by
  simp only [List.append_assoc, List.singleton_append, List.cons_append, List.nil_append]
  rw [lex_pad4 cls y _ (numEnds_ascii cls _ _ (by decide)), lex_punct cls '-' _ (by decide),
      lex_pad2 cls m _ (numEnds_ascii cls _ _ (by decide)), lex_punct cls '-' _ (by decide)]
  rcases hsep with rfl | rfl
  · rw [lex_pad2 cls d _ (numEnds_ascii cls _ _ (by decide))]
    have := lex_aword cls 'T' [] (dtok (k :: ks) ++ rest) (by decide) (wordEnds_dtok cls k ks rest)
    simp only [List.cons_append, List.nil_append] at this
    rw [this]
    rfl
  · rw [lex_pad2 cls d _ (numEnds_ascii cls _ _ (by decide)), lex_sp]
    rfl

/-- the fraction token and what `_parsems` makes of it, for 1 to 6 digits -/
theorem frac_token (s us k : Nat) (hs : s < 100) (hus : us < 1000000) (hk1 : 1 ≤ k) (hk6 : k ≤ 6) (comma : Bool)
    (rest : List Char) (he : FracEnds cls rest) :
    ∃ F : Token, scan cls .init (pad2 s ++ [if comma then ',' else '.'] ++ (pad6 us).take k ++ rest) = F :: scan cls .init rest ∧
      parsems cls F = .ok (s, us / 10 ^ (6 - k) * 10 ^ (6 - k)) := by
  have hcomma : (cls ',').isNum = false := by rw [AsciiOK.agree (cls := cls) ',' (by decide)]; decide
  have hdot : (cls '.').isNum = false := by rw [AsciiOK.agree (cls := cls) '.' (by decide)]; decide
  have hsepc : ((if comma then ',' else '.') = '.' ∨ ((if comma then ',' else '.') = ',' ∧ (pad2 s).length ≥ 2)) ∧
      (cls (if comma then ',' else '.')).isNum = false := by
    cases comma <;> simp [hcomma, hdot, pad2]
  have hd2 := drun_dtok cls [s / 10, s]
  have key : ∀ (b : Nat) (bs : List Nat), bs.length < 6 → (pad6 us).take k = dtok (b :: bs) →
      dval ((b :: bs) ++ List.replicate (5 - bs.length) 0) = us / 10 ^ (6 - k) * 10 ^ (6 - k) →
      ∃ F : Token, scan cls .init (pad2 s ++ [if comma then ',' else '.'] ++ (pad6 us).take k ++ rest) = F :: scan cls .init rest ∧
        parsems cls F = .ok (s, us / 10 ^ (6 - k) * 10 ^ (6 - k)) := by
    intro b bs hbs htake hval
    refine ⟨dtok [s / 10, s] ++ '.' :: dtok (b :: bs), ?_, ?_⟩
    · rw [htake]
      have := lex_frac cls (digitChar (s / 10)) [digitChar s] (if comma then ',' else '.') (digitChar b) (bs.map digitChar) rest
        hsepc.1 hsepc.2 hd2 (drun_dtok cls (b :: bs)) he
      simpa [pad2, dtok, List.append_assoc] using this
    · rw [parsems_frac cls (s / 10) [s] b bs (by simp) hbs, hval, dval_pad2 s hs]
  have h6 : us < 1000000 := hus
  rcases k with _ | _ | _ | _ | _ | _ | _ | k
  · omega
  · exact key (us / 100000) [] (by simp) rfl (by simp [dval, dvalAcc]; omega)
  · exact key (us / 100000) [us / 10000] (by simp) rfl (by simp [dval, dvalAcc]; omega)
  · exact key (us / 100000) [us / 10000, us / 1000] (by simp) rfl (by simp [dval, dvalAcc]; omega)
  · exact key (us / 100000) [us / 10000, us / 1000, us / 100] (by simp) rfl (by simp [dval, dvalAcc]; omega)
  · exact key (us / 100000) [us / 10000, us / 1000, us / 100, us / 10] (by simp) rfl (by simp [dval, dvalAcc]; omega)
  · exact key (us / 100000) [us / 10000, us / 1000, us / 100, us / 10, us] (by simp) rfl (by simp [dval, dvalAcc]; omega)
  · omega

/-- fraction digit counts 1..6 -/
def timeFmtDom : TimeFmt → Prop
  | .frac _ k => 1 ≤ k ∧ k ≤ 6
  | _ => True

theorem parse_isoX (yf : Bool) (year century : Int) (o : Opts) (tznames : List Token) (tzi : TzInfos)
    (ho : PlainOpts o tzi) (dflt : DT) (hdv : dflt.Valid) (t : DT) (ht : t.Valid) (sep : Char) (hsep : sep = 'T' ∨ sep = ' ')
    (f : TimeFmt) (hf : timeFmtDom f) (off : Off) (hoff : off.Dom) :
    parse cls (Info.default false yf year century) o tznames tzi dflt (renderIsoX sep f t off) =
      .ok { dt := f.expect t dflt, tz := if o.ignoretz then .naive else offDescr tznames off, tokens := none } := by
  obtain ⟨⟨hy1, hy2, hm1, hm2, hd1, hd2⟩, hh1, hh2, hmi1, hmi2, hs1, hs2, hu1, hu2⟩ := ht
  have hdim := (Cal.daysInMonth_bounds t.y t.m).2
  have ey : ((t.y.toNat : Nat) : Int) = t.y := Int.toNat_of_nonneg (by omega)
  have em : ((t.m.toNat : Nat) : Int) = t.m := Int.toNat_of_nonneg (by omega)
  have ed : ((t.d.toNat : Nat) : Int) = t.d := Int.toNat_of_nonneg (by omega)
  have eh : ((t.hh.toNat : Nat) : Int) = t.hh := Int.toNat_of_nonneg (by omega)
  have emi : ((t.mm.toNat : Nat) : Int) = t.mm := Int.toNat_of_nonneg (by omega)
  have es : ((t.ss.toNat : Nat) : Int) = t.ss := Int.toNat_of_nonneg (by omega)
  have eu : ((t.us.toNat : Nat) : Int) = t.us := Int.toNat_of_nonneg (by omega)
  have hS : ([sep] : Token) = ['T'] ∨ ([sep] : Token) = [' '] := by rcases hsep with rfl | rfl <;> simp
  unfold parse lex
  cases f with
  | hms =>
    have e : renderIsoX sep .hms t off = pad4 t.y.toNat ++ ['-'] ++ pad2 t.m.toNat ++ ['-'] ++ pad2 t.d.toNat ++ [sep] ++
        (dtok [t.hh.toNat / 10, t.hh.toNat] ++ (':' :: (pad2 t.mm.toNat ++ (':' :: (pad2 t.ss.toNat ++ off.render))))) := by
      simp [renderIsoX, isoDate, TimeFmt.render, pad2_dtok]
    rw [e, lex_isoDate cls _ _ _ sep hsep, lex_dtok cls _ _ _ (numEnds_ascii cls _ _ (by decide)), lex_punct cls ':' _ (by decide),
        lex_pad2 cls _ _ (numEnds_ascii cls _ _ (by decide)), lex_punct cls ':' _ (by decide),
        lex_pad2 cls _ _ (numEnds_off cls off), lex_off]
    have hv : (DT.mk (t.y.toNat : Nat) (t.m.toNat : Nat) (t.d.toNat : Nat) (t.hh.toNat : Nat) (t.mm.toNat : Nat)
        (t.ss.toNat : Nat) ((0 : Nat) : Int)).Valid := by
      rw [ey, em, ed, eh, emi, es]
      exact ⟨⟨hy1, hy2, hm1, hm2, hd1, hd2⟩, hh1, hh2, hmi1, hmi2, hs1, hs2, by simp, by simp⟩
    have := tok_iso_hms cls yf year century o tznames tzi ho dflt _ _ _ _ _ _ 0 [sep] hS hv off hoff rfl
    rw [ey, em, ed, eh, emi, es] at this
    simpa [TimeFmt.expect, List.append_assoc] using this
  | hm =>
    obtain ⟨_, _, _, _, _, hds1, hds2, hdu1, hdu2⟩ := hdv
    have eds : ((dflt.ss.toNat : Nat) : Int) = dflt.ss := Int.toNat_of_nonneg (by omega)
    have edu : ((dflt.us.toNat : Nat) : Int) = dflt.us := Int.toNat_of_nonneg (by omega)
    have e : renderIsoX sep .hm t off = pad4 t.y.toNat ++ ['-'] ++ pad2 t.m.toNat ++ ['-'] ++ pad2 t.d.toNat ++ [sep] ++
        (dtok [t.hh.toNat / 10, t.hh.toNat] ++ (':' :: (pad2 t.mm.toNat ++ off.render))) := by
      simp [renderIsoX, isoDate, TimeFmt.render, pad2_dtok]
    rw [e, lex_isoDate cls _ _ _ sep hsep, lex_dtok cls _ _ _ (numEnds_ascii cls _ _ (by decide)), lex_punct cls ':' _ (by decide),
        lex_pad2 cls _ _ (numEnds_off cls off), lex_off]
    have hv : (DT.mk (t.y.toNat : Nat) (t.m.toNat : Nat) (t.d.toNat : Nat) (t.hh.toNat : Nat) (t.mm.toNat : Nat)
        (dflt.ss.toNat : Nat) (dflt.us.toNat : Nat)).Valid := by
      rw [ey, em, ed, eh, emi, eds, edu]
      exact ⟨⟨hy1, hy2, hm1, hm2, hd1, hd2⟩, hh1, hh2, hmi1, hmi2, hds1, hds2, hdu1, hdu2⟩
    have := tok_iso_hm cls yf year century o tznames tzi ho dflt _ _ _ _ _ _ _ [sep] hS hv off hoff eds.symm edu.symm
    rw [ey, em, ed, eh, emi, eds, edu] at this
    simpa [TimeFmt.expect, List.append_assoc] using this
  | frac comma k =>
    obtain ⟨hk1, hk6⟩ := hf
    have e : renderIsoX sep (.frac comma k) t off = pad4 t.y.toNat ++ ['-'] ++ pad2 t.m.toNat ++ ['-'] ++ pad2 t.d.toNat ++ [sep] ++
        (dtok [t.hh.toNat / 10, t.hh.toNat] ++ (':' :: (pad2 t.mm.toNat ++ (':' ::
          (pad2 t.ss.toNat ++ [if comma then ',' else '.'] ++ (pad6 t.us.toNat).take k ++ off.render))))) := by
      simp [renderIsoX, isoDate, TimeFmt.render, pad2_dtok]
    obtain ⟨F, hlexF, hpF⟩ := frac_token cls t.ss.toNat t.us.toNat k (by omega) (by omega) hk1 hk6 comma off.render
      (fracEnds_off cls off)
    rw [e, lex_isoDate cls _ _ _ sep hsep, lex_dtok cls _ _ _ (numEnds_ascii cls _ _ (by decide)), lex_punct cls ':' _ (by decide),
        lex_pad2 cls _ _ (numEnds_ascii cls _ _ (by decide)), lex_punct cls ':' _ (by decide), hlexF, lex_off]
    have hq : t.us.toNat / 10 ^ (6 - k) * 10 ^ (6 - k) ≤ t.us.toNat := Nat.div_mul_le_self _ _
    have hcast : ((t.us.toNat / 10 ^ (6 - k) * 10 ^ (6 - k) : Nat) : Int) = t.us / 10 ^ (6 - k) * 10 ^ (6 - k) := by
      rw [Int.natCast_mul, Int.natCast_ediv, eu]; simp
    have hv : (DT.mk (t.y.toNat : Nat) (t.m.toNat : Nat) (t.d.toNat : Nat) (t.hh.toNat : Nat) (t.mm.toNat : Nat)
        (t.ss.toNat : Nat) ((t.us.toNat / 10 ^ (6 - k) * 10 ^ (6 - k) : Nat) : Int)).Valid := by
      rw [ey, em, ed, eh, emi, es]
      have hle : ((t.us.toNat / 10 ^ (6 - k) * 10 ^ (6 - k) : Nat) : Int) ≤ (t.us.toNat : Int) := by exact_mod_cast hq
      refine ⟨⟨hy1, hy2, hm1, hm2, hd1, hd2⟩, hh1, hh2, hmi1, hmi2, hs1, hs2, ?_, ?_⟩
      · exact Int.natCast_nonneg _
      · show ((t.us.toNat / 10 ^ (6 - k) * 10 ^ (6 - k) : Nat) : Int) ≤ 999999
        omega
    have := tok_iso_frac cls yf year century o tznames tzi ho dflt _ _ _ _ _ _ _ [sep] hS hv off hoff F hpF
    rw [ey, em, ed, eh, emi, es, hcast] at this
    simpa [TimeFmt.expect, List.append_assoc] using this

end
end PM
