/-
  Proofs/RRuleGenLoops.lean — the loops of the re-translated `_iterinfo.rebuild` (Generated/RRuleKernels.lean:
  one auxiliary function per `for`) against the recursions / folds of the hand model (`markWeek`, `wnoStep`,
  `markNth`, the easter offsets, the BYMONTH ranges).
-/
import DateutilVerif.Generated.RRuleKernels

namespace RRuleGen
open RRule RrPy

/-- a computed mask stored in its slot -/
def okSome (x : Py.R (List Int)) : Py.R (Option (List Int)) :=
  match x with
  | .ok m => .ok (some m)
  | .error e => .error e

@[simp] theorem okSome_ok (m : List Int) : okSome (.ok m) = .ok (some m) := rfl
@[simp] theorem okSome_error (e : Py.PyErr) : okSome (.error e) = .error e := rfl

@[simp] theorem ok_bind {α β} (a : α) (f : α → Py.R β) : (Except.ok a : Py.R α).bind f = f a := rfl
@[simp] theorem error_bind {α β} (e : Py.PyErr) (f : α → Py.R β) : (Except.error e : Py.R α).bind f = .error e := rfl

theorem okSome_bind_left {β} (x : Py.R (List Int)) (k : Option (List Int) → Py.R β) :
    (okSome x).bind k = x.bind fun v => k (some v) := by cases x <;> rfl

theorem okSome_bind {α} (x : Py.R α) (k : α → Py.R (List Int)) :
    okSome (x.bind k) = x.bind fun v => okSome (k v) := by cases x <;> rfl

theorem setItem_eq_setIdx (l : List Int) (i v : Int) : RrPy.setItem l i v = RRule.setIdx l i v := rfl

theorem setItemO_some (l : List Int) (i v : Int) : RrPy.setItemO (some l) i v = okSome (RRule.setIdx l i v) := by
  simp only [RrPy.setItemO, setItem_eq_setIdx]
  cases RRule.setIdx l i v <;> rfl

/-- the week-marking loop (`for j in range(7): mask[i] = 1; i += 1; if wdaymask[i] == wkst: break`) -/
theorem markWeek_loop (loop : List Int → Option (List Int) → Int → Py.R (Option (List Int)))
    (wdaymask : List Int) (wkst : Int)
    (hnil : ∀ m i, loop [] m i = .ok m)
    (hcons : ∀ j rest m i, loop (j :: rest) m i =
      (RrPy.setItemO m i 1).bind fun m' => (Py.getIdx wdaymask (i + 1)).bind fun t =>
        if t = wkst then .ok m' else loop rest m' (i + 1))
    (l : List Int) (mask : List Int) (i : Int) :
    loop l (some mask) i = okSome (markWeek wdaymask wkst l.length mask i) := by
  induction l generalizing mask i with
  | nil => simp [hnil, markWeek]
  | cons j rest ih =>
    simp only [hcons, setItemO_some, List.length_cons, markWeek]
    cases RRule.setIdx mask i 1 with
    | error e => rfl
    | ok m' =>
      simp only [okSome_ok, Except.bind]
      cases Py.getIdx wdaymask (i + 1) with
      | error e => rfl
      | ok t =>
        simp only [Except.bind]
        by_cases h : t = wkst
        · simp [h]
        · simp [h, ih]

theorem rebuild_loop2_eq (r : Rule) (wdaymask l mask : List Int) (i : Int) :
    Gen.rebuild_loop2 r wdaymask l (some mask) i = okSome (markWeek wdaymask r.wkst l.length mask i) :=
  markWeek_loop (Gen.rebuild_loop2 r wdaymask) wdaymask r.wkst (fun _ _ => rfl) (fun _ _ _ _ => rfl) l mask i

theorem rebuild_loop3_eq (r : Rule) (wdaymask l mask : List Int) (i : Int) :
    Gen.rebuild_loop3 r wdaymask l (some mask) i = okSome (markWeek wdaymask r.wkst l.length mask i) :=
  markWeek_loop (Gen.rebuild_loop3 r wdaymask) wdaymask r.wkst (fun _ _ => rfl) (fun _ _ _ _ => rfl) l mask i

theorem length_intRange' (a b : Int) : (intRange a b).length = (b - a).toNat := by simp [intRange]

/-- a loop `for x in l: mask = step(mask, x)` (with `continue` = keep the mask) is the model's `foldlM` -/
theorem foldlM_loop {α} (loop : List α → Option (List Int) → Py.R (Option (List Int)))
    (step : List Int → α → Py.R (List Int))
    (hnil : ∀ m, loop [] m = .ok m)
    (hcons : ∀ x rest mask, loop (x :: rest) (some mask) =
      (step mask x).bind fun m' => loop rest (some m'))
    (l : List α) (mask : List Int) :
    loop l (some mask) = okSome (l.foldlM step mask) := by
  induction l generalizing mask with
  | nil => simp [hnil, pure, Except.pure]
  | cons x rest ih =>
    simp only [hcons, List.foldlM_cons, bind]
    cases step mask x with
    | error e => rfl
    | ok m' => simp only [Except.bind, ih]

/-- the BYWEEKNO loop -/
theorem rebuild_loop1_eq (r : Rule) (firstwkst no1wkst numweeks : Int) (wdaymask l mask : List Int) :
    Gen.rebuild_loop1 r firstwkst no1wkst numweeks wdaymask l (some mask) =
      okSome (l.foldlM (wnoStep wdaymask r.wkst no1wkst numweeks (if no1wkst ≠ firstwkst then 7 - firstwkst else 0)) mask) := by
  apply foldlM_loop
  · intro m; rfl
  · intro n rest mask
    simp only [Gen.rebuild_loop1, wnoStep, bind, pure, Except.pure]
    have e1 : n + (numweeks + 1) = n + numweeks + 1 := by omega
    by_cases hn : n < 0
    · by_cases h2 : 0 < n + numweeks + 1 ∧ n + numweeks + 1 ≤ numweeks
      · by_cases h3 : n + numweeks + 1 > 1 <;> by_cases h4 : no1wkst = firstwkst <;>
          simp [hn, e1, h2, h3, h4, rebuild_loop2_eq, length_intRange', okSome_bind_left] <;> (intro hc; omega)
      · simp [hn, e1, h2, Except.bind]
    · by_cases h2 : 0 < n ∧ n ≤ numweeks
      · by_cases h3 : n > 1 <;> by_cases h4 : no1wkst = firstwkst <;>
          simp [hn, h2, h3, h4, rebuild_loop2_eq, length_intRange', okSome_bind_left] <;> (intro hc; omega)
      · simp [hn, h2, Except.bind]

/-- `for i in range(no1wkst): self.wnomask[i] = 1` -/
theorem rebuild_loop4_eq (l mask : List Int) :
    Gen.rebuild_loop4 l (some mask) = okSome (l.foldlM (fun mask i => setIdx mask i 1) mask) := by
  apply foldlM_loop
  · intro m; rfl
  · intro i rest mask
    simp only [Gen.rebuild_loop4, setItemO_some, bind, okSome_bind_left]

/-- `for offset in rr._byeaster: self.eastermask[eyday+offset] = 1` -/
theorem rebuild_loop8_eq (eyday : Int) (l mask : List Int) :
    Gen.rebuild_loop8 eyday l (some mask) = okSome (l.foldlM (fun mask off => setIdx mask (eyday + off) 1) mask) := by
  apply foldlM_loop
  · intro m; rfl
  · intro i rest mask
    simp only [Gen.rebuild_loop8, setItemO_some, bind, okSome_bind_left]

/-- `for wday, n in rr._bynweekday` inside one `(first, last)` range -/
theorem rebuild_loop7_eq (first last : Int) (wdaymask : List Int) (l : List (Int × Int)) (mask : List Int) :
    Gen.rebuild_loop7 first last wdaymask l (some mask) = okSome (l.foldlM (markNth wdaymask first last) mask) := by
  apply foldlM_loop
  · intro m; rfl
  · intro wn rest mask
    obtain ⟨wday, n⟩ := wn
    simp only [Gen.rebuild_loop7, markNth, bind, pure, Except.pure]
    by_cases hn : n < 0
    · simp only [hn, if_true]
      by_cases h1 : last + (n + 1) * 7 < first
      · simp [h1]
      · simp only [h1, if_false]
        cases Py.getIdx wdaymask (last + (n + 1) * 7) with
        | error e => rfl
        | ok w =>
          simp only [ok_bind, Py.fmod_pos _ (by decide : (0 : Int) < 7)]
          by_cases h2 : first ≤ last + (n + 1) * 7 - (w - wday) % 7 ∧ last + (n + 1) * 7 - (w - wday) % 7 ≤ last
          · simp [h2, setItemO_some, okSome_bind_left]
          · simp [h2]
    · simp only [hn, if_false]
      by_cases h1 : first + (n - 1) * 7 > last
      · simp [h1]
      · simp only [h1, if_false]
        cases Py.getIdx wdaymask (first + (n - 1) * 7) with
        | error e => rfl
        | ok w =>
          simp only [ok_bind, Py.fmod_pos _ (by decide : (0 : Int) < 7)]
          by_cases h2 : first ≤ first + (n - 1) * 7 + (7 - w + wday) % 7 ∧ first + (n - 1) * 7 + (7 - w + wday) % 7 ≤ last
          · simp [h2, setItemO_some, okSome_bind_left]
          · simp [h2]

/-- the model's treatment of one element of `ranges` (`for first, last in ranges: last -= 1; for wday, n in …`) -/
def rangeStep (wdaymask : List Int) (nwl : List (Int × Int)) (mask : List Int) (rg : List Int) : Py.R (List Int) :=
  match rg with
  | [first, last] => nwl.foldlM (markNth wdaymask first (last - 1)) mask
  | _ => throw Py.PyErr.ValueError

theorem rebuild_loop6_eq (r : Rule) (nwl : List (Int × Int)) (hn : r.bynweekday = some nwl) (wdaymask : List Int)
    (ranges : List (List Int)) (mask : List Int) :
    Gen.rebuild_loop6 r wdaymask ranges (some mask) = okSome (ranges.foldlM (rangeStep wdaymask nwl) mask) := by
  apply foldlM_loop
  · intro m; rfl
  · intro rg rest mask
    simp only [Gen.rebuild_loop6, hn, RrPy.iterO, bind, rangeStep]
    match rg with
    | [] => rfl
    | [_] => rfl
    | [first, last] => simp only [RrPy.unpack2, ok_bind, rebuild_loop7_eq, okSome_bind_left]
    | _ :: _ :: _ :: _ => rfl

/-- `for month in rr._bymonth: ranges.append(self.mrange[month-1:month+1])`; `month` keeps the last member -/
theorem rebuild_loop5_eq (mrange : List Int) (l : List Int) (month : Int) (ranges : List (List Int)) :
    Gen.rebuild_loop5 mrange l month ranges =
      (l.mapM (fun m => Py.slice mrange (some (m - 1)) (some (m + 1)) none)).bind fun sl =>
        .ok (l.getLast?.getD month, ranges ++ sl) := by
  induction l generalizing month ranges with
  | nil => simp [Gen.rebuild_loop5, pure, Except.pure]
  | cons m rest ih =>
    simp only [Gen.rebuild_loop5, List.mapM_cons, bind, pure, Except.pure]
    cases Py.slice mrange (some (m - 1)) (some (m + 1)) none with
    | error e => rfl
    | ok sl =>
      simp only [ok_bind, ih]
      cases List.mapM (fun m => Py.slice mrange (some (m - 1)) (some (m + 1)) none) rest with
      | error e => rfl
      | ok sls =>
        simp only [ok_bind, List.append_assoc, List.singleton_append]
        cases rest with
        | nil => simp
        | cons a b =>
          simp only [List.getLast?_cons_cons]
          cases h : (a :: b).getLast? with
          | none => simp at h
          | some v => simp

end RRuleGen
