/-
  Proofs/RRuleStrMalformed.lean — unknown and malformed `NAME=VALUE` parts make `_parse_rfc_rrule`
  fail (and the failure is a ValueError), wherever in the line they stand (C13).
-/
import DateutilVerif.Proofs.RRuleStrErrors

namespace RRuleStr
open ICal (isSpace upper splitOnChar pyInt rstrip strip isDigit splitLines)

variable {po : ParseOpts}

/-- the seventeen names that have a `_handle_*` method -/
def handledNames : List (List Char) :=
  [lit "INTERVAL", lit "COUNT", lit "BYSETPOS", lit "BYMONTH", lit "BYMONTHDAY", lit "BYYEARDAY", lit "BYEASTER",
   lit "BYWEEKNO", lit "BYHOUR", lit "BYMINUTE", lit "BYSECOND", lit "FREQ", lit "UNTIL", lit "WKST",
   lit "BYWEEKDAY", lit "BYDAY"]

def intNames : List (List Char) := [lit "INTERVAL", lit "COUNT"]
def intListNames : List (List Char) :=
  [lit "BYSETPOS", lit "BYMONTH", lit "BYMONTHDAY", lit "BYYEARDAY", lit "BYEASTER",
   lit "BYWEEKNO", lit "BYHOUR", lit "BYMINUTE", lit "BYSECOND"]
def dayNames : List (List Char) := [lit "BYWEEKDAY", lit "BYDAY"]

/-- a part fails in every state -/
def StepFails (po : ParseOpts) (p : List Char) : Prop := ∀ a, stepPair po a p = .error .ValueError

theorem stepFails_of_handleU {p name value : List Char} {e : Py.PyErr} (hs : splitOnChar '=' p = [name, value])
    (h : handleU po (upper name) (upper value) = .error e) : StepFails po p := by
  intro a; unfold stepPair; rw [hs]; simp only [handle, h]

/-- a failing part anywhere in the list makes the whole loop fail with ValueError -/
theorem foldlM_stepPair_fails {p : List Char} (hp : StepFails po p) : ∀ (ps : List (List Char)) (a : RArgs),
    p ∈ ps → ps.foldlM (stepPair po) a = .error .ValueError
  | [], _, h => by simp at h
  | q :: qs, a, h => by
    rw [List.foldlM_cons]
    cases hq : stepPair po a q with
    | error e => rw [stepPair_onlyVE a q e hq]; rfl
    | ok a' =>
      rcases List.mem_cons.mp h with rfl | h
      · rw [hp a] at hq; cases hq
      · exact foldlM_stepPair_fails hp qs a' h

theorem parseRRuleLine_fails {line value p : List Char} (hv : lineValue line = .ok value)
    (hp : p ∈ splitOnChar ';' value) (hbad : StepFails po p) : parseRRuleLine po line = .error .ValueError := by
  unfold parseRRuleLine
  rw [hv]
  exact foldlM_stepPair_fails hbad _ _ hp

theorem mapM_fails {α β : Type} {f : α → Py.R β} {x : α} {e : Py.PyErr} (hx : f x = .error e) :
    ∀ (l : List α), x ∈ l → ∃ e', l.mapM f = .error e'
  | [], h => by simp at h
  | y :: l, h => by
    rw [List.mapM_cons]
    cases hy : f y with
    | error e' => exact ⟨e', rfl⟩
    | ok b =>
      rcases List.mem_cons.mp h with rfl | h
      · rw [hx] at hy; cases hy
      · obtain ⟨e', he'⟩ := mapM_fails hx l h
        exact ⟨e', by rw [he']; rfl⟩

/-- the classes of bad parts -/
inductive BadPart : List Char → Prop
  /-- `name, value = pair.split('=')` does not unpack: no `=` or more than one -/
  | notPair (p : List Char) (h : (splitOnChar '=' p).length ≠ 2) : BadPart p
  /-- no `_handle_NAME` -/
  | unknown (p name value : List Char) (hs : splitOnChar '=' p = [name, value]) (h : upper name ∉ handledNames) : BadPart p
  /-- INTERVAL / COUNT with a non-integer -/
  | badInt (p name value : List Char) (hs : splitOnChar '=' p = [name, value]) (hn : upper name ∈ intNames)
      (h : pyInt (upper value) = none) : BadPart p
  /-- an integer-list part with a non-integer item (an empty item included) -/
  | badIntItem (p name value item : List Char) (hs : splitOnChar '=' p = [name, value]) (hn : upper name ∈ intListNames)
      (hi : item ∈ splitOnChar ',' (upper value)) (h : pyInt item = none) : BadPart p
  | badFreq (p name value : List Char) (hs : splitOnChar '=' p = [name, value]) (hn : upper name = lit "FREQ")
      (h : lookup freqMap (upper value) = none) : BadPart p
  | badWkst (p name value : List Char) (hs : splitOnChar '=' p = [name, value]) (hn : upper name = lit "WKST")
      (h : lookup weekdayMap (upper value) = none) : BadPart p
  /-- BYDAY / BYWEEKDAY with an item `parseWDay` rejects (see `parseWDay_empty`, `parseWDay_zero…`, `parseWDay_unknown_name`) -/
  | badDay (p name value item : List Char) (e : Py.PyErr) (hs : splitOnChar '=' p = [name, value]) (hn : upper name ∈ dayNames)
      (hi : item ∈ splitOnChar ',' (upper value)) (h : parseWDay item = .error e) : BadPart p

theorem handleU_unknown (name value : List Char) (h : name ∉ handledNames) : handleU po name value = .error .AttributeError := by
  simp only [handledNames, List.mem_cons, List.not_mem_nil, or_false, not_or] at h
  obtain ⟨h1, h2, h3, h4, h5, h6, h7, h8, h9, h10, h11, h12, h13, h14, h15, h16⟩ := h
  unfold handleU
  simp [h1, h2, h3, h4, h5, h6, h7, h8, h9, h10, h11, h12, h13, h14, h15, h16]

theorem intList_fails {value item : List Char} (hi : item ∈ splitOnChar ',' value) (h : pyInt item = none) :
    ∃ e, intList value = .error e :=
  mapM_fails (f := int!) (e := .ValueError) (by simp [int!, h]) _ hi

theorem badPart_fails {p : List Char} (h : BadPart p) : StepFails po p := by
  cases h with
  | notPair h =>
    intro a; unfold stepPair; split
    · next heq => rw [heq] at h; simp at h
    · rfl
  | unknown name value hs h => exact stepFails_of_handleU hs (handleU_unknown _ _ h)
  | badInt name value hs hn h =>
    simp only [intNames, List.mem_cons, List.not_mem_nil, or_false] at hn
    rcases hn with hn | hn <;>
      exact stepFails_of_handleU (e := .ValueError) hs (by rw [hn]; simp [handleU, int!, h, lit, bind, Except.bind])
  | badIntItem name value item hs hn hi h =>
    obtain ⟨e, he⟩ := intList_fails hi h
    simp only [intListNames, List.mem_cons, List.not_mem_nil, or_false] at hn
    rcases hn with hn | hn | hn | hn | hn | hn | hn | hn | hn <;>
      exact stepFails_of_handleU (e := e) hs (by rw [hn]; simp [handleU, he, lit, bind, Except.bind])
  | badFreq name value hs hn h =>
    exact stepFails_of_handleU (e := .KeyError) hs (by rw [hn]; simp [handleU, h, lit])
  | badWkst name value hs hn h =>
    exact stepFails_of_handleU (e := .KeyError) hs (by rw [hn]; simp [handleU, h, lit])
  | badDay name value item e hs hn hi h =>
    obtain ⟨e', he⟩ := mapM_fails h _ hi
    simp only [dayNames, List.mem_cons, List.not_mem_nil, or_false] at hn
    rcases hn with hn | hn <;>
      exact stepFails_of_handleU (e := e') hs (by rw [hn]; simp [handleU, he, lit, bind, Except.bind])

/-! concrete rejected BYDAY items -/

theorem parseWDay_empty : parseWDay [] = .error .ValueError := by decide

end RRuleStr
