/-
  Proofs/FactoryInv.lean — invariants of the factory state machine (Model/Factory.lean):
  per-thread invariant `TI`, global invariant `GI`, the guarantee `Guar` every thread step gives
  to the other threads, and their preservation (rely/guarantee).
-/
import DateutilVerif.Model.Factory

namespace Fact

/-- pcs at which the thread holds the cache lock -/
def inLocked : Pc → Bool
  | .xTouch | .xLen | .xEvict | .xRel | .xRelX => true
  | .lGet | .lTest | .lAlloc | .lInit | .lSdRead | .lSdWrite => true
  | .gGet | .gTest | .gAlloc | .gInit | .gCheck | .gStore | .gRelE => true
  | .sSet | .sLoop | .sPop | .sRel => true
  | .cWeak | .cStrong | .cRel => true
  | _ => false

/-- which factory kind can be at a pc -/
def kindOK (kd : Kind) : Pc → Prop
  | .lAcq | .lGet | .lTest | .lAlloc | .lInit | .lSdRead | .lSdWrite => kd = .lru
  | .xTouch | .xLen | .xEvict | .xRel | .xRet | .xRelX => kd ≠ .single
  | .gAcq | .gGet | .gTest | .gAlloc | .gInit | .gCheck | .gStore | .gRelE | .gRetE => kd = .gettz
  | .sAcq | .sSet | .sLoop | .sPop | .sRel => kd = .gettz
  | .cAcq | .cWeak | .cStrong | .cRel => kd = .gettz
  | .uTest | .uAlloc | .uInit | .uStore | .uRet => kd = .single
  | _ => True

def pcInv (res : Key → Res) (g : Glob) (th : Thread) : Prop :=
  match th.pc with
  | .lGet => g.strong.length ≤ g.cap
  | .lTest => (∀ i, th.inst = some i → g.weak th.key = some i) ∧ (th.inst = none → g.weak th.key = none)
                ∧ g.strong.length ≤ g.cap
  | .lAlloc => g.weak th.key = none ∧ g.strong.length ≤ g.cap
  | .lInit => g.weak th.key = none ∧ g.strong.length ≤ g.cap ∧ ∃ i, th.tmp = some i
  | .lSdRead => g.weak th.key = none ∧ g.strong.length ≤ g.cap ∧ ∃ i, th.tmp = some i ∧ i ∈ g.inited
  | .lSdWrite => g.weak th.key = none ∧ g.strong.length ≤ g.cap ∧ (∃ i, th.tmp = some i ∧ i ∈ g.inited)
                  ∧ th.seen = none
  | .xTouch => (∃ i, th.inst = some i ∧ g.weak th.key = some i) ∧ g.strong.length ≤ g.cap
  | .xLen => (∃ i, th.inst = some i ∧ g.weak th.key = some i) ∧ g.strong.length ≤ g.cap + 1
  | .xEvict => (∃ i, th.inst = some i ∧ g.weak th.key = some i) ∧ g.strong.length ≤ g.cap + 1 ∧ g.strong ≠ []
  | .xRel => (∃ i, th.inst = some i ∧ g.weak th.key = some i) ∧ g.strong.length ≤ g.cap
  | .xRelX => g.strong.length ≤ g.cap
  | .gGet => g.strong.length ≤ g.cap
  | .gTest => (∀ i, th.inst = some i → g.weak th.key = some i) ∧ (th.inst = none → g.weak th.key = none)
                ∧ g.strong.length ≤ g.cap
  | .gAlloc => g.weak th.key = none ∧ g.strong.length ≤ g.cap
  | .gInit => g.weak th.key = none ∧ g.strong.length ≤ g.cap ∧ (∃ i, th.tmp = some i) ∧ res th.key ≠ .none
  | .gCheck => g.weak th.key = none ∧ g.strong.length ≤ g.cap
                ∧ (res th.key ≠ .none → ∃ i, th.inst = some i ∧ i ∈ g.inited)
  | .gStore => g.weak th.key = none ∧ g.strong.length ≤ g.cap ∧ ∃ i, th.inst = some i ∧ i ∈ g.inited
  | .gRelE => g.strong.length ≤ g.cap
  | .sLoop => g.cap = th.arg
  | .sPop => g.cap = th.arg ∧ g.strong ≠ []
  | .sRel => g.strong.length ≤ g.cap
  | .cRel => g.strong.length ≤ g.cap
  | .fInit => ∃ i, th.tmp = some i
  | .uInit => ∃ i, th.tmp = some i
  | .uStore => ∃ i, th.tmp = some i ∧ i ∈ g.inited
  | .uRet => g.single ≠ none
  | _ => True

/-- every strong-cache entry is the live object of its key -/
def SW (g : Glob) : Prop := ∀ e ∈ g.strong, g.weak e.1 = some e.2

/-- … while a thread is inside a critical section (except between the two statements of cache_clear) -/
def TS (g : Glob) (th : Thread) : Prop := inLocked th.pc = true → th.pc ≠ .cStrong → SW g

structure TI (kd : Kind) (res : Key → Res) (t : Tid) (g : Glob) (th : Thread) : Prop where
  lockIff : inLocked th.pc = true ↔ g.lock = some t
  kind : kindOK kd th.pc
  instLt : ∀ i, th.inst = some i → i < g.next
  tmpLt : ∀ i, th.tmp = some i → i < g.next
  seenLt : ∀ i, th.seen = some i → i < g.next
  pc : pcInv res g th

structure GI (kd : Kind) (g : Glob) : Prop where
  heldWeak : kd ≠ .single → ∀ r ∈ g.held, r.ep = g.epoch → g.weak r.key = some r.id
  heldEp : ∀ r ∈ g.held, r.ep ≤ g.epoch
  heldUniq : kd ≠ .single → ∀ r ∈ g.held, ∀ r' ∈ g.held, r.key = r'.key → r.ep = r'.ep → r.id = r'.id
  weakInited : ∀ k i, g.weak k = some i → i ∈ g.inited
  lenFree : g.lock = none → g.strong.length ≤ g.cap
  weakLt : ∀ k i, g.weak k = some i → i < g.next
  strongLt : ∀ e ∈ g.strong, e.2 < g.next
  heldLt : ∀ r ∈ g.held, r.id < g.next
  singleLt : ∀ i, g.single = some i → i < g.next
  initedLt : ∀ i ∈ g.inited, i < g.next
  sharedInited : ∀ e ∈ g.shared, e.2 ∈ g.inited

/-- what a step of thread `t` guarantees to every other thread -/
structure Guar (kd : Kind) (t : Tid) (g g' : Glob) : Prop where
  weak : ∀ k, g'.weak k = g.weak k ∨ (g.weak k = none ∧ g.lock = some t) ∨ (kd = .gettz ∧ g.lock = some t)
  noLock : g.lock ≠ some t → g'.strong = g.strong ∧ g'.cap = g.cap ∧ g'.epoch = g.epoch ∧
            (g'.lock = g.lock ∨ (g.lock = none ∧ g'.lock = some t))
  hasLock : g.lock = some t → (g'.lock = some t ∨ g'.lock = none)
  next : g.next ≤ g'.next
  inited : ∀ i ∈ g.inited, i ∈ g'.inited
  single : g.single ≠ none → g'.single ≠ none

theorem touch_length_le (od : List (Key × Id)) (k : Key) (d : Id) : (touch od k d).length ≤ od.length + 1 := by
  simp only [touch, List.length_append, List.length_cons, List.length_nil]
  have := List.length_filter_le (fun e : Key × Id => e.1 != k) od
  omega

theorem touch_ne_nil (od : List (Key × Id)) (k : Key) (d : Id) : touch od k d ≠ [] := by
  simp [touch]

theorem lookup_mem {od : List (Key × Id)} {k : Key} {v : Id} (h : od.lookup k = some v) : (k, v) ∈ od := by
  induction od with
  | nil => simp at h
  | cons e rest ih =>
    obtain ⟨a, b⟩ := e
    simp only [List.lookup] at h
    split at h
    · rename_i heq
      simp at heq h
      subst heq; subst h; simp
    · exact List.mem_cons_of_mem _ (ih h)

theorem touch_snd_lt {od : List (Key × Id)} {k : Key} {d n : Id} (hod : ∀ e ∈ od, e.2 < n) (hd : d < n) :
    ∀ e ∈ touch od k d, e.2 < n := by
  intro e he
  simp only [touch, List.mem_append, List.mem_filter, List.mem_singleton] at he
  rcases he with ⟨h1, _⟩ | rfl
  · exact hod e h1
  · cases hl : od.lookup k with
    | none => simpa using hd
    | some v => simpa using hod _ (lookup_mem hl)


theorem sw_touch {g : Glob} {k : Key} {d : Id} (h : SW g) (hd : g.weak k = some d) :
    ∀ e ∈ touch g.strong k d, g.weak e.1 = some e.2 := by
  intro e he
  simp only [touch, List.mem_append, List.mem_filter, List.mem_singleton] at he
  rcases he with ⟨h1, _⟩ | rfl
  · exact h e h1
  · cases hl : g.strong.lookup k with
    | none => simpa using hd
    | some v => simpa using h _ (lookup_mem hl)

theorem sw_upd {g : Glob} {k : Key} {v : Option Id} (h : SW g) (hk : g.weak k = none) :
    ∀ e ∈ g.strong, upd g.weak k v e.1 = some e.2 := by
  intro e he
  have := h e he
  by_cases hkk : e.1 = k
  · rw [hkk, hk] at this; cases this
  · simpa [upd, hkk] using this

end Fact
