/-
  Proofs/RRuleNthYM.lean — YEARLY with BYMONTH and nth weekdays counted inside each listed month
  ("the 4th Thursday of November", "the last Monday of May"): the mask over several month ranges.
-/
import DateutilVerif.Proofs.RRuleNthYearly

namespace RRule
open Cal

variable {r : Rule} {y : Int} {info : Info}

/-- the `(first, last)` slice of a month, as `rebuild` takes it from `mrange` -/
def monthRange (y m : Int) : List Int := [daysBeforeMonth y m, daysBeforeMonth y (m + 1)]

theorem ranges_ok (f : YearFacts r y info) : ∀ (months : List Int), (∀ m ∈ months, 1 ≤ m ∧ m ≤ 12) →
    months.mapM (fun m => Py.slice info.mrange (some (m - 1)) (some (m + 1)) none) = .ok (months.map (monthRange y)) := by
  intro months
  induction months with
  | nil => intro _; rfl
  | cons m ms ih =>
    intro hb
    have hm := hb m (List.mem_cons_self ..)
    rw [List.mapM_cons, f.mrange, mrange_slice _ m hm.1 hm.2]
    have := ih (fun x hx => hb x (List.mem_cons_of_mem _ hx))
    rw [f.mrange] at this
    simp only [bind, Except.bind, this, pure, Except.pure, List.map_cons]
    rfl

/-- what `rebuild` does with one range: all pairs of BYDAY inside it (a range is a 2-element slice) -/
def markRange (wdaymask : List Int) (nwl : List (Int × Int)) (mask : List Int) (rg : List Int) : Py.R (List Int) :=
  match rg with
  | [first, last] => nwl.foldlM (markNth wdaymask first (last - 1)) mask
  | _ => .error .ValueError

theorem foldlM_congr {g1 g2 : List Int → List Int → Py.R (List Int)} (a : List Int) (l : List (List Int))
    (h : ∀ m rg, g1 m rg = g2 m rg) : List.foldlM g1 a l = List.foldlM g2 a l := by
  have : g1 = g2 := funext fun m => funext fun rg => h m rg
  rw [this]

/-- all pairs of BYDAY inside all listed months -/
theorem ranges_fold (f : YearFacts r y info) (nwl : List (Int × Int))
    (hok : ∀ wn ∈ nwl, (0 ≤ wn.1 ∧ wn.1 ≤ 6) ∧ wn.2 ≠ 0) :
    ∀ (months : List Int) (mask : List Int),
    (∀ m ∈ months, 1 ≤ m ∧ m ≤ 12) → (mask.length : Int) = info.yearlen →
    ∃ mask', (months.map (monthRange y)).foldlM (markRange info.wdaymask nwl) mask = .ok mask' ∧
      mask'.length = mask.length ∧
      ∀ j : Int, 0 ≤ j → j < info.yearlen →
        Py.getIdx mask' j = (if ∃ m ∈ months, ∃ wn ∈ nwl, marks info (daysBeforeMonth y m)
            (daysBeforeMonth y m + daysInMonth y m - 1) j wn then .ok 1 else Py.getIdx mask j) := by
  intro months
  induction months with
  | nil => intro mask _ _; exact ⟨mask, rfl, rfl, by intro j _ _; simp⟩
  | cons m ms ih =>
    intro mask hb hlen
    have hm := hb m (List.mem_cons_self ..)
    have hs := daysBeforeMonth_succ y m hm.1 hm.2
    have hbd := daysInMonth_bounds y m
    have hdbm0 := daysBeforeMonth_mono y 1 m (by omega) hm.1 (by omega)
    rw [daysBeforeMonth_1] at hdbm0
    have hdbm1 := daysBeforeMonth_mono y (m + 1) 13 (by omega) (by omega) (by omega)
    rw [daysBeforeMonth_13, ← f.yearlen] at hdbm1
    have e2 : daysBeforeMonth y (m + 1) - 1 = daysBeforeMonth y m + daysInMonth y m - 1 := by rw [hs]
    obtain ⟨m1, h1, hl1, hg1⟩ := markNth_fold f (daysBeforeMonth y m) (daysBeforeMonth y m + daysInMonth y m - 1)
      hdbm0 (by omega) nwl mask hlen hok
    obtain ⟨m2, h2, hl2, hg2⟩ := ih m1 (fun x hx => hb x (List.mem_cons_of_mem _ hx)) (by rw [hl1]; exact hlen)
    refine ⟨m2, ?_, by rw [hl2, hl1], ?_⟩
    · rw [List.map_cons, List.foldlM_cons]
      unfold monthRange
      simp only [bind, Except.bind, markRange, e2, h1]
      exact h2
    · intro j hj0 hj1
      rw [hg2 j hj0 hj1, hg1 j hj0 hj1]
      by_cases c1 : ∃ m' ∈ ms, ∃ wn ∈ nwl, marks info (daysBeforeMonth y m')
          (daysBeforeMonth y m' + daysInMonth y m' - 1) j wn
      · rw [if_pos c1, if_pos]
        obtain ⟨m', hm', rest⟩ := c1
        exact ⟨m', List.mem_cons_of_mem _ hm', rest⟩
      · rw [if_neg c1]
        by_cases c2 : ∃ wn ∈ nwl, marks info (daysBeforeMonth y m) (daysBeforeMonth y m + daysInMonth y m - 1) j wn
        · rw [if_pos c2, if_pos ⟨m, List.mem_cons_self .., c2⟩]
        · rw [if_neg c2, if_neg]
          rintro ⟨m', hm', rest⟩
          rcases List.mem_cons.mp hm' with rfl | hm'
          · exact c2 rest
          · exact c1 ⟨m', hm', rest⟩

/-- **the nth-weekday mask of a YEARLY rule with BYMONTH**: marked exactly the nth weekdays of the
    listed months, each counted inside its own month -/
theorem nwdaymask_yearly_bymonth (f : YearFacts r y info) (hf : r.freq = 0) (months : List Int)
    (hbm : r.bymonth = some months) (hmne : months ≠ []) (hmb : ∀ m ∈ months, 1 ≤ m ∧ m ≤ 12)
    (nwl : List (Int × Int)) (hne : nwl ≠ [])
    (hnw : r.bynweekday = some nwl) (hok : ∀ wn ∈ nwl, (0 ≤ wn.1 ∧ wn.1 ≤ 6) ∧ wn.2 ≠ 0) (month : Int) :
    ∃ mask, buildNwdaymask r info.yearlen info.mrange info.wdaymask month = .ok (some mask) ∧
      (mask.length : Int) = info.yearlen ∧
      ∀ j : Int, 0 ≤ j → j < info.yearlen →
        Py.getIdx mask j = .ok (if ∃ m ∈ months, ∃ wn ∈ nwl, marks info (daysBeforeMonth y m)
            (daysBeforeMonth y m + daysInMonth y m - 1) j wn then 1 else 0) := by
  have hyl := f.yearlen
  have hylen : 365 ≤ info.yearlen ∧ info.yearlen ≤ 366 := by rw [hyl]; unfold daysInYear; split <;> omega
  have htr : truthy r.bymonth = true := by
    rw [hbm]; cases months with
    | nil => exact absurd rfl hmne
    | cons _ _ => rfl
  have hlen0 : ((List.replicate info.yearlen.toNat (0 : Int)).length : Int) = info.yearlen := by
    rw [List.length_replicate]; omega
  unfold buildNwdaymask
  rw [hnw]
  cases hnwl : nwl with
  | nil => exact absurd hnwl hne
  | cons nw0 nws =>
    subst hnwl
    simp only [bind, Except.bind]
    rw [if_pos (by simp [hf]), htr]
    simp only [↓reduceIte, hbm, Option.getD_some, ranges_ok f months hmb]
    have hne2 : (months.map (monthRange y)).isEmpty = false := by
      cases months with
      | nil => exact absurd rfl hmne
      | cons _ _ => rfl
    simp only [hne2, Bool.false_eq_true, ↓reduceIte, pure, Except.pure]
    obtain ⟨mask, h1, hl2, h3⟩ := ranges_fold f (nw0 :: nws) hok months _ hmb hlen0
    generalize hX : (List.foldlM (m := Except Py.PyErr) _
      (List.replicate info.yearlen.toNat (0 : Int)) (List.map (monthRange y) months) : Py.R (List Int)) = X
    have hXm : X = Except.ok mask := by
      rw [← hX, ← h1]
      apply foldlM_congr
      intro m rg
      rcases rg with _ | ⟨a1, _ | ⟨a2, _ | ⟨a3, t⟩⟩⟩ <;> rfl
    subst hXm
    refine ⟨mask, rfl, by rw [hl2]; exact hlen0, ?_⟩
    intro j hj0 hj1
    rw [h3 j hj0 hj1]
    split
    · rfl
    · rw [getIdx_int _ j hj0 (by rw [hlen0]; exact hj1)]
      simp

theorem rebuild_nth_ym (hn : NthRule r) (hf : r.freq = 0) (months : List Int)
    (hbm : r.bymonth = some months) (hmne : months ≠ []) (hmb : ∀ m ∈ months, 1 ≤ m ∧ m ≤ 12)
    (nwl : List (Int × Int)) (hne : nwl ≠ [])
    (hnw : r.bynweekday = some nwl) (hok : ∀ wn ∈ nwl, (0 ≤ wn.1 ∧ wn.1 ≤ 6) ∧ wn.2 ≠ 0)
    (y m : Int) (hy1 : 1 ≤ y) (hy2 : y ≤ 9999) :
    ∃ info mask, rebuild r y m = .ok info ∧ info.nwdaymask = some mask ∧ (mask.length : Int) = info.yearlen ∧
      ∀ j : Int, 0 ≤ j → j < info.yearlen →
        Py.getIdx mask j = .ok (if ∃ m' ∈ months, ∃ wn ∈ nwl, marks info (daysBeforeMonth y m')
            (daysBeforeMonth y m' + daysInMonth y m' - 1) j wn then 1 else 0) := by
  have hw : wnomaskOf r y (baseInfo y) = .ok none := by
    unfold wnomaskOf; have := hn.byweekno
    split
    · rename_i h; rw [h] at this; simp [truthy] at this
    · rfl
  have he : eastermaskOf r y (baseInfo y) = .ok none := by
    unfold eastermaskOf; have := hn.byeaster
    split
    · rename_i h; rw [h] at this; simp [truthy] at this
    · rfl
  obtain ⟨mask, h1, h2, h3⟩ := nwdaymask_yearly_bymonth (baseInfo_facts r y hy1 hy2) hf months hbm hmne hmb
    nwl hne hnw hok m
  unfold rebuild
  rw [if_neg (by omega), hw]
  dsimp only
  rw [h1]
  dsimp only
  rw [he]
  exact ⟨_, mask, rfl, rfl, h2, h3⟩

/-- "marked by the pair `wn` inside the month `(y, m)`" is the specification's nth-weekday test, for a
    date of that month, whenever the specification counts inside the month -/
theorem marks_iff_nthOk (a : Args) (info : Info) (y m d : Int) (hv : ValidYMD y m d)
    (hyo : info.yearordinal = toOrdinal y 1 1)
    (hin : (a.freq == 1 || (a.freq == 0 && !(Spec.RRule.months a).isEmpty)) = true)
    (hf1 : ¬ a.freq > 1) (wn : Int × Int) (hn0 : wn.2 ≠ 0) :
    marks info (daysBeforeMonth y m) (daysBeforeMonth y m + daysInMonth y m - 1)
      (toOrdinal y m d - info.yearordinal) wn ↔
    (wn.1 == weekdayOfOrd (toOrdinal y m d) &&
      (wn.2 == 0 || decide (a.freq > 1) || Spec.RRule.nthOk a (toOrdinal y m d) y m wn.2)) = true := by
  obtain ⟨hm1, hm12, hd1, hd2⟩ := hv
  have hj : toOrdinal y m d - info.yearordinal = daysBeforeMonth y m + d - 1 := by
    rw [hyo]; unfold toOrdinal; rw [daysBeforeMonth_1]; omega
  unfold marks nthAt Spec.RRule.nthOk
  have e0 : info.yearordinal + (toOrdinal y m d - info.yearordinal) = toOrdinal y m d := by omega
  rw [e0, hj]
  have hfirst : toOrdinal y m 1 = toOrdinal y m d - (d - 1) := by unfold toOrdinal; omega
  have hlast : toOrdinal y m (daysInMonth y m) = toOrdinal y m d + (daysInMonth y m - d) := by
    unfold toOrdinal; omega
  have hfd : decide (a.freq > 1) = false := by simp [hf1]
  simp only [hin, ↓reduceIte, hfirst, hlast, hfd, Bool.or_false, Bool.and_eq_true, beq_iff_eq, Bool.or_eq_true]
  constructor
  · rintro ⟨_, _, hw, hn⟩
    refine ⟨hw.symm, Or.inr ?_⟩
    split at hn
    · rename_i hp; rw [if_pos hp]; simp only [beq_iff_eq]; omega
    · rename_i hp; rw [if_neg hp]; simp only [beq_iff_eq]; omega
  · rintro ⟨hw, hn | hn⟩
    · exact absurd hn hn0
    · refine ⟨by omega, by omega, hw.symm, ?_⟩
      split
      · rename_i hp; rw [if_pos hp] at hn; simp only [beq_iff_eq] at hn; omega
      · rename_i hp; rw [if_neg hp] at hn; simp only [beq_iff_eq] at hn; omega

/-- YEARLY argument sets with BYMONTH and nth weekdays counted inside each listed month -/
structure NthYMArgs (a : Args) : Prop where
  freq : a.freq = 0
  interval : 1 ≤ a.interval
  valid : a.dtstart.Valid
  byweekno : a.byweekno = none
  byeaster : a.byeaster = none
  monthday_nz : ∀ x ∈ a.bymonthday.getD [], x ≠ 0
  months : ∃ lm, a.bymonth = some lm ∧ lm ≠ [] ∧ ∀ m ∈ lm, 1 ≤ m ∧ m ≤ 12
  weekdays : ∃ l, a.byweekday = some l ∧ l ≠ [] ∧ ∀ w ∈ l, (0 ≤ w.1 ∧ w.1 ≤ 6) ∧ w.2 ≠ 0

variable {a : Args}

/-- the month list of the constructed rule -/
def monthsOf (a : Args) : List Int := sortedSet (a.bymonth.getD [])

theorem nthym_noDay (na : NthYMArgs a) : noDayParts a = false := by
  obtain ⟨l, hl, _, _⟩ := na.weekdays
  unfold noDayParts; simp [hl]

theorem nthym_months (na : NthYMArgs a) :
    monthsOf a ≠ [] ∧ (∀ m, m ∈ monthsOf a ↔ m ∈ a.bymonth.getD []) ∧ (∀ m ∈ monthsOf a, 1 ≤ m ∧ m ≤ 12) := by
  obtain ⟨lm, hlm, hne, hb⟩ := na.months
  have hmem : ∀ m, m ∈ monthsOf a ↔ m ∈ lm := by
    intro m; unfold monthsOf; rw [hlm, Option.getD_some, mem_sortedSet]
  refine ⟨?_, by rw [hlm]; exact hmem, fun m hm => hb m ((hmem m).mp hm)⟩
  intro hnil
  cases lm with
  | nil => exact hne rfl
  | cons x xs => have := (hmem x).mpr (List.mem_cons_self ..); rw [hnil] at this; simp at this

theorem nthym_nwl (na : NthYMArgs a) :
    nwlOf a ≠ [] ∧ (∀ wn, wn ∈ nwlOf a ↔ wn ∈ a.byweekday.getD []) ∧
    (∀ wn ∈ nwlOf a, (0 ≤ wn.1 ∧ wn.1 ≤ 6) ∧ wn.2 ≠ 0) ∧
    byweekdayOf a = none ∧ bynweekdayOf a = some (nwlOf a) := by
  obtain ⟨l, hl, hne, hok⟩ := na.weekdays
  have hwa : weekdayArg a = some l := by unfold weekdayArg; simp [nthym_noDay na, hl]
  have hfil : l.filter (fun w => !(w.2 == 0 || decide (a.freq > 1))) = l := by
    apply List.filter_eq_self.mpr; intro w hw
    have := (hok w hw).2
    simp [na.freq, this]
  have hfil2 : l.filter (fun w => w.2 == 0 || decide (a.freq > 1)) = [] := by
    apply List.filter_eq_nil_iff.mpr; intro w hw
    have := (hok w hw).2
    simp [na.freq, this]
  have hmem : ∀ wn, wn ∈ nwlOf a ↔ wn ∈ l := by
    intro wn; unfold nwlOf nthWeekdays; rw [hl, Option.getD_some, hfil, mem_sortBy, mem_dedup]
  have hplain : plainWeekdays a l = [] := by unfold plainWeekdays; rw [hfil2]; rfl
  refine ⟨?_, by rw [hl]; exact hmem, fun wn hwn => hok wn ((hmem wn).mp hwn), ?_, ?_⟩
  · intro hnil
    cases l with
    | nil => exact hne rfl
    | cons w ws => have := (hmem w).mpr (List.mem_cons_self ..); rw [hnil] at this; simp at this
  · unfold byweekdayOf; rw [hwa]; simp [hplain]
  · unfold bynweekdayOf; rw [hwa]; simp only [hplain, List.isEmpty_nil, ↓reduceIte]
    unfold nwlOf; rw [hl]; rfl

theorem nthym_rule (na : NthYMArgs a) (h : construct a = .ok r) : ∃ bh bm bs, r = nthRuleOf a bh bm bs := by
  have hts := construct_timeset a r h (by rw [na.freq]; omega)
  obtain ⟨sp, bh, bm, bs, ts, h1, h2, h3, h4, h5, rfl⟩ := construct_ok a r h
  dsimp only at hts
  subst hts
  have hsp := (normBysetpos_ok a sp h1).1
  subst hsp
  obtain ⟨_, _, _, hwd, hnwd⟩ := nthym_nwl na
  refine ⟨bh, bm, bs, ?_⟩
  have hbm : bymonthOf a = a.bymonth.map sortedSet := by unfold bymonthOf; simp [nthym_noDay na]
  simp [nthRuleOf, hbm, hwd, hnwd, na.byweekno, na.byeaster]

theorem nthym_bymonth (na : NthYMArgs a) (h : construct a = .ok r) : r.bymonth = some (monthsOf a) := by
  obtain ⟨bh, bm, bs, hr⟩ := nthym_rule na h
  obtain ⟨lm, hlm, _, _⟩ := na.months
  rw [hr]; show a.bymonth.map sortedSet = some (monthsOf a)
  unfold monthsOf; rw [hlm]; rfl

/-- **bridge**: for a date `(y, m, d)`, calendar predicate ∧ "marked in one of the listed months" is `dateOk` -/
theorem nthym_bridge (na : NthYMArgs a) (h : construct a = .ok r) (info : Info) (y m d : Int)
    (hy : 1 ≤ y) (hv : ValidYMD y m d) (hyo : info.yearordinal = toOrdinal y 1 1) :
    (simpleOk r (toOrdinal y m d) &&
      decide (∃ m' ∈ monthsOf a, ∃ wn ∈ nwlOf a, marks info (daysBeforeMonth y m')
        (daysBeforeMonth y m' + daysInMonth y m' - 1) (toOrdinal y m d - info.yearordinal) wn)) =
      Spec.RRule.dateOk a (toOrdinal y m d) := by
  obtain ⟨hm1, hm12, hd1, hd2⟩ := hv
  obtain ⟨bh, bm, bs, hr⟩ := nthym_rule na h
  obtain ⟨l, hl, hne, hok⟩ := na.weekdays
  obtain ⟨lm, hlm, hlne, hlb⟩ := na.months
  obtain ⟨_, hmem, _, _, _⟩ := nthym_nwl na
  obtain ⟨_, hmm, hmb⟩ := nthym_months na
  rw [hl, Option.getD_some] at hmem
  rw [hlm, Option.getD_some] at hmm
  have hfo := fromOrdinal_toOrdinal y m d hy ⟨hm1, hm12, hd1, hd2⟩
  have hnd : Spec.RRule.noDayParts a = noDayParts a := rfl
  have hmonths : Spec.RRule.months a = lm := by unfold Spec.RRule.months; rw [hlm]
  have hmda : monthdayArg a = a.bymonthday := by unfold monthdayArg; simp [nthym_noDay na]
  have hmd : Spec.RRule.monthdays a = a.bymonthday.getD [] := by
    unfold Spec.RRule.monthdays; simp [hnd, nthym_noDay na]
  have hmcl := monthday_clause_core a (by rw [hmda]; exact na.monthday_nz) d (d - daysInMonth y m - 1)
    (by omega) (by omega)
  rw [hmda] at hmcl
  have hwds : Spec.RRule.weekdays a = l := by
    unfold Spec.RRule.weekdays; simp [hnd, nthym_noDay na, hl]
  have hle : l.isEmpty = false := by cases l with | nil => exact absurd rfl hne | cons _ _ => rfl
  have hlme : lm.isEmpty = false := by cases lm with | nil => exact absurd rfl hlne | cons _ _ => rfl
  have hin : (a.freq == 1 || (a.freq == 0 && !(Spec.RRule.months a).isEmpty)) = true := by
    rw [hmonths, hlme, na.freq]; rfl
  have hj : toOrdinal y m d - info.yearordinal = daysBeforeMonth y m + d - 1 := by
    rw [hyo]; unfold toOrdinal; rw [daysBeforeMonth_1]; omega
  -- only the date's own month can mark it
  have honly : (∃ m' ∈ monthsOf a, ∃ wn ∈ nwlOf a, marks info (daysBeforeMonth y m')
        (daysBeforeMonth y m' + daysInMonth y m' - 1) (toOrdinal y m d - info.yearordinal) wn) ↔
      (m ∈ lm ∧ ∃ wn ∈ nwlOf a, marks info (daysBeforeMonth y m)
        (daysBeforeMonth y m + daysInMonth y m - 1) (toOrdinal y m d - info.yearordinal) wn) := by
    constructor
    · rintro ⟨m', hm', wn, hwn, hmk⟩
      have hb' := hmb m' hm'
      have : m' = m := by
        unfold marks at hmk
        rw [hj] at hmk
        obtain ⟨h1, h2, _, _⟩ := hmk
        by_cases c1 : m' < m
        · have := daysBeforeMonth_mono y (m' + 1) m (by omega) (by omega) (by omega)
          have := daysBeforeMonth_succ y m' hb'.1 hb'.2
          omega
        · by_cases c2 : m < m'
          · have := daysBeforeMonth_mono y (m + 1) m' (by omega) (by omega) (by omega)
            have := daysBeforeMonth_succ y m hm1 hm12
            omega
          · omega
      subst this
      exact ⟨(hmm m').mp hm', wn, hwn, hmk⟩
    · rintro ⟨hml, wn, hwn, hmk⟩
      exact ⟨m, (hmm m).mpr hml, wn, hwn, hmk⟩
  rw [hr]
  unfold simpleOk Spec.RRule.dateOk
  rw [hfo]
  dsimp only
  rw [hmonths, hmd, hwds, na.byweekno, na.byeaster, hlm, hmcl]
  have htn : truthy (none : Option (List Int)) = false := rfl
  have hmn : ∀ w, memO w (none : Option (List Int)) = false := fun _ => rfl
  have htm : truthy (some (sortedSet lm)) = true := by
    rw [truthy_eq_not_isEmpty, isEmpty_sortedSet, hlme]; rfl
  have hmc : memO m (some (sortedSet lm)) = lm.contains m := by
    show (sortedSet lm).contains m = _; exact contains_sortedSet m lm
  simp only [Option.map_some, htm, htn, hmn, hmc, hlme, List.isEmpty_nil, Bool.not_true,
    Bool.or_false, Bool.not_false, Bool.true_or, Bool.and_true, Bool.or_self, List.contains_nil, Bool.false_or,
    Bool.true_and]
  have hwk : decide (∃ m' ∈ monthsOf a, ∃ wn ∈ nwlOf a, marks info (daysBeforeMonth y m')
        (daysBeforeMonth y m' + daysInMonth y m' - 1) (toOrdinal y m d - info.yearordinal) wn) =
      (lm.contains m && (l.isEmpty || l.any (fun wn => wn.1 == weekdayOfOrd (toOrdinal y m d) &&
        (wn.2 == 0 || decide (a.freq > 1) || Spec.RRule.nthOk a (toOrdinal y m d) y m wn.2)))) := by
    rw [hle, Bool.false_or, Bool.eq_iff_iff, decide_eq_true_eq, honly, Bool.and_eq_true, List.contains_iff_mem,
      List.any_eq_true]
    have hcore := fun wn hn0 => marks_iff_nthOk a info y m d ⟨hm1, hm12, hd1, hd2⟩ hyo hin (by rw [na.freq]; omega) wn hn0
    constructor
    · rintro ⟨hml, wn, hwn, hm⟩
      have hwl := (hmem wn).mp hwn
      exact ⟨hml, wn, hwl, (hcore wn (hok wn hwl).2).mp hm⟩
    · rintro ⟨hml, wn, hwl, hm⟩
      exact ⟨hml, wn, (hmem wn).mpr hwl, (hcore wn (hok wn hwl).2).mpr hm⟩
  rw [hwk]
  generalize lm.contains m = b1
  generalize (l.isEmpty || _) = b2
  generalize ((a.bymonthday.getD []).isEmpty || _ || _) = b4
  rcases a.byyearday with _ | (_ | ⟨x, xs⟩)
  · cases b1 <;> cases b2 <;> cases b4 <;> rfl
  · cases b1 <;> cases b2 <;> cases b4 <;> rfl
  · rw [yearday_clause (some (x :: xs))]
    cases b1 <;> cases b2 <;> cases b4 <;> simp

theorem nthym_cuts (na : NthYMArgs a) (h : construct a = .ok r) : CutsAgree a r := by
  obtain ⟨bh, bm, bs, hr⟩ := nthym_rule na h
  rw [hr]; exact ⟨rfl, rfl, rfl⟩

theorem nthym_nthRule (na : NthYMArgs a) (h : construct a = .ok r) : NthRule r := by
  obtain ⟨bh, bm, bs, hr⟩ := nthym_rule na h
  rw [hr]; exact ⟨rfl, rfl, rfl⟩

/-- "the model state at the start of period `k`" -/
structure NthYMGood (a : Args) (r : Rule) (k : Nat) (st : State) : Prop where
  facts : YearFacts r st.cur.year st.info
  timeset : st.timeset = Spec.RRule.timesOf a none none none
  year : st.cur.year = a.dtstart.y + k * a.interval
  mask : ∃ mask, st.info.nwdaymask = some mask ∧ (mask.length : Int) = st.info.yearlen ∧
    ∀ j : Int, 0 ≤ j → j < st.info.yearlen →
      Py.getIdx mask j = .ok (if ∃ m' ∈ monthsOf a, ∃ wn ∈ nwlOf a, marks st.info (daysBeforeMonth st.cur.year m')
          (daysBeforeMonth st.cur.year m' + daysInMonth st.cur.year m' - 1) j wn then 1 else 0)

theorem nthym_results (na : NthYMArgs a) (h : construct a = .ok r) (k : Nat) (st : State) (hg : NthYMGood a r k st) :
    ∃ fl pre cands, periodResults r st = .ok (cands, none, fl) ∧ Spec.RRule.sel a (k : Int) = pre ++ cands ∧
      (∀ x ∈ pre, x.micros < Spec.RRule.startMicros a ∧ Spec.RRule.afterUntil a x = false) ∧
      (∀ x ∈ cands, 0 ≤ x.ord ∧ x.ord ≤ maxOrdinal) := by
  have hn := nthym_nthRule na h
  obtain ⟨bh, bm, bs, hr⟩ := nthym_rule na h
  have hfreq : r.freq = 0 := by rw [hr]; exact na.freq
  have hsp := construct_bysetpos a r h
  have htsok : TsOk st.timeset := by
    have := construct_timeset_ok a r h (by rw [na.freq]; omega)
    rw [hr] at this; rw [hg.timeset]; exact this
  have hyo := hg.facts.yearordinal
  have hyl := hg.facts.yearlen
  have hy1 := hg.facts.year_lo
  have hy2 := hg.facts.year_hi
  have hpos : 1 ≤ toOrdinal st.cur.year 1 1 :=
    toOrdinal_pos _ _ _ hy1 ⟨by omega, by omega, by omega, by have := daysInMonth_bounds st.cur.year 1; omega⟩
  have hend := year_end_le st.cur.year hy2
  have hd : dayset r st.info st.cur = .ok (intRange 0 st.info.yearlen) := dayset_yearly st.cur hfreq
  obtain ⟨mask, hmask, hmlen, hmspec⟩ := hg.mask
  have hfil : ∀ i, 0 ≤ i → i < st.info.yearlen →
      dayFiltered r st.info i = .ok (!(Spec.RRule.dateOk a (st.info.yearordinal + i))) := by
    intro i hi0 hi1
    rw [dayFiltered_nth hn hg.facts mask hmask i hi0 hi1 hmlen]
    have hgi := hmspec i hi0 hi1
    rw [getIdx_int mask i hi0 (by omega)] at hgi
    injection hgi with hgi
    -- the date at index i
    have hmd := monthDay_spec st.cur.year i hi0 (by rw [← hyl]; exact hi1)
    have hord : st.info.yearordinal + i = toOrdinal st.cur.year
        (monthDayOfYday (isLeap st.cur.year) i).1 (monthDayOfYday (isLeap st.cur.year) i).2 := by
      rw [hyo]; unfold toOrdinal; rw [daysBeforeMonth_1]; omega
    have hbr := nthym_bridge na h st.info st.cur.year _ _ hy1 hmd.2 hyo
    rw [← hord] at hbr
    have e : st.info.yearordinal + i - st.info.yearordinal = i := by omega
    rw [e] at hbr
    rw [← hbr, hgi]
    congr 2
    by_cases c : ∃ m' ∈ monthsOf a, ∃ wn ∈ nwlOf a, marks st.info (daysBeforeMonth st.cur.year m')
        (daysBeforeMonth st.cur.year m' + daysInMonth st.cur.year m' - 1) i wn
    · rw [if_pos c, decide_eq_true c]; rfl
    · rw [if_neg c, decide_eq_false c]; rfl
  obtain ⟨fl, hres⟩ := periodResults_range_P st (Spec.RRule.dateOk a) hfil (by rw [hsp.1]; exact hsp.2) htsok hd
    (by rw [hyo]; omega) (by rw [hyo, hyl]; exact hend)
  have hspan : Spec.RRule.periodSpan a (k * a.interval) =
      (st.info.yearordinal + 0, st.info.yearordinal + st.info.yearlen, none, none, none) := by
    unfold Spec.RRule.periodSpan
    rw [if_pos (by simp [na.freq])]
    dsimp only
    rw [← hg.year, hyo, hyl, toOrdinal_next_year]; simp
  refine ⟨fl, [], Spec.RRule.sel a (k : Int), ?_, rfl, by simp, ?_⟩
  · rw [hres, hg.timeset, sel_span_sp a k _ _ hspan, hsp.1]
  · intro x hx
    rw [sel_span_sp a k _ _ hspan] at hx
    have := sel_bounds _ _ _ _ x (applySetpos_subset _ _ x hx)
    rw [hyo, hyl] at this; omega

theorem nthym_rebuild (na : NthYMArgs a) (h : construct a = .ok r) (y m : Int) (hy1 : 1 ≤ y) (hy2 : y ≤ 9999) :
    ∃ info mask, rebuild r y m = .ok info ∧ info.nwdaymask = some mask ∧ (mask.length : Int) = info.yearlen ∧
      ∀ j : Int, 0 ≤ j → j < info.yearlen →
        Py.getIdx mask j = .ok (if ∃ m' ∈ monthsOf a, ∃ wn ∈ nwlOf a, marks info (daysBeforeMonth y m')
            (daysBeforeMonth y m' + daysInMonth y m' - 1) j wn then 1 else 0) := by
  have hn := nthym_nthRule na h
  obtain ⟨bh, bm, bs, hr⟩ := nthym_rule na h
  have hfreq : r.freq = 0 := by rw [hr]; exact na.freq
  have hnw : r.bynweekday = some (nwlOf a) := by rw [hr]
  obtain ⟨hne, _, hok, _, _⟩ := nthym_nwl na
  obtain ⟨hmne, _, hmb⟩ := nthym_months na
  exact rebuild_nth_ym hn hfreq _ (nthym_bymonth na h) hmne hmb _ hne hnw hok y m hy1 hy2

theorem nthym_next (na : NthYMArgs a) (h : construct a = .ok r) (k : Nat) (st : State) (fl : Bool)
    (c : Option Int) (hg : NthYMGood a r k st) (hy : a.dtstart.y + (k + 1 : Nat) * a.interval ≤ 9999) :
    ∃ st', advance r { st with count := c } fl = .ok st' ∧ NthYMGood a r (k + 1) st' := by
  obtain ⟨bh, bm, bs, hr⟩ := nthym_rule na h
  have hfreq : r.freq = 0 := by rw [hr]; exact na.freq
  have hint : r.interval = a.interval := by rw [hr]
  have hi := na.interval
  have hy1 := hg.facts.year_lo
  have hyr := hg.year
  have ek : ((k + 1 : Nat) : Int) * a.interval = k * a.interval + a.interval := by
    push_cast; rw [Int.add_mul]; omega
  have hle : st.cur.year + r.interval ≤ 9999 := by rw [hint]; omega
  obtain ⟨info, mask, hre, h2, h3, h4⟩ := nthym_rebuild na h (st.cur.year + r.interval) st.cur.month (by omega) hle
  have hadv : advance r { st with count := c } fl =
      .ok { cur := { st.cur with year := st.cur.year + r.interval }, info := info,
            timeset := st.timeset, count := c } := by
    unfold advance
    dsimp only
    rw [if_pos (by simp [hfreq]), if_neg (by omega), hre]
  exact ⟨_, hadv, ⟨rebuild_facts r _ _ info hre, hg.timeset, by dsimp only; rw [hyr, hint]; omega, mask, h2, h3, h4⟩⟩

theorem nthym_init (na : NthYMArgs a) (h : construct a = .ok r) :
    ∃ st0, init r = .ok st0 ∧ NthYMGood a r 0 st0 ∧ st0.count = r.count := by
  obtain ⟨bh, bm, bs, hr⟩ := nthym_rule na h
  have hfreq : r.freq = 0 := by rw [hr]; exact na.freq
  have hv := na.valid
  unfold DT.Valid ValidDate at hv
  obtain ⟨info, mask, hre, h2, h3, h4⟩ := nthym_rebuild na h a.dtstart.y a.dtstart.m hv.1.1 hv.1.2.1
  have hd : r.dtstart = { a.dtstart with us := 0 } := by rw [hr]
  have hf : r.freq < 4 := by omega
  have hts : r.timeset = some (Spec.RRule.timesOf a none none none) := by rw [hr]
  refine ⟨{ cur := { year := a.dtstart.y, month := a.dtstart.m, day := a.dtstart.d, hour := a.dtstart.hh,
                     minute := a.dtstart.mm, second := a.dtstart.ss, weekday := r.dtstart.weekday },
            info := info, timeset := Spec.RRule.timesOf a none none none, count := r.count }, ?_, ?_, rfl⟩
  · unfold init
    simp only [hd, bind, Except.bind, hre, hts, pure, Except.pure]
    rw [if_pos hf]
    rfl
  · exact ⟨rebuild_facts r _ _ info hre, rfl, by dsimp only; omega, mask, h2, h3, h4⟩

/-- **`iter_eq_spec`, YEARLY with BYMONTH and nth weekdays counted inside each listed month** ("the 4th
    Thursday of November", "the last Monday of May"): FREQ=YEARLY, INTERVAL ≥ 1, a valid start, BYMONTH
    (members 1..12), BYDAY consisting of nth weekdays only, any BYYEARDAY / BYHOUR / BYMINUTE / BYSECOND /
    BYSETPOS, any COUNT / UNTIL, no BYMONTHDAY / BYWEEKNO / BYEASTER: exactly the specification's set. -/
theorem iter_eq_spec_yearly_bymonth_nth (na : NthYMArgs a) (h : construct a = .ok r) (n : Nat)
    (hy : a.dtstart.y + n * a.interval ≤ 9999) :
    (iter r n).1 = Spec.RRule.occ a n := by
  have hi := na.interval
  have hmono : ∀ k : Nat, k ≤ n → (k : Int) * a.interval ≤ n * a.interval := by
    intro k hk; exact Int.mul_le_mul_of_nonneg_right (by omega) (by omega)
  have sim : Simulation a r n (NthYMGood a r) := {
    agree := nthym_cuts na h
    results := fun k st _ hg => nthym_results na h k st hg
    next := fun k st fl c hk hg => nthym_next na h k st fl c hg (by have := hmono (k + 1) (by omega); omega) }
  obtain ⟨st0, hinit, hg0, hc0⟩ := nthym_init na h
  exact iter_refines sim st0 hinit hg0 hc0 n (by omega)

end RRule
