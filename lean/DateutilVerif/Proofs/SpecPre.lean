/- Proofs/SpecPre.lean — `Spec.pre r w` lists exactly the solutions of `fromutcSpec r t = some w`. -/
import DateutilVerif.Spec.Zones
namespace Spec
open TZ

theorem typeAt_mem (r : Raw) (t : Int) (ty : TType) (h : typeAt r t = some ty) : ty ∈ r.types := by
  unfold typeAt at h
  split at h
  · exact List.mem_of_getElem? h
  · unfold firstType at h
    split at h
    · rename_i x hx
      cases h
      exact List.mem_of_find?_eq_some hx
    · exact List.mem_of_head? h

/-- `pre r w` lists exactly the instants whose local reading is `w` -/
theorem mem_pre_iff (r : Raw) (w t : Int) : t ∈ pre r w ↔ fromutcSpec r t = some w := by
  unfold pre
  rw [List.mem_filter]
  constructor
  · intro h; simpa using h.2
  · intro h
    refine ⟨?_, by simpa using h⟩
    rw [List.mem_eraseDups]
    unfold fromutcSpec offsetAt at h
    cases hty : typeAt r t with
    | none => rw [hty] at h; simp at h
    | some ty =>
        rw [hty] at h; simp at h
        exact List.mem_map.mpr ⟨ty, typeAt_mem r t ty hty, by omega⟩

end Spec
