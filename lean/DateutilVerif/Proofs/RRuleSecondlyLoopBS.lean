/-
  Proofs/RRuleSecondlyLoopBS.lean — the SECONDLY reachability loop (rrule.py 994-1015) WITH BYSECOND (and optionally
  BYHOUR / BYMINUTE): each pass runs `__mod_distance` to the next grid second whose second-of-minute is in the
  BYSECOND tuple (passing over grid seconds that are not), then tests hour and minute.  Started at second-of-day
  `W = hour·3600 + minute·60 + second`, the loop stops at the LEAST `t ≥ 1` such that the grid second `W + t·interval`
  has listed hour, minute and second, provided one occurs within `fuel` grid steps (every pass makes ≥ 1 grid step).
-/
import DateutilVerif.Proofs.RRuleSecondlyLoop
import DateutilVerif.Proofs.RRuleModDistance

namespace RRule
open Cal

/-- the loop's full acceptance test on the second-of-day count `V` -/
def okS3 (r : Rule) (V : Int) : Bool := okS r V && memO (V % 60) r.bysecond

theorem okS3_shift (r : Rule) (V c : Int) : okS3 r (V - 86400 * c) = okS3 r V := by
  unfold okS3
  have e1 : (V - 86400 * c) % 60 = V % 60 := by omega
  rw [okS_shift, e1]

/-- one pass of the loop whose `__mod_distance` call returned `(nm, se')` -/
theorem secondlyLoop_succ_bs (r : Rule) (bs : List Int) (hbs : r.bysecond = some bs)
    (htr : truthy (some bs) = true) (n : Nat) (second minute hour day : Int) (fx : Bool)
    (h0 : 0 ≤ hour) (h23 : hour ≤ 23) (nm se' : Int)
    (hstep : modDistance r.interval bs 60 60 0 second = some (nm, se')) (hse : 0 ≤ se' ∧ se' ≤ 59)
    (V : Int) (hV : V = hour * 3600 + minute * 60 + nm * 60 + se') :
    secondlyLoop r (n + 1) second minute hour day fx =
      if okS3 r V = true then
        .ok (V % 60, V / 60 % 60, V / 3600 % 24, (if V / 86400 ≠ 0 then day + V / 86400 else day),
          (if V / 86400 ≠ 0 then true else fx))
      else secondlyLoop r n (V % 60) (V / 60 % 60) (V / 3600 % 24) (if V / 86400 ≠ 0 then day + V / 86400 else day)
          (if V / 86400 ≠ 0 then true else fx) := by
  obtain ⟨nh, hnh⟩ : ∃ nh, nh = (minute + nm) / 60 := ⟨_, rfl⟩
  obtain ⟨mi', hmi'⟩ : ∃ mi', mi' = (minute + nm) % 60 := ⟨_, rfl⟩
  obtain ⟨nd, hnd⟩ : ∃ nd, nd = (hour + nh) / 24 := ⟨_, rfl⟩
  obtain ⟨hr', hhr'⟩ : ∃ hr', hr' = (hour + nh) % 24 := ⟨_, rfl⟩
  have a1 : V % 60 = se' := by omega
  have a2 : V / 60 % 60 = mi' := by omega
  have a3 : V / 3600 % 24 = hr' := by omega
  have a4 : V / 86400 = nd := by omega
  unfold okS3 okS
  rw [a1, a2, a3, a4]
  conv => lhs; unfold secondlyLoop
  rw [hbs, htr]
  simp only [↓reduceIte, Option.getD_some, hstep, Py.divmod, Py.fdiv_pos _ (by decide : (0 : Int) < 24),
    Py.fmod_pos _ (by decide : (0 : Int) < 24), Py.fdiv_pos _ (by decide : (0 : Int) < 60),
    Py.fmod_pos _ (by decide : (0 : Int) < 60), Bool.not_true, Bool.false_or]
  rw [← hnh, ← hmi']
  by_cases hz0 : nh = 0
  · have hnd0 : nd = 0 := by omega
    have hhr0 : hr' = hour := by omega
    subst hnd0
    rw [hhr0]
    simp [hz0]
  · simp only [ne_eq, hz0, not_false_eq_true, ↓reduceIte, true_and]
    rw [← hnd, ← hhr']

/-- the loop with BYSECOND `bs` (and BYHOUR / BYMINUTE present or not) -/
theorem secondlyLoop_bs (r : Rule) (hi : 1 ≤ r.interval) (bs : List Int) (hbs : r.bysecond = some bs)
    (htr : truthy (some bs) = true) :
    ∀ (n : Nat) (second minute hour day : Int) (fx : Bool), 0 ≤ second → 0 ≤ minute → 0 ≤ hour → hour ≤ 23 →
    (∃ t : Nat, 1 ≤ t ∧ t ≤ n ∧ okS3 r (hour * 3600 + minute * 60 + second + t * r.interval) = true) →
    ∃ t : Nat, 1 ≤ t ∧ t ≤ n ∧ okS3 r (hour * 3600 + minute * 60 + second + t * r.interval) = true ∧
      (∀ t' : Nat, 1 ≤ t' → t' < t → okS3 r (hour * 3600 + minute * 60 + second + t' * r.interval) = false) ∧
      secondlyLoop r n second minute hour day fx =
        .ok ((hour * 3600 + minute * 60 + second + t * r.interval) % 60,
             (hour * 3600 + minute * 60 + second + t * r.interval) / 60 % 60,
             (hour * 3600 + minute * 60 + second + t * r.interval) / 3600 % 24,
             day + (hour * 3600 + minute * 60 + second + t * r.interval) / 86400,
             fx || decide ((hour * 3600 + minute * 60 + second + t * r.interval) / 86400 ≠ 0)) := by
  intro n
  induction n with
  | zero => intro second minute hour day fx _ _ _ _ ⟨t, h1, h2, _⟩; omega
  | succ n ih =>
    intro second minute hour day fx hs0 hm0 h0 h23 ⟨ts, hts1, hts2, hts3⟩
    obtain ⟨W, hW⟩ : ∃ W, W = hour * 3600 + minute * 60 + second := ⟨_, rfl⟩
    rw [← hW] at hts3 ⊢
    have hmemO : ∀ x, memO x r.bysecond = bs.contains x := by intro x; rw [hbs]; rfl
    -- the second-of-minute of a grid second depends on `second` only
    have hsec : ∀ u : Nat, (W + (u : Int) * r.interval) % 60 = (second + (u : Int) * r.interval) % 60 := by
      intro u; generalize (u : Int) * r.interval = P; omega
    have hunl : ∀ u : Nat, bs.contains ((second + (u : Int) * r.interval) % 60) = false →
        okS3 r (W + (u : Int) * r.interval) = false := by
      intro u hu
      unfold okS3
      rw [hmemO, hsec, hu, Bool.and_false]
    have hts4 : bs.contains ((second + (ts : Int) * r.interval) % 60) = true := by
      unfold okS3 at hts3
      rw [Bool.and_eq_true, hmemO, hsec] at hts3
      exact hts3.2
    rcases modDistance_exact r.interval bs 60 (by omega) 60 0 second with
      ⟨s, hs1, hs2, hs3, hs4, hs5⟩ | ⟨hnone, _⟩
    · have hsts : s ≤ ts := by
        by_cases hc : s ≤ ts
        · exact hc
        · have := hs4 ts hts1 (by omega)
          rw [this] at hts4; cases hts4
      obtain ⟨V1, hV1⟩ : ∃ V1, V1 = W + (s : Int) * r.interval := ⟨_, rfl⟩
      have hsi : (0 : Int) ≤ (s : Int) * r.interval := Int.mul_nonneg (by omega) (by omega)
      rw [secondlyLoop_succ_bs r bs hbs htr n second minute hour day fx h0 h23 _ _ hs5 (by omega) V1
        (by rw [hV1, hW]; generalize (s : Int) * r.interval = P; omega)]
      obtain ⟨c, hc⟩ : ∃ c, c = V1 / 86400 := ⟨_, rfl⟩
      rw [← hc]
      have hV10 : 0 ≤ V1 := by omega
      have hc0 : 0 ≤ c := by omega
      by_cases hok : okS3 r V1 = true
      · rw [if_pos hok]
        refine ⟨s, hs1, by omega, by rw [← hV1]; exact hok, ?_, ?_⟩
        · intro t' a b; exact hunl t' (hs4 t' a b)
        · rw [← hV1, ← hc]
          by_cases hz : c = 0 <;> simp [hz]
      · rw [if_neg hok]
        have hokf : okS3 r V1 = false := by
          cases hq : okS3 r V1 with
          | false => rfl
          | true => exact absurd hq hok
        have hts' : ts ≠ s := by
          intro e; subst e; rw [← hV1, hokf] at hts3; cases hts3
        have key : ∀ u : Nat, V1 / 3600 % 24 * 3600 + V1 / 60 % 60 * 60 + V1 % 60 + (u : Int) * r.interval =
            W + ((u + s : Nat) : Int) * r.interval - 86400 * c := by
          intro u; push_cast; rw [Int.add_mul]; omega
        obtain ⟨t, ht1, ht2, ht3, ht4, ht5⟩ := ih (V1 % 60) (V1 / 60 % 60) (V1 / 3600 % 24)
          (if c ≠ 0 then day + c else day) (if c ≠ 0 then true else fx)
          (by omega) (by omega) (by omega) (by omega)
          ⟨ts - s, by omega, by omega, by
            rw [key, okS3_shift]
            have e : ts - s + s = ts := by omega
            rw [e]; exact hts3⟩
        have htle : t ≤ ts - s := by
          by_cases hc' : t ≤ ts - s
          · exact hc'
          · exfalso
            have := ht4 (ts - s) (by omega) (by omega)
            rw [key, okS3_shift] at this
            have e : ts - s + s = ts := by omega
            rw [e, hts3] at this; cases this
        refine ⟨t + s, by omega, by omega, ?_, ?_, ?_⟩
        · rw [key, okS3_shift] at ht3; exact ht3
        · intro t' a b
          by_cases h1 : t' < s
          · exact hunl t' (hs4 t' a h1)
          · by_cases h2 : t' = s
            · subst h2; rw [← hV1]; exact hokf
            · have := ht4 (t' - s) (by omega) (by omega)
              rw [key, okS3_shift] at this
              have e : t' - s + s = t' := by omega
              rw [e] at this; exact this
        · rw [ht5, key]
          generalize hV : W + ((t + s : Nat) : Int) * r.interval = V
          have b1 : (V - 86400 * c) % 60 = V % 60 := by omega
          have b2 : (V - 86400 * c) / 60 % 60 = V / 60 % 60 := by omega
          have b3 : (V - 86400 * c) / 3600 % 24 = V / 3600 % 24 := by omega
          have b4 : (V - 86400 * c) / 86400 = V / 86400 - c := by omega
          rw [b1, b2, b3, b4]
          have hti : (0 : Int) ≤ (t : Int) * r.interval := Int.mul_nonneg (by omega) (by omega)
          have hVn : 0 ≤ V - 86400 * c := by rw [← hV, ← key]; omega
          have hq0 : 0 ≤ V / 86400 - c := by omega
          by_cases hz : c = 0
          · subst hz; simp
          · have hq : V / 86400 ≠ 0 := by omega
            simp [hz, hq]
            omega
    · -- `__mod_distance` cannot fall off its loop: the seconds-of-minute repeat with period ≤ 60
      exfalso
      obtain ⟨t0, ht0⟩ : ∃ t0 : Nat, t0 = if ts % 60 = 0 then 60 else ts % 60 := ⟨_, rfl⟩
      have ht01 : 1 ≤ t0 ∧ t0 ≤ 60 ∧ t0 ≤ ts ∧ (ts - t0) % 60 = 0 := by
        rw [ht0]; split <;> omega
      have hq : ((ts : Nat) : Int) = (t0 : Int) + 60 * (((ts - t0) / 60 : Nat) : Int) := by omega
      have := hnone t0 ht01.1 ht01.2.1
      have e : (second + (ts : Int) * r.interval) % 60 = (second + (t0 : Int) * r.interval) % 60 := by
        rw [hq, Int.add_mul, Int.mul_assoc]
        generalize (t0 : Int) * r.interval = P
        generalize (((ts - t0) / 60 : Nat) : Int) * r.interval = Q
        omega
      rw [e, this] at hts4
      cases hts4

end RRule
