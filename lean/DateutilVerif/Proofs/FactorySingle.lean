/-
  Proofs/FactorySingle.lean — `_TzSingleton.__call__` (tzutc): with the slot filled at import time
  (`UTC = tzutc()` in tz.py) every call returns that object.
-/
import DateutilVerif.Model.Factory

namespace Fact

variable {res : Key → Res}

/-- invariant of the pre-initialised singleton: the slot holds object 0, no thread is inside the
construction branch, only singleton / instance pcs occur, every handed-out reference is object 0 -/
structure SInv (s : State) : Prop where
  slot : s.g.single = some 0
  held : ∀ r ∈ s.g.held, r.id = 0
  pcs : ∀ (t : Tid) (th : Thread), s.ths[t]? = some th →
    th.pc = .idle ∨ th.pc = .fAlloc ∨ th.pc = .fInit ∨ th.pc = .fRet ∨ th.pc = .uTest ∨ th.pc = .uRet

theorem sinv_tstep {t : Tid} {g g' : Glob} {th th' : Thread}
    (hs : g.single = some 0) (hh : ∀ r ∈ g.held, r.id = 0)
    (hp : th.pc = .idle ∨ th.pc = .fAlloc ∨ th.pc = .fInit ∨ th.pc = .fRet ∨ th.pc = .uTest ∨ th.pc = .uRet)
    (h : tstep .single res t g th = some (g', th')) :
    g'.single = some 0 ∧ (∀ r ∈ g'.held, r.id = 0) ∧
    (th'.pc = .idle ∨ th'.pc = .fAlloc ∨ th'.pc = .fInit ∨ th'.pc = .fRet ∨ th'.pc = .uTest ∨ th'.pc = .uRet) := by
  rcases hp with hp | hp | hp | hp | hp | hp <;> simp only [tstep, hp] at h
  · split at h
    · cases h
    all_goals (simp only [Option.some.injEq, Prod.mk.injEq, reduceCtorEq, if_false] at h; obtain ⟨rfl, rfl⟩ := h; simp_all)
  · simp only [reduceCtorEq, false_and, if_false] at h
    split at h <;> simp only [Option.some.injEq, Prod.mk.injEq] at h <;> obtain ⟨rfl, rfl⟩ := h <;> simp_all
  · split at h
    · simp only [Option.some.injEq, Prod.mk.injEq] at h; obtain ⟨rfl, rfl⟩ := h; simp_all
    · cases h
  · simp only [Option.some.injEq, Prod.mk.injEq] at h; obtain ⟨rfl, rfl⟩ := h; simp_all
  · simp only [Option.some.injEq, Prod.mk.injEq] at h; obtain ⟨rfl, rfl⟩ := h; simp_all
  · rw [hs] at h
    simp only [Option.some.injEq, Prod.mk.injEq] at h
    obtain ⟨rfl, rfl⟩ := h
    refine ⟨by simpa using hs, ?_, .inl rfl⟩
    intro r hr
    simp only [List.mem_append, List.mem_singleton] at hr
    rcases hr with hr | rfl
    · exact hh r hr
    · rfl

theorem sinv_step {s s' : State} {l : Label} (h : SInv s) (hs : step .single res s l = some s') : SInv s' := by
  cases l with
  | thr t =>
    simp only [step] at hs
    split at hs
    · cases hs
    · rename_i th hth
      split at hs
      · cases hs
      · rename_i g' th' hstep
        cases hs
        obtain ⟨h1, h2, h3⟩ := sinv_tstep h.slot h.held (h.pcs t th hth) hstep
        have hlt : t < s.ths.length := by
          rcases Nat.lt_or_ge t s.ths.length with h1 | h1
          · exact h1
          · rw [List.getElem?_eq_none h1] at hth; cases hth
        refine ⟨h1, h2, ?_⟩
        intro t2 th2 hth2
        by_cases he : t = t2
        · subst he
          simp only [List.getElem?_set_self hlt, Option.some.injEq] at hth2
          subst hth2; exact h3
        · simp only [List.getElem?_set_ne he] at hth2
          exact h.pcs t2 th2 hth2
  | drop t n =>
    simp only [step] at hs
    split at hs
    · cases hs
      exact ⟨h.slot, fun r hr => h.held r (List.mem_filter.mp hr).1, h.pcs⟩
    · cases hs
  | collect k =>
    simp only [step] at hs
    split at hs
    · split at hs
      · cases hs
      · cases hs; exact ⟨h.slot, h.held, h.pcs⟩
    · cases hs

theorem sinv_init (scripts : List (List Op)) : SInv (initSingleton scripts) := by
  refine ⟨rfl, by simp [initSingleton], ?_⟩
  intro t th hth
  simp only [initSingleton, List.getElem?_map] at hth
  cases hsc : scripts[t]? with
  | none => simp [hsc] at hth
  | some sc =>
    simp only [hsc, Option.map_some, Option.some.injEq] at hth
    subst hth; exact .inl rfl

theorem sinv_reachable {scripts : List (List Op)} {s : State}
    (h : Reachable .single res (initSingleton scripts) s) : SInv s := by
  induction h with
  | init => exact sinv_init scripts
  | step _ hs ih => exact sinv_step ih hs

end Fact
