/-
  Proofs/ParserGenStep.lean — one iteration of the token loop of `parser._parse` (the body of `while i < len_l:`)
  re-translated from /repo's parser/_parser.py (Generated/ParserOps.lean: `Gen.P.parseStep`) = `PM.parseStep`
  (Model/Parser.lean), all seven arms (number, weekday, month name with its three continuations, AM/PM word, time-zone
  name with the `GMT+3` sign flip, numeric offset with the parenthesised name, jump / fuzzy skip / ValueError).
-/
import DateutilVerif.Proofs.ParserGenNum

namespace PGen
open PM Py
set_option linter.unusedSimpArgs false

theorem tk_plus : PM.tk "+" = ['+'] := rfl
theorem tk_lpar : PM.tk "(" = ['('] := rfl
theorem tk_rpar : PM.tk ")" = [')'] := rfl

theorem intStrLen_eq (n : Int) : PPy.intStrLen n = (toString n).length := rfl
theorem eq_chain (a b s : Token) : (a = b ∧ b = s) = (a = s ∧ b = s) := by
  apply propext; constructor
  · rintro ⟨h1, h2⟩; exact ⟨h1.trans h2, h2⟩
  · rintro ⟨h1, h2⟩; exact ⟨h1.trans h2.symm, h2⟩

theorem toksSet_lt (l : List Token) (k : Nat) (h : k < l.length) (v : Token) : PPy.toksSet l k v = .ok (l.set k v) := by
  unfold PPy.toksSet; simp [h]

/-- `tzParenName` looks at `res.hour` and `res.tzname` only -/
def parenName (info : Info) (l : List Token) (i' : Nat) (hour : Option Nat) (tzname : Option Token) : Option Token :=
  PM.tzParenName info l l.length i' { hour := hour, tzname := tzname }

theorem tzParenName_eq (info : Info) (l : List Token) (res : Res) (i' : Nat) :
    PM.tzParenName info l l.length i' res = parenName info l i' res.hour res.tzname := rfl

/-- the look-ahead for a parenthesised zone name behind a numeric offset, `-0300 (BRST)`, at the position `i'` the offset
    spelling left the index at -/
theorem paren_cond (info : Info) (l : List Token) (res : Res) (i' : Nat) :
    (if ((i' + 5) < l.length) then
      Except.bind (PPy.toksAt l (((i' + 2) : Nat) : Int)) (fun tok_78 =>
        Except.bind (Gen.P.info_jump info tok_78) (fun q_79 =>
          (if (q_79 = true) then
            Except.bind (PPy.toksAt l (((i' + 3) : Nat) : Int)) (fun tok_80 =>
              (if ((some tok_80) = (some (PM.tk "("))) then
                  Except.bind (PPy.toksAt l (((i' + 5) : Nat) : Int)) (fun tok_81 =>
                    (if ((some tok_81) = (some (PM.tk ")"))) then
                    Except.bind (PPy.toksAt l (((i' + 4) : Nat) : Int)) (fun tok_82 =>
                      (if (3 ≤ tok_82.length) then
                        Except.bind (PPy.toksAt l (((i' + 4) : Nat) : Int)) (fun tok_83 =>
                          Except.bind (Gen.P.couldBeTzname info res.hour res.tzname none tok_83) (fun r_84 =>
                            .ok (decide (r_84 = true))))
                        else .ok false))
                    else .ok false))
                else .ok false))
            else .ok false)))
      else .ok false) = (.ok ((parenName info l i' res.hour res.tzname).isSome) : R Bool) := by
  unfold parenName PM.tzParenName
  by_cases h : i' + 5 < l.length
  · have v2 : i' + 2 < l.length := by omega
    have v3 : i' + 3 < l.length := by omega
    have v4 : i' + 4 < l.length := by omega
    simp only [h, if_true, toksAt_nat l (i' + 2) v2, toksAt_nat l (i' + 3) v3, toksAt_nat l (i' + 4) v4,
      toksAt_nat l (i' + 5) h, List.getElem?_eq_getElem v2, List.getElem?_eq_getElem v3, List.getElem?_eq_getElem v4,
      List.getElem?_eq_getElem h, bind_ok, info_jump_eq, couldBeTzname_eq, tk_lpar, tk_rpar]
    generalize l[i' + 2] = t2
    generalize l[i' + 3] = t3
    generalize l[i' + 4] = t4
    generalize l[i' + 5] = t5
    cases info.isJump t2 <;> by_cases e3 : t3 = ['('] <;> by_cases e5 : t5 = [')'] <;> by_cases e4 : 3 ≤ t4.length <;>
      cases PM.couldBeTzname info res.hour res.tzname none t4 <;> simp [e3, e5, e4]
  · simp [h]

theorem paren_tok (info : Info) (l : List Token) (hour : Option Nat) (tzname : Option Token) (i' : Nat) (t4 : Token)
    (h : parenName info l i' hour tzname = some t4) : PPy.toksAt l (((i' + 4) : Nat) : Int) = .ok t4 := by
  unfold parenName PM.tzParenName at h
  by_cases h5 : i' + 5 < l.length
  · have v4 : i' + 4 < l.length := by omega
    rw [toksAt_nat l (i' + 4) v4]
    simp only [h5, if_true, List.getElem?_eq_getElem (show i' + 2 < l.length by omega),
      List.getElem?_eq_getElem (show i' + 3 < l.length by omega), List.getElem?_eq_getElem v4,
      List.getElem?_eq_getElem h5] at h
    split at h
    · injection h with h; rw [h]
    · cases h
  · simp [h5] at h

/-- `ymd.append(str(info.convertyear(value)), 'Y')`: with a century of at least 100 the converted year is not negative,
    so its text is a digit string and the translated `append(str)` is the model's `appendCore` on the number -/
theorem convert_append {β : Type} (cls : Char → CClass) (info : Info) (ymd : Ymd) (v : Nat) (hc : 100 ≤ info.century)
    (k : Ymd → R β) :
    Except.bind (Gen.convertyear ⟨info.century, info.year⟩ (v : Int) false) (fun y =>
        Except.bind (Gen.P.ymd_appendIntStr cls ymd y PM.Label.Y) k) =
      Except.bind (Gen.convertyear ⟨info.century, info.year⟩ (v : Int) false) (fun y =>
        Except.bind (ymd.appendCore (PPy.intStrLen y > 2) (.ok y.toNat) PM.Label.Y) k) := by
  cases hcv : Gen.convertyear ⟨info.century, info.year⟩ (v : Int) false with
  | error e => rfl
  | ok y =>
    have hy := convertyear_nonneg _ _ _ _ _ hc hcv
    simp only [bind_ok, appendIntStr_eq cls ymd y PM.Label.Y hy]

/-- the arms, when l.length = i + 1 -/
theorem parseStep_eq_0 (cls : Char → CClass) (info : Info) (fuzzy : Bool) (l : List Token) (i : Nat) (res : Res) (ymd : Ymd)
    (skipped : List Nat) (hc : 100 ≤ info.century) (hlt : i < l.length) (hk : l.length = i + 1) :
    Gen.P.parseStep cls info l i l.length res ymd skipped fuzzy =
      (PM.parseStep cls info fuzzy l.length i { l := l, res := res, ymd := ymd, skipped := skipped }).map
        (fun r => (r.2.l, i + r.1 + 1, r.2.res, r.2.ymd, r.2.skipped)) := by
  unfold Gen.P.parseStep PM.parseStep
  simp only [paren_cond, tzParenName_eq, PM.stepTzoffset]
  simp only [bind_eq, toksAt_nat l i hlt, tokAt_lt l i hlt, bind_ok]
  have lt1 : (i + 1 < l.length) = False := eq_false (by omega)
  have lt2 : (i + 2 < l.length) = False := eq_false (by omega)
  have lt3 : (i + 3 < l.length) = False := eq_false (by omega)
  have lt4 : (i + 4 < l.length) = False := eq_false (by omega)
  have w1 : l.length ≤ i + 1 := by omega
  have w2 : l.length ≤ i + 2 := by omega
  have w3 : l.length ≤ i + 3 := by omega
  have w4 : l.length ≤ i + 4 := by omega
  simp only [PM.stepMonth, PM.stepAmpm, PM.stepTzname, PM.stepTzoffset, PM.tzOffsetDigits, PM.tzParenName, PM.tokIs, if_true, if_false, true_and, false_and, and_true, and_false, true_or, false_or, or_true, or_false, bind_ok, bind_err, bind_eq, pure_eq, Option.bind_some, Option.bind_none, Option.any_some, Option.any_none, lt1, lt2, lt3, lt4, tokAt_ge l (i + 1) w1, toksAt_ge l (i + 1) w1, List.getElem?_eq_none w1, tokAt_ge l (i + 2) w2, toksAt_ge l (i + 2) w2, List.getElem?_eq_none w2, tokAt_ge l (i + 3) w3, toksAt_ge l (i + 3) w3, List.getElem?_eq_none w3, tokAt_ge l (i + 4) w4, toksAt_ge l (i + 4) w4, List.getElem?_eq_none w4]
  simp only [info_weekday_eq, info_month_eq, info_ampm_eq, info_jump_eq, info_pertain_eq, info_utczone_eq, info_tzoffset_eq,
    appendNat_eq, appendTok_eq, convert_append cls info _ _ hc, ampmValid_eq, couldBeTzname_eq, parseNumericToken_eq, bind_ok]
  generalize l[i] = li
  cases hfl : PM.floatOk cls li
  · cases hw : info.weekdayOf li
    · cases hm : info.monthOf li
      · cases ha : info.ampmOf li
        · -- time zone name / offset / jump
          simp only [hfl, hw, hm, ha]
          cases hrh : res.hour with
          | none =>
            cases hp0 : parenName info l i none res.tzname with
            | none =>
              cases hp2 : parenName info l (i + 2) none res.tzname with
              | none =>
                cases hu : info.isUtczone li <;>
                  first
                  | (by_cases hs : (t1 = ['+'] ∨ t1 = ['-']) <;>
                      simp [bind_ok, bind_err, bind_assoc, bind_ite, ite_ok_ok, map_eq, map_eq', PPy.optNat, PPy.optTok, throw_eq', tk_colon, tk_dash, tk_slash, tk_plus, tk_space, tk_lpar, tk_rpar, Nat.add_assoc, eq_chain, intStrLen_eq, hp0, hp2, hu, hrh, hs])
                  | simp [bind_ok, bind_err, bind_assoc, bind_ite, ite_ok_ok, map_eq, map_eq', PPy.optNat, PPy.optTok, throw_eq', tk_colon, tk_dash, tk_slash, tk_plus, tk_space, tk_lpar, tk_rpar, Nat.add_assoc, eq_chain, intStrLen_eq, hp0, hp2, hu, hrh]
              | some n2 =>
                have q2 : PPy.toksAt l ((i : Int) + 2 + 4) = .ok n2 := by
                  have := paren_tok info l _ _ _ _ hp2; simpa using this
                cases hu : info.isUtczone li <;>
                  first
                  | (by_cases hs : (t1 = ['+'] ∨ t1 = ['-']) <;>
                      simp [bind_ok, bind_err, bind_assoc, bind_ite, ite_ok_ok, map_eq, map_eq', PPy.optNat, PPy.optTok, throw_eq', tk_colon, tk_dash, tk_slash, tk_plus, tk_space, tk_lpar, tk_rpar, Nat.add_assoc, eq_chain, intStrLen_eq, hp0, hp2, hu, hrh, hs, q2])
                  | simp [bind_ok, bind_err, bind_assoc, bind_ite, ite_ok_ok, map_eq, map_eq', PPy.optNat, PPy.optTok, throw_eq', tk_colon, tk_dash, tk_slash, tk_plus, tk_space, tk_lpar, tk_rpar, Nat.add_assoc, eq_chain, intStrLen_eq, hp0, hp2, hu, hrh, q2]
            | some n0 =>
              have q0 : PPy.toksAt l ((i : Int) + 4) = .ok n0 := by
                have := paren_tok info l _ _ _ _ hp0; simpa using this
              cases hp2 : parenName info l (i + 2) none res.tzname with
              | none =>
                cases hu : info.isUtczone li <;>
                  first
                  | (by_cases hs : (t1 = ['+'] ∨ t1 = ['-']) <;>
                      simp [bind_ok, bind_err, bind_assoc, bind_ite, ite_ok_ok, map_eq, map_eq', PPy.optNat, PPy.optTok, throw_eq', tk_colon, tk_dash, tk_slash, tk_plus, tk_space, tk_lpar, tk_rpar, Nat.add_assoc, eq_chain, intStrLen_eq, hp0, hp2, hu, hrh, hs, q0])
                  | simp [bind_ok, bind_err, bind_assoc, bind_ite, ite_ok_ok, map_eq, map_eq', PPy.optNat, PPy.optTok, throw_eq', tk_colon, tk_dash, tk_slash, tk_plus, tk_space, tk_lpar, tk_rpar, Nat.add_assoc, eq_chain, intStrLen_eq, hp0, hp2, hu, hrh, q0]
              | some n2 =>
                have q2 : PPy.toksAt l ((i : Int) + 2 + 4) = .ok n2 := by
                  have := paren_tok info l _ _ _ _ hp2; simpa using this
                cases hu : info.isUtczone li <;>
                  first
                  | (by_cases hs : (t1 = ['+'] ∨ t1 = ['-']) <;>
                      simp [bind_ok, bind_err, bind_assoc, bind_ite, ite_ok_ok, map_eq, map_eq', PPy.optNat, PPy.optTok, throw_eq', tk_colon, tk_dash, tk_slash, tk_plus, tk_space, tk_lpar, tk_rpar, Nat.add_assoc, eq_chain, intStrLen_eq, hp0, hp2, hu, hrh, hs, q0, q2])
                  | simp [bind_ok, bind_err, bind_assoc, bind_ite, ite_ok_ok, map_eq, map_eq', PPy.optNat, PPy.optTok, throw_eq', tk_colon, tk_dash, tk_slash, tk_plus, tk_space, tk_lpar, tk_rpar, Nat.add_assoc, eq_chain, intStrLen_eq, hp0, hp2, hu, hrh, q0, q2]
          | some hr =>
            cases hp0 : parenName info l i (some hr) res.tzname with
            | none =>
              cases hp2 : parenName info l (i + 2) (some hr) res.tzname with
              | none =>
                cases hu : info.isUtczone li <;>
                  first
                  | (by_cases hs : (t1 = ['+'] ∨ t1 = ['-']) <;>
                      simp [bind_ok, bind_err, bind_assoc, bind_ite, ite_ok_ok, map_eq, map_eq', PPy.optNat, PPy.optTok, throw_eq', tk_colon, tk_dash, tk_slash, tk_plus, tk_space, tk_lpar, tk_rpar, Nat.add_assoc, eq_chain, intStrLen_eq, hp0, hp2, hu, hrh, hs])
                  | simp [bind_ok, bind_err, bind_assoc, bind_ite, ite_ok_ok, map_eq, map_eq', PPy.optNat, PPy.optTok, throw_eq', tk_colon, tk_dash, tk_slash, tk_plus, tk_space, tk_lpar, tk_rpar, Nat.add_assoc, eq_chain, intStrLen_eq, hp0, hp2, hu, hrh]
              | some n2 =>
                have q2 : PPy.toksAt l ((i : Int) + 2 + 4) = .ok n2 := by
                  have := paren_tok info l _ _ _ _ hp2; simpa using this
                cases hu : info.isUtczone li <;>
                  first
                  | (by_cases hs : (t1 = ['+'] ∨ t1 = ['-']) <;>
                      simp [bind_ok, bind_err, bind_assoc, bind_ite, ite_ok_ok, map_eq, map_eq', PPy.optNat, PPy.optTok, throw_eq', tk_colon, tk_dash, tk_slash, tk_plus, tk_space, tk_lpar, tk_rpar, Nat.add_assoc, eq_chain, intStrLen_eq, hp0, hp2, hu, hrh, hs, q2])
                  | simp [bind_ok, bind_err, bind_assoc, bind_ite, ite_ok_ok, map_eq, map_eq', PPy.optNat, PPy.optTok, throw_eq', tk_colon, tk_dash, tk_slash, tk_plus, tk_space, tk_lpar, tk_rpar, Nat.add_assoc, eq_chain, intStrLen_eq, hp0, hp2, hu, hrh, q2]
            | some n0 =>
              have q0 : PPy.toksAt l ((i : Int) + 4) = .ok n0 := by
                have := paren_tok info l _ _ _ _ hp0; simpa using this
              cases hp2 : parenName info l (i + 2) (some hr) res.tzname with
              | none =>
                cases hu : info.isUtczone li <;>
                  first
                  | (by_cases hs : (t1 = ['+'] ∨ t1 = ['-']) <;>
                      simp [bind_ok, bind_err, bind_assoc, bind_ite, ite_ok_ok, map_eq, map_eq', PPy.optNat, PPy.optTok, throw_eq', tk_colon, tk_dash, tk_slash, tk_plus, tk_space, tk_lpar, tk_rpar, Nat.add_assoc, eq_chain, intStrLen_eq, hp0, hp2, hu, hrh, hs, q0])
                  | simp [bind_ok, bind_err, bind_assoc, bind_ite, ite_ok_ok, map_eq, map_eq', PPy.optNat, PPy.optTok, throw_eq', tk_colon, tk_dash, tk_slash, tk_plus, tk_space, tk_lpar, tk_rpar, Nat.add_assoc, eq_chain, intStrLen_eq, hp0, hp2, hu, hrh, q0]
              | some n2 =>
                have q2 : PPy.toksAt l ((i : Int) + 2 + 4) = .ok n2 := by
                  have := paren_tok info l _ _ _ _ hp2; simpa using this
                cases hu : info.isUtczone li <;>
                  first
                  | (by_cases hs : (t1 = ['+'] ∨ t1 = ['-']) <;>
                      simp [bind_ok, bind_err, bind_assoc, bind_ite, ite_ok_ok, map_eq, map_eq', PPy.optNat, PPy.optTok, throw_eq', tk_colon, tk_dash, tk_slash, tk_plus, tk_space, tk_lpar, tk_rpar, Nat.add_assoc, eq_chain, intStrLen_eq, hp0, hp2, hu, hrh, hs, q0, q2])
                  | simp [bind_ok, bind_err, bind_assoc, bind_ite, ite_ok_ok, map_eq, map_eq', PPy.optNat, PPy.optTok, throw_eq', tk_colon, tk_dash, tk_slash, tk_plus, tk_space, tk_lpar, tk_rpar, Nat.add_assoc, eq_chain, intStrLen_eq, hp0, hp2, hu, hrh, q0, q2]
        · -- AM/PM word
          simp only [hfl, hw, hm, ha]
          cases hh : res.hour with
          | none => cases fuzzy <;> cases hap : res.ampm <;> simp [bind_ok, bind_err, bind_assoc, bind_ite, ite_ok_ok, map_eq, map_eq', PPy.optNat, PPy.optTok, throw_eq', tk_colon, tk_dash, tk_slash, tk_plus, tk_space, tk_lpar, tk_rpar, Nat.add_assoc, eq_chain, intStrLen_eq, PM.ampmValid, hh, hap]
          | some h =>
            by_cases h12 : h ≤ 12 <;> cases fuzzy <;> cases hap : res.ampm <;>
              simp [bind_ok, bind_err, bind_assoc, bind_ite, ite_ok_ok, map_eq, map_eq', PPy.optNat, PPy.optTok, throw_eq', tk_colon, tk_dash, tk_slash, tk_plus, tk_space, tk_lpar, tk_rpar, Nat.add_assoc, eq_chain, intStrLen_eq, PM.ampmValid, hh, hap, h12, natOfInt_adjust, PM.adjustAmpm]
      · -- month name
        first | (by_cases e3 : t3 = [' '] <;> simp [bind_ok, bind_err, bind_assoc, bind_ite, ite_ok_ok, map_eq, map_eq', PPy.optNat, PPy.optTok, throw_eq', tk_colon, tk_dash, tk_slash, tk_plus, tk_space, tk_lpar, tk_rpar, Nat.add_assoc, eq_chain, intStrLen_eq, hfl, hw, hm, e3]) | simp [bind_ok, bind_err, bind_assoc, bind_ite, ite_ok_ok, map_eq, map_eq', PPy.optNat, PPy.optTok, throw_eq', tk_colon, tk_dash, tk_slash, tk_plus, tk_space, tk_lpar, tk_rpar, Nat.add_assoc, eq_chain, intStrLen_eq, hfl, hw, hm]
    · -- weekday name
      simp [bind_ok, bind_err, bind_assoc, bind_ite, ite_ok_ok, map_eq, map_eq', PPy.optNat, PPy.optTok, throw_eq', tk_colon, tk_dash, tk_slash, tk_plus, tk_space, tk_lpar, tk_rpar, Nat.add_assoc, eq_chain, intStrLen_eq, hfl, hw]
  · -- numeric token
    simp [bind_ok, bind_err, bind_assoc, bind_ite, ite_ok_ok, map_eq, map_eq', PPy.optNat, PPy.optTok, throw_eq', tk_colon, tk_dash, tk_slash, tk_plus, tk_space, tk_lpar, tk_rpar, Nat.add_assoc, eq_chain, intStrLen_eq, hfl]

/-- the arms, when l.length = i + 2 -/
theorem parseStep_eq_1 (cls : Char → CClass) (info : Info) (fuzzy : Bool) (l : List Token) (i : Nat) (res : Res) (ymd : Ymd)
    (skipped : List Nat) (hc : 100 ≤ info.century) (hlt : i < l.length) (hk : l.length = i + 2) :
    Gen.P.parseStep cls info l i l.length res ymd skipped fuzzy =
      (PM.parseStep cls info fuzzy l.length i { l := l, res := res, ymd := ymd, skipped := skipped }).map
        (fun r => (r.2.l, i + r.1 + 1, r.2.res, r.2.ymd, r.2.skipped)) := by
  unfold Gen.P.parseStep PM.parseStep
  simp only [paren_cond, tzParenName_eq, PM.stepTzoffset]
  simp only [bind_eq, toksAt_nat l i hlt, tokAt_lt l i hlt, bind_ok]
  have lt1 : (i + 1 < l.length) = True := eq_true (by omega)
  have lt2 : (i + 2 < l.length) = False := eq_false (by omega)
  have lt3 : (i + 3 < l.length) = False := eq_false (by omega)
  have lt4 : (i + 4 < l.length) = False := eq_false (by omega)
  have v1 : i + 1 < l.length := by omega
  have w2 : l.length ≤ i + 2 := by omega
  have w3 : l.length ≤ i + 3 := by omega
  have w4 : l.length ≤ i + 4 := by omega
  simp only [PM.stepMonth, PM.stepAmpm, PM.stepTzname, PM.stepTzoffset, PM.tzOffsetDigits, PM.tzParenName, PM.tokIs, if_true, if_false, true_and, false_and, and_true, and_false, true_or, false_or, or_true, or_false, bind_ok, bind_err, bind_eq, pure_eq, Option.bind_some, Option.bind_none, Option.any_some, Option.any_none, lt1, lt2, lt3, lt4, toksAt_nat l (i + 1) v1, tokAt_lt l (i + 1) v1, List.getElem?_eq_getElem v1, tokAt_ge l (i + 2) w2, toksAt_ge l (i + 2) w2, List.getElem?_eq_none w2, tokAt_ge l (i + 3) w3, toksAt_ge l (i + 3) w3, List.getElem?_eq_none w3, tokAt_ge l (i + 4) w4, toksAt_ge l (i + 4) w4, List.getElem?_eq_none w4, toksSet_lt l (i + 1) v1]
  simp only [info_weekday_eq, info_month_eq, info_ampm_eq, info_jump_eq, info_pertain_eq, info_utczone_eq, info_tzoffset_eq,
    appendNat_eq, appendTok_eq, convert_append cls info _ _ hc, ampmValid_eq, couldBeTzname_eq, parseNumericToken_eq, bind_ok]
  generalize l[i] = li
  try generalize l[i + 1] = t1
  cases hfl : PM.floatOk cls li
  · cases hw : info.weekdayOf li
    · cases hm : info.monthOf li
      · cases ha : info.ampmOf li
        · -- time zone name / offset / jump
          simp only [hfl, hw, hm, ha]
          cases hrh : res.hour with
          | none =>
            cases hp0 : parenName info l i none res.tzname with
            | none =>
              cases hp2 : parenName info l (i + 2) none res.tzname with
              | none =>
                cases hu : info.isUtczone li <;>
                  first
                  | (by_cases hs : (t1 = ['+'] ∨ t1 = ['-']) <;>
                      simp [bind_ok, bind_err, bind_assoc, bind_ite, ite_ok_ok, map_eq, map_eq', PPy.optNat, PPy.optTok, throw_eq', tk_colon, tk_dash, tk_slash, tk_plus, tk_space, tk_lpar, tk_rpar, Nat.add_assoc, eq_chain, intStrLen_eq, hp0, hp2, hu, hrh, hs])
                  | simp [bind_ok, bind_err, bind_assoc, bind_ite, ite_ok_ok, map_eq, map_eq', PPy.optNat, PPy.optTok, throw_eq', tk_colon, tk_dash, tk_slash, tk_plus, tk_space, tk_lpar, tk_rpar, Nat.add_assoc, eq_chain, intStrLen_eq, hp0, hp2, hu, hrh]
              | some n2 =>
                have q2 : PPy.toksAt l ((i : Int) + 2 + 4) = .ok n2 := by
                  have := paren_tok info l _ _ _ _ hp2; simpa using this
                cases hu : info.isUtczone li <;>
                  first
                  | (by_cases hs : (t1 = ['+'] ∨ t1 = ['-']) <;>
                      simp [bind_ok, bind_err, bind_assoc, bind_ite, ite_ok_ok, map_eq, map_eq', PPy.optNat, PPy.optTok, throw_eq', tk_colon, tk_dash, tk_slash, tk_plus, tk_space, tk_lpar, tk_rpar, Nat.add_assoc, eq_chain, intStrLen_eq, hp0, hp2, hu, hrh, hs, q2])
                  | simp [bind_ok, bind_err, bind_assoc, bind_ite, ite_ok_ok, map_eq, map_eq', PPy.optNat, PPy.optTok, throw_eq', tk_colon, tk_dash, tk_slash, tk_plus, tk_space, tk_lpar, tk_rpar, Nat.add_assoc, eq_chain, intStrLen_eq, hp0, hp2, hu, hrh, q2]
            | some n0 =>
              have q0 : PPy.toksAt l ((i : Int) + 4) = .ok n0 := by
                have := paren_tok info l _ _ _ _ hp0; simpa using this
              cases hp2 : parenName info l (i + 2) none res.tzname with
              | none =>
                cases hu : info.isUtczone li <;>
                  first
                  | (by_cases hs : (t1 = ['+'] ∨ t1 = ['-']) <;>
                      simp [bind_ok, bind_err, bind_assoc, bind_ite, ite_ok_ok, map_eq, map_eq', PPy.optNat, PPy.optTok, throw_eq', tk_colon, tk_dash, tk_slash, tk_plus, tk_space, tk_lpar, tk_rpar, Nat.add_assoc, eq_chain, intStrLen_eq, hp0, hp2, hu, hrh, hs, q0])
                  | simp [bind_ok, bind_err, bind_assoc, bind_ite, ite_ok_ok, map_eq, map_eq', PPy.optNat, PPy.optTok, throw_eq', tk_colon, tk_dash, tk_slash, tk_plus, tk_space, tk_lpar, tk_rpar, Nat.add_assoc, eq_chain, intStrLen_eq, hp0, hp2, hu, hrh, q0]
              | some n2 =>
                have q2 : PPy.toksAt l ((i : Int) + 2 + 4) = .ok n2 := by
                  have := paren_tok info l _ _ _ _ hp2; simpa using this
                cases hu : info.isUtczone li <;>
                  first
                  | (by_cases hs : (t1 = ['+'] ∨ t1 = ['-']) <;>
                      simp [bind_ok, bind_err, bind_assoc, bind_ite, ite_ok_ok, map_eq, map_eq', PPy.optNat, PPy.optTok, throw_eq', tk_colon, tk_dash, tk_slash, tk_plus, tk_space, tk_lpar, tk_rpar, Nat.add_assoc, eq_chain, intStrLen_eq, hp0, hp2, hu, hrh, hs, q0, q2])
                  | simp [bind_ok, bind_err, bind_assoc, bind_ite, ite_ok_ok, map_eq, map_eq', PPy.optNat, PPy.optTok, throw_eq', tk_colon, tk_dash, tk_slash, tk_plus, tk_space, tk_lpar, tk_rpar, Nat.add_assoc, eq_chain, intStrLen_eq, hp0, hp2, hu, hrh, q0, q2]
          | some hr =>
            cases hp0 : parenName info l i (some hr) res.tzname with
            | none =>
              cases hp2 : parenName info l (i + 2) (some hr) res.tzname with
              | none =>
                cases hu : info.isUtczone li <;>
                  first
                  | (by_cases hs : (t1 = ['+'] ∨ t1 = ['-']) <;>
                      simp [bind_ok, bind_err, bind_assoc, bind_ite, ite_ok_ok, map_eq, map_eq', PPy.optNat, PPy.optTok, throw_eq', tk_colon, tk_dash, tk_slash, tk_plus, tk_space, tk_lpar, tk_rpar, Nat.add_assoc, eq_chain, intStrLen_eq, hp0, hp2, hu, hrh, hs])
                  | simp [bind_ok, bind_err, bind_assoc, bind_ite, ite_ok_ok, map_eq, map_eq', PPy.optNat, PPy.optTok, throw_eq', tk_colon, tk_dash, tk_slash, tk_plus, tk_space, tk_lpar, tk_rpar, Nat.add_assoc, eq_chain, intStrLen_eq, hp0, hp2, hu, hrh]
              | some n2 =>
                have q2 : PPy.toksAt l ((i : Int) + 2 + 4) = .ok n2 := by
                  have := paren_tok info l _ _ _ _ hp2; simpa using this
                cases hu : info.isUtczone li <;>
                  first
                  | (by_cases hs : (t1 = ['+'] ∨ t1 = ['-']) <;>
                      simp [bind_ok, bind_err, bind_assoc, bind_ite, ite_ok_ok, map_eq, map_eq', PPy.optNat, PPy.optTok, throw_eq', tk_colon, tk_dash, tk_slash, tk_plus, tk_space, tk_lpar, tk_rpar, Nat.add_assoc, eq_chain, intStrLen_eq, hp0, hp2, hu, hrh, hs, q2])
                  | simp [bind_ok, bind_err, bind_assoc, bind_ite, ite_ok_ok, map_eq, map_eq', PPy.optNat, PPy.optTok, throw_eq', tk_colon, tk_dash, tk_slash, tk_plus, tk_space, tk_lpar, tk_rpar, Nat.add_assoc, eq_chain, intStrLen_eq, hp0, hp2, hu, hrh, q2]
            | some n0 =>
              have q0 : PPy.toksAt l ((i : Int) + 4) = .ok n0 := by
                have := paren_tok info l _ _ _ _ hp0; simpa using this
              cases hp2 : parenName info l (i + 2) (some hr) res.tzname with
              | none =>
                cases hu : info.isUtczone li <;>
                  first
                  | (by_cases hs : (t1 = ['+'] ∨ t1 = ['-']) <;>
                      simp [bind_ok, bind_err, bind_assoc, bind_ite, ite_ok_ok, map_eq, map_eq', PPy.optNat, PPy.optTok, throw_eq', tk_colon, tk_dash, tk_slash, tk_plus, tk_space, tk_lpar, tk_rpar, Nat.add_assoc, eq_chain, intStrLen_eq, hp0, hp2, hu, hrh, hs, q0])
                  | simp [bind_ok, bind_err, bind_assoc, bind_ite, ite_ok_ok, map_eq, map_eq', PPy.optNat, PPy.optTok, throw_eq', tk_colon, tk_dash, tk_slash, tk_plus, tk_space, tk_lpar, tk_rpar, Nat.add_assoc, eq_chain, intStrLen_eq, hp0, hp2, hu, hrh, q0]
              | some n2 =>
                have q2 : PPy.toksAt l ((i : Int) + 2 + 4) = .ok n2 := by
                  have := paren_tok info l _ _ _ _ hp2; simpa using this
                cases hu : info.isUtczone li <;>
                  first
                  | (by_cases hs : (t1 = ['+'] ∨ t1 = ['-']) <;>
                      simp [bind_ok, bind_err, bind_assoc, bind_ite, ite_ok_ok, map_eq, map_eq', PPy.optNat, PPy.optTok, throw_eq', tk_colon, tk_dash, tk_slash, tk_plus, tk_space, tk_lpar, tk_rpar, Nat.add_assoc, eq_chain, intStrLen_eq, hp0, hp2, hu, hrh, hs, q0, q2])
                  | simp [bind_ok, bind_err, bind_assoc, bind_ite, ite_ok_ok, map_eq, map_eq', PPy.optNat, PPy.optTok, throw_eq', tk_colon, tk_dash, tk_slash, tk_plus, tk_space, tk_lpar, tk_rpar, Nat.add_assoc, eq_chain, intStrLen_eq, hp0, hp2, hu, hrh, q0, q2]
        · -- AM/PM word
          simp only [hfl, hw, hm, ha]
          cases hh : res.hour with
          | none => cases fuzzy <;> cases hap : res.ampm <;> simp [bind_ok, bind_err, bind_assoc, bind_ite, ite_ok_ok, map_eq, map_eq', PPy.optNat, PPy.optTok, throw_eq', tk_colon, tk_dash, tk_slash, tk_plus, tk_space, tk_lpar, tk_rpar, Nat.add_assoc, eq_chain, intStrLen_eq, PM.ampmValid, hh, hap]
          | some h =>
            by_cases h12 : h ≤ 12 <;> cases fuzzy <;> cases hap : res.ampm <;>
              simp [bind_ok, bind_err, bind_assoc, bind_ite, ite_ok_ok, map_eq, map_eq', PPy.optNat, PPy.optTok, throw_eq', tk_colon, tk_dash, tk_slash, tk_plus, tk_space, tk_lpar, tk_rpar, Nat.add_assoc, eq_chain, intStrLen_eq, PM.ampmValid, hh, hap, h12, natOfInt_adjust, PM.adjustAmpm]
      · -- month name
        first | (by_cases e3 : t3 = [' '] <;> simp [bind_ok, bind_err, bind_assoc, bind_ite, ite_ok_ok, map_eq, map_eq', PPy.optNat, PPy.optTok, throw_eq', tk_colon, tk_dash, tk_slash, tk_plus, tk_space, tk_lpar, tk_rpar, Nat.add_assoc, eq_chain, intStrLen_eq, hfl, hw, hm, e3]) | simp [bind_ok, bind_err, bind_assoc, bind_ite, ite_ok_ok, map_eq, map_eq', PPy.optNat, PPy.optTok, throw_eq', tk_colon, tk_dash, tk_slash, tk_plus, tk_space, tk_lpar, tk_rpar, Nat.add_assoc, eq_chain, intStrLen_eq, hfl, hw, hm]
    · -- weekday name
      simp [bind_ok, bind_err, bind_assoc, bind_ite, ite_ok_ok, map_eq, map_eq', PPy.optNat, PPy.optTok, throw_eq', tk_colon, tk_dash, tk_slash, tk_plus, tk_space, tk_lpar, tk_rpar, Nat.add_assoc, eq_chain, intStrLen_eq, hfl, hw]
  · -- numeric token
    simp [bind_ok, bind_err, bind_assoc, bind_ite, ite_ok_ok, map_eq, map_eq', PPy.optNat, PPy.optTok, throw_eq', tk_colon, tk_dash, tk_slash, tk_plus, tk_space, tk_lpar, tk_rpar, Nat.add_assoc, eq_chain, intStrLen_eq, hfl]

/-- the arms, when l.length = i + 3 -/
theorem parseStep_eq_2 (cls : Char → CClass) (info : Info) (fuzzy : Bool) (l : List Token) (i : Nat) (res : Res) (ymd : Ymd)
    (skipped : List Nat) (hc : 100 ≤ info.century) (hlt : i < l.length) (hk : l.length = i + 3) :
    Gen.P.parseStep cls info l i l.length res ymd skipped fuzzy =
      (PM.parseStep cls info fuzzy l.length i { l := l, res := res, ymd := ymd, skipped := skipped }).map
        (fun r => (r.2.l, i + r.1 + 1, r.2.res, r.2.ymd, r.2.skipped)) := by
  unfold Gen.P.parseStep PM.parseStep
  simp only [paren_cond, tzParenName_eq, PM.stepTzoffset]
  simp only [bind_eq, toksAt_nat l i hlt, tokAt_lt l i hlt, bind_ok]
  have lt1 : (i + 1 < l.length) = True := eq_true (by omega)
  have lt2 : (i + 2 < l.length) = True := eq_true (by omega)
  have lt3 : (i + 3 < l.length) = False := eq_false (by omega)
  have lt4 : (i + 4 < l.length) = False := eq_false (by omega)
  have v1 : i + 1 < l.length := by omega
  have v2 : i + 2 < l.length := by omega
  have w3 : l.length ≤ i + 3 := by omega
  have w4 : l.length ≤ i + 4 := by omega
  simp only [PM.stepMonth, PM.stepAmpm, PM.stepTzname, PM.stepTzoffset, PM.tzOffsetDigits, PM.tzParenName, PM.tokIs, if_true, if_false, true_and, false_and, and_true, and_false, true_or, false_or, or_true, or_false, bind_ok, bind_err, bind_eq, pure_eq, Option.bind_some, Option.bind_none, Option.any_some, Option.any_none, lt1, lt2, lt3, lt4, toksAt_nat l (i + 1) v1, tokAt_lt l (i + 1) v1, List.getElem?_eq_getElem v1, toksAt_nat l (i + 2) v2, tokAt_lt l (i + 2) v2, List.getElem?_eq_getElem v2, tokAt_ge l (i + 3) w3, toksAt_ge l (i + 3) w3, List.getElem?_eq_none w3, tokAt_ge l (i + 4) w4, toksAt_ge l (i + 4) w4, List.getElem?_eq_none w4, toksSet_lt l (i + 1) v1]
  simp only [info_weekday_eq, info_month_eq, info_ampm_eq, info_jump_eq, info_pertain_eq, info_utczone_eq, info_tzoffset_eq,
    appendNat_eq, appendTok_eq, convert_append cls info _ _ hc, ampmValid_eq, couldBeTzname_eq, parseNumericToken_eq, bind_ok]
  generalize l[i] = li
  try generalize l[i + 1] = t1
  try generalize l[i + 2] = t2
  cases hfl : PM.floatOk cls li
  · cases hw : info.weekdayOf li
    · cases hm : info.monthOf li
      · cases ha : info.ampmOf li
        · -- time zone name / offset / jump
          simp only [hfl, hw, hm, ha]
          cases hrh : res.hour with
          | none =>
            cases hp0 : parenName info l i none res.tzname with
            | none =>
              cases hp2 : parenName info l (i + 2) none res.tzname with
              | none =>
                cases hu : info.isUtczone li <;>
                  first
                  | (by_cases hs : (t1 = ['+'] ∨ t1 = ['-']) <;>
                      simp [bind_ok, bind_err, bind_assoc, bind_ite, ite_ok_ok, map_eq, map_eq', PPy.optNat, PPy.optTok, throw_eq', tk_colon, tk_dash, tk_slash, tk_plus, tk_space, tk_lpar, tk_rpar, Nat.add_assoc, eq_chain, intStrLen_eq, hp0, hp2, hu, hrh, hs])
                  | simp [bind_ok, bind_err, bind_assoc, bind_ite, ite_ok_ok, map_eq, map_eq', PPy.optNat, PPy.optTok, throw_eq', tk_colon, tk_dash, tk_slash, tk_plus, tk_space, tk_lpar, tk_rpar, Nat.add_assoc, eq_chain, intStrLen_eq, hp0, hp2, hu, hrh]
              | some n2 =>
                have q2 : PPy.toksAt l ((i : Int) + 2 + 4) = .ok n2 := by
                  have := paren_tok info l _ _ _ _ hp2; simpa using this
                cases hu : info.isUtczone li <;>
                  first
                  | (by_cases hs : (t1 = ['+'] ∨ t1 = ['-']) <;>
                      simp [bind_ok, bind_err, bind_assoc, bind_ite, ite_ok_ok, map_eq, map_eq', PPy.optNat, PPy.optTok, throw_eq', tk_colon, tk_dash, tk_slash, tk_plus, tk_space, tk_lpar, tk_rpar, Nat.add_assoc, eq_chain, intStrLen_eq, hp0, hp2, hu, hrh, hs, q2])
                  | simp [bind_ok, bind_err, bind_assoc, bind_ite, ite_ok_ok, map_eq, map_eq', PPy.optNat, PPy.optTok, throw_eq', tk_colon, tk_dash, tk_slash, tk_plus, tk_space, tk_lpar, tk_rpar, Nat.add_assoc, eq_chain, intStrLen_eq, hp0, hp2, hu, hrh, q2]
            | some n0 =>
              have q0 : PPy.toksAt l ((i : Int) + 4) = .ok n0 := by
                have := paren_tok info l _ _ _ _ hp0; simpa using this
              cases hp2 : parenName info l (i + 2) none res.tzname with
              | none =>
                cases hu : info.isUtczone li <;>
                  first
                  | (by_cases hs : (t1 = ['+'] ∨ t1 = ['-']) <;>
                      simp [bind_ok, bind_err, bind_assoc, bind_ite, ite_ok_ok, map_eq, map_eq', PPy.optNat, PPy.optTok, throw_eq', tk_colon, tk_dash, tk_slash, tk_plus, tk_space, tk_lpar, tk_rpar, Nat.add_assoc, eq_chain, intStrLen_eq, hp0, hp2, hu, hrh, hs, q0])
                  | simp [bind_ok, bind_err, bind_assoc, bind_ite, ite_ok_ok, map_eq, map_eq', PPy.optNat, PPy.optTok, throw_eq', tk_colon, tk_dash, tk_slash, tk_plus, tk_space, tk_lpar, tk_rpar, Nat.add_assoc, eq_chain, intStrLen_eq, hp0, hp2, hu, hrh, q0]
              | some n2 =>
                have q2 : PPy.toksAt l ((i : Int) + 2 + 4) = .ok n2 := by
                  have := paren_tok info l _ _ _ _ hp2; simpa using this
                cases hu : info.isUtczone li <;>
                  first
                  | (by_cases hs : (t1 = ['+'] ∨ t1 = ['-']) <;>
                      simp [bind_ok, bind_err, bind_assoc, bind_ite, ite_ok_ok, map_eq, map_eq', PPy.optNat, PPy.optTok, throw_eq', tk_colon, tk_dash, tk_slash, tk_plus, tk_space, tk_lpar, tk_rpar, Nat.add_assoc, eq_chain, intStrLen_eq, hp0, hp2, hu, hrh, hs, q0, q2])
                  | simp [bind_ok, bind_err, bind_assoc, bind_ite, ite_ok_ok, map_eq, map_eq', PPy.optNat, PPy.optTok, throw_eq', tk_colon, tk_dash, tk_slash, tk_plus, tk_space, tk_lpar, tk_rpar, Nat.add_assoc, eq_chain, intStrLen_eq, hp0, hp2, hu, hrh, q0, q2]
          | some hr =>
            cases hp0 : parenName info l i (some hr) res.tzname with
            | none =>
              cases hp2 : parenName info l (i + 2) (some hr) res.tzname with
              | none =>
                cases hu : info.isUtczone li <;>
                  first
                  | (by_cases hs : (t1 = ['+'] ∨ t1 = ['-']) <;>
                      simp [bind_ok, bind_err, bind_assoc, bind_ite, ite_ok_ok, map_eq, map_eq', PPy.optNat, PPy.optTok, throw_eq', tk_colon, tk_dash, tk_slash, tk_plus, tk_space, tk_lpar, tk_rpar, Nat.add_assoc, eq_chain, intStrLen_eq, hp0, hp2, hu, hrh, hs])
                  | simp [bind_ok, bind_err, bind_assoc, bind_ite, ite_ok_ok, map_eq, map_eq', PPy.optNat, PPy.optTok, throw_eq', tk_colon, tk_dash, tk_slash, tk_plus, tk_space, tk_lpar, tk_rpar, Nat.add_assoc, eq_chain, intStrLen_eq, hp0, hp2, hu, hrh]
              | some n2 =>
                have q2 : PPy.toksAt l ((i : Int) + 2 + 4) = .ok n2 := by
                  have := paren_tok info l _ _ _ _ hp2; simpa using this
                cases hu : info.isUtczone li <;>
                  first
                  | (by_cases hs : (t1 = ['+'] ∨ t1 = ['-']) <;>
                      simp [bind_ok, bind_err, bind_assoc, bind_ite, ite_ok_ok, map_eq, map_eq', PPy.optNat, PPy.optTok, throw_eq', tk_colon, tk_dash, tk_slash, tk_plus, tk_space, tk_lpar, tk_rpar, Nat.add_assoc, eq_chain, intStrLen_eq, hp0, hp2, hu, hrh, hs, q2])
                  | simp [bind_ok, bind_err, bind_assoc, bind_ite, ite_ok_ok, map_eq, map_eq', PPy.optNat, PPy.optTok, throw_eq', tk_colon, tk_dash, tk_slash, tk_plus, tk_space, tk_lpar, tk_rpar, Nat.add_assoc, eq_chain, intStrLen_eq, hp0, hp2, hu, hrh, q2]
            | some n0 =>
              have q0 : PPy.toksAt l ((i : Int) + 4) = .ok n0 := by
                have := paren_tok info l _ _ _ _ hp0; simpa using this
              cases hp2 : parenName info l (i + 2) (some hr) res.tzname with
              | none =>
                cases hu : info.isUtczone li <;>
                  first
                  | (by_cases hs : (t1 = ['+'] ∨ t1 = ['-']) <;>
                      simp [bind_ok, bind_err, bind_assoc, bind_ite, ite_ok_ok, map_eq, map_eq', PPy.optNat, PPy.optTok, throw_eq', tk_colon, tk_dash, tk_slash, tk_plus, tk_space, tk_lpar, tk_rpar, Nat.add_assoc, eq_chain, intStrLen_eq, hp0, hp2, hu, hrh, hs, q0])
                  | simp [bind_ok, bind_err, bind_assoc, bind_ite, ite_ok_ok, map_eq, map_eq', PPy.optNat, PPy.optTok, throw_eq', tk_colon, tk_dash, tk_slash, tk_plus, tk_space, tk_lpar, tk_rpar, Nat.add_assoc, eq_chain, intStrLen_eq, hp0, hp2, hu, hrh, q0]
              | some n2 =>
                have q2 : PPy.toksAt l ((i : Int) + 2 + 4) = .ok n2 := by
                  have := paren_tok info l _ _ _ _ hp2; simpa using this
                cases hu : info.isUtczone li <;>
                  first
                  | (by_cases hs : (t1 = ['+'] ∨ t1 = ['-']) <;>
                      simp [bind_ok, bind_err, bind_assoc, bind_ite, ite_ok_ok, map_eq, map_eq', PPy.optNat, PPy.optTok, throw_eq', tk_colon, tk_dash, tk_slash, tk_plus, tk_space, tk_lpar, tk_rpar, Nat.add_assoc, eq_chain, intStrLen_eq, hp0, hp2, hu, hrh, hs, q0, q2])
                  | simp [bind_ok, bind_err, bind_assoc, bind_ite, ite_ok_ok, map_eq, map_eq', PPy.optNat, PPy.optTok, throw_eq', tk_colon, tk_dash, tk_slash, tk_plus, tk_space, tk_lpar, tk_rpar, Nat.add_assoc, eq_chain, intStrLen_eq, hp0, hp2, hu, hrh, q0, q2]
        · -- AM/PM word
          simp only [hfl, hw, hm, ha]
          cases hh : res.hour with
          | none => cases fuzzy <;> cases hap : res.ampm <;> simp [bind_ok, bind_err, bind_assoc, bind_ite, ite_ok_ok, map_eq, map_eq', PPy.optNat, PPy.optTok, throw_eq', tk_colon, tk_dash, tk_slash, tk_plus, tk_space, tk_lpar, tk_rpar, Nat.add_assoc, eq_chain, intStrLen_eq, PM.ampmValid, hh, hap]
          | some h =>
            by_cases h12 : h ≤ 12 <;> cases fuzzy <;> cases hap : res.ampm <;>
              simp [bind_ok, bind_err, bind_assoc, bind_ite, ite_ok_ok, map_eq, map_eq', PPy.optNat, PPy.optTok, throw_eq', tk_colon, tk_dash, tk_slash, tk_plus, tk_space, tk_lpar, tk_rpar, Nat.add_assoc, eq_chain, intStrLen_eq, PM.ampmValid, hh, hap, h12, natOfInt_adjust, PM.adjustAmpm]
      · -- month name
        first | (by_cases e3 : t3 = [' '] <;> simp [bind_ok, bind_err, bind_assoc, bind_ite, ite_ok_ok, map_eq, map_eq', PPy.optNat, PPy.optTok, throw_eq', tk_colon, tk_dash, tk_slash, tk_plus, tk_space, tk_lpar, tk_rpar, Nat.add_assoc, eq_chain, intStrLen_eq, hfl, hw, hm, e3]) | simp [bind_ok, bind_err, bind_assoc, bind_ite, ite_ok_ok, map_eq, map_eq', PPy.optNat, PPy.optTok, throw_eq', tk_colon, tk_dash, tk_slash, tk_plus, tk_space, tk_lpar, tk_rpar, Nat.add_assoc, eq_chain, intStrLen_eq, hfl, hw, hm]
    · -- weekday name
      simp [bind_ok, bind_err, bind_assoc, bind_ite, ite_ok_ok, map_eq, map_eq', PPy.optNat, PPy.optTok, throw_eq', tk_colon, tk_dash, tk_slash, tk_plus, tk_space, tk_lpar, tk_rpar, Nat.add_assoc, eq_chain, intStrLen_eq, hfl, hw]
  · -- numeric token
    simp [bind_ok, bind_err, bind_assoc, bind_ite, ite_ok_ok, map_eq, map_eq', PPy.optNat, PPy.optTok, throw_eq', tk_colon, tk_dash, tk_slash, tk_plus, tk_space, tk_lpar, tk_rpar, Nat.add_assoc, eq_chain, intStrLen_eq, hfl]

/-- the arms, when l.length = i + 4 -/
theorem parseStep_eq_3 (cls : Char → CClass) (info : Info) (fuzzy : Bool) (l : List Token) (i : Nat) (res : Res) (ymd : Ymd)
    (skipped : List Nat) (hc : 100 ≤ info.century) (hlt : i < l.length) (hk : l.length = i + 4) :
    Gen.P.parseStep cls info l i l.length res ymd skipped fuzzy =
      (PM.parseStep cls info fuzzy l.length i { l := l, res := res, ymd := ymd, skipped := skipped }).map
        (fun r => (r.2.l, i + r.1 + 1, r.2.res, r.2.ymd, r.2.skipped)) := by
  unfold Gen.P.parseStep PM.parseStep
  simp only [paren_cond, tzParenName_eq, PM.stepTzoffset]
  simp only [bind_eq, toksAt_nat l i hlt, tokAt_lt l i hlt, bind_ok]
  have lt1 : (i + 1 < l.length) = True := eq_true (by omega)
  have lt2 : (i + 2 < l.length) = True := eq_true (by omega)
  have lt3 : (i + 3 < l.length) = True := eq_true (by omega)
  have lt4 : (i + 4 < l.length) = False := eq_false (by omega)
  have v1 : i + 1 < l.length := by omega
  have v2 : i + 2 < l.length := by omega
  have v3 : i + 3 < l.length := by omega
  have w4 : l.length ≤ i + 4 := by omega
  simp only [PM.stepMonth, PM.stepAmpm, PM.stepTzname, PM.stepTzoffset, PM.tzOffsetDigits, PM.tzParenName, PM.tokIs, if_true, if_false, true_and, false_and, and_true, and_false, true_or, false_or, or_true, or_false, bind_ok, bind_err, bind_eq, pure_eq, Option.bind_some, Option.bind_none, Option.any_some, Option.any_none, lt1, lt2, lt3, lt4, toksAt_nat l (i + 1) v1, tokAt_lt l (i + 1) v1, List.getElem?_eq_getElem v1, toksAt_nat l (i + 2) v2, tokAt_lt l (i + 2) v2, List.getElem?_eq_getElem v2, toksAt_nat l (i + 3) v3, tokAt_lt l (i + 3) v3, List.getElem?_eq_getElem v3, tokAt_ge l (i + 4) w4, toksAt_ge l (i + 4) w4, List.getElem?_eq_none w4, toksSet_lt l (i + 1) v1]
  simp only [info_weekday_eq, info_month_eq, info_ampm_eq, info_jump_eq, info_pertain_eq, info_utczone_eq, info_tzoffset_eq,
    appendNat_eq, appendTok_eq, convert_append cls info _ _ hc, ampmValid_eq, couldBeTzname_eq, parseNumericToken_eq, bind_ok]
  generalize l[i] = li
  try generalize l[i + 1] = t1
  try generalize l[i + 2] = t2
  try generalize l[i + 3] = t3
  cases hfl : PM.floatOk cls li
  · cases hw : info.weekdayOf li
    · cases hm : info.monthOf li
      · cases ha : info.ampmOf li
        · -- time zone name / offset / jump
          simp only [hfl, hw, hm, ha]
          cases hrh : res.hour with
          | none =>
            cases hp0 : parenName info l i none res.tzname with
            | none =>
              cases hp2 : parenName info l (i + 2) none res.tzname with
              | none =>
                cases hu : info.isUtczone li <;>
                  first
                  | (by_cases hs : (t1 = ['+'] ∨ t1 = ['-']) <;>
                      simp [bind_ok, bind_err, bind_assoc, bind_ite, ite_ok_ok, map_eq, map_eq', PPy.optNat, PPy.optTok, throw_eq', tk_colon, tk_dash, tk_slash, tk_plus, tk_space, tk_lpar, tk_rpar, Nat.add_assoc, eq_chain, intStrLen_eq, hp0, hp2, hu, hrh, hs])
                  | simp [bind_ok, bind_err, bind_assoc, bind_ite, ite_ok_ok, map_eq, map_eq', PPy.optNat, PPy.optTok, throw_eq', tk_colon, tk_dash, tk_slash, tk_plus, tk_space, tk_lpar, tk_rpar, Nat.add_assoc, eq_chain, intStrLen_eq, hp0, hp2, hu, hrh]
              | some n2 =>
                have q2 : PPy.toksAt l ((i : Int) + 2 + 4) = .ok n2 := by
                  have := paren_tok info l _ _ _ _ hp2; simpa using this
                cases hu : info.isUtczone li <;>
                  first
                  | (by_cases hs : (t1 = ['+'] ∨ t1 = ['-']) <;>
                      simp [bind_ok, bind_err, bind_assoc, bind_ite, ite_ok_ok, map_eq, map_eq', PPy.optNat, PPy.optTok, throw_eq', tk_colon, tk_dash, tk_slash, tk_plus, tk_space, tk_lpar, tk_rpar, Nat.add_assoc, eq_chain, intStrLen_eq, hp0, hp2, hu, hrh, hs, q2])
                  | simp [bind_ok, bind_err, bind_assoc, bind_ite, ite_ok_ok, map_eq, map_eq', PPy.optNat, PPy.optTok, throw_eq', tk_colon, tk_dash, tk_slash, tk_plus, tk_space, tk_lpar, tk_rpar, Nat.add_assoc, eq_chain, intStrLen_eq, hp0, hp2, hu, hrh, q2]
            | some n0 =>
              have q0 : PPy.toksAt l ((i : Int) + 4) = .ok n0 := by
                have := paren_tok info l _ _ _ _ hp0; simpa using this
              cases hp2 : parenName info l (i + 2) none res.tzname with
              | none =>
                cases hu : info.isUtczone li <;>
                  first
                  | (by_cases hs : (t1 = ['+'] ∨ t1 = ['-']) <;>
                      simp [bind_ok, bind_err, bind_assoc, bind_ite, ite_ok_ok, map_eq, map_eq', PPy.optNat, PPy.optTok, throw_eq', tk_colon, tk_dash, tk_slash, tk_plus, tk_space, tk_lpar, tk_rpar, Nat.add_assoc, eq_chain, intStrLen_eq, hp0, hp2, hu, hrh, hs, q0])
                  | simp [bind_ok, bind_err, bind_assoc, bind_ite, ite_ok_ok, map_eq, map_eq', PPy.optNat, PPy.optTok, throw_eq', tk_colon, tk_dash, tk_slash, tk_plus, tk_space, tk_lpar, tk_rpar, Nat.add_assoc, eq_chain, intStrLen_eq, hp0, hp2, hu, hrh, q0]
              | some n2 =>
                have q2 : PPy.toksAt l ((i : Int) + 2 + 4) = .ok n2 := by
                  have := paren_tok info l _ _ _ _ hp2; simpa using this
                cases hu : info.isUtczone li <;>
                  first
                  | (by_cases hs : (t1 = ['+'] ∨ t1 = ['-']) <;>
                      simp [bind_ok, bind_err, bind_assoc, bind_ite, ite_ok_ok, map_eq, map_eq', PPy.optNat, PPy.optTok, throw_eq', tk_colon, tk_dash, tk_slash, tk_plus, tk_space, tk_lpar, tk_rpar, Nat.add_assoc, eq_chain, intStrLen_eq, hp0, hp2, hu, hrh, hs, q0, q2])
                  | simp [bind_ok, bind_err, bind_assoc, bind_ite, ite_ok_ok, map_eq, map_eq', PPy.optNat, PPy.optTok, throw_eq', tk_colon, tk_dash, tk_slash, tk_plus, tk_space, tk_lpar, tk_rpar, Nat.add_assoc, eq_chain, intStrLen_eq, hp0, hp2, hu, hrh, q0, q2]
          | some hr =>
            cases hp0 : parenName info l i (some hr) res.tzname with
            | none =>
              cases hp2 : parenName info l (i + 2) (some hr) res.tzname with
              | none =>
                cases hu : info.isUtczone li <;>
                  first
                  | (by_cases hs : (t1 = ['+'] ∨ t1 = ['-']) <;>
                      simp [bind_ok, bind_err, bind_assoc, bind_ite, ite_ok_ok, map_eq, map_eq', PPy.optNat, PPy.optTok, throw_eq', tk_colon, tk_dash, tk_slash, tk_plus, tk_space, tk_lpar, tk_rpar, Nat.add_assoc, eq_chain, intStrLen_eq, hp0, hp2, hu, hrh, hs])
                  | simp [bind_ok, bind_err, bind_assoc, bind_ite, ite_ok_ok, map_eq, map_eq', PPy.optNat, PPy.optTok, throw_eq', tk_colon, tk_dash, tk_slash, tk_plus, tk_space, tk_lpar, tk_rpar, Nat.add_assoc, eq_chain, intStrLen_eq, hp0, hp2, hu, hrh]
              | some n2 =>
                have q2 : PPy.toksAt l ((i : Int) + 2 + 4) = .ok n2 := by
                  have := paren_tok info l _ _ _ _ hp2; simpa using this
                cases hu : info.isUtczone li <;>
                  first
                  | (by_cases hs : (t1 = ['+'] ∨ t1 = ['-']) <;>
                      simp [bind_ok, bind_err, bind_assoc, bind_ite, ite_ok_ok, map_eq, map_eq', PPy.optNat, PPy.optTok, throw_eq', tk_colon, tk_dash, tk_slash, tk_plus, tk_space, tk_lpar, tk_rpar, Nat.add_assoc, eq_chain, intStrLen_eq, hp0, hp2, hu, hrh, hs, q2])
                  | simp [bind_ok, bind_err, bind_assoc, bind_ite, ite_ok_ok, map_eq, map_eq', PPy.optNat, PPy.optTok, throw_eq', tk_colon, tk_dash, tk_slash, tk_plus, tk_space, tk_lpar, tk_rpar, Nat.add_assoc, eq_chain, intStrLen_eq, hp0, hp2, hu, hrh, q2]
            | some n0 =>
              have q0 : PPy.toksAt l ((i : Int) + 4) = .ok n0 := by
                have := paren_tok info l _ _ _ _ hp0; simpa using this
              cases hp2 : parenName info l (i + 2) (some hr) res.tzname with
              | none =>
                cases hu : info.isUtczone li <;>
                  first
                  | (by_cases hs : (t1 = ['+'] ∨ t1 = ['-']) <;>
                      simp [bind_ok, bind_err, bind_assoc, bind_ite, ite_ok_ok, map_eq, map_eq', PPy.optNat, PPy.optTok, throw_eq', tk_colon, tk_dash, tk_slash, tk_plus, tk_space, tk_lpar, tk_rpar, Nat.add_assoc, eq_chain, intStrLen_eq, hp0, hp2, hu, hrh, hs, q0])
                  | simp [bind_ok, bind_err, bind_assoc, bind_ite, ite_ok_ok, map_eq, map_eq', PPy.optNat, PPy.optTok, throw_eq', tk_colon, tk_dash, tk_slash, tk_plus, tk_space, tk_lpar, tk_rpar, Nat.add_assoc, eq_chain, intStrLen_eq, hp0, hp2, hu, hrh, q0]
              | some n2 =>
                have q2 : PPy.toksAt l ((i : Int) + 2 + 4) = .ok n2 := by
                  have := paren_tok info l _ _ _ _ hp2; simpa using this
                cases hu : info.isUtczone li <;>
                  first
                  | (by_cases hs : (t1 = ['+'] ∨ t1 = ['-']) <;>
                      simp [bind_ok, bind_err, bind_assoc, bind_ite, ite_ok_ok, map_eq, map_eq', PPy.optNat, PPy.optTok, throw_eq', tk_colon, tk_dash, tk_slash, tk_plus, tk_space, tk_lpar, tk_rpar, Nat.add_assoc, eq_chain, intStrLen_eq, hp0, hp2, hu, hrh, hs, q0, q2])
                  | simp [bind_ok, bind_err, bind_assoc, bind_ite, ite_ok_ok, map_eq, map_eq', PPy.optNat, PPy.optTok, throw_eq', tk_colon, tk_dash, tk_slash, tk_plus, tk_space, tk_lpar, tk_rpar, Nat.add_assoc, eq_chain, intStrLen_eq, hp0, hp2, hu, hrh, q0, q2]
        · -- AM/PM word
          simp only [hfl, hw, hm, ha]
          cases hh : res.hour with
          | none => cases fuzzy <;> cases hap : res.ampm <;> simp [bind_ok, bind_err, bind_assoc, bind_ite, ite_ok_ok, map_eq, map_eq', PPy.optNat, PPy.optTok, throw_eq', tk_colon, tk_dash, tk_slash, tk_plus, tk_space, tk_lpar, tk_rpar, Nat.add_assoc, eq_chain, intStrLen_eq, PM.ampmValid, hh, hap]
          | some h =>
            by_cases h12 : h ≤ 12 <;> cases fuzzy <;> cases hap : res.ampm <;>
              simp [bind_ok, bind_err, bind_assoc, bind_ite, ite_ok_ok, map_eq, map_eq', PPy.optNat, PPy.optTok, throw_eq', tk_colon, tk_dash, tk_slash, tk_plus, tk_space, tk_lpar, tk_rpar, Nat.add_assoc, eq_chain, intStrLen_eq, PM.ampmValid, hh, hap, h12, natOfInt_adjust, PM.adjustAmpm]
      · -- month name
        first | (by_cases e3 : t3 = [' '] <;> simp [bind_ok, bind_err, bind_assoc, bind_ite, ite_ok_ok, map_eq, map_eq', PPy.optNat, PPy.optTok, throw_eq', tk_colon, tk_dash, tk_slash, tk_plus, tk_space, tk_lpar, tk_rpar, Nat.add_assoc, eq_chain, intStrLen_eq, hfl, hw, hm, e3]) | simp [bind_ok, bind_err, bind_assoc, bind_ite, ite_ok_ok, map_eq, map_eq', PPy.optNat, PPy.optTok, throw_eq', tk_colon, tk_dash, tk_slash, tk_plus, tk_space, tk_lpar, tk_rpar, Nat.add_assoc, eq_chain, intStrLen_eq, hfl, hw, hm]
    · -- weekday name
      simp [bind_ok, bind_err, bind_assoc, bind_ite, ite_ok_ok, map_eq, map_eq', PPy.optNat, PPy.optTok, throw_eq', tk_colon, tk_dash, tk_slash, tk_plus, tk_space, tk_lpar, tk_rpar, Nat.add_assoc, eq_chain, intStrLen_eq, hfl, hw]
  · -- numeric token
    simp [bind_ok, bind_err, bind_assoc, bind_ite, ite_ok_ok, map_eq, map_eq', PPy.optNat, PPy.optTok, throw_eq', tk_colon, tk_dash, tk_slash, tk_plus, tk_space, tk_lpar, tk_rpar, Nat.add_assoc, eq_chain, intStrLen_eq, hfl]

/-- the arms, when i + 4 < l.length -/
theorem parseStep_eq_4 (cls : Char → CClass) (info : Info) (fuzzy : Bool) (l : List Token) (i : Nat) (res : Res) (ymd : Ymd)
    (skipped : List Nat) (hc : 100 ≤ info.century) (hlt : i < l.length) (hk : i + 4 < l.length) :
    Gen.P.parseStep cls info l i l.length res ymd skipped fuzzy =
      (PM.parseStep cls info fuzzy l.length i { l := l, res := res, ymd := ymd, skipped := skipped }).map
        (fun r => (r.2.l, i + r.1 + 1, r.2.res, r.2.ymd, r.2.skipped)) := by
  unfold Gen.P.parseStep PM.parseStep
  simp only [paren_cond, tzParenName_eq, PM.stepTzoffset]
  simp only [bind_eq, toksAt_nat l i hlt, tokAt_lt l i hlt, bind_ok]
  have lt1 : (i + 1 < l.length) = True := eq_true (by omega)
  have lt2 : (i + 2 < l.length) = True := eq_true (by omega)
  have lt3 : (i + 3 < l.length) = True := eq_true (by omega)
  have lt4 : (i + 4 < l.length) = True := eq_true (by omega)
  have v1 : i + 1 < l.length := by omega
  have v2 : i + 2 < l.length := by omega
  have v3 : i + 3 < l.length := by omega
  have v4 : i + 4 < l.length := by omega
  simp only [PM.stepMonth, PM.stepAmpm, PM.stepTzname, PM.stepTzoffset, PM.tzOffsetDigits, PM.tzParenName, PM.tokIs, if_true, if_false, true_and, false_and, and_true, and_false, true_or, false_or, or_true, or_false, bind_ok, bind_err, bind_eq, pure_eq, Option.bind_some, Option.bind_none, Option.any_some, Option.any_none, lt1, lt2, lt3, lt4, toksAt_nat l (i + 1) v1, tokAt_lt l (i + 1) v1, List.getElem?_eq_getElem v1, toksAt_nat l (i + 2) v2, tokAt_lt l (i + 2) v2, List.getElem?_eq_getElem v2, toksAt_nat l (i + 3) v3, tokAt_lt l (i + 3) v3, List.getElem?_eq_getElem v3, toksAt_nat l (i + 4) v4, tokAt_lt l (i + 4) v4, List.getElem?_eq_getElem v4, toksSet_lt l (i + 1) v1]
  simp only [info_weekday_eq, info_month_eq, info_ampm_eq, info_jump_eq, info_pertain_eq, info_utczone_eq, info_tzoffset_eq,
    appendNat_eq, appendTok_eq, convert_append cls info _ _ hc, ampmValid_eq, couldBeTzname_eq, parseNumericToken_eq, bind_ok]
  generalize l[i] = li
  try generalize l[i + 1] = t1
  try generalize l[i + 2] = t2
  try generalize l[i + 3] = t3
  try generalize l[i + 4] = t4
  cases hfl : PM.floatOk cls li
  · cases hw : info.weekdayOf li
    · cases hm : info.monthOf li
      · cases ha : info.ampmOf li
        · -- time zone name / offset / jump
          simp only [hfl, hw, hm, ha]
          cases hrh : res.hour with
          | none =>
            cases hp0 : parenName info l i none res.tzname with
            | none =>
              cases hp2 : parenName info l (i + 2) none res.tzname with
              | none =>
                cases hu : info.isUtczone li <;>
                  first
                  | (by_cases hs : (t1 = ['+'] ∨ t1 = ['-']) <;>
                      simp [bind_ok, bind_err, bind_assoc, bind_ite, ite_ok_ok, map_eq, map_eq', PPy.optNat, PPy.optTok, throw_eq', tk_colon, tk_dash, tk_slash, tk_plus, tk_space, tk_lpar, tk_rpar, Nat.add_assoc, eq_chain, intStrLen_eq, hp0, hp2, hu, hrh, hs])
                  | simp [bind_ok, bind_err, bind_assoc, bind_ite, ite_ok_ok, map_eq, map_eq', PPy.optNat, PPy.optTok, throw_eq', tk_colon, tk_dash, tk_slash, tk_plus, tk_space, tk_lpar, tk_rpar, Nat.add_assoc, eq_chain, intStrLen_eq, hp0, hp2, hu, hrh]
              | some n2 =>
                have q2 : PPy.toksAt l ((i : Int) + 2 + 4) = .ok n2 := by
                  have := paren_tok info l _ _ _ _ hp2; simpa using this
                cases hu : info.isUtczone li <;>
                  first
                  | (by_cases hs : (t1 = ['+'] ∨ t1 = ['-']) <;>
                      simp [bind_ok, bind_err, bind_assoc, bind_ite, ite_ok_ok, map_eq, map_eq', PPy.optNat, PPy.optTok, throw_eq', tk_colon, tk_dash, tk_slash, tk_plus, tk_space, tk_lpar, tk_rpar, Nat.add_assoc, eq_chain, intStrLen_eq, hp0, hp2, hu, hrh, hs, q2])
                  | simp [bind_ok, bind_err, bind_assoc, bind_ite, ite_ok_ok, map_eq, map_eq', PPy.optNat, PPy.optTok, throw_eq', tk_colon, tk_dash, tk_slash, tk_plus, tk_space, tk_lpar, tk_rpar, Nat.add_assoc, eq_chain, intStrLen_eq, hp0, hp2, hu, hrh, q2]
            | some n0 =>
              have q0 : PPy.toksAt l ((i : Int) + 4) = .ok n0 := by
                have := paren_tok info l _ _ _ _ hp0; simpa using this
              cases hp2 : parenName info l (i + 2) none res.tzname with
              | none =>
                cases hu : info.isUtczone li <;>
                  first
                  | (by_cases hs : (t1 = ['+'] ∨ t1 = ['-']) <;>
                      simp [bind_ok, bind_err, bind_assoc, bind_ite, ite_ok_ok, map_eq, map_eq', PPy.optNat, PPy.optTok, throw_eq', tk_colon, tk_dash, tk_slash, tk_plus, tk_space, tk_lpar, tk_rpar, Nat.add_assoc, eq_chain, intStrLen_eq, hp0, hp2, hu, hrh, hs, q0])
                  | simp [bind_ok, bind_err, bind_assoc, bind_ite, ite_ok_ok, map_eq, map_eq', PPy.optNat, PPy.optTok, throw_eq', tk_colon, tk_dash, tk_slash, tk_plus, tk_space, tk_lpar, tk_rpar, Nat.add_assoc, eq_chain, intStrLen_eq, hp0, hp2, hu, hrh, q0]
              | some n2 =>
                have q2 : PPy.toksAt l ((i : Int) + 2 + 4) = .ok n2 := by
                  have := paren_tok info l _ _ _ _ hp2; simpa using this
                cases hu : info.isUtczone li <;>
                  first
                  | (by_cases hs : (t1 = ['+'] ∨ t1 = ['-']) <;>
                      simp [bind_ok, bind_err, bind_assoc, bind_ite, ite_ok_ok, map_eq, map_eq', PPy.optNat, PPy.optTok, throw_eq', tk_colon, tk_dash, tk_slash, tk_plus, tk_space, tk_lpar, tk_rpar, Nat.add_assoc, eq_chain, intStrLen_eq, hp0, hp2, hu, hrh, hs, q0, q2])
                  | simp [bind_ok, bind_err, bind_assoc, bind_ite, ite_ok_ok, map_eq, map_eq', PPy.optNat, PPy.optTok, throw_eq', tk_colon, tk_dash, tk_slash, tk_plus, tk_space, tk_lpar, tk_rpar, Nat.add_assoc, eq_chain, intStrLen_eq, hp0, hp2, hu, hrh, q0, q2]
          | some hr =>
            cases hp0 : parenName info l i (some hr) res.tzname with
            | none =>
              cases hp2 : parenName info l (i + 2) (some hr) res.tzname with
              | none =>
                cases hu : info.isUtczone li <;>
                  first
                  | (by_cases hs : (t1 = ['+'] ∨ t1 = ['-']) <;>
                      simp [bind_ok, bind_err, bind_assoc, bind_ite, ite_ok_ok, map_eq, map_eq', PPy.optNat, PPy.optTok, throw_eq', tk_colon, tk_dash, tk_slash, tk_plus, tk_space, tk_lpar, tk_rpar, Nat.add_assoc, eq_chain, intStrLen_eq, hp0, hp2, hu, hrh, hs])
                  | simp [bind_ok, bind_err, bind_assoc, bind_ite, ite_ok_ok, map_eq, map_eq', PPy.optNat, PPy.optTok, throw_eq', tk_colon, tk_dash, tk_slash, tk_plus, tk_space, tk_lpar, tk_rpar, Nat.add_assoc, eq_chain, intStrLen_eq, hp0, hp2, hu, hrh]
              | some n2 =>
                have q2 : PPy.toksAt l ((i : Int) + 2 + 4) = .ok n2 := by
                  have := paren_tok info l _ _ _ _ hp2; simpa using this
                cases hu : info.isUtczone li <;>
                  first
                  | (by_cases hs : (t1 = ['+'] ∨ t1 = ['-']) <;>
                      simp [bind_ok, bind_err, bind_assoc, bind_ite, ite_ok_ok, map_eq, map_eq', PPy.optNat, PPy.optTok, throw_eq', tk_colon, tk_dash, tk_slash, tk_plus, tk_space, tk_lpar, tk_rpar, Nat.add_assoc, eq_chain, intStrLen_eq, hp0, hp2, hu, hrh, hs, q2])
                  | simp [bind_ok, bind_err, bind_assoc, bind_ite, ite_ok_ok, map_eq, map_eq', PPy.optNat, PPy.optTok, throw_eq', tk_colon, tk_dash, tk_slash, tk_plus, tk_space, tk_lpar, tk_rpar, Nat.add_assoc, eq_chain, intStrLen_eq, hp0, hp2, hu, hrh, q2]
            | some n0 =>
              have q0 : PPy.toksAt l ((i : Int) + 4) = .ok n0 := by
                have := paren_tok info l _ _ _ _ hp0; simpa using this
              cases hp2 : parenName info l (i + 2) (some hr) res.tzname with
              | none =>
                cases hu : info.isUtczone li <;>
                  first
                  | (by_cases hs : (t1 = ['+'] ∨ t1 = ['-']) <;>
                      simp [bind_ok, bind_err, bind_assoc, bind_ite, ite_ok_ok, map_eq, map_eq', PPy.optNat, PPy.optTok, throw_eq', tk_colon, tk_dash, tk_slash, tk_plus, tk_space, tk_lpar, tk_rpar, Nat.add_assoc, eq_chain, intStrLen_eq, hp0, hp2, hu, hrh, hs, q0])
                  | simp [bind_ok, bind_err, bind_assoc, bind_ite, ite_ok_ok, map_eq, map_eq', PPy.optNat, PPy.optTok, throw_eq', tk_colon, tk_dash, tk_slash, tk_plus, tk_space, tk_lpar, tk_rpar, Nat.add_assoc, eq_chain, intStrLen_eq, hp0, hp2, hu, hrh, q0]
              | some n2 =>
                have q2 : PPy.toksAt l ((i : Int) + 2 + 4) = .ok n2 := by
                  have := paren_tok info l _ _ _ _ hp2; simpa using this
                cases hu : info.isUtczone li <;>
                  first
                  | (by_cases hs : (t1 = ['+'] ∨ t1 = ['-']) <;>
                      simp [bind_ok, bind_err, bind_assoc, bind_ite, ite_ok_ok, map_eq, map_eq', PPy.optNat, PPy.optTok, throw_eq', tk_colon, tk_dash, tk_slash, tk_plus, tk_space, tk_lpar, tk_rpar, Nat.add_assoc, eq_chain, intStrLen_eq, hp0, hp2, hu, hrh, hs, q0, q2])
                  | simp [bind_ok, bind_err, bind_assoc, bind_ite, ite_ok_ok, map_eq, map_eq', PPy.optNat, PPy.optTok, throw_eq', tk_colon, tk_dash, tk_slash, tk_plus, tk_space, tk_lpar, tk_rpar, Nat.add_assoc, eq_chain, intStrLen_eq, hp0, hp2, hu, hrh, q0, q2]
        · -- AM/PM word
          simp only [hfl, hw, hm, ha]
          cases hh : res.hour with
          | none => cases fuzzy <;> cases hap : res.ampm <;> simp [bind_ok, bind_err, bind_assoc, bind_ite, ite_ok_ok, map_eq, map_eq', PPy.optNat, PPy.optTok, throw_eq', tk_colon, tk_dash, tk_slash, tk_plus, tk_space, tk_lpar, tk_rpar, Nat.add_assoc, eq_chain, intStrLen_eq, PM.ampmValid, hh, hap]
          | some h =>
            by_cases h12 : h ≤ 12 <;> cases fuzzy <;> cases hap : res.ampm <;>
              simp [bind_ok, bind_err, bind_assoc, bind_ite, ite_ok_ok, map_eq, map_eq', PPy.optNat, PPy.optTok, throw_eq', tk_colon, tk_dash, tk_slash, tk_plus, tk_space, tk_lpar, tk_rpar, Nat.add_assoc, eq_chain, intStrLen_eq, PM.ampmValid, hh, hap, h12, natOfInt_adjust, PM.adjustAmpm]
      · -- month name
        first | (by_cases e3 : t3 = [' '] <;> simp [bind_ok, bind_err, bind_assoc, bind_ite, ite_ok_ok, map_eq, map_eq', PPy.optNat, PPy.optTok, throw_eq', tk_colon, tk_dash, tk_slash, tk_plus, tk_space, tk_lpar, tk_rpar, Nat.add_assoc, eq_chain, intStrLen_eq, hfl, hw, hm, e3]) | simp [bind_ok, bind_err, bind_assoc, bind_ite, ite_ok_ok, map_eq, map_eq', PPy.optNat, PPy.optTok, throw_eq', tk_colon, tk_dash, tk_slash, tk_plus, tk_space, tk_lpar, tk_rpar, Nat.add_assoc, eq_chain, intStrLen_eq, hfl, hw, hm]
    · -- weekday name
      simp [bind_ok, bind_err, bind_assoc, bind_ite, ite_ok_ok, map_eq, map_eq', PPy.optNat, PPy.optTok, throw_eq', tk_colon, tk_dash, tk_slash, tk_plus, tk_space, tk_lpar, tk_rpar, Nat.add_assoc, eq_chain, intStrLen_eq, hfl, hw]
  · -- numeric token
    simp [bind_ok, bind_err, bind_assoc, bind_ite, ite_ok_ok, map_eq, map_eq', PPy.optNat, PPy.optTok, throw_eq', tk_colon, tk_dash, tk_slash, tk_plus, tk_space, tk_lpar, tk_rpar, Nat.add_assoc, eq_chain, intStrLen_eq, hfl]

/-- the body of `while i < len_l:` in `parser._parse` as written now = `PM.parseStep` (the model returns how many FURTHER
    tokens were consumed), for every parserinfo whose `_century` is at least 100 (`str(info.convertyear(value))` is then the
    text of a non-negative number) -/
theorem parseStep_eq (cls : Char → CClass) (info : Info) (fuzzy : Bool) (l : List Token) (i : Nat) (res : Res) (ymd : Ymd)
    (skipped : List Nat) (hc : 100 ≤ info.century) :
    Gen.P.parseStep cls info l i l.length res ymd skipped fuzzy =
      (PM.parseStep cls info fuzzy l.length i { l := l, res := res, ymd := ymd, skipped := skipped }).map
        (fun r => (r.2.l, i + r.1 + 1, r.2.res, r.2.ymd, r.2.skipped)) := by
  by_cases hlt : i < l.length
  · by_cases h4 : i + 4 < l.length
    · exact parseStep_eq_4 cls info fuzzy l i res ymd skipped hc hlt h4
    · by_cases h3 : l.length = i + 4
      · exact parseStep_eq_3 cls info fuzzy l i res ymd skipped hc hlt h3
      · by_cases h2 : l.length = i + 3
        · exact parseStep_eq_2 cls info fuzzy l i res ymd skipped hc hlt h2
        · by_cases h1 : l.length = i + 2
          · exact parseStep_eq_1 cls info fuzzy l i res ymd skipped hc hlt h1
          · exact parseStep_eq_0 cls info fuzzy l i res ymd skipped hc hlt (by omega)
  · have hge : l.length ≤ i := Nat.le_of_not_lt hlt
    unfold Gen.P.parseStep PM.parseStep
    simp [toksAt_ge l i hge, tokAt_ge l i hge, bind_err, bind_eq, Except.map]

end PGen
