/-
  Proofs/ParserWrites.lean — the only write `_parse` makes into its token list is the sign flip of the
  `TZNAME+N` arm (for C14: where aliasing of the token list could leak state from one call into the next).
-/
import DateutilVerif.Model.Parser

namespace PM
open Py

/-- one iteration leaves the token list alone, except that after a zone name a following `+` / `-` token at
    `i + 1` is replaced by the opposite sign -/
theorem parseStep_writes (cls : Char → CClass) (info : Info) (fuzzy : Bool) (lenL i : Nat) (st : PState) (r : Nat × PState)
    (h : parseStep cls info fuzzy lenL i st = .ok r) :
    r.2.l = st.l ∨
    ∃ name sign, st.l[i]? = some name ∧ couldBeTzname info st.res.hour st.res.tzname st.res.tzoffset name = true ∧
      st.l[i + 1]? = some sign ∧ (sign = ['+'] ∨ sign = ['-']) ∧
      r.2.l = st.l.set (i + 1) (if sign = ['+'] then ['-'] else ['+']) := by
  unfold parseStep at h
  cases ht : tokAt st.l i with
  | error e => simp [ht, bind, Except.bind] at h
  | ok li =>
    have hli : st.l[i]? = some li := by
      unfold tokAt at ht
      split at ht
      · rename_i t hh; injection ht with ht; subst ht; exact hh
      · cases ht
    simp only [ht, bind, Except.bind] at h
    split at h
    · cases hn : parseNumericToken cls info fuzzy st.l i st.ymd st.res with
      | error e => simp [hn] at h
      | ok x =>
        rw [hn] at h
        simp only [pure, Except.pure] at h
        injection h with h; subst h
        exact Or.inl rfl
    · split at h
      · simp only [pure, Except.pure] at h
        injection h with h; subst h
        exact Or.inl rfl
      · split at h
        · unfold stepMonth at h
          simp only [bind, Except.bind, pure, Except.pure] at h
          repeat' split at h
          all_goals (first | (cases h; done) | (injection h with h; subst h; exact Or.inl rfl))
        · split at h
          · unfold stepAmpm at h
            simp only [bind, Except.bind, pure, Except.pure] at h
            repeat' split at h
            all_goals (first | (cases h; done) | (injection h with h; subst h; exact Or.inl rfl))
          · split at h
            · rename_i hcb
              simp only [pure, Except.pure] at h
              injection h with h; subst h
              unfold stepTzname
              dsimp only
              split
              · rename_i l1 hl1
                split
                · rename_i hsign
                  have hx1 : st.l[i + 1]? = some l1 := by
                    split at hl1
                    · exact hl1
                    · cases hl1
                  exact Or.inr ⟨li, l1, hli, hcb, hx1, hsign, rfl⟩
                · exact Or.inl rfl
              · exact Or.inl rfl
            · split at h
              · unfold stepTzoffset at h
                simp only [bind, Except.bind, pure, Except.pure] at h
                repeat' split at h
                all_goals (first | (cases h; done) | (injection h with h; subst h; exact Or.inl rfl))
              · split at h
                · simp [throw, throwThe, MonadExceptOf.throw] at h
                · simp only [pure, Except.pure] at h
                  injection h with h; subst h
                  exact Or.inl rfl

end PM
