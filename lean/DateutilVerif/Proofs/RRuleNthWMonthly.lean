/-
  Proofs/RRuleNthWMonthly.lean — MONTHLY with nth BYDAY TOGETHER with BYWEEKNO (nth members only = outside D-C01a;
  BYWEEKNO on the complement of D-C01c): both computed masks are present and the filter is
  `simpleOk ∧ nth clause ∧ week clause`.  The argument side is reduced to the nth family by dropping BYWEEKNO
  (`stripWno`): with BYDAY given nothing else of the constructor or of `dateOk` looks at BYWEEKNO.
-/
import DateutilVerif.Proofs.RRuleNthMonthly
import DateutilVerif.Proofs.RRuleWFilter

namespace RRule
open Cal

/-- MONTHLY, BYDAY of nth weekdays only, BYWEEKNO on the complement of D-C01c -/
structure NthWMArgs (a : Args) : Prop where
  freq : a.freq = 1
  interval : 1 ≤ a.interval
  valid : a.dtstart.Valid
  wkst : 0 ≤ a.wkst.getD 0 ∧ a.wkst.getD 0 ≤ 6
  byeaster : a.byeaster = none
  monthday_nz : ∀ x ∈ a.bymonthday.getD [], x ≠ 0
  weekdays : ∃ l, a.byweekday = some l ∧ l ≠ [] ∧ ∀ w ∈ l, (0 ≤ w.1 ∧ w.1 ≤ 6) ∧ w.2 ≠ 0
  weekno : ∃ wl, a.byweekno = some wl ∧ wl ≠ [] ∧ WnoOk wl

/-- the same argument set without BYWEEKNO -/
def stripWno (a : Args) : Args := { a with byweekno := none }

variable {a : Args} {r : Rule}

theorem nw_strip (na : NthWMArgs a) : NthMArgs (stripWno a) :=
  ⟨na.freq, na.interval, na.valid, rfl, na.byeaster, na.monthday_nz, na.weekdays⟩

theorem nw_noDay (na : NthWMArgs a) : noDayParts a = false := by
  obtain ⟨l, hl, _, _⟩ := na.weekdays
  unfold noDayParts; simp [hl]

/-! ### dropping BYWEEKNO when BYDAY is given -/

/-- the constructor on the argument set without BYWEEKNO: the same rule without the BYWEEKNO tuple -/
theorem construct_stripWno (a : Args) (r : Rule) (h : construct a = .ok r) (hnd : noDayParts a = false)
    (hnd0 : noDayParts (stripWno a) = false) :
    construct (stripWno a) = .ok { r with byweekno := none } := by
  have hi := construct_interval_pos a r h
  obtain ⟨sp, bh, bm, bs, ts, h1, h2, h3, h4, h5, hr⟩ := construct_ok a r h
  have e6 : bymonthOf (stripWno a) = bymonthOf a := by unfold bymonthOf; rw [hnd0, hnd]; rfl
  have e7 : monthdayArg (stripWno a) = monthdayArg a := by unfold monthdayArg; rw [hnd0, hnd]; rfl
  have e8 : weekdayArg (stripWno a) = weekdayArg a := by unfold weekdayArg; rw [hnd0, hnd]; rfl
  have e9 : bymonthdayOf (stripWno a) = bymonthdayOf a := by unfold bymonthdayOf; rw [e7]
  have e10 : bynmonthdayOf (stripWno a) = bynmonthdayOf a := by unfold bynmonthdayOf; rw [e7]
  have e11 : byweekdayOf (stripWno a) = byweekdayOf a := by unfold byweekdayOf; rw [e8]; rfl
  have e12 : bynweekdayOf (stripWno a) = bynweekdayOf a := by unfold bynweekdayOf; rw [e8]; rfl
  have e1 : normBysetpos (stripWno a) = .ok sp := h1
  have e2 : normUnit (stripWno a).freq 4 (stripWno a).interval (stripWno a).dtstart.hh (stripWno a).byhour 24 = .ok bh := h2
  have e3 : normUnit (stripWno a).freq 5 (stripWno a).interval (stripWno a).dtstart.mm (stripWno a).byminute 60 = .ok bm := h3
  have e4 : normUnit (stripWno a).freq 6 (stripWno a).interval (stripWno a).dtstart.ss (stripWno a).bysecond 60 = .ok bs := h4
  have e5 : timesetOf (stripWno a) bh bm bs = .ok ts := h5
  unfold construct constructBody
  rw [if_neg (show ¬ (stripWno a).interval < 1 from by show ¬ a.interval < 1; omega)]
  rw [e1, e2, e3, e4]
  simp only [bind, Except.bind, e5, pure, Except.pure, e6, e9, e10, e11, e12]
  rw [hr]
  rfl

/-- `dateOk` with BYDAY given: the BYWEEKNO clause splits off -/
theorem dateOk_stripWno (a : Args) (hnd : noDayParts a = false) (hnd0 : noDayParts (stripWno a) = false) (ord : Int) :
    Spec.RRule.dateOk a ord = (Spec.RRule.dateOk (stripWno a) ord && specW a ord) := by
  have hnd' : Spec.RRule.noDayParts a = false := hnd
  have hnd0' : Spec.RRule.noDayParts (stripWno a) = false := hnd0
  have hm : Spec.RRule.months (stripWno a) = Spec.RRule.months a := by
    unfold Spec.RRule.months; rw [hnd0', hnd']; rfl
  have hmd : Spec.RRule.monthdays (stripWno a) = Spec.RRule.monthdays a := by
    unfold Spec.RRule.monthdays; rw [hnd0', hnd']; rfl
  have hwd : Spec.RRule.weekdays (stripWno a) = Spec.RRule.weekdays a := by
    unfold Spec.RRule.weekdays; rw [hnd0', hnd']; rfl
  have hnth : ∀ o y m n, Spec.RRule.nthOk (stripWno a) o y m n = Spec.RRule.nthOk a o y m n := by
    intro o y m n; unfold Spec.RRule.nthOk; rw [hm]; rfl
  unfold Spec.RRule.dateOk specW
  simp only [hm, hmd, hwd, hnth]
  have e1 : (stripWno a).byyearday = a.byyearday := rfl
  have e2 : (stripWno a).byweekno = none := rfl
  have e3 : (stripWno a).byeaster = a.byeaster := rfl
  have e4 : (stripWno a).freq = a.freq := rfl
  have e5 : Spec.RRule.wkst (stripWno a) = Spec.RRule.wkst a := rfl
  rw [e1, e2, e3, e4]
  rcases a.byweekno with _ | (_ | ⟨x, xs⟩) <;> dsimp only <;> (try simp only [Bool.and_true]) <;> (try ac_rfl)

/-! ### the rule and the filter -/

/-- both computed masks: nth BYDAY members only, BYWEEKNO, no BYEASTER -/
structure NthWRule (r : Rule) : Prop where
  byweekno : truthy r.byweekno = true
  byeaster : truthy r.byeaster = false
  byweekday : r.byweekday = none

variable {y : Int} {info : Info}

open RRule.Tables in
/-- the BY-filter with an nth-weekday mask and a week-number mask, inside the year -/
theorem dayFiltered_nth_w (hn : NthWRule r) (f : YearFacts r y info) (nmask wmask : List Int)
    (hm : info.nwdaymask = some nmask) (hwm : info.wnomask = some wmask) (i : Int) (h0 : 0 ≤ i)
    (h1 : i < info.yearlen) (hlen : (nmask.length : Int) = info.yearlen)
    (hwlen : info.yearlen ≤ (wmask.length : Int)) :
    dayFiltered r info i =
      .ok (!(simpleOk r (info.yearordinal + i) && (nmask[i.toNat]'(by omega) != 0) &&
        (wmask[i.toNat]'(by omega) != 0))) := by
  have hlen' : info.yearlen ≤ 366 := by rw [f.yearlen]; unfold daysInYear; split <;> omega
  have hdate := date_of_index y i f.year_lo h0 (by rw [← f.yearlen]; omega)
  rw [← f.yearordinal] at hdate
  have hmask : Py.getIdx nmask i = .ok (nmask[i.toNat]'(by omega)) := getIdx_int nmask i h0 (by omega)
  have hwmask : Py.getIdx wmask i = .ok (wmask[i.toNat]'(by omega)) := getIdx_int wmask i h0 (by omega)
  have hne : ∃ x xs, nmask = x :: xs := by
    cases nmask with
    | nil => simp at hlen; omega
    | cons x xs => exact ⟨x, xs, rfl⟩
  obtain ⟨x, xs, hxs⟩ := hne
  subst hxs
  unfold dayFiltered
  rw [mmask_date f i h0 (by omega), mdaymask_date f i h0 (by omega), nmdaymask_date f i h0 (by omega), hm, hwm]
  dsimp only
  rw [hmask]
  have htn : truthy (none : Option (List Int)) = false := rfl
  simp only [maskMiss, hn.byweekno, hn.byeaster, hn.byweekday, htn, Bool.false_eq_true, ↓reduceIte, hwmask]
  have c' : i < daysInYear y := by rw [← f.yearlen]; exact h1
  have hyd : (decide (i < info.yearlen) && !memO (i + 1) r.byyearday && !memO (-info.yearlen + i) r.byyearday ||
      decide (i ≥ info.yearlen) && !memO (i + 1 - info.yearlen) r.byyearday &&
        !memO (-info.nextyearlen + i - info.yearlen) r.byyearday) =
      !(memO (info.yearordinal + i - toOrdinal (fromOrdinal (info.yearordinal + i)).1 1 1 + 1) r.byyearday ||
        memO (info.yearordinal + i - toOrdinal (fromOrdinal (info.yearordinal + i)).1 1 1 + 1 -
              daysInYear (fromOrdinal (info.yearordinal + i)).1 - 1) r.byyearday) := by
    rw [hdate, if_pos c']
    have e1 : info.yearordinal + i - toOrdinal y 1 1 + 1 = i + 1 := by rw [f.yearordinal]; omega
    have e2 : i + 1 - daysInYear y - 1 = -info.yearlen + i := by rw [f.yearlen]; omega
    dsimp only
    rw [e1, e2]
    have c2 : ¬ (i ≥ info.yearlen) := by omega
    simp [h1, c2]
  unfold simpleOk
  rw [hyd, hn.byweekday]
  have hmn : ∀ w, memO w (none : Option (List Int)) = false := fun _ => rfl
  simp only [htn, hmn]
  generalize memO (info.yearordinal + i - toOrdinal (fromOrdinal (info.yearordinal + i)).1 1 1 + 1) r.byyearday = ya
  generalize memO (info.yearordinal + i - toOrdinal (fromOrdinal (info.yearordinal + i)).1 1 1 + 1 -
              daysInYear (fromOrdinal (info.yearordinal + i)).1 - 1) r.byyearday = yb
  generalize (fromOrdinal (info.yearordinal + i)).2.1 = mo
  generalize (fromOrdinal (info.yearordinal + i)).2.2 = dd
  generalize (fromOrdinal (info.yearordinal + i)).1 = yy
  generalize ((x :: xs)[i.toNat]'(by have := hlen; omega)) = mv
  generalize (wmask[i.toNat]'(by omega)) = wv
  have hbne : (mv != 0) = !(mv == 0) := rfl
  have hbne2 : (wv != 0) = !(wv == 0) := rfl
  rw [hbne, hbne2]
  generalize (mv == 0) = mz
  generalize (wv == 0) = wz
  cases truthy r.bymonth <;> cases memO mo r.bymonth <;>
    cases r.bymonthday.isEmpty <;> cases r.bynmonthday.isEmpty <;>
    cases r.bymonthday.contains dd <;> cases r.bynmonthday.contains (dd - daysInMonth yy mo - 1) <;>
    cases truthy r.byyearday <;> cases ya <;> cases yb <;> cases mz <;> cases wz <;> rfl

/-- `rebuild` of a MONTHLY rule with nth weekdays and BYWEEKNO: both masks -/
theorem rebuild_nth_w (hn : NthWRule r) (hf : r.freq = 1) (nwl : List (Int × Int)) (hne : nwl ≠ [])
    (hnw : r.bynweekday = some nwl) (hok : ∀ wn ∈ nwl, (0 ≤ wn.1 ∧ wn.1 ≤ 6) ∧ wn.2 ≠ 0)
    (wl : List Int) (hwl : r.byweekno = some wl) (hc : WnoOk wl) (hwk : 0 ≤ r.wkst ∧ r.wkst ≤ 6)
    (y m : Int) (hy1 : 1 ≤ y) (hy2 : y ≤ 9999) (hm1 : 1 ≤ m) (hm12 : m ≤ 12) :
    ∃ info nmask wmask, rebuild r y m = .ok info ∧
      info.nwdaymask = some nmask ∧ (nmask.length : Int) = info.yearlen ∧
      (∀ j : Int, 0 ≤ j → j < info.yearlen →
        Py.getIdx nmask j = .ok (if ∃ wn ∈ nwl, marks info (daysBeforeMonth y m)
            (daysBeforeMonth y m + daysInMonth y m - 1) j wn then 1 else 0)) ∧
      info.wnomask = some wmask ∧ (wmask.length : Int) = info.yearlen + 7 ∧
      (∀ j : Int, 0 ≤ j → j < info.yearlen →
        Py.getIdx wmask j = .ok (if weekClause r.wkst wl (info.yearordinal + j) = true then 1 else 0)) := by
  have he : eastermaskOf r y (baseInfo y) = .ok none := by
    unfold eastermaskOf; have := hn.byeaster
    split
    · rename_i h; rw [h] at this; simp [truthy] at this
    · rfl
  have hf0 := baseInfo_facts r y hy1 hy2
  obtain ⟨wmask, w1, w2, w3⟩ := buildWnomask_spec hf0 r.wkst hwk wl hc
  have hne' : ∃ w ws, wl = w :: ws := by
    have := hn.byweekno; rw [hwl] at this
    cases wl with
    | nil => simp [truthy] at this
    | cons w ws => exact ⟨w, ws, rfl⟩
  obtain ⟨w, ws, hwws⟩ := hne'
  have hw : wnomaskOf r y (baseInfo y) = .ok (some wmask) := by
    unfold wnomaskOf
    rw [hwl, hwws]
    dsimp only
    rw [← hwws, w1]
  obtain ⟨nmask, n1, n2, n3⟩ := nwdaymask_monthly hf0 hf nwl hne hnw hok m hm1 hm12
  unfold rebuild
  rw [if_neg (by omega), hw]
  dsimp only
  rw [n1]
  dsimp only
  rw [he]
  exact ⟨_, nmask, wmask, rfl, rfl, n2, n3, rfl, w2, w3⟩

/-! ### the constructed rule -/

theorem nw_rule (na : NthWMArgs a) (h : construct a = .ok r) :
    ∃ bh bm bs, r = { nthRuleOf (stripWno a) bh bm bs with byweekno := some (weeknosOf a) } := by
  have h0 := construct_stripWno a r h (nw_noDay na) (nth_noDay (nw_strip na))
  obtain ⟨bh, bm, bs, hr0⟩ := nth_rule (nw_strip na) h0
  obtain ⟨wl, hwl, _, _⟩ := na.weekno
  obtain ⟨sp, bh', bm', bs', ts, _, _, _, _, _, hr⟩ := construct_ok a r h
  have hbw : r.byweekno = some (weeknosOf a) := by rw [hr]; unfold weeknosOf; rw [hwl]; rfl
  refine ⟨bh, bm, bs, ?_⟩
  have : r = { ({ r with byweekno := none } : Rule) with byweekno := r.byweekno } := rfl
  rw [this, hr0, hbw]

theorem nw_cuts (na : NthWMArgs a) (h : construct a = .ok r) : CutsAgree a r := by
  obtain ⟨bh, bm, bs, hr⟩ := nw_rule na h
  rw [hr]; exact ⟨rfl, rfl, rfl⟩

theorem nw_weeknos (na : NthWMArgs a) : WnoOk (weeknosOf a) ∧ truthy (some (weeknosOf a)) = true := by
  obtain ⟨wl, hwl, hne, hok⟩ := na.weekno
  have hmem : ∀ o, o ∈ weeknosOf a ↔ o ∈ wl := by
    intro o; unfold weeknosOf; rw [hwl, Option.getD_some, mem_sortedSet]
  refine ⟨⟨?_, ?_⟩, ?_⟩
  · intro h; simp only [hmem] at h ⊢; exact hok.last h
  · intro h; simp only [hmem] at h ⊢; exact hok.first h
  · rw [truthy_eq_not_isEmpty]; unfold weeknosOf
    rw [hwl, Option.getD_some, isEmpty_sortedSet]
    cases wl with
    | nil => exact absurd rfl hne
    | cons _ _ => rfl

theorem nw_nthWRule (na : NthWMArgs a) (h : construct a = .ok r) : NthWRule r := by
  obtain ⟨bh, bm, bs, hr⟩ := nw_rule na h
  rw [hr]; exact ⟨(nw_weeknos na).2, rfl, rfl⟩

/-- **bridge**: inside the month `(y, m)`, calendar predicate ∧ nth mark ∧ week clause is `dateOk` -/
theorem nw_bridge (na : NthWMArgs a) (h : construct a = .ok r) (info : Info) (y m d : Int)
    (hy : 1 ≤ y) (hv : ValidYMD y m d) (hyo : info.yearordinal = toOrdinal y 1 1) :
    (simpleOk r (toOrdinal y m d) &&
      decide (∃ wn ∈ nwlOf (stripWno a), marks info (daysBeforeMonth y m) (daysBeforeMonth y m + daysInMonth y m - 1)
        (toOrdinal y m d - info.yearordinal) wn) &&
      weekClause r.wkst (weeknosOf a) (toOrdinal y m d)) = Spec.RRule.dateOk a (toOrdinal y m d) := by
  have h0 := construct_stripWno a r h (nw_noDay na) (nth_noDay (nw_strip na))
  have hb := nth_bridge (nw_strip na) h0 info y m d hy hv hyo
  have hs : simpleOk ({ r with byweekno := none } : Rule) (toOrdinal y m d) = simpleOk r (toOrdinal y m d) := rfl
  rw [hs] at hb
  obtain ⟨bh, bm, bs, hr⟩ := nw_rule na h
  have hbw : r.byweekno = a.byweekno.map sortedSet := by
    obtain ⟨wl, hwl, _, _⟩ := na.weekno
    rw [hr]; unfold weeknosOf; rw [hwl]; rfl
  have hwk : r.wkst = a.wkst.getD 0 := by rw [hr]; rfl
  have hw := wclause_eq_specW a r hbw hwk (toOrdinal y m d)
  unfold wclause at hw
  have htr : truthy r.byweekno = true := (nw_nthWRule na h).byweekno
  rw [if_pos htr] at hw
  have hg : r.byweekno.getD [] = weeknosOf a := by rw [hr]; rfl
  rw [hg] at hw
  rw [dateOk_stripWno a (nw_noDay na) (nth_noDay (nw_strip na)), hb, hw]

/-- "the model state at the start of period `k`" -/
structure NthWGood (a : Args) (r : Rule) (k : Nat) (st : State) : Prop where
  facts : YearFacts r st.cur.year st.info
  month : 1 ≤ st.cur.month ∧ st.cur.month ≤ 12
  timeset : st.timeset = Spec.RRule.timesOf a none none none
  idx : st.cur.year * 12 + (st.cur.month - 1) = a.dtstart.y * 12 + (a.dtstart.m - 1) + k * a.interval
  masks : ∃ nmask wmask, st.info.nwdaymask = some nmask ∧ (nmask.length : Int) = st.info.yearlen ∧
    (∀ j : Int, 0 ≤ j → j < st.info.yearlen →
      Py.getIdx nmask j = .ok (if ∃ wn ∈ nwlOf (stripWno a), marks st.info (daysBeforeMonth st.cur.year st.cur.month)
          (daysBeforeMonth st.cur.year st.cur.month + daysInMonth st.cur.year st.cur.month - 1) j wn then 1 else 0)) ∧
    st.info.wnomask = some wmask ∧ (wmask.length : Int) = st.info.yearlen + 7 ∧
    (∀ j : Int, 0 ≤ j → j < st.info.yearlen →
      Py.getIdx wmask j = .ok (if weekClause r.wkst (weeknosOf a) (st.info.yearordinal + j) = true then 1 else 0))

theorem nw_rebuild (na : NthWMArgs a) (h : construct a = .ok r) (y m : Int) (hy1 : 1 ≤ y) (hy2 : y ≤ 9999)
    (hm1 : 1 ≤ m) (hm12 : m ≤ 12) :
    ∃ info nmask wmask, rebuild r y m = .ok info ∧
      info.nwdaymask = some nmask ∧ (nmask.length : Int) = info.yearlen ∧
      (∀ j : Int, 0 ≤ j → j < info.yearlen →
        Py.getIdx nmask j = .ok (if ∃ wn ∈ nwlOf (stripWno a), marks info (daysBeforeMonth y m)
            (daysBeforeMonth y m + daysInMonth y m - 1) j wn then 1 else 0)) ∧
      info.wnomask = some wmask ∧ (wmask.length : Int) = info.yearlen + 7 ∧
      (∀ j : Int, 0 ≤ j → j < info.yearlen →
        Py.getIdx wmask j = .ok (if weekClause r.wkst (weeknosOf a) (info.yearordinal + j) = true then 1 else 0)) := by
  have hn := nw_nthWRule na h
  obtain ⟨bh, bm, bs, hr⟩ := nw_rule na h
  have hfreq : r.freq = 1 := by rw [hr]; exact na.freq
  have hnw : r.bynweekday = some (nwlOf (stripWno a)) := by rw [hr]
  have hwl : r.byweekno = some (weeknosOf a) := by rw [hr]
  have hwk : 0 ≤ r.wkst ∧ r.wkst ≤ 6 := by rw [hr]; exact na.wkst
  obtain ⟨hne, _, hok, _, _⟩ := nth_nwl (nw_strip na)
  exact rebuild_nth_w hn hfreq _ hne hnw hok _ hwl (nw_weeknos na).1 hwk y m hy1 hy2 hm1 hm12

theorem nw_results (na : NthWMArgs a) (h : construct a = .ok r) (k : Nat) (st : State) (hg : NthWGood a r k st) :
    ∃ fl pre cands, periodResults r st = .ok (cands, none, fl) ∧ Spec.RRule.sel a (k : Int) = pre ++ cands ∧
      (∀ x ∈ pre, x.micros < Spec.RRule.startMicros a ∧ Spec.RRule.afterUntil a x = false) ∧
      (∀ x ∈ cands, 0 ≤ x.ord ∧ x.ord ≤ maxOrdinal) := by
  have hn := nw_nthWRule na h
  obtain ⟨bh, bm, bs, hr⟩ := nw_rule na h
  have hfreq : r.freq = 1 := by rw [hr]; exact na.freq
  have hsp := construct_bysetpos a r h
  have htsok : TsOk st.timeset := by
    have := construct_timeset_ok a r h (by rw [na.freq]; omega)
    rw [hr] at this; rw [hg.timeset]; exact this
  have hyo := hg.facts.yearordinal
  have hyl := hg.facts.yearlen
  have hy1 := hg.facts.year_lo
  have hy2 := hg.facts.year_hi
  have hm := hg.month
  have hb := daysInMonth_bounds st.cur.year st.cur.month
  have hpos : 1 ≤ toOrdinal st.cur.year 1 1 :=
    toOrdinal_pos _ _ _ hy1 ⟨by omega, by omega, by omega, by have := daysInMonth_bounds st.cur.year 1; omega⟩
  have hend := year_end_le st.cur.year hy2
  have hd := dayset_monthly st.cur hfreq hg.facts hm.1 hm.2
  have hdbm0 := daysBeforeMonth_mono st.cur.year 1 st.cur.month (by omega) hm.1 (by omega)
  rw [daysBeforeMonth_1] at hdbm0
  have hdbm1 := daysBeforeMonth_mono st.cur.year (st.cur.month + 1) 13 (by omega) (by omega) (by omega)
  rw [daysBeforeMonth_13, daysBeforeMonth_succ _ _ hm.1 hm.2] at hdbm1
  obtain ⟨nmask, wmask, hmask, hmlen, hmspec, hwmask, hwlen, hwspec⟩ := hg.masks
  have hfil : ∀ i, daysBeforeMonth st.cur.year st.cur.month ≤ i →
      i < daysBeforeMonth st.cur.year st.cur.month + daysInMonth st.cur.year st.cur.month →
      dayFiltered r st.info i = .ok (!(Spec.RRule.dateOk a (st.info.yearordinal + i))) := by
    intro i hi0 hi1
    have hiy : i < st.info.yearlen := by rw [hyl]; omega
    rw [dayFiltered_nth_w hn hg.facts nmask wmask hmask hwmask i (by omega) hiy hmlen (by omega)]
    have hgi := hmspec i (by omega) hiy
    rw [getIdx_int nmask i (by omega) (by omega)] at hgi
    injection hgi with hgi
    have hwi := hwspec i (by omega) hiy
    rw [getIdx_int wmask i (by omega) (by omega)] at hwi
    injection hwi with hwi
    have hd' : ValidYMD st.cur.year st.cur.month (i - daysBeforeMonth st.cur.year st.cur.month + 1) :=
      ⟨hm.1, hm.2, by omega, by omega⟩
    have hord : st.info.yearordinal + i =
        toOrdinal st.cur.year st.cur.month (i - daysBeforeMonth st.cur.year st.cur.month + 1) := by
      rw [hyo]; unfold toOrdinal; rw [daysBeforeMonth_1]; omega
    have hbr := nw_bridge na h st.info st.cur.year st.cur.month _ hy1 hd' hyo
    rw [← hord] at hbr
    have e : st.info.yearordinal + i - st.info.yearordinal = i := by omega
    rw [e] at hbr
    rw [← hbr, hgi, hwi]
    congr 2
    by_cases c : ∃ wn ∈ nwlOf (stripWno a), marks st.info (daysBeforeMonth st.cur.year st.cur.month)
        (daysBeforeMonth st.cur.year st.cur.month + daysInMonth st.cur.year st.cur.month - 1) i wn
    · rw [if_pos c]
      cases hq : weekClause r.wkst (weeknosOf a) (st.info.yearordinal + i) <;> simp [c]
    · rw [if_neg c]
      cases hq : weekClause r.wkst (weeknosOf a) (st.info.yearordinal + i) <;> simp [c]
  obtain ⟨fl, hres⟩ := periodResults_range_P st (Spec.RRule.dateOk a) hfil (by rw [hsp.1]; exact hsp.2) htsok hd
    (by rw [hyo]; omega) (by rw [hyo]; omega)
  have hspan : Spec.RRule.periodSpan a (k * a.interval) =
      (st.info.yearordinal + daysBeforeMonth st.cur.year st.cur.month,
       st.info.yearordinal + (daysBeforeMonth st.cur.year st.cur.month + daysInMonth st.cur.year st.cur.month),
       none, none, none) := by
    unfold Spec.RRule.periodSpan
    rw [if_neg (by simp [na.freq]), if_pos (by simp [na.freq])]
    dsimp only
    have hidx := hg.idx
    have e1 : (a.dtstart.y * 12 + (a.dtstart.m - 1) + k * a.interval) / 12 = st.cur.year := by omega
    have e2 : (a.dtstart.y * 12 + (a.dtstart.m - 1) + k * a.interval) % 12 + 1 = st.cur.month := by omega
    rw [e1, e2, hyo, month_start]
    simp only [Prod.mk.injEq, and_true, true_and]
    omega
  refine ⟨fl, [], Spec.RRule.sel a (k : Int), ?_, rfl, by simp, ?_⟩
  · rw [hres, hg.timeset, sel_span_sp a k _ _ hspan, hsp.1]
  · intro x hx
    rw [sel_span_sp a k _ _ hspan] at hx
    have := sel_bounds _ _ _ _ x (applySetpos_subset _ _ x hx)
    rw [hyo] at this; omega

theorem nw_next (na : NthWMArgs a) (h : construct a = .ok r) (k : Nat) (st : State) (fl : Bool)
    (c : Option Int) (hg : NthWGood a r k st)
    (hm : (a.dtstart.y * 12 + (a.dtstart.m - 1) + (k + 1 : Nat) * a.interval) / 12 ≤ 9999) :
    ∃ st', advance r { st with count := c } fl = .ok st' ∧ NthWGood a r (k + 1) st' := by
  obtain ⟨bh, bm, bs, hr⟩ := nw_rule na h
  have hfreq : r.freq = 1 := by rw [hr]; exact na.freq
  have hint : r.interval = a.interval := by rw [hr]; rfl
  have hi := na.interval
  have hy1 := hg.facts.year_lo
  have hmth := hg.month
  have hidx := hg.idx
  have ek : ((k + 1 : Nat) : Int) * a.interval = k * a.interval + a.interval := by
    push_cast; rw [Int.add_mul]; omega
  have hex : ∃ st', advance r { st with count := c } fl = .ok st' ∧
      ∃ nmask wmask, st'.info.nwdaymask = some nmask ∧ (nmask.length : Int) = st'.info.yearlen ∧
        (∀ j : Int, 0 ≤ j → j < st'.info.yearlen →
          Py.getIdx nmask j = .ok (if ∃ wn ∈ nwlOf (stripWno a), marks st'.info (daysBeforeMonth st'.cur.year st'.cur.month)
            (daysBeforeMonth st'.cur.year st'.cur.month + daysInMonth st'.cur.year st'.cur.month - 1) j wn then 1 else 0)) ∧
        st'.info.wnomask = some wmask ∧ (wmask.length : Int) = st'.info.yearlen + 7 ∧
        (∀ j : Int, 0 ≤ j → j < st'.info.yearlen →
          Py.getIdx wmask j = .ok (if weekClause r.wkst (weeknosOf a) (st'.info.yearordinal + j) = true then 1 else 0)) := by
    unfold advance
    dsimp only
    rw [if_neg (by simp [hfreq]), if_pos (by simp [hfreq])]
    split
    · rename_i hgt
      simp only [Py.divmod, Py.fdiv_pos _ (by omega : (0:Int) < 12), Py.fmod_pos _ (by omega : (0:Int) < 12)]
      by_cases c0 : (st.cur.month + r.interval) % 12 = 0
      · have c' : ((st.cur.month + r.interval) % 12 == 0) = true := by simp [c0]
        simp only [c', ↓reduceIte]
        have hle : st.cur.year + (st.cur.month + r.interval) / 12 - 1 ≤ 9999 := by rw [hint]; omega
        rw [if_neg (by omega)]
        obtain ⟨info, nmask, wmask, hre, rest⟩ := nw_rebuild na h
          (st.cur.year + (st.cur.month + r.interval) / 12 - 1) 12 (by rw [hint]; omega) hle (by omega) (by omega)
        rw [hre]; exact ⟨_, rfl, nmask, wmask, rest⟩
      · have c' : ((st.cur.month + r.interval) % 12 == 0) = false := by simp [c0]
        simp only [c', Bool.false_eq_true, ↓reduceIte]
        have hle : st.cur.year + (st.cur.month + r.interval) / 12 ≤ 9999 := by rw [hint]; omega
        rw [if_neg (by omega)]
        obtain ⟨info, nmask, wmask, hre, rest⟩ := nw_rebuild na h
          (st.cur.year + (st.cur.month + r.interval) / 12) ((st.cur.month + r.interval) % 12)
          (by rw [hint]; omega) hle (by omega) (by omega)
        rw [hre]; exact ⟨_, rfl, nmask, wmask, rest⟩
    · rename_i hle12
      obtain ⟨info, nmask, wmask, hre, rest⟩ := nw_rebuild na h
        st.cur.year (st.cur.month + r.interval) hy1 hg.facts.year_hi (by rw [hint]; omega) (by omega)
      rw [hre]; exact ⟨_, rfl, nmask, wmask, rest⟩
  obtain ⟨st', hadv, hmk⟩ := hex
  have sp := advance_monthly r { st with count := c } st' fl hfreq (by omega) hmth.1 hmth.2 hadv
  obtain ⟨e, m1, m12, _, f', ts⟩ := sp
  have e : st'.cur.year * 12 + (st'.cur.month - 1) = st.cur.year * 12 + (st.cur.month - 1) + r.interval := e
  exact ⟨st', hadv, ⟨f', ⟨m1, m12⟩, by rw [ts]; exact hg.timeset, by rw [e, hidx, hint]; omega, hmk⟩⟩

theorem nw_init (na : NthWMArgs a) (h : construct a = .ok r) :
    ∃ st0, init r = .ok st0 ∧ NthWGood a r 0 st0 ∧ st0.count = r.count := by
  obtain ⟨bh, bm, bs, hr⟩ := nw_rule na h
  have hfreq : r.freq = 1 := by rw [hr]; exact na.freq
  have hv := na.valid
  unfold DT.Valid ValidDate at hv
  obtain ⟨info, nmask, wmask, hre, rest⟩ := nw_rebuild na h a.dtstart.y a.dtstart.m
    hv.1.1 hv.1.2.1 hv.1.2.2.1 hv.1.2.2.2.1
  have hd : r.dtstart = { a.dtstart with us := 0 } := by rw [hr]; rfl
  have hf : r.freq < 4 := by omega
  have hts : r.timeset = some (Spec.RRule.timesOf a none none none) := by rw [hr]; rfl
  refine ⟨{ cur := { year := a.dtstart.y, month := a.dtstart.m, day := a.dtstart.d, hour := a.dtstart.hh,
                     minute := a.dtstart.mm, second := a.dtstart.ss, weekday := r.dtstart.weekday },
            info := info, timeset := Spec.RRule.timesOf a none none none, count := r.count }, ?_, ?_, rfl⟩
  · unfold init
    simp only [hd, bind, Except.bind, hre, hts, pure, Except.pure]
    rw [if_pos hf]
    rfl
  · exact ⟨rebuild_facts r _ _ info hre, ⟨hv.1.2.2.1, hv.1.2.2.2.1⟩, rfl, by dsimp only; omega, nmask, wmask, rest⟩

/-- **`iter_eq_spec`, MONTHLY with nth weekdays and BYWEEKNO** (nth members only; BYWEEKNO on the complement of
    D-C01c; a week start 0..6): the values yielded during the first `n` periods are exactly the specification's
    recurrence set -/
theorem iter_eq_spec_monthly_nth_weekno (na : NthWMArgs a) (h : construct a = .ok r) (n : Nat)
    (hm : (a.dtstart.y * 12 + (a.dtstart.m - 1) + n * a.interval) / 12 ≤ 9999) :
    (iter r n).1 = Spec.RRule.occ a n := by
  have hi := na.interval
  have hmono : ∀ k : Nat, k ≤ n → (k : Int) * a.interval ≤ n * a.interval := by
    intro k hk; exact Int.mul_le_mul_of_nonneg_right (by omega) (by omega)
  have sim : Simulation a r n (NthWGood a r) := {
    agree := nw_cuts na h
    results := fun k st _ hg => nw_results na h k st hg
    next := fun k st fl c hk hg => nw_next na h k st fl c hg (by
      have := hmono (k + 1) (by omega)
      have : (a.dtstart.y * 12 + (a.dtstart.m - 1) + ((k + 1 : Nat) : Int) * a.interval) / 12 ≤
          (a.dtstart.y * 12 + (a.dtstart.m - 1) + n * a.interval) / 12 :=
        Int.ediv_le_ediv (by omega) (by omega)
      omega) }
  obtain ⟨st0, hinit, hg0, hc0⟩ := nw_init na h
  exact iter_refines sim st0 hinit hg0 hc0 n (by omega)

-- an NthWMArgs instance: the last Friday of the month when it falls in weeks 4, 13 or the last week
example : NthWMArgs { freq := 1, dtstart := ⟨2024, 1, 1, 18, 0, 0, 0⟩, byweekday := some [(4, -1)],
                      byweekno := some [4, 13, -1] } :=
  ⟨rfl, by decide, by decide, by decide, rfl, by intro x hx; simp at hx,
   ⟨[(4, -1)], rfl, by decide, by decide⟩, ⟨[4, 13, -1], rfl, by decide, ⟨by decide, by decide⟩⟩⟩

end RRule
