/-
  Proofs/RenderCompact.lean — `YYYYMMDD[T]HHMM[SS]`, `YYYYMMDDHHMMSS`, `YYYYMMDD` (family 3 of C02).
-/
import DateutilVerif.Proofs.LexRender

namespace PM
open Py PT

def date8 (y m d : Nat) : List Nat := [y / 1000, y / 100, y / 10, y, m / 10, m, d / 10, d]

def compactTokens (f : CompactFmt) (y m d h mi s : Nat) : List Token :=
  match f with
  | .tHMS => [dtok (date8 y m d), ['T'], dtok [h / 10, h, mi / 10, mi, s / 10, s]]
  | .nosepHMS => [dtok (date8 y m d ++ [h / 10, h, mi / 10, mi, s / 10, s])]
  | .tHM => [dtok (date8 y m d), ['T'], dtok [h / 10, h, mi / 10, mi]]
  | .date => [dtok (date8 y m d)]

set_option maxHeartbeats 4000000 in
theorem tok_compact (cls : Char → CClass) [AsciiOK cls] (yf : Bool) (year century : Int) (o : Opts) (tznames : List Token)
    (tzi : TzInfos) (ho : PlainOpts o tzi) (dflt : DT) (f : CompactFmt) (y m d h mi s us : Nat)
    (hv : (DT.mk y m d h mi s us).Valid)
    (hexp : match f with
      | .tHMS => us = 0
      | .nosepHMS => dflt.us = us
      | .tHM => dflt.ss = s ∧ dflt.us = us
      | .date => dflt.hh = h ∧ dflt.mm = mi ∧ dflt.ss = s ∧ dflt.us = us) :
    parseResult cls (Info.default false yf year century) o tznames tzi dflt (compactTokens f y m d h mi s) =
      .ok { dt := DT.mk y m d h mi s us, tz := .naive, tokens := none } := by
  obtain ⟨⟨hy1, hy2, hm1, hm2, hd1, hd2⟩, hh1, hh2, hmi1, hmi2, hs1, hs2, hu1, hu2⟩ := hv
  dsimp only at *
  have hdim := (Cal.daysInMonth_bounds (y : Int) (m : Int)).2
  have by' : y < 10000 := by omega
  have bm : m < 100 := by omega
  have bd : d < 100 := by omega
  have bh : h < 100 := by omega
  have bmi : mi < 100 := by omega
  have bs : s < 100 := by omega
  obtain ⟨hfz, hfwt, hdf, htz1, htz2⟩ := ho
  have hvalid : (DT.mk (y : Int) m d h mi s us).valid = true := by
    unfold DT.valid
    exact decide_eq_true ⟨⟨hy1, hy2, hm1, hm2, hd1, hd2⟩, hh1, hh2, hmi1, hmi2, hs1, hs2, hu1, hu2⟩
  have n1 : ¬ (2147483647 : Int) < y := by omega
  have n2 : ¬ (2147483647 : Int) < m := by omega
  have n3 : ¬ (2147483647 : Int) < d := by omega
  have n4 : ¬ (2147483647 : Int) < h := by omega
  have n5 : ¬ (2147483647 : Int) < mi := by omega
  have n6 : ¬ (2147483647 : Int) < s := by omega
  have n7 : ¬ (2147483647 : Int) < us := by omega
  cases f
  · subst hexp
    have hvalid' : (DT.mk (y : Int) m d h mi s 0).valid = true := by simpa using hvalid
    psimpa [compactTokens, date8]
  · psimpa [compactTokens, date8]
  · obtain ⟨e1, e2⟩ := hexp
    psimpa [compactTokens, date8]
  · obtain ⟨e1, e2, e3, e4⟩ := hexp
    psimpa [compactTokens, date8]

section
variable (cls : Char → CClass) [AsciiOK cls]

theorem lex_compact (f : CompactFmt) (y m d h mi s : Nat) :
    lex cls (match f with
      | .tHMS => pad4 y ++ pad2 m ++ pad2 d ++ ['T'] ++ (pad2 h ++ pad2 mi ++ pad2 s)
      | .nosepHMS => pad4 y ++ pad2 m ++ pad2 d ++ (pad2 h ++ pad2 mi ++ pad2 s)
      | .tHM => pad4 y ++ pad2 m ++ pad2 d ++ ['T'] ++ (pad2 h ++ pad2 mi)
      | .date => pad4 y ++ pad2 m ++ pad2 d) = compactTokens f y m d h mi s := by
  have hT : ∀ (k : Nat) (ks : List Nat), scan cls .init ('T' :: (dtok (k :: ks) ++ [])) = ['T'] :: scan cls .init (dtok (k :: ks) ++ []) := by
    intro k ks
    have := lex_aword cls 'T' [] (dtok (k :: ks) ++ []) (by decide) (wordEnds_dtok cls k ks [])
    simpa using this
  unfold lex
  cases f <;> simp only [pad4_dtok, pad2_dtok, dtok_append, List.append_assoc, List.singleton_append, compactTokens, date8,
    List.cons_append, List.nil_append]
  · rw [lex_dtok cls _ _ _ (numEnds_ascii cls _ _ (by decide))]
    have e : dtok [h / 10, h, mi / 10, mi, s / 10, s] = dtok [h / 10, h, mi / 10, mi, s / 10, s] ++ [] := by simp
    rw [e, hT, lex_dtok cls _ _ [] (numEnds_nil cls)]
    simp [scan_init_nil]
  · have e : dtok [y / 1000, y / 100, y / 10, y, m / 10, m, d / 10, d, h / 10, h, mi / 10, mi, s / 10, s] =
        dtok [y / 1000, y / 100, y / 10, y, m / 10, m, d / 10, d, h / 10, h, mi / 10, mi, s / 10, s] ++ [] := by simp
    rw [e, lex_dtok cls _ _ [] (numEnds_nil cls)]
    simp [scan_init_nil]
  · rw [lex_dtok cls _ _ _ (numEnds_ascii cls _ _ (by decide))]
    have e : dtok [h / 10, h, mi / 10, mi] = dtok [h / 10, h, mi / 10, mi] ++ [] := by simp
    rw [e, hT, lex_dtok cls _ _ [] (numEnds_nil cls)]
    simp [scan_init_nil]
  · have e : dtok [y / 1000, y / 100, y / 10, y, m / 10, m, d / 10, d] =
        dtok [y / 1000, y / 100, y / 10, y, m / 10, m, d / 10, d] ++ [] := by simp
    rw [e, lex_dtok cls _ _ [] (numEnds_nil cls)]
    simp [scan_init_nil]

theorem parse_compact (yf : Bool) (year century : Int) (o : Opts) (tznames : List Token) (tzi : TzInfos)
    (ho : PlainOpts o tzi) (dflt : DT) (hdv : dflt.Valid) (t : DT) (ht : t.Valid) (f : CompactFmt) :
    parse cls (Info.default false yf year century) o tznames tzi dflt (renderCompact f t) =
      .ok { dt := f.expect t dflt, tz := .naive, tokens := none } := by
  obtain ⟨⟨hy1, hy2, hm1, hm2, hd1, hd2⟩, hh1, hh2, hmi1, hmi2, hs1, hs2, hu1, hu2⟩ := ht
  obtain ⟨_, dh1, dh2, dm1, dm2, hds1, hds2, hdu1, hdu2⟩ := hdv
  have hdim := (Cal.daysInMonth_bounds t.y t.m).2
  have ey : ((t.y.toNat : Nat) : Int) = t.y := Int.toNat_of_nonneg (by omega)
  have em : ((t.m.toNat : Nat) : Int) = t.m := Int.toNat_of_nonneg (by omega)
  have ed : ((t.d.toNat : Nat) : Int) = t.d := Int.toNat_of_nonneg (by omega)
  have eh : ((t.hh.toNat : Nat) : Int) = t.hh := Int.toNat_of_nonneg (by omega)
  have emi : ((t.mm.toNat : Nat) : Int) = t.mm := Int.toNat_of_nonneg (by omega)
  have es : ((t.ss.toNat : Nat) : Int) = t.ss := Int.toNat_of_nonneg (by omega)
  have edh : ((dflt.hh.toNat : Nat) : Int) = dflt.hh := Int.toNat_of_nonneg (by omega)
  have edm : ((dflt.mm.toNat : Nat) : Int) = dflt.mm := Int.toNat_of_nonneg (by omega)
  have eds : ((dflt.ss.toNat : Nat) : Int) = dflt.ss := Int.toNat_of_nonneg (by omega)
  have edu : ((dflt.us.toNat : Nat) : Int) = dflt.us := Int.toNat_of_nonneg (by omega)
  unfold parse
  have hl := lex_compact cls f t.y.toNat t.m.toNat t.d.toNat
  cases f
  · have := hl t.hh.toNat t.mm.toNat t.ss.toNat
    simp only [renderCompact, compactDate] at this ⊢
    rw [this]
    have hv : (DT.mk (t.y.toNat : Nat) (t.m.toNat : Nat) (t.d.toNat : Nat) (t.hh.toNat : Nat) (t.mm.toNat : Nat)
        (t.ss.toNat : Nat) ((0 : Nat) : Int)).Valid := by
      rw [ey, em, ed, eh, emi, es]
      exact ⟨⟨hy1, hy2, hm1, hm2, hd1, hd2⟩, hh1, hh2, hmi1, hmi2, hs1, hs2, by simp, by simp⟩
    have := tok_compact cls yf year century o tznames tzi ho dflt .tHMS _ _ _ _ _ _ 0 hv rfl
    rw [ey, em, ed, eh, emi, es] at this
    simpa [CompactFmt.expect] using this
  · have := hl t.hh.toNat t.mm.toNat t.ss.toNat
    simp only [renderCompact, compactDate] at this ⊢
    rw [this]
    have hv : (DT.mk (t.y.toNat : Nat) (t.m.toNat : Nat) (t.d.toNat : Nat) (t.hh.toNat : Nat) (t.mm.toNat : Nat)
        (t.ss.toNat : Nat) (dflt.us.toNat : Nat)).Valid := by
      rw [ey, em, ed, eh, emi, es, edu]
      exact ⟨⟨hy1, hy2, hm1, hm2, hd1, hd2⟩, hh1, hh2, hmi1, hmi2, hs1, hs2, hdu1, hdu2⟩
    have := tok_compact cls yf year century o tznames tzi ho dflt .nosepHMS _ _ _ _ _ _ _ hv edu.symm
    rw [ey, em, ed, eh, emi, es, edu] at this
    simpa [CompactFmt.expect] using this
  · have := hl t.hh.toNat t.mm.toNat 0
    simp only [renderCompact, compactDate] at this ⊢
    rw [this]
    have hv : (DT.mk (t.y.toNat : Nat) (t.m.toNat : Nat) (t.d.toNat : Nat) (t.hh.toNat : Nat) (t.mm.toNat : Nat)
        (dflt.ss.toNat : Nat) (dflt.us.toNat : Nat)).Valid := by
      rw [ey, em, ed, eh, emi, eds, edu]
      exact ⟨⟨hy1, hy2, hm1, hm2, hd1, hd2⟩, hh1, hh2, hmi1, hmi2, hds1, hds2, hdu1, hdu2⟩
    have := tok_compact cls yf year century o tznames tzi ho dflt .tHM _ _ _ _ _ _ _ hv ⟨eds.symm, edu.symm⟩
    rw [ey, em, ed, eh, emi, eds, edu] at this
    simpa [CompactFmt.expect, compactTokens] using this
  · have := hl 0 0 0
    simp only [renderCompact, compactDate] at this ⊢
    rw [this]
    have hv : (DT.mk (t.y.toNat : Nat) (t.m.toNat : Nat) (t.d.toNat : Nat) (dflt.hh.toNat : Nat) (dflt.mm.toNat : Nat)
        (dflt.ss.toNat : Nat) (dflt.us.toNat : Nat)).Valid := by
      rw [ey, em, ed, edh, edm, eds, edu]
      exact ⟨⟨hy1, hy2, hm1, hm2, hd1, hd2⟩, dh1, dh2, dm1, dm2, hds1, hds2, hdu1, hdu2⟩
    have := tok_compact cls yf year century o tznames tzi ho dflt .date _ _ _ _ _ _ _ hv ⟨edh.symm, edm.symm, eds.symm, edu.symm⟩
    rw [ey, em, ed, edh, edm, eds, edu] at this
    simpa [CompactFmt.expect, compactTokens] using this

end
end PM
