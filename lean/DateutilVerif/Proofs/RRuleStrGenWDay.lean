/-
  Proofs/RRuleStrGenWDay.lean — the source translation of the item splitter of `_rrulestr._handle_BYWEEKDAY` (`Gen.rrsWDay`:
  `WD(n)`, `nWD` with the `for i in range(len(wday))` / `break` scan, `WD`) equals the model's `parseWDay`.
-/
import DateutilVerif.Generated.RRuleStrKernels
import DateutilVerif.Proofs.RRuleStrText

namespace RRuleStr
open ICal (splitOnChar isDigit)

theorem splitOnChar_go_len (sep : Char) : ∀ (s cur : List Char) (acc : List (List Char)),
    acc.length + 1 ≤ (splitOnChar.go sep s cur acc).length ∧ (sep ∈ s → acc.length + 2 ≤ (splitOnChar.go sep s cur acc).length) := by
  intro s
  induction s with
  | nil => intro cur acc; simp [splitOnChar.go]
  | cons c cs ih =>
    intro cur acc
    unfold splitOnChar.go
    by_cases h : (c == sep) = true
    · simp only [h, if_true]
      have := ih [] (cur.reverse :: acc)
      simp only [List.length_cons] at this
      exact ⟨by omega, fun _ => by omega⟩
    · simp only [h, if_false, Bool.false_eq_true]
      have := ih (c :: cur) acc
      refine ⟨this.1, fun hm => this.2 ?_⟩
      rcases List.mem_cons.mp hm with rfl | hm
      · simp at h
      · exact hm

theorem splitOnChar_two_parts (sep : Char) (s : List Char) (h : sep ∈ s) :
    ∃ a b rest, splitOnChar sep s = a :: b :: rest := by
  have := (splitOnChar_go_len sep s [] []).2 h
  unfold splitOnChar
  generalize splitOnChar.go sep s [] [] = l at this
  match l, this with
  | a :: b :: rest, _ => exact ⟨a, b, rest, rfl⟩

/-- the scan `for i in range(len(s)): if s[i] not in chars: break` -/
theorem forBreakIdx_eq (p : Char → Bool) : ∀ (s : List Char) (k : Nat),
    StrPy.forBreakIdx p s k =
      if (s.takeWhile p).length == s.length then k + s.length - 1 else k + (s.takeWhile p).length := by
  intro s
  induction s with
  | nil => intro k; simp [StrPy.forBreakIdx]
  | cons c cs ih =>
    intro k
    unfold StrPy.forBreakIdx
    by_cases hc : p c = true
    · simp only [hc, if_true, List.takeWhile_cons, List.length_cons, ih]
      by_cases he : ((cs.takeWhile p).length == cs.length) = true
      · have he' : (cs.takeWhile p).length = cs.length := by simpa using he
        simp [he'] <;> omega
      · have he' : (cs.takeWhile p).length ≠ cs.length := by simpa using he
        simp [he'] <;> omega
    · have hc' : p c = false := by simpa using hc
      simp [hc', List.takeWhile_cons]

theorem signDigit_chars (c : Char) : ['+', '-', '0', '1', '2', '3', '4', '5', '6', '7', '8', '9'].contains c = isSignDigit c := by
  have hd : isDigit c = true ↔ (48 ≤ c.toNat ∧ c.toNat ≤ 57) := by simp [isDigit, char_le_iff]
  by_cases h : isSignDigit c = true
  · rw [h]
    simp only [isSignDigit, Bool.or_eq_true, beq_iff_eq] at h
    rw [contains_iff]
    rcases h with (rfl | rfl) | h
    · simp
    · simp
    · rw [hd] at h
      have : c.toNat = 48 ∨ c.toNat = 49 ∨ c.toNat = 50 ∨ c.toNat = 51 ∨ c.toNat = 52 ∨ c.toNat = 53 ∨ c.toNat = 54 ∨ c.toNat = 55 ∨
          c.toNat = 56 ∨ c.toNat = 57 := by omega
      simp only [List.mem_cons, char_eq_iff, List.mem_nil_iff, or_false]
      have e0 : ('0' : Char).toNat = 48 := by decide
      have e1 : ('1' : Char).toNat = 49 := by decide
      have e2 : ('2' : Char).toNat = 50 := by decide
      have e3 : ('3' : Char).toNat = 51 := by decide
      have e4 : ('4' : Char).toNat = 52 := by decide
      have e5 : ('5' : Char).toNat = 53 := by decide
      have e6 : ('6' : Char).toNat = 54 := by decide
      have e7 : ('7' : Char).toNat = 55 := by decide
      have e8 : ('8' : Char).toNat = 56 := by decide
      have e9 : ('9' : Char).toNat = 57 := by decide
      have ep : ('+' : Char).toNat = 43 := by decide
      have em : ('-' : Char).toNat = 45 := by decide
      rw [e0, e1, e2, e3, e4, e5, e6, e7, e8, e9, ep, em]; omega
  · have h' : isSignDigit c = false := by simpa using h
    rw [h', Bool.eq_false_iff, Ne, contains_iff]
    intro hm
    apply h
    simp only [List.mem_cons, List.mem_nil_iff, or_false] at hm
    rcases hm with rfl | rfl | rfl | rfl | rfl | rfl | rfl | rfl | rfl | rfl | rfl | rfl <;> decide

end RRuleStr
