/- Proofs/IsoRenderTime.lean — `_parse_tzstr` and `_parse_isotime` on renderings. -/
import DateutilVerif.Proofs.IsoDigits
set_option linter.unusedSimpArgs false
namespace Iso
open IsoSpec

macro "tz_close" : tactic =>
  `(tactic| ((repeat' split) <;> first | rfl | (exfalso; omega) | (congr 2; omega)))

theorem parseTzstr_render (o : OffForm) (x : Fields) (v : Off) (hw : offWF o x = true)
    (hv : offDenote o x = some v) : parseTzstr (renderOff o x) true = .ok v := by
  cases o with
  | naive => simp [offDenote] at hv
  | Z => simp [offDenote] at hv; subst hv; simp [parseTzstr, renderOff, cZ]
  | z => simp [offDenote] at hv; subst hv; simp [parseTzstr, renderOff, cZ, cz]
  | hh =>
    simp [offWF] at hw
    have h2 := parseDigits_2 x.oh (by omega)
    cases hn : x.neg <;> by_cases h0 : x.oh = 0 <;>
      simp [offDenote, hn, h0] at hv <;> subst hv <;>
      simp [parseTzstr, renderOff, pad2, signByte, hn, h2, cZ, cz, cDash, cPlus, bind, Except.bind] <;> tz_close
  | hhmm =>
    simp [offWF] at hw
    have h2 := parseDigits_2 x.oh (by omega)
    have h3 := parseDigits_2 x.om (by omega)
    cases hn : x.neg <;> by_cases h0 : x.oh = 0 ∧ x.om = 0 <;>
      simp [offDenote, hn, h0] at hv <;> subst hv <;>
      simp [parseTzstr, renderOff, pad2, signByte, hn, h2, h3, cZ, cz, cDash, cPlus, cColon, bind, Except.bind] <;>
      tz_close
  | hhcmm =>
    simp [offWF] at hw
    have h2 := parseDigits_2 x.oh (by omega)
    have h3 := parseDigits_2 x.om (by omega)
    cases hn : x.neg <;> by_cases h0 : x.oh = 0 ∧ x.om = 0 <;>
      simp [offDenote, hn, h0] at hv <;> subst hv <;>
      simp [parseTzstr, renderOff, pad2, signByte, hn, h2, h3, cZ, cz, cDash, cPlus, cColon, bind, Except.bind] <;>
      tz_close

/-- the offset part after a time: nothing (naive) or a zone designator that `_parse_tzstr` reads -/
def OffTail (t : Bytes) (tz : Option Off) : Prop :=
  (t = [] ∧ tz = none) ∨
  (∃ b r v, t = b :: r ∧ (b = 45 ∨ b = 43 ∨ b = 90 ∨ b = 122) ∧ parseTzstr t true = .ok v ∧ tz = some v)

theorem timeLoop_tail (k : Nat) (ks : List Nat) (t : Bytes) (hs : Bool) (c : TComps) (tz : Option Off)
    (hk : k ≠ 0) (hc : c.tz = none) (ht : OffTail t tz) :
    timeLoop (k :: ks) t hs c = .ok ({ c with tz := tz }, []) := by
  rcases ht with ⟨rfl, rfl⟩ | ⟨b, r, v, rfl, hb, hp, rfl⟩
  · cases c; simp at hc; subst hc; simp [timeLoop]
  · have : isTzStart (b :: r) = true := by
      rcases hb with rfl | rfl | rfl | rfl <;> simp [isTzStart, cDash, cPlus, cZ, cz]
    simp [timeLoop, this, hk, hp]

theorem timeLoop_d0 (ks : List Nat) (n : Nat) (rest : Bytes) (hs : Bool) (c : TComps) (hn : n < 100) :
    timeLoop (0 :: ks) (dch (n / 10) :: dch n :: rest) hs c = timeLoop ks rest hs { c with h := n } := by
  simp [timeLoop, isTzStart, sepStep, parseDigits_2 _ hn, setComp, cDash, cPlus, cZ, cz]

theorem timeLoop_d1 (ks : List Nat) (n : Nat) (rest : Bytes) (hs : Bool) (c : TComps) (hn : n < 100) :
    timeLoop (1 :: ks) (dch (n / 10) :: dch n :: rest) hs c = timeLoop ks rest hs { c with m := n } := by
  simp [timeLoop, isTzStart, sepStep, parseDigits_2 _ hn, setComp, cDash, cPlus, cZ, cz, cColon]

theorem timeLoop_c1 (ks : List Nat) (n : Nat) (rest : Bytes) (hs : Bool) (c : TComps) (hn : n < 100) :
    timeLoop (1 :: ks) (58 :: dch (n / 10) :: dch n :: rest) hs c = timeLoop ks rest true { c with m := n } := by
  simp [timeLoop, isTzStart, sepStep, parseDigits_2 _ hn, setComp, cDash, cPlus, cZ, cz, cColon]

theorem timeLoop_d2 (ks : List Nat) (n : Nat) (rest : Bytes) (c : TComps) (hn : n < 100) :
    timeLoop (2 :: ks) (dch (n / 10) :: dch n :: rest) false c = timeLoop ks rest false { c with s := n } := by
  simp [timeLoop, isTzStart, sepStep, parseDigits_2 _ hn, setComp, cDash, cPlus, cZ, cz, cColon]

theorem timeLoop_c2 (ks : List Nat) (n : Nat) (rest : Bytes) (c : TComps) (hn : n < 100) :
    timeLoop (2 :: ks) (58 :: dch (n / 10) :: dch n :: rest) true c = timeLoop ks rest true { c with s := n } := by
  simp [timeLoop, isTzStart, sepStep, parseDigits_2 _ hn, setComp, cDash, cPlus, cZ, cz, cColon]

theorem takeWhile_digits (ds : List Nat) (t : Bytes) (ht : t = [] ∨ ∃ b r, t = b :: r ∧ isDigit b = false) :
    (ds.map dch ++ t).takeWhile isDigit = ds.map dch := by
  induction ds with
  | nil =>
    rcases ht with rfl | ⟨b, r, rfl, hb⟩
    · simp
    · simp [hb]
  | cons d ds ih => simp [ih]

theorem digitsVal_map_dch (ds : List Nat) (hd : ∀ d ∈ ds, d ≤ 9) (acc : Nat) :
    (ds.map dch).foldl (fun acc b => acc * 10 + (b - 48)) acc = ds.foldl (fun acc d => acc * 10 + d) acc := by
  induction ds generalizing acc with
  | nil => rfl
  | cons d ds ih =>
    have : d ≤ 9 := hd d (by simp)
    simp only [List.map_cons, List.foldl_cons, dch_sub]
    rw [Nat.mod_eq_of_lt (by omega)]
    exact ih (fun e he => hd e (by simp [he])) _

theorem fracMicros_eq (ds : List Nat) (hd : ∀ d ∈ ds, d ≤ 9) :
    digitsVal ((ds.map dch).take 6) * 10 ^ (6 - ((ds.map dch).take 6).length) = fracMicros ds := by
  unfold fracMicros digitsVal
  rw [← List.map_take, List.length_map, digitsVal_map_dch _ (fun d h => hd d (List.mem_of_mem_take h))]

theorem timeLoop_f3 (ks : List Nat) (mark : Nat) (ds : List Nat) (t : Bytes) (hs : Bool) (c : TComps)
    (hm : mark = 46 ∨ mark = 44) (hne : ds ≠ []) (hd : ∀ d ∈ ds, d ≤ 9)
    (ht : t = [] ∨ ∃ b r, t = b :: r ∧ isDigit b = false) :
    timeLoop (3 :: ks) (mark :: (ds.map dch ++ t)) hs c = timeLoop ks t hs { c with us := fracMicros ds } := by
  have hts : isTzStart (mark :: (ds.map dch ++ t)) = false := by
    rcases hm with rfl | rfl <;> simp [isTzStart, cDash, cPlus, cZ, cz]
  have hmf : matchFraction (mark :: (ds.map dch ++ t)) = some (ds.map dch, t) := by
    have hm' : mark = cDot ∨ mark = cComma := by simpa [cDot, cComma] using hm
    simp [matchFraction, hm', takeWhile_digits ds t ht, hne]
  rw [← fracMicros_eq ds hd]
  simp only [timeLoop]
  simp [hts, sepStep, hmf, setComp]


macro "time_close" : tactic => `(tactic| ((repeat' split) <;> first | rfl | (exfalso; omega)))

theorem OffTail.nondigit {t : Bytes} {tz : Option Off} (ht : OffTail t tz) :
    t = [] ∨ ∃ b r, t = b :: r ∧ isDigit b = false := by
  rcases ht with ⟨rfl, _⟩ | ⟨b, r, v, rfl, hb, _, _⟩
  · exact Or.inl rfl
  · refine Or.inr ⟨b, r, rfl, ?_⟩
    rcases hb with rfl | rfl | rfl | rfl <;> decide

theorem parseIsotime_render (tf : TimeForm) (x : Fields) (t : Bytes) (tz : Option Off)
    (htf : tf ≠ .none) (hw : timeWF tf x = true) (ht : OffTail t tz) :
    parseIsotime (renderTime tf x ++ t) =
      .ok { h := (timeShown tf x).1, m := (timeShown tf x).2.1, s := (timeShown tf x).2.2.1,
            us := (timeShown tf x).2.2.2, tz := tz } := by
  have hnd := ht.nondigit
  cases tf with
  | none => exact absurd rfl htf
  | h =>
    simp [timeWF, timeShown, TimeForm.hasM, TimeForm.hasS, TimeForm.hasFrac] at hw
    simp only [parseIsotime, renderTime, pad2, List.cons_append, List.nil_append, List.length_cons]
    rw [timeLoop_d0 _ _ _ _ _ (by omega), timeLoop_tail _ _ _ _ _ tz (by decide) rfl ht]
    simp [timeShown, TimeForm.hasM, TimeForm.hasS, TimeForm.hasFrac]
  | hmExt =>
    simp [timeWF, timeShown, TimeForm.hasM, TimeForm.hasS, TimeForm.hasFrac] at hw
    simp only [parseIsotime, renderTime, pad2, List.cons_append, List.nil_append, List.length_cons]
    rw [timeLoop_d0 _ _ _ _ _ (by omega), timeLoop_c1 _ _ _ _ _ (by omega),
      timeLoop_tail _ _ _ _ _ tz (by decide) rfl ht]
    simp [timeShown, TimeForm.hasM, TimeForm.hasS, TimeForm.hasFrac]
    time_close
  | hmBas =>
    simp [timeWF, timeShown, TimeForm.hasM, TimeForm.hasS, TimeForm.hasFrac] at hw
    simp only [parseIsotime, renderTime, pad2, List.cons_append, List.nil_append, List.length_cons]
    rw [timeLoop_d0 _ _ _ _ _ (by omega), timeLoop_d1 _ _ _ _ _ (by omega),
      timeLoop_tail _ _ _ _ _ tz (by decide) rfl ht]
    simp [timeShown, TimeForm.hasM, TimeForm.hasS, TimeForm.hasFrac]
    time_close
  | hmsExt =>
    simp [timeWF, timeShown, TimeForm.hasM, TimeForm.hasS, TimeForm.hasFrac] at hw
    simp only [parseIsotime, renderTime, pad2, List.cons_append, List.nil_append, List.length_cons, List.append_assoc]
    rw [timeLoop_d0 _ _ _ _ _ (by omega), timeLoop_c1 _ _ _ _ _ (by omega), timeLoop_c2 _ _ _ _ (by omega),
      timeLoop_tail _ _ _ _ _ tz (by decide) rfl ht]
    simp [timeShown, TimeForm.hasM, TimeForm.hasS, TimeForm.hasFrac]
    time_close
  | hmsBas =>
    simp [timeWF, timeShown, TimeForm.hasM, TimeForm.hasS, TimeForm.hasFrac] at hw
    simp only [parseIsotime, renderTime, pad2, List.cons_append, List.nil_append, List.length_cons, List.append_assoc]
    rw [timeLoop_d0 _ _ _ _ _ (by omega), timeLoop_d1 _ _ _ _ _ (by omega), timeLoop_d2 _ _ _ _ (by omega),
      timeLoop_tail _ _ _ _ _ tz (by decide) rfl ht]
    simp [timeShown, TimeForm.hasM, TimeForm.hasS, TimeForm.hasFrac]
    time_close
  | hmsfExt cm =>
    simp [timeWF, timeShown, TimeForm.hasM, TimeForm.hasS, TimeForm.hasFrac] at hw
    obtain ⟨hr, hne, hd⟩ := hw
    have hmk : fracMark cm = 46 ∨ fracMark cm = 44 := by cases cm <;> simp [fracMark]
    simp only [parseIsotime, renderTime, pad2, List.cons_append, List.nil_append, List.length_cons, List.append_assoc]
    rw [timeLoop_d0 _ _ _ _ _ (by omega), timeLoop_c1 _ _ _ _ _ (by omega), timeLoop_c2 _ _ _ _ (by omega),
      timeLoop_f3 _ _ _ _ _ _ hmk hne hd hnd, timeLoop_tail _ _ _ _ _ tz (by decide) rfl ht]
    simp [timeShown, TimeForm.hasM, TimeForm.hasS, TimeForm.hasFrac]
    time_close
  | hmsfBas cm =>
    simp [timeWF, timeShown, TimeForm.hasM, TimeForm.hasS, TimeForm.hasFrac] at hw
    obtain ⟨hr, hne, hd⟩ := hw
    have hmk : fracMark cm = 46 ∨ fracMark cm = 44 := by cases cm <;> simp [fracMark]
    simp only [parseIsotime, renderTime, pad2, List.cons_append, List.nil_append, List.length_cons, List.append_assoc]
    rw [timeLoop_d0 _ _ _ _ _ (by omega), timeLoop_d1 _ _ _ _ _ (by omega), timeLoop_d2 _ _ _ _ (by omega),
      timeLoop_f3 _ _ _ _ _ _ hmk hne hd hnd, timeLoop_tail _ _ _ _ _ tz (by decide) rfl ht]
    simp [timeShown, TimeForm.hasM, TimeForm.hasS, TimeForm.hasFrac]
    time_close

theorem offTail_render (o : OffForm) (x : Fields) (hw : offWF o x = true) :
    OffTail (renderOff o x) (offDenote o x) := by
  by_cases hn : o = .naive
  · subst hn; exact Or.inl ⟨rfl, rfl⟩
  · have hex : ∃ v, offDenote o x = some v := by
      cases o <;> simp [offDenote] at hn ⊢ <;> split <;> simp
    obtain ⟨v, hv⟩ := hex
    have hp := parseTzstr_render o x v hw hv
    right
    cases o with
    | naive => exact absurd rfl hn
    | Z => exact ⟨90, [], v, rfl, by simp, hp, hv⟩
    | z => exact ⟨122, [], v, rfl, by simp, hp, hv⟩
    | hh => exact ⟨signByte x.neg, _, v, rfl, by cases x.neg <;> simp [signByte], hp, hv⟩
    | hhmm => exact ⟨signByte x.neg, pad2 x.oh ++ pad2 x.om, v, by simp [renderOff], by cases x.neg <;> simp [signByte], hp, hv⟩
    | hhcmm => exact ⟨signByte x.neg, pad2 x.oh ++ [58] ++ pad2 x.om, v, by simp [renderOff], by cases x.neg <;> simp [signByte], hp, hv⟩

end Iso
