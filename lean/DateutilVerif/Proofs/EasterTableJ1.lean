/- Proofs/EasterTableJ1.lean — `decide +kernel` over every year 326..2325 (no sampling). -/
import DateutilVerif.Proofs.EasterDefs

namespace C19
theorem tableJ1 : ∀ k : Fin 2000, julianOK (326 + (k.val : Int)) = true := by decide +kernel
end C19
