/-
  Driver.lean — one request per line in, one canonical response line out.
  Imports Model/Spec/Generated/Ops only (no Mathlib, no proof files) so that it
  links as a native executable.
-/
import DateutilVerif.Ops.Base
import DateutilVerif.Ops.CacheOps
import DateutilVerif.Ops.Factory
import DateutilVerif.Ops.GettzGen
import DateutilVerif.Ops.ICal
import DateutilVerif.Ops.IsoParser
import DateutilVerif.Ops.NestedOps
import DateutilVerif.Ops.Parser
import DateutilVerif.Ops.ParserGen
import DateutilVerif.Ops.QueryOps
import DateutilVerif.Ops.RRule
import DateutilVerif.Ops.RRuleGen
import DateutilVerif.Ops.RRuleStr
import DateutilVerif.Ops.RRuleStrGen
import DateutilVerif.Ops.RSetOps
import DateutilVerif.Ops.ReduceOps
import DateutilVerif.Ops.RelativeDelta
import DateutilVerif.Ops.ReplaceOps
import DateutilVerif.Ops.ScanOps
import DateutilVerif.Ops.TzGen
import DateutilVerif.Ops.TzHelpGen
import DateutilVerif.Ops.TzLoadGen
import DateutilVerif.Ops.TzObjGen
import DateutilVerif.Ops.TzStr
import DateutilVerif.Ops.TzifGen
import DateutilVerif.Ops.Weekday
import DateutilVerif.Ops.Zones

def handlers : List (String → List String → Option String) :=
  [Ops.Base.handle, Ops.CacheOps.handle, Ops.Factory.handle, Ops.GettzGen.handle, Ops.ICal.handle, Ops.IsoParser.handle, Ops.NestedOps.handle, Ops.Parser.handle, Ops.ParserGen.handle, Ops.QueryOps.handle, Ops.RRule.handle, Ops.RRuleGen.handle, Ops.RRuleStr.handle, Ops.RRuleStrGen.handle, Ops.RSetOps.handle, Ops.ReduceOps.handle, Ops.RelativeDelta.handle, Ops.ReplaceOps.handle, Ops.ScanOps.handle, Ops.TzGen.handle, Ops.TzHelpGen.handle, Ops.TzLoadGen.handle, Ops.TzObjGen.handle, Ops.TzStr.handle, Ops.TzifGen.handle, Ops.Weekday.handle, Ops.Zones.handle]

def dispatch (line : String) : String :=
  match (line.trimAscii.toString.splitOn " ").filter (· ≠ "") with
  | [] => "bad-op"
  | op :: args =>
    match handlers.findSome? (fun h => h op args) with
    | some r => r
    | none => "bad-op"

partial def loop (h : IO.FS.Stream) (out : IO.FS.Stream) : IO Unit := do
  let line ← h.getLine
  if line.isEmpty then return ()
  out.putStrLn (dispatch line)
  loop h out

def main : IO Unit := do
  let stdin ← IO.getStdin
  let stdout ← IO.getStdout
  loop stdin stdout
