/-
  Driver.lean — one request per line in, one canonical response line out.
  Imports Model/Spec/Generated/Ops only (no Mathlib, no proof files) so that it
  links as a native executable.
-/
import DateutilVerif.Ops.Base
import DateutilVerif.Ops.RRule

def handlers : List (String → List String → Option String) :=
  [Ops.Base.handle, Ops.RRule.handle]

def dispatch (line : String) : String :=
  match (line.trimAscii.toString.splitOn " ").filter (· ≠ "") with
  | [] => "bad-op"
  | op :: args =>
    match handlers.findSome? (fun h => h op args) with
    | some r => r
    | none => "bad-op"

partial def loop (h : IO.FS.Stream) (out : IO.FS.Stream) : IO Unit := do
  let line ← h.getLine
  if line.isEmpty then return ()
  out.putStrLn (dispatch line)
  loop h out

def main : IO Unit := do
  let stdin ← IO.getStdin
  let stdout ← IO.getStdout
  loop stdin stdout
