import collections, random
from datetime import datetime, timedelta
from dateutil import tz
UTC=tz.UTC
def check(z, name, years, bad, ex):
    # ground truth: map utc seconds -> wall, collect preimages around transitions found by scanning hourly
    for y in years:
        u0=datetime(y,1,1,tzinfo=UTC)
        # find transitions by scanning utcoffset hourly via fromutc
        prev=None; trans=[]
        for k in range(0,366*24):
            uu=u0+timedelta(hours=k); o=uu.astimezone(z).utcoffset()
            if prev is not None and o!=prev: trans.append(uu)
            prev=o
        for t in trans:
            # collect wall->list of utc in window +-4h at 15-min resolution
            pre=collections.defaultdict(list)
            for k in range(-6*4*3,6*4*3+1):
                uu=t+timedelta(minutes=5*k)
                loc=uu.astimezone(z)
                pre[loc.replace(tzinfo=None)].append((uu,loc.fold))
            lo=min(pre); hi=max(pre)
            w=lo+timedelta(hours=2)
            while w<=hi-timedelta(hours=2):
                n=len(pre.get(w,[]))
                ex_=tz.datetime_exists(w,z); am=tz.datetime_ambiguous(w,z)
                if ex_!=(n>=1): bad[(name,'exists',n)]+=1; ex.setdefault((name,'exists',n),(str(w),ex_))
                if am!=(n==2): bad[(name,'ambig',n)]+=1; ex.setdefault((name,'ambig',n),(str(w),am))
                if n==2:
                    (u1,f1),(u2,f2)=sorted(pre[w])
                    if (f1,f2)!=(0,1): bad[(name,'foldflags')]+=1
                    for f,uexp in ((0,u1),(1,u2)):
                        got=w.replace(tzinfo=z,fold=f).astimezone(UTC)
                        if got!=uexp: bad[(name,'fold->utc',f)]+=1; ex.setdefault((name,'fold->utc',f),(str(w),str(got),str(uexp)))
                if n==1:
                    o0=w.replace(tzinfo=z,fold=0).utcoffset(); o1=w.replace(tzinfo=z,fold=1).utcoffset()
                    if o0!=o1: bad[(name,'fold-effect')]+=1; ex.setdefault((name,'fold-effect'),(str(w),o0,o1))
                if n==0:
                    r=tz.resolve_imaginary(w.replace(tzinfo=z))
                    # gap width
                    if not tz.datetime_exists(r): bad[(name,'resolve-notexist')]+=1
                else:
                    a=w.replace(tzinfo=z); r=tz.resolve_imaginary(a)
                    if r is not a: bad[(name,'resolve-changed')]+=1
                w+=timedelta(minutes=5)
bad=collections.Counter(); ex={}
for s in ['EST5EDT','AEST-10AEDT,M10.1.0,M4.1.0/3','IST-1GMT0,M10.5.0,M3.5.0/1','LHST-10:30LHDT-11,M10.1.0,M4.1.0','XXX3YYY1,M3.2.0,M11.1.0', 'CET-1CEST,M3.5.0,M10.5.0/3']:
    check(tz.tzstr(s), s, (2020,), bad, ex)
for n in ['America/New_York','Europe/Dublin','Australia/Lord_Howe','Africa/Casablanca','Europe/London','America/Sao_Paulo','Asia/Tehran']:
    check(tz.gettz(n), n, (2015,2019), bad, ex)
for k,v in bad.items(): print(v,k,ex.get(k))
