import os, struct, collections
from dateutil import tz
ROOT='/usr/share/zoneinfo'
n=0; lastdst=[]; nodata=0; v=collections.Counter(); std_ne_last=[]
seen=set()
for dp,dn,fn in os.walk(ROOT):
    for f in fn:
        p=os.path.join(dp,f); rel=os.path.relpath(p,ROOT)
        if rel.startswith(('posix/','right/')): continue
        b=open(p,'rb').read()
        if b[:4]!=b'TZif' or b in seen: continue
        seen.add(b); n+=1; v[b[4:5]]+=1
        gc,sc,lc,tc,yc,cc=struct.unpack('>6l',b[20:44])
        if tc==0: nodata+=1; continue
        o=44+4*tc; ix=struct.unpack('>%dB'%tc,b[o:o+tc]); o+=tc
        ti=[struct.unpack('>lbb',b[o+6*i:o+6*i+6]) for i in range(yc)]
        if ti[ix[-1]][1]: lastdst.append(rel)
        z=tz.tzfile(p)
        if z._ttinfo_std is not z._trans_idx[-1]: std_ne_last.append(rel)
print(n, dict(v), 'no-transitions', nodata, 'last type is dst:', len(lastdst), lastdst[:5], 'std != last', len(std_ne_last), std_ne_last[:8])
