import random, collections, itertools
from datetime import datetime, timedelta
from dateutil.rrule import *
rnd=random.Random(11)
base=datetime(2020,1,1)
def rrand():
    return rrule(rnd.choice([DAILY,WEEKLY,HOURLY]), dtstart=base+timedelta(days=rnd.randint(0,5),hours=rnd.choice([0,0,6])), interval=rnd.randint(1,3), count=rnd.randint(0,12))
def drand(): return base+timedelta(days=rnd.randint(0,20),hours=rnd.choice([0,0,6,12]))
bad=collections.Counter(); ex={}
for it in range(20000):
    cache=rnd.random()<.5
    s=rruleset(cache=cache)
    inc=set(); exc=set()
    ops=[]
    def addsome():
        for _ in range(rnd.randint(0,3)):
            k=rnd.choice('rdxe')
            if k=='r': r=rrand(); s.rrule(r); inc.update(r)
            elif k=='d': d=drand(); s.rdate(d); inc.add(d)
            elif k=='x': r=rrand(); s.exrule(r); exc.update(r)
            else: d=drand(); s.exdate(d); exc.add(d)
    addsome()
    for phase in range(3):
        exp=sorted(inc-exc)
        mode=rnd.choice(['list','partial','count','between','none'])
        if mode=='list': got=list(s)
        elif mode=='partial':
            got=list(itertools.islice(s, rnd.randint(0,5))); exp=exp[:len(got)] if len(got)<=len(exp) else exp
        elif mode=='count': got=s.count(); exp=len(exp)
        elif mode=='between':
            a=drand(); b=a+timedelta(days=5); got=s.between(a,b,inc=True); exp=[x for x in exp if a<=x<=b]
        else: got=exp
        if got!=exp: bad[mode+(' cache' if cache else '')]+=1; ex.setdefault(mode,(got,exp))
        addsome()
print(dict(bad)); 
for k,v in ex.items(): print(k,v)
