import random, collections, calendar
from datetime import datetime, timedelta
from dateutil.parser import parse
from dateutil import tz
rnd=random.Random(2)
MON=['Jan','Feb','Mar','Apr','May','Jun','Jul','Aug','Sep','Oct','Nov','Dec']
MONL=['January','February','March','April','May','June','July','August','September','October','November','December']
WD=['Mon','Tue','Wed','Thu','Fri','Sat','Sun']
def h12(h): return (h%12) or 12
def ap(h): return 'AM' if h<12 else 'PM'
F={
 'iso_T': (lambda d:'%04d-%02d-%02dT%02d:%02d:%02d'%(d.year,d.month,d.day,d.hour,d.minute,d.second),'s',{}),
 'iso_sp_us': (lambda d:'%04d-%02d-%02d %02d:%02d:%02d.%06d'%(d.year,d.month,d.day,d.hour,d.minute,d.second,d.microsecond),'us',{}),
 'iso_comma_ms': (lambda d:'%04d-%02d-%02dT%02d:%02d:%02d,%03d'%(d.year,d.month,d.day,d.hour,d.minute,d.second,d.microsecond//1000),'ms',{}),
 'iso_min': (lambda d:'%04d-%02d-%02d %02d:%02d'%(d.year,d.month,d.day,d.hour,d.minute),'m',{}),
 'iso_date': (lambda d:'%04d-%02d-%02d'%(d.year,d.month,d.day),'d',{}),
 'compact': (lambda d:'%04d%02d%02dT%02d%02d%02d'%(d.year,d.month,d.day,d.hour,d.minute,d.second),'s',{}),
 'compact_nosep': (lambda d:'%04d%02d%02d%02d%02d%02d'%(d.year,d.month,d.day,d.hour,d.minute,d.second),'s',{}),
 'compact_min': (lambda d:'%04d%02d%02dT%02d%02d'%(d.year,d.month,d.day,d.hour,d.minute),'m',{}),
 'compact_date': (lambda d:'%04d%02d%02d'%(d.year,d.month,d.day),'d',{}),
 'ctime': (lambda d:'%s %s %2d %02d:%02d:%02d %04d'%(WD[d.weekday()],MON[d.month-1],d.day,d.hour,d.minute,d.second,d.year),'s',{}),
 'rfc2822': (lambda d:'%s, %02d %s %04d %02d:%02d:%02d'%(WD[d.weekday()],d.day,MON[d.month-1],d.year,d.hour,d.minute,d.second),'s',{}),
 'long': (lambda d:'%s %d, %04d %d:%02d:%02d %s'%(MONL[d.month-1],d.day,d.year,h12(d.hour),d.minute,d.second,ap(d.hour)),'s',{}),
 'dMonY': (lambda d:'%d %s %04d'%(d.day,MON[d.month-1],d.year),'d',{}),
 'd-Mon-Y': (lambda d:'%02d-%s-%04d %02d:%02d'%(d.day,MON[d.month-1],d.year,d.hour,d.minute),'m',{}),
 'hms_letters': (lambda d:'%04d-%02d-%02d %02dh%02dm%02ds'%(d.year,d.month,d.day,d.hour,d.minute,d.second),'s',{}),
 'us': (lambda d:'%02d/%02d/%04d %02d:%02d:%02d'%(d.month,d.day,d.year,d.hour,d.minute,d.second),'s',{}),
 'eu': (lambda d:'%02d/%02d/%04d %02d:%02d:%02d'%(d.day,d.month,d.year,d.hour,d.minute,d.second),'s',{'dayfirst':True}),
 'eu_dot': (lambda d:'%02d.%02d.%04d %02d:%02d'%(d.day,d.month,d.year,d.hour,d.minute),'m',{'dayfirst':True}),
 'yf_slash': (lambda d:'%04d/%02d/%02d %02d:%02d:%02d'%(d.year,d.month,d.day,d.hour,d.minute,d.second),'s',{'yearfirst':True}),
 'ampm_short': (lambda d:'%04d-%02d-%02d %d:%02d%s'%(d.year,d.month,d.day,h12(d.hour),d.minute,ap(d.hour).lower()),'m',{}),
 'ampm_hour': (lambda d:'%04d-%02d-%02d %d %s'%(d.year,d.month,d.day,h12(d.hour),ap(d.hour)),'h',{}),
 'us2': (lambda d:'%02d/%02d/%02d'%(d.month,d.day,d.year%100),'d2',{}),
}
def trunc(d,p):
    if p=='us': return d
    if p=='ms': return d.replace(microsecond=d.microsecond//1000*1000)
    if p=='s': return d.replace(microsecond=0)
    if p=='m': return d.replace(second=0,microsecond=0)
    if p=='h': return d.replace(minute=0,second=0,microsecond=0)
    return d.replace(hour=0,minute=0,second=0,microsecond=0)
OFFS=[None,'Z',' UTC','+00:00','-0300','+05:30','-23:59','+23:59',' +0100','-03',' Z',' -0330']
bad=collections.Counter(); ex={}; n=0
for it in range(60000):
    y=rnd.choice([1,31,32,99,100,999,1000,1969,1999,2000,2024,2069,9999, rnd.randint(1,9999)])
    m=rnd.randint(1,12); dd=rnd.choice([1,12,13,28,calendar.monthrange(y,m)[1],rnd.randint(1,28)])
    d=datetime(y,m,dd,rnd.choice([0,11,12,13,23,rnd.randint(0,23)]),rnd.choice([0,59,rnd.randint(0,59)]),rnd.choice([0,59,rnd.randint(0,59)]),rnd.choice([0,1,999999,500000,rnd.randint(0,999999)]))
    name=rnd.choice(list(F)); f,p,kw=F[name]
    if p=='d2':
        if not (1976<=y<=2075): continue
    s=f(d); off=rnd.choice(OFFS) if p not in('d','d2') else None
    if off:
        if name in ('ctime','long','ampm_short','ampm_hour','hms_letters') and not off.startswith(' '): off=' '+off
        s+=off
    default=datetime(2001,1,1)
    try: got=parse(s,default=default,**kw)
    except Exception as e:
        k=(name,'y<1000' if y<1000 else '', 'EXC '+type(e).__name__, off if off in(' UTC','Z') else ('off' if off else ''))
        bad[k]+=1; ex.setdefault(k,(s,repr(e))); continue
    exp=trunc(d,p)
    if off:
        if off.strip() in('Z','UTC'): o=0
        else:
            t=off.strip(); sg=-1 if t[0]=='-' else 1; t=t[1:].replace(':','')
            o=sg*(int(t[:2])*3600+(int(t[2:4])*60 if len(t)>2 else 0))
        ok = got.tzinfo is not None and got.utcoffset()==timedelta(seconds=o) and got.replace(tzinfo=None)==exp
    else: ok = got==exp and got.tzinfo is None
    n+=1
    if not ok:
        k=(name,'y<1000' if y<1000 else ('y<100' if y<100 else ''),'WRONG', repr(off))
        bad[k]+=1; ex.setdefault(k,(s,got,exp))
print(n)
for k,v in sorted(bad.items(), key=lambda x:str(x)): print(v,k, ex[k])
