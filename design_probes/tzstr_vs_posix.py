# C08: tzstr vs independent POSIX evaluation (and vs glibc via time.tzset/localtime)
import os, time, calendar, random, collections, sys
from datetime import datetime, timedelta, date
from dateutil import tz
EPOCH=datetime(1970,1,1)
def rule_date(y, r):
    kind = r[0]
    if kind=='M':
        _, m, w, d = r   # d: 0=Sunday
        first = date(y,m,1)
        # first weekday d (posix 0=Sun) on/after first
        pyd = (d-1)%7   # python weekday
        delta = (pyd - first.weekday())%7
        day = 1+delta+7*(w-1)
        ml = calendar.monthrange(y,m)[1]
        while day>ml: day-=7
        return date(y,m,day)
    if kind=='J':
        n=r[1]  # 1..365, no feb 29
        d = date(2001,1,1)+timedelta(days=n-1)
        return date(y,d.month,d.day)
    if kind=='n':
        return date(y,1,1)+timedelta(days=r[1])
def fmt_rule(r, t):
    if r[0]=='M': s='M%d.%d.%d'%r[1:]
    elif r[0]=='J': s='J%d'%r[1]
    else: s='%d'%r[1]
    if t is not None:
        h,m_=divmod(t//60,60); 
        s+='/%d'%h if m_==0 else '/%d:%02d'%(h,m_)
    return s
def posix_off(u, std, dst, sr, st, er, et):
    """u naive utc datetime; std,dst offsets seconds east. returns (off,isdst)"""
    st = 7200 if st is None else st; et = 7200 if et is None else et
    for y in (u.year-1,u.year,u.year+1):
        pass
    # DST intervals in UTC for years around
    isdst=False
    for y in (u.year-1,u.year,u.year+1):
        s = datetime.combine(rule_date(y,sr), datetime.min.time())+timedelta(seconds=st) - timedelta(seconds=std)
        e = datetime.combine(rule_date(y,er), datetime.min.time())+timedelta(seconds=et) - timedelta(seconds=dst)
        if s < e:
            if s <= u < e: isdst=True
        else:
            # southern: dst from s(y) to e(y+1)
            e2 = datetime.combine(rule_date(y+1,er), datetime.min.time())+timedelta(seconds=et) - timedelta(seconds=dst)
            if s <= u < e2: isdst=True
    return (dst if isdst else std), isdst
rnd=random.Random(7)
cls=collections.Counter(); ex={}
def genrule(south):
    k=rnd.choice(['M','M','M','J','n'])
    if k=='M': return ('M', rnd.choice([9,10,11] if south else [3,4,5]), rnd.choice([1,2,3,4,5]), rnd.randint(0,6))
    if k=='J': return ('J', rnd.randint(250,320) if south else rnd.randint(60,130))
    return ('n', rnd.randint(250,320) if south else rnd.randint(59,130))
def genrule_end(south):
    k=rnd.choice(['M','M','M','J','n'])
    if k=='M': return ('M', rnd.choice([3,4,5] if south else [9,10,11]), rnd.choice([1,2,3,4,5]), rnd.randint(0,6))
    if k=='J': return ('J', rnd.randint(60,130) if south else rnd.randint(250,320))
    return ('n', rnd.randint(59,130) if south else rnd.randint(250,320))
for it in range(400):
    south = rnd.random()<0.4
    stdh = rnd.choice([-10,-5,-3.5,0,1,5.5,9,12])
    save = rnd.choice([3600,3600,3600,1800,7200])
    std = int(stdh*3600); dst = std+save
    sr=genrule(south); er=genrule_end(south)
    st = rnd.choice([None,None,7200,0,3600,1800,10800,86400, 90000]); et = rnd.choice([None,None,7200,0,1800,3600,10800,86400])
    def offs(o):
        o=-o; sg='-' if o<0 else ''; o=abs(o); h,m=divmod(o//60,60)
        return '%s%d'%(sg,h) if m==0 else '%s%d:%02d'%(sg,h,m)
    s='AAA%sBBB%s,%s,%s'%(offs(std), '' if save==3600 else offs(dst), fmt_rule(sr,st), fmt_rule(er,et))
    try: z=tz.tzstr(s)
    except Exception as e:
        cls['ctor-'+type(e).__name__]+=1; ex.setdefault('ctor',(s,repr(e))); continue
    os.environ['TZ']=s; time.tzset()
    key=(sr[0],er[0],'st=%s'%st,'et=%s'%et)
    okp=True; okc=True
    for y in (2019,2020,2021):
        for rr_,tt_,o_ in ((sr,st,std),(er,et,dst)):
            tloc = datetime.combine(rule_date(y,rr_), datetime.min.time())+timedelta(seconds=7200 if tt_ is None else tt_)
            tu = tloc - timedelta(seconds=o_)
            for d in (-86400,-7201,-3601,-3600,-1801,-1,0,1,1799,1800,3599,3600,7200,86400):
                u = tu+timedelta(seconds=d)
                exp,isd = posix_off(u,std,dst,sr,st,er,et)
                loc = u.replace(tzinfo=tz.UTC).astimezone(z)
                got = loc.utcoffset().total_seconds()
                lt = time.localtime(calendar.timegm(u.timetuple()))
                if lt.tm_gmtoff != exp: okc=False; ex.setdefault('glibc-vs-ref',(s,str(u),lt.tm_gmtoff,exp))
                if got != exp:
                    okp=False; ex.setdefault(key,(s,str(u),got,exp))
    cls[('OK' if okp else 'BAD')+str(key[:2])]+=1
    if not okp: cls['BADt '+str(key[2:])]+=1
    if not okc: cls['ref!=glibc']+=1
for k,v in sorted(cls.items(), key=lambda x:str(x[0])): print(v,k)
for k,v in list(ex.items())[:14]: print(k,v)
