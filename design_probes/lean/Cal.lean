-- feasibility: days_from_civil / civil_from_days round trip with omega
def isLeap (y : Int) : Bool := y % 4 == 0 && (y % 100 != 0 || y % 400 == 0)

-- days before year y (y ≥ 1), Python's _days_before_year
def daysBeforeYear (y : Int) : Int :=
  let y := y - 1
  y*365 + y/4 - y/100 + y/400

theorem dby_succ (y : Int) (h : 1 ≤ y) :
    daysBeforeYear (y+1) = daysBeforeYear y + (if isLeap y then 366 else 365) := by
  unfold daysBeforeYear isLeap
  simp only []
  split <;> simp_all <;> omega
