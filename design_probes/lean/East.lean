def easterW (y : Int) : Int × Int :=
  let g := y % 19
  let c := y / 100
  let h := (c - c / 4 - (8 * c + 13) / 25 + 19 * g + 15) % 30
  let i := h - (h / 28) * (1 - (h / 28) * (29 / (h + 1)) * ((21 - g) / 11))
  let j := (y + y / 4 + i + 2 - c + c / 4) % 7
  let p := i - j
  (3 + (p + 26) / 30, 1 + (p + 27 + (p + 6) / 40) % 31)

def mjb (y : Int) : Int × Int :=
  let a := y % 19; let b := y / 100; let c := y % 100
  let d := b / 4; let e := b % 4; let f := (b + 8) / 25
  let g := (b - f + 1) / 3
  let h := (19 * a + b - d - g + 15) % 30
  let i := c / 4; let k := c % 4
  let l := (32 + 2 * e + 2 * i - h - k) % 7
  let m := (a + 11 * h + 22 * l) / 451
  ((h + l - 7 * m + 114) / 31, (h + l - 7 * m + 114) % 31 + 1)

def allRange (lo n : Nat) (p : Int → Bool) : Bool := (List.range n).all (fun k => p (Int.ofNat (lo + k)))

theorem easter_eq_mjb_range : allRange 1583 2517 (fun y => easterW y == mjb y) = true := by decide +kernel

theorem allRange_spec (lo n : Nat) (p : Int → Bool) (h : allRange lo n p = true) :
    ∀ y : Int, (lo : Int) ≤ y → y < lo + n → p y = true := by
  intro y h1 h2
  simp only [allRange, List.all_eq_true, List.mem_range] at h
  have := h (y - lo).toNat (by omega)
  have e : Int.ofNat (lo + (y - lo).toNat) = y := by simp; omega
  rwa [e] at this
#print axioms easter_eq_mjb_range
