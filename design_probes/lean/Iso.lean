def digitVal (c : Char) : Option Nat := if '0' ≤ c ∧ c ≤ '9' then some (c.toNat - 48) else none
def parseDigits : List Char → Option Nat
  | [] => none
  | cs => cs.foldlM (fun acc c => (digitVal c).map (fun d => acc * 10 + d)) 0
def dch (d : Nat) : Char := Char.ofNat (48 + d)
def pad2 (n : Nat) : List Char := [dch (n / 10), dch (n % 10)]
def pad4 (n : Nat) : List Char := [dch (n / 1000), dch (n / 100 % 10), dch (n / 10 % 10), dch (n % 10)]

theorem digitVal_dch (d : Nat) (h : d < 10) : digitVal (dch d) = some d := by
  have : d = 0 ∨ d = 1 ∨ d = 2 ∨ d = 3 ∨ d = 4 ∨ d = 5 ∨ d = 6 ∨ d = 7 ∨ d = 8 ∨ d = 9 := by omega
  rcases this with h|h|h|h|h|h|h|h|h|h <;> subst h <;> decide

theorem parse_pad2 (n : Nat) (h : n < 100) : parseDigits (pad2 n) = some n := by
  simp [parseDigits, pad2, List.foldlM, digitVal_dch (n/10) (by omega), digitVal_dch (n%10) (by omega)]
  omega

theorem parse_pad4 (n : Nat) (h : n < 10000) : parseDigits (pad4 n) = some n := by
  simp [parseDigits, pad4, List.foldlM, digitVal_dch (n/1000) (by omega), digitVal_dch (n/100%10) (by omega),
        digitVal_dch (n/10%10) (by omega), digitVal_dch (n%10) (by omega)]
  omega

-- toy fixed-width parser: YYYY-MM
def parseYM (s : List Char) : Option (Nat × Nat) :=
  if s.length ≠ 7 then none else
  if s[4]? ≠ some '-' then none else
  do let y ← parseDigits (s.take 4); let m ← parseDigits (s.drop 5); pure (y, m)

theorem parseYM_render (y m : Nat) (hy : y < 10000) (hm : m < 100) :
    parseYM (pad4 y ++ ['-'] ++ pad2 m) = some (y, m) := by
  have h4 : (pad4 y).length = 4 := rfl
  simp [parseYM, pad4, pad2] 
  have := parse_pad4 y hy; have := parse_pad2 m hm
  simp_all [pad4, pad2]
