import random, sys, itertools, collections, signal
from rrule_reference import *
class TO(Exception): pass
def h(*a): raise TO()
signal.signal(signal.SIGALRM,h)
rnd = random.Random(int(sys.argv[1]) if len(sys.argv)>1 else 1)
N = int(sys.argv[2]) if len(sys.argv)>2 else 500
WD=R.weekdays
UNIT={R.HOURLY:3600,R.MINUTELY:60,R.SECONDLY:1}
def ref_sub(rule, limit):
    freq=rule['freq']; ds=rule['dtstart']; iv=rule['interval']; u=UNIT[freq]
    out=[]
    base = ds.replace(minute=0,second=0) if freq==R.HOURLY else ds.replace(second=0) if freq==R.MINUTELY else ds
    k=0
    until=rule['until']
    while True:
        p0 = base+timedelta(seconds=k*iv*u)
        if p0 > until: return out
        # candidate instants within the period
        if freq==R.HOURLY:
            ms = rule['byminute'] ; ss = rule['bysecond']
            cands=[p0.replace(minute=m,second=s) for m in sorted(set(ms)) for s in sorted(set(ss))]
        elif freq==R.MINUTELY:
            cands=[p0.replace(second=s) for s in sorted(set(rule['bysecond']))]
        else: cands=[p0]
        def ok(t):
            if rule['byhour_f'] is not None and t.hour not in rule['byhour_f']: return False
            if freq>=R.MINUTELY and rule['byminute_f'] is not None and t.minute not in rule['byminute_f']: return False
            if freq>=R.SECONDLY and rule['bysecond_f'] is not None and t.second not in rule['bysecond_f']: return False
            return day_matches(t.date(), rule, None)
        cands=[c for c in cands if ok(c)]
        if rule['bysetpos']:
            sel=[]
            for p in rule['bysetpos']:
                try: c=cands[p-1] if p>0 else cands[p]
                except IndexError: continue
                if c not in sel: sel.append(c)
            cands=sorted(sel)
        for c in cands:
            if c>until: return out
            if c>=ds:
                out.append(c)
                if len(out)>=limit: return out
        k+=1
cls=collections.Counter(); shown=collections.Counter()
for it in range(N):
    freq=rnd.choice([R.HOURLY,R.MINUTELY,R.SECONDLY])
    ds=datetime(rnd.choice([1999,2000,2024]), rnd.choice([1,2,12]), rnd.choice([1,28,29 if False else 27,31 if False else 15]), rnd.randint(0,23), rnd.randint(0,59), rnd.randint(0,59))
    if rnd.random()<.3: ds=ds.replace(month=12,day=31,hour=23)
    iv=rnd.choice([1,1,2,3,5,7,12,24,25,36,60,61,90,120,1440,3600,86400,100000])
    kw=dict(interval=iv, wkst=rnd.randint(0,6))
    def some(pool,k=3): return rnd.sample(pool, rnd.randint(1,k))
    if rnd.random()<.4: kw['byhour']=some(list(range(24)),4)
    if rnd.random()<.4: kw['byminute']=some(list(range(60)),4)
    if rnd.random()<.4: kw['bysecond']=some(list(range(60)),4)
    if rnd.random()<.2: kw['bymonthday']=some([1,2,28,29,31,-1])
    if rnd.random()<.2: kw['byweekday']=some([0,1,2,3,4,5,6])
    if rnd.random()<.15: kw['bymonth']=some([1,2,12])
    if rnd.random()<.15: kw['byyearday']=some([1,2,365,366,-1])
    if rnd.random()<.15: kw['bysetpos']=some([1,2,-1,3])
    span = {R.HOURLY:40*86400, R.MINUTELY:3*86400, R.SECONDLY:2*86400}[freq]
    if iv>=1440: span*=20
    until=ds+timedelta(seconds=span)
    lim=15
    signal.setitimer(signal.ITIMER_REAL,5)
    try:
        try:
            got=list(itertools.islice(R.rrule(freq,dtstart=ds,until=until,**kw),lim)); gexc=None
        except TO: raise
        except Exception as e: got=None; gexc=type(e).__name__
        nr=normalise(freq,ds,until=until,**kw)
        # for sub-daily: byhour etc are filters unless finer than freq
        nr['byhour_f']=tuple(kw['byhour']) if 'byhour' in kw else None
        nr['byminute_f']=tuple(kw['byminute']) if 'byminute' in kw else None
        nr['bysecond_f']=tuple(kw['bysecond']) if 'bysecond' in kw else None
        exp=ref_sub(nr,lim)
        signal.setitimer(signal.ITIMER_REAL,0)
    except TO:
        cls['timeout']+=1; continue
    key=(R.FREQNAMES[freq],)+tuple(sorted(k for k in kw if k not in('interval','wkst')))
    if gexc:
        if exp==[] : cls['exc-ok-empty '+gexc]+=1
        else:
            cls['EXC-but-nonempty '+gexc]+=1
            if shown['e']<6: shown['e']+=1; print('EXC',gexc,R.FREQNAMES[freq],ds,kw,'exp',exp[:2])
    elif got==exp: cls['ok' if got else 'ok-empty']+=1
    else:
        cls['DIFF '+str(key)]+=1
        if shown[key]<2:
            shown[key]+=1; print('DIFF',R.FREQNAMES[freq],ds,kw)
            for a,b in itertools.zip_longest(got,exp):
                if a!=b: print('   first diff got',a,'exp',b); break
for k,v in sorted(cls.items(), key=lambda x:-x[1]): print(v,k)
