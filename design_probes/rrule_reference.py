"""Brute-force reference for rrule semantics (design-time exploration)."""
import calendar, random, itertools, sys
from datetime import datetime, date, timedelta, time
from dateutil import rrule as R
from dateutil.easter import easter

def weeks_in_year(y, wkst):
    # number of wkst-weeks (>=4 days in year) for year y; first day of week 1
    jan1 = date(y,1,1)
    # start of week containing jan1
    off = (jan1.weekday() - wkst) % 7   # days of the week already before jan1
    wkstart = jan1 - timedelta(days=off)
    # week containing jan1 has 7-off days in y
    if 7 - off >= 4: w1 = wkstart
    else: w1 = wkstart + timedelta(days=7)
    return w1

def weekno_of(d, wkst):
    """(weekyear, weekno, numweeks(weekyear))"""
    y = d.year
    for wy in (y+1, y, y-1):
        if wy < 1 or wy > 9999: continue
        w1 = weeks_in_year(wy, wkst)
        if d >= w1:
            n = (d - w1).days // 7 + 1
            nxt = weeks_in_year(wy+1, wkst) if wy < 9999 else None
            if nxt is not None:
                num = (nxt - w1).days // 7
                if n <= num:
                    return wy, n, num
            else:
                return wy, n, 53
    raise AssertionError

def day_matches(d, rule, p_start_month_scope):
    """rule: dict of normalised parts. BY filters on the date."""
    y = d.year
    ylen = 366 if calendar.isleap(y) else 365
    if rule['bymonth'] and d.month not in rule['bymonth']: return False
    if rule['byweekno']:
        wy, n, num = weekno_of(d, rule['wkst'])
        if not (n in rule['byweekno'] or (n - num - 1) in rule['byweekno']): return False
    if rule['byyearday']:
        yd = d.timetuple().tm_yday
        if not (yd in rule['byyearday'] or (yd - ylen - 1) in rule['byyearday']): return False
    if rule['bymonthday']:
        mlen = calendar.monthrange(y, d.month)[1]
        if not (d.day in rule['bymonthday'] or (d.day - mlen - 1) in rule['bymonthday']): return False
    if rule['byweekday'] is not None:
        ok = False
        for (wd, n) in rule['byweekday']:
            if d.weekday() != wd: continue
            if not n or rule['freq'] > R.MONTHLY:
                ok = True; break
            # nth within scope
            if rule['freq'] == R.MONTHLY or (rule['freq'] == R.YEARLY and rule['bymonth']):
                first = date(y, d.month, 1); last = date(y, d.month, calendar.monthrange(y,d.month)[1])
            else:
                first = date(y,1,1); last = date(y,12,31)
            if n > 0:
                k = (d - first).days // 7 + 1
            else:
                k = -((last - d).days // 7 + 1)
            if k == n: ok = True; break
        if not ok: return False
    if rule['byeaster'] is not None:
        e = easter(y)
        if (d - e).days not in rule['byeaster']: return False
    return True

def ref(rule, limit):
    """yield occurrences in order; rule dict normalised with defaults applied."""
    freq = rule['freq']; interval = rule['interval']; ds = rule['dtstart']; wkst = rule['wkst']
    out = []
    # enumerate periods
    def period_days(k):
        # returns list of dates of k-th selected period (k counts in interval units) for freq<=DAILY,
        if freq == R.YEARLY:
            y = ds.year + k*interval
            if y > 9999: return None
            return [date(y,1,1)+timedelta(days=i) for i in range(366 if calendar.isleap(y) else 365)]
        if freq == R.MONTHLY:
            m0 = ds.year*12 + ds.month-1 + k*interval
            y, m = divmod(m0, 12); m += 1
            if y > 9999: return None
            return [date(y,m,i+1) for i in range(calendar.monthrange(y,m)[1])]
        if freq == R.WEEKLY:
            try:
                st = ds.date() - timedelta(days=(ds.weekday()-wkst)%7) + timedelta(days=7*k*interval)
                return [st+timedelta(days=i) for i in range(7)]
            except OverflowError: return None
        if freq == R.DAILY:
            try: return [ds.date()+timedelta(days=k*interval)]
            except OverflowError: return None
    if freq <= R.DAILY:
        times = sorted(time(h,m,s) for h in rule['byhour'] for m in rule['byminute'] for s in rule['bysecond'])
        k = 0; n = 0
        while True:
            days = period_days(k)
            if days is None: return out
            if days and days[0].year > rule.get('maxyear', 9999): return out
            cands = [datetime.combine(d,t) for d in days if day_matches(d, rule, None) for t in times]
            if rule['bysetpos']:
                sel = []
                for p in rule['bysetpos']:
                    try:
                        c = cands[p-1] if p > 0 else cands[p]
                    except IndexError: continue
                    if c not in sel: sel.append(c)
                cands = sorted(sel)
            for c in cands:
                if rule['until'] is not None and c > rule['until']: return out
                if c >= ds:
                    out.append(c)
                    if len(out) >= limit: return out
                    if rule['count'] is not None and len(out) >= rule['count']: return out
            k += 1
    else:
        raise NotImplementedError

def normalise(freq, dtstart, interval=1, wkst=0, count=None, until=None, bysetpos=None, bymonth=None, bymonthday=None,
              byyearday=None, byeaster=None, byweekno=None, byweekday=None, byhour=None, byminute=None, bysecond=None):
    r = dict(freq=freq, dtstart=dtstart, interval=interval, wkst=wkst, count=count, until=until)
    tup = lambda x: None if x is None else tuple(x) if not isinstance(x,int) else (x,)
    if byweekno is None and byyearday is None and bymonthday is None and byweekday is None and byeaster is None:
        if freq == R.YEARLY:
            if bymonth is None: bymonth = dtstart.month
            bymonthday = dtstart.day
        elif freq == R.MONTHLY: bymonthday = dtstart.day
        elif freq == R.WEEKLY: byweekday = [R.weekdays[dtstart.weekday()]]
    r['bysetpos']=tup(bysetpos); r['bymonth']=tup(bymonth); r['bymonthday']=tup(bymonthday); r['byyearday']=tup(byyearday)
    r['byeaster']=tup(byeaster); r['byweekno']=tup(byweekno)
    if byweekday is None: r['byweekday']=None
    else:
        if isinstance(byweekday,int) or hasattr(byweekday,'n'): byweekday=[byweekday]
        r['byweekday']=[(w,None) if isinstance(w,int) else (w.weekday, w.n) for w in byweekday]
    r['byhour']=tup(byhour) if byhour is not None else (dtstart.hour,)
    r['byminute']=tup(byminute) if byminute is not None else (dtstart.minute,)
    r['bysecond']=tup(bysecond) if bysecond is not None else (dtstart.second,)
    return r
