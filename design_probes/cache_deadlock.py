import threading, sys, faulthandler
from datetime import datetime
from dateutil.rrule import *
# two iterators, interleaved, single thread; detect deadlock via non-blocking probe in a thread with timeout
def run(n, order):
    r = rrule(DAILY, dtstart=datetime(2020,1,1), count=n, cache=True)
    its = [iter(r), iter(r)]
    out = [[],[]]
    res = {}
    def work():
        try:
            for k in order:
                try: out[k].append(next(its[k]))
                except StopIteration: out[k].append('STOP')
            res['done']=True
        except Exception as e:
            res['exc']=e
    t = threading.Thread(target=work, daemon=True); t.start(); t.join(2)
    return ('DEADLOCK' if t.is_alive() else res), [len(o) for o in out]
# A exhausts, then B continues
print(run(3, [1]+[0]*4+[1]*4))
print(run(3, [0]*4+[1]*4))
print(run(13, [1]*1+[0]*14+[1]*14))
print(run(10, [1]*1+[0]*11+[1]*11))
print(run(20, [1]*11+[0]*21+[1]*11))
