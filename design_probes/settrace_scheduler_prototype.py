import sys, threading, itertools
from datetime import datetime
from dateutil import rrule as R

TARGET = R.rrulebase._iter_cached.__code__

class CoopLock:
    """Instrumented replacement for rule._cache_lock (same interface)."""
    def __init__(self, sched): self.s=sched; self.owner=None
    def acquire(self):
        me=threading.get_ident()
        while self.owner is not None:
            self.s.block(me)            # report blocked, wait for another turn
        self.owner=me; return True
    def release(self):
        self.owner=None
    def locked(self): return self.owner is not None

class Sched:
    def __init__(self):
        self.cv=threading.Condition(); self.turn=None; self.state={}  # tid -> ('at',line)|('blocked',)|('done',)
    def _pause(self, me, st):
        with self.cv:
            self.state[me]=st; self.cv.notify_all()
            while self.turn!=me: self.cv.wait()
            self.turn=None
    def block(self, me): self._pause(me, ('blocked',))
    def tracer(self, frame, event, arg):
        if frame.f_code is TARGET: return self.local
        return None
    def local(self, frame, event, arg):
        if event=='line': self._pause(threading.get_ident(), ('at', frame.f_lineno))
        return self.local
    def run_thread(self, fn):
        def body():
            me=threading.get_ident()
            self._pause(me, ('start',))
            sys.settrace(self.tracer)
            try: fn()
            finally:
                sys.settrace(None)
                with self.cv: self.state[me]=('done',); self.cv.notify_all()
        t=threading.Thread(target=body, daemon=True); t.start(); return t
    def step(self, tid):
        with self.cv:
            self.state[tid]=('running',); self.turn=tid; self.cv.notify_all()
            while self.state[tid]==('running',): self.cv.wait()
            return self.state[tid]

def demo(n, schedule):
    s=Sched()
    r=R.rrule(R.DAILY, dtstart=datetime(2020,1,1), count=n, cache=True)
    r._cache_lock=CoopLock(s)
    outs=[[],[]]
    def mk(k):
        def f():
            for x in r: outs[k].append(x)
        return f
    ths=[s.run_thread(mk(0)), s.run_thread(mk(1))]
    import time; time.sleep(0.05)
    tids=[t.ident for t in ths]
    trace=[]
    for k in schedule:
        if s.state.get(tids[k])==('done',): continue
        st=s.step(tids[k]); trace.append((k,st))
        if all(s.state.get(t)==('done',) for t in tids): break
    return [len(o) for o in outs], [s.state.get(t) for t in tids], len(trace)
import random
rnd=random.Random(1)
print(demo(3, [0,1]*400))
print(demo(13, [rnd.randint(0,1) for _ in range(3000)]))
print(demo(13, [1]*12+[0]*2000+[1]*2000))
