import sys, threading, decimal
from datetime import datetime, date, timedelta
from dateutil.rrule import *
from dateutil import rrule as rr
from dateutil.relativedelta import relativedelta, MO
from dateutil.parser import parse, isoparse, isoparser
import dateutil.parser as P

# C12 slices
r = rrule(DAILY, dtstart=datetime(2020,1,1), count=5)
L = list(r)
for sl in [slice(0,0), slice(None,0), slice(2,0), slice(-3,None), slice(None,-1), slice(1,4,2), slice(None,None,-1), slice(0,None,0)]:
    try: a = r[sl]
    except Exception as e: a = repr(e)
    try: b = L[sl]
    except Exception as e: b = repr(e)
    print('slice', sl, 'OK' if a==b else 'DIFF', a if a!=b else '', b if a!=b else '')
for i in [0,4,5,-1,-5,-6]:
    try: a = r[i]
    except Exception as e: a = type(e).__name__
    try: b = L[i]
    except Exception as e: b = type(e).__name__
    print('idx', i, 'OK' if a==b else 'DIFF', a, b)

# C14
for s in ['10:'+'1'*30, '1'*30+'m', '1'*30+'h', '1.'+'1'*30+'h']:
    try: print(parse(s))
    except Exception as e: print('C14', s[:12], type(e).__mro__[:3])
# C16
a=relativedelta(weekday=MO); b=relativedelta(weekday=MO(1))
print('C16', a==b, hash(a)==hash(b))
# C20
for s in ['2_14','+204-034','2014- 7','2014-+1','2014-01-01T1 :30', '2014-01-01T12:30+01-30','20140101T12+0 30']:
    try: print('C20', repr(s), isoparse(s))
    except Exception as e: print('C20', repr(s), type(e).__name__, e)
for s in ['+01-30', '+0 30', '+1_', '-00:0 ']:
    try: print('C20tz', repr(s), isoparser().parse_tzstr(s))
    except Exception as e: print('C20tz', repr(s), type(e).__name__, e)
