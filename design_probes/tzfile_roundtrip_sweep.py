import os, sys, struct, collections
from datetime import datetime, timedelta
from dateutil import tz
ROOT='/usr/share/zoneinfo'
def zones():
    seen = {}
    for dp, dn, fn in os.walk(ROOT):
        for f in fn:
            p = os.path.join(dp,f)
            rel = os.path.relpath(p, ROOT)
            if rel.startswith(('posix/','right/')): continue
            try:
                with open(p,'rb') as fh:
                    b = fh.read()
                if b[:4] != b'TZif': continue
            except Exception: continue
            yield rel, p, b
def raw(b):
    # v1 block
    (gc, sc, lc, tc, yc, cc) = struct.unpack('>6l', b[20:44])
    o = 44
    tt = struct.unpack('>%dl'%tc, b[o:o+4*tc]); o += 4*tc
    ix = struct.unpack('>%dB'%tc, b[o:o+tc]); o += tc
    ti = [struct.unpack('>lbb', b[o+6*i:o+6*i+6]) for i in range(yc)]; o += 6*yc
    ab = b[o:o+cc]
    return tt, ix, ti, ab
EPOCH = datetime(1970,1,1)
bad = collections.Counter(); total = 0; badz = collections.defaultdict(list)
nz = 0
distinct = {}
for rel, p, b in zones():
    if b in distinct: continue
    distinct[b] = rel
    nz += 1
    z = tz.tzfile(p)
    tt, ix, ti, ab = raw(b)
    for k, t in enumerate(tt):
        if k == 0: continue
        total += 1
        ok = True
        for d in (-3600*3, -3601,-1800, -1, 0, 1, 1799, 1800, 3599, 3600, 3601, 7199, 7200, 3*3600):
            if k+1 < len(tt) and t + d >= tt[k+1]: continue
            if t + d < tt[k-1]: continue
            u = EPOCH + timedelta(seconds=t+d)
            try:
                loc = u.replace(tzinfo=tz.UTC).astimezone(z)
            except Exception as e:
                ok = False; break
            off = loc.utcoffset()
            true_off = ti[ix[k]][0] if d >= 0 else ti[ix[k-1]][0]
            wall_minus_utc = loc.replace(tzinfo=None) - u
            back = loc.astimezone(tz.UTC).replace(tzinfo=None)
            if off != wall_minus_utc or back != u or off.total_seconds() != true_off:
                ok = False
                if len(badz[rel]) < 2: badz[rel].append((k, t, d, str(loc), loc.fold, str(off), true_off))
                break
        if not ok: bad[rel]+=1
print('zones', nz, 'transitions', total, 'bad transitions', sum(bad.values()), 'bad zones', len(bad))
for z,c in bad.most_common(12): print(z, c, badz[z][:1])
