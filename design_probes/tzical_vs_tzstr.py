import io, collections, random
from datetime import datetime, timedelta
from dateutil import tz
UTC=tz.UTC
def vtz(std_off, dst_off, sm, sw, sd, st_h, em, ew, ed, et_h, first_year=1970):
    def off(o):
        sg='+' if o>=0 else '-'; o=abs(o); return '%s%02d%02d'%(sg,o//3600,o%3600//60)
    WD=['SU','MO','TU','WE','TH','FR','SA']
    def byday(w,d): return '%d%s'%(w if w<5 else -1, WD[d])
    # DTSTART in local time *before* transition
    return f"""BEGIN:VTIMEZONE
TZID:Test
BEGIN:STANDARD
DTSTART:{first_year}0101T{et_h:02d}0000
RRULE:FREQ=YEARLY;BYMONTH={em};BYDAY={byday(ew,ed)}
TZOFFSETFROM:{off(dst_off)}
TZOFFSETTO:{off(std_off)}
TZNAME:SSS
END:STANDARD
BEGIN:DAYLIGHT
DTSTART:{first_year}0101T{st_h:02d}0000
RRULE:FREQ=YEARLY;BYMONTH={sm};BYDAY={byday(sw,sd)}
TZOFFSETFROM:{off(std_off)}
TZOFFSETTO:{off(dst_off)}
TZNAME:DDD
END:DAYLIGHT
END:VTIMEZONE
"""
rnd=random.Random(4)
bad=collections.Counter(); ex={}
for it in range(60):
    south=rnd.random()<.4
    std=rnd.choice([-5,0,1,10])*3600; save=rnd.choice([3600,3600,1800,7200]); dst=std+save
    sm=rnd.choice([9,10,11] if south else [3,4]); em=rnd.choice([3,4] if south else [9,10,11])
    sw=rnd.randint(1,5); ew=rnd.randint(1,5); sd=rnd.randint(0,6); ed=rnd.randint(0,6)
    st=rnd.choice([1,2,3]); et=rnd.choice([2,3,4])
    def offs(o):
        o=-o; sg='-' if o<0 else ''; o=abs(o); h,m=divmod(o//60,60)
        return '%s%d'%(sg,h) if m==0 else '%s%d:%02d'%(sg,h,m)
    s='SSS%sDDD%s,M%d.%d.%d/%d,M%d.%d.%d/%d'%(offs(std),offs(dst),sm,sw,sd,st,em,ew,ed,et)
    zs=tz.tzstr(s)
    zi=tz.tzical(io.StringIO(vtz(std,dst,sm,sw,sd,st,em,ew,ed,et))).get()
    for y in (1985,2020):
        u=datetime(y,1,1,tzinfo=UTC)
        for k in range(0,366*24*2):
            uu=u+timedelta(minutes=30*k)
            a=uu.astimezone(zs); b=uu.astimezone(zi)
            ta=(a.replace(tzinfo=None),a.fold,a.utcoffset(),a.tzname(),a.dst()); tb=(b.replace(tzinfo=None),b.fold,b.utcoffset(),b.tzname(),b.dst())
            if ta!=tb:
                kk=tuple(i for i in range(5) if ta[i]!=tb[i])
                bad[kk]+=1; ex.setdefault(kk,(s,str(uu),ta,tb)); 
        # wall times: every 30 min naive, fold 0/1
        w=datetime(y,1,1)
        for k in range(0,366*24*2):
            ww=w+timedelta(minutes=30*k)
            for f in (0,1):
                a=ww.replace(tzinfo=zs,fold=f); b=ww.replace(tzinfo=zi,fold=f)
                ta=(a.utcoffset(),a.tzname(),a.dst()); tb=(b.utcoffset(),b.tzname(),b.dst())
                if ta!=tb:
                    kk=('wall',f)+tuple(i for i in range(3) if ta[i]!=tb[i]); bad[kk]+=1; ex.setdefault(kk,(s,str(ww),ta,tb))
            ea=tz.datetime_exists(ww,zs), tz.datetime_ambiguous(ww,zs); eb=tz.datetime_exists(ww,zi), tz.datetime_ambiguous(ww,zi)
            if ea!=eb: bad[('ex/amb',ea,eb)]+=1; ex.setdefault(('ex/amb',ea,eb),(s,str(ww)))
print(dict(bad))
for k,v in ex.items(): print(k,v)
