import random, sys, itertools, collections
from rrule_reference import *
rnd = random.Random(int(sys.argv[1]) if len(sys.argv)>1 else 1)
N = int(sys.argv[2]) if len(sys.argv)>2 else 3000
WD = R.weekdays
def gen():
    freq = rnd.choice([R.YEARLY,R.MONTHLY,R.WEEKLY,R.DAILY])
    y = rnd.choice([1996,1997,1999,2000,2003,2004,2008,2009,2010,2015,2020,2021,2024,2026,2032,2100])
    ds = datetime(y, rnd.randint(1,12), rnd.randint(1,28), rnd.randint(0,23), rnd.randint(0,59), rnd.randint(0,59))
    if rnd.random()<0.3: ds = ds.replace(month=rnd.choice([1,12]), day=rnd.choice([1,2,3,28,29,30,31]))
    kw = dict(interval=rnd.choice([1,1,1,2,3,5]), wkst=rnd.randint(0,6))
    def some(pool, kmax=3):
        return rnd.sample(pool, rnd.randint(1,kmax))
    if rnd.random()<0.3: kw['bymonth']=some(list(range(1,13)))
    if rnd.random()<0.25: kw['bymonthday']=some([1,2,15,28,29,30,31,-1,-2,-30,-31])
    if rnd.random()<0.2: kw['byyearday']=some([1,2,59,60,61,100,200,365,366,-1,-2,-365,-366,-306])
    if rnd.random()<0.25: kw['byweekno']=some([1,2,10,26,51,50,-1,-2,-51,-26])
    if rnd.random()<0.4:
        wds=[]
        nth = rnd.random()<0.5
        for _ in range(rnd.randint(1,3)):
            w = rnd.randint(0,6)
            if nth: wds.append(WD[w](rnd.choice([1,2,3,4,5,-1,-2,-5,-4, 6] if freq!=R.YEARLY or 'bymonth' in kw else [1,2,3,4,5,-1,-2,-5,10,52,53,-53,-52])))
            else: wds.append(rnd.choice([w, WD[w]]))
        kw['byweekday']=wds
    if rnd.random()<0.1: kw['byeaster']=some([0,-2,1,-46,49,60,-70, 240] if freq!=R.WEEKLY else [0,-2,1,-46,49,60])
    if rnd.random()<0.2: kw['bysetpos']=some([1,2,3,-1,-2,5,20,-20])
    if rnd.random()<0.15: kw['byhour']=some(list(range(24)))
    if rnd.random()<0.1: kw['byminute']=some(list(range(60)),2)
    return freq, ds, kw
cls = collections.Counter(); shown = collections.Counter()
for it in range(N):
    freq, ds, kw = gen()
    lim = 12
    try:
        rule = R.rrule(freq, dtstart=ds, count=None, **kw)
    except Exception as e:
        cls['ctor-'+type(e).__name__]+=1; continue
    # restrict horizon so that empty rules finish: use until = ds+12 years
    until = ds.replace(year=ds.year+ (25 if freq==R.YEARLY else 6))
    try:
        got = list(itertools.islice(R.rrule(freq, dtstart=ds, until=until, **kw), lim))
    except Exception as e:
        cls['iter-'+type(e).__name__]+=1
        if shown['iter']<5: shown['iter']+=1; print('ITER-EXC', type(e).__name__, e, freq, ds, kw)
        continue
    nr = normalise(freq, ds, until=until, **kw)
    exp = ref(nr, lim)
    if got == exp: cls['ok' if got else 'ok-empty']+=1
    else:
        key = tuple(sorted(k for k in kw if k not in('interval','wkst')))
        cls['DIFF '+str(key)]+=1
        if shown[key]<2:
            shown[key]+=1
            print('DIFF freq',freq,'ds',ds,kw); 
            for a,b in itertools.zip_longest(got,exp):
                if a!=b: print('   first diff got',a,'exp',b); break
for k,v in sorted(cls.items(), key=lambda x:-x[1]): print(v,k)
