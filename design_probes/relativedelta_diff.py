import random, calendar, collections
from datetime import datetime, date, timedelta
from dateutil.relativedelta import relativedelta, weekday, MO
rnd=random.Random(5)
def rdate():
    y=rnd.choice([1,2,4,100,400,1900,1999,2000,2003,2004,2024,9998,9999]); m=rnd.randint(1,12)
    d=rnd.randint(1,calendar.monthrange(y,m)[1])
    if rnd.random()<.4: d=calendar.monthrange(y,m)[1]
    if rnd.random()<.5: return date(y,m,d)
    return datetime(y,m,d,rnd.randint(0,23),rnd.randint(0,59),rnd.randint(0,59),rnd.choice([0,1,999999,rnd.randint(0,999999)]))
# C09
bad=collections.Counter(); ex={}
for i in range(200000):
    a=rdate(); b=rdate()
    try:
        rd=relativedelta(a,b)
    except Exception as e:
        bad['ctor '+type(e).__name__]+=1; ex.setdefault('ctor',(a,b,repr(e))); continue
    try: c=b+rd
    except Exception as e:
        bad['add '+type(e).__name__]+=1; ex.setdefault('add',(a,b,rd,repr(e))); continue
    a2 = a if isinstance(a,datetime) or not isinstance(c,datetime) else datetime.combine(a,datetime.min.time())
    c2 = c if isinstance(c,datetime) or not isinstance(a2,datetime) else datetime.combine(c,datetime.min.time())
    if c2!=a2: bad['inv']+=1; ex.setdefault('inv',(a,b,rd,c))
    if not(abs(rd.months)<12 and abs(rd.hours)<24 and abs(rd.minutes)<60 and abs(rd.seconds)<60 and abs(rd.microseconds)<10**6): bad['norm']+=1
    # sign consistency / largest whole-month shift
    tot = rd.years*12+rd.months
    try:
        sh = b+relativedelta(months=tot); 
        sh2 = b+relativedelta(months=tot+(1 if a>=b else -1)) if True else None
    except Exception: continue
    def lt(x,y):
        if isinstance(x,datetime)!=isinstance(y,datetime):
            x = x if isinstance(x,datetime) else datetime.combine(x,datetime.min.time())
            y = y if isinstance(y,datetime) else datetime.combine(y,datetime.min.time())
        return x<y
    if not lt(b,a) and not lt(a,b):
        if rd: bad['nonempty-equal']+=1; ex.setdefault('ne',(a,b,rd))
    elif lt(b,a):
        if lt(a,sh): bad['overshoot']+=1; ex.setdefault('over',(a,b,rd))
        elif not lt(a,sh2): bad['notlargest']+=1; ex.setdefault('nl',(a,b,rd,sh2))
    else:
        if lt(sh,a): bad['overshoot-']+=1; ex.setdefault('over-',(a,b,rd))
        elif not lt(sh2,a): bad['notlargest-']+=1; ex.setdefault('nl-',(a,b,rd,sh2))
print(dict(bad)); 
for k,v in ex.items(): print(k,v)
