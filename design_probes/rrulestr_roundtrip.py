import random, itertools, collections, warnings, signal
class TO(Exception): pass
def h(*a): raise TO()
signal.signal(signal.SIGALRM,h)
from datetime import datetime, date, timedelta
from dateutil.rrule import *
from dateutil import rrule as R
rnd = random.Random(3)
WD=R.weekdays
cls=collections.Counter(); ex={}
for it in range(3000):
    freq = rnd.randint(0,6)
    y = rnd.choice([1,99,999,1000,1997,2000,2024,9990])
    ds = datetime(y, rnd.randint(1,12), rnd.randint(1,28), rnd.randint(0,23), rnd.randint(0,59), rnd.randint(0,59))
    kw = dict(interval=rnd.choice([1,1,2,3]))
    if rnd.random()<.5: kw['wkst']=rnd.choice([0,1,6,MO,SU,TU])
    def some(pool,k=3): return rnd.sample(pool, rnd.randint(1,k))
    if rnd.random()<0.3: kw['bymonth']=some(list(range(1,13)))
    if rnd.random()<0.25: kw['bymonthday']=some([1,15,28,31,-1,-2])
    if rnd.random()<0.15: kw['byyearday']=some([1,60,100,366,-1,-366])
    if rnd.random()<0.15: kw['byweekno']=some([1,20,53,-1])
    if rnd.random()<0.35:
        kw['byweekday']=[rnd.choice([rnd.randint(0,6), WD[rnd.randint(0,6)], WD[rnd.randint(0,6)](rnd.choice([1,2,-1,-2]))]) for _ in range(rnd.randint(1,3))]
    if rnd.random()<0.1: kw['byeaster']=some([0,1,-2,49])
    if rnd.random()<0.15: kw['bysetpos']=some([1,2,-1,3])
    if rnd.random()<0.15: kw['byhour']=some(list(range(24)))
    if rnd.random()<0.15: kw['byminute']=some(list(range(60)))
    if rnd.random()<0.15: kw['bysecond']=some(list(range(60)))
    r2 = rnd.random()
    if r2<0.4: kw['count']=rnd.randint(0,6)
    elif r2<0.7: kw['until']=ds+timedelta(days=rnd.randint(0,900), seconds=rnd.randint(0,86399))
    signal.setitimer(signal.ITIMER_REAL,0.5)
    try:
        with warnings.catch_warnings():
            warnings.simplefilter('ignore')
            r = rrule(freq, dtstart=ds, **kw)
            a = list(itertools.islice(r, 8))
    except BaseException as e:
        signal.setitimer(signal.ITIMER_REAL,0)
        cls['skip-'+type(e).__name__]+=1; continue
    s = str(r)
    try:
        r2_ = rrulestr(s)
        b = list(itertools.islice(r2_, 8))
        signal.setitimer(signal.ITIMER_REAL,0)
    except BaseException as e:
        signal.setitimer(signal.ITIMER_REAL,0)
        cls['RT-EXC '+type(e).__name__]+=1; ex.setdefault('exc'+type(e).__name__,(s,repr(e),kw)); continue
    if a==b: cls['ok']+=1
    else:
        k='DIFF y<1000' if y<1000 else 'DIFF'
        cls[k]+=1; ex.setdefault(k,(s,a[:2],b[:2]))
for k,v in cls.items(): print(v,k)
for k,v in ex.items(): print(k,v)
