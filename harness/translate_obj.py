#!/usr/bin/env python3
"""
translate_obj.py — Python AST -> Lean 4 for "ObjPy": the DtPy fragment (translate_dt.py) extended to the code that
BUILDS and SELECTS zone objects in tz/tz.py:
    tzical._parse_offset, _tzicalvtz._find_comp / _find_compdt / utcoffset / dst,
    tzstr._delta / tzstr.__init__, tzrange.__init__ / transitions / __eq__.

Added values and types (Lean types in LEAN_TY below)
  CStr            ASCII `str` of the iCalendar code (List Char)         StrLit   a string literal (typed by its use)
  PStr / OptPStr  abbreviations of tzstr/tzrange (String)
  ZComp / OptZComp / ZCompList / OptZCompList   `_tzicalvtzcomp` objects (ICal.ZComp), lists of them
  KeyList         `_cachedate`: list of (naive datetime, fold)          OptDt    datetime or None
  Attr / Res / OptRes   `_tzparser._result` and its `_attr`s            Kw       the `kwargs` dict of `_delta`
  Delta / OptDelta / DArg   relativedelta; the `start`/`end` argument (None | False | relativedelta)
  Zone            a finished tzrange/tzstr (TzStr.Zone)                 Jan1 / OrdSec  `datetime(year,1,1)`, a datetime in
                                                                                 seconds since ordinal 0
Added expressions: string literals, `s.strip()`, `s[i]`, `s[a:]`, `s[:b]`, `s[a:b]` (non-negative literal bounds),
`len(s)`, `int(s)` (ValueError), `x in (a, b)`, `(a, b)[cond]`, unary `+`, attributes of the objects above,
`comp.rrule.before(dt, inc=True)`, `l.index(x)` (ValueError), `None < dt` (TypeError), `relativedelta.weekday(a, b)`,
`relativedelta.SU(n)`, `relativedelta.relativedelta(**kwargs | k=v, …)`, `datetime.timedelta(seconds=e)` WITH its
OverflowError, `timedelta(hours=n)`, `td.seconds`, `td.days`, `datetime.datetime(year, 1, 1)`, `datetime + relativedelta`,
`parser._parsetz(s)`, `isinstance(other, tzrange)` (True), `bool(x)`, truthiness of all of the above.
Added statements: `for x in <list>:` with `break` / `else` (a monadic fold carrying the assigned names and a
"broken" flag), `with self._cache_lock:` (transparent), `l.insert(0, x)` / `l.append(x)` / `l.pop()` / `l.pop(0)` on
cache lists held in `self` (state threaded through the function and returned with its result), `self.X = e`
in a constructor (the object is the tuple of its declared fields), `kwargs[k] = e`, `kwargs[k] -= e`,
`res.stdoffset *= -1`, `try: with …: return … except ValueError: pass`, `try: x = x.total_seconds() except
(TypeError, AttributeError): pass` on an int-or-None argument (statically the handler), `global` / `import` (skipped),
a call of the base-class constructor `tzrange.__init__(self, …)`.
"""
import ast, os, hashlib
from translate import Untranslatable, find_function
import translate_bytes as TB
import translate_dt as TD

TB.LEAN_TY.update({
    "CStr": "List Char", "PStr": "String", "OptPStr": "Option String",
    "ZComp": "ICal.ZComp", "OptZComp": "Option ICal.ZComp", "ZCompList": "List ICal.ZComp",
    "OptZCompList": "List (Option ICal.ZComp)", "KeyList": "List (DtPy.Dt × Int)", "OptDt": "Option DtPy.Dt",
    "Onsets": "List Int", "Attr": "TzStr.Attr", "Res": "TzStr.Res", "OptRes": "Option TzStr.Res", "Kw": "ObjPy.Kw",
    "KwWd": "(Option Int × Option Int)", "Delta": "TzStr.Delta", "OptDelta": "Option TzStr.Delta",
    "DArg": "ObjPy.DArg", "Zone": "TzStr.Zone", "Jan1": "Int", "OrdSec": "Int", "OptOrdPair": "Option (Int × Int)",
    "StrList": "List (List UInt8)", "OptCStr": "Option (List Char)", "NameFn": "ICal.ZComp → Option (List Char)",
})
TB.DEFAULT.update({"CStr": "[]", "Kw": "{}", "OptZComp": "none", "OptDt": "none", "DArg": "ObjPy.DArg.none",
                   "OptPStr": "none", "OptDelta": "none", "Res": "default"})
TD.NARROW.update({"OptRes": "Res"})

ELEM = {"StrList": "Str", "ZCompList": "ZComp", "OptZCompList": "OptZComp", "KeyList": ("Dt", "Int")}
OPT = {"ZComp": "OptZComp", "Dt": "OptDt", "Int": "OptInt", "PStr": "OptPStr", "Delta": "OptDelta", "Res": "OptRes"}

# attributes of typed objects: type -> attr -> (template, type)
OBJ_ATTRS = {
    "ZComp": {"tzoffsetfrom": ("(DtPy.tdSeconds %s.tzoffsetfrom)", "TD"), "tzoffsetto": ("(DtPy.tdSeconds %s.tzoffsetto)", "TD"),
              "tzoffsetdiff": ("(DtPy.tdSeconds %s.diff)", "TD"), "isdst": ("%s.isdst", "Bool"), "rrule": ("%s.onsets", "Onsets")},
    "Attr": {k: ("%%s.%s" % k, "OptInt") for k in ("month", "week", "weekday", "yday", "jyday", "day", "time")},
    "Res": {"stdabbr": ("%s.stdabbr", "OptPStr"), "stdoffset": ("%s.stdoffset", "OptInt"), "dstabbr": ("%s.dstabbr", "OptPStr"),
            "dstoffset": ("%s.dstoffset", "OptInt"), "start": ("%s.start", "Attr"), "end": ("%s.«end»", "Attr"),
            "any_unused_tokens": ("%s.anyUnused", "Bool")},
    "TD": {"seconds": ("(ObjPy.tdFieldSeconds %s)", "Int"), "days": ("(ObjPy.tdFieldDays %s)", "Int")},
    "Zone": {"_std_abbr": ("%s.stdAbbr", "OptPStr"), "_dst_abbr": ("%s.dstAbbr", "OptPStr"),
             "_std_offset": ("(DtPy.tdSeconds %s.stdOff)", "TD"), "_dst_offset": ("(DtPy.tdSeconds %s.dstOff)", "TD"),
             "_start_delta": ("%s.start", "OptDelta"), "_end_delta": ("%s.«end»", "OptDelta"), "hasdst": ("%s.hasdst", "Bool")},
}
KW_KEYS = {"month", "day", "weekday", "yearday", "nlyearday", "seconds", "hours"}
WEEKDAYS = {"MO": 0, "TU": 1, "WE": 2, "TH": 3, "FR": 4, "SA": 5, "SU": 6}


def unkw(n):
    return n[:-1] if n.endswith("_") and n[:-1] in TD.LEAN_KEYWORDS else n


class OFn(TD.DFn):
    def __init__(self, qualname, leanname, params, ret, self_type=None, self_attrs=None, state=None, ctor=False,
                 locals=None, ignore=(), extern=False, closure=None):
        TD.DFn.__init__(self, qualname, leanname, params, ret, self_type)
        self.closure = closure                     # free variable bound by the enclosing decorator: the wrapped method
        self.extern = extern                       # translated elsewhere (Generated/TzKernels.lean): only called here
        self.self_attrs = dict(self_attrs or {})   # read-only attributes passed as parameters self_<attr>
        self.state = list(state or [])             # mutable attributes: threaded through and returned
        self.ctor = ctor                           # constructor: the result is the tuple of `state`
        self.locals = dict(locals or {})           # declared types of locals first bound to None
        self.ignore = set(ignore)                  # attributes assigned but not part of the model


def char_lit(c):
    if 32 <= ord(c) < 127 and c not in "'\\":
        return "'%s'" % c
    return "(Char.ofNat %d)" % ord(c)


class OTr(TD.DTr):
    def __init__(self, tree, specs, spec):
        TD.DTr.__init__(self, tree, specs, spec)
        for a, t in spec.state:
            self.types["self_" + a] = t
        self.state_names = ["self_" + a for a, _ in spec.state]

    # ------------------------------------------------------------------ values
    def coerce(self, t, ty, want):
        if ty == want: return t
        if ty == "StrLit":
            if want == "CStr": return "[" + ", ".join(char_lit(c) for c in t) + "]"
            if want == "PStr": return '"%s"' % t
            if want == "OptPStr": return '(some "%s")' % t
            raise Untranslatable("string literal where %s is expected" % (want,))
        if isinstance(ty, str) and OPT.get(ty) == want: return "(some %s)" % t
        if want == "DArg":
            if ty == "Delta": return "(ObjPy.DArg.delta %s)" % t
            if ty == "None": return "ObjPy.DArg.none"
            if ty == "Bool" and t == "false": return "ObjPy.DArg.false_"
        if want == "OptOrdPair" and ty == ("OrdSec", "OrdSec"): return "(some %s)" % t
        if want == "OptInt" and ty == "Bool":
            raise Untranslatable("bool where an int-or-None is expected")
        return TD.DTr.coerce(self, t, ty, want)

    def state_tuple(self, val=None):
        parts = ([val] if val is not None else []) + self.state_names
        return parts[0] if len(parts) == 1 else "(" + ", ".join(parts) + ")"

    def expr(self, e):
        if isinstance(e, ast.Constant) and isinstance(e.value, str):
            if '"' in e.value or "\\" in e.value: raise Untranslatable("string literal %r" % e.value)
            return [], e.value, "StrLit"
        if isinstance(e, ast.UnaryOp) and isinstance(e.op, ast.UAdd):
            return self.expr(e.operand)
        if isinstance(e, ast.Attribute) and isinstance(e.value, ast.Name) and e.value.id == "time" and e.attr == "timezone" \
                and self.spec.self_type == "TZ.RangeZone":
            return [], "(ObjPy.timeTimezone self)", "Int"
        if isinstance(e, ast.Attribute) and e.attr == "tm_isdst" and isinstance(e.value, ast.Call) \
                and isinstance(e.value.func, ast.Attribute) and isinstance(e.value.func.value, ast.Name) \
                and e.value.func.value.id == "time" and e.value.func.attr == "localtime" and len(e.value.args) == 1 \
                and self.spec.self_type == "TZ.RangeZone":
            b, t, ty = self.expr(e.value.args[0])
            return b, "(ObjPy.localtimeIsdst self %s)" % self.coerce(t, ty, "Ts"), "Int"
        if isinstance(e, ast.Dict) and not e.keys:
            return [], "({} : ObjPy.Kw)", "Kw"
        if self.self_attr(e) and ("self_" + e.attr) in self.types:
            return [], "self_" + e.attr, self.types["self_" + e.attr]
        if isinstance(e, ast.Attribute) and not self.self_attr(e):
            b, t, ty = self.expr(e.value)
            if ty == "OptZComp":          # attribute of a possibly-None component: AttributeError
                n = self.fresh()
                b, t, ty = b + [(n, "DtPy.attr %s" % t, "ZComp")], n, "ZComp"
            if ty == "ZComp" and e.attr == "tzname" and self.types.get("self_tzname_of") == "NameFn":
                # the TZNAME of a component object: an uninterpreted field of the object (ICal.ZComp carries none)
                return b, "(self_tzname_of %s)" % t, "OptCStr"
            if ty in OBJ_ATTRS and e.attr in OBJ_ATTRS[ty]:
                tmpl, rty = OBJ_ATTRS[ty][e.attr]
                return b, tmpl % t, rty
            if ty in OBJ_ATTRS:
                raise Untranslatable("attribute .%s on %s" % (e.attr, ty))
        return TD.DTr.expr(self, e)

    def binop(self, e):
        bl, l, tl = self.expr(e.left)
        br, r, tr = self.expr(e.right)
        if {tl, tr} == {"Ts", "Int"} and isinstance(e.op, ast.Add):       # float timestamp + int seconds
            return bl + br, "(%s + %s)" % (self.coerce(l, tl, "Ts"), self.coerce(r, tr, "Ts")), "Ts"
        if tl == "Jan1" and tr in ("OptDelta", "Delta") and isinstance(e.op, ast.Add):
            n = self.fresh()
            return bl + br + [(n, "ObjPy.jan1Add %s %s" % (l, self.coerce(r, tr, "OptDelta")), "OrdSec")], n, "OrdSec"
        return TD.DTr.binop(self, e)

    def subscript(self, e):
        sl = e.slice
        # (a, b)[cond]
        if isinstance(e.value, ast.Tuple) and not isinstance(sl, ast.Slice):
            binds, parts = [], []
            for el in e.value.elts:
                b, t, ty = self.expr(el)
                if ty != "Int": raise Untranslatable("tuple of %s indexed" % ty)
                binds += b; parts.append(t)
            bi, i, ti = self.expr(sl)
            n = self.fresh()
            return binds + bi + [(n, "DtPy.lgetR [%s] %s" % (", ".join(parts), self.coerce(i, ti, "Int")), "Int")], n, "Int"
        b, t, ty = self.expr(e.value)
        if ty == "CStr":
            if isinstance(sl, ast.Slice):
                def bound(x):
                    if x is None: return None
                    if isinstance(x, ast.Constant) and isinstance(x.value, int) and x.value >= 0 and x.value is not True \
                            and x.value is not False:
                        return x.value
                    raise Untranslatable("slice bound that is not a non-negative literal")
                if sl.step is not None: raise Untranslatable("slice step")
                lo, hi = bound(sl.lower), bound(sl.upper)
                if hi is not None: t = "(%s.take %d)" % (t, hi)
                if lo: t = "(%s.drop %d)" % (t, lo)
                return b, t, "CStr"
            bi, i, ti = self.expr(sl)
            n = self.fresh()
            return b + bi + [(n, "ObjPy.sget %s %s" % (t, self.coerce(i, ti, "Int")), "CStr")], n, "CStr"
        if ty in ELEM and not isinstance(sl, ast.Slice):
            bi, i, ti = self.expr(sl)
            n = self.fresh()
            return b + bi + [(n, "DtPy.lgetR %s %s" % (t, self.coerce(i, ti, "Int")), ELEM[ty])], n, ELEM[ty]
        return TD.DTr.subscript(self, e)

    def kw_value(self, v):
        b, t, ty = self.expr(v)
        if ty == "Int": return b, "(some (some %s))" % t
        if ty == "OptInt": return b, "(some %s)" % t
        if ty == "KwWd": return b, "(some %s)" % t
        raise Untranslatable("relativedelta keyword value of type %s" % (ty,))

    def call(self, e):
        f = e.func
        if isinstance(f, ast.Name):
            if self.spec.closure and f.id == self.spec.closure and len(e.args) == 2 and isinstance(e.args[0], ast.Name) \
                    and e.args[0].id == "self" and not e.keywords:         # the wrapped method: f(self, dt)
                b, t, ty = self.expr(e.args[1])
                if ty != "Dt": raise Untranslatable("wrapped method applied to %s" % ty)
                n = self.fresh()
                return b + [(n, "%s %s" % (f.id, t), self.spec.ret)], n, self.spec.ret
            if f.id == "len" and len(e.args) == 1:
                b, t, ty = self.expr(e.args[0])
                if ty == "CStr" or ty in ELEM: return b, "((%s).length : Int)" % t, "Int"
            if f.id == "int" and len(e.args) == 1:
                b, t, ty = self.expr(e.args[0])
                if ty == "CStr":
                    n = self.fresh()
                    return b + [(n, "ObjPy.pyInt %s" % t, "Int")], n, "Int"
            if f.id == "getattr" and len(e.args) == 3 and isinstance(e.args[1], ast.Constant) and e.args[1].value == "fold" \
                    and isinstance(e.args[2], ast.Constant) and e.args[2].value is None:
                b, t, ty = self.expr(e.args[0])
                if ty == "Dt": return b, "(some (DtPy.foldOf %s))" % t, "OptInt"      # datetimes always have `fold` (Python >= 3.6)
            if f.id == "isinstance" and len(e.args) == 2:
                b, t, ty = self.expr(e.args[0])
                if ty == "Zone" and isinstance(e.args[1], ast.Name) and e.args[1].id == "tzrange":
                    return b, "true", "Bool"
        if isinstance(f, ast.Attribute):
            v = f.value
            mod = v.id if isinstance(v, ast.Name) else None
            if mod == "relativedelta":
                if f.attr == "weekday" and len(e.args) == 2 and not e.keywords:
                    ba, a, ta = self.expr(e.args[0]); bn, n_, tn = self.expr(e.args[1])
                    return ba + bn, "(%s, %s)" % (self.coerce(a, ta, "OptInt"), self.coerce(n_, tn, "OptInt")), "KwWd"
                if f.attr in WEEKDAYS and len(e.args) == 1 and not e.keywords:
                    bn, n_, tn = self.expr(e.args[0])
                    return bn, "(some %d, %s)" % (WEEKDAYS[f.attr], self.coerce(n_, tn, "OptInt")), "KwWd"
                if f.attr == "relativedelta" and not e.args:
                    n = self.fresh()
                    if len(e.keywords) == 1 and e.keywords[0].arg is None:       # **kwargs
                        b, t, ty = self.expr(e.keywords[0].value)
                        if ty != "Kw": raise Untranslatable("relativedelta(**%s)" % ty)
                        return b + [(n, "ObjPy.relativedelta %s" % t, "Delta")], n, "Delta"
                    binds, fields = [], []
                    for kw in e.keywords:
                        if kw.arg not in KW_KEYS: raise Untranslatable("relativedelta keyword %s" % kw.arg)
                        b, t = self.kw_value(kw.value)
                        binds += b; fields.append("%s := %s" % (kw.arg, t))
                    return binds + [(n, "ObjPy.relativedelta { %s }" % ", ".join(fields), "Delta")], n, "Delta"
            if mod == "datetime" and f.attr == "timedelta" and not e.args and len(e.keywords) == 1:
                kw = e.keywords[0]
                b, t, ty = self.expr(kw.value)
                if kw.arg == "seconds":
                    if ty == "OptInt":        # timedelta(seconds=None): TypeError
                        m = self.fresh()
                        b, t, ty = b + [(m, "ObjPy.needInt %s" % t, "Int")], m, "Int"
                    n = self.fresh()
                    return b + [(n, "ObjPy.tdOfSeconds %s" % self.coerce(t, ty, "Int"), "TD")], n, "TD"
                if kw.arg == "hours" and isinstance(kw.value, (ast.Constant, ast.UnaryOp)) and not b and ty == "Int":
                    return [], "(%s * 3600 * DtPy.M)" % t, "TD"
                raise Untranslatable("timedelta(%s=...)" % kw.arg)
            if mod == "datetime" and f.attr == "datetime" and len(e.args) == 3 and not e.keywords \
                    and all(isinstance(a, ast.Constant) and a.value == 1 for a in e.args[1:]):
                b, t, ty = self.expr(e.args[0])
                n = self.fresh()
                return b + [(n, "ObjPy.jan1 %s" % self.coerce(t, ty, "Int"), "Jan1")], n, "Jan1"
            if mod == "parser" and f.attr == "_parsetz" and len(e.args) == 1:
                b, t, ty = self.expr(e.args[0])
                n = self.fresh()
                return b + [(n, "TzStr.parse %s" % self.coerce(t, ty, "PStr"), "OptRes")], n, "OptRes"
            if f.attr == "strip" and not e.args:
                b, t, ty = self.expr(v)
                if ty == "CStr": return b, "(ICal.strip %s)" % t, "CStr"
            if f.attr == "before" and len(e.args) == 1 and len(e.keywords) == 1 and e.keywords[0].arg == "inc" \
                    and isinstance(e.keywords[0].value, ast.Constant) and e.keywords[0].value.value is True:
                b, t, ty = self.expr(v)
                bd, d, td = self.expr(e.args[0])
                if ty == "Onsets" and td == "Dt":
                    return b + bd, "(ObjPy.rruleBefore %s %s)" % (t, d), "OptDt"
            if f.attr == "index" and len(e.args) == 1:
                b, t, ty = self.expr(v)
                bx, x, tx = self.expr(e.args[0])
                if ty == "KeyList" and tx == ("Dt", "Int"):
                    n = self.fresh()
                    return b + bx + [(n, "ObjPy.index %s %s" % (t, x), "Int")], n, "Int"
        return TD.DTr.call(self, e)

    def user_call(self, sp, e, with_self=True):
        fn = find_function(getattr(sp, "tree", self.tree), sp.qualname)
        formals = [unkw(a.arg) for a in fn.args.args if a.arg != "self"]
        defaults = fn.args.defaults
        actual = list(e.args)
        if getattr(sp, "ctor", False):
            actual = actual[1:]          # tzrange.__init__(self, …)
        for kw in e.keywords:
            if kw.arg is None or kw.arg not in formals or formals.index(kw.arg) < len(actual):
                raise Untranslatable("keyword arguments in call to %s" % sp.qualname)
            while len(actual) < formals.index(kw.arg):        # fill skipped defaults
                k = len(actual) - (len(formals) - len(defaults))
                if k < 0: raise Untranslatable("arity of %s" % sp.qualname)
                actual.append(defaults[k])
            actual.append(kw.value)
        if len(actual) < len(formals):
            missing = len(formals) - len(actual)
            if missing > len(defaults): raise Untranslatable("arity of %s" % sp.qualname)
            actual += defaults[len(defaults) - missing:]
        binds, args = [], []
        for a, (pn, pt) in zip(actual, sp.params):
            b, t, ty = self.expr(a)
            binds += b
            args.append(self.coerce(t, ty, pt))
        n = self.fresh()
        head = sp.leanname + (" self" if sp.self_type else "")
        extra = ["self_" + a for a in getattr(sp, "self_attrs", {})]
        state = [] if getattr(sp, "ctor", False) else ["self_" + a for a, _ in getattr(sp, "state", [])]
        for x in extra + state:
            if x not in self.types: raise Untranslatable("call of %s needs self.%s" % (sp.qualname, x[5:]))
        call = " ".join([head] + extra + state + args)
        st = getattr(sp, "state", [])
        if st:
            names = ["self_" + a for a, _ in st]
            for (a, t) in st: self.types["self_" + a] = t
            pat = "(" + ", ".join(names if sp.ctor else [n] + names) + ")"
            return binds + [(pat, call, sp.ret)], n, sp.ret
        return binds + [(n, call, sp.ret)], n, sp.ret

    # ------------------------------------------------------------------ conditions
    def truth(self, b, t, ty):
        if ty in ("CStr",) or ty in ELEM: return b, "(%s ≠ [])" % t
        if ty in ("OptZComp", "OptDt", "OptDelta", "OptRes"): return b, "(%s ≠ none)" % t
        if ty == "OptInt": return b, "(ObjPy.optIntTruthy %s = true)" % t
        if ty == "OptPStr": return b, "(ObjPy.strTruthy %s = true)" % t
        if ty == "DArg": return b, "(ObjPy.DArg.truthy %s = true)" % t
        if ty == "Kw": return b, "(%s ≠ {})" % t
        if ty == "Delta": return b, "(TzStr.Delta.truthy %s = true)" % t
        return None

    def cond(self, e, allow_rbool=True):
        if allow_rbool and self.needs_rbool(e):
            return TD.DTr.cond(self, e, allow_rbool)
        if isinstance(e, ast.Call) and isinstance(e.func, ast.Name) and e.func.id == "isinstance":
            b, t, ty = self.expr(e)
            if not b and t == "true": return [], "True"
        if isinstance(e, ast.Compare) and len(e.ops) == 1:
            op, right = e.ops[0], e.comparators[0]
            if isinstance(op, (ast.In, ast.NotIn)) and isinstance(right, ast.Tuple):
                bl, l, tl = self.expr(e.left)
                binds, parts = list(bl), []
                for el in right.elts:
                    br, r, tr = self.expr(el)
                    binds += br
                    parts.append("%s = %s" % (l, self.coerce(r, tr, tl)))
                c = "(" + " ∨ ".join(parts) + ")"
                return binds, c if isinstance(op, ast.In) else "(¬ %s)" % c
            if isinstance(op, (ast.Is, ast.IsNot)) and isinstance(right, ast.Constant) and right.value is None:
                bl, l, tl = self.expr(e.left)
                if tl == "DArg":
                    return bl, "(%s %s ObjPy.DArg.none)" % (l, "≠" if isinstance(op, ast.IsNot) else "=")
            sym = {ast.Lt: "<", ast.LtE: "≤", ast.Gt: ">", ast.GtE: "≥", ast.Eq: "=", ast.NotEq: "≠"}.get(type(op))
            if sym is not None:
                bl, l, tl = self.expr(e.left)
                br, r, tr = self.expr(right)
                binds = bl + br
                if "StrLit" in (tl, tr) or (tl == tr and tl in ("CStr", "OptPStr", "PStr")):
                    if sym not in ("=", "≠"): raise Untranslatable("ordering of strings")
                    other = tr if tl == "StrLit" else tl
                    return binds, "(%s %s %s)" % (self.coerce(l, tl, other), sym, self.coerce(r, tr, other))
                if tl == tr == "OptDelta" and sym in ("=", "≠"):        # relativedelta.__eq__
                    return binds, "(TzStr.optDeltaEq %s %s %s true)" % (l, r, sym)
                if {tl, tr} <= {"OptDt", "Dt"} and "OptDt" in (tl, tr) and sym in ("<", "≤", ">", "≥"):
                    if tl == "OptDt":
                        n = self.fresh(); binds = binds + [(n, "ObjPy.cmpDt %s" % l, "Dt")]; l = n
                    if tr == "OptDt":
                        n = self.fresh(); binds = binds + [(n, "ObjPy.cmpDt %s" % r, "Dt")]; r = n
                    return binds, "(%s.us %s %s.us)" % (l, sym, r)
                if {tl, tr} == {"OptInt", "Int"} and sym in ("<", "≤", ">", "≥"):
                    if tl == "OptInt":
                        n = self.fresh(); binds = binds + [(n, "ObjPy.needInt %s" % l, "Int")]; l = n
                    else:
                        n = self.fresh(); binds = binds + [(n, "ObjPy.needInt %s" % r, "Int")]; r = n
                    return binds, "(%s %s %s)" % (l, sym, r)
        if not isinstance(e, (ast.BoolOp, ast.Compare)) and not (isinstance(e, ast.UnaryOp) and isinstance(e.op, ast.Not)):
            b, t, ty = self.expr(e)
            r = self.truth(b, t, ty)
            if r is not None: return r
            if ty == "Bool": return b, "(%s = true)" % t
            if ty in ("Int", "TD"): return b, "(%s ≠ 0)" % t
        return TD.DTr.cond(self, e, allow_rbool)

    def static_cond(self, t):
        r = TD.DTr.static_cond(self, t)
        if r is not None: return r
        try:
            saved, tmp = dict(self.types), self.tmp
            b, c = self.cond(t)
            self.types, self.tmp = saved, tmp
        except Untranslatable:
            return None
        c = c.replace("(", "").replace(")", "").strip()
        if not b and "False" in [x.strip() for x in c.split(" ∧ ")] and " ∨ " not in c: return False
        if not b and c == "¬ True": return False
        if not b and c == "¬ False": return True
        return None

    # ------------------------------------------------------------------ statements
    def is_mutator(self, s):
        """`self.<state list>.insert(0, x) | append(x) | pop() | pop(0)` -> (var, method, args)"""
        if isinstance(s, ast.Expr) and isinstance(s.value, ast.Call) and isinstance(s.value.func, ast.Attribute) \
                and self.self_attr(s.value.func.value) and ("self_" + s.value.func.value.attr) in self.state_names:
            return "self_" + s.value.func.value.attr, s.value.func.attr, s.value.args
        return None

    def assigned(self, stmts):
        out = []
        def add(n):
            if n not in out: out.append(n)
        def target(t):
            if isinstance(t, ast.Name): add(t.id)
            elif isinstance(t, ast.Tuple):
                for el in t.elts: target(el)
            elif self.self_attr(t): add("self_" + t.attr)
            elif isinstance(t, (ast.Subscript, ast.Attribute)) and isinstance(t.value, ast.Name): add(t.value.id)
            else: raise Untranslatable("assignment target")
        for s in stmts:
            if isinstance(s, ast.Assign):
                for t in s.targets: target(t)
            elif isinstance(s, ast.AugAssign):
                target(s.target)
            elif isinstance(s, ast.If):
                for n in self.assigned(s.body) + self.assigned(s.orelse): add(n)
            elif isinstance(s, (ast.For, ast.While)):
                for n in self.assigned(s.body) + self.assigned(s.orelse): add(n)
            elif isinstance(s, ast.With):
                for n in self.assigned(s.body): add(n)
            elif isinstance(s, ast.Try):
                for n in self.assigned(s.body): add(n)
                for h in s.handlers:
                    for n in self.assigned(h.body): add(n)
            elif isinstance(s, ast.Expr) and isinstance(s.value, ast.Call):
                m = self.is_mutator(s)
                if m: add(m[0])
                f = s.value.func
                if isinstance(f, ast.Attribute) and f.attr == "__init__":     # base-class constructor: sets every field
                    sp = self.ctor_spec(s.value)
                    for a, _ in sp.state: add("self_" + a)
        return out

    def has_escape(self, stmts):
        def walk(n, in_loop):
            if isinstance(n, ast.Return): return True
            if isinstance(n, (ast.Break, ast.Continue)) and not in_loop: return True
            inl = in_loop or isinstance(n, (ast.For, ast.While))
            return any(walk(c, inl) for c in ast.iter_child_nodes(n))
        return any(walk(s, False) for s in stmts)

    def names_read(self, nodes):
        out = TB.BTr.names_read(self, nodes)
        for s in nodes:
            for n in ast.walk(s):
                if self.self_attr(n) and ("self_" + n.attr) in self.types: out.add("self_" + n.attr)
        return out | set(self.state_names)      # the state is part of every result

    def ctor_spec(self, call):
        f = call.func
        if isinstance(f.value, ast.Name):
            for sp in self.all_specs:
                if sp.qualname == "%s.__init__" % f.value.id: return sp
        raise Untranslatable("constructor call")

    def block(self, stmts, k, ind):
        pad = "  " * ind
        if not stmts and k is None and self.spec.ctor:
            return "%s.ok %s" % (pad, self.state_tuple())
        if stmts:
            s, rest = stmts[0], stmts[1:]
            if isinstance(s, (ast.Global, ast.Import, ast.ImportFrom, ast.Pass)):
                return self.block(rest, k, ind)
            if isinstance(s, ast.With):
                if len(s.items) != 1 or not self.self_attr(s.items[0].context_expr) \
                        or not s.items[0].context_expr.attr.endswith("_lock") or s.items[0].optional_vars is not None:
                    raise Untranslatable("with statement")
                return self.block(list(s.body) + rest, k, ind)
            if isinstance(s, ast.For):
                return self.for_stmt(s, rest, k, ind)
            if isinstance(s, ast.Return) and (self.spec.state or self.spec.ret in ("OptOrdPair",)):
                if self.loop is not None: raise Untranslatable("return inside a loop")
                if s.value is None: raise Untranslatable("bare return")
                b, t, ty = self.expr(s.value)
                val = self.coerce(t, ty, self.spec.ret)
                return self.wrap(b, pad, "%s.ok %s" % (pad, self.state_tuple(val) if self.spec.state else val))
            m = self.is_mutator(s)
            if m:
                var, meth, args = m
                if meth == "insert" and len(args) == 2 and isinstance(args[0], ast.Constant) and args[0].value == 0:
                    b, t, ty = self.expr(args[1])
                    return self.wrap(b, pad, "%slet %s := (%s :: %s)\n%s" % (
                        pad, var, self.coerce(t, ty, ELEM[self.types[var]]), var, self.block(rest, k, ind)))
                if meth == "append" and len(args) == 1:
                    b, t, ty = self.expr(args[0])
                    return self.wrap(b, pad, "%slet %s := (%s ++ [%s])\n%s" % (
                        pad, var, var, self.coerce(t, ty, ELEM[self.types[var]]), self.block(rest, k, ind)))
                if meth == "pop" and not args:
                    return "%sExcept.bind (ObjPy.pop %s) fun %s =>\n%s" % (pad, var, var, self.block(rest, k, ind))
                if meth == "pop" and len(args) == 1 and isinstance(args[0], ast.Constant) and args[0].value == 0:
                    return "%sExcept.bind (ObjPy.pop0 %s) fun %s =>\n%s" % (pad, var, var, self.block(rest, k, ind))
                raise Untranslatable("list method .%s" % meth)
            if isinstance(s, ast.Expr) and isinstance(s.value, ast.Call) and isinstance(s.value.func, ast.Attribute) \
                    and s.value.func.attr == "__init__":
                sp = self.ctor_spec(s.value)
                b, t, ty = self.user_call(sp, s.value)
                return self.wrap(b, pad, self.block(rest, k, ind))
            if isinstance(s, ast.Assign) and len(s.targets) == 1:
                tg = s.targets[0]
                if self.self_attr(tg):
                    if tg.attr in self.spec.ignore: return self.block(rest, k, ind)
                    if ("self_" + tg.attr) not in self.state_names: raise Untranslatable("assignment to self.%s" % tg.attr)
                    tg = ast.Name(id="self_" + tg.attr)
                if isinstance(tg, ast.Name):
                    b, v, ty = self.expr(s.value)
                    want = self.types.get(tg.id) or self.spec.locals.get(tg.id)
                    if want is None:
                        if ty in ("None", "StrLit"): raise Untranslatable("cannot type %s" % tg.id)
                        want = ty
                    cv = self.coerce(v, ty, want)
                    if ty == "None": cv = "(%s : %s)" % (cv, TB.lean_ty(want))
                    self.types[tg.id] = want
                    if b and b[-1][0] == v and cv == v:
                        inner = "%sExcept.bind (%s) fun %s =>\n%s" % (pad, b[-1][1], tg.id, self.block(rest, k, ind))
                        return self.wrap(b[:-1], pad, inner)
                    return self.wrap(b, pad, "%slet %s := %s\n%s" % (pad, tg.id, cv, self.block(rest, k, ind)))
                if isinstance(tg, ast.Subscript) and isinstance(tg.value, ast.Name) and self.types.get(tg.value.id) == "Kw" \
                        and isinstance(tg.slice, ast.Constant) and isinstance(tg.slice.value, str):
                    key = tg.slice.value
                    if key not in KW_KEYS: raise Untranslatable("relativedelta keyword %s" % key)
                    b, v = self.kw_value(s.value)
                    d = tg.value.id
                    return self.wrap(b, pad, "%slet %s := { %s with %s := %s }\n%s" % (pad, d, d, key, v, self.block(rest, k, ind)))
            if isinstance(s, ast.AugAssign):
                tg = s.target
                if isinstance(tg, ast.Subscript) and isinstance(tg.value, ast.Name) and self.types.get(tg.value.id) == "Kw" \
                        and isinstance(tg.slice, ast.Constant) and tg.slice.value in KW_KEYS and isinstance(s.op, (ast.Sub, ast.Add)):
                    d, key = tg.value.id, tg.slice.value
                    n = self.fresh()
                    b, v, ty = self.expr(s.value)
                    if ty != "Int": raise Untranslatable("kwargs[%s] -= %s" % (key, ty))
                    sym = "-" if isinstance(s.op, ast.Sub) else "+"
                    return self.wrap([(n, "ObjPy.kwGetInt %s.%s" % (d, key), "Int")] + b, pad,
                                     "%slet %s := { %s with %s := (some (some (%s %s %s))) }\n%s" % (
                                         pad, d, d, key, n, sym, v, self.block(rest, k, ind)))
                if isinstance(tg, ast.Attribute) and isinstance(tg.value, ast.Name) and self.types.get(tg.value.id) == "Res" \
                        and OBJ_ATTRS["Res"].get(tg.attr, (None, None))[1] == "OptInt" and isinstance(s.op, ast.Mult):
                    d = tg.value.id
                    n = self.fresh()
                    b, v, ty = self.expr(s.value)
                    if ty != "Int": raise Untranslatable("%s.%s *= %s" % (d, tg.attr, ty))
                    return self.wrap([(n, "ObjPy.needInt %s.%s" % (d, tg.attr), "Int")] + b, pad,
                                     "%slet %s := { %s with %s := (some (%s * %s)) }\n%s" % (
                                         pad, d, d, tg.attr, n, v, self.block(rest, k, ind)))
        return TD.DTr.block(self, stmts, k, ind)

    def try_stmt(self, s, rest, k, ind):
        pad = "  " * ind
        if len(s.handlers) == 1 and not s.orelse and not s.finalbody and len(s.body) == 1 \
                and len(s.handlers[0].body) == 1 and isinstance(s.handlers[0].body[0], ast.Pass):
            h, body = s.handlers[0], s.body[0]
            kinds = [x.id for x in (h.type.elts if isinstance(h.type, ast.Tuple) else [h.type]) if isinstance(x, ast.Name)]
            # `x = x.total_seconds()` on an int-or-None argument: AttributeError, and the handler passes
            if isinstance(body, ast.Assign) and isinstance(body.value, ast.Call) and isinstance(body.value.func, ast.Attribute) \
                    and body.value.func.attr == "total_seconds" and isinstance(body.value.func.value, ast.Name) \
                    and self.types.get(body.value.func.value.id) in ("Int", "OptInt") and "AttributeError" in kinds:
                return self.block(rest, k, ind)
            while isinstance(body, ast.With) and len(body.body) == 1:
                self.block([ast.With(items=body.items, body=[ast.Pass()])], ("join", []), ind)     # checks the lock shape
                body = body.body[0]
            if isinstance(body, ast.Return) and kinds == ["ValueError"] and k is None:
                saved = dict(self.types)
                a = self.block([body], None, ind + 1)
                self.types = dict(saved)
                hb = self.block(rest, k, ind + 1)
                return "%sObjPy.tryExcept (\n%s) .ValueError (\n%s)" % (pad, a, hb)
        raise Untranslatable("try statement shape")

    def for_stmt(self, s, rest, k, ind):
        pad = "  " * ind
        if self.loop is not None: raise Untranslatable("nested loop")
        if not isinstance(s.target, ast.Name): raise Untranslatable("for target")
        bi, it, ti = self.expr(s.iter)
        if ti not in ELEM: raise Untranslatable("for over %s" % (ti,))
        var = s.target.id
        # names bound before the loop are carried; names first bound inside it are local to one iteration
        carried = [v for v in self.assigned(list(s.body) + list(s.orelse)) if v != var and v in self.types]
        if not carried: raise Untranslatable("loop without effect")
        has_break = any(isinstance(n, ast.Break) for st in s.body for n in ast.walk(st))
        vs = self.tuple_of(carried)
        flagged = "(brk, %s)" % ", ".join(carried)
        saved = dict(self.types)
        self.types[var] = ELEM[ti]
        cont = ".ok (false, %s)" % ", ".join(carried) if has_break else ".ok %s" % vs
        self.loop = (cont, ".ok (true, %s)" % ", ".join(carried))
        self.loop_carried = carried
        body = self.block(list(s.body), ("loop", cont), ind + 2)
        self.loop = None
        self.types = saved
        if not has_break:
            if s.orelse: raise Untranslatable("for/else without break")
            text = "%sExcept.bind (List.foldlM (fun %s %s =>\n%s) %s %s) fun %s =>\n%s" % (
                pad, vs, var, body, vs, it, vs, self.block(rest, k, ind))
            return self.wrap(bi, pad, text)
        after = self.block(rest, k, ind)
        if s.orelse:
            els = self.block(list(s.orelse), ("join", carried), ind + 2)
            after = "%sExcept.bind (if brk = true then .ok %s else\n%s) fun %s =>\n%s" % (pad, vs, els, vs, after)
        text = "%sExcept.bind (List.foldlM (fun %s %s => if brk = true then .ok %s else\n%s) (false, %s) %s) fun %s =>\n%s" % (
            pad, flagged, var, flagged, body, ", ".join(carried), it, flagged, after)
        return self.wrap(bi, pad, text)

    def type_of_first_assignment(self, s, v):
        if v in self.spec.locals: return self.spec.locals[v]
        return TD.DTr.type_of_first_assignment(self, s, v)

    def function(self):
        sp = self.spec
        fn = find_function(self.tree, sp.qualname)
        formals = [unkw(a.arg) for a in fn.args.args if a.arg != "self"]
        if formals != [unkw(n) for n, _ in sp.params]:
            raise Untranslatable("signature of %s is %s" % (sp.qualname, formals))
        for node in ast.walk(fn):          # Python names that are Lean keywords
            if isinstance(node, ast.Name) and node.id in TD.LEAN_KEYWORDS: node.id = node.id + "_"
            if isinstance(node, ast.arg) and node.arg in TD.LEAN_KEYWORDS: node.arg = node.arg + "_"
        pnames = [(n + "_" if n in TD.LEAN_KEYWORDS else n, t) for n, t in sp.params]
        self.types = {k_: v for k_, v in self.types.items() if k_ not in dict(sp.params)}
        for n, t in pnames: self.types[n] = t
        for a, t in sp.self_attrs.items(): self.types["self_" + a] = t
        params = (["(%s : DtPy.Dt → Py.R %s)" % (sp.closure, TB.lean_rty(sp.ret))] if sp.closure else []) + \
            (["(self : %s)" % sp.self_type] if sp.self_type else []) + \
            ["(self_%s : %s)" % (a, TB.lean_ty(t)) for a, t in sp.self_attrs.items()] + \
            ([] if sp.ctor else ["(self_%s : %s)" % (a, TB.lean_ty(t)) for a, t in sp.state]) + \
            ["(%s : %s)" % (n, TB.lean_ty(t)) for n, t in pnames]
        pre = ""
        if sp.ctor:
            for a, t in sp.state:
                pre += "  let self_%s : %s := default  -- attribute not set yet\n" % (a, TB.lean_ty(t))
        body = self.block(fn.body, None, 1)
        if sp.ctor: rty = TB.lean_ty(tuple(t for _, t in sp.state))
        elif sp.state: rty = TB.lean_ty(tuple([sp.ret] + [t for _, t in sp.state]))
        else: rty = TB.lean_rty(sp.ret)
        text = "/-- translated from `%s` -/\ndef %s %s : Py.R %s :=\n%s%s\n" % (
            sp.qualname, sp.leanname, " ".join(params), rty, pre, body)
        return text, hashlib.sha256(ast.dump(fn).encode()).hexdigest()[:16]


def translate_files(src_root, groups):
    """groups: [(relfile, [OFn...])] -> (lean text, fingerprints)"""
    parts, fps = [], {}
    allspecs = [sp for _, specs in groups for sp in specs]
    for relfile, specs in groups:
        tree = ast.parse(open(os.path.join(src_root, relfile)).read())
        for sp in specs:
            sp.tree = tree
        for sp in specs:
            if sp.extern: continue
            tr = OTr(tree, allspecs, sp)
            tr.all_specs = allspecs
            text, fp = tr.function()
            parts.append(text)
            fps[sp.qualname] = fp
    return "\n".join(parts), fps


V = "List ICal.ZComp"
CACHE = [("_cachedate", "KeyList"), ("_cachecomp", "OptZCompList")]
ZFIELDS = [("_std_abbr", "OptPStr"), ("_dst_abbr", "OptPStr"), ("_std_offset", "TD"), ("_dst_offset", "TD"),
           ("_start_delta", "DArg"), ("_end_delta", "DArg"), ("hasdst", "Bool")]
OBJ_GROUPS = [
    ("tz/tz.py", [
        OFn("tzical._parse_offset", "tzical_parseOffset", [("s", "CStr")], "Int"),
        OFn("_tzicalvtz._find_compdt", "tzicalvtz_findCompdt", [("comp", "ZComp"), ("dt", "Dt")], "OptDt", V),
        OFn("_tzicalvtz._find_comp", "tzicalvtz_findComp", [("dt", "Dt")], "OptZComp", V, state=CACHE,
            locals={"lastcompdt": "OptDt", "lastcomp": "OptZComp"}),
        OFn("_tzicalvtz.utcoffset", "tzicalvtz_utcoffset", [("dt", "Dt")], "TD", V, state=CACHE),
        OFn("_tzicalvtz.dst", "tzicalvtz_dst", [("dt", "Dt")], "TD", V, state=CACHE),
        OFn("_tzicalvtz.tzname", "tzicalvtz_tzname", [("dt", "Dt")], "OptCStr", V, self_attrs={"tzname_of": "NameFn"}, state=CACHE),
        OFn("tzrange.__init__", "tzrange_init", [("stdabbr", "OptPStr"), ("stdoffset", "OptInt"), ("dstabbr", "OptPStr"),
                                                 ("dstoffset", "OptInt"), ("start", "DArg"), ("end", "DArg")], "Zone",
            state=ZFIELDS, ctor=True, ignore={"_dst_base_offset_"}),
        OFn("tzrange.transitions", "tzrange_transitions", [("year", "Int")], "OptOrdPair", "TzStr.Zone"),
        OFn("tzrange.__eq__", "tzrange_eq", [("other", "Zone")], "Bool", "TzStr.Zone"),
        OFn("tzstr._delta", "tzstr_delta", [("x", "Attr"), ("isend", "Int")], "Delta",
            self_attrs={"_std_offset": "TD", "_dst_offset": "TD"}),
        OFn("tzstr.__init__", "tzstr_init", [("s", "PStr"), ("posix_offset", "Bool")], "Zone",
            state=ZFIELDS, ctor=True, ignore={"_s"}),
    ]),
]
L = "TZ.RangeZone"
OBJ_GROUPS[0][1].extend([
    OFn("_datetime_to_timestamp", "datetimeToTimestamp", [("dt", "Dt")], "Ts", extern=True),
    OFn("tzlocal._naive_is_dst", "tzlocal_naiveIsDst", [("dt", "Dt")], "Int", L),
    OFn("tzlocal.is_ambiguous", "tzlocal_isAmbiguous", [("dt", "Dt")], "Bool", L),
    OFn("tzlocal._isdst", "tzlocal_isdst", [("dt", "Dt"), ("fold_naive", "Bool")], "Int", L),
    OFn("tzlocal.utcoffset", "tzlocal_utcoffset", [("dt", "Dt")], "TD", L),
    OFn("tzlocal.dst", "tzlocal_dst", [("dt", "Dt")], "TD", L),
    OFn("tzlocal.tzname", "tzlocal_tzname", [("dt", "Dt")], "Str", L),
])
OBJ_GROUPS.append(("tz/_common.py", [
    # the decorator of every `fromutc`: its inner function, with the wrapped method `f` as a parameter
    OFn("_validate_fromutc_inputs.fromutc", "validateFromutcInputs", [("dt", "Dt")], "Dt", closure="f"),
]))
# tzlocal reads its own attributes of the same zone record (additive to translate_dt's table for tzrangebase)
TD.ATTRS[L].update({"_dst_saved": ("(DtPy.tdSeconds self.saving)", "TD"), "_hasdst": ("self.hasdst", "Bool"),
                    "_tznames": ("[self.stdAbbr, self.dstAbbr]", "StrList")})
TD.ATTRS[V] = {"_comps": ("self", "ZCompList")}
TD.ATTRS["TzStr.Zone"] = {k: (v[0] % "self", v[1]) for k, v in OBJ_ATTRS["Zone"].items()}

if __name__ == "__main__":
    import sys
    root = sys.argv[1] if len(sys.argv) > 1 else "/repo/src/dateutil"
    text, fps = translate_files(root, OBJ_GROUPS)
    print(text)
