"""c05shared.py — C05 on ONE shared tzstr / tzrange object (wt-tzfile, seeded C05K): the PEP 495 classification (datetime_exists,
datetime_ambiguous, resolve_imaginary, the offset for either fold) of wall times around the transitions of many years, asked of the
process-wide tzstr singleton in a long history (incl. lookups that raise: rules overflowing in year 9999 / underflowing in year 1) and from
two threads pre-empted at every statement; every answer must equal a fresh object's.  Uses builder tzrule's harness/tzshared.py."""
import datetime, warnings


def pep495_queries(c08, z, y, rng, n=2):
    out = []
    for q in c08._year_queries(z, y, rng, n=n):
        if q[0] == "wall":
            _, w, fold = q
            out += [("exists", w), ("ambg", w), ("off", w, fold), ("resolve", w, fold), ("off", w, 1 - fold)]
        elif q[0] == "utc":
            out.append(q)
    return out


def oracle(ctx):
    import tzshared as S
    from props import c08
    from dateutil import tz, relativedelta as rd
    rng = ctx.subrng("c05-shared")
    funcs = c08._range_funcs()
    done = tries = 0
    want = ctx.budget(4, 30)
    while done < want and tries < 20 * want:
        tries += 1
        spec = c08.gen_spec(rng)
        if c08.in_d_c08(spec) or "M" not in (spec["sr"][0], spec["er"][0]):
            continue          # the transition dates must differ from year to year, or a stale year cannot show
        s = spec["s"]
        with warnings.catch_warnings():
            warnings.simplefilter("ignore")
            try:
                shared = tz.tzstr(s)
                fresh = lambda s=s: tz.tzstr.instance(s)
                fresh()
            except Exception:
                continue
            done += 1
            case = {"zone": "tzstr", "s": s}
            years = rng.sample(range(1990, 2040), 10)
            hist = []
            for y in years:
                hist += pep495_queries(c08, fresh(), y, rng)
            hist += [("exists", datetime.datetime(9999, 12, 31, 23, 30)), ("ambg", datetime.datetime(1, 1, 1, 0, 10)),
                     ("resolve", datetime.datetime(9999, 12, 31, 23, 30), 0)]
            for y in rng.sample(years, 6) + years[:2]:
                hist += pep495_queries(c08, fresh(), y, rng, n=1)
            if not S.history(ctx, "tzstr-singleton-pep495", shared, fresh, hist, case):
                continue
            mk = lambda spec=spec: tz.tzrange("AAA", spec["std"], "BBB", spec["dst"],
                                              rd.relativedelta(hours=+2, month=3, day=8, weekday=rd.SU(+1)) if not spec["south"] else rd.relativedelta(hours=+30, month=12, day=31),
                                              rd.relativedelta(hours=+30, month=12, day=31) if not spec["south"] else rd.relativedelta(hours=-3, month=1, day=1, weekday=rd.SU(+1)))
            zr = mk()
            base = []
            for y in rng.sample(range(1990, 2040), 8):
                base += pep495_queries(c08, mk(), y, rng, n=1)
            edge = [("exists", datetime.datetime(9999, 6, 1, 12)), ("ambg", datetime.datetime(9999, 6, 1, 12)), ("off", datetime.datetime(9998, 12, 31, 22), 1),
                    ("resolve", datetime.datetime(9999, 6, 1, 12), 0), ("exists", datetime.datetime(1, 6, 1)), ("ambg", datetime.datetime(2, 1, 1))]
            hist2 = list(base)
            for e in edge:
                hist2.append(e)
                hist2 += pep495_queries(c08, mk(), rng.choice(range(1990, 2040)), rng, n=1)[:5]
            hist2 += base[:10]
            if not S.history(ctx, "tzrange-raising-pep495", zr, mk, hist2,
                             {"zone": "tzrange", "s": s, "overflowing_rules": True, "spec": {"std": spec["std"], "dst": spec["dst"], "south": spec["south"]}}):
                continue
            if done > ctx.budget(2, 10):
                continue
            y0, y1 = rng.sample(range(2000, 2030), 2)
            f = fresh()
            pick = lambda y, kinds, k: [q for q in pep495_queries(c08, f, y, rng, n=2) if q[0] in kinds][:k]
            warm = pick(y0, ("off",), 1)
            for jobs in ([pick(y1, ("exists",), 1), pick(y1, ("ambg",), 1)], [pick(y1, ("ambg", "exists"), 2), pick(y0, ("off",), 1)],
                         [pick(y1, ("off",), 1), pick(y0, ("exists",), 1) + pick(y1, ("ambg",), 1)]):
                if not S.threads(ctx, "tzstr-two-threads-pep495", fresh, fresh, funcs, None, warm, jobs, dict(case, years=[y0, y1])):
                    break
    ctx.count("shared_object_zones_tzstr_pep495", done)
