"""
sched.py — deterministic schedulers for the REAL cached iterators of dateutil.rrule (C11, C12
histories, C10 histories with live iterators).

(a) `run_nexts`: one thread, several iterators over one cached rule, interleaved at next()
    granularity.  The rule's `_cache_lock` is replaced (attribute assignment on the instance,
    before any iterator exists) by `SoloLock`, which raises `Deadlock` when the single thread
    tries to acquire a lock it already holds — the would-block-forever case, reported
    deterministically.

(b) `run_threads`: several threads at statement granularity.  Every thread runs under
    `sys.settrace`; `line` events of `rrulebase.__iter__` and `rrulebase._iter_cached` whose
    `self` is the rule under test are pause points (plus the first line of the query method
    a thread executes: the fast-path check).  Threads hand control back and forth with the
    scheduler through two binary semaphores each, so exactly one thread runs at a time and
    the interleaving is exactly the schedule.  `_cache_lock` is replaced by `CoopLock`, whose
    `acquire()` reports "blocked" to the scheduler instead of blocking: a thread that cannot
    reach its next line event is *known* to be blocked, no sleeps or time-outs are involved.

Line numbers are reported relative to the `def` line and shifted to the numbering used by
Model/Cache.lean (`__iter__` = 105, `_iter_cached` = 124), so unrelated edits above these
functions do not disturb the comparison.
"""
import sys, threading, dis
import rrlib

MODEL_BASE = {"__iter__": 105, "_iter_cached": 124}

# the statements of `_iter_cached` in the numbering of Model/Cache.lean (124 = the `def` line).  The real function is
# aligned to this listing by its TEXT (comments and blank lines dropped), so statements the model folds into another step
# (the `except Exception:` handler of the D-C11-genraise repair: locals only; `gen = None` and the generation test
# `if cache is self._cache:` of the D-C10-stale repair: a local and a comparison that is constantly true while no member is added) get no model line ("x<rel>": executed with
# the previous pause point, never a pause point of their own) and do not shift the lines after them.
MODEL_LISTING = {"_iter_cached": [
    "def _iter_cached(self):", "i = 0", "gen = self._cache_gen", "cache = self._cache", "acquire = self._cache_lock.acquire",
    "release = self._cache_lock.release", "while gen:", "if i == len(cache):", "acquire()", "try:",
    "if self._cache_complete and cache is self._cache:",
    "break", "try:", "for j in range(10):", "cache.append(advance_iterator(gen))", "except StopIteration:",
    "self._cache_gen = None", "self._cache_complete = True", "break", "finally:", "release()", "yield cache[i]", "i += 1",
    "while i < len(cache):", "yield cache[i]", "i += 1"]}


def align_lines(func, listing, base):
    """{real line number: model line number or None} for the statements of `func`"""
    import inspect, difflib
    src, first = inspect.getsourcelines(func)
    real = [(first + k, l.strip()) for k, l in enumerate(src) if l.strip() and not l.strip().startswith("#")]
    sm = difflib.SequenceMatcher(None, [t for _, t in real], listing, autojunk=False)
    out = dict((ln, None) for ln, _ in real)
    for a, b, n in sm.get_matching_blocks():
        for k in range(n):
            out[real[a + k][0]] = base + b + k
    return out
ENTRY_METHODS = ("__getitem__", "__contains__", "count", "before", "after", "xafter", "between")


class Deadlock(BaseException):
    pass


class Killed(BaseException):
    pass


class SoloLock(object):
    """single-thread stand-in for `_thread.allocate_lock()`"""
    def __init__(self):
        self.held = False

    def acquire(self, *a):
        if self.held:
            raise Deadlock()
        self.held = True
        return True

    def release(self):
        if not self.held:
            raise RuntimeError("release unlocked lock")
        self.held = False

    def locked(self):
        return self.held


def final_state(rule, statuses, results, owner):
    cache = rule._cache
    return "%s %d %s %s %s %s" % (
        rrlib.ilist(rrlib.ints(cache)), int(bool(rule._cache_complete)),
        "-" if rule._len is None else str(rule._len), "-" if owner is None else str(owner),
        ";".join(statuses) if statuses else "-", ";".join(r.replace(" ", "_") for r in results) if results else "-")


def run_nexts(rule, k, ops):
    """ops: list of 'c<i>' / 'n<i>'.  Returns (outputs, final string)"""
    lock = SoloLock()
    rule._cache_lock = lock
    its = [None] * k
    got = [[] for _ in range(k)]
    stopped = [False] * k
    out = []
    for op in ops:
        i = int(op[1:])
        if op[0] == "c":
            if its[i] is None:
                its[i] = iter(rule)
            continue
        if its[i] is None:
            its[i] = iter(rule)          # the model's runToYield starts an unstarted thread as well
        try:
            v = next(its[i])
            got[i].append(v)
            out.append(str(rrlib.to_int(v)))
        except StopIteration:
            stopped[i] = True
            out.append("S")
        except Deadlock:
            out.append("D")
            break
        except Exception as ex:          # an exception escaping next() is itself an observation
            out.append("E:" + type(ex).__name__)
            break
    return out, got, stopped, lock.held


class CoopLock(object):
    def __init__(self, sched):
        self.s = sched
        self.owner = None

    def acquire(self, *a):
        k = self.s.me()
        while self.owner is not None:
            self.s.pause(k, "B")
        self.owner = k
        return True

    def release(self):
        if self.owner is None:
            raise RuntimeError("release unlocked lock")
        self.owner = None

    def locked(self):
        return self.owner is not None


class Sched(object):
    def __init__(self, rule, rules=None):
        """`rules`: every cached object to instrument (nested compositions).  Each DISTINCT original lock object is
        replaced by one instrumented lock, so objects that share a lock before keep sharing one after."""
        from dateutil import rrule as R
        self.rule = rule
        self.rules = list(rules) if rules is not None else [rule]
        self.line_codes = {}
        self.line_maps = {}
        for name, base in MODEL_BASE.items():
            code = getattr(R.rrulebase, name).__code__
            self.line_codes[code] = base - code.co_firstlineno
            if name in MODEL_LISTING:
                self.line_maps[code] = align_lines(getattr(R.rrulebase, name), MODEL_LISTING[name], base)
        # the wrapper of the decorated mutators of rruleset (`inner_func` of `_invalidates_cache`, one code object for all four): its
        # statements are pause points of a MUTATOR thread (labels 901, 902, … = line of the wrapper's body)
        deco = getattr(getattr(R.rruleset, "rdate", None), "__code__", None)
        if deco is not None and deco.co_name == "inner_func":
            self.line_codes[deco] = 900 - deco.co_firstlineno
        self.entry_codes = {}
        for name in ENTRY_METHODS:
            code = getattr(R.rrulebase, name).__code__
            lines = sorted(set(l for _, l in dis.findlinestarts(code) if l is not None and l > code.co_firstlineno))
            self.entry_codes[code] = lines[0]
        # a subclass may override a query method (e.g. rrule.__contains__): its first line is an entry point as well
        for cls in (R.rrule, R.rruleset):
            for name in ENTRY_METHODS:
                f = cls.__dict__.get(name)
                if f is not None and hasattr(f, "__code__"):
                    code = f.__code__
                    lines = sorted(set(l for _, l in dis.findlinestarts(code) if l is not None and l > code.co_firstlineno))
                    self.entry_codes.setdefault(code, lines[0])
        self.go, self.back, self.state, self.threads, self.results = [], [], [], [], []
        self.idx = {}
        self.killed = False
        self.locks = {}            # id(original lock object) -> CoopLock
        for r in self.rules:
            orig = r._cache_lock
            if id(orig) not in self.locks:
                self.locks[id(orig)] = (CoopLock(self), orig)
            r._cache_lock = self.locks[id(orig)][0]
        self.lock = rule._cache_lock
        self.ruleset = set(id(r) for r in self.rules)

    def me(self):
        return self.idx[threading.get_ident()]

    # ---- worker side
    def pause(self, k, st):
        if self.killed:                 # unwinding after kill(): later line events must not park the thread again
            raise Killed()
        self.state[k] = st
        self.back[k].release()
        self.go[k].acquire()
        if self.killed:
            raise Killed()

    def _global(self, frame, event, arg):
        code = frame.f_code
        if code in self.line_codes:
            if id(frame.f_locals.get("self")) in self.ruleset:
                return self._line
        elif code in self.entry_codes:
            if id(frame.f_locals.get("self")) in self.ruleset:
                return self._entry
        return None

    def _line(self, frame, event, arg):
        if event == "line":
            m = self.line_maps.get(frame.f_code)
            if m is None:
                self.pause(self.me(), str(frame.f_lineno + self.line_codes[frame.f_code]))
            else:
                ml = m.get(frame.f_lineno)
                if ml is not None:          # a statement the model folds into the previous step is not a pause point
                    self.pause(self.me(), str(ml))
        return self._line

    def _entry(self, frame, event, arg):
        if event == "line" and frame.f_lineno == self.entry_codes[frame.f_code]:
            self.pause(self.me(), "1")
        return self._entry

    def add(self, fn):
        k = len(self.threads)
        self.go.append(threading.Lock()); self.go[k].acquire()
        self.back.append(threading.Lock()); self.back[k].acquire()
        self.state.append("new"); self.results.append(None)

        def body():
            self.idx[threading.get_ident()] = k
            try:
                self.pause(k, "0")
                sys.settrace(self._global)
                try:
                    self.results[k] = fn()
                finally:
                    sys.settrace(None)
            except Killed:
                pass
            self.state[k] = "3"
            self.back[k].release()
        t = threading.Thread(target=body, daemon=True)
        self.threads.append(t)
        t.start()
        self.back[k].acquire()          # handshake: the thread is parked at 'start'
        return k

    # ---- scheduler side
    def step(self, k):
        self.go[k].release()
        self.back[k].acquire()
        return self.state[k]

    def done(self, k):
        return self.state[k] == "3"

    def run_seg(self, k, n, trace):
        """up to n statements of thread k (None: until done/blocked); returns progress flag"""
        prog = False
        while n is None or n > 0:
            if self.done(k):
                break
            st = self.step(k)
            trace.append("%d.%s" % (k, st))
            if st == "B":
                break
            prog = True
            if n is not None:
                n -= 1
        return prog

    def finish_all(self, trace):
        for _ in range(len(self.threads) + 2):
            prog = False
            for k in range(len(self.threads)):
                prog = self.run_seg(k, None, trace) or prog
            if not prog:
                break

    def statuses(self):
        out = []
        for k, st in enumerate(self.state):
            out.append("done" if st == "3" else "blocked" if st == "B" else "at" + st)
        return out

    def kill(self):
        """unwind the threads that are still parked (blocked or mid-way)"""
        self.killed = True
        for k, t in enumerate(self.threads):
            if not self.done(k):
                self.go[k].release()
        for t in self.threads:
            t.join(5)


def run_threads(rule, queries, segments):
    """segments: [(tid, n|None)].  Returns (trace string, final string, results)"""
    s = Sched(rule)
    for q in queries:
        s.add((lambda q: lambda: rrlib.impl_query(rule, q))(q))
    trace = []
    for k, n in segments:
        s.run_seg(k, n, trace)
    s.finish_all(trace)
    st = s.statuses()
    owner = s.lock.owner
    res = [r if r is not None else "-" for r in s.results]
    fin = final_state(rule, st, res, owner)
    s.kill()
    return ",".join(trace) if trace else "-", fin, res, st


def obj_state(rule):
    return "%s,%d,%s,%s" % (rrlib.ilist(rrlib.ints(rule._cache)), int(bool(rule._cache_complete)),
                            "-" if rule._len is None else str(rule._len), "L" if rule._cache_lock.locked() else "-")


def run_nested(objs, jobs, segments):
    """objs: the cached objects (members first, then sets); jobs: [(object index, query)]; one runner thread per job.
    Returns (trace, object states, statuses, results, number of distinct lock objects)."""
    s = Sched(objs[0], rules=objs)
    for oi, q in jobs:
        s.add((lambda o, q: lambda: rrlib.impl_query(o, q))(objs[oi], q))
    trace = []
    for k, n in segments:
        s.run_seg(k, n, trace)
    s.finish_all(trace)
    st = ["done" if x == "done" else "stuck" for x in s.statuses()]
    res = [r if r is not None else "-" for r in s.results]
    states = "|".join(obj_state(o) for o in objs)
    nlocks = len(s.locks)
    s.kill()
    return ",".join(trace) if trace else "-", states, st, res, nlocks


def seg_wire(segments):
    return ",".join("%d:%s" % (k, "*" if n is None else n) for k, n in segments) if segments else "-"
