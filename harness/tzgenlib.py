"""tzgenlib.py — per-run differential validation of the DtPy translator: the functions re-translated from
tz/tz.py (`tzfile` lookups, `_datetime_to_timestamp`) and tz/_common.py (`tzrangebase`) into
Generated/TzKernels.lean (driver ops `tzgen.*`) against the METHODS of the implementation, called directly on
naive / attached datetimes with microseconds (incl. negative timestamps with a fractional part, where
truncation and flooring differ)."""
import datetime
import zonelib as Z

EPOCH = datetime.datetime(1970, 1, 1)
US = datetime.timedelta(microseconds=1)


def _us(td):
    return td // US


def _dt(us, fold=0):
    return (EPOCH + datetime.timedelta(microseconds=us)).replace(fold=fold)


def _guard(f):
    try:
        return f()
    except Exception as ex:
        return "!" + Z.exc_name(ex)


def _name(n):
    if n is None:
        return "-"
    return Z.hexs(n.encode("ascii")) if isinstance(n, str) else Z.hexs(n)


def impl_fromutc(z, us):
    def f():
        w = z.fromutc(_dt(us).replace(tzinfo=z))
        return "%d,%d" % (_us(w.replace(tzinfo=None) - EPOCH), w.fold)
    return _guard(f)


def impl_fromutc_foreign(z, us, other):
    """the public fromutc on a datetime attached to ANOTHER tzinfo (or none): the decorator's ValueError"""
    def f():
        w = z.fromutc(_dt(us).replace(tzinfo=other))
        return "%d,%d" % (_us(w.replace(tzinfo=None) - EPOCH), w.fold)
    return _guard(f)


def impl_file_wall(z, us):
    out = [_guard(lambda: "%d" % bool(z.is_ambiguous(_dt(us))))]
    for fold in (0, 1):
        d = _dt(us, fold)
        def idx():
            i = z._find_last_transition(d)
            return "-" if i is None else "%d" % i
        out.append(",".join([_guard(lambda: "%d" % _us(z.utcoffset(d))), _guard(lambda: "%d" % _us(z.dst(d))),
                             _guard(lambda: _name(z.tzname(d))), _guard(idx)]))
    return ";".join(out)


def impl_idxutc(z, us):
    def f():
        i = z._find_last_transition(_dt(us).replace(tzinfo=z), in_utc=True)
        return "-" if i is None else "%d" % i
    return _guard(f)


def impl_ts(us):
    from dateutil.tz import tz as tzmod
    def f():
        v = tzmod._datetime_to_timestamp(_dt(us))
        # total_seconds() is the correctly rounded quotient us / 10**6, a float
        return "%d" % us if (isinstance(v, float) and v == us / 10 ** 6) else "other:%r" % (v,)
    return _guard(f)


def impl_range_wall(z, us):
    out = [_guard(lambda: "%d" % bool(z.is_ambiguous(_dt(us))))]
    for fold in (0, 1):
        d = _dt(us, fold)
        out.append(",".join([_guard(lambda: "%d" % bool(z._isdst(d))), _guard(lambda: "%d" % _us(z.utcoffset(d))),
                             _guard(lambda: "%d" % _us(z.dst(d))), _guard(lambda: _name(z.tzname(d)))]))
    return ";".join(out)


def impl_local_wall(z, us):
    """tzlocal methods (translated by harness/translate_obj.py); must run while TZ is set"""
    out = [_guard(lambda: "%d" % bool(z.is_ambiguous(_dt(us))))]
    for fold in (0, 1):
        d = _dt(us, fold)
        out.append(",".join([_guard(lambda: "%d" % int(z._naive_is_dst(d))), _guard(lambda: "%d" % int(z._isdst(d))),
                             _guard(lambda: "%d" % _us(z.utcoffset(d))), _guard(lambda: "%d" % _us(z.dst(d))),
                             _guard(lambda: _name(z.tzname(d)))]))
    return ";".join(out)


def spread(points, rng):
    """seconds -> microsecond timestamps: each point exactly, and with a fractional part on either side"""
    out = []
    for i, p in enumerate(points):
        out.append(p * 10 ** 6)
        out.append(p * 10 ** 6 + (1, 500000, 999999)[i % 3])
        if i % 4 == 0:
            out.append(p * 10 ** 6 - (1, 250000)[i % 2])
    return out


def range_zones():
    from dateutil import tz
    from dateutil.relativedelta import relativedelta, SU
    return [("tzrange:EST5EDT", tz.tzrange("EST", -18000, "EDT")),
            ("tzstr:EST5EDT,M3.2.0,M11.1.0", tz.tzstr("EST5EDT,M3.2.0,M11.1.0")),
            ("tzstr:AEST-10AEDT,M10.1.0,M4.1.0/3", tz.tzstr("AEST-10AEDT,M10.1.0,M4.1.0/3")),      # southern: DST over new year
            ("tzstr:NZST-12NZDT,M9.5.0,M4.1.0/3", tz.tzstr("NZST-12NZDT,M9.5.0,M4.1.0/3")),
            ("tzstr:GMT0BST,M3.5.0/1,M10.5.0", tz.tzstr("GMT0BST,M3.5.0/1,M10.5.0")),
            ("tzstr:UTC", tz.tzstr("UTC")),
            ("tzrange:nodst", tz.tzrange("XST", 3600)),
            ("tzrange:rd", tz.tzrange("A", 7200, "B", 10800, start=relativedelta(hours=+1, month=2, day=1, weekday=SU(+1)),
                                      end=relativedelta(hours=+1, month=9, day=30, weekday=SU(-1))))]


def validate(ctx, quick_zones=14, quick_syn=12):
    """generated functions vs the implementation's methods; differences are correspondence mismatches"""
    rep = (ctx.lean.gen_report.get("kernels") or {}).get("TzKernels") or {}
    if not rep.get("ok"):
        ctx.note("TzKernels not regenerated (%s): translated-function validation skipped" % rep.get("error"))
        return
    rng = ctx.subrng("tzgen")
    thorough = ctx.tier == "thorough" or ctx.escalated
    real = Z.pick_zones(ctx, "tzgen-zones", quick_n=quick_zones)
    syn = Z.synthetic_set(ctx, "tzgen-syn", quick_n=quick_syn, thorough_n=120)
    streams = [(n, d) for n, _, d in real] + list(syn)
    reqs, exp, meta = [], [], []
    for name, data in streams:
        z, _ = Z.impl_load(data)
        if z is None:
            continue
        try:
            ups, wps = Z.probe_points(Z.Timeline(data))
        except Exception:
            ups, wps = [], []
        ups, wps = (ups or [0, Z.T0]), (wps or [0, Z.T0])
        if not thorough:
            ups, wps = ups[::3] + ups[-2:], wps[::3] + wps[-2:]
        ups, wps = spread(ups, rng), spread(wps, rng)
        hx = Z.hexs(data)
        reqs.append("tzgen.fromutc %s %s" % (hx, Z.ilist(ups))); exp.append("ok " + " ".join(impl_fromutc(z, u) for u in ups)); meta.append((name, ups))
        reqs.append("tzgen.idxutc %s %s" % (hx, Z.ilist(ups))); exp.append("ok " + " ".join(impl_idxutc(z, u) for u in ups)); meta.append((name, ups))
        reqs.append("tzgen.wall %s %s" % (hx, Z.ilist(wps))); exp.append("ok " + " ".join(impl_file_wall(z, w) for w in wps)); meta.append((name, wps))
    tsp = [0, 1, -1, 999999, -999999, 1000000, -1000000, -1500000, 1500000, -86400000001, 2 ** 31 * 10 ** 6 + 7, -(2 ** 31) * 10 ** 6 - 3]
    reqs.append("tzgen.ts %s" % Z.ilist(tsp)); exp.append("ok " + " ".join(impl_ts(u) for u in tsp)); meta.append(("_datetime_to_timestamp", tsp))
    for name, z in range_zones():
        years = Z.YEARS
        std, dst, has, tbl = Z.range_zone_params(z, range(min(years) - 1, max(years) + 2))
        ups, wps = Z.range_probes(z, years)
        if not thorough:
            ups, wps = ups[::4], wps[::4]
        ups, wps = spread(ups, rng), spread(wps, rng)
        hdr = "%d %d %d %s" % (std, dst, has, Z.ilist(tbl))
        reqs.append("tzgen.range.fromutc %s %s" % (hdr, Z.ilist(ups))); exp.append("ok " + " ".join(impl_fromutc(z, u) for u in ups)); meta.append((name, ups))
        if ((ctx.lean.gen_report.get("kernels") or {}).get("TzObjKernels") or {}).get("ok"):
            import datetime as _d
            few = ups[:6]
            reqs.append("tzgen.range.fromutc_pub %s %s 1" % (hdr, Z.ilist(few))); exp.append("ok " + " ".join(impl_fromutc(z, u) for u in few)); meta.append((name, few))
            reqs.append("tzgen.range.fromutc_pub %s %s 0" % (hdr, Z.ilist(few)))
            exp.append("ok " + " ".join(impl_fromutc_foreign(z, u, (None, _d.timezone.utc)[i % 2]) for i, u in enumerate(few))); meta.append((name, few))
        abbrs = "%s %s" % (_name(z._std_abbr or ""), _name(z._dst_abbr or ""))
        reqs.append("tzgen.range.wall %s %s %s" % (hdr, Z.ilist(wps), abbrs)); exp.append("ok " + " ".join(impl_range_wall(z, w) for w in wps)); meta.append((name, wps))
    _local_requests(ctx, rng, thorough, reqs, exp, meta)
    _run(ctx, reqs, exp, meta)


def _local_requests(ctx, rng, thorough, reqs, exp, meta):
    # `_tzinfo._fromutc/_fold_status/fromutc` through tzlocal (which overrides is_ambiguous: dynamic dispatch)
    import os, time
    for s in Z.LOCAL_TZS[:3]:
        from dateutil import tz
        ref = tz.tzstr(s)
        years = Z.YEARS[1:]
        std, dst, has, tbl = Z.range_zone_params(ref, range(min(years) - 1, max(years) + 2))
        ups, lwps = Z.range_probes(ref, years)
        ups = spread(ups[::6] if not thorough else ups, rng)
        lwps = spread(lwps[::6] if not thorough else lwps, rng)
        obj_ok = ((ctx.lean.gen_report.get("kernels") or {}).get("TzObjKernels") or {}).get("ok")
        old = os.environ.get("TZ")
        os.environ["TZ"] = s; time.tzset()
        try:
            zl = tz.tzlocal()
            e = "ok " + " ".join(impl_fromutc(zl, u) for u in ups)
            if obj_ok:
                reqs.append("tzgen.local.wall %d %d %d %s %s %s %s" % (std, dst, has, Z.ilist(tbl), Z.ilist(lwps),
                                                                 _name(time.tzname[0]), _name(time.tzname[1])))
                exp.append("ok " + " ".join(impl_local_wall(zl, w) for w in lwps)); meta.append(("tzlocal:" + s, lwps))
        finally:
            if old is None:
                os.environ.pop("TZ", None)
            else:
                os.environ["TZ"] = old
            time.tzset()
        reqs.append("tzgen.local.fromutc %d %d %d %s %s" % (std, dst, has, Z.ilist(tbl), Z.ilist(ups))); exp.append(e); meta.append(("tzlocal:" + s, ups))


def _run(ctx, reqs, exp, meta):
    got = ctx.driver(reqs)
    n = 0
    for q, e, g, (name, pts) in zip(reqs, exp, got, meta):
        op = q.split()[0]
        n += len(pts)
        if e != g:
            es, gs = e.split()[1:], g.split()[1:]
            shown = 0
            for p, a, b in zip(pts, es, gs):
                if a != b and shown < 3:
                    ctx.mismatch(op, {"zone": name, "us": p}, a, b); shown += 1
            if len(es) != len(gs):
                ctx.mismatch(op, {"zone": name}, e[:200], g[:200])
        else:
            ctx.traces += len(pts)
    ctx.count("tz_translator_validation_cases", n)


def validate_local(ctx):
    """only the tzlocal part (C08)"""
    rep = (ctx.lean.gen_report.get("kernels") or {}).get("TzKernels") or {}
    if not rep.get("ok"):
        return
    reqs, exp, meta = [], [], []
    _local_requests(ctx, ctx.subrng("tzgen-local"), ctx.tier == "thorough" or ctx.escalated, reqs, exp, meta)
    _run(ctx, reqs, exp, meta)
