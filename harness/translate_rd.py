#!/usr/bin/env python3
"""
translate_rd.py — Python AST -> Lean 4 for "RDPy": the fragment of Python in which the methods of
`dateutil.relativedelta.relativedelta` are written.  Output: Generated/RDOps.lean, regenerated from
/repo's working tree on every run; runtime support (the named primitives): Model/RDPy.lean.

Values and types
  Int, OptInt (`None` or int), Bool, RD (a relativedelta: `self`, `other`), Temporal (a date / datetime
  operand), TD (timedelta, µs), OptWd (`self.weekday`: None or a weekday object), Wd (a weekday object known
  to be present), OptWdArg (the `weekday=` keyword: None | int | weekday object), Repl (the dict handed to
  `replace`), Kw (keyword arguments of the constructor), CmpOp (`operator.lt/gt`), HashKey, None.

One Python method can give several Lean functions: the declared type of a parameter decides
`isinstance(other, relativedelta)` / `isinstance(other, datetime.timedelta)` / `isinstance(x, datetime.date)`
and `if dt1 and dt2` STATICALLY (partial evaluation), `isinstance(x, datetime.datetime)` and
`isinstance(weekday, integer_types)` stay dynamic (RDPy.isDatetime / RDPy.isIntArg).

Statements: assignment (names, tuple of names, `self.attr = e`, `d[const] = e`), augmented assignment,
`if/elif/else`, `assert`, `raise E(...)`, `return e`, `for` over a literal list / tuple / `enumerate(<literal list>)`
(UNROLLED; `break` and the loop's `else:`), `while` (one level; a fuel-bounded recursive function, out of fuel
= the distinguished error NotImplemented), expression statements `self._fix()`, `self._set_months(e)` (the
functions of Generated/RDKernels.lean), `warn(...)` (no effect), `try: S except TypeError: …` with S non-raising.
Everything lives in `Except PyErr`; sub-expressions that can raise are hoisted (A-normal form) into
`Except.bind`s in evaluation order.  if-joins: pure branches ↦ `let v := if c then … else …` (several
variables: a tuple and projections); raising branches ↦ `Except.bind (if c then …; .ok vs else …; .ok vs) (fun …)`;
branches containing `return` ↦ the rest is duplicated.  `if X:` / `if X is not None:` on a weekday object
↦ `match X with | none => … | some wd => …` (narrowing); `if x:` on an Optional[int] narrows `x` to `RDPy.optVal x`.
Anything else raises Untranslatable(<named construct>): a broken tie.
"""
import ast, os, hashlib
from translate import Untranslatable, find_function

ERRS = {"ValueError", "IndexError", "OverflowError", "TypeError", "AssertionError"}

RD_FIELDS = {"years": "Int", "months": "Int", "days": "Int", "leapdays": "Int", "hours": "Int", "minutes": "Int",
             "seconds": "Int", "microseconds": "Int", "year": "OptInt", "month": "OptInt", "day": "OptInt",
             "weekday": "OptWd", "hour": "OptInt", "minute": "OptInt", "second": "OptInt", "microsecond": "OptInt",
             "_has_time": "Int"}
RD_LEAN = {"_has_time": "hasTime"}
KW_FIELDS = {"years": "Int", "months": "Int", "days": "Int", "leapdays": "Int", "weeks": "Int", "hours": "Int",
             "minutes": "Int", "seconds": "Int", "microseconds": "Int", "year": "OptInt", "month": "OptInt",
             "day": "OptInt", "weekday": "OptWdArg", "yearday": "OptInt", "nlyearday": "OptInt", "hour": "OptInt",
             "minute": "OptInt", "second": "OptInt", "microsecond": "OptInt"}
T_FIELDS = {"year": "t.y", "month": "t.m", "day": "t.d", "hour": "t.hh", "minute": "t.mm", "second": "t.ss",
            "microsecond": "t.us"}
REPL_FIELDS = ["year", "month", "day", "hour", "minute", "second", "microsecond"]
LEAN_TY = {"Int": "Int", "OptInt": "Option Int", "Bool": "Bool", "RD": "RD", "Temporal": "RDM.Temporal", "TD": "Int",
           "OptWd": "Option (Int × Option Int)", "Wd": "(Int × Option Int)", "OptWdArg": "Option RDM.WdArg",
           "Repl": "RDPy.Repl", "Kw": "RDM.Kw", "CmpOp": "RDPy.CmpOp", "OptPair": "Option (Int × Int)",
           "HashKey": "List RDM.HashElt", "Dy": "RDPy.Dy", "Pow2": "RDPy.Pow2"}
RESERVED = {"end", "from", "at", "fun", "do", "then", "else", "if", "open", "in", "let", "have", "show", "by", "match"}


def lty(t):
    return LEAN_TY[t]


class RFn:
    """one Lean function to produce from one Python method"""

    def __init__(self, qualname, leanname, params, ret, self_type="RD", statics=None, ctx=(), init_self=False,
                 returns_self=False):
        self.qualname = qualname        # e.g. relativedelta.__add__
        self.leanname = leanname
        self.params = params            # [(pyname, type)] excluding self; type "None" = absent (static None)
        self.ret = ret                  # dialect type of the result
        self.self_type = self_type
        self.statics = statics or {}
        self.ctx = list(ctx)            # extra leading parameters, e.g. ("off", "Nat → DT → Int")
        self.init_self = init_self      # `self` starts as the empty record (a constructor)
        self.returns_self = returns_self


# method dispatch: (method name, type of the first argument or None) -> generated function
METHODS = {}


class St:
    """static (translation-time) value"""

    def __init__(self, v):
        self.v = v


class Tr:
    def __init__(self, spec, module_consts):
        self.spec = spec
        self.types = {}
        self.static = {}          # name -> python constant (str / int / list of ints)
        self.narrow = {}          # source text of an expression -> (lean text, type)
        self.tmp = 0
        self.aux = []             # auxiliary definitions (while loops)
        self.consts = module_consts

    # ------------------------------------------------------------------ helpers
    def fresh(self, base="t"):
        self.tmp += 1
        return "%s_%d" % (base, self.tmp)

    def lname(self, n):
        return n + "_" if n in RESERVED else n

    def src(self, e):
        return ast.dump(e)

    # ------------------------------------------------------------------ expressions
    # E returns (lean text, type); raising sub-expressions are appended to `pre` as (tmp, text, type)
    def E(self, e, pre):
        k = self.src(e)
        if k in self.narrow:
            return self.narrow[k]
        if isinstance(e, ast.Constant):
            v = e.value
            if v is None:
                return "none", "None"
            if isinstance(v, bool):
                return ("true" if v else "false"), "Bool"
            if isinstance(v, int):
                return (str(v) if v >= 0 else "(%d)" % v), "Int"
            if isinstance(v, str):
                return St(v), "Static"
            if isinstance(v, float) and v == int(v) and abs(v) < 2 ** 53:
                # an integer-valued float literal (1e6) read on the integer domain
                return (str(int(v)) if v >= 0 else "(%d)" % int(v)), "Int"
            raise Untranslatable("constant %r" % (v,))
        if isinstance(e, ast.Name):
            if e.id in self.static:
                v = self.static[e.id]
                if isinstance(v, int) and not isinstance(v, bool):
                    return (str(v) if v >= 0 else "(%d)" % v), "Int"
                return St(v), "Static"
            if e.id not in self.types:
                raise Untranslatable("unbound name %s" % e.id)
            return self.lname(e.id), self.types[e.id]
        if isinstance(e, ast.Attribute):
            return self.attr(e, pre)
        if isinstance(e, ast.UnaryOp):
            if isinstance(e.op, ast.USub):
                t, ty = self.E(e.operand, pre)
                if ty != "Int": raise Untranslatable("unary minus on %s" % ty)
                return "(-%s)" % t, "Int"
            if isinstance(e.op, ast.Not):
                c = self.C(e, pre)
                return self.bool_of(c), "Bool"
        if isinstance(e, ast.BinOp):
            return self.binop(e, pre)
        if isinstance(e, ast.BoolOp):
            return self.boolop_value(e, pre)
        if isinstance(e, ast.Compare):
            c = self.C(e, pre)
            return self.bool_of(c), "Bool"
        if isinstance(e, ast.IfExp):
            c = self.C(e.test, pre)
            a, ta = self.E(e.body, pre)
            b, tb = self.E(e.orelse, pre)
            if isinstance(c, bool):
                return (a, ta) if c else (b, tb)
            ty = self.join_type(ta, tb)
            return "(if %s then %s else %s)" % (c, self.coerce(a, ta, ty), self.coerce(b, tb, ty)), ty
        if isinstance(e, ast.Tuple):
            parts = [self.E(x, pre) for x in e.elts]
            if [t for _, t in parts] == ["Int", "Int"]:
                return "(%s, %s)" % (parts[0][0], parts[1][0]), "Pair"
            raise Untranslatable("tuple value")
        if isinstance(e, ast.List) and all(isinstance(x, ast.Constant) and isinstance(x.value, int) for x in e.elts):
            return St([x.value for x in e.elts]), "Static"
        if isinstance(e, ast.Subscript):
            return self.subscript(e, pre)
        if isinstance(e, ast.Call):
            return self.call(e, pre)
        if isinstance(e, ast.Dict):
            fields = {}
            for kk, vv in zip(e.keys, e.values):
                if not (isinstance(kk, ast.Constant) and kk.value in REPL_FIELDS):
                    raise Untranslatable("dict key")
                t, ty = self.E(vv, pre)
                fields[kk.value] = self.coerce(t, ty, "OptInt")
            return "({ %s } : RDPy.Repl)" % ", ".join("%s := %s" % kv for kv in fields.items()), "Repl"
        raise Untranslatable("expression %s" % type(e).__name__)

    def bool_of(self, c):
        if isinstance(c, bool):
            return "true" if c else "false"
        if c.startswith("(") and c.endswith(" = true)") and c.count(" = true") == 1:
            return c[1:-len(" = true)")]
        return "(decide %s)" % c

    def join_type(self, a, b):
        if a == b: return a
        if {a, b} == {"Int", "OptInt"} or {a, b} == {"None", "OptInt"} or {a, b} == {"None", "Int"}: return "OptInt"
        if {a, b} == {"None", "OptWd"}: return "OptWd"
        raise Untranslatable("join of %s and %s" % (a, b))

    def coerce(self, t, ty, want):
        if ty == want: return t
        if want == "OptInt" and ty == "Int": return "(some %s)" % t
        if want in ("OptInt", "OptWd", "OptWdArg", "OptPair") and ty == "None": return "none"
        if want == "OptWdArg" and ty == "OptWd": return "(RDPy.wdArgOfObj %s)" % t
        if want == "OptWd" and ty == "OptWdArg": return "(RDPy.wdOfArg %s)" % t
        if want == "OptPair" and ty == "Pair": return "(some %s)" % t
        if want == "TD" and ty == "Int": return t
        raise Untranslatable("cannot pass %s where %s is expected" % (ty, want))

    def attr(self, e, pre):
        # self.x / other.x / dt.year / td.days / self.weekday.weekday / operator.gt
        if isinstance(e.value, ast.Name) and e.value.id == "operator" and e.attr in ("lt", "gt"):
            return "RDPy.CmpOp.%s" % e.attr, "CmpOp"
        base, bty = self.E(e.value, pre)
        if bty == "RD":
            if e.attr not in RD_FIELDS: raise Untranslatable("relativedelta.%s" % e.attr)
            return "%s.%s" % (base, RD_LEAN.get(e.attr, e.attr)), RD_FIELDS[e.attr]
        if bty == "Temporal":
            if e.attr not in T_FIELDS: raise Untranslatable("datetime.%s" % e.attr)
            return "%s.%s" % (base, T_FIELDS[e.attr]), "Int"
        if bty == "TD":
            f = {"days": "tdDays", "seconds": "tdSeconds", "microseconds": "tdMicroseconds"}.get(e.attr)
            if not f: raise Untranslatable("timedelta.%s" % e.attr)
            return "(RDPy.%s %s)" % (f, base), "Int"
        if bty == "Wd":
            if e.attr == "weekday": return "%s.1" % base, "Int"
            if e.attr == "n": return "%s.2" % base, "OptInt"
        if bty == "OptWd":
            # not narrowed: None.weekday would be an AttributeError
            f = {"weekday": ("wdWeekday", "Int"), "n": ("wdN", "OptInt")}.get(e.attr)
            if not f: raise Untranslatable("weekday.%s" % e.attr)
            t = self.fresh("a")
            pre.append((t, "RDPy.%s %s" % (f[0], base), f[1]))
            return t, f[1]
        raise Untranslatable("attribute .%s of %s" % (e.attr, bty))

    def binop(self, e, pre):
        l, tl = self.E(e.left, pre)
        r, tr = self.E(e.right, pre)
        op = type(e.op)
        if tl == "Int" and tr == "Int":
            if op in (ast.Add, ast.Sub, ast.Mult):
                sym = {ast.Add: "+", ast.Sub: "-", ast.Mult: "*"}[op]
                try:                                   # constant folding (unrolled loop indices)
                    a, b = int(l.strip("()")), int(r.strip("()"))
                    v = {ast.Add: a + b, ast.Sub: a - b, ast.Mult: a * b}[op]
                    return (str(v) if v >= 0 else "(%d)" % v), "Int"
                except ValueError:
                    pass
                return "(%s %s %s)" % (l, sym, r), "Int"
            poslit = isinstance(e.right, ast.Constant) and isinstance(e.right.value, int) and e.right.value > 0
            if op is ast.FloorDiv:
                return ("(%s / %s)" % (l, r) if poslit else "(Py.fdiv %s %s)" % (l, r)), "Int"
            if op is ast.Mod:
                return ("(%s %% %s)" % (l, r) if poslit else "(Py.fmod %s %s)" % (l, r)), "Int"
        if tl == "Int" and tr == "Dy" and op is ast.Mult:
            return "(RDPy.intMulDy %s %s)" % (l, r), "Dy"
        if tl == "Int" and tr == "Pow2" and op is ast.Div and l == "1":
            return "(RDPy.recipPow2 %s)" % r, "Dy"
        if tl == "Temporal" and tr == "TD" and op is ast.Add:
            t = self.fresh("x")
            pre.append((t, "RDPy.addTd %s %s" % (l, r), "Temporal"))
            return t, "Temporal"
        if tl == "Temporal" and tr == "Temporal" and op is ast.Sub:
            t = self.fresh("d")
            pre.append((t, "RDPy.dtSub off %s %s" % (l, r), "TD"))
            return t, "TD"
        raise Untranslatable("binop %s on %s, %s" % (op.__name__, tl, tr))

    def boolop_value(self, e, pre):
        """`a or b` as a VALUE"""
        if isinstance(e.op, ast.Or) and len(e.values) == 2:
            a, ta = self.E(e.values[0], pre)
            b, tb = self.E(e.values[1], pre)
            if ta == "OptInt" and tb == "Int": return "(RDPy.orOpt %s %s)" % (a, b), "Int"
            if ta == "Int" and tb == "Int": return "(RDPy.orInts %s %s)" % (a, b), "Int"
        c = self.C(e, pre)
        return self.bool_of(c), "Bool"

    def subscript(self, e, pre):
        # calendar.monthrange(y, m)[1] ; <literal list>[const] ; weekdays[weekday]
        v = e.value
        if isinstance(v, ast.Call) and isinstance(v.func, ast.Attribute) and v.func.attr == "monthrange":
            if not (isinstance(e.slice, ast.Constant) and e.slice.value == 1): raise Untranslatable("monthrange()[i]")
            y, _ = self.E(v.args[0], pre); m, _ = self.E(v.args[1], pre)
            t = self.fresh("dim")
            pre.append((t, "RDPy.monthrange1 %s %s" % (y, m), "Int"))
            return t, "Int"
        if isinstance(v, ast.Name) and v.id == "weekdays":
            a, ta = self.E(e.slice, pre)
            if ta != "OptWdArg": raise Untranslatable("weekdays[%s]" % ta)
            t = self.fresh("w")
            pre.append((t, "RDPy.weekdaysGet %s" % a, "OptWd"))
            return t, "OptWd"
        base, bt = self.E(v, pre)
        if bt == "Static" and isinstance(base.v, list):
            i, ti = self.E(e.slice, pre)
            try:
                idx = int(i.strip("()"))
            except (ValueError, AttributeError):
                raise Untranslatable("non-constant index into a literal list")
            x = base.v[idx]
            return (str(x) if x >= 0 else "(%d)" % x), "Int"
        raise Untranslatable("subscript")

    def call(self, e, pre):
        f = e.func
        if isinstance(f, ast.Name):
            n = f.id
            if n in ("int", "float") and len(e.args) == 1:
                t, ty = self.E(e.args[0], pre)
                if ty == "Dy":                  # a float that is exactly m / 2^k (Model/RDPy.lean)
                    return (t, "Dy") if n == "float" else ("(RDPy.truncDy %s)" % t, "Int")
                if ty == "Pow2" and n == "float":
                    return t, "Pow2"
                if ty not in ("Int", "OptInt"): raise Untranslatable("%s() of %s" % (n, ty))
                return t, ty                    # identity on the integer domain
            if n == "round" and len(e.args) in (1, 2):
                t, ty = self.E(e.args[0], pre)
                if ty != "Int": raise Untranslatable("round() of %s" % ty)
                if len(e.args) == 2 and not (isinstance(e.args[1], ast.Constant) and isinstance(e.args[1].value, int)
                                             and e.args[1].value >= 0):
                    raise Untranslatable("round(x, n) with a non-literal / negative n")
                return t, "Int"                 # rounding an integer to >= 0 decimals is the identity
            if n == "abs":
                t, ty = self.E(e.args[0], pre)
                if ty != "Int": raise Untranslatable("abs of %s" % ty)
                return "(Py.iabs %s)" % t, "Int"
            if n == "min" and len(e.args) == 2:
                a, ta = self.E(e.args[0], pre); b, tb = self.E(e.args[1], pre)
                if (ta, tb) != ("Int", "Int"): raise Untranslatable("min of %s, %s" % (ta, tb))
                return "(min %s %s)" % (a, b), "Int"
            if n == "_sign":
                t, _ = self.E(e.args[0], pre)
                return "(Py.sign %s)" % t, "Int"
            if n == "getattr" and len(e.args) == 2:
                o, to = self.E(e.args[0], pre); a, ta = self.E(e.args[1], pre)
                if ta != "Static" or not isinstance(a.v, str): raise Untranslatable("getattr with a dynamic name")
                return self.attr(ast.Attribute(value=e.args[0], attr=a.v, ctx=ast.Load()), pre)
            if n == "isinstance":
                return self.bool_of(self.isinstance_(e, pre)), "Bool"
            if n == "hash" and len(e.args) == 1 and isinstance(e.args[0], ast.Tuple):
                parts = [self.E(x, pre) for x in e.args[0].elts]
                elts = []
                for t, ty in parts:                      # element by element, in the order of the source
                    if ty in ("OptPair", "None") and not elts: elts.append("RDM.HashElt.wd %s" % t)
                    elif ty == "Int": elts.append("RDM.HashElt.int %s" % t)
                    elif ty == "OptInt": elts.append("RDM.HashElt.opt %s" % t)
                    else: raise Untranslatable("hash() of a tuple with a %s element" % ty)
                return "[%s]" % ", ".join(elts), "HashKey"
            if n in self.types and self.types[n] == "CmpOp" and len(e.args) == 2:
                a, _ = self.E(e.args[0], pre); b, _ = self.E(e.args[1], pre)
                t = self.fresh("c")
                pre.append((t, "RDPy.cmpApply off %s %s %s" % (n, a, b), "Bool"))
                return t, "Bool"
            raise Untranslatable("call %s" % n)
        if isinstance(f, ast.Attribute):
            # calendar.isleap / datetime.timedelta / datetime.datetime.fromordinal(x.toordinal())
            if f.attr == "isleap":
                y, _ = self.E(e.args[0], pre)
                return "(Cal.isLeap %s)" % y, "Bool"
            if f.attr == "timedelta":
                kw = {k.arg: self.E(k.value, pre) for k in e.keywords}
                if e.args or any(t != "Int" for _, t in kw.values()): raise Untranslatable("timedelta arguments")
                order = ["days", "hours", "minutes", "seconds", "microseconds"]
                if set(kw) - set(order): raise Untranslatable("timedelta keyword")
                return "(RDPy.timedelta %s)" % " ".join(kw[k][0] if k in kw else "0" for k in order), "TD"
            if f.attr == "fromordinal" and len(e.args) == 1 and isinstance(e.args[0], ast.Call) \
                    and isinstance(e.args[0].func, ast.Attribute) and e.args[0].func.attr == "toordinal":
                x, tx = self.E(e.args[0].func.value, pre)
                if tx != "Temporal": raise Untranslatable("toordinal of %s" % tx)
                return "(RDPy.dateToDatetime %s)" % x, "Temporal"
            recv, rt = self.E(f.value, pre)
            if rt == "Temporal" and f.attr == "weekday" and not e.args:
                return "(RDPy.weekdayOf %s)" % recv, "Int"
            if rt == "Temporal" and f.attr == "replace" and not e.args and len(e.keywords) == 1 and e.keywords[0].arg is None:
                r, tr = self.E(e.keywords[0].value, pre)
                if tr != "Repl": raise Untranslatable("replace(**%s)" % tr)
                t = self.fresh("x")
                pre.append((t, "RDPy.replace %s %s" % (recv, r), "Temporal"))
                return t, "Temporal"
            if rt == "RD" and f.attr == "__class__":
                raise Untranslatable("__class__ attribute call")
            if rt == "RD":
                at = None
                args = []
                for a in e.args:
                    t, ty = self.E(a, pre); args.append(t); at = at or ty
                key = (f.attr, at)
                if key not in METHODS: raise Untranslatable("method %s(%s)" % key)
                fn, rty, ctx = METHODS[key]
                t = self.fresh("r")
                pre.append((t, "%s %s%s %s" % (fn, "off " if ctx else "", recv, " ".join(args)), rty))
                return t, rty
        if isinstance(f, ast.Attribute) and f.attr == "__class__":
            pass
        # self.__class__(kw=…)
        if isinstance(f, ast.Attribute) and isinstance(f.value, ast.Name) and f.attr == "__class__":
            pass
        raise Untranslatable("call")

    def constructor_call(self, e, pre):
        fields = []
        for k in e.keywords:
            if k.arg not in KW_FIELDS: raise Untranslatable("constructor keyword %s" % k.arg)
            t, ty = self.E(k.value, pre)
            fields.append("%s := %s" % (k.arg, self.coerce(t, ty, KW_FIELDS[k.arg])))
        if e.args: raise Untranslatable("positional constructor arguments")
        t = self.fresh("r")
        pre.append((t, "initKw { %s }" % ", ".join(fields), "RD"))
        return t, "RD"

    def isinstance_(self, e, pre):
        """Prop text or a python bool (static)"""
        x, tx = self.E(e.args[0], pre)
        cls = ast.unparse(e.args[1])
        if cls == "relativedelta": return tx == "RD"
        if cls == "datetime.timedelta": return tx == "TD3"
        if cls == "datetime.date": return tx == "Temporal"
        if cls == "float":
            # the translated domain is integer-valued (Int / Optional[int] fields): no value is a float.  Float-valued
            # fields (and the non-finite rejection of __init__) are covered by C16's executable oracle only.
            if tx not in ("Int", "OptInt"): raise Untranslatable("isinstance(%s, float)" % tx)
            return False
        if cls == "datetime.datetime":
            if tx != "Temporal": return False
            return "(RDPy.isDatetime %s = true)" % x
        if cls == "integer_types":
            if tx != "OptWdArg": raise Untranslatable("isinstance(%s, integer_types)" % tx)
            return "(RDPy.isIntArg %s = true)" % x
        raise Untranslatable("isinstance(…, %s)" % cls)

    # ------------------------------------------------------------------ conditions: Prop text or python bool
    def C(self, e, pre):
        if isinstance(e, ast.BoolOp):
            if isinstance(e.op, ast.And):
                # Python's `and` does not evaluate what follows a false operand: a STATICALLY false operand (e.g.
                # `isinstance(x, float)` on the integer domain) ends the translation of the conjunction there
                vals = []
                for v in e.values:
                    c = self.C(v, pre)
                    vals.append(c)
                    if c is False: return False
            else:
                vals = [self.C(v, pre) for v in e.values]
            if isinstance(e.op, ast.And):
                if any(v is False for v in vals): return False
                vals = [v for v in vals if v is not True]
                if not vals: return True
                return vals[0] if len(vals) == 1 else "(" + " ∧ ".join(vals) + ")"
            if any(v is True for v in vals): return True
            vals = [v for v in vals if v is not False]
            if not vals: return False
            return vals[0] if len(vals) == 1 else "(" + " ∨ ".join(vals) + ")"
        if isinstance(e, ast.UnaryOp) and isinstance(e.op, ast.Not):
            c = self.C(e.operand, pre)
            return (not c) if isinstance(c, bool) else "(¬ %s)" % c
        if isinstance(e, ast.Compare):
            parts = []
            left = e.left
            for op, right in zip(e.ops, e.comparators):
                parts.append(self.cmp1(left, op, right, pre))
                left = right
            if any(p is False for p in parts): return False
            parts = [p for p in parts if p is not True]
            if not parts: return True
            return parts[0] if len(parts) == 1 else "(" + " ∧ ".join(parts) + ")"
        if isinstance(e, ast.Call) and isinstance(e.func, ast.Name) and e.func.id == "isinstance":
            return self.isinstance_(e, pre)
        if isinstance(e, ast.Call) and isinstance(e.func, ast.Name) and e.func.id == "any" \
                and len(e.args) == 1 and isinstance(e.args[0], ast.GeneratorExp):
            g = e.args[0]
            if len(g.generators) != 1 or g.generators[0].ifs or not isinstance(g.generators[0].iter, ast.Tuple) \
                    or not isinstance(g.generators[0].target, ast.Name):
                raise Untranslatable("any(<generator>)")
            var = g.generators[0].target.id
            alts = []
            for el in g.generators[0].iter.elts:
                saved = dict(self.narrow)
                self.narrow[self.src(ast.Name(id=var, ctx=ast.Load()))] = self.E(el, pre)
                alts.append(self.C(g.elt, pre))
                self.narrow = saved
            if any(a is True for a in alts): return True
            alts = [a for a in alts if a is not False]
            return "(" + " ∨ ".join(alts) + ")" if alts else False
        # truthiness
        t, ty = self.E(e, pre)
        if ty == "Bool": return "(%s = true)" % t
        if ty == "Int": return "(%s ≠ 0)" % t
        if ty == "OptInt": return "(RDPy.truthyOpt %s)" % t
        if ty in ("OptWd", "OptPair", "OptWdArg"): return "(%s ≠ none)" % t
        if ty in ("Temporal", "RD", "Wd"): return True
        if ty == "None": return False
        raise Untranslatable("truthiness of %s" % ty)

    def cmp1(self, left, op, right, pre):
        if isinstance(op, (ast.Is, ast.IsNot)):
            if not (isinstance(right, ast.Constant) and right.value is None): raise Untranslatable("is")
            t, ty = self.E(left, pre)
            if ty in ("Int", "Temporal", "RD", "Wd", "Pair"):
                return isinstance(op, ast.IsNot)
            if ty == "None":
                return isinstance(op, ast.Is)
            return "(%s %s none)" % (t, "=" if isinstance(op, ast.Is) else "≠")
        l, tl = self.E(left, pre)
        r, tr = self.E(right, pre)
        sym = {ast.Lt: "<", ast.LtE: "≤", ast.Gt: ">", ast.GtE: "≥", ast.Eq: "=", ast.NotEq: "≠"}.get(type(op))
        if sym is None: raise Untranslatable("comparison %s" % type(op).__name__)
        if tl == "Temporal" and tr == "Temporal":
            if sym not in ("<", ">"): raise Untranslatable("datetime comparison %s" % sym)
            a, b = (l, r) if sym == "<" else (r, l)
            t = self.fresh("c")
            pre.append((t, "RDPy.dtLt off %s %s" % (a, b), "Bool"))
            return "(%s = true)" % t
        if tl == "Bool" and tr == "Bool" and sym in ("=", "≠"):
            return "(%s %s %s)" % (l, sym, r)
        if tl == "Int" and tr == "Int":
            try:                                       # both literal (unrolled loop index): decided now
                a, b = int(l.strip("()")), int(r.strip("()"))
                return {"<": a < b, "≤": a <= b, ">": a > b, "≥": a >= b, "=": a == b, "≠": a != b}[sym]
            except ValueError:
                pass
            return "(%s %s %s)" % (l, sym, r)
        if {tl, tr} <= {"OptInt", "Int", "None"} and sym in ("=", "≠"):
            return "(%s %s %s)" % (self.coerce(l, tl, "OptInt"), sym, self.coerce(r, tr, "OptInt"))
        raise Untranslatable("comparison %s of %s and %s" % (sym, tl, tr))

    # ------------------------------------------------------------------ statements
    def wrap(self, pre, inner):
        """bind the hoisted raising sub-expressions around `inner` (a Lean term of type Py.R _)"""
        for t, txt, _ in reversed(pre):
            inner = "Except.bind (%s) (fun %s =>\n%s)" % (txt, t, inner)
        return inner

    def has(self, stmts, kinds):
        return any(isinstance(n, kinds) for s in stmts for n in ast.walk(s))

    def raising(self, stmts):
        """conservative: can this statement list raise (or call something that can)?"""
        for s in stmts:
            for n in ast.walk(s):
                if isinstance(n, (ast.Raise, ast.Assert)): return True
                if isinstance(n, ast.Call):
                    f = n.func
                    nm = f.id if isinstance(f, ast.Name) else f.attr
                    if nm in ("monthrange", "replace", "__class__", "__add__", "__radd__", "__neg__", "__rsub__") \
                            or (isinstance(f, ast.Name) and self.types.get(nm) == "CmpOp"):
                        return True
                if isinstance(n, ast.Subscript) and isinstance(n.value, ast.Name) and n.value.id == "weekdays":
                    return True
                if isinstance(n, (ast.BinOp, ast.AugAssign)) and isinstance(n.op, (ast.Add, ast.Sub)):
                    # datetime ± timedelta / datetime - datetime
                    for side in ([n.left, n.right] if isinstance(n, ast.BinOp) else [n.target, n.value]):
                        try:
                            if self.peek_type(side) in ("Temporal", "TD"): return True
                        except Untranslatable:
                            pass
                if isinstance(n, ast.Attribute) and n.attr in ("weekday", "n") and self.src(n) not in self.narrow:
                    try:
                        if self.peek_type(n.value) == "OptWd": return True
                    except Untranslatable:
                        pass
        return False

    def peek_type(self, e):
        saved = (self.tmp,)
        try:
            return self.E(e, [])[1]
        finally:
            self.tmp = saved[0]

    def assigned(self, stmts):
        out = []

        def add(n):
            if n not in out: out.append(n)
        for s in stmts:
            if isinstance(s, ast.Assign):
                for t in s.targets:
                    for el in (t.elts if isinstance(t, ast.Tuple) else [t]):
                        add(self.target_name(el))
            elif isinstance(s, ast.AugAssign):
                add(self.target_name(s.target))
            elif isinstance(s, ast.If):
                for n in self.assigned(s.body) + self.assigned(s.orelse): add(n)
            elif isinstance(s, (ast.For, ast.While)):
                for n in self.assigned(s.body) + self.assigned(s.orelse): add(n)
                if isinstance(s, ast.For):
                    for el in (s.target.elts if isinstance(s.target, ast.Tuple) else [s.target]):
                        if el.id in out: out.remove(el.id)
            elif isinstance(s, ast.Expr) and isinstance(s.value, ast.Call) and isinstance(s.value.func, ast.Attribute) \
                    and s.value.func.attr in ("_fix", "_set_months"):
                add("self")
            elif isinstance(s, ast.Try):
                for n in self.assigned(s.body): add(n)
        return out

    def target_name(self, t):
        if isinstance(t, ast.Name): return t.id
        if isinstance(t, ast.Attribute) and isinstance(t.value, ast.Name) and t.value.id == "self": return "self"
        if isinstance(t, ast.Subscript) and isinstance(t.value, ast.Name): return t.value.id
        raise Untranslatable("assignment target")

    def reads(self, stmts):
        out = set()
        for s in stmts:
            for n in ast.walk(s):
                if isinstance(n, ast.Name): out.add(n.id)
        return out

    def ret_text(self, names):
        names = [self.lname(n) for n in names]
        if not names: return "()"
        return names[0] if len(names) == 1 else "(" + ", ".join(names) + ")"

    def unpack(self, names, src):
        """lets that re-bind `names` from the tuple value `src`"""
        if len(names) == 1:
            return "let %s := %s\n" % (self.lname(names[0]), src)
        out = ""
        for i, n in enumerate(names):
            proj = src + ".2" * i + (".1" if i < len(names) - 1 else "")
            out += "let %s := %s\n" % (self.lname(n), proj)
        return out

    def B(self, stmts, k, live_out):
        """translate `stmts`; `k` = None (all paths must return/raise) or a function () -> Lean text (type Py.R _)
        that continues after the block; live_out = names read after the block"""
        if not stmts:
            if k is None: raise Untranslatable("control falls off the end of the function")
            return k()
        s, rest = stmts[0], stmts[1:]
        nxt = lambda: self.B(rest, k, live_out)
        live = self.reads(rest) | set(live_out)
        if isinstance(s, ast.Expr):
            v = s.value
            if isinstance(v, ast.Constant): return nxt()                                   # docstring
            if isinstance(v, ast.Call) and isinstance(v.func, ast.Name) and v.func.id == "warn": return nxt()
            if isinstance(v, ast.Call) and isinstance(v.func, ast.Attribute) and isinstance(v.func.value, ast.Name) \
                    and v.func.value.id == "self" and v.func.attr == "_fix" and not v.args:
                return "let self := Gen.fix self\n" + nxt()
            if isinstance(v, ast.Call) and isinstance(v.func, ast.Attribute) and isinstance(v.func.value, ast.Name) \
                    and v.func.value.id == "self" and v.func.attr == "_set_months" and len(v.args) == 1:
                pre = []
                a, ta = self.E(v.args[0], pre)
                return self.wrap(pre, "let self := Gen.setMonths self %s\n" % a + nxt())
            raise Untranslatable("expression statement %s" % ast.unparse(v)[:40])
        if isinstance(s, ast.Assign):
            if len(s.targets) != 1: raise Untranslatable("chained assignment")
            return self.assign(s.targets[0], s.value, nxt)
        if isinstance(s, ast.AugAssign):
            fake = ast.BinOp(left=s.target, op=s.op, right=s.value)
            return self.assign(s.target, fake, nxt)
        if isinstance(s, ast.Assert):
            pre = []
            c = self.C(s.test, pre)
            if c is True: return nxt()
            return self.wrap(pre, "if ¬ %s then .error .AssertionError else\n%s" % (c, nxt()))
        if isinstance(s, ast.Raise):
            exc = s.exc
            name = exc.func.id if isinstance(exc, ast.Call) and isinstance(exc.func, ast.Name) else \
                (exc.id if isinstance(exc, ast.Name) else None)
            if name not in ERRS: raise Untranslatable("raise %r" % name)
            return ".error .%s" % name
        if isinstance(s, ast.Return):
            if s.value is None: raise Untranslatable("bare return")
            if isinstance(s.value, ast.Name) and s.value.id == "NotImplemented":
                return ".error .NotImplemented"
            pre = []
            if isinstance(s.value, ast.Call) and isinstance(s.value.func, ast.Attribute) and s.value.func.attr == "__class__":
                t, ty = self.constructor_call(s.value, pre)
            else:
                t, ty = self.E(s.value, pre)
            want = self.spec.ret
            if ty != want:
                t = self.coerce(t, ty, want)
            return self.wrap(pre, ".ok %s" % t)
        if isinstance(s, ast.Try):
            if self.raising(s.body) or len(s.handlers) != 1 or s.orelse or s.finalbody:
                raise Untranslatable("try around a statement that can raise")
            return self.B(s.body + rest, k, live_out)
        if isinstance(s, ast.If):
            return self.if_(s, rest, k, live_out, live)
        if isinstance(s, ast.For):
            return self.for_(s, rest, k, live_out)
        if isinstance(s, ast.While):
            return self.while_(s, rest, k, live_out, live)
        if isinstance(s, ast.Break):
            raise Untranslatable("break outside an unrolled loop")
        raise Untranslatable("statement %s" % type(s).__name__)

    def assign(self, target, value, nxt):
        pre = []
        if isinstance(target, ast.Tuple):
            if not isinstance(value, ast.Tuple) or len(value.elts) != len(target.elts):
                raise Untranslatable("tuple assignment")
            vals = [self.E(v, pre) for v in value.elts]
            out = ""
            for tg, (t, ty) in zip(target.elts, vals):
                if not isinstance(tg, ast.Name): raise Untranslatable("tuple assignment target")
                self.types[tg.id] = ty
                self.static.pop(tg.id, None)
                out += "let %s := %s\n" % (self.lname(tg.id), t)
            return self.wrap(pre, out + nxt())
        if isinstance(value, ast.Call) and isinstance(value.func, ast.Attribute) and value.func.attr == "__class__":
            t, ty = self.constructor_call(value, pre)
        else:
            t, ty = self.E(value, pre)
        if isinstance(target, ast.Name):
            n = target.id
            if ty == "Static":
                self.static[n] = t.v
                return nxt()
            self.static.pop(n, None)
            old = self.types.get(n)
            if old and old != ty:
                ty2 = self.join_type(old, ty) if {old, ty} <= {"Int", "OptInt", "None"} else ty
                t = self.coerce(t, ty, ty2) if ty2 != ty else t
                ty = ty2
            self.types[n] = ty
            for kk in [kk for kk in self.narrow if ("id='%s'" % n) in kk]:
                del self.narrow[kk]
            return self.wrap(pre, "let %s := %s\n%s" % (self.lname(n), t, nxt()))
        if isinstance(target, ast.Attribute) and isinstance(target.value, ast.Name) and target.value.id == "self":
            a = target.attr
            if a not in RD_FIELDS: raise Untranslatable("self.%s" % a)
            t = self.coerce(t, ty, RD_FIELDS[a])
            for kk in [kk for kk in self.narrow if "attr='%s'" % a in kk and "id='self'" in kk]:
                del self.narrow[kk]
            return self.wrap(pre, "let self := { self with %s := %s }\n%s" % (RD_LEAN.get(a, a), t, nxt()))
        if isinstance(target, ast.Subscript) and isinstance(target.value, ast.Name) and self.types.get(target.value.id) == "Repl":
            kx, tk = self.E(target.slice, pre)
            if tk != "Static" or kx.v not in REPL_FIELDS: raise Untranslatable("dict key")
            d = target.value.id
            return self.wrap(pre, "let %s := { %s with %s := %s }\n%s" % (d, d, kx.v, self.coerce(t, ty, "OptInt"), nxt()))
        raise Untranslatable("assignment target")

    def narrowing(self, test):
        """`if X:` / `if X is not None:` with X a weekday object or Optional[int]: (kind, expr) or None"""
        x = None
        if isinstance(test, (ast.Name, ast.Attribute)):
            x = test
        elif isinstance(test, ast.Compare) and len(test.ops) == 1 and isinstance(test.ops[0], ast.IsNot) \
                and isinstance(test.comparators[0], ast.Constant) and test.comparators[0].value is None:
            x = test.left
        if x is None: return None
        try:
            ty = self.peek_type(x)
        except Untranslatable:
            return None
        if ty == "OptWd": return ("wd", x)
        if ty == "OptInt" and isinstance(test, (ast.Name, ast.Attribute)): return ("int", x)
        return None

    def if_(self, s, rest, k, live_out, live):
        pre = []
        nar = self.narrowing(s.test)
        c = self.C(s.test, pre)
        if isinstance(c, bool):                                             # decided by the declared types
            return self.B((s.body if c else s.orelse) + rest, k, live_out)
        vs = [v for v in self.assigned([s]) if v in live or v == "self" and (self.spec.returns_self or "self" in live)]
        if nar and nar[0] == "wd":
            self.narrow[self.src(nar[1])] = ("wd_", "Wd")
        eff = self.has(s.body + s.orelse, (ast.Raise, ast.Return, ast.Assert)) or self.raising(s.body) or self.raising(s.orelse)
        if nar and nar[0] == "wd":
            del self.narrow[self.src(nar[1])]
        if not vs and not eff:
            return self.B(rest, k, live_out)                                # no effect at all (e.g. only `warn(...)`)
        saved_types, saved_static, saved_narrow = dict(self.types), dict(self.static), dict(self.narrow)

        def branch(stmts, kk, narrowed):
            self.types, self.static, self.narrow = dict(saved_types), dict(saved_static), dict(saved_narrow)
            if narrowed and nar:
                kind, x = nar
                if kind == "wd":
                    self.narrow[self.src(x)] = ("wd_", "Wd")
                else:
                    t, _ = self.E(x, [])
                    self.narrow[self.src(x)] = ("(RDPy.optVal %s)" % t, "Int")
            return self.B(stmts, kk, live if kk is not None else live_out)

        def finish(types_after):
            self.types, self.static, self.narrow = dict(saved_types), dict(saved_static), dict(saved_narrow)
            self.types.update(types_after)

        def ite(thn, els):
            if nar and nar[0] == "wd":
                x, _ = self.E(nar[1], [])
                return "(match %s with\n| none =>\n%s\n| some wd_ =>\n%s)" % (x, els, thn)
            return "(if %s then\n%s\nelse\n%s)" % (c, thn, els)

        if self.has(s.body + s.orelse, (ast.Return, ast.Break)):
            # some path returns / breaks: the rest of the function is duplicated into both branches
            cont = lambda: self.B(rest, k, live_out)
            thn = branch(s.body, cont, True)
            els = branch(s.orelse, cont, False)
            finish({})
            return self.wrap(pre, ite(thn, els))
        # join
        tys = {}

        def joinret():
            for v in vs:
                if v != "self": tys.setdefault(v, []).append(self.types.get(v))
            return None
        pure = not eff
        def tail_pure():
            joinret(); return self.ret_text(vs)
        def tail_mon():
            joinret(); return ".ok %s" % self.ret_text(vs)
        for v in vs:
            if v != "self" and v not in saved_types and v not in saved_static \
                    and not (v in self.assigned(s.body) and v in self.assigned(s.orelse)):
                raise Untranslatable("variable %s assigned in one branch only and used later" % v)
        thn = branch(s.body, tail_pure if pure else tail_mon, True)
        els = branch(s.orelse, tail_pure if pure else tail_mon, False)
        after = {}
        for v, ts in tys.items():
            ts = [t for t in ts if t]
            if len(set(ts)) == 1: after[v] = ts[0]
            elif set(ts) == {"OptWd", "OptPair"} or set(ts) == {"Pair", "OptWd"}:
                after[v] = "OptPair"
            else:
                a = ts[0]
                for b in ts[1:]: a = self.join_type(a, b)
                after[v] = a
        if any(after.get(v) == "OptPair" for v in vs):
            # `if w is not None: w = (a, b)`: afterwards None or a pair
            if len(vs) != 1 or not (nar and nar[0] == "wd") or s.orelse:
                raise Untranslatable("type-changing join")
            thn = thn.rstrip()
            lines = thn.split("\n")
            lines[-1] = "some " + lines[-1]
            thn = "\n".join(lines)
            els = "none"
        finish(after)
        if pure:
            tmp = self.fresh("j")
            body = "let %s := %s\n" % (tmp if len(vs) > 1 else self.lname(vs[0]), ite(thn, els))
            if len(vs) > 1: body += self.unpack(vs, tmp)
            return self.wrap(pre, body + self.B(rest, k, live_out))
        tmp = self.fresh("j") if vs else "_"
        return self.wrap(pre, "Except.bind %s (fun %s =>\n%s%s)" % (
            ite(thn, els), tmp, self.unpack(vs, tmp) if vs else "", self.B(rest, k, live_out)))

    def for_(self, s, rest, k, live_out):
        """unroll a loop over a literal list / tuple / enumerate(<literal list>)"""
        it = s.iter
        enum = isinstance(it, ast.Call) and isinstance(it.func, ast.Name) and it.func.id == "enumerate" and len(it.args) == 1
        if enum: it = it.args[0]
        pre = []
        if isinstance(it, (ast.List, ast.Tuple)):
            items = []
            for el in it.elts:
                if not isinstance(el, ast.Constant): raise Untranslatable("loop over non-constant items")
                items.append(el.value)
        else:
            v, tv = self.E(it, pre)
            if tv != "Static" or not isinstance(v.v, list): raise Untranslatable("loop over a non-literal sequence")
            items = v.v
        if enum:
            if not (isinstance(s.target, ast.Tuple) and len(s.target.elts) == 2): raise Untranslatable("enumerate target")
            names = [s.target.elts[0].id, s.target.elts[1].id]
        else:
            if not isinstance(s.target, ast.Name): raise Untranslatable("loop target")
            names = [s.target.id]
        after = lambda: self.B(rest, k, live_out)
        has_break = self.has(s.body, ast.Break)
        if not has_break and s.orelse: raise Untranslatable("for/else without break")

        def iteration(i):
            if i == len(items):
                return self.B(s.orelse, after, live_out) if s.orelse else after()
            if enum:
                self.static[names[0]] = i; self.static[names[1]] = items[i]
            else:
                self.static[names[0]] = items[i]
            body = self.strip_break(s.body)
            return self.B_loopbody(body, lambda: iteration(i + 1), after, live_out | self.reads(rest) | self.reads(s.body))
        out = iteration(0)
        for n in names: self.static.pop(n, None)
        return self.wrap(pre, out)

    def strip_break(self, stmts):
        return stmts

    def B_loopbody(self, stmts, next_iter, after_loop, live):
        """body of an unrolled iteration: falling off the end -> next iteration; `break` -> after the loop"""
        if not stmts:
            return next_iter()
        s, rest = stmts[0], stmts[1:]
        if isinstance(s, ast.Break):
            return after_loop()
        if isinstance(s, ast.If) and self.has([s], ast.Break):
            pre = []
            c = self.C(s.test, pre)
            if isinstance(c, bool):
                return self.B_loopbody((s.body if c else s.orelse) + rest, next_iter, after_loop, live)
            st = (dict(self.types), dict(self.static), dict(self.narrow))
            thn = self.B_loopbody(s.body + rest, next_iter, after_loop, live)
            self.types, self.static, self.narrow = dict(st[0]), dict(st[1]), dict(st[2])
            els = self.B_loopbody(s.orelse + rest, next_iter, after_loop, live)
            self.types, self.static, self.narrow = st
            return self.wrap(pre, "(if %s then\n%s\nelse\n%s)" % (c, thn, els))
        return self.B([s], lambda: self.B_loopbody(rest, next_iter, after_loop, live), live | self.reads(rest))

    def while_(self, s, rest, k, live_out, live):
        if s.orelse or self.has(s.body, (ast.Break, ast.Continue, ast.Return)): raise Untranslatable("while with break/else")
        state = [v for v in self.assigned(s.body)]
        free = sorted(n for n in (self.reads(s.body) | self.reads([ast.Expr(value=s.test)]))
                      if n in self.types and n not in state and n != "self")
        if "self" in state:
            state = ["self"] + [v for v in state if v != "self"]
        name = "%s_loop" % self.spec.leanname
        sub = Tr(self.spec, self.consts)
        sub.types = dict(self.types); sub.static = dict(self.static); sub.tmp = 100
        pre = []
        c = sub.C(s.test, pre)
        if isinstance(c, bool): raise Untranslatable("while with a static condition")
        body = sub.B(s.body, lambda: "%s fuel %s %s" % (name, " ".join(["off"] if self.spec.ctx else []),
                                                        " ".join([sub.lname(v) for v in state] + free)), set(state))
        sty = " × ".join(lty(self.types[v]) if v != "self" else "RD" for v in state)
        params = " ".join("(%s : %s)" % (self.lname(v), "RD" if v == "self" else lty(self.types[v])) for v in state + free)
        ctxp = " ".join("(%s : %s)" % c2 for c2 in self.spec.ctx)
        check = sub.wrap(pre, "if %s then\n(match fuel with\n| 0 => .error .NotImplemented\n| fuel + 1 =>\n%s)\nelse .ok %s" % (
            c, body, self.ret_text(state)))
        self.aux.append("/-- the `while` loop of `%s` (fuel-bounded; out of fuel = NotImplemented) -/\ndef %s (fuel : Nat) %s %s : Py.R (%s) :=\n%s\n"
                        % (self.spec.qualname, name, ctxp, params, sty, check))
        tmp = self.fresh("j")
        call = "%s fuel %s %s" % (name, " ".join(["off"] if self.spec.ctx else []),
                                  " ".join([self.lname(v) for v in state] + free))
        return "Except.bind (%s) (fun %s =>\n%s%s)" % (call, tmp, self.unpack(state, tmp), self.B(rest, k, live_out))

    # ------------------------------------------------------------------ function
    def function(self, fn):
        sp = self.spec
        params = ["(%s : %s)" % c for c in sp.ctx]
        fuel_at = len(params)
        if sp.self_type and not sp.init_self:
            params.append("(self : %s)" % sp.self_type)
            self.types["self"] = "RD"
        head = ""
        if sp.init_self:
            self.types["self"] = "RD"
            head = "let self : RD := {}\n"
        pyparams = [a.arg for a in fn.args.args if a.arg != "self"]
        declared = dict(sp.params)
        kwmode = declared.pop("**kw", None)
        if kwmode:
            params.append("(kw : RDM.Kw)")
        for n in pyparams:
            if n in declared:
                t = declared[n]
                if t == "None":
                    self.narrow[self.src(ast.Name(id=n, ctx=ast.Load()))] = ("none", "None")
                    self.types[n] = "None"
                elif t == "TD3":
                    self.types[n] = "TD3"
                    params.append("(%s_days %s_seconds %s_microseconds : Int)" % (n, n, n))
                else:
                    self.types[n] = t
                    params.append("(%s : %s)" % (self.lname(n), lty(t)))
            elif kwmode and n in KW_FIELDS:
                self.types[n] = KW_FIELDS[n]
                head += "let %s := kw.%s\n" % (self.lname(n), n)
            elif kwmode:
                raise Untranslatable("parameter %s of %s has no declared type" % (n, sp.qualname))
        if sp.returns_self:
            k = lambda: ".ok self"
        else:
            k = None
        body = self.B(fn.body, k, {"self"} if sp.returns_self else set())
        if self.aux: params.insert(fuel_at, "(fuel : Nat)")
        text = "".join(self.aux)
        text += "/-- translated from `relativedelta.py:%s`%s -/\ndef %s %s : Py.R (%s) :=\n%s%s\n" % (
            sp.qualname, " (%s)" % ", ".join("%s : %s" % p for p in sp.params) if sp.params else "",
            sp.leanname, " ".join(params), lty(sp.ret), head, body)
        return text


class TrTD(Tr):
    """`other` is a timedelta given by its (days, seconds, microseconds)"""

    def attr(self, e, pre):
        if isinstance(e.value, ast.Name) and self.types.get(e.value.id) == "TD3" and e.attr in ("days", "seconds", "microseconds"):
            return "%s_%s" % (e.value.id, e.attr), "Int"
        return Tr.attr(self, e, pre)

    def E(self, e, pre):
        if isinstance(e, ast.Name) and self.types.get(e.id) == "TD3":
            return e.id, "TD3"
        return Tr.E(self, e, pre)


def indent(text):
    """re-indent the generated text by nesting depth of parentheses / lets (cosmetic, deterministic)"""
    out, depth = [], 1
    for line in text.split("\n"):
        s = line.strip()
        if not s:
            continue
        if s.startswith("def ") or s.startswith("/--"):
            out.append(s); depth = 1; continue
        lead = len(s) - len(s.lstrip(")"))
        out.append("  " * max(1, depth - lead) + s)
        depth += s.count("(") - s.count(")")
    return "\n".join(out) + "\n"


RD_SPECS = [
    # the keyword constructor: `__init__` with dt1 = dt2 = None
    RFn("relativedelta.__init__", "initKw", [("dt1", "None"), ("dt2", "None"), ("**kw", True)], "RD",
        init_self=True, returns_self=True),
    # relativedelta + date/datetime
    RFn("relativedelta.__add__", "addDt", [("other", "Temporal")], "Temporal"),
    RFn("relativedelta.__radd__", "raddDt", [("other", "Temporal")], "Temporal"),
    RFn("relativedelta.__neg__", "neg", [], "RD"),
    RFn("relativedelta.__rsub__", "rsubDt", [("other", "Temporal")], "Temporal"),
    RFn("relativedelta.__abs__", "abs", [], "RD"),
    RFn("relativedelta.__add__", "addRd", [("other", "RD")], "RD"),
    RFn("relativedelta.__add__", "addTd", [("other", "TD3")], "RD"),
    RFn("relativedelta.__sub__", "subRd", [("other", "RD")], "RD"),
    RFn("relativedelta.__mul__", "mulInt", [("other", "Int")], "RD"),
    RFn("relativedelta.__mul__", "mulDy", [("other", "Dy")], "RD"),
    RFn("relativedelta.__div__", "divPow2", [("other", "Pow2")], "RD"),
    RFn("relativedelta.normalized", "normalized", [], "RD"),
    RFn("relativedelta.__bool__", "bool", [], "Bool"),
    RFn("relativedelta.__eq__", "eq", [("other", "RD")], "Bool"),
    RFn("relativedelta.__hash__", "hashKey", [], "HashKey"),
    # relativedelta(dt1, dt2)
    RFn("relativedelta.__init__", "initDiff", [("dt1", "Temporal"), ("dt2", "Temporal")], "RD",
        init_self=True, returns_self=True, ctx=[("off", "Nat → DT → Int")]),
]
for _sp in RD_SPECS:
    _m = _sp.qualname.split(".")[1]
    _at = _sp.params[0][1] if _sp.params and _sp.params[0][0] == "other" else None
    METHODS[(_m, _at)] = (_sp.leanname, _sp.ret, bool(_sp.ctx))


def translate_module(src_root, relfile, specs):
    path = os.path.join(src_root, relfile)
    tree = ast.parse(open(path).read())
    parts, fps = [], {}
    for sp in specs:
        fn = find_function(tree, sp.qualname)
        cls = TrTD if any(t == "TD3" for _, t in sp.params) else Tr
        tr = cls(sp, {})
        try:
            parts.append(indent(tr.function(fn)))
        except Untranslatable as ex:
            raise Untranslatable("%s -> %s: %s" % (sp.qualname, sp.leanname, ex))
        fps["%s/%s" % (sp.qualname, sp.leanname)] = hashlib.sha256(ast.dump(fn).encode()).hexdigest()[:16]
    return "\n".join(parts), fps


if __name__ == "__main__":
    import sys
    text, fps = translate_module(os.path.join(sys.argv[1] if len(sys.argv) > 1 else "/repo", "src", "dateutil"),
                                 "relativedelta.py", RD_SPECS)
    print(text)
