"""
translate_replace.py — `rrule.replace` (src/dateutil/rrule.py) -> `Gen.replaceProgram : ReplacePy.Program` (C12).

The method must have exactly this shape (docstring optional):

    new_kwargs = {<key>: <source>, ...}          # sources: self._<attr>, or `False if self._cache is None else True`
    new_kwargs.update(<self._original_rule | kwargs>)  ...
    return rrule(**new_kwargs)

Keys, attributes, the order of the update calls and the constructor name are COPIED into the Lean value; anything else raises
`Untranslatable`.  What the program means is defined once in Model/ReplacePy.lean; `C12.replace_eq_construct_partial` is about
the value emitted here.
"""
import ast, os, hashlib
from translate import Untranslatable

KEYS = {"interval": "interval", "count": "count", "dtstart": "dtstart", "freq": "freq", "until": "until", "wkst": "wkst", "cache": "cache"}
ATTRS = {"_interval": "attrInterval", "_count": "attrCount", "_dtstart": "attrDtstart", "_freq": "attrFreq", "_until": "attrUntil", "_wkst": "attrWkst"}


def _is_self_attr(e, name=None):
    return (isinstance(e, ast.Attribute) and isinstance(e.value, ast.Name) and e.value.id == "self" and (name is None or e.attr == name))


def _cache_flag(e):
    # False if self._cache is None else True
    return (isinstance(e, ast.IfExp) and isinstance(e.body, ast.Constant) and e.body.value is False
            and isinstance(e.orelse, ast.Constant) and e.orelse.value is True
            and isinstance(e.test, ast.Compare) and len(e.test.ops) == 1 and isinstance(e.test.ops[0], ast.Is)
            and _is_self_attr(e.test.left, "_cache") and isinstance(e.test.comparators[0], ast.Constant) and e.test.comparators[0].value is None)


def translate(srcdir):
    path = os.path.join(srcdir, "rrule.py")
    tree = ast.parse(open(path).read())
    fn = None
    for node in tree.body:
        if isinstance(node, ast.ClassDef) and node.name == "rrule":
            for m in node.body:
                if isinstance(m, ast.FunctionDef) and m.name == "replace":
                    fn = m
    if fn is None:
        raise Untranslatable("rrule.replace not found")
    a = fn.args
    if [x.arg for x in a.args] != ["self"] or a.vararg is not None or a.kwarg is None or a.kwonlyargs or a.defaults:
        raise Untranslatable("rrule.replace: signature is not (self, **kwargs)")
    kwname = a.kwarg.arg
    body = list(fn.body)
    if body and isinstance(body[0], ast.Expr) and isinstance(body[0].value, ast.Constant) and isinstance(body[0].value.value, str):
        body = body[1:]
    if len(body) < 2:
        raise Untranslatable("rrule.replace: body too short")
    first, last = body[0], body[-1]
    if not (isinstance(first, ast.Assign) and len(first.targets) == 1 and isinstance(first.targets[0], ast.Name) and isinstance(first.value, ast.Dict)):
        raise Untranslatable("rrule.replace: first statement is not `<name> = {...}`")
    dname = first.targets[0].id
    literal = []
    for k, v in zip(first.value.keys, first.value.values):
        if not (isinstance(k, ast.Constant) and isinstance(k.value, str) and k.value in KEYS):
            raise Untranslatable("rrule.replace: key %s of the literal" % ast.dump(k))
        if _cache_flag(v):
            src = "cacheFlag"
        elif _is_self_attr(v) and v.attr in ATTRS:
            src = ATTRS[v.attr]
        else:
            raise Untranslatable("rrule.replace: value of key %r: %s" % (k.value, ast.dump(v)))
        literal.append((KEYS[k.value], src))
    updates = []
    for st in body[1:-1]:
        ok = (isinstance(st, ast.Expr) and isinstance(st.value, ast.Call) and isinstance(st.value.func, ast.Attribute)
              and st.value.func.attr == "update" and isinstance(st.value.func.value, ast.Name) and st.value.func.value.id == dname
              and len(st.value.args) == 1 and not st.value.keywords)
        if not ok:
            raise Untranslatable("rrule.replace: statement %s" % ast.dump(st)[:120])
        arg = st.value.args[0]
        if _is_self_attr(arg, "_original_rule"):
            updates.append("originalRule")
        elif isinstance(arg, ast.Name) and arg.id == kwname:
            updates.append("kwargs")
        else:
            raise Untranslatable("rrule.replace: update(%s)" % ast.dump(arg)[:80])
    ok = (isinstance(last, ast.Return) and isinstance(last.value, ast.Call) and isinstance(last.value.func, ast.Name)
          and not last.value.args and len(last.value.keywords) == 1 and last.value.keywords[0].arg is None
          and isinstance(last.value.keywords[0].value, ast.Name) and last.value.keywords[0].value.id == dname)
    if not ok:
        raise Untranslatable("rrule.replace: last statement is not `return <ctor>(**%s)`" % dname)
    ctor = last.value.func.id
    text = "def replaceProgram : ReplacePy.Program :=\n  { literal := [%s],\n    updates := [%s],\n    ctor := \"%s\" }\n" % (
        ", ".join("(.%s, .%s)" % kv for kv in literal), ", ".join("." + u for u in updates), ctor)
    fp = hashlib.sha256(ast.dump(fn).encode()).hexdigest()[:16]
    return text, {"rrule.replace": fp}
