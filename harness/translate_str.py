#!/usr/bin/env python3
"""
translate_str.py — Python AST -> Lean 4 for "StrPy": the text-handling prefix of `_rrulestr._parse_rfc` (the
`compatible` switch, the TZID pre-scan with its two regular expressions, upper-casing, the empty-text check, the UNFOLD
LOOP / `s.split()`), the parameter loop of `_rrulestr._parse_date_value` (the `TZID=` arm with its name table lookup and
the choice of the lookup function, the `VALUE=` arm) and the statement that attaches the looked-up zone to a parsed date.

Target: `lean/DateutilVerif/Model/StrPy.lean` (ASCII strings = `List Char`, lists with Python index read/write/delete,
deterministic three-shape regular expressions, a dict as a list of pairs).  Everything runs in `Py.R` (errors are
exception kinds); a `while` loop becomes a fuel-bounded recursive function (out of fuel = NotImplemented; the declared
bound is `len(lines) + 1`, and `Proofs/RRuleStrGen.lean` proves the loop never runs out).

Statements: `x = e`, `x += e`, `l[i] += e`, `del l[i]`, `if/elif/else`, `while` (one per function), `for x in l:` with
`continue` (a monadic fold over the carried names), `try: x = e except KeyError: continue`, `raise E(...)`, `global`,
`import` (skipped), assignments to names declared DEAD (exception message texts).
Expressions: names, int / str / bool / None literals, `len`, `s.splitlines() .split() .rstrip() .strip() .upper()
.startswith(lit)`, `s.split(lit)[-1]`, `l[i]`, `s[k:]`, `d[k]`, `+ -` on ints, `+` on strings, comparisons, `is None`,
`x not in {lits}`, `and / or / not` (short-circuit), conditional expressions, `re.sub(pat, '', s)`,
`re.findall(pat, s, re.IGNORECASE)`, `dict(map(lambda x: (e1, e2), l))`, `callable(tzids)`, `getattr(tzids, 'get', None)`,
`tz.gettz`, `tzlookup(name)`, `date.tzinfo`, `date.replace(tzinfo=z)`.
Regular expressions are parsed with Python's own parser (`re._parser`) and accepted only in the shapes on which the
deterministic matcher of StrPy equals the backtracking one (see Model/StrPy.lean); anything else is Untranslatable.
"""
import ast, os, hashlib
from translate import Untranslatable, find_function

LEAN_TY = {"Str": "StrPy.Str", "StrList": "List StrPy.Str", "Int": "Int", "Bool": "Bool", "Dict": "StrPy.Dict",
           "Tzids": "StrPy.TzidsKind", "OptLookup": "Option StrPy.Lookup", "OptZone": "Option StrPy.Zone", "Char": "Char",
           "Zone": "StrPy.Zone", "Lookup": "StrPy.Lookup"}

def lean_char(c):
    o = ord(c)
    if o >= 128: raise Untranslatable("non-ASCII character in a literal")
    if c == "'": return "'\\''"
    if c == "\\": return "'\\\\'"
    if c == "\n": return "'\\n'"
    if c == "\r": return "'\\r'"
    if c == "\t": return "'\\t'"
    if o < 32 or o == 127: return "(Char.ofNat %d)" % o
    return "'%s'" % c

def lean_str(s):
    return "[" + ", ".join(lean_char(c) for c in s) + "]"

def regex_items(pat, ignorecase):
    """a Python pattern -> StrPy.ReItem list (or Untranslatable)"""
    import re
    try:
        from re import _parser as sp, _constants as sc
    except ImportError:            # Python < 3.11
        import sre_parse as sp, sre_constants as sc
    try:
        parsed = list(sp.parse(pat, re.IGNORECASE if ignorecase else 0))
    except Exception as ex:
        raise Untranslatable("regular expression %r: %s" % (pat, ex))
    items, groups = [], 0
    def lits_of_in(av, negate):
        av = list(av)
        neg = bool(av and av[0][0] == sc.NEGATE)
        if neg: av = av[1:]
        if neg != negate or not av or any(op != sc.LITERAL for op, _ in av):
            raise Untranslatable("character class in %r" % pat)
        return [chr(a) for _, a in av]
    for op, av in parsed:
        if op == sc.LITERAL:
            items.append(("chr", chr(av)))
        elif op == sc.MAX_REPEAT and av[0] == 0 and av[1] == 1 and len(av[2]) == 1 and av[2][0][0] == sc.LITERAL:
            items.append(("opt", chr(av[2][0][1])))
        elif op == sc.IN:
            items.append(("oneOf", lits_of_in(av, False)))
        elif op == sc.SUBPATTERN:
            sub = list(av[3])
            if len(sub) == 1 and sub[0][0] == sc.MAX_REPEAT and sub[0][1][0] == 1 and sub[0][1][1] == sc.MAXREPEAT \
               and len(sub[0][1][2]) == 1 and sub[0][1][2][0][0] == sc.IN:
                items.append(("plusNot", lits_of_in(sub[0][1][2][0][1], True))); groups += 1
            else:
                raise Untranslatable("group in %r" % pat)
        else:
            raise Untranslatable("regular expression construct %s in %r" % (op, pat))
    # determinism side conditions
    fold = (lambda c: c.upper()) if ignorecase else (lambda c: c)
    def first_set(it):
        return {fold(it[1])} if it[0] in ("chr", "opt") else ({fold(c) for c in it[1]} if it[0] == "oneOf" else None)
    for k, it in enumerate(items):
        nxt = items[k + 1] if k + 1 < len(items) else None
        if it[0] == "opt":
            if nxt is None or nxt[0] not in ("chr", "oneOf") or fold(it[1]) in first_set(nxt):
                raise Untranslatable("optional character not followed by a different literal in %r" % pat)
        if it[0] == "plusNot":
            if nxt is None or nxt[0] != "oneOf" or not {fold(c) for c in nxt[1]} <= {fold(c) for c in it[1]}:
                raise Untranslatable("[^..]+ not followed by a class it excludes in %r" % pat)
    if groups > 1 or not items or all(it[0] == "opt" for it in items):
        raise Untranslatable("pattern shape %r" % pat)
    def show(it):
        if it[0] in ("chr", "opt"): return ".%s %s" % (it[0], lean_char(it[1]))
        return ".%s [%s]" % (it[0], ", ".join(lean_char(c) for c in it[1]))
    return "[" + ", ".join(show(it) for it in items) + "]", groups

class Tr:
    def __init__(self, types, dead=(), attrs=None):
        self.types = dict(types)       # python name -> StrPy type
        self.defined = set()           # names bound so far (parameters are added by the caller)
        self.dead = set(dead)
        self.attrs = attrs or {}       # (name, attr) -> variable name
        self.n = 0
        self.aux = []                  # auxiliary definitions (loops)
        self.loop = None               # (continue-expression) inside a for body
        self.fname = "?"

    def fresh(self, base="v"):
        self.n += 1
        return "%s%d" % (base, self.n)

    # ------------------------------------------------------------------ expressions: (binds, lean, type)
    def wrap(self, binds, body):
        for name, m in reversed(binds):
            body = "(%s) >>= fun %s =>\n%s" % (m, name, body)
        return body

    def pure_or_m(self, binds, e):
        """an expression with its bindings as ONE monadic value"""
        return self.wrap(binds, "(.ok %s)" % e)

    def ex(self, e, want=None):
        if isinstance(e, ast.Constant):
            v = e.value
            if v is True: return [], "true", "Bool"
            if v is False: return [], "false", "Bool"
            if v is None:
                if want in ("OptZone", "OptLookup"): return [], "none", want
                raise Untranslatable("None in a non-optional position")
            if isinstance(v, int): return [], "(%d : Int)" % v, "Int"
            if isinstance(v, str):
                if want == "Char":
                    if len(v) != 1: raise Untranslatable("character compared with %r" % v)
                    return [], lean_char(v), "Char"
                return [], "(%s : StrPy.Str)" % lean_str(v), "Str"
            raise Untranslatable("constant %r" % (v,))
        if isinstance(e, ast.Name):
            if e.id not in self.types: raise Untranslatable("name %s" % e.id)
            return [], e.id, self.types[e.id]
        if isinstance(e, ast.Attribute):
            if isinstance(e.value, ast.Name) and (e.value.id, e.attr) in self.attrs:
                v = self.attrs[(e.value.id, e.attr)]
                return [], v, self.types[v]
            if isinstance(e.value, ast.Name) and e.value.id == "tz" and e.attr == "gettz":
                return [], "StrPy.Lookup.gettz", "Lookup"
            raise Untranslatable("attribute %s" % ast.dump(e))
        if isinstance(e, ast.IfExp):
            cb, c, ct = self.ex(e.test); self.need(ct, "Bool")
            if cb: raise Untranslatable("raising condition in a conditional expression")
            ab, a, at = self.ex(e.body); bb, b, bt = self.ex(e.orelse)
            if at != bt: raise Untranslatable("conditional expression of two types")
            if ab or bb:
                v = self.fresh()
                return [(v, "if %s then %s else %s" % (c, self.pure_or_m(ab, a), self.pure_or_m(bb, b)))], v, at
            return [], "(if %s then %s else %s)" % (c, a, b), at
        if isinstance(e, ast.UnaryOp) and isinstance(e.op, ast.Not):
            b, x, t = self.ex(e.operand)
            if t in ("Str", "StrList", "Dict"): return b, "(%s).isEmpty" % x, "Bool"
            if t == "Bool": return b, "(!%s)" % x, "Bool"
            raise Untranslatable("not on %s" % t)
        if isinstance(e, ast.BoolOp):
            vals = [self.truth(v) for v in e.values]
            binds, cur = vals[0][0], vals[0][1]
            for b, x in vals[1:]:
                if b:      # short circuit around something that can raise
                    v = self.fresh("c")
                    if isinstance(e.op, ast.And):
                        m = "if %s then %s else (.ok false)" % (cur, self.pure_or_m(b, x))
                    else:
                        m = "if %s then (.ok true) else %s" % (cur, self.pure_or_m(b, x))
                    binds = binds + [(v, m)]; cur = v
                else:
                    cur = "(%s %s %s)" % (cur, "&&" if isinstance(e.op, ast.And) else "||", x)
            return binds, cur, "Bool"
        if isinstance(e, ast.Compare) and len(e.ops) == 1:
            op, l, r = e.ops[0], e.left, e.comparators[0]
            if isinstance(op, (ast.Is, ast.IsNot)) and isinstance(r, ast.Constant) and r.value is None:
                b, x, t = self.ex(l)
                if t == "Tzids":
                    s = "(%s == StrPy.TzidsKind.none)" % x
                elif t in ("OptZone", "OptLookup"):
                    s = "(%s).isNone" % x
                else: raise Untranslatable("is None on %s" % t)
                return b, s if isinstance(op, ast.Is) else "(!%s)" % s, "Bool"
            if isinstance(op, (ast.In, ast.NotIn)) and isinstance(r, (ast.Set, ast.Tuple, ast.List)) \
               and all(isinstance(x, ast.Constant) and isinstance(x.value, str) for x in r.elts):
                b, x, t = self.ex(l); self.need(t, "Str")
                s = "([%s].contains %s)" % (", ".join(lean_str(c.value) for c in r.elts), x)
                return b, s if isinstance(op, ast.In) else "(!%s)" % s, "Bool"
            lb, lx, lt = self.ex(l)
            rb, rx, rt = self.ex(r, want=lt if lt == "Char" else None)
            if lt != rt: raise Untranslatable("comparison of %s with %s" % (lt, rt))
            sym = {ast.Lt: "<", ast.Gt: ">", ast.LtE: "≤", ast.GtE: "≥", ast.Eq: "==", ast.NotEq: "!="}.get(type(op))
            if sym is None or (lt != "Int" and sym not in ("==", "!=")): raise Untranslatable("comparison %s" % type(op).__name__)
            return lb + rb, ("(%s %s %s)" % (lx, sym, rx)) if sym in ("==", "!=") else "(decide (%s %s %s))" % (lx, sym, rx), "Bool"
        if isinstance(e, ast.BinOp) and isinstance(e.op, (ast.Add, ast.Sub)):
            lb, lx, lt = self.ex(e.left); rb, rx, rt = self.ex(e.right)
            if lt == rt == "Int": return lb + rb, "(%s %s %s)" % (lx, "+" if isinstance(e.op, ast.Add) else "-", rx), "Int"
            if lt == rt == "Str" and isinstance(e.op, ast.Add): return lb + rb, "(%s ++ %s)" % (lx, rx), "Str"
            raise Untranslatable("binary operator on %s, %s" % (lt, rt))
        if isinstance(e, ast.Subscript):
            # s.split(lit)[-1]
            if isinstance(e.value, ast.Call) and isinstance(e.value.func, ast.Attribute) and e.value.func.attr == "split" \
               and len(e.value.args) == 1 and isinstance(e.value.args[0], ast.Constant) and isinstance(e.value.args[0].value, str) \
               and e.value.args[0].value and isinstance(e.slice, ast.UnaryOp) and isinstance(e.slice.op, ast.USub) \
               and isinstance(e.slice.operand, ast.Constant) and e.slice.operand.value == 1:
                b, x, t = self.ex(e.value.func.value); self.need(t, "Str")
                return b, "(StrPy.afterLast %s %s)" % (lean_str(e.value.args[0].value), x), "Str"
            b, x, t = self.ex(e.value)
            if isinstance(e.slice, ast.Slice):
                if t == "Str" and e.slice.upper is None and e.slice.step is None and isinstance(e.slice.lower, ast.Constant) \
                   and isinstance(e.slice.lower.value, int) and e.slice.lower.value >= 0:
                    return b, "(StrPy.sliceFrom %s %d)" % (x, e.slice.lower.value), "Str"
                raise Untranslatable("slice")
            ib, ix, it = self.ex(e.slice)
            v = self.fresh()
            if t == "Dict":
                self.need(it, "Str"); return b + ib + [(v, "StrPy.dictGet %s %s" % (x, ix))], v, "Str"
            self.need(it, "Int")
            if t == "StrList": return b + ib + [(v, "StrPy.getL %s %s" % (x, ix))], v, "Str"
            if t == "Str": return b + ib + [(v, "StrPy.getL %s %s" % (x, ix))], v, "Char"
            raise Untranslatable("subscript on %s" % t)
        if isinstance(e, ast.Call):
            f = e.func
            if isinstance(f, ast.Name) and f.id == "len" and len(e.args) == 1:
                b, x, t = self.ex(e.args[0])
                if t not in ("Str", "StrList"): raise Untranslatable("len of %s" % t)
                return b, "((%s).length : Int)" % x, "Int"
            if isinstance(f, ast.Name) and f.id == "callable" and len(e.args) == 1:
                b, x, t = self.ex(e.args[0]); self.need(t, "Tzids")
                return b, "(%s == StrPy.TzidsKind.callable)" % x, "Bool"
            if isinstance(f, ast.Name) and f.id == "getattr" and len(e.args) == 3 and isinstance(e.args[1], ast.Constant) \
               and e.args[1].value == "get" and isinstance(e.args[2], ast.Constant) and e.args[2].value is None:
                b, x, t = self.ex(e.args[0]); self.need(t, "Tzids")
                return b, "(if %s == StrPy.TzidsKind.mapping then some StrPy.Lookup.get else none)" % x, "OptLookup"
            if isinstance(f, ast.Name) and self.types.get(f.id) == "OptLookup" and len(e.args) == 1 and not e.keywords:
                b, x, t = self.ex(e.args[0]); self.need(t, "Str")
                v = self.fresh("z")
                return b + [(v, "match %s with | some f => .ok (StrPy.Zone.looked f %s) | none => .error .TypeError" % (f.id, x))], v, "Zone"
            if isinstance(f, ast.Name) and f.id == "dict" and len(e.args) == 1 and isinstance(e.args[0], ast.Call) \
               and isinstance(e.args[0].func, ast.Name) and e.args[0].func.id == "map" and len(e.args[0].args) == 2 \
               and isinstance(e.args[0].args[0], ast.Lambda):
                lam, lst = e.args[0].args
                if len(lam.args.args) != 1 or not isinstance(lam.body, ast.Tuple) or len(lam.body.elts) != 2:
                    raise Untranslatable("lambda shape")
                b, x, t = self.ex(lst); self.need(t, "StrList")
                p = lam.args.args[0].arg
                saved = self.types.get(p); self.types[p] = "Str"
                kb, kx, kt = self.ex(lam.body.elts[0]); vb, vx, vt = self.ex(lam.body.elts[1])
                if saved is None: del self.types[p]
                else: self.types[p] = saved
                if kb or vb or kt != "Str" or vt != "Str": raise Untranslatable("lambda body")
                return b, "((%s).map (fun %s => (%s, %s)))" % (x, p, kx, vx), "Dict"
            if isinstance(f, ast.Attribute) and isinstance(f.value, ast.Name) and f.value.id == "re":
                if f.attr == "sub" and len(e.args) == 3 and not e.keywords and all(isinstance(a, ast.Constant) for a in e.args[:2]) \
                   and e.args[1].value == "":
                    items, _ = regex_items(e.args[0].value, False)
                    b, x, t = self.ex(e.args[2]); self.need(t, "Str")
                    return b, "(StrPy.subDelete false %s %s)" % (items, x), "Str"
                if f.attr == "findall" and len(e.args) in (2, 3) and not e.keywords and isinstance(e.args[0], ast.Constant):
                    ic = False
                    if len(e.args) == 3:
                        fl = e.args[2]
                        if not (isinstance(fl, ast.Attribute) and isinstance(fl.value, ast.Name) and fl.value.id == "re" and fl.attr in ("IGNORECASE", "I")):
                            raise Untranslatable("regular expression flags")
                        ic = True
                    items, groups = regex_items(e.args[0].value, ic)
                    if groups != 1: raise Untranslatable("findall needs exactly one group")
                    b, x, t = self.ex(e.args[1]); self.need(t, "Str")
                    return b, "(StrPy.findall %s %s %s)" % ("true" if ic else "false", items, x), "StrList"
                raise Untranslatable("re.%s" % f.attr)
            if isinstance(f, ast.Attribute):
                b, x, t = self.ex(f.value)
                if t == "Str" and not e.keywords:
                    if f.attr in ("rstrip", "strip", "upper", "splitlines") and not e.args:
                        fn, rt = {"rstrip": ("ICal.rstrip", "Str"), "strip": ("ICal.strip", "Str"), "upper": ("ICal.upper", "Str"),
                                  "splitlines": ("ICal.splitLines", "StrList")}[f.attr]
                        return b, "(%s %s)" % (fn, x), rt
                    if f.attr == "split" and not e.args:
                        return b, "(RRuleStr.splitWs %s)" % x, "StrList"
                    if f.attr == "startswith" and len(e.args) == 1 and isinstance(e.args[0], ast.Constant) and isinstance(e.args[0].value, str):
                        return b, "(StrPy.startsWith %s %s)" % (x, lean_str(e.args[0].value)), "Bool"
                raise Untranslatable("method %s on %s" % (f.attr, t))
        raise Untranslatable(ast.dump(e)[:120])

    def need(self, t, want):
        if t != want: raise Untranslatable("expected %s, found %s" % (want, t))

    def truth(self, e):
        b, x, t = self.ex(e)
        if t == "Bool": return b, x
        if t in ("Str", "StrList", "Dict"): return b, "(!(%s).isEmpty)" % x
        if t == "Int": return b, "(%s != 0)" % x
        if t in ("OptZone", "OptLookup"): return b, "(%s).isSome" % x
        raise Untranslatable("truth value of %s" % t)

    # ------------------------------------------------------------------ statements (continuation passing)
    def coerce(self, x, t, want):
        if t == want: return x
        if (t, want) in (("Zone", "OptZone"), ("Lookup", "OptLookup")): return "(some %s)" % x
        if (t, want) == ("Tzids", "OptLookup"): return "(some StrPy.Lookup.call)"      # the object itself is the lookup: it is called
        raise Untranslatable("assignment of %s to a %s variable" % (t, want))

    def assign(self, name, e, cont):
        if name in self.dead: return cont()
        want = self.types.get(name)
        b, x, t = self.ex(e, want=want)
        if want is None:
            self.types[name] = want = t
        self.defined.add(name)
        return self.wrap(b, "let %s : %s := %s\n%s" % (name, LEAN_TY[want], self.coerce(x, t, want), cont()))

    def simple(self, stmts):
        return all(isinstance(st, ast.Assign) and len(st.targets) == 1 and isinstance(st.targets[0], ast.Name)
                   and isinstance(st.value, (ast.Constant, ast.Name)) for st in stmts)

    def block(self, stmts, k):
        if not stmts: return k()
        s, rest = stmts[0], stmts[1:]
        cont = lambda: self.block(rest, k)
        if isinstance(s, (ast.Global, ast.Import, ast.ImportFrom, ast.Pass)): return cont()
        if isinstance(s, ast.Expr) and isinstance(s.value, ast.Constant) and isinstance(s.value.value, str): return cont()
        if isinstance(s, ast.Assign) and len(s.targets) == 1 and isinstance(s.targets[0], ast.Name):
            tgt = s.targets[0].id
            v = s.value
            if isinstance(v, ast.Call) and isinstance(v.func, ast.Attribute) and v.func.attr == "replace" and isinstance(v.func.value, ast.Name) \
               and v.func.value.id == tgt and not v.args and len(v.keywords) == 1 and (tgt, v.keywords[0].arg) in self.attrs:
                return self.assign(self.attrs[(tgt, v.keywords[0].arg)], v.keywords[0].value, cont)
            return self.assign(tgt, v, cont)
        if isinstance(s, ast.AugAssign) and isinstance(s.op, ast.Add):
            if isinstance(s.target, ast.Name):
                return self.assign(s.target.id, ast.BinOp(left=ast.Name(id=s.target.id, ctx=ast.Load()), op=ast.Add(), right=s.value), cont)
            if isinstance(s.target, ast.Subscript) and isinstance(s.target.value, ast.Name) and self.types.get(s.target.value.id) == "StrList":
                l = s.target.value.id
                ib, ix, it = self.ex(s.target.slice); self.need(it, "Int")
                vb, vx, vt = self.ex(s.value); self.need(vt, "Str")
                old = self.fresh("old")
                return self.wrap(ib + [(old, "StrPy.getL %s %s" % (l, ix))] + vb + [(l, "StrPy.setL %s %s (%s ++ %s)" % (l, ix, old, vx))], cont())
        if isinstance(s, ast.Delete) and len(s.targets) == 1 and isinstance(s.targets[0], ast.Subscript) \
           and isinstance(s.targets[0].value, ast.Name) and self.types.get(s.targets[0].value.id) == "StrList":
            l = s.targets[0].value.id
            ib, ix, it = self.ex(s.targets[0].slice); self.need(it, "Int")
            return self.wrap(ib + [(l, "StrPy.delL %s %s" % (l, ix))], cont())
        if isinstance(s, ast.Raise):
            exc = s.exc
            name = exc.func.id if isinstance(exc, ast.Call) and isinstance(exc.func, ast.Name) else (exc.id if isinstance(exc, ast.Name) else None)
            if name not in ("ValueError", "KeyError", "TypeError"): raise Untranslatable("raise %s" % name)
            return ".error .%s" % name
        if isinstance(s, ast.Continue):
            if self.loop is None: raise Untranslatable("continue outside a for loop")
            return self.loop()
        if isinstance(s, ast.If) and not s.orelse and all(isinstance(x, (ast.Import, ast.ImportFrom)) for x in s.body):
            return cont()              # a lazy import (`if not parser: from dateutil import parser`)
        if isinstance(s, ast.If) and self.simple(s.body) and self.simple(s.orelse):
            # both arms only assign: merge the assigned names (they must be bound already)
            b, c = self.truth(s.test)
            names = sorted({st.targets[0].id for st in s.body + s.orelse})
            if b or any(n not in self.defined for n in names): raise Untranslatable("conditional first assignment")
            tup = "(" + ", ".join(names) + ")"
            return "let %s := if %s then\n%s\nelse\n%s\n%s" % (tup, c, self.block(s.body, lambda: tup), self.block(s.orelse, lambda: tup), cont())
        if isinstance(s, ast.If):
            b, c = self.truth(s.test)
            # the continuation is duplicated into both arms (the translated functions are short)
            return self.wrap(b, "if %s then\n%s\nelse\n%s" % (c, self.block(s.body + rest, k), self.block(s.orelse + rest, k)))
        if isinstance(s, ast.Try):
            if len(s.body) == 1 and isinstance(s.body[0], ast.Assign) and isinstance(s.body[0].targets[0], ast.Name) and len(s.handlers) == 1 \
               and isinstance(s.handlers[0].type, ast.Name) and s.handlers[0].type.id == "KeyError" and not s.orelse and not s.finalbody:
                tgt = s.body[0].targets[0].id
                b, x, t = self.ex(s.body[0].value)
                self.types.setdefault(tgt, t)
                handler = self.block(s.handlers[0].body + rest, k)
                v = self.fresh("e")
                self.defined.add(tgt)
                return "(match (%s) with\n| .ok %s =>\n%s\n| .error .KeyError =>\n%s\n| .error %s => .error %s)" % (
                    self.pure_or_m(b, x), tgt, cont(), handler, v, v)
            raise Untranslatable("try statement shape")
        if isinstance(s, ast.While):
            if s.orelse: raise Untranslatable("while-else")
            carried = sorted({n.id for st in s.body for n in ast.walk(st) if isinstance(n, ast.Name) and isinstance(n.ctx, (ast.Store, ast.Del))}
                             | {st.targets[0].value.id for st in ast.walk(s) if isinstance(st, ast.Delete) and isinstance(st.targets[0], ast.Subscript)}
                             | {n.target.value.id for n in ast.walk(s) if isinstance(n, ast.AugAssign) and isinstance(n.target, ast.Subscript)})
            localv = [n for n in carried if n not in self.defined]
            carried = [n for n in carried if n in self.defined]
            free = sorted({n.id for n in ast.walk(s) if isinstance(n, ast.Name) and n.id in self.types} - set(carried))
            name = self.fname + "Loop"
            tup = "(" + ", ".join(carried) + ")"
            cb, c = self.truth(s.test)
            call = "%s fuel %s" % (name, " ".join(free + carried))
            body = self.block(s.body, lambda: call)
            for n in localv: self.types.pop(n, None); self.defined.discard(n)
            params = " ".join("(%s : %s)" % (n, LEAN_TY[self.types[n]]) for n in free + carried)
            rty = " × ".join(LEAN_TY[self.types[n]] for n in carried)
            if not any(a.split(" (fuel")[0].endswith("def " + name) for a in self.aux): self.aux.append("/-- the `while` loop of `%s` (fuel-bounded: out of fuel = NotImplemented) -/\n"
                            "def %s (fuel : Nat) %s : Py.R (%s) :=\n  match fuel with\n  | 0 => .error .NotImplemented\n  | fuel + 1 =>\n%s\n" % (
                                self.fname, name, params, rty,
                                indent(self.wrap(cb, "if %s then\n%s\nelse .ok %s" % (c, body, tup)), 4)))
            bound = self.loop_bound
            return "(%s (%s) %s) >>= fun %s =>\n%s" % (name, bound, " ".join(free + carried), tup, cont())
        if isinstance(s, ast.For):
            if s.orelse or not isinstance(s.target, ast.Name): raise Untranslatable("for shape")
            b, x, t = self.ex(s.iter); self.need(t, "StrList")
            assigned = {n.id for st in s.body for n in ast.walk(st) if isinstance(n, ast.Name) and isinstance(n.ctx, ast.Store)}
            carried = sorted(n for n in assigned if n in self.defined)
            tup = "(" + ", ".join(carried) + ")"
            self.types[s.target.id] = "Str"; self.defined.add(s.target.id)
            saved = self.loop
            self.loop = lambda: ".ok %s" % tup
            body = self.block(s.body, lambda: ".ok %s" % tup)
            self.loop = saved
            rty = " × ".join(LEAN_TY[self.types[n]] for n in carried)
            step = "(fun (st : %s) (%s : StrPy.Str) =>\nlet %s := st\n(%s : Py.R (%s)))" % (rty, s.target.id, tup, body, rty)
            return self.wrap(b, "((%s).foldlM %s %s) >>= fun %s =>\n%s" % (x, step, tup, tup, cont()))
        raise Untranslatable("statement %s" % type(s).__name__)

def indent(text, n=2):
    return "\n".join((" " * n + l) if l else l for l in text.split("\n"))

def fingerprint(nodes):
    return hashlib.sha256("".join(ast.dump(n) for n in nodes).encode()).hexdigest()[:16]

def locate(src):
    """the statements translated, as AST nodes (also used by the harness to EXECUTE the same statements)"""
    tree = ast.parse(open(os.path.join(src, "rrule.py")).read())
    rfc = find_function(tree, "_rrulestr._parse_rfc")
    k = next((i for i, st in enumerate(rfc.body) if isinstance(st, ast.If) and isinstance(st.test, ast.Name) and st.test.id == "unfold"), None)
    if k is None: raise Untranslatable("_parse_rfc: no `if unfold:` statement")
    prefix = rfc.body[:k + 1]
    pdv = find_function(tree, "_rrulestr._parse_date_value")
    f1 = next((i for i, st in enumerate(pdv.body) if isinstance(st, ast.For) and isinstance(st.target, ast.Name) and st.target.id == "parm"), None)
    if f1 is None: raise Untranslatable("_parse_date_value: no `for parm in parms:` loop")
    parms = pdv.body[:f1 + 1]
    f2 = [st for st in pdv.body[f1 + 1:] if isinstance(st, ast.For)]
    if len(f2) != 1: raise Untranslatable("_parse_date_value: expected one loop over the date strings")
    attach = [st for st in f2[0].body if isinstance(st, ast.If) and any(isinstance(n, ast.Name) and n.id == "TZID" for n in ast.walk(st.test))]
    others = [st for st in f2[0].body if st not in attach]
    # the rest of that loop body must not touch TZID or the zone of the date
    for st in others:
        for n in ast.walk(st):
            if isinstance(n, ast.Name) and n.id == "TZID": raise Untranslatable("_parse_date_value: TZID used outside the attach statement")
    if len(attach) != 1: raise Untranslatable("_parse_date_value: expected one `if TZID is not None:` statement")
    disp = None
    try:
        els = rfc.body[k + 1].orelse
        disp = next(st for st in els if isinstance(st, ast.For))
    except Exception:
        pass
    return {"dispatch": disp, "pdv": pdv, "prefix": prefix, "parms": parms, "attach": attach, "rfc_args": [a.arg for a in rfc.args.args], "pdv_args": [a.arg for a in pdv.args.args]}

def strip_docstring(body):
    return body[1:] if body and isinstance(body[0], ast.Expr) and isinstance(body[0].value, ast.Constant) and isinstance(body[0].value.value, str) else body

# ---------------------------------------------------------------------------------------------------------------------
# rrule.__str__  ->  Gen.rruleStr : RRuleStr.StrIn -> List Char
#
# The method is straight-line code over lists that only grow (`output`, `parts`, `wday_strings`): every statement is matched
# against the statement shapes below and every expression is translated; anything else is Untranslatable.
#   self._dtstart / self._until   Option (y, m, d, hh, mm, ss)     truth value = present
#   self._freq / _interval / _wkst / _count                        Nat / Int / Int / Option Int
#   self._original_rule           the recorded BY arguments (RRuleStr.RArgs); byweekday holds weekday objects (weekday, n)
#   calendar.firstweekday()       x.fwd
#   '<lit>%04d' % e, e.strftime('<%m %d %H %M %S and literals>'), str(e), repr(weekday)[0:2], '{n:+d}{wday}'.format(...),
#   '{name}={vals}'.format(...), ','.join(str(v) for v in value), FREQNAMES[e], lit + e, sep.join(list)

STR_KEYS = {"bysetpos": "IntList", "bymonth": "IntList", "bymonthday": "IntList", "byyearday": "IntList", "byeaster": "IntList",
            "byweekno": "IntList", "byweekday": "WDayList", "byhour": "IntList", "byminute": "IntList", "bysecond": "IntList"}
SELF_ATTRS = {"_dtstart": ("x.dtstart", "OptSix"), "_until": ("x.untilV", "OptSix"), "_freq": ("x.freq", "Nat"),
              "_interval": ("x.interval", "Int"), "_wkst": ("x.wkst", "Int"), "_count": ("x.count", "OptInt")}
SIX = ["year", "month", "day", "hour", "minute", "second"]
STRF = {"Y": ("RRuleStr.pad 4", 0), "m": ("RRuleStr.pad 2", 1), "d": ("RRuleStr.pad 2", 2), "H": ("RRuleStr.pad 2", 3),
        "M": ("RRuleStr.pad 2", 4), "S": ("RRuleStr.pad 2", 5)}

def mlit(v):
    """a string literal of `__str__`: `RRuleStr.lit "…"` when it is plain printable text (the model is written that way), else a character list"""
    if len(v) > 1 and all(32 <= ord(c) < 127 and c not in '"\\' for c in v):
        return '(RRuleStr.lit "%s")' % v
    return lean_str(v)

class StrMethod:
    def __init__(self):
        self.env = {}        # python name -> (lean expr, type)
        self.lines = []      # `let` lines
        self.n = 0

    def bind(self, name, expr, ty):
        self.n += 1
        v = "%s%d" % (name.replace("_", ""), self.n)
        self.lines.append("let %s := %s" % (v, expr))
        self.env[name] = (v, ty)

    def is_self(self, e, attr=None):
        return isinstance(e, ast.Attribute) and isinstance(e.value, ast.Name) and e.value.id == "self" and (attr is None or e.attr == attr)

    # ---- expressions of type Str / Int / lists
    def ex(self, e):
        if isinstance(e, ast.Constant) and isinstance(e.value, str):
            return mlit(e.value), "Str"
        if isinstance(e, ast.Constant) and isinstance(e.value, int) and not isinstance(e.value, bool):
            return "(%d : Int)" % e.value, "Int"
        if isinstance(e, ast.Name):
            if e.id not in self.env: raise Untranslatable("__str__: name %s" % e.id)
            return self.env[e.id]
        if self.is_self(e) and e.attr in SELF_ATTRS:
            return SELF_ATTRS[e.attr]
        if isinstance(e, ast.Attribute) and e.attr in SIX:
            b, t = self.ex(e.value)
            if t != "Six": raise Untranslatable("__str__: .%s of %s" % (e.attr, t))
            return "(RRuleStr.sixGet %s %d)" % (b, SIX.index(e.attr)), "Nat"
        if isinstance(e, ast.Attribute) and e.attr == "n":
            b, t = self.ex(e.value)
            if t != "WDay": raise Untranslatable("__str__: .n of %s" % t)
            return "%s.2" % b, "OptInt"
        if isinstance(e, ast.BinOp) and isinstance(e.op, ast.Add):
            l, lt = self.ex(e.left); r, rt = self.ex(e.right)
            if lt == rt == "Str": return "(%s ++ %s)" % (l, r), "Str"
            raise Untranslatable("__str__: + on %s, %s" % (lt, rt))
        if isinstance(e, ast.BinOp) and isinstance(e.op, ast.Mod) and isinstance(e.left, ast.Constant) and isinstance(e.left.value, str):
            fmt = e.left.value
            if not fmt.endswith("%04d") or "%" in fmt[:-4]: raise Untranslatable("__str__: format %r" % fmt)
            r, rt = self.ex(e.right)
            if rt != "Nat": raise Untranslatable("__str__: %%04d of %s" % rt)
            return "(%s ++ RRuleStr.pad 4 %s)" % (mlit(fmt[:-4]), r), "Str"
        if isinstance(e, ast.Subscript):
            if isinstance(e.value, ast.Name) and e.value.id == "FREQNAMES":
                i, it = self.ex(e.slice)
                if it != "Nat": raise Untranslatable("__str__: FREQNAMES index")
                return "((Gen.FREQNAMES.getD %s \"\").toList)" % i, "Str"
            if isinstance(e.slice, ast.Slice) and isinstance(e.slice.lower, ast.Constant) and e.slice.lower.value == 0 \
               and isinstance(e.slice.upper, ast.Constant) and isinstance(e.slice.upper.value, int) and e.slice.step is None:
                b, t = self.ex(e.value)
                if t != "Str": raise Untranslatable("__str__: slice of %s" % t)
                return "(List.take %d %s)" % (e.slice.upper.value, b), "Str"
            if isinstance(e.value, ast.Name) and e.value.id == "original_rule" and isinstance(e.slice, ast.Constant) and e.slice.value in STR_KEYS:
                return self.env["original_rule." + e.slice.value]
            raise Untranslatable("__str__: subscript")
        if isinstance(e, ast.Call):
            f = e.func
            if isinstance(f, ast.Name) and f.id == "str" and len(e.args) == 1:
                b, t = self.ex(e.args[0])
                if t == "Int": return "(RRuleStr.showInt %s)" % b, "Str"
                if t == "Str": return b, "Str"
                raise Untranslatable("__str__: str() of %s" % t)
            if isinstance(f, ast.Name) and f.id == "repr" and len(e.args) == 1:
                a = e.args[0]
                if isinstance(a, ast.Call) and isinstance(a.func, ast.Name) and a.func.id == "weekday" and len(a.args) == 1:
                    b, t = self.ex(a.args[0])
                    if t != "Int": raise Untranslatable("__str__: weekday(%s)" % t)
                    return "(RRuleStr.weekdayRepr (%s, none))" % b, "Str"
                b, t = self.ex(a)
                if t != "WDay": raise Untranslatable("__str__: repr of %s" % t)
                return "(RRuleStr.weekdayRepr %s)" % b, "Str"
            if isinstance(f, ast.Attribute) and f.attr == "strftime" and len(e.args) == 1 and isinstance(e.args[0], ast.Constant):
                b, t = self.ex(f.value)
                if t != "Six": raise Untranslatable("__str__: strftime of %s" % t)
                fmt, out, k = e.args[0].value, [], 0
                while k < len(fmt):
                    if fmt[k] == "%":
                        if k + 1 >= len(fmt) or fmt[k + 1] not in STRF: raise Untranslatable("__str__: strftime directive in %r" % fmt)
                        fn, idx = STRF[fmt[k + 1]]
                        out.append("%s (RRuleStr.sixGet %s %d)" % (fn, b, idx)); k += 2
                    else:
                        out.append(lean_str(fmt[k])); k += 1
                return "(" + " ++ ".join(out) + ")", "Str"
            if isinstance(f, ast.Attribute) and f.attr == "format" and isinstance(f.value, (ast.Constant, ast.Name)) and not e.args:
                fmt = f.value.value if isinstance(f.value, ast.Constant) else self.env.get(f.value.id, (None, None))[0]
                if isinstance(f.value, ast.Name) and self.env.get(f.value.id, (None, None))[1] != "FmtLit": raise Untranslatable("__str__: format receiver")
                kws = {k.arg: k.value for k in e.keywords}
                import re as _re
                out, pos = [], 0
                for m in _re.finditer(r"\{(\w+)(:\+d)?\}", fmt):
                    if m.start() > pos: out.append(mlit(fmt[pos:m.start()]))
                    if m.group(1) not in kws: raise Untranslatable("__str__: format field %s" % m.group(1))
                    b, t = self.ex(kws[m.group(1)])
                    if m.group(2):
                        if t != "Int": raise Untranslatable("__str__: {:+d} of %s" % t)
                        out.append("RRuleStr.showIntSigned %s" % b)
                    else:
                        if t != "Str": raise Untranslatable("__str__: {} of %s" % t)
                        out.append(b)
                    pos = m.end()
                if "{" in fmt[pos:] or "}" in fmt[pos:]: raise Untranslatable("__str__: format string %r" % fmt)
                if pos < len(fmt): out.append(mlit(fmt[pos:]))
                return "(" + " ++ ".join(out) + ")", "Str"
            if isinstance(f, ast.Attribute) and f.attr == "join" and isinstance(f.value, ast.Constant) and isinstance(f.value.value, str) and len(e.args) == 1:
                a = e.args[0]
                if isinstance(a, ast.GeneratorExp) and len(a.generators) == 1 and not a.generators[0].ifs and isinstance(a.generators[0].target, ast.Name):
                    lst, lt = self.ex(a.generators[0].iter)
                    if lt not in ("IntListV", "StrListV"): raise Untranslatable("__str__: join over %s" % lt)
                    v = a.generators[0].target.id
                    saved = self.env.get(v)
                    self.env[v] = (v, "Int" if lt == "IntListV" else "Str")
                    b, t = self.ex(a.elt)
                    if saved is None: del self.env[v]
                    else: self.env[v] = saved
                    if t != "Str": raise Untranslatable("__str__: join element")
                    return "(RRuleStr.intercalate %s (%s.map (fun %s => %s)))" % (lean_str(f.value.value), lst, v, b), "Str"
                lst, lt = self.ex(a)
                if lt != "StrListV": raise Untranslatable("__str__: join of %s" % lt)
                return "(RRuleStr.intercalate %s %s)" % (lean_str(f.value.value), lst), "Str"
            if isinstance(f, ast.Attribute) and f.attr == "firstweekday" and isinstance(f.value, ast.Name) and f.value.id == "calendar" and not e.args:
                return "x.fwd", "Int"
        raise Untranslatable("__str__: expression %s" % ast.dump(e)[:100])

    def cond(self, e):
        """(kind, payload): ('bool', lean) or ('some', optexpr, boundname, boundtype)"""
        if isinstance(e, ast.BoolOp) and isinstance(e.op, ast.Or):
            parts = [self.cond(v) for v in e.values]
            if any(p[0] != "bool" for p in parts): raise Untranslatable("__str__: or over optional values")
            return ("bool", "(" + " || ".join(p[1] for p in parts) + ")")
        if isinstance(e, ast.Compare) and len(e.ops) == 1:
            if isinstance(e.ops[0], ast.IsNot) and isinstance(e.comparators[0], ast.Constant) and e.comparators[0].value is None:
                b, t = self.ex(e.left)
                if t == "OptInt": return ("some", b, "Int")
                raise Untranslatable("__str__: is not None on %s" % t)
            if isinstance(e.ops[0], ast.NotEq):
                l, lt = self.ex(e.left); r, rt = self.ex(e.comparators[0])
                if lt == rt == "Int": return ("bool", "(%s != %s)" % (l, r))
            raise Untranslatable("__str__: comparison")
        b, t = self.ex(e)
        if t == "Int": return ("bool", "(%s != 0)" % b)
        if t == "OptSix": return ("some", b, "Six")
        if t == "OptInt": return ("someNZ", b, "Int")
        raise Untranslatable("__str__: truth value of %s" % t)

    def append_stmt(self, st):
        """`L.append(e)` -> (L, e-expr)"""
        if isinstance(st, ast.Expr) and isinstance(st.value, ast.Call) and isinstance(st.value.func, ast.Attribute) and st.value.func.attr == "append" \
           and isinstance(st.value.func.value, ast.Name) and len(st.value.args) == 1:
            return st.value.func.value.id, st.value.args[0]
        return None

    def guarded_appends(self, st, narrow):
        """an `if` whose arms only append to lists (and assign dead names); returns {list: lean list expr} per arm"""
        c = self.cond(st.test)
        saved = dict(self.env)
        def arm(stmts, positive):
            out = {}
            if positive and c[0] in ("some", "someNZ") and narrow is not None:
                self.env[narrow[0]] = (narrow[1], c[2])
            for s2 in stmts:
                ap = self.append_stmt(s2)
                if ap:
                    b, t = self.ex(ap[1])
                    if t != "Str": raise Untranslatable("__str__: append of %s" % t)
                    out.setdefault(ap[0], []).append(b); continue
                if isinstance(s2, ast.Assign) and all(isinstance(n, ast.Name) and n.id in ("h", "m", "s") for tg in s2.targets
                                                      for n in (tg.elts if isinstance(tg, ast.Tuple) else [tg])):
                    continue      # h, m, s: never read
                raise Untranslatable("__str__: statement in a conditional arm: %s" % type(s2).__name__)
            self.env = dict(saved)
            return out
        return c, arm

    def run(self, fn):
        body = strip_docstring(fn.body)
        for st in body:
            # L = [] / L = [e]
            if isinstance(st, ast.Assign) and len(st.targets) == 1 and isinstance(st.targets[0], ast.Name) and isinstance(st.value, ast.List):
                items = []
                for it in st.value.elts:
                    b, t = self.ex(it)
                    if t != "Str": raise Untranslatable("__str__: list element")
                    items.append(b)
                self.bind(st.targets[0].id, "([%s] : List StrPy.Str)" % ", ".join(items), "StrListV"); continue
            # h, m, s = [None] * 3   (never read)
            if isinstance(st, ast.Assign) and len(st.targets) == 1 and isinstance(st.targets[0], ast.Tuple) \
               and all(isinstance(n, ast.Name) and n.id in ("h", "m", "s") for n in st.targets[0].elts):
                continue
            if isinstance(st, ast.Assign) and len(st.targets) == 1 and isinstance(st.targets[0], ast.Name) and isinstance(st.value, ast.Constant) \
               and isinstance(st.value.value, str):
                self.env[st.targets[0].id] = (st.value.value, "FmtLit"); continue
            ap = self.append_stmt(st)
            if ap:
                lst, lt = self.env.get(ap[0], (None, None))
                if lt != "StrListV": raise Untranslatable("__str__: append to %s" % ap[0])
                b, t = self.ex(ap[1])
                self.bind(ap[0], "%s ++ [%s]" % (lst, b), "StrListV"); continue
            if isinstance(st, ast.If) and self.is_byweekday_block(st):
                self.byweekday_block(st); continue
            if isinstance(st, ast.If):
                # which object does the test narrow? `if self._x:` / `if self._x is not None:` -> self._x inside the arm
                tgt = st.test.left if isinstance(st.test, ast.Compare) else st.test
                narrow = None
                if self.is_self(tgt) and tgt.attr in SELF_ATTRS and SELF_ATTRS[tgt.attr][1] in ("OptSix", "OptInt"):
                    narrow = ("self." + tgt.attr, "v")
                c, arm = self.guarded_appends(st, narrow)
                if narrow:
                    saved_attr = SELF_ATTRS[tgt.attr]
                    SELF_ATTRS[tgt.attr] = ("v", c[2]) if c[0] in ("some", "someNZ") else saved_attr
                    try: pos = arm(st.body, True)
                    finally: SELF_ATTRS[tgt.attr] = saved_attr
                else:
                    pos = arm(st.body, True)
                neg = arm(st.orelse, False)
                for lname in sorted(set(pos) | set(neg)):
                    lst, lt = self.env.get(lname, (None, None))
                    if lt != "StrListV": raise Untranslatable("__str__: append to %s" % lname)
                    P = "[" + ", ".join(pos.get(lname, [])) + "]"; N = "[" + ", ".join(neg.get(lname, [])) + "]"
                    if c[0] == "bool": e = "(if %s then %s else %s)" % (c[1], P, N)
                    elif c[0] == "some": e = "(match %s with | some v => %s | none => %s)" % (c[1], P, N)
                    else: e = "(match %s with | some v => if v != 0 then %s else %s | none => %s)" % (c[1], P, N, N)
                    self.bind(lname, "%s ++ %s" % (lst, e), "StrListV")
                continue
            if isinstance(st, ast.For) and isinstance(st.iter, ast.List) and isinstance(st.target, ast.Tuple) and len(st.target.elts) == 2:
                self.by_loop(st); continue
            if isinstance(st, ast.Return):
                b, t = self.ex(st.value)
                if t != "Str": raise Untranslatable("__str__: return of %s" % t)
                self.lines.append(b); return
            raise Untranslatable("__str__: statement %s" % type(st).__name__)
        raise Untranslatable("__str__: no return")

    def is_byweekday_block(self, st):
        t = st.test
        return isinstance(t, ast.Compare) and isinstance(t.left, ast.Call) and isinstance(t.left.func, ast.Attribute) and t.left.func.attr == "get" \
            and self.is_self(t.left.func.value, "_original_rule") and isinstance(t.ops[0], ast.IsNot)

    def byweekday_block(self, st):
        key = st.test.left.args[0].value
        if STR_KEYS.get(key) != "WDayList": raise Untranslatable("__str__: conversion block for %s" % key)
        b = st.body
        ok = (len(b) == 4 and isinstance(b[0], ast.Assign) and isinstance(b[0].value, ast.Call) and isinstance(b[0].value.func, ast.Name)
              and b[0].value.func.id == "dict" and self.is_self(b[0].value.args[0], "_original_rule") and b[0].targets[0].id == "original_rule"
              and isinstance(b[1], ast.Assign) and isinstance(b[1].value, ast.List) and not b[1].value.elts
              and isinstance(b[2], ast.For) and isinstance(b[2].target, ast.Name) and isinstance(b[2].iter, ast.Subscript)
              and isinstance(b[2].iter.value, ast.Name) and b[2].iter.value.id == "original_rule" and b[2].iter.slice.value == key
              and len(b[2].body) == 1 and isinstance(b[2].body[0], ast.If)
              and isinstance(b[3], ast.Assign) and isinstance(b[3].targets[0], ast.Subscript) and b[3].targets[0].slice.value == key
              and isinstance(b[3].value, ast.Name) and b[3].value.id == b[1].targets[0].id
              and len(st.orelse) == 1 and isinstance(st.orelse[0], ast.Assign) and st.orelse[0].targets[0].id == "original_rule"
              and self.is_self(st.orelse[0].value, "_original_rule"))
        if not ok: raise Untranslatable("__str__: shape of the byweekday conversion block")
        lname, var, inner = b[1].targets[0].id, b[2].target.id, b[2].body[0]
        self.env[var] = (var, "WDay")
        tgt = inner.test
        if not (isinstance(tgt, ast.Attribute) and tgt.attr == "n" and isinstance(tgt.value, ast.Name) and tgt.value.id == var):
            raise Untranslatable("__str__: test in the weekday loop")
        def one(stmts, narrowed):
            if len(stmts) != 1: raise Untranslatable("__str__: weekday loop arm")
            ap = self.append_stmt(stmts[0])
            if not ap or ap[0] != lname: raise Untranslatable("__str__: weekday loop arm")
            if narrowed:
                # wday.n is the integer n inside the arm
                class Sub(ast.NodeTransformer):
                    def visit_Attribute(s2, node):
                        if node.attr == "n" and isinstance(node.value, ast.Name) and node.value.id == var: return ast.Name(id="n__", ctx=ast.Load())
                        return s2.generic_visit(node)
                e2 = Sub().visit(ast.parse(ast.unparse(ap[1]), mode="eval").body)
                self.env["n__"] = ("n", "Int")
                b_, t_ = self.ex(e2); del self.env["n__"]
            else:
                b_, t_ = self.ex(ap[1])
            if t_ != "Str": raise Untranslatable("__str__: weekday loop element")
            return b_
        A = one(inner.body, True); B = one(inner.orelse, False)
        del self.env[var]
        self.aux = ("/-- translated from `rrule.py:rrule.__str__`: the element the `for wday in original_rule['byweekday']:` loop appends -/\n"
                    "def rruleStrWday (%s : RRuleStr.WDay) : StrPy.Str :=\n  match %s.2 with\n  | some n => if n != 0 then %s else %s\n  | none => %s\n" % (var, var, A, B, B))
        conv = "rruleStrWday"
        self.n += 1
        v = "wdaystrings%d" % self.n
        self.lines.append("let %s : Option (List StrPy.Str) := x.orig.byweekday.map (fun l => l.map %s)" % (v, conv))
        for k, ty in STR_KEYS.items():
            self.env["original_rule." + k] = (v, "OptStrList") if k == key else ("x.orig.%s" % k, "OptIntList")

    def by_loop(self, st):
        names = [n.id for n in st.target.elts]
        if len(st.body) != 2: raise Untranslatable("__str__: BY loop body")
        a, iff = st.body
        if not (isinstance(a, ast.Assign) and isinstance(a.value, ast.Call) and isinstance(a.value.func, ast.Attribute) and a.value.func.attr == "get"
                and isinstance(a.value.func.value, ast.Name) and a.value.func.value.id == "original_rule"
                and isinstance(a.value.args[0], ast.Name) and a.value.args[0].id == names[1]
                and isinstance(iff, ast.If) and isinstance(iff.test, ast.Name) and iff.test.id == a.targets[0].id and not iff.orelse
                and len(iff.body) == 1):
            raise Untranslatable("__str__: BY loop shape")
        val = a.targets[0].id
        ap = self.append_stmt(iff.body[0])
        if not ap: raise Untranslatable("__str__: BY loop append")
        for pair in st.iter.elts:
            if not (isinstance(pair, ast.Tuple) and len(pair.elts) == 2 and all(isinstance(c, ast.Constant) and isinstance(c.value, str) for c in pair.elts)):
                raise Untranslatable("__str__: BY loop table")
            nm, key = pair.elts[0].value, pair.elts[1].value
            if key not in STR_KEYS: raise Untranslatable("__str__: BY key %s" % key)
            opt, oty = self.env["original_rule." + key]
            self.env[names[0]] = (mlit(nm), "Str")
            self.env[val] = ("l", "IntListV" if oty == "OptIntList" else "StrListV")
            b, t = self.ex(ap[1])
            lst, lt = self.env[ap[0]]
            self.bind(ap[0], "%s ++ (match %s with | some l => if l.isEmpty then [] else [%s] | none => [])" % (lst, opt, b), "StrListV")
        del self.env[names[0]]; del self.env[val]

def translate_rrule_str(src):
    tree = ast.parse(open(os.path.join(src, "rrule.py")).read())
    fn = find_function(tree, "rrule.__str__")
    m = StrMethod()
    m.run(fn)
    body = "\n".join(m.lines)
    text = getattr(m, "aux", "") + "\n" + ("/-- translated from `rrule.py:rrule.__str__` (whole method); `x` = the attributes it reads (`RRuleStr.StrIn`: `_dtstart`, `_freq`,\n"
            "    `_interval`, `_wkst`, `_count`, `_until`, `_original_rule`, and `calendar.firstweekday()` as `fwd`) -/\n"
            "def rruleStr (x : RRuleStr.StrIn) : StrPy.Str :=\n%s\n" % indent(body))
    return text, {"rrule.__str__": fingerprint([fn])}

# ---------------------------------------------------------------------------------------------------------------------
# _rrulestr._parse_rfc_rrule and the _handle_* family  ->  Gen.rrsHandle / rrsLineValue / rrsStepPair / rrsParseRule
#
# `getattr(self, "_handle_" + name)` is resolved against the CLASS BODY as written: every `def _handle_X` and every alias
# `_handle_Y = _handle_X` whose name is upper-case after the prefix (the caller upper-cases `name`) becomes one arm of an
# if-chain in source order; the handler's body is instantiated with that name (`name.lower()` is folded to the keyword).
# A handler body is ONE assignment `rrkwargs[<key>] = <value>` (after optional lazy imports / `global`), possibly inside
# `try: … except (ValueError, OverflowError): raise ValueError(…)`.  Values: `int(value)`, `[int(x) for x in value.split(',')]`,
# `self._freq_map[value]`, `self._weekday_map[value]`, `parser.parse(value, ignoretz=kwargs.get("ignoretz"),
# tzinfos=kwargs.get("tzinfos"))` (kept as the text and the options: the parse itself is C02).
# `_handle_BYWEEKDAY` (the `+1MO` / `MO(+1)` splitting loop) is matched statement by statement (translate_byweekday) -> Gen.rrsWDay.

UPDATE_KEYS = {"freq", "interval", "count", "wkst", "until", "bysetpos", "bymonth", "bymonthday", "byyearday", "byeaster",
               "byweekno", "byweekday", "byhour", "byminute", "bysecond"}
HAND_MODELLED_HANDLERS = {"_handle_BYWEEKDAY"}

def handler_arm(fn, upname):
    """Lean expression : Py.R RRuleStr.Update for handler `fn` called with name = upname"""
    body = [st for st in strip_docstring(fn.body) if not isinstance(st, (ast.Global, ast.Import, ast.ImportFrom))
            and not (isinstance(st, ast.If) and not st.orelse and all(isinstance(x, (ast.Import, ast.ImportFrom)) for x in st.body))]
    if len(body) == 1 and isinstance(body[0], ast.Try):
        t = body[0]
        ok = (len(t.body) == 1 and not t.orelse and not t.finalbody and len(t.handlers) == 1 and len(t.handlers[0].body) == 1
              and isinstance(t.handlers[0].body[0], ast.Raise) and isinstance(t.handlers[0].body[0].exc, ast.Call)
              and getattr(t.handlers[0].body[0].exc.func, "id", None) == "ValueError")
        if not ok: raise Untranslatable("%s: try shape" % fn.name)
        body = t.body
    if len(body) != 1 or not isinstance(body[0], ast.Assign) or not isinstance(body[0].targets[0], ast.Subscript) \
       or getattr(body[0].targets[0].value, "id", None) != "rrkwargs":
        raise Untranslatable("%s: body is not one assignment to rrkwargs[...]" % fn.name)
    k = body[0].targets[0].slice
    if isinstance(k, ast.Constant) and isinstance(k.value, str): key = k.value
    elif isinstance(k, ast.Call) and isinstance(k.func, ast.Attribute) and k.func.attr == "lower" and getattr(k.func.value, "id", None) == "name" and not k.args:
        key = upname.lower()
    else: raise Untranslatable("%s: key expression" % fn.name)
    if key not in UPDATE_KEYS: raise Untranslatable("%s: keyword %r" % (fn.name, key))
    ctor = "untilV" if key == "until" else key
    v = body[0].value
    def is_value(n): return isinstance(n, ast.Name) and n.id == "value"
    if isinstance(v, ast.Call) and getattr(v.func, "id", None) == "int" and len(v.args) == 1 and is_value(v.args[0]):
        if key not in ("interval", "count"): raise Untranslatable("%s: int value for %s" % (fn.name, key))
        return "(RRuleStr.int! value) >>= fun v => .ok (.%s v)" % ctor
    if isinstance(v, ast.ListComp) and len(v.generators) == 1 and not v.generators[0].ifs and isinstance(v.elt, ast.Call) \
       and getattr(v.elt.func, "id", None) == "int" and getattr(v.elt.args[0], "id", None) == getattr(v.generators[0].target, "id", "?"):
        it = v.generators[0].iter
        if not (isinstance(it, ast.Call) and isinstance(it.func, ast.Attribute) and it.func.attr == "split" and is_value(it.func.value)
                and len(it.args) == 1 and isinstance(it.args[0], ast.Constant) and isinstance(it.args[0].value, str) and len(it.args[0].value) == 1):
            raise Untranslatable("%s: list comprehension source" % fn.name)
        if not key.startswith("by") or key == "byweekday": raise Untranslatable("%s: int list for %s" % (fn.name, key))
        return "((ICal.splitOnChar %s value).mapM RRuleStr.int!) >>= fun l => .ok (.%s l)" % (lean_char(it.args[0].value), ctor)
    if isinstance(v, ast.Subscript) and isinstance(v.value, ast.Attribute) and getattr(v.value.value, "id", None) == "self" and is_value(v.slice) \
       and v.value.attr in ("_freq_map", "_weekday_map"):
        table = {"_freq_map": "Gen.FREQ_MAP", "_weekday_map": "Gen.WEEKDAY_MAP"}[v.value.attr]
        if key not in ("freq", "wkst"): raise Untranslatable("%s: table value for %s" % (fn.name, key))
        return "match RRuleStr.lookup (%s.map (fun p => (p.1.toList, p.2))) value with | some k => .ok (.%s k) | none => .error .KeyError" % (table, ctor)
    if isinstance(v, ast.Call) and isinstance(v.func, ast.Attribute) and v.func.attr == "parse" and getattr(v.func.value, "id", None) == "parser" \
       and len(v.args) == 1 and is_value(v.args[0]):
        kws = {k.arg: k.value for k in v.keywords}
        def kwget(n, nm):
            return isinstance(n, ast.Call) and isinstance(n.func, ast.Attribute) and n.func.attr == "get" and getattr(n.func.value, "id", None) == "kwargs" \
                and len(n.args) == 1 and isinstance(n.args[0], ast.Constant) and n.args[0].value == nm
        if set(kws) != {"ignoretz", "tzinfos"} or not kwget(kws["ignoretz"], "ignoretz") or not kwget(kws["tzinfos"], "tzinfos") or key != "until":
            raise Untranslatable("%s: parser.parse call" % fn.name)
        return ".ok (.untilV value po)"
    raise Untranslatable("%s: value expression" % fn.name)

def translate_byweekday(fn):
    """`_handle_BYWEEKDAY`: the per-item body of `for wday in value.split(','):` -> Gen.rrsWDay; the method -> an arm of rrsHandle"""
    def cname(n): return getattr(n, "id", None)
    b = strip_docstring(fn.body)
    if not (len(b) == 3 and isinstance(b[0], ast.Assign) and cname(b[0].targets[0]) == "l" and isinstance(b[0].value, ast.List) and not b[0].value.elts
            and isinstance(b[1], ast.For) and cname(b[1].target) == "wday" and isinstance(b[1].iter, ast.Call) and b[1].iter.func.attr == "split"
            and cname(b[1].iter.func.value) == "value" and len(b[1].iter.args) == 1 and len(b[1].iter.args[0].value) == 1 and not b[1].orelse
            and isinstance(b[2], ast.Assign) and isinstance(b[2].targets[0], ast.Subscript) and cname(b[2].targets[0].value) == "rrkwargs"
            and b[2].targets[0].slice.value == "byweekday" and cname(b[2].value) == "l"):
        raise Untranslatable("_handle_BYWEEKDAY: method shape")
    sep = b[1].iter.args[0].value
    fb = b[1].body
    if not (len(fb) == 2 and isinstance(fb[0], ast.If)): raise Untranslatable("_handle_BYWEEKDAY: loop body")
    i1, app = fb
    # l.append(weekdays[self._weekday_map[w]](n))
    av = app.value if isinstance(app, ast.Expr) else None
    if not (isinstance(av, ast.Call) and isinstance(av.func, ast.Attribute) and av.func.attr == "append" and cname(av.func.value) == "l"
            and isinstance(av.args[0], ast.Call) and [cname(a) for a in av.args[0].args] == ["n"]
            and isinstance(av.args[0].func, ast.Subscript) and cname(av.args[0].func.value) == "weekdays"
            and isinstance(av.args[0].func.slice, ast.Subscript) and av.args[0].func.slice.value.attr == "_weekday_map"
            and cname(av.args[0].func.slice.slice) == "w"):
        raise Untranslatable("_handle_BYWEEKDAY: append")
    finish = "RRuleStr.weekdayCall (RRuleStr.lookup (Gen.WEEKDAY_MAP.map (fun p => (p.1.toList, p.2))) w) n"
    # arm 1: if '(' in wday: splt = wday.split('('); w = splt[0]; n = int(splt[1][:-1])
    t = i1.test
    if not (isinstance(t, ast.Compare) and isinstance(t.ops[0], ast.In) and isinstance(t.left, ast.Constant) and len(t.left.value) == 1 and cname(t.comparators[0]) == "wday"):
        raise Untranslatable("_handle_BYWEEKDAY: first test")
    par = t.left.value
    a = i1.body
    ok1 = (len(a) == 3 and cname(a[0].targets[0]) == "splt" and a[0].value.func.attr == "split" and cname(a[0].value.func.value) == "wday"
           and len(a[0].value.args) == 1 and a[0].value.args[0].value == par
           and cname(a[1].targets[0]) == "w" and isinstance(a[1].value, ast.Subscript) and cname(a[1].value.value) == "splt" and a[1].value.slice.value == 0
           and cname(a[2].targets[0]) == "n" and cname(a[2].value.func) == "int" and isinstance(a[2].value.args[0], ast.Subscript)
           and isinstance(a[2].value.args[0].slice, ast.Slice) and a[2].value.args[0].slice.lower is None
           and isinstance(a[2].value.args[0].slice.upper, ast.UnaryOp) and a[2].value.args[0].slice.upper.operand.value == 1
           and isinstance(a[2].value.args[0].value, ast.Subscript) and cname(a[2].value.args[0].value.value) == "splt" and a[2].value.args[0].value.slice.value == 1)
    if not ok1: raise Untranslatable("_handle_BYWEEKDAY: parenthesis arm")
    # arm 2: elif len(wday): for i in range(len(wday)): if wday[i] not in '<chars>': break ; n = wday[:i] or None ; w = wday[i:] ; if n: n = int(n)
    if not (len(i1.orelse) == 1 and isinstance(i1.orelse[0], ast.If)): raise Untranslatable("_handle_BYWEEKDAY: elif")
    i2 = i1.orelse[0]
    c = i2.body
    ok2 = (isinstance(i2.test, ast.Call) and cname(i2.test.func) == "len" and cname(i2.test.args[0]) == "wday" and len(c) == 4
           and isinstance(c[0], ast.For) and cname(c[0].target) == "i" and not c[0].orelse and isinstance(c[0].iter, ast.Call) and cname(c[0].iter.func) == "range"
           and len(c[0].iter.args) == 1 and cname(c[0].iter.args[0].func) == "len" and cname(c[0].iter.args[0].args[0]) == "wday"
           and len(c[0].body) == 1 and isinstance(c[0].body[0], ast.If) and not c[0].body[0].orelse and len(c[0].body[0].body) == 1
           and isinstance(c[0].body[0].body[0], ast.Break) and isinstance(c[0].body[0].test, ast.Compare) and isinstance(c[0].body[0].test.ops[0], ast.NotIn)
           and isinstance(c[0].body[0].test.left, ast.Subscript) and cname(c[0].body[0].test.left.value) == "wday" and cname(c[0].body[0].test.left.slice) == "i"
           and isinstance(c[0].body[0].test.comparators[0], ast.Constant) and isinstance(c[0].body[0].test.comparators[0].value, str)
           and cname(c[1].targets[0]) == "n" and isinstance(c[1].value, ast.BoolOp) and isinstance(c[1].value.op, ast.Or)
           and isinstance(c[1].value.values[0], ast.Subscript) and cname(c[1].value.values[0].value) == "wday"
           and c[1].value.values[0].slice.lower is None and cname(c[1].value.values[0].slice.upper) == "i"
           and isinstance(c[1].value.values[1], ast.Constant) and c[1].value.values[1].value is None
           and cname(c[2].targets[0]) == "w" and isinstance(c[2].value, ast.Subscript) and cname(c[2].value.value) == "wday"
           and cname(c[2].value.slice.lower) == "i" and c[2].value.slice.upper is None
           and isinstance(c[3], ast.If) and cname(c[3].test) == "n" and not c[3].orelse and len(c[3].body) == 1
           and cname(c[3].body[0].targets[0]) == "n" and cname(c[3].body[0].value.func) == "int" and cname(c[3].body[0].value.args[0]) == "n")
    if not ok2: raise Untranslatable("_handle_BYWEEKDAY: prefix arm")
    chars = c[0].body[0].test.comparators[0].value
    # arm 3: else: raise ValueError
    if not (len(i2.orelse) == 1 and isinstance(i2.orelse[0], ast.Raise) and cname(i2.orelse[0].exc.func) in ("ValueError", "KeyError")):
        raise Untranslatable("_handle_BYWEEKDAY: else arm")
    text = ("/-- translated from `_rrulestr._handle_BYWEEKDAY`: the body of `for wday in value.split('%s'):` — `WD(n)` / `nWD` / `WD` split into the\n"
            "    weekday name and the ordinal, then `weekdays[self._weekday_map[w]](n)` -/\n"
            "def rrsWDay (wday : StrPy.Str) : Py.R RRuleStr.WDay :=\n"
            "  if wday.contains %s then\n"
            "    let splt := ICal.splitOnChar %s wday\n"
            "    (StrPy.getL splt 0) >>= fun w =>\n"
            "    (StrPy.getL splt 1) >>= fun s1 =>\n"
            "    (RRuleStr.int! s1.dropLast) >>= fun v =>\n"
            "    let n : Option Int := some v\n"
            "    %s\n"
            "  else if wday.length != 0 then\n"
            "    let i := StrPy.forBreakIdx (fun c => %s.contains c) wday 0\n"
            "    let n0 := wday.take i\n"
            "    let w := wday.drop i\n"
            "    (if n0.isEmpty then (.ok none : Py.R (Option Int)) else (RRuleStr.int! n0) >>= fun v => .ok (some v)) >>= fun n =>\n"
            "    %s\n"
            "  else .error .%s\n" % (sep, lean_char(par), lean_char(par), finish, lean_str(chars), finish, i2.orelse[0].exc.func.id))
    arm = "((ICal.splitOnChar %s value).mapM rrsWDay) >>= fun l => .ok (.byweekday l)" % lean_char(sep)
    return text, arm

def translate_rule_parser(src):
    tree = ast.parse(open(os.path.join(src, "rrule.py")).read())
    cls = find_function(tree, "_rrulestr")
    defs, arms, fps = {}, [], {}
    for st in cls.body:
        if isinstance(st, ast.FunctionDef) and st.name.startswith("_handle_"):
            defs[st.name] = st
            if st.name[8:].isupper(): arms.append((st.name[8:], st.name))
        elif isinstance(st, ast.Assign) and len(st.targets) == 1 and isinstance(st.targets[0], ast.Name) and st.targets[0].id.startswith("_handle_"):
            if not (isinstance(st.value, ast.Name) and st.value.id in defs): raise Untranslatable("alias %s" % st.targets[0].id)
            defs[st.targets[0].id] = defs[st.value.id]
            if st.targets[0].id[8:].isupper(): arms.append((st.targets[0].id[8:], st.value.id))
    chain, pre = [], []
    for up, target in arms:
        fn = defs[target]
        if fn.name == "_handle_BYWEEKDAY":
            wtext, arm = translate_byweekday(fn)
            if not pre: pre.append(wtext)
            fps["_rrulestr." + fn.name] = fingerprint([fn])
        else:
            arm = handler_arm(fn, up)
            fps["_rrulestr." + fn.name] = fingerprint([fn])
        chain.append('if name == RRuleStr.lit "%s" then %s' % (up, arm))
    out = pre + ["/-- translated from `rrule.py:_rrulestr`: `getattr(self, \"_handle_\" + name)(rrkwargs, name, value, ignoretz=…, tzinfos=…)` resolved\n"
           "    against the class body (every `_handle_X` definition and alias, in source order) as the assignment it makes; `po` = the\n"
           "    `ignoretz` / `tzinfos` keyword arguments; an unknown name is AttributeError -/\n"
           "def rrsHandle (po : RRuleStr.ParseOpts) (name value : StrPy.Str) : Py.R RRuleStr.Update :=\n  "
           + "\n  else ".join(chain) + "\n  else .error .AttributeError\n"]
    # _parse_rfc_rrule
    fn = find_function(cls, "_parse_rfc_rrule")
    b = strip_docstring(fn.body)
    def cname(n): return getattr(n, "id", None)
    ok = len(b) == 5 and isinstance(b[0], ast.If) and isinstance(b[1], ast.Assign) and isinstance(b[2], ast.For) and isinstance(b[3], ast.If) and isinstance(b[4], ast.Return)
    if not ok: raise Untranslatable("_parse_rfc_rrule: statement list")
    # 1. the optional `RRULE:` head
    i0 = b[0]
    t = i0.test
    if not (isinstance(t, ast.Compare) and isinstance(t.left, ast.Call) and t.left.func.attr == "find" and cname(t.left.func.value) == "line"
            and isinstance(t.ops[0], ast.NotEq) and isinstance(t.comparators[0], ast.UnaryOp) and t.comparators[0].operand.value == 1
            and len(i0.body) == 2 and isinstance(i0.body[0], ast.Assign) and isinstance(i0.body[0].targets[0], ast.Tuple)
            and [cname(e) for e in i0.body[0].targets[0].elts] == ["name", "value"]
            and isinstance(i0.body[0].value, ast.Call) and i0.body[0].value.func.attr == "split" and cname(i0.body[0].value.func.value) == "line"
            and len(i0.body[0].value.args) == 1 and not i0.body[0].value.keywords
            and i0.body[0].value.args[0].value == t.left.args[0].value and len(t.left.args[0].value) == 1
            and isinstance(i0.body[1], ast.If) and isinstance(i0.body[1].test, ast.Compare) and cname(i0.body[1].test.left) == "name"
            and isinstance(i0.body[1].test.ops[0], ast.NotEq) and isinstance(i0.body[1].body[0], ast.Raise) and not i0.body[1].orelse
            and len(i0.orelse) == 1 and cname(i0.orelse[0].targets[0]) == "value" and cname(i0.orelse[0].value) == "line"):
        raise Untranslatable("_parse_rfc_rrule: head")
    sep = t.left.args[0].value
    pname = i0.body[1].test.comparators[0].value
    exc0 = i0.body[1].body[0].exc.func.id
    out.append("/-- translated from `_rrulestr._parse_rfc_rrule`: the optional `%s%s` head (`name, value = line.split('%s')` unpacks exactly two parts) -/\n"
               "def rrsLineValue (line : StrPy.Str) : Py.R StrPy.Str :=\n"
               "  if line.contains %s then\n    match ICal.splitOnChar %s line with\n    | [name, value] => if name != RRuleStr.lit \"%s\" then .error .%s else .ok value\n"
               "    | _ => .error .ValueError\n  else .ok line\n" % (pname, sep, sep, lean_char(sep), lean_char(sep), pname, exc0))
    # 2. rrkwargs = {}
    if not (cname(b[1].targets[0]) == "rrkwargs" and isinstance(b[1].value, ast.Dict) and not b[1].value.keys): raise Untranslatable("_parse_rfc_rrule: rrkwargs")
    # 3. the loop over the parts
    f = b[2]
    fb = f.body
    if not (cname(f.target) == "pair" and isinstance(f.iter, ast.Call) and f.iter.func.attr == "split" and cname(f.iter.func.value) == "value"
            and len(fb) == 4 and isinstance(fb[0].targets[0], ast.Tuple) and [cname(e) for e in fb[0].targets[0].elts] == ["name", "value"]
            and fb[0].value.func.attr == "split" and cname(fb[0].value.func.value) == "pair" and len(fb[0].value.args) == 1 and len(f.iter.args) == 1
            and not fb[0].value.keywords and not f.iter.keywords
            and all(isinstance(fb[k], ast.Assign) and cname(fb[k].targets[0]) == nm and fb[k].value.func.attr == "upper" and cname(fb[k].value.func.value) == nm
                    for k, nm in ((1, "name"), (2, "value")))
            and isinstance(fb[3], ast.Try) and len(fb[3].body) == 1 and not fb[3].orelse and not fb[3].finalbody):
        raise Untranslatable("_parse_rfc_rrule: loop body")
    psep, esep = f.iter.args[0].value, fb[0].value.args[0].value
    call = fb[3].body[0].value
    g = call.func
    if not (isinstance(g, ast.Call) and cname(g.func) == "getattr" and cname(g.args[0]) == "self" and isinstance(g.args[1], ast.BinOp)
            and g.args[1].left.value == "_handle_" and cname(g.args[1].right) == "name" and [cname(a) for a in call.args] == ["rrkwargs", "name", "value"]
            and {k.arg: cname(k.value) for k in call.keywords} == {"ignoretz": "ignoretz", "tzinfos": "tzinfos"}):
        raise Untranslatable("_parse_rfc_rrule: handler call")
    arms2 = []
    for h in fb[3].handlers:
        kinds = [cname(h.type)] if isinstance(h.type, ast.Name) else [cname(e) for e in h.type.elts]
        if not (len(h.body) == 1 and isinstance(h.body[0], ast.Raise) and isinstance(h.body[0].exc, ast.Call)): raise Untranslatable("_parse_rfc_rrule: handler")
        for kd in kinds: arms2.append("    | .error .%s => .error .%s" % (kd, h.body[0].exc.func.id))
    out.append("/-- translated from `_rrulestr._parse_rfc_rrule`: the body of `for pair in value.split('%s'):` — `name, value = pair.split('%s')`,\n"
               "    both upper-cased, the handler call, and the exception mapping of the `try` statement (other kinds propagate) -/\n"
               "def rrsStepPair (po : RRuleStr.ParseOpts) (a : RRuleStr.RArgs) (pair : StrPy.Str) : Py.R RRuleStr.RArgs :=\n"
               "  match ICal.splitOnChar %s pair with\n  | [name, value] =>\n    match rrsHandle po (ICal.upper name) (ICal.upper value) with\n    | .ok u => .ok (u.apply a)\n%s\n    | .error e => .error e\n"
               "  | _ => .error .ValueError\n" % (psep, esep, lean_char(esep), "\n".join(arms2)))
    # 4. FREQ is required   5. return rrule(dtstart=dtstart, cache=cache, **rrkwargs)
    t4 = b[3].test
    if not (isinstance(t4, ast.Compare) and isinstance(t4.ops[0], ast.NotIn) and t4.left.value == "freq" and cname(t4.comparators[0]) == "rrkwargs"
            and isinstance(b[3].body[0], ast.Raise) and not b[3].orelse):
        raise Untranslatable("_parse_rfc_rrule: freq check")
    r = b[4].value
    if not (isinstance(r, ast.Call) and cname(r.func) == "rrule" and not r.args
            and sorted((k.arg or "**", cname(k.value)) for k in r.keywords) == [("**", "rrkwargs"), ("cache", "cache"), ("dtstart", "dtstart")]):
        raise Untranslatable("_parse_rfc_rrule: return")
    out.append("/-- translated from `_rrulestr._parse_rfc_rrule` (whole method): the keyword arguments handed to `rrule(dtstart=dtstart, cache=cache, **rrkwargs)` -/\n"
               "def rrsParseRule (po : RRuleStr.ParseOpts) (line : StrPy.Str) : Py.R RRuleStr.RArgs :=\n"
               "  (rrsLineValue line) >>= fun value =>\n  ((ICal.splitOnChar %s value).foldlM (rrsStepPair po) {}) >>= fun rrkwargs =>\n"
               "  if rrkwargs.freq.isNone then .error .%s else .ok rrkwargs\n" % (lean_char(psep), b[3].body[0].exc.func.id))
    fps["_rrulestr._parse_rfc_rrule"] = fingerprint([fn])
    # __call__: a pure delegation to _parse_rfc
    fn = find_function(cls, "__call__")
    cb = strip_docstring(fn.body)
    rv = cb[0].value if len(cb) == 1 and isinstance(cb[0], ast.Return) else None
    if not (isinstance(rv, ast.Call) and isinstance(rv.func, ast.Attribute) and rv.func.attr == "_parse_rfc" and cname(rv.func.value) == "self"
            and [cname(a) for a in rv.args] == ["s"] and [(k.arg, cname(k.value)) for k in rv.keywords] == [(None, "kwargs")]
            and [a.arg for a in fn.args.args] == ["self", "s"] and fn.args.kwarg is not None and fn.args.kwarg.arg == "kwargs"
            and not fn.args.vararg and not fn.args.kwonlyargs and not fn.args.defaults):
        raise Untranslatable("_rrulestr.__call__ is not `return self._parse_rfc(s, **kwargs)`")
    out.append("/-- translated from `_rrulestr.__call__` (whole method): `return self._parse_rfc(s, **kwargs)` — the text and every keyword\n"
               "    argument handed on unchanged, nothing else done -/\n"
               "def rrsCall (s : StrPy.Str) (o : RRuleStr.Opts) (dtstartKw : Bool) : Py.R RRuleStr.Parsed :=\n  rrsParseRfc s o dtstartKw\n")
    fps["_rrulestr.__call__"] = fingerprint([fn])
    return "\n".join(out), fps

# ---------------------------------------------------------------------------------------------------------------------
# _rrulestr._parse_rfc: the LINE DISPATCH LOOP (`for line in lines:` in the multi-line branch)  ->  Gen.rrsStepLine
#
# The loop body is matched statement by statement; the property names, the accepted RDATE parameter, the separators and
# the exception kinds are taken from the source.  The collected lists are the fields of `RRuleStr.Acc` of the same names.
# A call `self._parse_date_value(value, parms, TZID_NAMES, ignoretz, tzids, tzinfos)` is represented by its parameter check
# (`dateParmsOk parms`) and one record `(text, parms, options)` per `,`-separated value — what `Gen.rrsParseDateValue` yields
# for values read as naive datetimes (obligation gen_parse_date_value_naive); `dtstart = dtvals[0]` after `len(dtvals) != 1`
# is the record of the whole value.

def translate_dispatch(rfc, k):
    def cname(n): return getattr(n, "id", None)
    rest = rfc.body[k + 1:]
    if not (len(rest) == 1 and isinstance(rest[0], ast.If) and isinstance(rest[0].body[0], ast.Return)): raise Untranslatable("_parse_rfc: after the unfold block")
    els = rest[0].orelse
    inits = [cname(st.targets[0]) for st in els[:4] if isinstance(st, ast.Assign) and isinstance(st.value, ast.List) and not st.value.elts]
    if inits != ["rrulevals", "rdatevals", "exrulevals", "exdatevals"] or not isinstance(els[4], ast.For): raise Untranslatable("_parse_rfc: list initialisation")
    f = els[4]
    b = f.body
    if not (cname(f.target) == "line" and cname(f.iter) == "lines" and not f.orelse and len(b) == 7): raise Untranslatable("_parse_rfc: dispatch loop")
    # 0. if not line: continue
    if not (isinstance(b[0], ast.If) and isinstance(b[0].test, ast.UnaryOp) and cname(b[0].test.operand) == "line" and isinstance(b[0].body[0], ast.Continue) and not b[0].orelse):
        raise Untranslatable("_parse_rfc: empty-line test")
    # 1. if line.find(':') == -1: name = "RRULE"; value = line  else: name, value = line.split(':', 1)
    i1 = b[1]
    t = i1.test
    if not (isinstance(i1, ast.If) and isinstance(t, ast.Compare) and t.left.func.attr == "find" and cname(t.left.func.value) == "line" and isinstance(t.ops[0], ast.Eq)
            and isinstance(t.comparators[0], ast.UnaryOp) and t.comparators[0].operand.value == 1 and len(t.left.args[0].value) == 1
            and len(i1.body) == 2 and cname(i1.body[0].targets[0]) == "name" and isinstance(i1.body[0].value, ast.Constant)
            and cname(i1.body[1].targets[0]) == "value" and cname(i1.body[1].value) == "line"
            and len(i1.orelse) == 1 and [cname(e) for e in i1.orelse[0].targets[0].elts] == ["name", "value"]
            and i1.orelse[0].value.func.attr == "split" and cname(i1.orelse[0].value.func.value) == "line"
            and [a.value for a in i1.orelse[0].value.args] == [t.left.args[0].value, 1]):
        raise Untranslatable("_parse_rfc: name/value split")
    colon, dflt = t.left.args[0].value, i1.body[0].value.value
    if colon != ":": raise Untranslatable("_parse_rfc: separator %r (ICal.splitColon1 splits at ':')" % colon)
    # 2-5. parms = name.split(';'); if not parms: raise; name = parms[0]; parms = parms[1:]
    if not (cname(b[2].targets[0]) == "parms" and b[2].value.func.attr == "split" and cname(b[2].value.func.value) == "name" and len(b[2].value.args) == 1
            and isinstance(b[3], ast.If) and isinstance(b[3].test, ast.UnaryOp) and cname(b[3].test.operand) == "parms" and isinstance(b[3].body[0], ast.Raise)
            and cname(b[4].targets[0]) == "name" and cname(b[4].value.value) == "parms" and b[4].value.slice.value == 0
            and cname(b[5].targets[0]) == "parms" and cname(b[5].value.value) == "parms" and b[5].value.slice.lower.value == 1 and b[5].value.slice.upper is None):
        raise Untranslatable("_parse_rfc: parameter split")
    semi = b[2].value.args[0].value
    exc3 = b[3].body[0].exc.func.id
    # 6. the if/elif chain on the property name
    def pdv_call(n):
        return (isinstance(n, ast.Call) and isinstance(n.func, ast.Attribute) and n.func.attr == "_parse_date_value" and cname(n.func.value) == "self"
                and [cname(a) for a in n.args] == ["value", "parms", "TZID_NAMES", "ignoretz", "tzids", "tzinfos"] and not n.keywords)
    def raise_kind(st):
        return st.exc.func.id if isinstance(st, ast.Raise) and isinstance(st.exc, ast.Call) else None
    arms, node = [], b[6]
    while True:
        if not (isinstance(node, ast.If) and isinstance(node.test, ast.Compare) and cname(node.test.left) == "name" and isinstance(node.test.ops[0], ast.Eq)
                and isinstance(node.test.comparators[0], ast.Constant)):
            raise Untranslatable("_parse_rfc: dispatch chain")
        prop, body = node.test.comparators[0].value, node.body
        if len(body) == 2 and isinstance(body[0], ast.For) and cname(body[0].target) == "parm" and cname(body[0].iter) == "parms" \
           and isinstance(body[1], ast.Expr) and body[1].value.func.attr == "append" and [cname(a) for a in body[1].value.args] == ["value"]:
            lst = cname(body[1].value.func.value)
            fb = body[0].body
            if len(fb) == 1 and raise_kind(fb[0]):
                arm = "if !parms.isEmpty then .error .%s else .ok { acc with %s := acc.%s ++ [value] }" % (raise_kind(fb[0]), lst, lst)
            elif len(fb) == 1 and isinstance(fb[0], ast.If) and isinstance(fb[0].test, ast.Compare) and cname(fb[0].test.left) == "parm" \
                 and isinstance(fb[0].test.ops[0], ast.NotEq) and raise_kind(fb[0].body[0]) and not fb[0].orelse:
                arm = "if parms.any (· != RRuleStr.lit \"%s\") then .error .%s else .ok { acc with %s := acc.%s ++ [value] }" % (
                    fb[0].test.comparators[0].value, raise_kind(fb[0].body[0]), lst, lst)
            else: raise Untranslatable("_parse_rfc: parameter loop of %s" % prop)
        elif len(body) == 1 and isinstance(body[0], ast.Expr) and isinstance(body[0].value, ast.Call) and body[0].value.func.attr == "extend" and pdv_call(body[0].value.args[0]):
            lst = cname(body[0].value.func.value)
            arm = "do\n      let _ ← RRuleStr.dateParmsOk parms\n      .ok { acc with %s := acc.%s ++ (ICal.splitOnChar ',' value).map (fun d => (d, parms, po)) }" % (lst, lst)
        elif len(body) == 3 and cname(body[0].targets[0]) == "dtvals" and pdv_call(body[0].value) and isinstance(body[1], ast.If) \
             and isinstance(body[1].test, ast.Compare) and cname(body[1].test.left.func) == "len" and cname(body[1].test.left.args[0]) == "dtvals" \
             and isinstance(body[1].test.ops[0], ast.NotEq) and body[1].test.comparators[0].value == 1 and raise_kind(body[1].body[0]) \
             and cname(body[2].targets[0]) == "dtstart" and cname(body[2].value.value) == "dtvals" and body[2].value.slice.value == 0:
            arm = ("do\n      let _ ← RRuleStr.dateParmsOk parms\n      if (ICal.splitOnChar ',' value).length != 1 then .error .%s\n"
                   "      else .ok { acc with dtstart := some (value, parms, po) }" % raise_kind(body[1].body[0]))
        else: raise Untranslatable("_parse_rfc: arm of %s" % prop)
        arms.append((prop, arm))
        if len(node.orelse) == 1 and isinstance(node.orelse[0], ast.If): node = node.orelse[0]; continue
        if len(node.orelse) == 1 and raise_kind(node.orelse[0]): last = raise_kind(node.orelse[0]); break
        raise Untranslatable("_parse_rfc: end of the dispatch chain")
    chain = "\n  else ".join('if name == RRuleStr.lit "%s" then %s' % (p_, a_) for p_, a_ in arms)
    text = ("/-- translated from `rrule.py:_rrulestr._parse_rfc`: the body of `for line in lines:` in the multi-line branch (the property / parameter\n"
            "    split and the dispatch on RRULE / RDATE / EXRULE / EXDATE / DTSTART); the collected lists are the fields of `RRuleStr.Acc` -/\n"
            "def rrsStepLine (po : RRuleStr.ParseOpts) (acc : RRuleStr.Acc) (line : StrPy.Str) : Py.R RRuleStr.Acc :=\n"
            "  if line.isEmpty then .ok acc else\n"
            "  let (name, value) : StrPy.Str × StrPy.Str :=\n"
            "    if !line.contains %s then (RRuleStr.lit \"%s\", line)\n"
            "    else match ICal.splitColon1 line with\n      | some (n, v) => (n, v)\n      | none => (RRuleStr.lit \"%s\", line)\n"
            "  let parms := ICal.splitOnChar %s name\n"
            "  if parms.isEmpty then .error .%s else\n"
            "  let name := parms.headD []\n"
            "  let parms := parms.drop 1\n"
            "  %s\n  else .error .%s\n" % (lean_char(colon), dflt, dflt, lean_char(semi), exc3, chain, last))
    return text, {"_rrulestr._parse_rfc[dispatch]": fingerprint([f])}

# _rrulestr._parse_rfc: everything after the unfold block EXCEPT the dispatch loop body (the single-line fast path, the decision for a
# set, the set building, the single-rule exit) -> Gen.rrsTail; with rrsPrefix and rrsStepLine: Gen.rrsParseRfc, the whole method.
# A call `self._parse_rfc_rrule(v, dtstart=dtstart, [cache=cache,] ignoretz=ignoretz, tzinfos=tzinfos)` is `rrsParseRule po v` (the
# keyword arguments; the start and the cache flag are recorded beside them), `parser.parse(datestr, ignoretz=…, tzinfos=…)` of an RDATE
# value is kept as the text and the options (C02), `rruleset(cache=cache)` with its `rrule / rdate / exrule / exdate` calls is `Parsed.set`.

def translate_tail(rfc, k):
    def cname(n): return getattr(n, "id", None)
    top = rfc.body[k + 1]
    def rule_call(n, first, with_cache):
        want = {"dtstart": "dtstart", "ignoretz": "ignoretz", "tzinfos": "tzinfos"}
        if with_cache: want["cache"] = "cache"
        return (isinstance(n, ast.Call) and isinstance(n.func, ast.Attribute) and n.func.attr == "_parse_rfc_rrule" and cname(n.func.value) == "self"
                and len(n.args) == 1 and first(n.args[0]) and {kw.arg: cname(kw.value) for kw in n.keywords} == want)
    def idx0(name): return lambda a: isinstance(a, ast.Subscript) and cname(a.value) == name and isinstance(a.slice, ast.Constant) and a.slice.value == 0
    def is_name(name): return lambda a: cname(a) == name
    # fast path
    t = top.test
    ok = (isinstance(t, ast.BoolOp) and isinstance(t.op, ast.And) and len(t.values) == 3
          and isinstance(t.values[0], ast.UnaryOp) and isinstance(t.values[0].op, ast.Not) and cname(t.values[0].operand) == "forceset"
          and isinstance(t.values[1], ast.Compare) and cname(t.values[1].left.func) == "len" and cname(t.values[1].left.args[0]) == "lines"
          and isinstance(t.values[1].ops[0], ast.Eq) and t.values[1].comparators[0].value == 1
          and isinstance(t.values[2], ast.BoolOp) and isinstance(t.values[2].op, ast.Or) and len(t.values[2].values) == 2)
    if not ok: raise Untranslatable("_parse_rfc: fast-path test")
    o1, o2 = t.values[2].values
    if not (isinstance(o1, ast.Compare) and o1.left.func.attr == "find" and cname(o1.left.func.value) == "s" and isinstance(o1.ops[0], ast.Eq)
            and isinstance(o1.comparators[0], ast.UnaryOp) and o1.comparators[0].operand.value == 1 and len(o1.left.args[0].value) == 1
            and isinstance(o2, ast.Call) and o2.func.attr == "startswith" and cname(o2.func.value) == "s" and isinstance(o2.args[0], ast.Constant)):
        raise Untranslatable("_parse_rfc: fast-path test (text part)")
    if not (len(top.body) == 1 and isinstance(top.body[0], ast.Return) and rule_call(top.body[0].value, idx0("lines"), True)):
        raise Untranslatable("_parse_rfc: fast-path return")
    fast = "!forceset && lines.length == 1 && (!s.contains %s || RRuleStr.startsWith s (RRuleStr.lit \"%s\"))" % (lean_char(o1.left.args[0].value), o2.args[0].value)
    els = top.orelse
    if not (len(els) == 6 and isinstance(els[5], ast.If)): raise Untranslatable("_parse_rfc: multi-line branch")
    dec = els[5]
    # the decision for a set
    def term(n):
        if cname(n) == "forceset": return "forceset"
        if cname(n) in ("rrulevals", "rdatevals", "exrulevals", "exdatevals"): return "!acc.%s.isEmpty" % n.id
        if isinstance(n, ast.Compare) and cname(n.left.func) == "len" and cname(n.left.args[0]) in ("rrulevals", "rdatevals", "exrulevals", "exdatevals") \
           and isinstance(n.ops[0], ast.Gt) and isinstance(n.comparators[0], ast.Constant):
            return "acc.%s.length > %d" % (n.left.args[0].id, n.comparators[0].value)
        raise Untranslatable("_parse_rfc: term of the set decision")
    if not (isinstance(dec.test, ast.BoolOp) and isinstance(dec.test.op, ast.Or)): raise Untranslatable("_parse_rfc: set decision")
    wants = " || ".join(term(v) for v in dec.test.values)
    # set building
    sb = [st for st in dec.body if not (isinstance(st, ast.If) and not st.orelse and all(isinstance(x, (ast.Import, ast.ImportFrom)) for x in st.body))]
    def adder(st, lst, meth, argcheck):
        return (isinstance(st, ast.For) and cname(st.target) == "value" and cname(st.iter) == lst and not st.orelse and len(st.body) == 1
                and isinstance(st.body[0], ast.Expr) and isinstance(st.body[0].value, ast.Call) and st.body[0].value.func.attr == meth
                and cname(st.body[0].value.func.value) == "rset" and len(st.body[0].value.args) == 1 and argcheck(st.body[0].value.args[0]))
    okb = (len(sb) == 7 and isinstance(sb[0], ast.Assign) and cname(sb[0].targets[0]) == "rset" and cname(sb[0].value.func) == "rruleset"
           and {kw.arg: cname(kw.value) for kw in sb[0].value.keywords} == {"cache": "cache"} and not sb[0].value.args
           and adder(sb[1], "rrulevals", "rrule", lambda a: rule_call(a, is_name("value"), False))
           and adder(sb[3], "exrulevals", "exrule", lambda a: rule_call(a, is_name("value"), False))
           and adder(sb[4], "exdatevals", "exdate", is_name("value"))
           and isinstance(sb[6], ast.Return) and cname(sb[6].value) == "rset")
    if not okb: raise Untranslatable("_parse_rfc: set building")
    rd = sb[2]
    okr = (isinstance(rd, ast.For) and cname(rd.target) == "value" and cname(rd.iter) == "rdatevals" and len(rd.body) == 1 and isinstance(rd.body[0], ast.For)
           and cname(rd.body[0].target) == "datestr" and rd.body[0].iter.func.attr == "split" and cname(rd.body[0].iter.func.value) == "value"
           and len(rd.body[0].iter.args) == 1 and len(rd.body[0].body) == 2 and isinstance(rd.body[0].body[0], ast.Try))
    if not okr: raise Untranslatable("_parse_rfc: RDATE loop")
    tr_, add_ = rd.body[0].body
    pc = tr_.body[0].value
    if not (cname(tr_.body[0].targets[0]) == "rdate" and pc.func.attr == "parse" and cname(pc.func.value) == "parser" and [cname(a) for a in pc.args] == ["datestr"]
            and {kw.arg: cname(kw.value) for kw in pc.keywords} == {"ignoretz": "ignoretz", "tzinfos": "tzinfos"}
            and len(tr_.handlers) == 1 and cname(tr_.handlers[0].type) == "OverflowError" and cname(tr_.handlers[0].body[0].exc.func) == "ValueError"
            and isinstance(add_, ast.Expr) and add_.value.func.attr == "rdate" and cname(add_.value.func.value) == "rset" and [cname(a) for a in add_.value.args] == ["rdate"]):
        raise Untranslatable("_parse_rfc: RDATE value")
    rsep = rd.body[0].iter.args[0].value
    cd = sb[5]
    if not (isinstance(cd, ast.If) and isinstance(cd.test, ast.BoolOp) and isinstance(cd.test.op, ast.And) and [cname(v) for v in cd.test.values] == ["compatible", "dtstart"]
            and not cd.orelse and len(cd.body) == 1 and cd.body[0].value.func.attr == "rdate" and [cname(a) for a in cd.body[0].value.args] == ["dtstart"]):
        raise Untranslatable("_parse_rfc: compatible DTSTART")
    # single rule exit
    se = dec.orelse
    if not (len(se) == 2 and isinstance(se[0], ast.If) and isinstance(se[0].test, ast.UnaryOp) and cname(se[0].test.operand) == "rrulevals"
            and isinstance(se[0].body[0], ast.Raise) and isinstance(se[1], ast.Return) and rule_call(se[1].value, idx0("rrulevals"), True)):
        raise Untranslatable("_parse_rfc: single-rule exit")
    exc = se[0].body[0].exc.func.id
    text = ("/-- translated from `rrule.py:_rrulestr._parse_rfc`: everything after the unfold block — the single-line fast path, the dispatch loop\n"
            "    (`rrsStepLine`), the decision for a set, the set building (`rruleset(cache=cache)`, its rrules / rdates / exrules / exdates, the\n"
            "    `compatible` DTSTART), the single-rule exit.  `dtstartKw` = whether a `dtstart=` argument was passed (its truth value) -/\n"
            "def rrsTail (po : RRuleStr.ParseOpts) (cache : Bool) (s : StrPy.Str) (lines : List StrPy.Str) (forceset compatible dtstartKw : Bool) :\n"
            "    Py.R RRuleStr.Parsed :=\n"
            "  if %s then\n"
            "    (rrsParseRule po (lines.headD [])) >>= fun a => .ok (.rule a none cache)\n"
            "  else\n"
            "    (lines.foldlM (rrsStepLine po) {}) >>= fun acc =>\n"
            "    if %s then\n"
            "      (acc.rrulevals.mapM (rrsParseRule po)) >>= fun rr =>\n"
            "      (acc.exrulevals.mapM (rrsParseRule po)) >>= fun ex =>\n"
            "      let rdates := ((acc.rdatevals.map (ICal.splitOnChar %s)).flatten).map (fun d => (d, po))\n"
            "      .ok (.set rr ex rdates acc.exdatevals acc.dtstart (compatible && (acc.dtstart.isSome || dtstartKw)) cache)\n"
            "    else\n"
            "      match acc.rrulevals with\n"
            "      | v :: _ => (rrsParseRule po v) >>= fun a => .ok (.rule a acc.dtstart cache)\n"
            "      | [] => .error .%s\n\n"
            "/-- `_rrulestr._parse_rfc` (WHOLE method): the translated prefix followed by the translated rest -/\n"
            "def rrsParseRfc (s0 : StrPy.Str) (o : RRuleStr.Opts) (dtstartKw : Bool) : Py.R RRuleStr.Parsed :=\n"
            "  (rrsPrefix s0 o.unfold o.forceset o.compatible) >>= fun (forceset, unfold, TZID_NAMES, s, lines) =>\n"
            "  rrsTail o.po o.cache s lines forceset o.compatible dtstartKw\n" % (fast, wants, lean_char(rsep), exc))
    return text, {"_rrulestr._parse_rfc": fingerprint([rfc])}

def translate_all(src):
    loc = locate(src)
    out, fps = [], {}
    # 1. the prefix of _parse_rfc
    tr = Tr({"s": "Str", "unfold": "Bool", "forceset": "Bool", "compatible": "Bool"})
    tr.defined |= {"s", "unfold", "forceset", "compatible"}
    tr.fname = "rrsPrefix"; tr.loop_bound = "lines.length + 1"
    body = tr.block(strip_docstring(loc["prefix"]), lambda: ".ok (forceset, unfold, TZID_NAMES, s, lines)")
    out += tr.aux
    out.append("/-- translated from `rrule.py:_rrulestr._parse_rfc`: every statement up to and including `if unfold: … else: lines = s.split()`;\n"
               "    result = `(forceset, unfold, TZID_NAMES, s, lines)` as they stand before the single-line fast path -/\n"
               "def rrsPrefix (s : StrPy.Str) (unfold forceset compatible : Bool) : Py.R (Bool × Bool × StrPy.Dict × StrPy.Str × List StrPy.Str) :=\n%s\n" % indent(body))
    fps["_rrulestr._parse_rfc[prefix]"] = fingerprint(loc["prefix"])
    # 2. the parameter loop of _parse_date_value
    tr = Tr({"parms": "StrList", "rule_tzids": "Dict", "tzids": "Tzids", "tzlookup": "OptLookup", "TZID": "OptZone", "value_found": "Bool"},
            dead={"msg", "datevals"})
    tr.defined |= {"parms", "rule_tzids", "tzids"}
    tr.fname = "rrsDateParms"
    body = tr.block(strip_docstring(loc["parms"]), lambda: ".ok (TZID, value_found)")
    out += tr.aux
    out.append("/-- translated from `rrule.py:_rrulestr._parse_date_value`: every statement up to and including `for parm in parms:`;\n"
               "    result = `(TZID, value_found)`; a looked-up zone is `Zone.looked <which lookup> <name handed to it>` -/\n"
               "def rrsDateParms (parms : List StrPy.Str) (rule_tzids : StrPy.Dict) (tzids : StrPy.TzidsKind) : Py.R (Option StrPy.Zone × Bool) :=\n%s\n" % indent(body))
    fps["_rrulestr._parse_date_value[parms]"] = fingerprint(loc["parms"])
    # 3. attaching the zone
    tr = Tr({"TZID": "OptZone", "date_tzinfo": "OptZone"}, attrs={("date", "tzinfo"): "date_tzinfo"})
    tr.defined |= {"TZID", "date_tzinfo"}
    tr.fname = "rrsAttach"
    body = tr.block(loc["attach"], lambda: ".ok date_tzinfo")
    out.append("/-- translated from `rrule.py:_rrulestr._parse_date_value`: the `if TZID is not None:` statement inside the loop over the date\n"
               "    strings; `date_tzinfo` = the zone `parser.parse` gave the date (none = naive), result = the zone of the date appended -/\n"
               "def rrsAttach (TZID date_tzinfo : Option StrPy.Zone) : Py.R (Option StrPy.Zone) :=\n%s\n" % indent(body))
    fps["_rrulestr._parse_date_value[attach]"] = fingerprint(loc["attach"])
    # 4. the whole of _parse_date_value: [parms] ; for datestr in date_value.split(','): parse (OverflowError -> ValueError) ; [attach] ; append ; return
    pdv = loc["pdv"]
    def cname(n): return getattr(n, "id", None)
    rest = pdv.body[len(loc["parms"]):]
    if not (len(rest) == 2 and isinstance(rest[0], ast.For) and isinstance(rest[1], ast.Return) and cname(rest[1].value) == "datevals"):
        raise Untranslatable("_parse_date_value: statements after the parameter loop")
    f2 = rest[0]
    if not (cname(f2.target) == "datestr" and isinstance(f2.iter, ast.Call) and f2.iter.func.attr == "split" and cname(f2.iter.func.value) == "date_value"
            and len(f2.iter.args) == 1 and len(f2.iter.args[0].value) == 1 and not f2.orelse and len(f2.body) == 3
            and isinstance(f2.body[0], ast.Try) and f2.body[1] is loc["attach"][0]):
        raise Untranslatable("_parse_date_value: loop over the date strings")
    tr_, ap_ = f2.body[0], f2.body[2]
    pc = tr_.body[0].value if len(tr_.body) == 1 and isinstance(tr_.body[0], ast.Assign) and cname(tr_.body[0].targets[0]) == "date" else None
    if not (isinstance(pc, ast.Call) and isinstance(pc.func, ast.Attribute) and pc.func.attr == "parse" and cname(pc.func.value) == "parser"
            and [cname(a) for a in pc.args] == ["datestr"] and {k.arg: cname(k.value) for k in pc.keywords} == {"ignoretz": "ignoretz", "tzinfos": "tzinfos"}
            and len(tr_.handlers) == 1 and cname(tr_.handlers[0].type) == "OverflowError" and len(tr_.handlers[0].body) == 1
            and isinstance(tr_.handlers[0].body[0], ast.Raise) and cname(tr_.handlers[0].body[0].exc.func) == "ValueError" and not tr_.orelse and not tr_.finalbody
            and isinstance(ap_, ast.Expr) and isinstance(ap_.value, ast.Call) and ap_.value.func.attr == "append" and cname(ap_.value.func.value) == "datevals"
            and [cname(a) for a in ap_.value.args] == ["date"]
            and any(isinstance(st, ast.Assign) and cname(st.targets[0]) == "datevals" and isinstance(st.value, ast.List) and not st.value.elts for st in loc["parms"])):
        raise Untranslatable("_parse_date_value: body of the loop over the date strings")
    out.append("/-- translated from `rrule.py:_rrulestr._parse_date_value` (WHOLE method): the parameter loop (`rrsDateParms`), then for every `datestr` of\n"
               "    `date_value.split('%s')`: `parser.parse(datestr, ignoretz=ignoretz, tzinfos=tzinfos)` (the function `parse`, given: C02; an\n"
               "    OverflowError becomes ValueError), the zone attach statement (`rrsAttach`), `datevals.append(date)`; returns `datevals`.\n"
               "    A date is the pair (what `parse` returned, its zone). -/\n"
               "def rrsParseDateValue {D : Type} (parse : StrPy.Str → Py.R (D × Option StrPy.Zone)) (date_value : StrPy.Str) (parms : List StrPy.Str)\n"
               "    (rule_tzids : StrPy.Dict) (tzids : StrPy.TzidsKind) : Py.R (List (D × Option StrPy.Zone)) :=\n"
               "  (rrsDateParms parms rule_tzids tzids) >>= fun (TZID, value_found) =>\n"
               "  (ICal.splitOnChar %s date_value).mapM (fun datestr =>\n"
               "    (match parse datestr with | .error .OverflowError => .error .ValueError | r => r) >>= fun date =>\n"
               "    (rrsAttach TZID date.2) >>= fun tzinfo =>\n"
               "    .ok (date.1, tzinfo))\n" % (f2.iter.args[0].value, lean_char(f2.iter.args[0].value)))
    fps["_rrulestr._parse_date_value"] = fingerprint([pdv])
    fps.pop("_rrulestr._parse_date_value[parms]", None); fps.pop("_rrulestr._parse_date_value[attach]", None)    # the whole method now
    rfc_tree = ast.parse(open(os.path.join(src, "rrule.py")).read())
    rfc = find_function(rfc_tree, "_rrulestr._parse_rfc")
    kk = next(i for i, st in enumerate(rfc.body) if isinstance(st, ast.If) and isinstance(st.test, ast.Name) and st.test.id == "unfold")
    text, fp = translate_dispatch(rfc, kk)
    out.append(text); fps.update(fp)
    text, fp = translate_rrule_str(src)
    out.append(text); fps.update(fp)
    text, fp = translate_rule_parser(src)
    # __call__ refers to rrsParseRfc: emit the tail of _parse_rfc before it
    ttext, tfp = translate_tail(rfc, kk)
    cut = text.index("/-- translated from `_rrulestr.__call__`")
    text = text[:cut] + ttext + "\n" + text[cut:]
    out.append(text); fps.update(fp); fps.update(tfp)
    fps.pop("_rrulestr._parse_rfc[prefix]", None); fps.pop("_rrulestr._parse_rfc[dispatch]", None)      # the whole method now
    return "\n".join(out), fps

if __name__ == "__main__":
    import sys
    text, fps = translate_all(os.path.join(sys.argv[1] if len(sys.argv) > 1 else "/repo", "src", "dateutil"))
    print(text); print(fps, file=sys.stderr)
