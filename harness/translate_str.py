#!/usr/bin/env python3
"""
translate_str.py — Python AST -> Lean 4 for "StrPy": the text-handling prefix of `_rrulestr._parse_rfc` (the
`compatible` switch, the TZID pre-scan with its two regular expressions, upper-casing, the empty-text check, the UNFOLD
LOOP / `s.split()`), the parameter loop of `_rrulestr._parse_date_value` (the `TZID=` arm with its name table lookup and
the choice of the lookup function, the `VALUE=` arm) and the statement that attaches the looked-up zone to a parsed date.

Target: `lean/DateutilVerif/Model/StrPy.lean` (ASCII strings = `List Char`, lists with Python index read/write/delete,
deterministic three-shape regular expressions, a dict as a list of pairs).  Everything runs in `Py.R` (errors are
exception kinds); a `while` loop becomes a fuel-bounded recursive function (out of fuel = NotImplemented; the declared
bound is `len(lines) + 1`, and `Proofs/RRuleStrGen.lean` proves the loop never runs out).

Statements: `x = e`, `x += e`, `l[i] += e`, `del l[i]`, `if/elif/else`, `while` (one per function), `for x in l:` with
`continue` (a monadic fold over the carried names), `try: x = e except KeyError: continue`, `raise E(...)`, `global`,
`import` (skipped), assignments to names declared DEAD (exception message texts).
Expressions: names, int / str / bool / None literals, `len`, `s.splitlines() .split() .rstrip() .strip() .upper()
.startswith(lit)`, `s.split(lit)[-1]`, `l[i]`, `s[k:]`, `d[k]`, `+ -` on ints, `+` on strings, comparisons, `is None`,
`x not in {lits}`, `and / or / not` (short-circuit), conditional expressions, `re.sub(pat, '', s)`,
`re.findall(pat, s, re.IGNORECASE)`, `dict(map(lambda x: (e1, e2), l))`, `callable(tzids)`, `getattr(tzids, 'get', None)`,
`tz.gettz`, `tzlookup(name)`, `date.tzinfo`, `date.replace(tzinfo=z)`.
Regular expressions are parsed with Python's own parser (`re._parser`) and accepted only in the shapes on which the
deterministic matcher of StrPy equals the backtracking one (see Model/StrPy.lean); anything else is Untranslatable.
"""
import ast, os, hashlib
from translate import Untranslatable, find_function

LEAN_TY = {"Str": "StrPy.Str", "StrList": "List StrPy.Str", "Int": "Int", "Bool": "Bool", "Dict": "StrPy.Dict",
           "Tzids": "StrPy.TzidsKind", "OptLookup": "Option StrPy.Lookup", "OptZone": "Option StrPy.Zone", "Char": "Char",
           "Zone": "StrPy.Zone", "Lookup": "StrPy.Lookup"}

def lean_char(c):
    o = ord(c)
    if o >= 128: raise Untranslatable("non-ASCII character in a literal")
    if c == "'": return "'\\''"
    if c == "\\": return "'\\\\'"
    if c == "\n": return "'\\n'"
    if c == "\r": return "'\\r'"
    if c == "\t": return "'\\t'"
    if o < 32 or o == 127: return "(Char.ofNat %d)" % o
    return "'%s'" % c

def lean_str(s):
    return "[" + ", ".join(lean_char(c) for c in s) + "]"

def regex_items(pat, ignorecase):
    """a Python pattern -> StrPy.ReItem list (or Untranslatable)"""
    import re
    try:
        from re import _parser as sp, _constants as sc
    except ImportError:            # Python < 3.11
        import sre_parse as sp, sre_constants as sc
    try:
        parsed = list(sp.parse(pat, re.IGNORECASE if ignorecase else 0))
    except Exception as ex:
        raise Untranslatable("regular expression %r: %s" % (pat, ex))
    items, groups = [], 0
    def lits_of_in(av, negate):
        av = list(av)
        neg = bool(av and av[0][0] == sc.NEGATE)
        if neg: av = av[1:]
        if neg != negate or not av or any(op != sc.LITERAL for op, _ in av):
            raise Untranslatable("character class in %r" % pat)
        return [chr(a) for _, a in av]
    for op, av in parsed:
        if op == sc.LITERAL:
            items.append(("chr", chr(av)))
        elif op == sc.MAX_REPEAT and av[0] == 0 and av[1] == 1 and len(av[2]) == 1 and av[2][0][0] == sc.LITERAL:
            items.append(("opt", chr(av[2][0][1])))
        elif op == sc.IN:
            items.append(("oneOf", lits_of_in(av, False)))
        elif op == sc.SUBPATTERN:
            sub = list(av[3])
            if len(sub) == 1 and sub[0][0] == sc.MAX_REPEAT and sub[0][1][0] == 1 and sub[0][1][1] == sc.MAXREPEAT \
               and len(sub[0][1][2]) == 1 and sub[0][1][2][0][0] == sc.IN:
                items.append(("plusNot", lits_of_in(sub[0][1][2][0][1], True))); groups += 1
            else:
                raise Untranslatable("group in %r" % pat)
        else:
            raise Untranslatable("regular expression construct %s in %r" % (op, pat))
    # determinism side conditions
    fold = (lambda c: c.upper()) if ignorecase else (lambda c: c)
    def first_set(it):
        return {fold(it[1])} if it[0] in ("chr", "opt") else ({fold(c) for c in it[1]} if it[0] == "oneOf" else None)
    for k, it in enumerate(items):
        nxt = items[k + 1] if k + 1 < len(items) else None
        if it[0] == "opt":
            if nxt is None or nxt[0] not in ("chr", "oneOf") or fold(it[1]) in first_set(nxt):
                raise Untranslatable("optional character not followed by a different literal in %r" % pat)
        if it[0] == "plusNot":
            if nxt is None or nxt[0] != "oneOf" or not {fold(c) for c in nxt[1]} <= {fold(c) for c in it[1]}:
                raise Untranslatable("[^..]+ not followed by a class it excludes in %r" % pat)
    if groups > 1 or not items or all(it[0] == "opt" for it in items):
        raise Untranslatable("pattern shape %r" % pat)
    def show(it):
        if it[0] in ("chr", "opt"): return ".%s %s" % (it[0], lean_char(it[1]))
        return ".%s [%s]" % (it[0], ", ".join(lean_char(c) for c in it[1]))
    return "[" + ", ".join(show(it) for it in items) + "]", groups

class Tr:
    def __init__(self, types, dead=(), attrs=None):
        self.types = dict(types)       # python name -> StrPy type
        self.defined = set()           # names bound so far (parameters are added by the caller)
        self.dead = set(dead)
        self.attrs = attrs or {}       # (name, attr) -> variable name
        self.n = 0
        self.aux = []                  # auxiliary definitions (loops)
        self.loop = None               # (continue-expression) inside a for body
        self.fname = "?"

    def fresh(self, base="v"):
        self.n += 1
        return "%s%d" % (base, self.n)

    # ------------------------------------------------------------------ expressions: (binds, lean, type)
    def wrap(self, binds, body):
        for name, m in reversed(binds):
            body = "(%s) >>= fun %s =>\n%s" % (m, name, body)
        return body

    def pure_or_m(self, binds, e):
        """an expression with its bindings as ONE monadic value"""
        return self.wrap(binds, "(.ok %s)" % e)

    def ex(self, e, want=None):
        if isinstance(e, ast.Constant):
            v = e.value
            if v is True: return [], "true", "Bool"
            if v is False: return [], "false", "Bool"
            if v is None:
                if want in ("OptZone", "OptLookup"): return [], "none", want
                raise Untranslatable("None in a non-optional position")
            if isinstance(v, int): return [], "(%d : Int)" % v, "Int"
            if isinstance(v, str):
                if want == "Char":
                    if len(v) != 1: raise Untranslatable("character compared with %r" % v)
                    return [], lean_char(v), "Char"
                return [], "(%s : StrPy.Str)" % lean_str(v), "Str"
            raise Untranslatable("constant %r" % (v,))
        if isinstance(e, ast.Name):
            if e.id not in self.types: raise Untranslatable("name %s" % e.id)
            return [], e.id, self.types[e.id]
        if isinstance(e, ast.Attribute):
            if isinstance(e.value, ast.Name) and (e.value.id, e.attr) in self.attrs:
                v = self.attrs[(e.value.id, e.attr)]
                return [], v, self.types[v]
            if isinstance(e.value, ast.Name) and e.value.id == "tz" and e.attr == "gettz":
                return [], "StrPy.Lookup.gettz", "Lookup"
            raise Untranslatable("attribute %s" % ast.dump(e))
        if isinstance(e, ast.IfExp):
            cb, c, ct = self.ex(e.test); self.need(ct, "Bool")
            if cb: raise Untranslatable("raising condition in a conditional expression")
            ab, a, at = self.ex(e.body); bb, b, bt = self.ex(e.orelse)
            if at != bt: raise Untranslatable("conditional expression of two types")
            if ab or bb:
                v = self.fresh()
                return [(v, "if %s then %s else %s" % (c, self.pure_or_m(ab, a), self.pure_or_m(bb, b)))], v, at
            return [], "(if %s then %s else %s)" % (c, a, b), at
        if isinstance(e, ast.UnaryOp) and isinstance(e.op, ast.Not):
            b, x, t = self.ex(e.operand)
            if t in ("Str", "StrList", "Dict"): return b, "(%s).isEmpty" % x, "Bool"
            if t == "Bool": return b, "(!%s)" % x, "Bool"
            raise Untranslatable("not on %s" % t)
        if isinstance(e, ast.BoolOp):
            vals = [self.truth(v) for v in e.values]
            binds, cur = vals[0][0], vals[0][1]
            for b, x in vals[1:]:
                if b:      # short circuit around something that can raise
                    v = self.fresh("c")
                    if isinstance(e.op, ast.And):
                        m = "if %s then %s else (.ok false)" % (cur, self.pure_or_m(b, x))
                    else:
                        m = "if %s then (.ok true) else %s" % (cur, self.pure_or_m(b, x))
                    binds = binds + [(v, m)]; cur = v
                else:
                    cur = "(%s %s %s)" % (cur, "&&" if isinstance(e.op, ast.And) else "||", x)
            return binds, cur, "Bool"
        if isinstance(e, ast.Compare) and len(e.ops) == 1:
            op, l, r = e.ops[0], e.left, e.comparators[0]
            if isinstance(op, (ast.Is, ast.IsNot)) and isinstance(r, ast.Constant) and r.value is None:
                b, x, t = self.ex(l)
                if t == "Tzids":
                    s = "(%s == StrPy.TzidsKind.none)" % x
                elif t in ("OptZone", "OptLookup"):
                    s = "(%s).isNone" % x
                else: raise Untranslatable("is None on %s" % t)
                return b, s if isinstance(op, ast.Is) else "(!%s)" % s, "Bool"
            if isinstance(op, (ast.In, ast.NotIn)) and isinstance(r, (ast.Set, ast.Tuple, ast.List)) \
               and all(isinstance(x, ast.Constant) and isinstance(x.value, str) for x in r.elts):
                b, x, t = self.ex(l); self.need(t, "Str")
                s = "([%s].contains %s)" % (", ".join(lean_str(c.value) for c in r.elts), x)
                return b, s if isinstance(op, ast.In) else "(!%s)" % s, "Bool"
            lb, lx, lt = self.ex(l)
            rb, rx, rt = self.ex(r, want=lt if lt == "Char" else None)
            if lt != rt: raise Untranslatable("comparison of %s with %s" % (lt, rt))
            sym = {ast.Lt: "<", ast.Gt: ">", ast.LtE: "≤", ast.GtE: "≥", ast.Eq: "==", ast.NotEq: "!="}.get(type(op))
            if sym is None or (lt != "Int" and sym not in ("==", "!=")): raise Untranslatable("comparison %s" % type(op).__name__)
            return lb + rb, ("(%s %s %s)" % (lx, sym, rx)) if sym in ("==", "!=") else "(decide (%s %s %s))" % (lx, sym, rx), "Bool"
        if isinstance(e, ast.BinOp) and isinstance(e.op, (ast.Add, ast.Sub)):
            lb, lx, lt = self.ex(e.left); rb, rx, rt = self.ex(e.right)
            if lt == rt == "Int": return lb + rb, "(%s %s %s)" % (lx, "+" if isinstance(e.op, ast.Add) else "-", rx), "Int"
            if lt == rt == "Str" and isinstance(e.op, ast.Add): return lb + rb, "(%s ++ %s)" % (lx, rx), "Str"
            raise Untranslatable("binary operator on %s, %s" % (lt, rt))
        if isinstance(e, ast.Subscript):
            # s.split(lit)[-1]
            if isinstance(e.value, ast.Call) and isinstance(e.value.func, ast.Attribute) and e.value.func.attr == "split" \
               and len(e.value.args) == 1 and isinstance(e.value.args[0], ast.Constant) and isinstance(e.value.args[0].value, str) \
               and e.value.args[0].value and isinstance(e.slice, ast.UnaryOp) and isinstance(e.slice.op, ast.USub) \
               and isinstance(e.slice.operand, ast.Constant) and e.slice.operand.value == 1:
                b, x, t = self.ex(e.value.func.value); self.need(t, "Str")
                return b, "(StrPy.afterLast %s %s)" % (lean_str(e.value.args[0].value), x), "Str"
            b, x, t = self.ex(e.value)
            if isinstance(e.slice, ast.Slice):
                if t == "Str" and e.slice.upper is None and e.slice.step is None and isinstance(e.slice.lower, ast.Constant) \
                   and isinstance(e.slice.lower.value, int) and e.slice.lower.value >= 0:
                    return b, "(StrPy.sliceFrom %s %d)" % (x, e.slice.lower.value), "Str"
                raise Untranslatable("slice")
            ib, ix, it = self.ex(e.slice)
            v = self.fresh()
            if t == "Dict":
                self.need(it, "Str"); return b + ib + [(v, "StrPy.dictGet %s %s" % (x, ix))], v, "Str"
            self.need(it, "Int")
            if t == "StrList": return b + ib + [(v, "StrPy.getL %s %s" % (x, ix))], v, "Str"
            if t == "Str": return b + ib + [(v, "StrPy.getL %s %s" % (x, ix))], v, "Char"
            raise Untranslatable("subscript on %s" % t)
        if isinstance(e, ast.Call):
            f = e.func
            if isinstance(f, ast.Name) and f.id == "len" and len(e.args) == 1:
                b, x, t = self.ex(e.args[0])
                if t not in ("Str", "StrList"): raise Untranslatable("len of %s" % t)
                return b, "((%s).length : Int)" % x, "Int"
            if isinstance(f, ast.Name) and f.id == "callable" and len(e.args) == 1:
                b, x, t = self.ex(e.args[0]); self.need(t, "Tzids")
                return b, "(%s == StrPy.TzidsKind.callable)" % x, "Bool"
            if isinstance(f, ast.Name) and f.id == "getattr" and len(e.args) == 3 and isinstance(e.args[1], ast.Constant) \
               and e.args[1].value == "get" and isinstance(e.args[2], ast.Constant) and e.args[2].value is None:
                b, x, t = self.ex(e.args[0]); self.need(t, "Tzids")
                return b, "(if %s == StrPy.TzidsKind.mapping then some StrPy.Lookup.get else none)" % x, "OptLookup"
            if isinstance(f, ast.Name) and self.types.get(f.id) == "OptLookup" and len(e.args) == 1 and not e.keywords:
                b, x, t = self.ex(e.args[0]); self.need(t, "Str")
                v = self.fresh("z")
                return b + [(v, "match %s with | some f => .ok (StrPy.Zone.looked f %s) | none => .error .TypeError" % (f.id, x))], v, "Zone"
            if isinstance(f, ast.Name) and f.id == "dict" and len(e.args) == 1 and isinstance(e.args[0], ast.Call) \
               and isinstance(e.args[0].func, ast.Name) and e.args[0].func.id == "map" and len(e.args[0].args) == 2 \
               and isinstance(e.args[0].args[0], ast.Lambda):
                lam, lst = e.args[0].args
                if len(lam.args.args) != 1 or not isinstance(lam.body, ast.Tuple) or len(lam.body.elts) != 2:
                    raise Untranslatable("lambda shape")
                b, x, t = self.ex(lst); self.need(t, "StrList")
                p = lam.args.args[0].arg
                saved = self.types.get(p); self.types[p] = "Str"
                kb, kx, kt = self.ex(lam.body.elts[0]); vb, vx, vt = self.ex(lam.body.elts[1])
                if saved is None: del self.types[p]
                else: self.types[p] = saved
                if kb or vb or kt != "Str" or vt != "Str": raise Untranslatable("lambda body")
                return b, "((%s).map (fun %s => (%s, %s)))" % (x, p, kx, vx), "Dict"
            if isinstance(f, ast.Attribute) and isinstance(f.value, ast.Name) and f.value.id == "re":
                if f.attr == "sub" and len(e.args) == 3 and not e.keywords and all(isinstance(a, ast.Constant) for a in e.args[:2]) \
                   and e.args[1].value == "":
                    items, _ = regex_items(e.args[0].value, False)
                    b, x, t = self.ex(e.args[2]); self.need(t, "Str")
                    return b, "(StrPy.subDelete false %s %s)" % (items, x), "Str"
                if f.attr == "findall" and len(e.args) in (2, 3) and not e.keywords and isinstance(e.args[0], ast.Constant):
                    ic = False
                    if len(e.args) == 3:
                        fl = e.args[2]
                        if not (isinstance(fl, ast.Attribute) and isinstance(fl.value, ast.Name) and fl.value.id == "re" and fl.attr in ("IGNORECASE", "I")):
                            raise Untranslatable("regular expression flags")
                        ic = True
                    items, groups = regex_items(e.args[0].value, ic)
                    if groups != 1: raise Untranslatable("findall needs exactly one group")
                    b, x, t = self.ex(e.args[1]); self.need(t, "Str")
                    return b, "(StrPy.findall %s %s %s)" % ("true" if ic else "false", items, x), "StrList"
                raise Untranslatable("re.%s" % f.attr)
            if isinstance(f, ast.Attribute):
                b, x, t = self.ex(f.value)
                if t == "Str" and not e.keywords:
                    if f.attr in ("rstrip", "strip", "upper", "splitlines") and not e.args:
                        fn, rt = {"rstrip": ("ICal.rstrip", "Str"), "strip": ("ICal.strip", "Str"), "upper": ("ICal.upper", "Str"),
                                  "splitlines": ("ICal.splitLines", "StrList")}[f.attr]
                        return b, "(%s %s)" % (fn, x), rt
                    if f.attr == "split" and not e.args:
                        return b, "(RRuleStr.splitWs %s)" % x, "StrList"
                    if f.attr == "startswith" and len(e.args) == 1 and isinstance(e.args[0], ast.Constant) and isinstance(e.args[0].value, str):
                        return b, "(StrPy.startsWith %s %s)" % (x, lean_str(e.args[0].value)), "Bool"
                raise Untranslatable("method %s on %s" % (f.attr, t))
        raise Untranslatable(ast.dump(e)[:120])

    def need(self, t, want):
        if t != want: raise Untranslatable("expected %s, found %s" % (want, t))

    def truth(self, e):
        b, x, t = self.ex(e)
        if t == "Bool": return b, x
        if t in ("Str", "StrList", "Dict"): return b, "(!(%s).isEmpty)" % x
        if t == "Int": return b, "(%s != 0)" % x
        if t in ("OptZone", "OptLookup"): return b, "(%s).isSome" % x
        raise Untranslatable("truth value of %s" % t)

    # ------------------------------------------------------------------ statements (continuation passing)
    def coerce(self, x, t, want):
        if t == want: return x
        if (t, want) in (("Zone", "OptZone"), ("Lookup", "OptLookup")): return "(some %s)" % x
        if (t, want) == ("Tzids", "OptLookup"): return "(some StrPy.Lookup.call)"      # the object itself is the lookup: it is called
        raise Untranslatable("assignment of %s to a %s variable" % (t, want))

    def assign(self, name, e, cont):
        if name in self.dead: return cont()
        want = self.types.get(name)
        b, x, t = self.ex(e, want=want)
        if want is None:
            self.types[name] = want = t
        self.defined.add(name)
        return self.wrap(b, "let %s : %s := %s\n%s" % (name, LEAN_TY[want], self.coerce(x, t, want), cont()))

    def simple(self, stmts):
        return all(isinstance(st, ast.Assign) and len(st.targets) == 1 and isinstance(st.targets[0], ast.Name)
                   and isinstance(st.value, (ast.Constant, ast.Name)) for st in stmts)

    def block(self, stmts, k):
        if not stmts: return k()
        s, rest = stmts[0], stmts[1:]
        cont = lambda: self.block(rest, k)
        if isinstance(s, (ast.Global, ast.Import, ast.ImportFrom, ast.Pass)): return cont()
        if isinstance(s, ast.Expr) and isinstance(s.value, ast.Constant) and isinstance(s.value.value, str): return cont()
        if isinstance(s, ast.Assign) and len(s.targets) == 1 and isinstance(s.targets[0], ast.Name):
            tgt = s.targets[0].id
            v = s.value
            if isinstance(v, ast.Call) and isinstance(v.func, ast.Attribute) and v.func.attr == "replace" and isinstance(v.func.value, ast.Name) \
               and v.func.value.id == tgt and not v.args and len(v.keywords) == 1 and (tgt, v.keywords[0].arg) in self.attrs:
                return self.assign(self.attrs[(tgt, v.keywords[0].arg)], v.keywords[0].value, cont)
            return self.assign(tgt, v, cont)
        if isinstance(s, ast.AugAssign) and isinstance(s.op, ast.Add):
            if isinstance(s.target, ast.Name):
                return self.assign(s.target.id, ast.BinOp(left=ast.Name(id=s.target.id, ctx=ast.Load()), op=ast.Add(), right=s.value), cont)
            if isinstance(s.target, ast.Subscript) and isinstance(s.target.value, ast.Name) and self.types.get(s.target.value.id) == "StrList":
                l = s.target.value.id
                ib, ix, it = self.ex(s.target.slice); self.need(it, "Int")
                vb, vx, vt = self.ex(s.value); self.need(vt, "Str")
                old = self.fresh("old")
                return self.wrap(ib + [(old, "StrPy.getL %s %s" % (l, ix))] + vb + [(l, "StrPy.setL %s %s (%s ++ %s)" % (l, ix, old, vx))], cont())
        if isinstance(s, ast.Delete) and len(s.targets) == 1 and isinstance(s.targets[0], ast.Subscript) \
           and isinstance(s.targets[0].value, ast.Name) and self.types.get(s.targets[0].value.id) == "StrList":
            l = s.targets[0].value.id
            ib, ix, it = self.ex(s.targets[0].slice); self.need(it, "Int")
            return self.wrap(ib + [(l, "StrPy.delL %s %s" % (l, ix))], cont())
        if isinstance(s, ast.Raise):
            exc = s.exc
            name = exc.func.id if isinstance(exc, ast.Call) and isinstance(exc.func, ast.Name) else (exc.id if isinstance(exc, ast.Name) else None)
            if name not in ("ValueError", "KeyError", "TypeError"): raise Untranslatable("raise %s" % name)
            return ".error .%s" % name
        if isinstance(s, ast.Continue):
            if self.loop is None: raise Untranslatable("continue outside a for loop")
            return self.loop()
        if isinstance(s, ast.If) and not s.orelse and all(isinstance(x, (ast.Import, ast.ImportFrom)) for x in s.body):
            return cont()              # a lazy import (`if not parser: from dateutil import parser`)
        if isinstance(s, ast.If) and self.simple(s.body) and self.simple(s.orelse):
            # both arms only assign: merge the assigned names (they must be bound already)
            b, c = self.truth(s.test)
            names = sorted({st.targets[0].id for st in s.body + s.orelse})
            if b or any(n not in self.defined for n in names): raise Untranslatable("conditional first assignment")
            tup = "(" + ", ".join(names) + ")"
            return "let %s := if %s then\n%s\nelse\n%s\n%s" % (tup, c, self.block(s.body, lambda: tup), self.block(s.orelse, lambda: tup), cont())
        if isinstance(s, ast.If):
            b, c = self.truth(s.test)
            # the continuation is duplicated into both arms (the translated functions are short)
            return self.wrap(b, "if %s then\n%s\nelse\n%s" % (c, self.block(s.body + rest, k), self.block(s.orelse + rest, k)))
        if isinstance(s, ast.Try):
            if len(s.body) == 1 and isinstance(s.body[0], ast.Assign) and isinstance(s.body[0].targets[0], ast.Name) and len(s.handlers) == 1 \
               and isinstance(s.handlers[0].type, ast.Name) and s.handlers[0].type.id == "KeyError" and not s.orelse and not s.finalbody:
                tgt = s.body[0].targets[0].id
                b, x, t = self.ex(s.body[0].value)
                self.types.setdefault(tgt, t)
                handler = self.block(s.handlers[0].body + rest, k)
                v = self.fresh("e")
                self.defined.add(tgt)
                return "(match (%s) with\n| .ok %s =>\n%s\n| .error .KeyError =>\n%s\n| .error %s => .error %s)" % (
                    self.pure_or_m(b, x), tgt, cont(), handler, v, v)
            raise Untranslatable("try statement shape")
        if isinstance(s, ast.While):
            if s.orelse: raise Untranslatable("while-else")
            carried = sorted({n.id for st in s.body for n in ast.walk(st) if isinstance(n, ast.Name) and isinstance(n.ctx, (ast.Store, ast.Del))}
                             | {st.targets[0].value.id for st in ast.walk(s) if isinstance(st, ast.Delete) and isinstance(st.targets[0], ast.Subscript)}
                             | {n.target.value.id for n in ast.walk(s) if isinstance(n, ast.AugAssign) and isinstance(n.target, ast.Subscript)})
            localv = [n for n in carried if n not in self.defined]
            carried = [n for n in carried if n in self.defined]
            free = sorted({n.id for n in ast.walk(s) if isinstance(n, ast.Name) and n.id in self.types} - set(carried))
            name = self.fname + "Loop"
            tup = "(" + ", ".join(carried) + ")"
            cb, c = self.truth(s.test)
            call = "%s fuel %s" % (name, " ".join(free + carried))
            body = self.block(s.body, lambda: call)
            for n in localv: self.types.pop(n, None); self.defined.discard(n)
            params = " ".join("(%s : %s)" % (n, LEAN_TY[self.types[n]]) for n in free + carried)
            rty = " × ".join(LEAN_TY[self.types[n]] for n in carried)
            if not any(a.split(" (fuel")[0].endswith("def " + name) for a in self.aux): self.aux.append("/-- the `while` loop of `%s` (fuel-bounded: out of fuel = NotImplemented) -/\n"
                            "def %s (fuel : Nat) %s : Py.R (%s) :=\n  match fuel with\n  | 0 => .error .NotImplemented\n  | fuel + 1 =>\n%s\n" % (
                                self.fname, name, params, rty,
                                indent(self.wrap(cb, "if %s then\n%s\nelse .ok %s" % (c, body, tup)), 4)))
            bound = self.loop_bound
            return "(%s (%s) %s) >>= fun %s =>\n%s" % (name, bound, " ".join(free + carried), tup, cont())
        if isinstance(s, ast.For):
            if s.orelse or not isinstance(s.target, ast.Name): raise Untranslatable("for shape")
            b, x, t = self.ex(s.iter); self.need(t, "StrList")
            assigned = {n.id for st in s.body for n in ast.walk(st) if isinstance(n, ast.Name) and isinstance(n.ctx, ast.Store)}
            carried = sorted(n for n in assigned if n in self.defined)
            tup = "(" + ", ".join(carried) + ")"
            self.types[s.target.id] = "Str"; self.defined.add(s.target.id)
            saved = self.loop
            self.loop = lambda: ".ok %s" % tup
            body = self.block(s.body, lambda: ".ok %s" % tup)
            self.loop = saved
            rty = " × ".join(LEAN_TY[self.types[n]] for n in carried)
            step = "(fun (st : %s) (%s : StrPy.Str) =>\nlet %s := st\n(%s : Py.R (%s)))" % (rty, s.target.id, tup, body, rty)
            return self.wrap(b, "((%s).foldlM %s %s) >>= fun %s =>\n%s" % (x, step, tup, tup, cont()))
        raise Untranslatable("statement %s" % type(s).__name__)

def indent(text, n=2):
    return "\n".join((" " * n + l) if l else l for l in text.split("\n"))

def fingerprint(nodes):
    return hashlib.sha256("".join(ast.dump(n) for n in nodes).encode()).hexdigest()[:16]

def locate(src):
    """the statements translated, as AST nodes (also used by the harness to EXECUTE the same statements)"""
    tree = ast.parse(open(os.path.join(src, "rrule.py")).read())
    rfc = find_function(tree, "_rrulestr._parse_rfc")
    k = next((i for i, st in enumerate(rfc.body) if isinstance(st, ast.If) and isinstance(st.test, ast.Name) and st.test.id == "unfold"), None)
    if k is None: raise Untranslatable("_parse_rfc: no `if unfold:` statement")
    prefix = rfc.body[:k + 1]
    pdv = find_function(tree, "_rrulestr._parse_date_value")
    f1 = next((i for i, st in enumerate(pdv.body) if isinstance(st, ast.For) and isinstance(st.target, ast.Name) and st.target.id == "parm"), None)
    if f1 is None: raise Untranslatable("_parse_date_value: no `for parm in parms:` loop")
    parms = pdv.body[:f1 + 1]
    f2 = [st for st in pdv.body[f1 + 1:] if isinstance(st, ast.For)]
    if len(f2) != 1: raise Untranslatable("_parse_date_value: expected one loop over the date strings")
    attach = [st for st in f2[0].body if isinstance(st, ast.If) and any(isinstance(n, ast.Name) and n.id == "TZID" for n in ast.walk(st.test))]
    others = [st for st in f2[0].body if st not in attach]
    # the rest of that loop body must not touch TZID or the zone of the date
    for st in others:
        for n in ast.walk(st):
            if isinstance(n, ast.Name) and n.id == "TZID": raise Untranslatable("_parse_date_value: TZID used outside the attach statement")
    if len(attach) != 1: raise Untranslatable("_parse_date_value: expected one `if TZID is not None:` statement")
    return {"prefix": prefix, "parms": parms, "attach": attach, "rfc_args": [a.arg for a in rfc.args.args], "pdv_args": [a.arg for a in pdv.args.args]}

def strip_docstring(body):
    return body[1:] if body and isinstance(body[0], ast.Expr) and isinstance(body[0].value, ast.Constant) and isinstance(body[0].value.value, str) else body

def translate_all(src):
    loc = locate(src)
    out, fps = [], {}
    # 1. the prefix of _parse_rfc
    tr = Tr({"s": "Str", "unfold": "Bool", "forceset": "Bool", "compatible": "Bool"})
    tr.defined |= {"s", "unfold", "forceset", "compatible"}
    tr.fname = "rrsPrefix"; tr.loop_bound = "lines.length + 1"
    body = tr.block(strip_docstring(loc["prefix"]), lambda: ".ok (forceset, unfold, TZID_NAMES, s, lines)")
    out += tr.aux
    out.append("/-- translated from `rrule.py:_rrulestr._parse_rfc`: every statement up to and including `if unfold: … else: lines = s.split()`;\n"
               "    result = `(forceset, unfold, TZID_NAMES, s, lines)` as they stand before the single-line fast path -/\n"
               "def rrsPrefix (s : StrPy.Str) (unfold forceset compatible : Bool) : Py.R (Bool × Bool × StrPy.Dict × StrPy.Str × List StrPy.Str) :=\n%s\n" % indent(body))
    fps["_rrulestr._parse_rfc[prefix]"] = fingerprint(loc["prefix"])
    # 2. the parameter loop of _parse_date_value
    tr = Tr({"parms": "StrList", "rule_tzids": "Dict", "tzids": "Tzids", "tzlookup": "OptLookup", "TZID": "OptZone", "value_found": "Bool"},
            dead={"msg", "datevals"})
    tr.defined |= {"parms", "rule_tzids", "tzids"}
    tr.fname = "rrsDateParms"
    body = tr.block(strip_docstring(loc["parms"]), lambda: ".ok (TZID, value_found)")
    out += tr.aux
    out.append("/-- translated from `rrule.py:_rrulestr._parse_date_value`: every statement up to and including `for parm in parms:`;\n"
               "    result = `(TZID, value_found)`; a looked-up zone is `Zone.looked <which lookup> <name handed to it>` -/\n"
               "def rrsDateParms (parms : List StrPy.Str) (rule_tzids : StrPy.Dict) (tzids : StrPy.TzidsKind) : Py.R (Option StrPy.Zone × Bool) :=\n%s\n" % indent(body))
    fps["_rrulestr._parse_date_value[parms]"] = fingerprint(loc["parms"])
    # 3. attaching the zone
    tr = Tr({"TZID": "OptZone", "date_tzinfo": "OptZone"}, attrs={("date", "tzinfo"): "date_tzinfo"})
    tr.defined |= {"TZID", "date_tzinfo"}
    tr.fname = "rrsAttach"
    body = tr.block(loc["attach"], lambda: ".ok date_tzinfo")
    out.append("/-- translated from `rrule.py:_rrulestr._parse_date_value`: the `if TZID is not None:` statement inside the loop over the date\n"
               "    strings; `date_tzinfo` = the zone `parser.parse` gave the date (none = naive), result = the zone of the date appended -/\n"
               "def rrsAttach (TZID date_tzinfo : Option StrPy.Zone) : Py.R (Option StrPy.Zone) :=\n%s\n" % indent(body))
    fps["_rrulestr._parse_date_value[attach]"] = fingerprint(loc["attach"])
    return "\n".join(out), fps

if __name__ == "__main__":
    import sys
    text, fps = translate_all(os.path.join(sys.argv[1] if len(sys.argv) > 1 else "/repo", "src", "dateutil"))
    print(text); print(fps, file=sys.stderr)
