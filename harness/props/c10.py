"""C10 — rruleset is the ordered set (rrules U rdates) minus (exrules U exdates), under any add/iterate/query history."""
import itertools
import basecorr, rrlib
from rrlib import q_wire, py_query, ints, ilist

PROP = "C10"
TRUSTED = [
    "Model/RRuleSet.lean mirrors rruleset._iter/_genitem (rrule.py 1326-1424) and the mutators with _invalidates_cache; tied on every run by "
    "rset.iter (merge loop vs real rrulesets of real rrules) and rset.run (add/iterate/query histories, cache on/off)",
    "rruleset._genitem (__init__, __next__, comparisons) and rruleset._iter are TRANSLATED from the source on every run (harness/translate_rrbase.py -> "
    "Generated/RSetMerge.lean, meaning Model/MergePy.lean); gen_rset_iter_eq_model proves them equal to the merge model for every admissible heap discipline; "
    "rset.titer runs the translated program against real sets; _invalidate_cache likewise (gen_invalidate_eq_model)",
    "heapq is standard library: modelled as an abstract priority queue (any minimal item on top); theorems hold for every admissible choice",
    "member rrules are abstracted to the finite sorted list they yield (rrule itself is C01's model); list.sort() on rdates/exdates is modelled by insertion sort",
    "the cache of the set object is the cached-iterator machine of C11 (Model/Cache.lean)",
]
ASSUMPTIONS = [
    "members are finite rules / dates; every member stream is sorted (C01 for rrules)",
    "what an iterator created before a mutator ITSELF yields when advanced after it is not specified by the property (history_inv_any leaves exactly "
    "these observations open); it is compared with the model (its own generation's machine) when the later mutators are rrule/exrule (the old "
    "generator holds a live iterator over the set's date lists); every OTHER observation after such a resume is judged like any other",
]
RULE = ("sets of 0..4 finite rrules and 0..6 dates per role, deliberately coinciding occurrences, exclusions that exhaust first, empty roles, the same "
        "(cached) rrule object in two roles; histories of 1..12 ops interleaving rrule/rdate/exrule/exdate with iterPartial k, iterFull, count, "
        "between, after, before, index, slice, in; cache on/off; oracle additionally keeps iterators alive across mutators. "
        "distinct = distinct (history, cache); non-trivial = at least one observation after at least one member")

GRID = [0, 3600, 7200, 86400, 90000, 172800, 5, 7777, 259200, 10800]


def rand_member(rng):
    """a finite real rrule and the int stream it yields; small grid so that members coincide"""
    from dateutil import rrule as R
    kind = rng.random()
    if kind < 0.12:
        return nested_member(rng)
    kind = rng.random()
    if kind < 0.16:
        # calendar members: several occurrences per period, crossing a year boundary after a few occurrences, mostly UNCACHED —
        # live iterations over one such object only agree if every iteration has its own year/month masks
        p = rrlib.calendar_rule_params(rng)
        return tagged(R.rrule(cache=rng.random() < 0.15, **p), p), ints(list(R.rrule(**p)))
    if kind < 0.19:
        # COUNT cut short by datetime.MAXYEAR (the member is shorter than its COUNT)
        p = rrlib.maxyear_rule_params(rng)
        return tagged(R.rrule(cache=rng.random() < 0.3, **p), p), ints(list(R.rrule(**p)))
    if kind < 0.4:
        # long members: a partial iteration leaves the cache PARTIALLY filled (the fill batch is 10)
        p = dict(freq=rng.choice([R.HOURLY, R.DAILY, R.MINUTELY]), dtstart=rrlib.to_dt(rng.choice([0, 3600, 86400])),
                 interval=rng.choice([1, 1, 2, 3]), count=rng.randint(15, 40))
    elif kind < 0.75:
        p = dict(freq=rng.choice([R.HOURLY, R.DAILY, R.HOURLY, R.MINUTELY]), dtstart=rrlib.to_dt(rng.choice([0, 0, 3600, 86400, 7200])),
                 interval=rng.choice([1, 1, 2, 3, 12, 24]), count=rng.choice([0, 1, 2, 3, 5, 8, 11, 13]))
    else:
        p = rrlib.random_rule_params(rng, 12)
    r = tagged(R.rrule(cache=rng.random() < 0.3, **p), p)
    return r, ints(list(R.rrule(**p)))


def nested_member(rng, mutable=False):
    """an rruleset used as a MEMBER (through .rrule()/.exrule() of the outer set): its own rules, dates and EXCLUSIONS on the small
    grid, so that its exclusions coincide with instants other members of the outer set produce — A u (B - X) is not (A u B) - X"""
    from dateutil import rrule as R
    inner = R.rruleset(cache=rng.random() < 0.3)
    rec = {"cache": inner._cache is not None, "nested": []}
    for _ in range(rng.randint(1, 2)):
        p = dict(freq=rng.choice([R.HOURLY, R.DAILY]), dtstart=rrlib.to_dt(rng.choice([0, 0, 3600, 86400])), interval=rng.choice([1, 1, 2, 24]),
                 count=rng.choice([2, 3, 5, 8]))
        inner.rrule(R.rrule(**p)); rec["nested"].append(["rr", rrlib.params_record(p)])
    for _ in range(rng.randint(0, 2)):
        d = rng.choice(GRID); inner.rdate(rrlib.to_dt(d)); rec["nested"].append(["rd", d])
    for _ in range(rng.randint(1, 3)):
        d = rng.choice(GRID[:5] + [0, 3600]); inner.exdate(rrlib.to_dt(d)); rec["nested"].append(["xd", d])
    if rng.random() < 0.4:
        p = dict(freq=R.DAILY, dtstart=rrlib.to_dt(0), count=rng.choice([1, 2, 3]))
        inner.exrule(R.rrule(**p)); rec["nested"].append(["xr", rrlib.params_record(p)])
    inner._verif_params = rec
    return inner, ints(list(inner))


def rebuild_nested(rec):
    from dateutil import rrule as R
    inner = R.rruleset(cache=rec["cache"])
    for k, v in rec["nested"]:
        if k == "rr":
            inner.rrule(R.rrule(**rrlib.params_rebuild(v)))
        elif k == "xr":
            inner.exrule(R.rrule(**rrlib.params_rebuild(v)))
        elif k == "rd":
            inner.rdate(rrlib.to_dt(v))
        else:
            inner.exdate(rrlib.to_dt(v))
    return inner


def tagged(rule, p):
    """remember how the member was built, so that a failing history can be replayed on the SAME kind of objects"""
    q = {}
    for k, v in p.items():
        q[k] = v.isoformat() if hasattr(v, "isoformat") else (list(v) if isinstance(v, tuple) else v)
    rule._verif_params = {"cache": rule._cache is not None, "params": q}
    return rule


def member_table(ops):
    """[(object id in order of first use, construction record)] and, per rr/xr op in order, the index into it"""
    seen, table, uses = {}, [], []
    for k, p in ops:
        if k in ("rr", "xr"):
            key = id(p[0])
            if key not in seen:
                seen[key] = len(table)
                table.append(getattr(p[0], "_verif_params", None))
            uses.append(seen[key])
    return table, uses


def rand_date(rng, pool):
    return rng.choice(pool + GRID) if pool else rng.choice(GRID)


def gen_history(rng, mode="plain"):
    """[(op, payload)] with op in rr rd xr xd q open resume.
    mode: plain    — no kept iterators;
          live     — kept iterators, never advanced after a later mutator (the domain of history_inv);
          stale-rr — kept iterators advanced freely, mutators after the first open are rrule/exrule only
                     (the stale generator's member iterators are then unaffected: the model is faithful);
          stale    — anything (oracle only)."""
    ops = []
    pool = []          # instants seen so far, to make coincidences likely
    members = []       # reusable rule objects
    n = rng.randint(1, 12)
    opened = []        # mutator count at open time
    muts = 0
    start_empty = rng.random() < 0.25       # the set is observed while it still has NO member (empty-then-populated)
    for _ in range(n):
        r = rng.random()
        if r < 0.45 or (not ops and not start_empty):
            kinds = ["rr", "rr", "rd", "rd", "xr", "xd", "xd"]
            if mode == "stale-rr" and opened:
                kinds = ["rr", "xr"]
            k = rng.choice(kinds)
            muts += 1
            if k in ("rr", "xr"):
                if members and rng.random() < 0.25:
                    rule, stream = rng.choice(members)      # the same object in another (or the same) role
                else:
                    rule, stream = rand_member(rng)
                    members.append((rule, stream))
                pool += stream[:6] + rng.sample(stream, min(len(stream), 6)) + [x + 1 for x in stream[10:14]]   # also far beyond any cached prefix
                ops.append((k, (rule, stream)))
                if k == "rr" and rng.random() < 0.08:
                    # the same object again as an exclusion: everything it yields is cancelled (a set that is observed EMPTY
                    # although it has members), usually followed by an observation and a further member
                    ops.append(("xr", (rule, stream))); muts += 1
                    ops.append(("q", rng.choice([("all",), ("cnt",), ("all",)])))
            else:
                d = rand_date(rng, pool)
                ops.append((k, d))
                if rng.random() < 0.12:
                    # the same instant again (repeated rdate / exdate), or cancelled at once by the opposite date
                    ops.append((rng.choice([k, k, "xd" if k == "rd" else "rd"]), d)); muts += 1
        elif mode != "plain" and r < 0.65:
            cands = [j for j, m0 in enumerate(opened) if mode != "live" or m0 == muts]
            if cands and rng.random() < 0.55:
                ops.append(("resume", (rng.choice(cands), rng.choice([0, 1, 2, 5, 100]))))
            else:
                ops.append(("open", rng.choice([0, 1, 2, 11])))
                opened.append(muts)
        else:
            L = sorted(set(pool))
            q = rng.choice([("take", rng.randint(0, 12)), ("all",), ("cnt",), rrlib.random_query(rng, L), rrlib.random_query(rng, L)])
            ops.append(("q", q))
            if q[0] not in ("cnt", "all") and rng.random() < 0.35:
                ops.append(("q", ("cnt",)))            # a partial query, THEN count(): `_len` must not be a partial total
    return ops


def shaped_history(rng, mode="live"):
    """histories of the shapes that random draws reach too rarely:
      empty      — the set is fully observed while EMPTY (no member yet / every instant excluded), then given members;
      dates      — dates only, with repeated rdates / exdates (no rrule: a single inclusion source);
      shared     — ONE uncached calendar rule object used twice (two inclusion roles, or inclusion + exclusion of a second set member),
                   a live iterator suspended mid-period while queries walk the same object into another year;
      partial    — a long member, a partial fill, then every query kind including negative indices and slices;
      maxyear    — a member cut short by year 9999, count() first."""
    from dateutil import rrule as R
    shape = rng.choice(["empty", "empty", "dates", "shared", "shared", "partial", "maxyear"])
    full = lambda: rng.choice([("all",), ("cnt",), ("all",), ("idx", -1), ("aft", -10 ** 9, True)])
    ops = []
    if shape == "empty":
        pre = rng.choice(["nothing", "cancelled-date", "cancelled-rule", "exdate-only"])
        if pre == "cancelled-date":
            d = rng.choice(GRID)
            ops += [("rd", d), ("xd", d)]
        elif pre == "cancelled-rule":
            m = rand_member(rng)
            ops += [("rr", m), ("xr", m)]
        elif pre == "exdate-only":
            ops += [("xd", rng.choice(GRID))]
        ops += [("q", full()) for _ in range(rng.randint(1, 3))]
        if mode != "plain" and rng.random() < 0.4:
            ops.append(("open", rng.choice([0, 1, 100])))
        for _ in range(rng.randint(1, 3)):
            ops.append(rng.choice([("rr", rand_member(rng)), ("rd", rng.choice(GRID)), ("rd", rng.choice(GRID))]))
            ops += [("q", full()), ("q", ("cnt",)), ("q", rrlib.random_query(rng, GRID))][:rng.randint(1, 3)]
    elif shape == "dates":
        ds = [rng.choice(GRID[:5]) for _ in range(rng.randint(2, 6))]
        ds.append(ds[0])
        rng.shuffle(ds)
        for d in ds:
            ops.append(("rd", d))
            if rng.random() < 0.3:
                ops.append(("q", rng.choice([("all",), ("cnt",), ("take", 3), ("idx", 1)])))
        for _ in range(rng.randint(0, 2)):
            x = rng.choice(GRID[:6])
            ops += [("xd", x), ("xd", x)][:rng.randint(1, 2)]
        ops += [("q", ("all",)), ("q", ("cnt",)), ("q", rrlib.random_query(rng, sorted(set(ds))))]
    elif shape == "shared":
        p = rrlib.calendar_rule_params(rng)
        rule = tagged(R.rrule(cache=False, **p), p)
        stream = ints(list(R.rrule(**p)))
        m = (rule, stream)
        ops.append(("rr", m))
        if rng.random() < 0.5:
            ops.append(("rr", m))                      # the same object twice in one set
        if rng.random() < 0.5:
            ops.append(("rd", stream[0] - 86400 * 400))
        if rng.random() < 0.4 and len(stream) > 3:
            ops.append(("xd", stream[rng.randrange(len(stream))]))
        if mode == "plain":
            ops += [("q", ("take", rng.randint(1, 4))), ("q", full()), ("q", rrlib.random_query(rng, stream))]
        else:
            ops.append(("open", rng.randint(1, 4)))
            for _ in range(rng.randint(1, 4)):
                ops.append(("q", rng.choice([("cnt",), ("all",), ("btw", stream[len(stream) // 2], stream[-1] + 1, True), ("idx", -1),
                                             ("aft", stream[-2], False), rrlib.random_query(rng, stream)])))
                ops.append(rng.choice([("resume", (0, rng.choice([1, 2, 100]))), ("open", rng.randint(0, 3))]))
            ops.append(("resume", (0, 100)))
    elif shape == "partial":
        m = rand_member(rng)
        while len(m[1]) < 15:
            m = rand_member(rng)
        ops.append(("rr", m))
        L = m[1]
        n = len(L)
        ops.append(("q", rng.choice([("take", rng.choice([1, 9, 10, 11])), ("idx", rng.choice([0, 3, 10])), ("aft", L[rng.choice([0, 5, 11])], False)])))
        kinds = [("idx", -1), ("idx", -n), ("idx", -n - 1), ("sl", -3, None, None), ("sl", None, None, -1), ("sl", -5, -1, 2), ("sl", None, -2, None),
                 ("cnt",), ("in", L[-1]), ("bef", L[-1] + 1, False), ("btw", L[2], L[-1], True), ("xaf", L[1], None, False), ("take", n + 1)]
        for q in rng.sample(kinds, rng.randint(2, 5)):
            ops.append(("q", q))
    else:
        p = rrlib.maxyear_rule_params(rng)
        m = (tagged(R.rrule(cache=rng.random() < 0.5, **p), p), ints(list(R.rrule(**p))))
        ops += [("rr", m), ("q", ("cnt",)), ("q", rng.choice([("all",), ("idx", -1), ("take", 3)])), ("q", ("cnt",))]
        if rng.random() < 0.5:
            ops += [("rd", m[1][-1] + 5), ("q", ("cnt",)), ("q", ("idx", -1))]
    return ops


def op_wire(op):
    k, p = op
    if k in ("rr", "xr"):
        return k + ilist(p[1])
    if k in ("rd", "xd"):
        return "%s%d" % (k, p)
    if k == "open":
        return "o%d" % p
    if k == "resume":
        return "u%d:%d" % p
    return "q" + q_wire(p)


def run_impl(cache, ops, judge_after_stale=True):
    """run the history on a real rruleset.  Returns observations (canonical strings or '-'), expectations (set algebra on
    the members; for kept iterators: the next k instants of the sequence at open time; None = not judged), and for every op
    whether it lies AFTER a stale resume that really advanced (k >= 1) with no mutator in between (the window in which
    D-C10-stale can show)."""
    from dateutil import rrule as R
    s = R.rruleset(cache=cache)
    inc, exc = set(), set()
    obs, want, after_stale = [], [], []
    opened = []          # [iterator, mutators seen at open time, expected list at open time, consumed]
    muts = 0
    contaminated = False

    def take(ent, k):
        it, m0, L0, c = ent
        try:
            got = list(itertools.islice(it, k))
            o = "ok_l_" + ilist(ints(got))
        except Exception as ex:
            o = "err_" + type(ex).__name__
        w = "ok_l_" + ilist(L0[c:c + k])
        ent[3] = min(len(L0), c + k)
        return o, w
    for k, p in ops:
        if k in ("rr", "xr", "rd", "xd"):
            muts += 1
            contaminated = False            # a mutator re-invalidates: the object is healthy again
        if k == "rr":
            s.rrule(p[0]); inc.update(p[1])
        elif k == "xr":
            s.exrule(p[0]); exc.update(p[1])
        elif k == "rd":
            s.rdate(rrlib.to_dt(p)); inc.add(p)
        elif k == "xd":
            s.exdate(rrlib.to_dt(p)); exc.add(p)
        if k == "q":
            obs.append(rrlib.impl_query(s, p).replace(" ", "_"))
            w = py_query(sorted(inc - exc), p).replace(" ", "_")
            want.append(w if (judge_after_stale or not contaminated) else None)
            after_stale.append(contaminated)
        elif k == "open":
            ent = [iter(s), muts, sorted(inc - exc), 0]
            opened.append(ent)
            o, w = take(ent, p)
            obs.append(o); want.append(w if (judge_after_stale or not contaminated) else None)
            after_stale.append(contaminated)
        elif k == "resume":
            ent = opened[p[0]]
            stale = ent[1] != muts
            o, w = take(ent, p[1])
            obs.append(o)
            # what a stale iterator itself yields is not judged; a fresh one is judged like a query
            want.append(None if stale else (w if (judge_after_stale or not contaminated) else None))
            after_stale.append(contaminated)
            if stale and p[1] >= 1:
                contaminated = True
        else:
            obs.append("-"); want.append("-"); after_stale.append(contaminated)
    return obs, want, after_stale


def correspondence(ctx):
    basecorr.run(ctx)
    rng = ctx.subrng("corr")
    # the merge loop alone: rset.iter and rset.spec against a real rruleset of real rrules
    reqs, exp = [], []
    from dateutil import rrule as R
    for _ in range(ctx.budget(400, 4000)):
        incs = [rand_member(rng) for _ in range(rng.randint(0, 4))]
        excs = [rand_member(rng) for _ in range(rng.randint(0, 3))]
        pool = sum([m[1][:5] for m in incs + excs], [])
        rds = [rand_date(rng, pool) for _ in range(rng.randint(0, 6))]
        xds = [rand_date(rng, pool) for _ in range(rng.randint(0, 6))]
        s = R.rruleset(cache=rng.random() < 0.5)
        # additions in random order (the rdate stream is always the first cursor whatever the order)
        adds = [("rr", m) for m in incs] + [("xr", m) for m in excs] + [("rd", d) for d in rds] + [("xd", d) for d in xds]
        rng.shuffle(adds)
        for k, p in adds:
            {"rr": lambda: s.rrule(p[0]), "xr": lambda: s.exrule(p[0]), "rd": lambda: s.rdate(rrlib.to_dt(p)), "xd": lambda: s.exdate(rrlib.to_dt(p))}[k]()
        try:
            got = "ok " + ilist(ints(list(s)))
        except Exception as ex:
            got = "err " + type(ex).__name__
        inc_w = "|".join([ilist(sorted(rds))] + [ilist(m[1]) for m in incs])
        exc_w = "|".join([ilist(sorted(xds))] + [ilist(m[1]) for m in excs])
        for op in ("rset.iter", "rset.spec", "rset.titer"):       # titer: _iter/_genitem as TRANSLATED from the source (Generated/RSetMerge.lean)
            reqs.append("%s %s %s" % (op, inc_w, exc_w)); exp.append(got)
        # the Python-side reference for the same input (the oracle judges it: impl != model = spec is a failing input)
        I = set(rds).union(*[m[1] for m in incs]) if incs else set(rds)
        E = set(xds).union(*[m[1] for m in excs]) if excs else set(xds)
        ctx._c10_merge = getattr(ctx, "_c10_merge", [])
        ctx._c10_merge.append((inc_w, exc_w, got, "ok " + ilist(sorted(I - E))))
    got = ctx.driver(reqs)
    for r, e, g in zip(reqs, exp, got):
        if e != g:
            ctx.mismatch(r.split()[0], {"request": r[:600]}, e, g)
    ctx.traces += len(reqs)
    ctx.count("corr_merge_cases", len(reqs))
    # histories
    reqs, exp, hs = [], [], []
    for _ in range(ctx.budget(3000, 12000)):
        mode = rng.choice(["plain", "live", "live", "stale-rr"])
        if rng.random() < 0.2:
            mode = rng.choice(["plain", "live"])
            ops = shaped_history(rng, mode)
            ctx.count("corr_shaped_histories")
        else:
            ops = gen_history(rng, mode)
        cache = rng.random() < 0.6
        obs, want, st = run_impl(cache, ops)
        ctx.count("corr_mode_" + mode)
        if any(st):
            ctx.count("corr_histories_with_stale_resume")
        reqs.append("rset.run %d %s" % (int(cache), ";".join(op_wire(o) for o in ops)))
        exp.append("ok " + ";".join(obs))
        ctx._c10_hist = getattr(ctx, "_c10_hist", [])
        ctx._c10_hist.append((cache, ops, obs, want, st))
        hs.append((cache, ops))
    got = ctx.driver(reqs)
    for r, e, g, h in zip(reqs, exp, got, hs):
        if e != g:
            ctx.mismatch("rset.run", {"cache": h[0], "history": ";".join(op_wire(o) for o in h[1])[:800]}, e, g)
    ctx.traces += len(reqs)
    ctx.count("corr_histories", len(reqs))


def describe(ops):
    out = []
    for k, p in ops:
        if k in ("rr", "xr"):
            out.append(k + ilist(p[1]))
        elif k in ("rd", "xd"):
            out.append("%s%d" % (k, p))
        elif k == "open":
            out.append("o%d" % p)
        elif k == "resume":
            out.append("u%d:%d" % p)
        else:
            out.append("q" + q_wire(p))
    return ";".join(out)


def nontrivial_history(ops, obs):
    """the stated rule: at least one observation after at least one inclusion member"""
    seen_member = False
    for (k, p), o in zip(ops, obs):
        if k in ("rr", "rd"):
            seen_member = True
        elif o != "-" and seen_member:
            return True
    return False


def judge_history(ctx, pending, cache, ops, obs, want, after_stale, origin):
    """one history against the Python-side reference; failures inside a stale window wait for the model's verdict"""
    for j, (o, w) in enumerate(zip(obs, want)):
        if w is not None and o != w:
            table, uses = member_table(ops)
            case = {"cache": cache, "history": describe(ops), "failing_op": j, "after_stale_resume": bool(after_stale[j]),
                    "model_reproduces": False, "origin": origin, "members": table, "member_uses": uses}
            what = ("observation %d (%s) of history %s (cache=%s): got %s, set algebra on the members gives %s"
                    % (j, op_wire(ops[j]), describe(ops)[:300], cache, o[:200], w[:200]))
            ctx.violation(what, case, {"impl": o, "want": w})
            return False
    return True


def oracle(ctx):
    """Python set algebra on list(member) against every observation made on the real set object"""
    rng = ctx.subrng("oracle")
    nested_sets(ctx, ctx.subrng("nested"))       # first: its failing inputs replay on the real nested objects
    n = ctx.budget(6000, 24000)
    pending = []          # failures inside a stale window: classified after asking the model
    nsamples = 0
    # first: every input the correspondence ran, against the Python-side reference (not the model): an input on which the
    # implementation differs from the model is a failing input of the property whenever the model's answer is the specified one
    for inc_w, exc_w, got, ref in getattr(ctx, "_c10_merge", []):
        ctx.case(("merge", inc_w, exc_w), nontrivial=got.startswith("ok"))
        ctx.count("oracle_rejudged_merges")
        if got != ref:
            ctx.violation("list(set) with inclusion streams %s and exclusion streams %s is %s, set algebra gives %s" % (inc_w[:200], exc_w[:200], got[:200], ref[:200]),
                          {"cache": None, "history": "merge %s / %s" % (inc_w, exc_w), "failing_op": 0, "after_stale_resume": False,
                           "model_reproduces": False, "origin": "correspondence"}, {"impl": got, "want": ref})
    for cache, ops, obs, want, after_stale in getattr(ctx, "_c10_hist", []):
        ctx.case((cache, describe(ops), "corr"), nontrivial=nontrivial_history(ops, obs))
        ctx.count("oracle_rejudged_histories")
        judge_history(ctx, pending, cache, ops, obs, want, after_stale, "correspondence")
    for i in range(n):
        mode = ["plain", "live", "live", "stale-rr", "stale"][i % 5]
        if i % 6 == 5:
            mode = "live" if i % 12 == 5 else "plain"
            ops = shaped_history(rng, mode)
            ctx.count("shaped_histories")
        else:
            ops = gen_history(rng, mode)
        cache = rng.random() < 0.6
        # after a stale resume the model is faithful only when the later mutators are rrule/exrule (stale-rr): only then
        # are the observations in the stale window judged (and they are KNOWN only if the model reproduces them)
        obs, want, after_stale = run_impl(cache, ops)
        key = (cache, describe(ops))
        nontriv = nontrivial_history(ops, obs)
        ctx.case(key, nontrivial=nontriv)
        ctx.count("cache_on" if cache else "cache_off")
        ctx.count("history_len_%02d" % len(ops))
        if any(after_stale):
            ctx.count("histories_with_stale_window")
        for (k, p), o, w in zip(ops, obs, want):
            if k == "q":
                ctx.count("obs_" + p[0])
            elif k in ("open", "resume"):
                ctx.count("obs_" + k)
            else:
                ctx.count("op_" + k)
        judge_history(ctx, pending, cache, ops, obs, want, after_stale, "oracle")
        if nontriv and nsamples < 3:
            nsamples += 1
            ctx.sample({"cache": cache, "history": describe(ops)[:400], "observations": [o[:80] for o in obs]})
    # the former witness of D-C10-stale (repaired in /repo), replayed on the implementation on every run: regression stream
    wit = [("rr", (rrlib.daily(13, False), [86400 * k for k in range(13)])), ("open", 1), ("rd", 20 * 86400), ("resume", (0, 100)), ("q", ("all",)), ("q", ("cnt",))]
    for cache in (True, False):
        wit[0] = ("rr", (rrlib.daily(13, False), [86400 * k for k in range(13)]))
        obs, want, after_stale = run_impl(cache, wit)
        ctx.case(("witness-stale", cache), nontrivial=True)
        judge_history(ctx, pending, cache, wit, obs, want, after_stale, "witness D-C10-stale")
    # the stale iterator of a CACHED set goes on with the sequence it was created for
    for n, relist in ((3, False), (13, False), (25, False), (13, True), (25, True)):
        from dateutil import rrule as R
        s = R.rruleset(cache=True)
        s.rrule(rrlib.daily(n, False))
        it = iter(s); first = ints([next(it)])
        if n == 3:
            list(s)                     # the old generator is already exhausted when the member is added
        s.rdate(rrlib.to_dt(40 * 86400))
        if relist:
            list(s)                     # the NEW generation is complete before the old iterator goes on
        try:
            rest = ints(list(it))
        except Exception as ex:
            rest = "err " + type(ex).__name__
        ctx.case(("stale-own", n, relist), nontrivial=True)
        if rest != [86400 * k for k in range(1, n)] or ints(list(s)) != [86400 * k for k in range(n)] + [40 * 86400] or s.count() != n + 1:
            ctx.violation("an iterator of a cached set of %d daily instants that has taken one, then rdate(+40d): the iterator continues with %s, list(set) has %d instants, count() = %r"
                          % (n, rest, len(list(s)), s.count()),
                          {"cache": True, "history": "rr%s;o1;rd%d;%su0:100;qall;qcnt" % (ilist([86400 * k for k in range(n)]), 40 * 86400, "qall;" if relist else ""), "failing_op": 3,
                           "after_stale_resume": True, "model_reproduces": False, "origin": "stale-own"}, None)


def nested_sets(ctx, rng):
    """an rruleset as a MEMBER of another one: the outer set sees the inner set's instants as ONE member stream (the inner exclusions
    apply to the inner set only: A u (B - X)), and — the outer set keeping a reference, not a copy — members added to the inner set
    LATER show in the next iteration of an uncached outer set"""
    from dateutil import rrule as R
    for i in range(ctx.budget(60, 600)):
        outer = R.rruleset(cache=False)
        inner, _ = nested_member(rng)
        others = set()
        for _ in range(rng.randint(1, 3)):
            d = rng.choice(GRID[:5] + [0, 3600]); outer.rdate(rrlib.to_dt(d)); others.add(d)
        role = "rr" if i % 4 else "xr"
        (outer.rrule if role == "rr" else outer.exrule)(inner)
        steps = ["add-inner-as-" + role]
        ok = True
        for step in range(rng.randint(1, 3)):
            I = set(ints(list(inner)))
            want = sorted(others | I) if role == "rr" else sorted(others - I)
            got = ints(list(outer))
            ctx.case(("nested", i, step), nontrivial=True)
            ctx.count("nested_set_observations")
            if got != want:
                ctx.violation("outer set (dates %s) with an inner set as %s member (inner yields %s), after %s: list(outer) = %s, set algebra gives %s"
                              % (sorted(others), role, sorted(I), steps, got, want),
                              {"cache": False, "history": "nested", "failing_op": step, "after_stale_resume": False, "model_reproduces": False,
                               "origin": "nested", "inner": inner._verif_params, "role": role, "others": sorted(others), "steps": steps}, None)
                ok = False
                break
            # mutate the INNER set after it was added
            d = rng.choice(GRID)
            if rng.random() < 0.5:
                inner.rdate(rrlib.to_dt(d)); steps.append("inner.rd%d" % d); inner._verif_params["nested"].append(["rd", d])
            else:
                inner.exdate(rrlib.to_dt(d)); steps.append("inner.xd%d" % d); inner._verif_params["nested"].append(["xd", d])


KNOWN = {}


def parse_history(text, members=None, uses=None):
    """rebuild a history from its description: members are rebuilt from their construction records (the same rule object for the
    same record index: shared members stay shared); without a record, as explicit sets of rdates (same streams)"""
    import datetime
    ops = []
    from dateutil import rrule as R
    built = {}
    nuse = 0
    for tok in text.split(";"):
        if tok[:2] in ("rr", "xr"):
            stream = [int(x) for x in tok[3:-1].split(",") if x]
            idx = uses[nuse] if uses and nuse < len(uses) else None
            nuse += 1
            rec = members[idx] if members and idx is not None and idx < len(members) else None
            if idx is not None and idx in built:
                m = built[idx]
            elif rec and "nested" in rec:
                m = rebuild_nested(rec)
            elif rec:
                kw = {}
                for k, v in rec["params"].items():
                    kw[k] = datetime.datetime.fromisoformat(v) if k in ("dtstart", "until") else (tuple(v) if isinstance(v, list) else v)
                m = R.rrule(cache=rec["cache"], **kw)
            else:
                m = R.rruleset()
                for x in stream:
                    m.rdate(rrlib.to_dt(x))
            if idx is not None:
                built[idx] = m
            ops.append((tok[:2], (m, stream)))
        elif tok[:2] in ("rd", "xd"):
            ops.append((tok[:2], int(tok[2:])))
        elif tok.startswith("o"):
            ops.append(("open", int(tok[1:])))
        elif tok.startswith("u"):
            a, b = tok[1:].split(":")
            ops.append(("resume", (int(a), int(b))))
        elif tok.startswith("q"):
            q = rrlib.q_parse(tok[1:])
            ops.append(("q", q))
    return ops


def replay(ctx, payload):
    c = payload["violation"]["case"]
    if c.get("origin") == "nested":
        from dateutil import rrule as R
        inner = rebuild_nested(c["inner"])
        outer = R.rruleset(cache=False)
        for d in c["others"]:
            outer.rdate(rrlib.to_dt(d))
        (outer.rrule if c["role"] == "rr" else outer.exrule)(inner)
        I = set(ints(list(inner)))
        want = sorted(set(c["others"]) | I) if c["role"] == "rr" else sorted(set(c["others"]) - I)
        got = ints(list(outer))
        print("replay nested: inner yields %s, outer dates %s, role %s: list(outer)=%s want=%s" % (sorted(I), c["others"], c["role"], got, want))
        return got == want
    ops = parse_history(c["history"], c.get("members"), c.get("member_uses"))
    obs, want, _ = run_impl(c["cache"], ops)
    for o, w, op in zip(obs, want, ops):
        if op[0] in ("q", "open", "resume"):
            print("replay %s: impl=%s want=%s" % (op_wire(op), o[:120], str(w)[:120]))
    return all(w is None or o == w for o, w in zip(obs, want))
