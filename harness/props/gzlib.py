"""gzlib.py — per-run validation of the source translation of `tz.gettz`'s resolution cascade (`GettzFunc.nocache` ->
Generated/GettzNocache.lean, harness/translate_gettz.py; theorem C18.gen_nocache_eq_resolve): every resolution case that C18's
correspondence sends to the hand model (`gettz.resolve`, built by harness/resolve18.py under a patched TZ / TZFILES / TZPATHS /
file system / vendored database) is sent to the TRANSLATED function too (`gzgen.resolve`, Ops/GettzGen.lean) and compared with
what the implementation returned."""


def validate(ctx, runs, canon):
    """runs: the records of c18.resolve_runs (keys req, impl, cache_class); canon(model_text) -> comparable text"""
    reqs = [r["req"].replace("gettz.resolve", "gzgen.resolve", 1) for r in runs]
    got = ctx.driver(reqs)
    for r, q, g in zip(runs, reqs, got):
        parts = g.rsplit(" c", 1)
        res = canon(parts[0]) if g.startswith("ok") else g
        cc = int(parts[1]) if (g.startswith("ok") and len(parts) == 2) else None
        if res != r["impl"]:
            ctx.mismatch("gzgen.resolve", q, r["impl"], res)
        elif cc is not None and cc != r["cache_class"]:
            ctx.mismatch("gzgen.resolve(cache class)", q, r["cache_class"], cc)
    ctx.traces += len(reqs)
    ctx.count("gzgen_resolve_requests", len(reqs))
