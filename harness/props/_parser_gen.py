"""
_parser_gen.py — generators shared by c02/c14/c15: the template table (C02), the malformed
stream (C14), partial texts (C15), option combinations, boundary-biased datetimes.
Everything is driven by the `random.Random` passed in (ctx.subrng(tag)).
"""
import calendar, datetime
from props import _parser_lib as L

MON = ['Jan', 'Feb', 'Mar', 'Apr', 'May', 'Jun', 'Jul', 'Aug', 'Sep', 'Oct', 'Nov', 'Dec']
MONL = ['January', 'February', 'March', 'April', 'May', 'June', 'July', 'August', 'September', 'October',
        'November', 'December']
WD = ['Mon', 'Tue', 'Wed', 'Thu', 'Fri', 'Sat', 'Sun']
WDL = ['Monday', 'Tuesday', 'Wednesday', 'Thursday', 'Friday', 'Saturday', 'Sunday']


def h12(h):
    return (h % 12) or 12


def ap(h):
    return 'AM' if h < 12 else 'PM'


# ----------------------------------------------------------------------------- C02 templates
# name -> (render(d), precision, flags, space_before_offset, family, year_via_decimal, two_digit_year)
#   precision: 'us' | ('f', k) k fraction digits | 's' | 'm' | 'h' | 'd'
#   family: 'iso' | 'compact' | 'monthname' | 'hms' | 'numeric' | 'ampm' | 'yy'
#   year_via_decimal: the year token reaches `ymd.append(Decimal)` (D-C02 class when year < 100)
def _frac(d, k):
    return ('%06d' % d.microsecond)[:k]

T = {}
def _t(name, fn, prec, flags=None, sp=False, fam='iso', ydec=False, yy=False, time=True):
    T[name] = dict(name=name, render=fn, prec=prec, flags=flags or {}, sp=sp, fam=fam, ydec=ydec, yy=yy, time=time)

_d = lambda d: '%04d-%02d-%02d' % (d.year, d.month, d.day)
_hms = lambda d: '%02d:%02d:%02d' % (d.hour, d.minute, d.second)
_t('iso_T_s', lambda d: _d(d) + 'T' + _hms(d), 's')
_t('iso_sp_s', lambda d: _d(d) + ' ' + _hms(d), 's')
_t('iso_T_us', lambda d: _d(d) + 'T' + _hms(d) + '.' + _frac(d, 6), 'us')
_t('iso_sp_us', lambda d: _d(d) + ' ' + _hms(d) + '.' + _frac(d, 6), 'us')
for _k in (1, 2, 3, 4, 5):
    _t('iso_T_dot_f%d' % _k, (lambda k: lambda d: _d(d) + 'T' + _hms(d) + '.' + _frac(d, k))(_k), ('f', _k))
_t('iso_T_comma_f3', lambda d: _d(d) + 'T' + _hms(d) + ',' + _frac(d, 3), ('f', 3))
_t('iso_sp_comma_f6', lambda d: _d(d) + ' ' + _hms(d) + ',' + _frac(d, 6), 'us')
_t('iso_T_min', lambda d: _d(d) + 'T%02d:%02d' % (d.hour, d.minute), 'm')
_t('iso_sp_min', lambda d: _d(d) + ' %02d:%02d' % (d.hour, d.minute), 'm')
_t('iso_date', _d, 'd', time=False)
_c = lambda d: '%04d%02d%02d' % (d.year, d.month, d.day)
_t('compact_T_s', lambda d: _c(d) + 'T%02d%02d%02d' % (d.hour, d.minute, d.second), 's', fam='compact')
_t('compact_T_us', lambda d: _c(d) + 'T%02d%02d%02d.%s' % (d.hour, d.minute, d.second, _frac(d, 6)), 'us', fam='compact')
_t('compact_T_min', lambda d: _c(d) + 'T%02d%02d' % (d.hour, d.minute), 'm', fam='compact')
_t('compact_nosep_s', lambda d: _c(d) + '%02d%02d%02d' % (d.hour, d.minute, d.second), 's', fam='compact')
_t('compact_nosep_min', lambda d: _c(d) + '%02d%02d' % (d.hour, d.minute), 'm', fam='compact')
_t('compact_date', _c, 'd', fam='compact', time=False)
# the cross product {compact, colon} time x {'.', ','} x 1..6 fraction digits (seed C02F: a comma is a decimal mark after ANY run of
# >= 2 digits, not only after a two-digit seconds field)
_hms6 = lambda d: '%02d%02d%02d' % (d.hour, d.minute, d.second)
_SEPN = {'.': 'dot', ',': 'comma'}
for _sep in '.,':
    for _k in (1, 2, 3, 4, 5, 6):
        _p = 'us' if _k == 6 else ('f', _k)
        if not (_sep == '.' and _k == 6):       # = compact_T_us
            _t('compact_T_%s_f%d' % (_SEPN[_sep], _k), (lambda sep, k: lambda d: _c(d) + 'T' + _hms6(d) + sep + _frac(d, k))(_sep, _k), _p, fam='compact')
        _t('iso_T_ctime_%s_f%d' % (_SEPN[_sep], _k), (lambda sep, k: lambda d: _d(d) + 'T' + _hms6(d) + sep + _frac(d, k))(_sep, _k), _p, fam='compact')
        if _k in (1, 3, 6):
            _t('iso_sp_ctime_%s_f%d' % (_SEPN[_sep], _k), (lambda sep, k: lambda d: _d(d) + ' ' + _hms6(d) + sep + _frac(d, k))(_sep, _k), _p, fam='compact')
for _k in (1, 2, 4, 5):
    _t('iso_T_comma_f%d' % _k, (lambda k: lambda d: _d(d) + 'T' + _hms(d) + ',' + _frac(d, k))(_k), ('f', _k))
    _t('iso_sp_dot_f%d' % _k, (lambda k: lambda d: _d(d) + ' ' + _hms(d) + '.' + _frac(d, k))(_k), ('f', _k))
_t('ctime', lambda d: '%s %s %2d %s %04d' % (WD[d.weekday()], MON[d.month - 1], d.day, _hms(d), d.year), 's',
   sp=True, fam='monthname', ydec=True)
_t('rfc2822', lambda d: '%s, %02d %s %04d %s' % (WD[d.weekday()], d.day, MON[d.month - 1], d.year, _hms(d)), 's',
   fam='monthname', ydec=True)
_t('long_ampm', lambda d: '%s %d, %04d %d:%02d:%02d %s' % (MONL[d.month - 1], d.day, d.year, h12(d.hour), d.minute,
                                                          d.second, ap(d.hour)), 's', sp=True, fam='monthname', ydec=True)
_t('d_Mon_Y', lambda d: '%d %s %04d' % (d.day, MON[d.month - 1], d.year), 'd', fam='monthname', ydec=True, time=False)
_t('d_Month_Y_hm', lambda d: '%d %s %04d %02d:%02d' % (d.day, MONL[d.month - 1], d.year, d.hour, d.minute), 'm',
   fam='monthname', ydec=True)
_t('Mon_d_Y_hms', lambda d: '%s %d %04d %s' % (MON[d.month - 1], d.day, d.year, _hms(d)), 's', fam='monthname', ydec=True)
_t('dd-Mon-Y_hm', lambda d: '%02d-%s-%04d %02d:%02d' % (d.day, MON[d.month - 1], d.year, d.hour, d.minute), 'm',
   fam='monthname')
_t('hms_letters', lambda d: _d(d) + ' %02dh%02dm%02ds' % (d.hour, d.minute, d.second), 's', sp=True, fam='hms')
# NNhNNmNN.fs with a fraction: 1, 2, 4, 6 digits round-trip; 3 and 5 do NOT (the token 'SS.fff' has 6 characters, 'SS.fffff' has 8:
# _parse_numeric_token takes it for HHMMSS / YYYYMMDD) — known finding D-C02-hms-fraction-token-length
for _sep in '.,':
    for _k in (1, 2, 3, 4, 5, 6):
        _t('hms_letters_%s_f%d' % (_SEPN[_sep], _k),
           (lambda sep, k: lambda d: _d(d) + ' %02dh%02dm%02d%s%ss' % (d.hour, d.minute, d.second, sep, _frac(d, k)))(_sep, _k),
           'us' if _k == 6 else ('f', _k), sp=True, fam='hms')
_t('hm_letters', lambda d: _d(d) + ' %02dh%02dm' % (d.hour, d.minute), 'm', sp=True, fam='hms')
_t('us_slash', lambda d: '%02d/%02d/%04d %s' % (d.month, d.day, d.year, _hms(d)), 's', fam='numeric')
_t('us_dash_date', lambda d: '%02d-%02d-%04d' % (d.month, d.day, d.year), 'd', fam='numeric', time=False)
_t('eu_slash', lambda d: '%02d/%02d/%04d %s' % (d.day, d.month, d.year, _hms(d)), 's', {'dayfirst': True}, fam='numeric')
_t('eu_dot', lambda d: '%02d.%02d.%04d %02d:%02d' % (d.day, d.month, d.year, d.hour, d.minute), 'm', {'dayfirst': True},
   fam='numeric')
_t('yf_slash', lambda d: '%04d/%02d/%02d %s' % (d.year, d.month, d.day, _hms(d)), 's', {'yearfirst': True}, fam='numeric')
_t('yf_dot_date', lambda d: '%04d.%02d.%02d' % (d.year, d.month, d.day), 'd', {'yearfirst': True}, fam='numeric', time=False)
_t('ampm_short', lambda d: _d(d) + ' %d:%02d%s' % (h12(d.hour), d.minute, ap(d.hour).lower()), 'm', sp=True, fam='ampm')
_t('ampm_hms_sp', lambda d: _d(d) + ' %02d:%02d:%02d %s' % (h12(d.hour), d.minute, d.second, ap(d.hour)), 's', sp=True,
   fam='ampm')
_t('ampm_hour', lambda d: _d(d) + ' %d %s' % (h12(d.hour), ap(d.hour)), 'h', sp=True, fam='ampm')
_t('ampm_hour_tight', lambda d: _d(d) + ' %d%s' % (h12(d.hour), ap(d.hour).lower()), 'h', sp=True, fam='ampm')
_t('us_yy', lambda d: '%02d/%02d/%02d' % (d.month, d.day, d.year % 100), 'd', fam='yy', yy=True, time=False)
_t('eu_yy', lambda d: '%02d/%02d/%02d %02d:%02d' % (d.day, d.month, d.year % 100, d.hour, d.minute), 'm',
   {'dayfirst': True}, fam='yy', yy=True)
_t('yf_yy', lambda d: '%02d/%02d/%02d' % (d.year % 100, d.month, d.day), 'd', {'yearfirst': True}, fam='yy', yy=True,
   time=False)
_t('dd-Mon-yy', lambda d: '%02d-%s-%02d' % (d.day, MON[d.month - 1], d.year % 100), 'd', fam='yy', yy=True, time=False)
_t('yymmdd', lambda d: '%02d%02d%02d' % (d.year % 100, d.month, d.day), 'd', {'yearfirst': True}, fam='yy', yy=True,
   time=False)
# date-only numeric forms (the ones C02.parse_render_numeric is about)
_t('us_slash_date', lambda d: '%02d/%02d/%04d' % (d.month, d.day, d.year), 'd', fam='numeric', time=False)
_t('eu_slash_date', lambda d: '%02d/%02d/%04d' % (d.day, d.month, d.year), 'd', {'dayfirst': True}, fam='numeric', time=False)
_t('yf_slash_date', lambda d: '%04d/%02d/%02d' % (d.year, d.month, d.day), 'd', fam='numeric', time=False)
_t('eu_yy_date', lambda d: '%02d/%02d/%02d' % (d.day, d.month, d.year % 100), 'd', {'dayfirst': True}, fam='yy', yy=True, time=False)
TEMPLATES = list(T.values())

OFFSETS = [None, 'Z', ' UTC', '+00:00', '-00:00', '+00', '-0300', '+0530', '+05:30', '-23:59', '+23:59', '-03', '+14',
           ' +0100', ' -03:30', ' Z', '+2359', '-2359', '+00:01', '-00:01', '+12:45']


def offset_seconds(off):
    t = off.strip()
    if t in ('Z', 'UTC'):
        return 0
    sg = -1 if t[0] == '-' else 1
    t = t[1:].replace(':', '')
    return sg * (int(t[:2]) * 3600 + (int(t[2:4]) * 60 if len(t) > 2 else 0))


def trunc(d, p):
    if p == 'us':
        return d
    if isinstance(p, tuple):
        q = 10 ** (6 - p[1])
        return d.replace(microsecond=d.microsecond // q * q)
    if p == 's':
        return d.replace(microsecond=0)
    if p == 'm':
        return d.replace(second=0, microsecond=0)
    if p == 'h':
        return d.replace(minute=0, second=0, microsecond=0)
    return d.replace(hour=0, minute=0, second=0, microsecond=0)


def render(t, d, off):
    s = t['render'](d)
    if off:
        if t['sp'] and not off.startswith(' '):
            off = ' ' + off
        s += off
    return s


YEARS = [1, 2, 31, 32, 68, 69, 99, 100, 101, 999, 1000, 1582, 1900, 1969, 1970, 1999, 2000, 2024, 2038, 2069, 9998, 9999]


def boundary_dt(rng, year=None):
    y = year if year is not None else (rng.choice(YEARS) if rng.random() < 0.6 else rng.randint(1, 9999))
    m = rng.choice([1, 2, 12, rng.randint(1, 12)])
    dim = calendar.monthrange(y, m)[1]
    dd = rng.choice([1, 12, 13, 28, dim, 31 if dim == 31 else dim, rng.randint(1, dim)])
    return datetime.datetime(y, m, dd, rng.choice([0, 11, 12, 13, 23, rng.randint(0, 23)]),
                             rng.choice([0, 59, rng.randint(0, 59)]), rng.choice([0, 59, rng.randint(0, 59)]),
                             rng.choice([0, 1, 999999, 500000, 100000, 999, rng.randint(0, 999999)]))


DEFAULTS = [datetime.datetime(2003, 9, 25), datetime.datetime(2001, 1, 31), datetime.datetime(2000, 2, 29),
            datetime.datetime(1999, 12, 31, 23, 59, 59, 999999), datetime.datetime(1, 1, 1), datetime.datetime(9999, 12, 31),
            datetime.datetime(2024, 3, 30, 12), datetime.datetime(2023, 5, 31, 1, 2, 3, 4), datetime.datetime(2100, 8, 29),
            datetime.datetime(9999, 12, 25, 10)]

# aware `default=` values (the tzinfo objects are module-level so that "is the default's tzinfo" is decidable)
_TZ5 = datetime.timezone(datetime.timedelta(hours=5))
_TZM330 = datetime.timezone(datetime.timedelta(hours=-3, minutes=-30), "NST")
AWARE_DEFAULTS = [datetime.datetime(2003, 9, 25, tzinfo=_TZ5), datetime.datetime(2001, 1, 31, 7, 8, 9, 10, tzinfo=_TZM330),
                  datetime.datetime(2000, 2, 29, tzinfo=datetime.timezone.utc), datetime.datetime(2024, 3, 31, 1, 30, tzinfo=_TZ5)]


def pick_default(rng, p_aware=0.08):
    return rng.choice(AWARE_DEFAULTS) if rng.random() < p_aware else rng.choice(DEFAULTS)


# ----------------------------------------------------------------------------- C14 malformed stream
WORDS = (MON + MONL + WD + WDL + ['Sept', 'am', 'pm', 'AM', 'PM', 'a', 'p', 'A', 'P', 'h', 'm', 's', 'hour', 'hours', 'minute',
         'minutes', 'second', 'seconds', 'H', 'M', 'S', 'at', 'on', 'and', 'ad', 'AD', 't', 'T', 'of', 'st', 'nd', 'rd', 'th',
         'UTC', 'GMT', 'Z', 'z', 'utc', 'gmt', 'EST', 'EDT', 'BRST', 'BST', 'CET', 'IST', 'ABCDE', 'ABCDEF', 'Abc', 'MSK',
         'inf', 'nan', 'infinity', 'Inf', 'NaN', 'INFINITY', 'iNf', 'snan', 'nano', 'info', 'e', 'E', 'x', 'foo', 'Today', 'is',
         'the', 'date', 'of', 'maY', 'JANUARY', 'mONDAY'])
SEPS = [':', '-', '/', '.', ',', ';', "'", '+', '-', '(', ')', ' ', ' ', ' ', '  ', 'T', '_', '*', '"', '\t', '\n', '=', '#',
        '\\', '[', ']', '%']
UNI_DEC = ['٣', '٠', '٩', '１', '９', '१', '\U0001d7d8', '᠑']      # Nd: accepted by int()
UNI_DIG = ['²', '³', '¹', '①', '⁵', '⒈', '\U00010a40']      # isdigit, not decimal
UNI_ALPHA = ['é', 'Ω', 'K', 'İ', 'ß', '日', 'ª', 'ſ', 'ǅ', 'Α', 'µ']
UNI_SPACE = ['\xa0', ' ', '　', '\x1c', '\x1f', '\x85', ' ', '\x0b', '\x0c']
UNI_OTHER = ['́', '\U0001f600', '\ud800', '\udfff', '​', '﻿', '½', '⅕', '〇', '\x7f', '\x01']
NUL = '\x00'


def digits(rng, n=None):
    if n is None:
        r = rng.random()
        n = rng.randint(1, 4) if r < 0.5 else rng.randint(5, 14) if r < 0.8 else rng.randint(15, 40)
    r = rng.random()
    if r < 0.1:
        return '0' * n
    if r < 0.2:
        return '9' * n
    if r < 0.3:
        return '0' * (n - 1) + rng.choice('0123456789')
    return ''.join(rng.choice('0123456789') for _ in range(n))


def atom(rng):
    r = rng.random()
    if r < 0.30:
        return digits(rng)
    if r < 0.52:
        return rng.choice(SEPS)
    if r < 0.74:
        return rng.choice(WORDS)
    if r < 0.79:
        return digits(rng, rng.randint(1, 3)) + rng.choice('.,') + digits(rng, rng.randint(1, 8))
    if r < 0.83:
        return rng.choice(UNI_DEC) * rng.randint(1, 4)
    if r < 0.86:
        return rng.choice(UNI_DIG)
    if r < 0.89:
        return rng.choice(UNI_ALPHA)
    if r < 0.92:
        return rng.choice(UNI_SPACE)
    if r < 0.95:
        return rng.choice(UNI_OTHER)
    if r < 0.97:
        return NUL
    if r < 0.985:
        return digits(rng, rng.choice([27, 28, 29, 30, 31, 40])) + rng.choice(['', '.5', '.' + '9' * 30])
    return rng.choice(['%02d:%02d' % (rng.randint(0, 30), rng.randint(0, 70)), '%d:%d:%d' % (rng.randint(0, 25), rng.randint(0, 61), rng.randint(0, 61)),
                       '+%02d:%02d' % (rng.randint(0, 99), rng.randint(0, 99)), '-%04d' % rng.randint(0, 9999), 'GMT+3', 'UTC-5', '(BRST)', ' (EST)'])


def garbage(rng):
    n = rng.choice([0, 1, 1, 2, 2, 3, 3, 4, 5, 6, 8, 12])
    return ''.join(atom(rng) for _ in range(n))


def edit(rng, s):
    """one to three character-level edits of a valid rendering"""
    for _ in range(rng.choice([1, 1, 2, 3])):
        r = rng.random()
        p = rng.randint(0, len(s))
        if r < 0.25 and s:
            p = min(p, len(s) - 1)
            s = s[:p] + s[p + 1:]
        elif r < 0.55:
            s = s[:p] + atom(rng) + s[p:]
        elif r < 0.75 and s:
            p = min(p, len(s) - 1)
            s = s[:p] + atom(rng) + s[p + 1:]
        elif r < 0.85 and s:
            p = min(p, len(s) - 1)
            s = s[:p] + s[p] * 2 + s[p + 1:]
        elif len(s) > 1:
            p = min(p, len(s) - 2)
            s = s[:p] + s[p + 1] + s[p] + s[p + 2:]
    return s


def malformed(rng):
    r = rng.random()
    if r < 0.45:
        return garbage(rng)
    t = rng.choice(TEMPLATES)
    s = render(t, boundary_dt(rng), rng.choice(OFFSETS) if t['time'] else None)
    if r < 0.85:
        return edit(rng, s)
    if r < 0.93:
        return garbage(rng) + ' ' + s + ' ' + garbage(rng)
    return s


TZ_SPECS = None
def tz_specs():
    global TZ_SPECS
    if TZ_SPECS is None:
        S = L.TzSpec
        TZ_SPECS = [S(), S(), S(), S("map", {}), S("map", {"BRST": ("i", -10800), "EST": ("o", 2), "CET": ("s", "CET-1CEST,M3.5.0,M10.5.0/3")}),
                    S("map", {"BRST": ("n",), "UTC": ("i", 3600), "Z": ("o", 6), "GMT": ("i", 0)}),
                    S("map", {None: ("i", 7200), "IST": ("o", 6), "BST": ("o", 3), "EDT": ("o", 2)}),
                    S("call", {"BRST": ("i", -7200), "EST": ("s", "EST5EDT")}, ("n",)),
                    S("call", {}, ("e",)), S("call", {"UTC": ("o", 0)}, ("i", 19800)),
                    S("call", {"EST": ("o", 2), "EDT": ("o", 2), "GMT": ("o", 3), "BST": ("o", 3)}, ("e",)),
                    S("map", {"BRST": ("i", 10 ** 15)}),
                    # TZ strings: more valid shapes, and MALFORMED ones (tz.tzstr raises ValueError inside _build_tzaware;
                    # month 13 passes the constructor and raises at tzname(); ParserError since /repo 950345d — reverting that fix shows here)
                    S("map", {"IST": ("s", "IST-5:30"), "EST": ("s", "AEST-10AEDT,M10.1.0,M4.1.0/3"), "GMT": ("s", "GMT+3"),
                              "BST": ("s", "GMT0BST,M3.5.0/1,M10.5.0"), "AEDT": ("s", "AEST-10AEDT,M10.1.0,M4.1.0/3")}),
                    S("map", {"EST": ("s", "5"), "CET": ("s", "EST5EDT,foo"), "BRST": ("s", ""), "UTC": ("s", "EST5EDT,M13.1.0,M11.1.0"),
                              "EDT": ("s", "EST5EDT,M13.1.0,M11.1.0")}),
                    S("call", {"GMT": ("s", "EST5EDT,M3.2.0,M14.1.0")}, ("s", "not a tz string")),
                    S("call", {"EST": ("s", "EST5EDT4,M3.2.0/2,M11.1.0/2")}, ("s", "UTC")),
                    # a callable that itself raises ValueError (reported as ParserError since /repo 950345d)
                    S("call", {"EST": ("r",), "UTC": ("i", 0), "BRST": ("r",)}, ("n",)), S("call", {"GMT": ("o", 3)}, ("r",))]
    return TZ_SPECS


_INFOS = {}
def infos():
    """parserinfo instances reused across calls (shared state is part of what C14 checks)"""
    from dateutil.parser import parserinfo
    if not _INFOS:
        _INFOS['list'] = [(None, False), (None, False), (None, False), (parserinfo(dayfirst=True), False),
                          (parserinfo(yearfirst=True), False), (parserinfo(True, True), False)]
        for _, cls in L.custom_infos():
            _INFOS['list'].append((cls(), True))
            _INFOS['list'].append((cls(dayfirst=True), True))
    return _INFOS['list']


def options(rng, text, allow_custom=True, allow_bad_tz=False):
    info, custom = rng.choice(infos()) if allow_custom else rng.choice(infos()[:6])
    fz = rng.random() < 0.35
    fwt = rng.random() < 0.25
    tz = rng.choice(tz_specs())
    return L.Call(text, default=pick_default(rng), dayfirst=rng.choice([None, None, True, False]),
                  yearfirst=rng.choice([None, None, True, False]), fuzzy=fz, fwt=fwt, ignoretz=rng.random() < 0.15,
                  tz=tz, info=info, info_custom=custom)


# ----------------------------------------------------------------------------- C15 partial texts
def partial_text(rng):
    """a text naming only some fields (so the rest must come from the default)"""
    d = boundary_dt(rng, rng.choice([1999, 2000, 2003, 2024, 2100, rng.randint(1, 9999)]))
    forms = [
        lambda: '%02d:%02d' % (d.hour, d.minute),
        lambda: '%02d:%02d:%02d' % (d.hour, d.minute, d.second),
        lambda: '%d %s' % (h12(d.hour), ap(d.hour)),
        lambda: MON[d.month - 1],
        lambda: MONL[d.month - 1] + ' %04d' % d.year,
        lambda: '%s %d' % (MON[d.month - 1], d.day),
        lambda: '%04d' % d.year if d.year > 31 else '%04d-%02d' % (d.year, d.month),
        lambda: '%04d-%02d' % (d.year, d.month),
        lambda: WD[d.weekday()],
        lambda: WDL[rng.randint(0, 6)],
        lambda: WD[rng.randint(0, 6)] + ' %02d:%02d' % (d.hour, d.minute),
        lambda: WDL[rng.randint(0, 6)] + ' ' + MON[d.month - 1],
        lambda: '%s %04d %s' % (WD[rng.randint(0, 6)], d.year if d.year > 31 else 1999, MON[d.month - 1]),
        lambda: '%dh' % d.hour,
        lambda: '%dm %ds' % (d.minute, d.second),
        lambda: '%d.%06ds' % (d.second, d.microsecond),
        lambda: '%02d/%02d' % (d.month, d.day),
        lambda: '%d' % d.day,
        lambda: _d(d),
        lambda: _d(d) + ' %02d' % d.hour + 'h',
    ]
    return rng.choice(forms)()


TZ_TEXT = ['', ' UTC', ' GMT', ' Z', 'Z', ' z', ' EST', ' EDT', ' BST', ' CET', ' CEST', ' IST', ' BRST', ' MSK', ' ABCDE', ' +0000',
           ' -00:00', ' +03', ' -0330', ' +05:30', ' GMT+3', ' GMT-3', ' UTC+01:30', ' BRST+3', ' EST-5', ' -0300 (BRST)',
           ' +0100 (CET)', ' +0000 (GMT)', ' -0500 (EST)', ' +0100 BST', ' GMT+0', ' UTC-0', ' +23:59', ' -2359', ' +9959', ' JST',
           ' UTC UTC', ' EST EDT']
TZ_ENVS = ['UTC', 'America/New_York', 'Europe/London', 'Asia/Kolkata', 'Europe/Berlin', 'EST5EDT,M3.2.0,M11.1.0',
           'America/Sao_Paulo', 'Australia/Lord_Howe', 'GMT0BST,M3.5.0/1,M10.5.0']

FILLER = ['Today is', 'at', 'on', 'the meeting of', 'is', 'approximately', 'foo', 'bar', 'we met', 'and then', 'exactly',
          'see you', 'by', 'around', 'sharp', 'in room', 'x', 'ok']


# ----------------------------------------------------------------------------- process-zone switch family (C14 / C15)
# groups of TZ settings that SHARE entries of time.tzname but differ in offset / DST rules / hemisphere / having DST at all
ZONE_GROUPS = [
    ['EST+5EDT,M3.2.0/2,M11.1.0/2', 'EST-10EDT,M10.1.0,M4.1.0/3', 'EST5EDT4,M4.1.0,M10.5.0', 'America/New_York', 'EST5',
     'Australia/Sydney'],
    ['AAA0BBB,M3.5.0/1,M10.5.0', 'AAA-3BBB,M3.5.0/1,M10.5.0', 'AAA0BBB-2,M10.1.0,M3.1.0', 'AAA5:30BBB,M3.2.0,M11.1.0', 'AAA-9'],
    ['GMT0BST,M3.5.0/1,M10.5.0', 'Europe/London', 'GMT-6BST-7,M4.1.0,M9.5.0', 'GMT0', 'GMT-2'],
    ['UTC', 'UTC+3', 'UTC0', 'UTC-5:45', 'UTC-1UTC-2,M3.5.0,M10.5.0'],
    ['IST-5:30', 'IST-2IDT,M3.5.5/2,M10.5.0/2', 'Asia/Kolkata', 'IST-1'],
    ['CET-1CEST,M3.5.0,M10.5.0/3', 'Europe/Berlin', 'CET-1', 'CET+6CEST,M10.1.0,M3.1.0'],
]


def zone_switch_calls(rng, grp, n):
    """calls whose texts name the abbreviations of the zones in `grp` (and a few others), at ordinary, DST-gap and ambiguous
    wall times of the rules involved; with and without an explicit offset"""
    import time
    names = []
    for z in grp:
        L.set_tz(z)
        for x in time.tzname:
            if x not in names:
                names.append(x)
    other = ['UTC', 'GMT', 'Z', 'XYZ', 'EST', 'BST']
    out = []

    def when():
        y = rng.choice([2003, 2003, 1999, 2024, rng.randint(1971, 2036)])
        if rng.random() < 0.55:
            # a Sunday (or its neighbours) in a month where one of the rules switches, in the small hours
            mth = rng.choice([3, 3, 4, 9, 10, 10, 11])
            d = datetime.date(y, mth, rng.choice([1, 8, 22, calendar.monthrange(y, mth)[1] - 6]))
            d += datetime.timedelta(days=(6 - d.weekday()) % 7)         # the Sunday on or after
            if rng.random() < 0.2:
                d += datetime.timedelta(days=rng.choice([-1, 1]))
            return datetime.datetime(d.year, d.month, d.day, rng.choice([0, 1, 1, 2, 2, 3]), rng.choice([0, 29, 30, 59]))
        return datetime.datetime(y, rng.randint(1, 12), rng.randint(1, 28), rng.randint(0, 23), rng.choice([0, 30, 59]))

    fixed = [("2003-07-15 10:00 %s", None), ("2003-01-15 10:00 %s", None), ("10:00 %s", datetime.datetime(2003, 7, 15))]
    k = 0
    while len(out) < n:
        nm = rng.choice(names) if rng.random() < 0.8 else rng.choice(other)
        if k < len(fixed) * len(names):
            pat, dflt = fixed[k % len(fixed)]
            txt = pat % names[k // len(fixed)]
            c = L.Call(txt, default=dflt or datetime.datetime(2003, 7, 15), tag="zone-switch-seed")
            k += 1
            out.append(c)
            continue
        t = when()
        r = rng.random()
        if r < 0.45:
            txt = "%04d-%02d-%02d %02d:%02d %s" % (t.year, t.month, t.day, t.hour, t.minute, nm)
        elif r < 0.6:
            txt = "%s %d %04d %02d:%02d:00 %s" % (MON[t.month - 1], t.day, t.year, t.hour, t.minute, nm)
        elif r < 0.7:
            txt = "%02d:%02d %s" % (t.hour, t.minute, nm)
        elif r < 0.8:
            txt = "%04d-%02d-%02dT%02d:%02d:00 %s%s" % (t.year, t.month, t.day, t.hour, t.minute, nm, rng.choice(["+3", "-5", "+10:00", "-0500"]))
        elif r < 0.88:
            txt = "%04d-%02d-%02d %02d:%02d %s (%s)" % (t.year, t.month, t.day, t.hour, t.minute, rng.choice(["-0500", "+1000", "+0000"]), nm)
        elif r < 0.94:
            txt = "%04d-%02d-%02d %02d:%02d%s" % (t.year, t.month, t.day, t.hour, t.minute, rng.choice(["Z", " +00:00", "+00:00", " -0000"]))
        else:
            txt = "%s %04d-%02d-%02d %02d:%02d %s %s" % (rng.choice(FILLER), t.year, t.month, t.day, t.hour, t.minute, nm, rng.choice(FILLER))
        if rng.random() < 0.3:
            c = options(rng, txt, allow_custom=False)
            c.via = "str"
        else:
            c = L.Call(txt, default=rng.choice([datetime.datetime(t.year, t.month, t.day), datetime.datetime(2003, 7, 15),
                                                datetime.datetime(2003, 1, 15)]), fuzzy=(r >= 0.94))
        c.tag = "zone-switch"
        out.append(c)
    return out
