"""C05 — wall times are classified as normal, ambiguous or imaginary per PEP 495."""
import os, io, warnings
import basecorr, zonelib as Z
from props import c04 as P4

PROP = "C05"
TRUSTED = [
    "Model/Zones.lean (tzfile.is_ambiguous, fold-indexed lookup, datetime_exists, datetime_ambiguous, resolve_imaginary; RangeZone; tzlocal instance) tied by tzfile.wall / range.wall / local.wall correspondence ops",
    "Spec.pre (Lean) is the reference pre-image count for tzfile zones; cross-checked on every run against a second enumeration from a plain struct reader (zonelib.Timeline.pre)",
    "for range / local / ical zones the pre-image set of a wall time is enumerated from the zone's own UTC->local map (candidates w - std, w - dst)",
]
ASSUMPTIONS = [
    "offsets and derived dstoffsets are strictly within ±24 h (CPython raises ValueError from utcoffset()/dst() otherwise; not modelled)",
    "tzfile: WF tables (Spec.wf); wall times at or after the last transition's wall reading are required only when the zone's ttinfo_std is the last transition's type",
    "resolve_imaginary probes the offsets 24 h before and after: required only when no other offset change lies within 24 h + gap of the gap (the run counts the others)",
    "range zones with negative saving (D-C05r) or a transition next to 1 January (D-C04y) are known finding classes",
]
RULE = ("zones as C04; wall times = every transition's wall reading (old and new offset) ± {0, 1 s, 30 min, 1 h, 2 h, Δ, Δ±1}, both folds; "
        "a case = (zone, wall second); non-trivial = inside the required domain; pre-image counts 0/1/2 are histogrammed")


def correspondence(ctx):
    from dateutil import tz
    basecorr.run(ctx)
    reqs, exp, meta = [], [], []
    for name, data in P4.tzfile_streams(ctx):
        z, line = Z.impl_load(data)
        if z is None:
            continue
        _, wps = Z.probe_points(Z.Timeline(data))
        wps = wps or [0, Z.T0]
        reqs.append("tzfile.wall %s %s" % (Z.hexs(data), Z.ilist(wps)))
        exp.append("ok " + " ".join(Z.impl_wall_line(z, w, us=(w % 3) * 400000) for w in wps)); meta.append((name, wps))
    for name, z in P4.range_instances():
        std, dst, has, tbl = Z.range_zone_params(z, range(min(Z.YEARS) - 1, max(Z.YEARS) + 2))
        _, wps = Z.range_probes(z, Z.YEARS)
        reqs.append("range.wall %d %d %d %s %s" % (std, dst, has, Z.ilist(tbl), Z.ilist(wps)))
        exp.append("ok " + " ".join(Z.impl_wall_line(z, w, with_dst_name=False) for w in wps)); meta.append((name, wps))
    for s in Z.LOCAL_TZS:
        ref = tz.tzstr(s)
        years = Z.YEARS[1:]
        std, dst, has, tbl = Z.range_zone_params(ref, range(min(years) - 1, max(years) + 2))
        _, wps = Z.range_probes(ref, years)
        with P4.local_tz(s) as z:
            e = "ok " + " ".join(Z.impl_wall_line(z, w, with_dst_name=False) for w in wps)
        reqs.append("local.wall %d %d %d %s %s" % (std, dst, has, Z.ilist(tbl), Z.ilist(wps))); exp.append(e); meta.append(("tzlocal:" + s, wps))
    got = ctx.driver(reqs)
    for q, e, g, (name, pts) in zip(reqs, exp, got, meta):
        op = q.split()[0]
        ctx.count("corr:" + op, len(pts))
        if e != g:
            for p, a, b in Z.diff_lines(pts, e, g)[:3]:
                ctx.mismatch(op, {"zone": name, "w": p}, a, b)
        else:
            ctx.traces += len(pts)


def classify(ctx, kind, name, z, w, pre, gap_width, isolated, required, extra=None):
    """the PEP 495 statements for one wall second, on the implementation"""
    from dateutil import tz
    case = {"kind": kind, "zone": name, "w": w, "gap_width": gap_width or 0}
    if extra:
        case.update(extra)
    probs = []
    n = len(pre)
    try:
        d0, d1 = Z.wall_dt(z, w, 0), Z.wall_dt(z, w, 1)
        ex0, ex1 = tz.datetime_exists(d0), tz.datetime_exists(d1)
        am0, am1 = tz.datetime_ambiguous(d0), tz.datetime_ambiguous(d1)
        o0, o1 = d0.utcoffset(), d1.utcoffset()
        if n > 2:
            probs.append("%d UTC instants read %d" % (n, w))
        if ex0 != (n >= 1) or ex1 != (n >= 1):
            probs.append("datetime_exists=%s/%s but %d pre-image(s)" % (ex0, ex1, n))
        if am0 != (n == 2) or am1 != (n == 2):
            probs.append("datetime_ambiguous=%s/%s but %d pre-image(s)" % (am0, am1, n))
        if n == 2:
            if w - int(Z.secs(o0)) != pre[0] or w - int(Z.secs(o1)) != pre[1]:
                probs.append("fold=0/1 denote %d/%d, not the earlier/later instant %s" % (w - int(Z.secs(o0)), w - int(Z.secs(o1)), pre))
            for t, f in zip(pre, (0, 1)):
                r = (Z.EPOCH + Z.TD(seconds=t)).replace(tzinfo=tz.UTC).astimezone(z)
                if (Z.ts(r), r.fold) != (w, f):
                    probs.append("conversion of instant %d gives (%d, fold=%d), expected fold=%d" % (t, Z.ts(r), r.fold, f))
        if n == 1:
            if o0 != o1:
                probs.append("one pre-image but fold changes the offset: %s / %s" % (o0, o1))
            elif w - int(Z.secs(o0)) != pre[0]:
                probs.append("offset %s does not lead back to the only pre-image %d" % (o0, pre[0]))
        ri_req = True
        for d in (d0, d1):
            r = tz.resolve_imaginary(d)
            if n >= 1:
                if r is not d:
                    probs.append("resolve_imaginary changed an existing time: %s" % r)
            elif gap_width is not None:
                good = Z.ts(r) == w + gap_width and tz.datetime_exists(r)
                if not good:
                    if isolated:
                        probs.append("resolve_imaginary gives %s, expected wall+%d and existing" % (Z.rwall(r), gap_width))
                    else:
                        ri_req = False
        if not ri_req:
            ctx.count("resolve_imaginary_not_required(other change within 24h)")
    except Exception as ex:
        probs.append("raised %s: %s" % (type(ex).__name__, ex))
    if not required:
        ctx.case((name, w), nontrivial=False)
        ctx.count("not_required_ok" if not probs else "not_required_fails")
        return
    ctx.case((name, w)); ctx.count("preimages_%d" % n); ctx.count("law:" + kind)
    if n == 0 and isolated:
        ctx.count("gap_isolated")
    for p in probs[:1]:
        ctx.violation("%s wall %d: %s" % (name, w, p), case, probs)


def oracle(ctx):
    from dateutil import tz
    todo = []
    for name, data in P4.tzfile_streams(ctx):
        z, line = Z.impl_load(data)
        if z is None:
            continue
        tl = Z.Timeline(data)
        _, wps = Z.probe_points(tl)
        todo.append((name, data, z, tl, wps or [0, Z.T0]))
    got = ctx.driver(["tzfile.pre %s %s" % (Z.hexs(d), Z.ilist(wps)) for _, d, _, _, wps in todo])
    for (name, data, z, tl, wps), line in zip(todo, got):
        wf = tl.wf()
        seq = tl.offsets_seq()
        std_tail = (not tl.utc) or (z._ttinfo_std == z._trans_idx[-1])
        lim = (seq[-1][0] + min(seq[-1][1], seq[-1][2])) if seq else None
        pres = [[int(x) for x in s.strip("[]").split(",") if x] for s in line.split()[1:]]
        extra = {"stream": Z.hexs(data)} if name.startswith(("syn", "rnd")) else None
        for w, pre in zip(wps, pres):
            if pre != tl.pre(w):
                ctx.violation("Lean Spec.pre and the independent enumeration disagree", {"kind": "tzfile", "zone": name, "w": w}, {"lean": pre, "reader": tl.pre(w)})
                continue
            gap_width, isolated = None, True
            for i, (u, b, a) in enumerate(seq):
                if u + b <= w < u + a:
                    gap_width = a - b
                    for j, (u2, b2, a2) in enumerate(seq):
                        if j != i and b2 != a2 and abs(u2 - u) <= 86400 + abs(a - b) + abs(a2 - b2):
                            isolated = False
                    if i == len(seq) - 1 and not std_tail:
                        isolated = False
            required = wf and (std_tail or (lim is not None and w + 86400 < lim) or (len(pre) > 0 and lim is not None and w < lim and False))
            if wf and not std_tail and lim is not None and w < lim:
                required = True
                if len(pre) == 0 and w + 86400 + 7200 >= lim:
                    isolated = False
            if not tl.utc and tl.first != tl.types[0]:
                required = False       # no transition at all: the file's type 0 applies, "before the first transition" is empty
            classify(ctx, "tzfile", name, z, w, pre, gap_width, isolated, required, extra)
    # fixed zones: exactly one pre-image everywhere
    for o in P4.FIXED:
        z = tz.tzutc() if o == 0 else tz.tzoffset("X", o)
        for w in (0, 1, -1, Z.T0, Z.T0 + 1800):
            classify(ctx, "fixed", "tzoffset(%d)" % o, z, w, [w - o], None, True, True)
    def blackbox(kind, name, z, std, dst, wps, extra=None):
        for w in wps:
            pre = sorted({t for t in (w - std, w - dst)
                          if Z.ts((Z.EPOCH + Z.TD(seconds=t)).replace(tzinfo=tz.UTC).astimezone(z)) == w})
            classify(ctx, kind, name, z, w, pre, abs(dst - std) if len(pre) == 0 else None, True, True, extra)
    for name, z in P4.range_instances():
        std, dst = int(z._std_offset.total_seconds()), int(z._dst_offset.total_seconds())
        _, wps = Z.range_probes(z, Z.YEARS)
        wps += Z.year_edge_probes(Z.YEARS[1:4], (0,))
        blackbox("range", name, z, std, dst, wps, {"saving": dst - std, "near_year_edge": Z.near_year_edge(z, Z.YEARS)})
    with warnings.catch_warnings():
        warnings.simplefilter("ignore")
        ical = tz.tzical(io.StringIO(Z.VTZ)).get()
    ref = tz.tzstr("EST5EDT,M4.1.0,M10.5.0")
    _, wps = Z.range_probes(ref, [1990, 2000, 2003, 2020])
    blackbox("tzical", "tzical:US-Eastern", ical, -18000, -14400, wps)
    for s in Z.LOCAL_TZS:
        ref = tz.tzstr(s)
        std, dst = int(ref._std_offset.total_seconds()), int(ref._dst_offset.total_seconds())
        _, wps = Z.range_probes(ref, Z.YEARS[1:])
        with P4.local_tz(s) as z:
            blackbox("tzlocal", "tzlocal:" + s, z, std, dst, wps)
    assert os.environ.get("TZ") == "UTC"
    dub = tz.gettz("Europe/Dublin")
    ctx.sample({"zone": "Europe/Dublin", "wall": "2015-10-25 01:30", "line(amb;fold0;fold1)": Z.impl_wall_line(dub, 1445736600)})
    ctx.sample({"zone": "America/New_York", "wall": "2017-03-12 02:30 (gap)", "line": Z.impl_wall_line(tz.gettz("America/New_York"), 1489285800)})


KNOWN = {
    "D-C05r": lambda v: v["case"].get("kind") == "range" and v["case"].get("saving", 0) < 0,
    "D-C04y": lambda v: v["case"].get("kind") == "range" and v["case"].get("saving", 0) > 0 and v["case"].get("near_year_edge") is True,
    "D-C05g": lambda v: v["case"].get("gap_width", 0) > 86400 and "resolve_imaginary" in v["what"],
}


def replay(ctx, payload):
    from dateutil import tz
    c = payload["violation"]["case"]
    if c["kind"] == "tzfile":
        data = bytes.fromhex(c["stream"]) if c.get("stream") else open(os.path.join(Z.ROOT, c["zone"]), "rb").read()
        z = tz.tzfile(io.BytesIO(data)); pre = Z.Timeline(data).pre(c["w"])
    elif c["kind"] == "range" and c["zone"].startswith("tzstr:"):
        z = tz.tzstr(c["zone"][6:]); pre = None
    else:
        print("replay supports tzfile / tzstr cases"); return False
    print("zone=%s wall=%d pre-images=%s impl(amb;fold0;fold1)=%s" % (c["zone"], c["w"], pre, Z.impl_wall_line(z, c["w"])))
    if pre is None:
        return False
    d0 = Z.wall_dt(z, c["w"], 0)
    return tz.datetime_exists(d0) == (len(pre) >= 1) and tz.datetime_ambiguous(d0) == (len(pre) == 2)
