"""C05 — wall times are classified as normal, ambiguous or imaginary per PEP 495."""
import os, io, warnings, datetime
import basecorr, zonelib as Z
from props import c04 as P4

PROP = "C05"
TRUSTED = [
    "Model/Zones.lean (tzfile.is_ambiguous, fold-indexed lookup, datetime_exists, datetime_ambiguous, resolve_imaginary; RangeZone; tzlocal instance) tied by tzfile.wall / range.wall / local.wall correspondence ops",
    "Spec.pre (Lean) is the reference pre-image count for tzfile zones; cross-checked on every run against a second enumeration from a plain struct reader (zonelib.Timeline.pre)",
    "for range / local / ical zones the pre-image set of a wall time is enumerated from the zone's own UTC->local map (candidates w - std, w - dst)",
]
ASSUMPTIONS = [
    "offsets and derived dstoffsets are strictly within ±24 h (CPython raises ValueError from utcoffset()/dst() otherwise; not modelled)",
    "tzfile: WF tables (Spec.wf); wall times at or after the last transition's wall reading are required only when the zone's ttinfo_std is the last transition's type",
    "resolve_imaginary measures the gap by a UTC round trip (repair D-C05g): required when every other offset change is at least one gap width away from the gap's transition (the run counts the others; with two gaps closer than that 'forward by the gap width' and 'the result exists' cannot both hold)",
    "range zones with negative saving (D-C05r) or a transition next to 1 January (D-C04y) are known finding classes",
]
RULE = ("zones as C04; wall times = every transition's wall reading (old and new offset) ± {0, 1 s, 30 min, 1 h, 2 h, Δ, Δ±1}, both folds; "
        "a case = (zone, wall second); non-trivial = inside the required domain; pre-image counts 0/1/2 are histogrammed")


def correspondence(ctx):
    from dateutil import tz
    basecorr.run(ctx)
    reqs, exp, meta = [], [], []
    for name, data in P4.tzfile_streams(ctx):
        z, line = Z.impl_load(data)
        if z is None:
            continue
        _, wps = Z.probe_points(Z.Timeline(data))
        wps = wps or [0, Z.T0]
        reqs.append("tzfile.wall %s %s" % (Z.hexs(data), Z.ilist(wps)))
        exp.append("ok " + " ".join(Z.impl_wall_line(z, w, us=(w % 3) * 400000) for w in wps)); meta.append((name, wps))
    for name, z in P4.range_instances():
        std, dst, has, tbl = Z.range_zone_params(z, range(min(Z.YEARS) - 1, max(Z.YEARS) + 2))
        _, wps = Z.range_probes(z, Z.YEARS)
        reqs.append("range.wall %d %d %d %s %s" % (std, dst, has, Z.ilist(tbl), Z.ilist(wps)))
        exp.append("ok " + " ".join(Z.impl_wall_line(z, w, with_dst_name=False) for w in wps)); meta.append((name, wps))
    for s in Z.LOCAL_TZS:
        ref = tz.tzstr(s)
        years = Z.YEARS[1:]
        std, dst, has, tbl = Z.range_zone_params(ref, range(min(years) - 1, max(years) + 2))
        _, wps = Z.range_probes(ref, years)
        with P4.local_tz(s) as z:
            e = "ok " + " ".join(Z.impl_wall_line(z, w, with_dst_name=False) for w in wps)
        reqs.append("local.wall %d %d %d %s %s" % (std, dst, has, Z.ilist(tbl), Z.ilist(wps))); exp.append(e); meta.append(("tzlocal:" + s, wps))
    got = ctx.driver(reqs)
    for q, e, g, (name, pts) in zip(reqs, exp, got, meta):
        op = q.split()[0]
        ctx.count("corr:" + op, len(pts))
        if e != g:
            for p, a, b in Z.diff_lines(pts, e, g)[:3]:
                ctx.mismatch(op, {"zone": name, "w": p}, a, b)
        else:
            ctx.traces += len(pts)


forms_all = False
OTHER_FIXED = None
_other = []


def other_tzfile():
    from dateutil import tz
    if not _other:
        _other.append(tz.tzfile(os.path.join(Z.ROOT, "America/New_York")))
    return _other[0]


def classify(ctx, kind, name, z, w, pre, gap_width, isolated, required, extra=None, defer=None, why_not_isolated=None, us=0):
    """the PEP 495 statements for one wall second, on the implementation"""
    from dateutil import tz
    case = {"kind": kind, "zone": name, "w": w, "gap_width": gap_width or 0}
    if us:
        case["us"] = us          # the wall time is w + us microseconds; its pre-images are those of w plus us
    if extra:
        case.update(extra)
    probs = []
    n = len(pre)
    try:
        d0, d1 = Z.wall_dt(z, w, 0, us), Z.wall_dt(z, w, 1, us)
        ex0, ex1 = tz.datetime_exists(d0), tz.datetime_exists(d1)
        am0, am1 = tz.datetime_ambiguous(d0), tz.datetime_ambiguous(d1)
        o0, o1 = d0.utcoffset(), d1.utcoffset()
        # the full argument space of the public helpers: naive + tz; aware (other zone / UTC / same zone) + explicit tz
        # (the explicit tz wins and the datetime's own zone is ignored); every form must answer like the aware-in-zone form
        if (w + us) % 7 == 0 or forms_all:
            for f, base_dt, ex_b, am_b in ((0, d0, ex0, am0), (1, d1, ex1, am1)):
                naive = base_dt.replace(tzinfo=None)
                for label, arg in (("naive,tz", naive), ("UTC-aware,tz", naive.replace(tzinfo=tz.UTC)),
                                   ("offset-aware,tz", naive.replace(tzinfo=OTHER_FIXED)),
                                   ("tzfile-aware,tz", naive.replace(tzinfo=other_tzfile())),
                                   ("same-zone-aware,tz", base_dt)):
                    e = tz.datetime_exists(arg, z)
                    a = tz.datetime_ambiguous(arg, z)
                    ctx.count("helper_form:" + label)
                    if e != ex_b or a != am_b:
                        probs.append("datetime_exists/ambiguous(%s, fold=%d) = %s/%s but the datetime attached to the zone gives %s/%s"
                                     % (label, f, e, a, ex_b, am_b))
            nv = d0.replace(tzinfo=None)
            if tz.resolve_imaginary(nv) is not nv:
                probs.append("resolve_imaginary changed a naive datetime")
            for fn in (tz.datetime_exists, tz.datetime_ambiguous):
                try:
                    fn(nv)
                    probs.append("%s(naive) without tz did not raise ValueError" % fn.__name__)
                except ValueError:
                    pass
        if n > 2:
            probs.append("%d UTC instants read %d" % (n, w))
        if ex0 != (n >= 1) or ex1 != (n >= 1):
            probs.append("datetime_exists=%s/%s but %d pre-image(s)" % (ex0, ex1, n))
        if am0 != (n == 2) or am1 != (n == 2):
            probs.append("datetime_ambiguous=%s/%s but %d pre-image(s)" % (am0, am1, n))
        if n == 2:
            if w - int(Z.secs(o0)) != pre[0] or w - int(Z.secs(o1)) != pre[1]:
                probs.append("fold=0/1 denote %d/%d, not the earlier/later instant %s" % (w - int(Z.secs(o0)), w - int(Z.secs(o1)), pre))
            for t, f in zip(pre, (0, 1)):
                r = (Z.EPOCH + Z.TD(seconds=t, microseconds=us)).replace(tzinfo=tz.UTC).astimezone(z)
                if (Z.ts(r), r.fold, r.microsecond) != (w, f, us):
                    probs.append("conversion of instant %d gives (%d, fold=%d), expected fold=%d" % (t, Z.ts(r), r.fold, f))
        if n == 1:
            if o0 != o1:
                probs.append("one pre-image but fold changes the offset: %s / %s" % (o0, o1))
            elif w - int(Z.secs(o0)) != pre[0]:
                probs.append("offset %s does not lead back to the only pre-image %d" % (o0, pre[0]))
        ri_req = True
        for d in (d0, d1):
            r = tz.resolve_imaginary(d)
            if n >= 1:
                if r is not d:
                    probs.append("resolve_imaginary changed an existing time: %s" % r)
            elif gap_width is not None:
                good = Z.ts(r) == w + gap_width and tz.datetime_exists(r)
                if not good:
                    if isolated:
                        probs.append("resolve_imaginary gives %s, expected wall+%d and existing" % (Z.rwall(r), gap_width))
                    else:
                        ri_req = False
        if not ri_req:
            # the property has no such exclusion: these are real failures of resolve_imaginary; they are
            # outside `resolve_imaginary_gap` because its 24 h hypothesis fails here (see `gap_context`)
            ctx.count("resolve_imaginary_fails_where_theorem_hypothesis_fails:" + (why_not_isolated or "?"))
            if ctx.hist["resolve_imaginary_fails_where_theorem_hypothesis_fails:" + (why_not_isolated or "?")] <= 3:
                ctx.note("resolve_imaginary wrong at %s wall %d (gap %s s): not required because %s" % (name, w, gap_width, why_not_isolated))
    except Exception as ex:
        probs.append("raised %s: %s" % (type(ex).__name__, ex))
    if not required:
        ctx.case((name, w), nontrivial=False)
        ctx.count("not_required_ok" if not probs else "not_required_fails")
        return
    ctx.case((name, w, us)); ctx.count("preimages_%d" % n); ctx.count("law:" + kind + (":subsecond" if us else ""))
    if n == 0 and isolated:
        ctx.count("gap_isolated")
    for p in probs[:1]:
        if defer is not None:
            defer.append(("%s wall %d: %s" % (name, w, p), case, probs))
        else:
            Z.report(ctx, KNOWN, "%s wall %d: %s" % (name, w, p), case, probs)


def gap_context(seq, w, std_tail):
    """(gap width, hypotheses of C05.resolve_imaginary_gap hold, reason when not) for a wall time inside a gap.
    seq = [(u, offset before, offset after)].  The hypotheses (since the D-C05g repair, for a gap of ANY width): every other
    transition is at least one gap width away from u; a later transition exists or ttinfo_std is the last type."""
    for i, (u, b, a) in enumerate(seq):
        if u + b <= w < u + a:
            width = a - b
            for j, (u2, b2, a2) in enumerate(seq):
                if j > i and not (u + width <= u2):
                    return width, False, "next transition within one gap width"
                if j < i and not (u2 + width <= u):
                    return width, False, "previous transition within one gap width"
            if i == len(seq) - 1 and not std_tail:
                return width, False, "gap at the last v1 transition of a table ending on a DST type (code answers ttinfo_std after it)"
            return width, True, None
    return None, True, None


# --- resolve_imaginary on tzinfo classes that are NOT dateutil's: a PEP 495 zone reads a skipped time with the offset from
# BEFORE the transition for fold=0 and AFTER it for fold=1 (dateutil's own zones: the new offset for either fold).
class Pep495Zone(datetime.tzinfo):
    """hand-written PEP 495 tzinfo over a list of (utc instant, offset after) with an initial offset; follows the reference
    semantics of PEP 495 (`utcoffset` by local time and fold, `fromutc` sets fold)"""
    def __init__(self, first, changes, name="P495"):
        self.first, self.changes, self.name = first, list(changes), name

    def _segments(self):
        before = self.first
        for u, after in self.changes:
            yield u, before, after
            before = after

    def _off_utc(self, t):
        o = self.first
        for u, b, a in self._segments():
            if t >= u:
                o = a
        return o

    def _off_wall(self, w, fold):
        # candidates: instants t with t + off(t) == w; in a gap fold=0 -> rule before, fold=1 -> rule after
        segs = list(self._segments())
        cands = []
        bounds = [(-10**18, segs[0][0], self.first)] if segs else [(-10**18, 10**18, self.first)]
        for k, (u, b, a) in enumerate(segs):
            bounds.append((u, segs[k + 1][0] if k + 1 < len(segs) else 10**18, a))
        for lo, hi, o in bounds:
            if lo <= w - o < hi:
                cands.append(o)
        if len(cands) == 1:
            return cands[0]
        if len(cands) >= 2:
            return cands[0] if fold == 0 else cands[1]
        for u, b, a in segs:                         # a gap: u + b <= w < u + a
            if u + b <= w < u + a:
                return b if fold == 0 else a
        raise AssertionError("unclassified wall time")

    @staticmethod
    def _secs(dt):
        d = dt.replace(tzinfo=None) - datetime.datetime(1970, 1, 1)
        return d.days * 86400 + d.seconds

    def utcoffset(self, dt):
        return datetime.timedelta(seconds=self._off_wall(self._secs(dt), dt.fold))

    def dst(self, dt):
        return datetime.timedelta(0)

    def tzname(self, dt):
        return self.name

    def fromutc(self, dt):
        t = self._secs(dt)
        o = self._off_utc(t)
        w = t + o
        # fold=1 iff an earlier instant reads the same wall time
        fold = 0
        for u, b, a in self._segments():
            if a < b and u <= t < u + (b - a):
                fold = 1
        r = datetime.datetime(1970, 1, 1) + datetime.timedelta(seconds=w, microseconds=dt.microsecond)
        return r.replace(tzinfo=self, fold=fold)


def foreign_resolve(ctx):
    """resolve_imaginary / datetime_exists on zoneinfo.ZoneInfo zones (the standard library's PEP 495 implementation, reading the
    same system files) and on the hand-written Pep495Zone: inside every gap whose neighbours are at least one gap width away the
    result must be the wall time moved forward by exactly the gap width, same tzinfo, existing; existing times come back as the
    same object.  Both folds."""
    from dateutil import tz
    zones = []
    try:
        import zoneinfo
        names = ["America/New_York", "Europe/Dublin", "Europe/Moscow", "Pacific/Apia", "Pacific/Kwajalein", "Pacific/Kiritimati",
                 "Australia/Lord_Howe", "Africa/Casablanca", "Asia/Manila", "Antarctica/Troll", "America/St_Johns", "Asia/Kathmandu"]
        rng = ctx.subrng("c05-foreign")
        allnames = [n for n, _, _ in Z.system_zones()]
        names += rng.sample(allnames, min(len(allnames), ctx.budget(6, 60)))
        for n in names:
            path = os.path.join(Z.ROOT, n)
            if not os.path.isfile(path):
                continue
            try:
                zi = zoneinfo.ZoneInfo(n)
            except Exception:
                continue
            tl = Z.Timeline(open(path, "rb").read())
            zones.append(("zoneinfo:" + n, zi, tl.offsets_seq()))
    except ImportError:
        ctx.count("zoneinfo_module_missing")
    T = 1426000000
    for nm, first, changes in (("1h", 0, [(T, 3600), (T + 15552000, 0)]), ("30min", 19800, [(T, 21600)]),
                               ("24h", -43200, [(T, 43200)]), ("25h", -43200, [(T, 46800)]), ("30h", -50400, [(T, 57600)]),
                               ("86524s", -54124, [(T, 32400)]), ("neg-dst", 3600, [(T, 0), (T + 15552000, 3600)]),
                               ("two", 0, [(T, 3600), (T + 90000, 7200), (T + 400000, 0)])):
        seq, b = [], first
        for u, a in changes:
            seq.append((u, b, a)); b = a
        zones.append(("pep495:" + nm, Pep495Zone(first, changes), seq))
    for name, z, seq in zones:
        for i, (u, b, a) in enumerate(seq):
            if a <= b or not (-2**31 < u < 2**31 - 200000) or u + b < -2208988800:
                continue
            width = a - b
            isolated = all((u2 + width <= u) if j < i else (u + width <= u2) for j, (u2, _, _) in enumerate(seq) if j != i)
            for w in sorted({u + b, u + b + 1, u + b + width // 2, u + a - 1}):
                for fold in (0, 1):
                    d = (Z.EPOCH + Z.TD(seconds=w)).replace(tzinfo=z, fold=fold)
                    case = {"kind": "foreign", "zone": name, "w": w, "fold": fold, "gap_width": width}
                    if not isolated:
                        ctx.case((name, w, fold), nontrivial=False); ctx.count("foreign_gap_not_isolated"); continue
                    ctx.case((name, w, fold)); ctx.count("foreign_gap:" + name.split(":")[0] + (":wide" if width > 86400 else ""))
                    try:
                        ex = tz.datetime_exists(d)
                        r = tz.resolve_imaginary(d)
                        ok = (not ex) and r.tzinfo is z and Z.ts(r) == w + width and tz.datetime_exists(r)
                        got = "%s exists=%s" % (Z.rwall(r), ex)
                    except Exception as exn:
                        ok, got = False, "raised %s: %s" % (type(exn).__name__, exn)
                    if not ok:
                        ctx.violation("%s wall %d fold=%d: resolve_imaginary gives %s, expected wall+%d and existing" % (name, w, fold, got, width),
                                      case, None)
            # existing times around the gap come back as the same object
            for w in (u + b - 1, u + a, u + a + 1):
                if any(u2 + min(b2, a2) <= w < u2 + max(b2, a2) for (u2, b2, a2) in seq):
                    continue
                for fold in (0, 1):
                    d = (Z.EPOCH + Z.TD(seconds=w)).replace(tzinfo=z, fold=fold)
                    ctx.case((name, w, fold, "exists")); ctx.count("foreign_existing")
                    try:
                        same = tz.datetime_exists(d) and tz.resolve_imaginary(d) is d
                    except Exception:
                        same = False
                    if not same:
                        ctx.violation("%s wall %d fold=%d exists but resolve_imaginary / datetime_exists disagree" % (name, w, fold),
                                      {"kind": "foreign", "zone": name, "w": w, "fold": fold, "gap_width": 0}, None)


def oracle(ctx):
    from dateutil import tz
    global OTHER_FIXED
    OTHER_FIXED = tz.tzoffset("X", 19800)
    todo = []
    for name, data in P4.tzfile_streams(ctx):
        z, line = Z.impl_load(data)
        if z is None:
            continue
        tl = Z.Timeline(data)
        _, wps = Z.probe_points(tl)
        todo.append((name, data, z, tl, wps or [0, Z.T0]))
    got = ctx.driver(["tzfile.pre %s %s" % (Z.hexs(d), Z.ilist(wps)) for _, d, _, _, wps in todo])
    for (name, data, z, tl, wps), line in zip(todo, got):
        wf = tl.wf()
        seq = tl.offsets_seq()
        std_tail = (not tl.utc) or (z._ttinfo_std == z._trans_idx[-1])
        lim = (seq[-1][0] + min(seq[-1][1], seq[-1][2])) if seq else None
        pres = [[int(x) for x in s.strip("[]").split(",") if x] for s in line.split()[1:]]
        extra = {"stream": Z.hexs(data)} if name.startswith(("syn", "rnd")) else None
        subw = {u + o + d for (u, b, a) in seq for o in (b, a) for d in (-1, 0)}
        for w, pre in zip(wps, pres):
            if pre != tl.pre(w):
                Z.report(ctx, KNOWN, "Lean Spec.pre and the independent enumeration disagree", {"kind": "tzfile", "zone": name, "w": w}, {"lean": pre, "reader": tl.pre(w)})
                continue
            gap_width, isolated, why = gap_context(seq, w, std_tail)
            required = wf and (std_tail or (lim is not None and w < lim))
            if not tl.utc and tl.first != tl.types[0]:
                required = False       # no transition at all: the file's type 0 applies, "before the first transition" is empty
            classify(ctx, "tzfile", name, z, w, pre, gap_width, isolated, required, extra, why_not_isolated=why)
            # sub-second wall times in the second before / after each transition's two wall readings
            if w in subw:
                for usec in (1, 500000, 999999):
                    classify(ctx, "tzfile", name, z, w, pre, gap_width, isolated, required, extra, why_not_isolated=why, us=usec)
    # fixed zones: exactly one pre-image everywhere
    for o in P4.FIXED:
        z = tz.tzutc() if o == 0 else tz.tzoffset("X", o)
        for w in (0, 1, -1, Z.T0, Z.T0 + 1800):
            classify(ctx, "fixed", "tzoffset(%d)" % o, z, w, [w - o], None, True, True)
    def blackbox(kind, name, z, std, dst, wps, extra=None, defer=None):
        # self-consistency sweep: pre-images from the zone's own UTC->local map (NOT independent;
        # the independent sweep against the Lean POSIX spec is `posix_sweep` below)
        for w in wps:
            pre = sorted({t for t in (w - std, w - dst)
                          if Z.ts((Z.EPOCH + Z.TD(seconds=t)).replace(tzinfo=tz.UTC).astimezone(z)) == w})
            classify(ctx, kind, name, z, w, pre, abs(dst - std) if len(pre) == 0 else None, True, True, extra, defer=defer)
    for name, z in P4.range_instances():
        std, dst = int(z._std_offset.total_seconds()), int(z._dst_offset.total_seconds())
        _, wps = Z.range_probes(z, Z.YEARS)
        wps += Z.year_edge_probes(Z.YEARS[1:4], (0,))
        pending = []
        blackbox("range", name, z, std, dst, wps, {"near_year_edge": Z.near_year_edge(z, Z.YEARS)}, defer=pending)
        finalize_range(ctx, z, pending)
    posix_sweep(ctx)
    foreign_resolve(ctx)
    with warnings.catch_warnings():
        warnings.simplefilter("ignore")
        ical = tz.tzical(io.StringIO(Z.VTZ)).get()
    ref = tz.tzstr("EST5EDT,M4.1.0,M10.5.0")
    _, wps = Z.range_probes(ref, [1990, 2000, 2003, 2020])
    blackbox("tzical", "tzical:US-Eastern", ical, -18000, -14400, wps)
    # tzical zones with finite rules / RDATE lists / several eras, queried on ONE object after a late
    # query, in a shuffled order; pre-images from a fresh object per instant (history independence; seed C04G)
    import datetime as _dt
    for vname, text in Z.FINITE_VTZS:
        shared = Z.load_vtz(text)
        _dt.datetime(2020, 6, 1, 12, tzinfo=tz.UTC).astimezone(shared)
        fresh0 = Z.load_vtz(text)
        offs = sorted({int(c.tzoffsetto.total_seconds()) for c in fresh0._comps})
        onsets = Z.vtz_onsets_utc(fresh0)
        wps = sorted({t + o + d for t in onsets for o in offs for d in (-1, 0, 1, -1800, 1800)})
        ctx.subrng("c05-vtz-" + vname).shuffle(wps)
        for w in wps:
            pre = sorted({t for t in (w - o for o in offs)
                          if Z.ts((Z.EPOCH + Z.TD(seconds=t)).replace(tzinfo=tz.UTC).astimezone(Z.load_vtz(text))) == w})
            classify(ctx, "tzical-finite", "tzical:" + vname, shared, w, pre,
                     (max(offs) - min(offs)) if not pre else None, True, True)
    for s in Z.LOCAL_TZS:
        ref = tz.tzstr(s)
        std, dst = int(ref._std_offset.total_seconds()), int(ref._dst_offset.total_seconds())
        _, wps = Z.range_probes(ref, Z.YEARS[1:])
        with P4.local_tz(s) as z:
            blackbox("tzlocal", "tzlocal:" + s, z, std, dst, wps)
    assert os.environ.get("TZ") == "UTC"
    dub = tz.gettz("Europe/Dublin")
    ctx.sample({"zone": "Europe/Dublin", "wall": "2015-10-25 01:30", "line(amb;fold0;fold1)": Z.impl_wall_line(dub, 1445736600)})
    ctx.sample({"zone": "America/New_York", "wall": "2017-03-12 02:30 (gap)", "line": Z.impl_wall_line(tz.gettz("America/New_York"), 1489285800)})


def finalize_range(ctx, z, pending):
    """a failure in a range zone is a KNOWN finding only if the Lean model of tzrangebase gives the same
    (wrong) answers at that wall time AND the wall time lies where the recorded defect lives"""
    if not pending:
        return
    std_, dst_, has_, tbl_ = Z.range_zone_params(z, range(min(Z.YEARS) - 1, max(Z.YEARS) + 2))
    ws = [c["w"] for _, c, _ in pending]
    got = ctx.driver(["range.wall %d %d %d %s %s" % (std_, dst_, has_, Z.ilist(tbl_), Z.ilist(ws))])[0].split()[1:]
    for (what, case, probs), g in zip(pending, got):
        case.update(Z.range_case_fields(z, case["w"], wall=True))
        case["model_same"] = (g == Z.impl_wall_line(z, case["w"], with_dst_name=False))
        Z.report(ctx, KNOWN, what, case, probs)


E0 = 719163 * 86400


def posix_sweep(ctx):
    """independent pre-image oracle for tzstr / tzrange / tzlocal / tzical zones built from generated POSIX
    rule specs: the pre-images of a wall time are computed from the Lean spec (`posix.off`, Spec/Posix.lean):
    t in {w - std, w - dst} with t + Posix.offsetAt(t) = w"""
    from dateutil import tz
    from props import c08 as P8
    rng = ctx.subrng("c05-posix")
    specs = []
    while len(specs) < ctx.budget(6, 40):
        sp = P8.gen_spec(rng)
        if not P8.in_d_c08(sp):
            specs.append(sp)
    ical_spec = {"s": "EST5EDT,M4.1.0,M10.5.0", "std": -18000, "dst": -14400, "sr": ("M", 4, 1, 0), "st": 7200,
                 "er": ("M", 10, 5, 0), "et": 7200}
    jobs = []
    for k, sp in enumerate(specs):
        zs = tz.tzstr(sp["s"])
        jobs.append(("tzstr", "tzstr:" + sp["s"], zs, sp, None))
        jobs.append(("tzrange", "tzrange~" + sp["s"], P8.equivalent_tzrange(sp), sp, None))
        if k < ctx.budget(2, 8):
            jobs.append(("tzlocal", "tzlocal:" + P8.posix_canon(sp), None, sp, P8.posix_canon(sp)))
    with warnings.catch_warnings():
        warnings.simplefilter("ignore")
        jobs.append(("tzical", "tzical:US-Eastern", tz.tzical(io.StringIO(Z.VTZ)).get(), ical_spec, None))
    years = [2000, 2021]
    for kind, name, z, sp, tzenv in jobs:
        ref = tz.tzstr(sp["s"])
        _, wps = Z.range_probes(ref, years)
        cands = [(w - sp["std"], w - sp["dst"]) for w in wps]
        reqs = ["posix.off %d %d %s %d %s %d %d" % (sp["std"], sp["dst"], P8.rule_wire(sp["sr"]), sp["st"],
                                                      P8.rule_wire(sp["er"]), sp["et"], t + E0) for pair in cands for t in pair]
        offs = [int(r.split()[1]) for r in ctx.driver(reqs)]
        def run(z):
            for i, w in enumerate(wps):
                pre = sorted({t for t, o in zip(cands[i], offs[2 * i: 2 * i + 2]) if t + o == w})
                classify(ctx, kind + "-posix", name, z, w, pre, (sp["dst"] - sp["std"]) if not pre else None, True, True,
                         {"spec": sp["s"]})
        if tzenv is not None:
            with P4.local_tz(tzenv) as zl:
                run(zl)
        else:
            run(z)
        ctx.count("posix_sweep_zones:" + kind)


KNOWN = {
    "D-C05r": Z.k_c05r, "D-C04y": Z.k_c04y,
}


def replay(ctx, payload):
    from dateutil import tz
    c = payload["violation"]["case"]
    if c["kind"] == "foreign":
        sub = type(ctx)(ctx.prop, ctx.tier, ctx.seed)
        foreign_resolve(sub)
        bad = [v for v in sub.violations if v["case"].get("zone") == c["zone"] and v["case"].get("w") == c["w"]]
        for v in bad[:3]:
            print(v["what"])
        return not bad
    if c["kind"] == "tzfile":
        data = bytes.fromhex(c["stream"]) if c.get("stream") else open(os.path.join(Z.ROOT, c["zone"]), "rb").read()
        z = tz.tzfile(io.BytesIO(data)); pre = Z.Timeline(data).pre(c["w"])
    elif c["kind"] == "range" and c["zone"].startswith("tzstr:"):
        z = tz.tzstr(c["zone"][6:]); pre = None
    else:
        print("replay supports tzfile / tzstr cases"); return False
    us = c.get("us", 0)
    print("zone=%s wall=%d us=%d pre-images=%s impl(amb;fold0;fold1)=%s" % (c["zone"], c["w"], us, pre, Z.impl_wall_line(z, c["w"], us=us)))
    if pre is None:
        return False
    global forms_all, OTHER_FIXED
    forms_all = True
    OTHER_FIXED = tz.tzoffset("X", 19800)
    before = len(ctx.violations)
    classify(ctx, "tzfile", c["zone"], z, c["w"], pre, None, True, True, us=us)
    for v in ctx.violations[before:]:
        print("still failing:", v["what"])
    return len(ctx.violations) == before


# --- appended by the translator tie (wt-iso): the tz lookup functions re-translated from tz/tz.py and tz/_common.py
# (Generated/TzKernels.lean, ops tzgen.*) are compared with the implementation's methods on every run
_correspondence_without_tzgen = correspondence


def correspondence(ctx):
    _correspondence_without_tzgen(ctx)
    import tzgenlib
    tzgenlib.validate(ctx, quick_zones=8, quick_syn=8)

TRUSTED = TRUSTED + [
    "translator tie: harness/translate_dt.py (DtPy) re-translates tzfile._find_last_transition/_get_ttinfo/_find_ttinfo/_resolve_ambiguous_time/_offset_before/is_ambiguous/fromutc/utcoffset/dst/tzname, _datetime_to_timestamp and tzrangebase._dst_base_offset/_naive_isdst/is_ambiguous/_isdst/utcoffset/dst/tzname/fromutc from /repo on every run into Generated/TzKernels.lean; Proofs/TzGenEq*.lean prove each equal to the function of Model/Zones.lean (for datetimes with microseconds; tzfile: on every coherent zone, i.e. build of a WF table with a transition), Properties/TzGen.lean lists the obligations gen_eq_model_* and the `_gen` twins in the audit; a behaviour-changing edit breaks the translation or a named obligation",
    "named primitives of the DtPy translator (Model/DtPy.lean), trusted with their documented meaning and exercised by the tzgen.* validation against the implementation's methods on every run: a datetime as (microseconds of the naive reading, fold, tzinfo-is-self), datetime +/- timedelta resets fold, timedelta.total_seconds() as an exact number (float rounding not modelled), int() truncation, bisect.bisect_right as its loop, list indexing with IndexError, attribute of None as AttributeError, unpacking None as TypeError, OverflowError of datetime arithmetic not modelled, `dt is None` tests on datetime parameters statically false; in the `_tzinfo` base-class functions `dt.utcoffset()`/`dt.dst()` are the zone's abstract offset functions applied to (wall seconds, fold) and `self.is_ambiguous(dt)` is dynamic dispatch (DtPy.dispatchAmbiguous: a subclass override if the GenericZone has one, else the translated base method)",
]

# --- appended by the translator tie (wt-iso), tzlocal: _naive_is_dst/is_ambiguous/_isdst/utcoffset/dst/tzname are re-translated
# (Generated/TzObjKernels.lean) and compared with a real tz.tzlocal() under TZ settings (op tzgen.local.wall, in tzgenlib.validate)
TRUSTED = TRUSTED + [
    "tzlocal translator tie: `time.localtime(u).tm_isdst` and `time.timezone` are named primitives (Model/ObjPy.lean: localtimeIsdst = the zone model's yearly-rule predicate localNaiveIsdst at u + stdoffset with the fraction floored, timeTimezone = -stdoffset); `getattr(dt, 'fold', None)` is the fold (Python >= 3.6); exercised against tz.tzlocal() under several TZ settings on every run",
]


# --- ONE ZONE OBJECT, MANY CALLS (wt-tzrule): the PEP 495 classification of a tzical zone goes through `_find_comp` and its ten-entry
# cache (two parallel lists under `_cache_lock`); two threads classifying wall times on ONE zone object must get what a fresh zone gives
def oracle_shared_pep495(ctx):
    import datetime
    import tzshared as S
    from props import c17
    rng = ctx.subrng("shared-pep495")
    funcs = c17._shared_funcs()
    for k in range(ctx.budget(1, 8)):
        spec = c17.gen_spec(rng)
        text = c17.vtimezone(spec, order=k % 2, first_year=1999)
        mk = lambda text=text: c17.load(text).get()
        y0, y1 = rng.sample(range(2000, 2030), 2)
        tu0, tu1 = c17.transitions_utc(spec, y0), c17.transitions_utc(spec, y1)
        half = (spec["dst"] - spec["std"]) // 2
        amb = tu1[1] + datetime.timedelta(seconds=spec["std"] + half)          # read twice: inside the repeated interval
        gap = tu1[0] + datetime.timedelta(seconds=spec["std"] + half)          # skipped: inside the gap
        summer = tu0[0] + datetime.timedelta(seconds=spec["dst"] + 7200)
        winter = tu0[1] + datetime.timedelta(seconds=spec["std"] + 7200)
        case = {"kind": "threads", "zone": "tzical", "text": text, "years": [y0, y1]}
        with warnings.catch_warnings():
            warnings.simplefilter("ignore")
            for warm, jobs in (([("off", summer, 0)], [[("ambg", amb)], [("ambg", amb)]]),
                               ([("off", summer, 0)], [[("exists", gap)], [("off", summer, 0)]]),
                               ([("off", winter, 0), ("off", summer, 0)], [[("ambg", amb)], [("off", winter, 0)]]),
                               ([], [[("off", summer, 0)], [("off", winter, 0)]])):
                if not S.threads(ctx, "tzical-two-threads-pep495", mk, mk, funcs, "_cache_lock", warm, jobs, case):
                    break
    ctx.count("shared_object_zones_pep495")

_oracle_without_shared = oracle

def oracle(ctx):
    _oracle_without_shared(ctx)
    oracle_shared_pep495(ctx)

_replay_without_shared = replay

def replay(ctx, payload):
    c = payload["violation"]["case"]
    if c.get("kind") == "threads" and c.get("text"):
        import tzshared as S
        from props import c17
        print(payload["violation"]["what"])
        mk = lambda: c17.load(c["text"]).get()
        with warnings.catch_warnings():
            warnings.simplefilter("ignore")
            return S.replay_threads(mk, mk, c17._shared_funcs(), "_cache_lock", c)
    return _replay_without_shared(ctx, payload)

TRUSTED = TRUSTED + [
    "one object, many calls: two-thread statement-level schedules (harness/tzshared.py, sys.settrace, `_cache_lock` replaced by a cooperative lock) over _tzicalvtz._find_comp/_find_compdt/utcoffset/dst while both threads classify wall times (datetime_ambiguous / datetime_exists / utcoffset) on ONE tzical zone; every schedule's answers are compared with a fresh zone's",
]
# --- end of the appended block


# --- translator tie for the HELPERS (wt-tzfile): datetime_exists / datetime_ambiguous / resolve_imaginary are re-translated from
# tz/tz.py on every run (harness/translate_tzhelp.py -> Generated/TzHelpKernels.lean) and run by the driver op tzhelp.wall in every
# argument form (aware dt; naive dt + tz; dt attached to another zone + tz) against the implementation's functions
_correspondence_without_tzhelp = correspondence


def correspondence(ctx):
    _correspondence_without_tzhelp(ctx)
    import tzhelplib
    tzhelplib.validate_helpers(ctx, P4.tzfile_streams(ctx))


TRUSTED = TRUSTED + [
    "translator tie for the helpers: harness/translate_tzhelp.py (HelpPy) re-translates datetime_exists, datetime_ambiguous and resolve_imaginary (repaired text) from /repo on every run into Generated/TzHelpKernels.lean; Properties/TzHelpGen.lean proves each equal to the helper model of Model/Zones.lean for every argument form (gen_datetime_exists_eq_model, gen_datetime_ambiguous_eq_model, gen_resolve_imaginary_eq_model) and restates exists_iff / ambiguous_iff / resolve_imaginary_gap / _of_exists about the helpers as written; named primitives (Model/HelpPy.lean), trusted with their documented meaning and exercised by tzhelp.wall on every run: a zone object with identity, datetimes as (wall seconds, fold, tzinfo) without microseconds, CPython's astimezone incl. its identity short-cut (a naive receiver is outside the model), `replace(tzinfo=None)` results tracked statically as naive",
]


# --- ONE shared tzstr / tzrange object, PEP 495 queries (wt-tzfile, seeded C05K): harness/c05shared.py over builder tzrule's tzshared.py
_oracle_without_shared_range = oracle
_replay_without_shared_range = replay


def oracle(ctx):
    _oracle_without_shared_range(ctx)
    import c05shared
    c05shared.oracle(ctx)


def replay(ctx, payload):
    c = payload["violation"]["case"]
    if c.get("kind") in ("history", "threads") and c.get("s") and c.get("zone") in ("tzstr", "tzrange"):
        from props import c08
        return c08.replay(ctx, payload)
    return _replay_without_shared_range(ctx, payload)
